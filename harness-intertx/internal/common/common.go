// Package common holds helpers shared by all correspondence families:
// a deterministic PRNG, a Coq term printer and the summary/shard writer.
package common

import (
	"encoding/json"
	"fmt"
	"math/big"
	"os"
	"path/filepath"
	"sort"
	"strings"
)

// ---------- PRNG (splitmix64) ----------

type Rng struct{ s uint64 }

func NewRng(seed uint64) *Rng { return &Rng{s: seed} }

func (r *Rng) Uint64() uint64 {
	r.s += 0x9e3779b97f4a7c15
	z := r.s
	z = (z ^ (z >> 30)) * 0xbf58476d1ce4e5b9
	z = (z ^ (z >> 27)) * 0x94d049bb133111eb
	return z ^ (z >> 31)
}

// Intn returns a value in [0,n). n must be > 0.
func (r *Rng) Intn(n int) int { return int(r.Uint64() % uint64(n)) }

// Range returns a value in [lo,hi] inclusive.
func (r *Rng) Range(lo, hi int) int { return lo + r.Intn(hi-lo+1) }

func (r *Rng) Bool() bool { return r.Uint64()&1 == 1 }

// Chance returns true with probability num/den.
func (r *Rng) Chance(num, den int) bool { return r.Intn(den) < num }

func (r *Rng) Bytes(n int) []byte {
	out := make([]byte, n)
	for i := range out {
		out[i] = byte(r.Uint64())
	}
	return out
}

// Fork derives an independent stream (so that adding draws in one place does not shift another).
func (r *Rng) Fork() *Rng { return NewRng(r.Uint64()) }

// ---------- Coq term printing ----------

// CoqBytes prints a Go byte string as a Coq term of type `bytes` (list Byte.byte).
// Printable ASCII without quote or backslash uses the (b "...") literal helper of Regen.Base.Bytes.
func CoqBytes(s []byte) string {
	if len(s) == 0 {
		return "[]"
	}
	printable := true
	for _, c := range s {
		if c < 0x20 || c > 0x7e || c == '"' {
			printable = false
			break
		}
	}
	if printable {
		return fmt.Sprintf("(b \"%s\")", string(s))
	}
	var sb strings.Builder
	sb.WriteString("[")
	for i, c := range s {
		if i > 0 {
			sb.WriteString(";")
		}
		fmt.Fprintf(&sb, "x%02x", c)
	}
	sb.WriteString("]")
	return sb.String()
}

func CoqStr(s string) string { return CoqBytes([]byte(s)) }

// CoqZ prints an integer as a Coq Z literal.
func CoqZ(z *big.Int) string {
	if z.Sign() < 0 {
		return "(" + z.String() + ")%Z"
	}
	return z.String() + "%Z"
}
func CoqZi(i int64) string { return CoqZ(big.NewInt(i)) }

// CoqN prints a non-negative integer as an N literal.
func CoqN(n uint64) string { return fmt.Sprintf("%d%%N", n) }

func CoqBool(v bool) string {
	if v {
		return "true"
	}
	return "false"
}

func CoqOpt(present bool, term string) string {
	if !present {
		return "None"
	}
	return "(Some " + term + ")"
}

func CoqList(items []string) string { return "[" + strings.Join(items, "; ") + "]" }

// ---------- shards and summary ----------

type MonitorViolation struct {
	Property string      `json:"property"`
	Key      string      `json:"key"`
	Desc     string      `json:"desc"`
	Input    interface{} `json:"input"`
}

type Summary struct {
	Family             string             `json:"family"`
	Seed               uint64             `json:"seed"`
	Tier               string             `json:"tier"`
	Evaluations        int                `json:"evaluations"`
	DistinctNontrivial int                `json:"distinct_nontrivial"`
	Rule               string             `json:"rule"`
	Histogram          map[string]int     `json:"histogram"`
	Samples            []interface{}      `json:"samples"`
	Shards             []string           `json:"shards"`
	MonitorViolations  []MonitorViolation `json:"monitor_violations"`
	Extra              map[string]interface{} `json:"extra,omitempty"`
}

// ShardWriter collects Coq case terms and writes cases_NNN.v files of at most PerShard cases.
type ShardWriter struct {
	Dir      string
	RunMod   string // e.g. "Regen.Cases.DecRun"
	CaseType string // e.g. "dec_case"
	PerShard int
	Preamble string // extra Require/Open Scope lines
	cur      []string
	Shards   []string
}

func (w *ShardWriter) Add(term string) error {
	w.cur = append(w.cur, term)
	if len(w.cur) >= w.PerShard {
		return w.Flush()
	}
	return nil
}

func (w *ShardWriter) Flush() error {
	if len(w.cur) == 0 {
		return nil
	}
	name := fmt.Sprintf("cases_%03d.v", len(w.Shards))
	var sb strings.Builder
	sb.WriteString("From Coq Require Import List ZArith NArith String Strings.Byte.\n")
	sb.WriteString("Require Import Regen.Base.Bytes.\n")
	sb.WriteString("Require Import " + w.RunMod + ".\n")
	sb.WriteString("Import ListNotations.\nOpen Scope string_scope.\nOpen Scope list_scope.\n")
	sb.WriteString(w.Preamble)
	sb.WriteString("Definition cases : list " + w.CaseType + " := [\n")
	sb.WriteString(strings.Join(w.cur, ";\n"))
	sb.WriteString("\n].\nDefinition M := Eval vm_compute in mismatches cases.\nPrint M.\n")
	if err := os.WriteFile(filepath.Join(w.Dir, name), []byte(sb.String()), 0o644); err != nil {
		return err
	}
	w.Shards = append(w.Shards, name)
	w.cur = nil
	return nil
}

func WriteJSON(path string, v interface{}) error {
	bz, err := json.MarshalIndent(v, "", " ")
	if err != nil {
		return err
	}
	return os.WriteFile(path, bz, 0o644)
}

// SortedKeys returns the keys of a string-keyed map in sorted order.
func SortedKeys[V any](m map[string]V) []string {
	ks := make([]string, 0, len(m))
	for k := range m {
		ks = append(ks, k)
	}
	sort.Strings(ks)
	return ks
}
