// Command intertx is the correspondence harness for property C20 (x/intertx Msg/SubmitTx).
//
// It drives the REAL keeper (keeper.NewKeeper from /repo/x/intertx) with hand-written recording
// fakes for its two collaborators, calls MsgSubmitTx.ValidateBasic, GetSigners and
// Keeper.SubmitTx, and
//   - emits one Coq case per call for Regen.Cases.IntertxRun (model correspondence), and
//   - checks property C20 directly on what the fakes recorded (monitors, independent of the model).
//
// Usage: intertx -seed <uint64> -tier quick|thorough -out <dir>
package main

import (
	"bytes"
	"crypto/sha256"
	"encoding/hex"
	"errors"
	"flag"
	"fmt"
	"math/big"
	"os"
	"path/filepath"
	"strings"
	"time"

	"github.com/cometbft/cometbft/libs/log"
	tmproto "github.com/cometbft/cometbft/proto/tendermint/types"
	"github.com/cosmos/cosmos-sdk/codec"
	codectypes "github.com/cosmos/cosmos-sdk/codec/types"
	sdk "github.com/cosmos/cosmos-sdk/types"
	sdkerrors "github.com/cosmos/cosmos-sdk/types/errors"
	"github.com/cosmos/cosmos-sdk/x/authz"
	banktypes "github.com/cosmos/cosmos-sdk/x/bank/types"
	capabilitytypes "github.com/cosmos/cosmos-sdk/x/capability/types"
	govv1beta1 "github.com/cosmos/cosmos-sdk/x/gov/types/v1beta1"
	stakingtypes "github.com/cosmos/cosmos-sdk/x/staking/types"
	"github.com/cosmos/gogoproto/proto"
	icatypes "github.com/cosmos/ibc-go/v7/modules/apps/27-interchain-accounts/types"
	channeltypes "github.com/cosmos/ibc-go/v7/modules/core/04-channel/types"

	"github.com/regen-network/regen-ledger/x/intertx/keeper"
	v1 "github.com/regen-network/regen-ledger/x/intertx/types/v1"

	"verif/harness-intertx/internal/common"
)

// ---------- recording fakes for the two collaborators ----------

type sendCall struct {
	cap     *capabilitytypes.Capability
	conn    string
	port    string
	typ     icatypes.Type
	data    []byte
	memo    string
	timeout uint64
}

type fakeICA struct {
	keyConn, keyPort string
	chanID           string
	hasChan          bool
	sendOK           bool
	chanQueries      [][2]string
	sends            []sendCall
	otherCalls       int
}

var errInjectedSendTx = errors.New("injected SendTx failure")

func (f *fakeICA) RegisterInterchainAccount(ctx sdk.Context, connectionID, owner, version string) error {
	f.otherCalls++
	return nil
}

func (f *fakeICA) GetActiveChannelID(ctx sdk.Context, connectionID, portID string) (string, bool) {
	f.chanQueries = append(f.chanQueries, [2]string{connectionID, portID})
	if f.hasChan && connectionID == f.keyConn && portID == f.keyPort {
		return f.chanID, true
	}
	return "", false
}

func (f *fakeICA) SendTx(ctx sdk.Context, chanCap *capabilitytypes.Capability, connectionID, portID string, d icatypes.InterchainAccountPacketData, timeoutTimestamp uint64) (uint64, error) {
	f.sends = append(f.sends, sendCall{chanCap, connectionID, portID, d.Type, append([]byte(nil), d.Data...), d.Memo, timeoutTimestamp})
	if !f.sendOK {
		return 0, errInjectedSendTx
	}
	return uint64(len(f.sends)), nil
}

func (f *fakeICA) GetInterchainAccountAddress(ctx sdk.Context, connectionID string, portID string) (string, bool) {
	f.otherCalls++
	return "", false
}

type fakeCap struct {
	key        string
	cap        *capabilitytypes.Capability
	hasCap     bool
	capQueries []string
	otherCalls int
}

func (f *fakeCap) ClaimCapability(ctx sdk.Context, cpb *capabilitytypes.Capability, name string) error {
	f.otherCalls++
	return nil
}

func (f *fakeCap) GetCapability(ctx sdk.Context, name string) (*capabilitytypes.Capability, bool) {
	f.capQueries = append(f.capQueries, name)
	if f.hasCap && name == f.key {
		return f.cap, true
	}
	return nil, false
}

// The keeper under test lives for a whole session of consecutive cases (a process lifetime between restarts); its two
// collaborators are proxies that forward to the recording fakes of the case being run, so that anything the keeper
// remembers from one message to the next (it must remember nothing) shows up in a later case.
type proxyICA struct{ cur *fakeICA }

func (p *proxyICA) RegisterInterchainAccount(ctx sdk.Context, connectionID, owner, version string) error {
	return p.cur.RegisterInterchainAccount(ctx, connectionID, owner, version)
}
func (p *proxyICA) GetActiveChannelID(ctx sdk.Context, connectionID, portID string) (string, bool) {
	return p.cur.GetActiveChannelID(ctx, connectionID, portID)
}
func (p *proxyICA) SendTx(ctx sdk.Context, chanCap *capabilitytypes.Capability, connectionID, portID string, d icatypes.InterchainAccountPacketData, timeoutTimestamp uint64) (uint64, error) {
	return p.cur.SendTx(ctx, chanCap, connectionID, portID, d, timeoutTimestamp)
}
func (p *proxyICA) GetInterchainAccountAddress(ctx sdk.Context, connectionID string, portID string) (string, bool) {
	return p.cur.GetInterchainAccountAddress(ctx, connectionID, portID)
}

type proxyCap struct{ cur *fakeCap }

func (p *proxyCap) ClaimCapability(ctx sdk.Context, cpb *capabilitytypes.Capability, name string) error {
	return p.cur.ClaimCapability(ctx, cpb, name)
}
func (p *proxyCap) GetCapability(ctx sdk.Context, name string) (*capabilitytypes.Capability, bool) {
	return p.cur.GetCapability(ctx, name)
}

type session struct {
	k    keeper.Keeper
	ica  *proxyICA
	cap  *proxyCap
	left int
}

const sessionLen = 40 // cases per keeper lifetime

var sess *session

func currentSession(cdc *codec.ProtoCodec) *session {
	if sess == nil || sess.left == 0 {
		pi, pc := &proxyICA{}, &proxyCap{}
		sess = &session{k: keeper.NewKeeper(cdc, pi, pc), ica: pi, cap: pc, left: sessionLen}
	}
	sess.left--
	return sess
}

// recentOwners: valid owners of earlier cases, reused (same spelling, all upper case, all lower case) so that one
// keeper lifetime sees the same account under different spellings and the same spelling repeatedly.
var recentOwners []string

// ---------- case description ----------

type innerKind int

const (
	innerPacked       innerKind = iota // codectypes.NewAnyWithValue(msg)
	innerUnpacked                      // Any{TypeUrl, canonical Value} + InterfaceRegistry.UnpackAny
	innerNonCanonical                  // Any{TypeUrl, non-canonical Value} + UnpackAny (cached value re-marshals differently)
	innerRaw                           // Any{TypeUrl, Value} without cached value
	innerNotMsg                        // NewAnyWithValue of a proto.Message that is not an sdk.Msg
	innerNil                           // msg.Msg == nil
)

var innerKindNames = []string{"packed", "unpacked", "noncanonical", "raw_uncached", "not_sdk_msg", "nil"}

type testCase struct {
	label string
	// fake configuration
	keyConn, keyPort string
	chanID           string
	hasChan          bool
	capKey           string
	capIdx           uint64
	hasCap           bool
	sendOK           bool
	blockTime        time.Time
	// message
	owner, conn string
	kind        innerKind
	any         *codectypes.Any // as supplied in MsgSubmitTx.Msg (nil for innerNil)
	shapes      []string        // histogram keys
}

// ---------- generators ----------

type gen struct {
	r   *common.Rng
	ir  codectypes.InterfaceRegistry
	cdc *codec.ProtoCodec
	big bool // allow 64 KiB strings in this case
}

var asciiAlphabet = "abcdefghijklmnopqrstuvwxyz0123456789ABCDEFGHIJKLMNOPQRSTUVWXYZ-_./: "

func (g *gen) str(max int) string {
	n := g.r.Intn(max + 1)
	var sb strings.Builder
	for i := 0; i < n; i++ {
		sb.WriteByte(asciiAlphabet[g.r.Intn(len(asciiAlphabet))])
	}
	return sb.String()
}

// arbitrary valid-UTF-8 field content: empty, short, unicode, long, 64 KiB
func (g *gen) field() string {
	switch k := g.r.Intn(40); {
	case k < 6:
		return ""
	case k < 24:
		return g.str(24)
	case k < 31:
		return g.validAddr()
	case k < 35:
		parts := []string{"\u00e9", "\u65e5\u672c", " ", "\u00a0", "\x00", "\n", "\"", "\\", "\U0001F331", "a", "\u2003"}
		var sb strings.Builder
		for i, n := 0, g.r.Range(1, 8); i < n; i++ {
			sb.WriteString(parts[g.r.Intn(len(parts))])
		}
		return sb.String()
	case k < 38:
		return g.str(300)
	case k < 39:
		return strings.Repeat(g.str(7)+"x", g.r.Range(16, 100))
	default:
		if g.big {
			g.big = false
			unit := g.str(15) + "y"
			return strings.Repeat(unit, 65536/len(unit)+1)[:65536]
		}
		return g.str(2000)
	}
}

func (g *gen) validAddr() string {
	n := 20
	if g.r.Chance(1, 4) {
		n = 32
	}
	return sdk.AccAddress(g.r.Bytes(n)).String()
}

func (g *gen) intAmount() sdk.Int {
	switch g.r.Intn(8) {
	case 0:
		return sdk.Int{} // nil big.Int, marshals as "0"
	case 1:
		return sdk.ZeroInt()
	case 2:
		return sdk.NewInt(-int64(g.r.Intn(1000)))
	case 3:
		z := new(big.Int).SetBytes(g.r.Bytes(31))
		return sdk.NewIntFromBigInt(z)
	default:
		return sdk.NewInt(int64(g.r.Uint64() >> uint(1+g.r.Intn(62))))
	}
}

func (g *gen) coin() sdk.Coin {
	return sdk.Coin{Denom: g.field(), Amount: g.intAmount()}
}

func (g *gen) coins() sdk.Coins {
	var n int
	switch g.r.Intn(10) {
	case 0, 1:
		n = 0
	case 2:
		n = g.r.Range(20, 150) // many coins
	default:
		n = g.r.Range(1, 4)
	}
	if n == 0 {
		if g.r.Bool() {
			return nil
		}
		return sdk.Coins{}
	}
	cs := make(sdk.Coins, n)
	for i := range cs {
		if n > 10 {
			cs[i] = sdk.Coin{Denom: g.str(12), Amount: g.intAmount()}
		} else {
			cs[i] = g.coin()
		}
	}
	return cs
}

// innerMsg returns an arbitrary registered sdk.Msg with arbitrary field contents.
func (g *gen) innerMsg(depth int) (sdk.Msg, string) {
	k := g.r.Intn(9)
	if depth > 1 && k >= 6 {
		k = g.r.Intn(6)
	}
	switch k {
	case 0, 1:
		return &banktypes.MsgSend{FromAddress: g.field(), ToAddress: g.field(), Amount: g.coins()}, "MsgSend"
	case 2:
		m := &banktypes.MsgMultiSend{}
		for i, n := 0, g.r.Intn(4); i < n; i++ {
			m.Inputs = append(m.Inputs, banktypes.Input{Address: g.field(), Coins: g.coins()})
		}
		for i, n := 0, g.r.Intn(4); i < n; i++ {
			m.Outputs = append(m.Outputs, banktypes.Output{Address: g.field(), Coins: g.coins()})
		}
		return m, "MsgMultiSend"
	case 3:
		return &v1.MsgRegisterAccount{Owner: g.field(), ConnectionId: g.field(), Version: g.field()}, "MsgRegisterAccount"
	case 4:
		return &stakingtypes.MsgDelegate{DelegatorAddress: g.field(), ValidatorAddress: g.field(), Amount: g.coin()}, "MsgDelegate"
	case 5:
		return &govv1beta1.MsgVote{ProposalId: g.r.Uint64() >> uint(g.r.Intn(64)), Voter: g.field(), Option: govv1beta1.VoteOption(g.r.Intn(6))}, "MsgVote"
	case 6:
		// a nested MsgSubmitTx naming ANOTHER owner: must travel as opaque payload
		in, _ := g.innerMsg(depth + 1)
		a, err := codectypes.NewAnyWithValue(in)
		must(err)
		return &v1.MsgSubmitTx{Owner: g.validAddr(), ConnectionId: g.field(), Msg: a}, "MsgSubmitTx"
	case 7:
		m := &authz.MsgExec{Grantee: g.field()}
		for i, n := 0, g.r.Intn(4); i < n; i++ {
			in, _ := g.innerMsg(depth + 1)
			a, err := codectypes.NewAnyWithValue(in)
			must(err)
			m.Msgs = append(m.Msgs, a)
		}
		return m, "MsgExec"
	default:
		return &banktypes.MsgSend{}, "MsgSend_empty"
	}
}

func (g *gen) inner(tc *testCase) {
	k := g.r.Intn(40)
	switch {
	case k < 26:
		tc.kind = innerPacked
	case k < 30:
		tc.kind = innerUnpacked
	case k < 33:
		tc.kind = innerNonCanonical
	case k < 35:
		tc.kind = innerRaw
	case k < 37:
		tc.kind = innerNotMsg
	default:
		tc.kind = innerNil
	}
	g.buildInner(tc)
}

func (g *gen) buildInner(tc *testCase) {
	tc.shapes = append(tc.shapes, "inner:"+innerKindNames[tc.kind])
	if tc.kind == innerNil {
		return
	}
	if tc.kind == innerNotMsg {
		var pm proto.Message
		if g.r.Bool() {
			pm = &banktypes.Params{DefaultSendEnabled: g.r.Bool()}
		} else {
			c := g.coin()
			pm = &c
		}
		a, err := codectypes.NewAnyWithValue(pm)
		must(err)
		tc.any = a
		return
	}
	m, name := g.innerMsg(0)
	tc.shapes = append(tc.shapes, "innermsg:"+name)
	a, err := codectypes.NewAnyWithValue(m)
	must(err)
	if len(a.Value) == 0 {
		tc.shapes = append(tc.shapes, "innervalue:empty")
	} else if len(a.Value) >= 65536 {
		tc.shapes = append(tc.shapes, "innervalue:>=64KiB")
	} else if len(a.Value) >= 16384 {
		tc.shapes = append(tc.shapes, "innervalue:>=16KiB")
	}
	switch tc.kind {
	case innerPacked:
		tc.any = a
	case innerRaw:
		tc.any = &codectypes.Any{TypeUrl: a.TypeUrl, Value: a.Value}
	case innerUnpacked, innerNonCanonical:
		val := append([]byte(nil), a.Value...)
		if tc.kind == innerNonCanonical {
			switch g.r.Intn(3) {
			case 0: // unknown non-critical varint field 2000 appended (dropped by the generated Unmarshal)
				val = append(val, 0x80, 0x7d, 0x05)
			case 1: // unknown length-delimited field 1500 prepended
				val = append([]byte{0xe2, 0x5d, 0x02, 'h', 'i'}, val...)
			default: // non-minimal varint in an appended unknown field
				val = append(val, 0x80, 0x7d, 0x85, 0x80, 0x00)
			}
		}
		raw := &codectypes.Any{TypeUrl: a.TypeUrl, Value: val}
		var sm sdk.Msg
		must(g.ir.UnpackAny(raw, &sm))
		tc.any = raw
	}
}

var spaceRunes = []string{" ", "\t", "\n", "\v", "\f", "\r", "\u0085", "\u00a0", "\u1680", "\u2000", "\u2001", "\u2005", "\u200a", "\u2028", "\u2029", "\u202f", "\u205f", "\u3000"}

// near-space byte sequences that are NOT whitespace (or not well-formed UTF-8)
var nearSpace = []string{"\u200b", "\u180e", "\ufeff", "\u0084", "\u0086", "\u00a1", "\u009f", "\u2027", "\u200b", "\u200c", "\u2060", "\u1681", "\u167f", "\u3001", "\u2fff", "\u205e", "\u2060", "\u202e", "\u2030", "\u2027",
	"\xc2", "\xe2\x80", "\xa0", "\x85", "\xe3\x80", "\xc0\xa0", "\xe2\x80\x80\x80", "\xe1\x9a", "\xe2", "\xc2\x20", "\xe2\x20\x80", "\x1c", "\x1f", "\x00", "\x08", "\x0e", "\x7f", "\x21"}

func (g *gen) spaces(min, max int) string {
	var sb strings.Builder
	for i, n := 0, g.r.Range(min, max); i < n; i++ {
		sb.WriteString(spaceRunes[g.r.Intn(len(spaceRunes))])
	}
	return sb.String()
}

func flipCase(s string, i int) string {
	bz := []byte(s)
	c := bz[i]
	switch {
	case c >= 'a' && c <= 'z':
		bz[i] = c - 32
	case c >= 'A' && c <= 'Z':
		bz[i] = c + 32
	default:
		bz[i] = c ^ 1
	}
	return string(bz)
}

// variant returns a string near-identical to s (never equal to it).
func (g *gen) variant(s string) (string, string) {
	if s == "" {
		return " ", "space"
	}
	switch g.r.Intn(7) {
	case 0:
		return s + " ", "trailing_space"
	case 1:
		return " " + s, "leading_space"
	case 2:
		return strings.ToUpper(s), "upper"
	case 3:
		i := g.r.Intn(len(s))
		return flipCase(s, i), "flip_one"
	case 4:
		return s[:len(s)-1], "drop_last"
	case 5:
		return s + string(s[len(s)-1]), "dup_last"
	default:
		i := g.r.Intn(len(s))
		bz := []byte(s)
		bz[i] ^= 1 << uint(g.r.Intn(7))
		if string(bz) == s {
			return s + "x", "append_x"
		}
		return string(bz), "bitflip"
	}
}

func (g *gen) owner(tc *testCase) {
	k := g.r.Intn(40)
	if len(recentOwners) > 0 && g.r.Chance(1, 4) {
		prev := recentOwners[len(recentOwners)-1-g.r.Intn(min(len(recentOwners), 6))]
		switch g.r.Intn(3) {
		case 0:
			tc.owner = prev
			tc.shapes = append(tc.shapes, "owner:recent_same_spelling")
		case 1:
			tc.owner = strings.ToUpper(prev)
			tc.shapes = append(tc.shapes, "owner:recent_account_uppercase")
		default:
			tc.owner = strings.ToLower(prev)
			tc.shapes = append(tc.shapes, "owner:recent_account_lowercase")
		}
		return
	}
	defer func() {
		if _, err := sdk.AccAddressFromBech32(tc.owner); err == nil {
			recentOwners = append(recentOwners, tc.owner)
		}
	}()
	switch {
	case k < 20:
		tc.owner = g.validAddr()
		tc.shapes = append(tc.shapes, "owner:valid_bech32")
	case k < 22:
		tc.owner = strings.ToUpper(g.validAddr())
		tc.shapes = append(tc.shapes, "owner:valid_bech32_uppercase")
	case k < 24:
		tc.owner = g.spaces(0, 2) + g.validAddr() + g.spaces(0, 2)
		tc.shapes = append(tc.shapes, "owner:bech32_with_spaces")
	case k < 25:
		tc.owner = ""
		tc.shapes = append(tc.shapes, "owner:empty")
	case k < 28:
		tc.owner = g.spaces(1, 6)
		tc.shapes = append(tc.shapes, "owner:whitespace_only")
	case k < 31:
		// whitespace mixed with a near-space sequence: must NOT be blank
		tc.owner = g.spaces(0, 3) + nearSpace[g.r.Intn(len(nearSpace))] + g.spaces(0, 3)
		tc.shapes = append(tc.shapes, "owner:near_blank")
	case k < 33:
		a := g.validAddr()
		tc.owner = flipCase(a, g.r.Intn(len(a)))
		tc.shapes = append(tc.shapes, "owner:bech32_corrupted")
	case k < 34:
		// valid bech32 with a foreign prefix
		bz := g.r.Bytes(20)
		s, err := sdk.Bech32ifyAddressBytes("cosmos", bz)
		must(err)
		tc.owner = s
		tc.shapes = append(tc.shapes, "owner:bech32_foreign_prefix")
	case k < 39:
		tc.owner = g.str(40)
		tc.shapes = append(tc.shapes, "owner:random_text")
	default:
		tc.owner = g.str(1200)
		tc.shapes = append(tc.shapes, "owner:long_text")
	}
}

func (g *gen) connID() string {
	switch k := g.r.Intn(12); {
	case k < 7:
		return fmt.Sprintf("connection-%d", g.r.Intn(1000))
	case k < 8:
		return ""
	case k < 9:
		return " connection-0 "
	case k < 10:
		return g.str(200)
	default:
		return g.str(12)
	}
}

func (g *gen) channelID() string {
	switch k := g.r.Intn(10); {
	case k < 7:
		return fmt.Sprintf("channel-%d", g.r.Intn(5000))
	case k < 8:
		return "" // found, with an empty id
	case k < 9:
		return "a/b/channels/c" // contains the path separator
	default:
		return g.str(30)
	}
}

// edge block times; exact Unix ns noted alongside
var edgeTimes = []time.Time{
	time.Date(1, 1, 1, 0, 0, 0, 0, time.UTC),
	time.Date(1, 1, 1, 0, 0, 0, 1, time.UTC),
	time.Unix(0, 0).UTC(),
	time.Unix(-60, 0).UTC(),                                 // timeout exactly 0
	time.Unix(-61, 999999999).UTC(),                         // timeout -1ns: wraps to 2^64-1
	time.Unix(-59, 0).UTC(),                                 // timeout 1s
	time.Unix(35235, 30).UTC(),                              // the block time of the repository's own unit test
	time.Unix(0, -1<<63).UTC(),                              // 1677-09-21, minimum int64 ns
	time.Unix(0, 1<<63-1).UTC(),                             // 2262-04-11T23:47:16.854775807Z, maximum int64 ns
	time.Unix(0, 1<<63-1).Add(-time.Minute).UTC(),           // +1min = max int64 ns exactly
	time.Unix(0, 1<<63-1).Add(-time.Minute + 1).UTC(),       // +1min overflows int64 by 1ns
	time.Date(2262, 4, 11, 23, 47, 16, 854775808, time.UTC), // first instant not representable as int64 ns
	time.Date(2554, 7, 21, 23, 33, 33, 709551615, time.UTC), // +1min = 2^64-1 ns (largest exact uint64)
	time.Date(2554, 7, 21, 23, 33, 33, 709551616, time.UTC), // +1min = 2^64 ns: wraps to 0
	time.Date(9999, 12, 31, 23, 59, 59, 999999999, time.UTC),
	time.Date(2024, 2, 29, 12, 0, 0, 0, time.FixedZone("x", 5*3600+1800)),
}

func (g *gen) blockTime(tc *testCase) {
	switch k := g.r.Intn(10); {
	case k < 5:
		// plausible chain time
		sec := int64(1577836800) + int64(g.r.Uint64()%(80*365*86400))
		tc.blockTime = time.Unix(sec, int64(g.r.Intn(1000000000))).UTC()
		tc.shapes = append(tc.shapes, "time:2020-2100")
	case k < 7:
		tc.blockTime = edgeTimes[g.r.Intn(len(edgeTimes))]
		tc.shapes = append(tc.shapes, "time:edge")
	default:
		// anywhere in the protobuf Timestamp range 0001..9999
		lo, hi := int64(-62135596800), int64(253402300799)
		sec := lo + int64(g.r.Uint64()%uint64(hi-lo+1))
		tc.blockTime = time.Unix(sec, int64(g.r.Intn(1000000000))).UTC()
		tc.shapes = append(tc.shapes, "time:0001-9999")
	}
}

// independent re-statement of the two formats (monitor oracle and fake configuration)
func wantPort(owner string) string { return "icacontroller-" + owner }
func wantCapPath(port, channel string) string {
	return "capabilities/ports/" + port + "/channels/" + channel
}

func (g *gen) randomCase() *testCase {
	tc := &testCase{label: "random"}
	g.big = g.r.Chance(1, 100)
	g.owner(tc)
	tc.conn = g.connID()
	g.inner(tc)
	g.blockTime(tc)

	// fake configuration: usually keyed for this very (connection, owner); sometimes for a neighbour
	tc.keyConn, tc.keyPort = tc.conn, wantPort(tc.owner)
	switch k := g.r.Intn(24); {
	case k < 2:
		v, how := g.variant(tc.owner)
		tc.keyPort = wantPort(v)
		tc.shapes = append(tc.shapes, "chan_key:other_owner_"+how)
	case k < 3:
		v, _ := g.variant(tc.conn)
		tc.keyConn = v
		tc.shapes = append(tc.shapes, "chan_key:other_connection")
	case k < 4:
		tc.keyPort = tc.owner // port without the prefix
		tc.shapes = append(tc.shapes, "chan_key:unprefixed_port")
	}
	tc.hasChan = !g.r.Chance(1, 8)
	tc.chanID = g.channelID()
	tc.capKey = wantCapPath(tc.keyPort, tc.chanID)
	switch k := g.r.Intn(24); {
	case k < 1:
		tc.capKey = wantCapPath(tc.keyPort, tc.chanID+"0")
		tc.shapes = append(tc.shapes, "cap_key:other_channel")
	case k < 2:
		v, _ := g.variant(tc.owner)
		tc.capKey = wantCapPath(wantPort(v), tc.chanID)
		tc.shapes = append(tc.shapes, "cap_key:other_owner")
	case k < 3:
		tc.capKey = "ports/" + tc.keyPort + "/channels/" + tc.chanID
		tc.shapes = append(tc.shapes, "cap_key:port_path_only")
	}
	tc.hasCap = !g.r.Chance(1, 8)
	tc.capIdx = g.r.Uint64() >> uint(g.r.Intn(64))
	tc.sendOK = !g.r.Chance(1, 10)
	return tc
}

// corpus: fixed regression inputs, run first on every seed
func (g *gen) corpus() []*testCase {
	addrA := sdk.AccAddress(bytes.Repeat([]byte{0x11}, 20)).String()
	addrB := sdk.AccAddress(bytes.Repeat([]byte{0x22}, 20)).String()
	send := &banktypes.MsgSend{FromAddress: addrA, ToAddress: addrB, Amount: sdk.NewCoins(sdk.NewInt64Coin("uregen", 10))}
	packed := func(m proto.Message) *codectypes.Any { a, err := codectypes.NewAnyWithValue(m); must(err); return a }
	base := func(label, owner string) *testCase {
		return &testCase{label: label, owner: owner, conn: "ch-5", kind: innerPacked, any: packed(send),
			keyConn: "ch-5", keyPort: wantPort(owner), chanID: "ch-1", hasChan: true,
			capKey: wantCapPath(wantPort(owner), "ch-1"), capIdx: 32, hasCap: true, sendOK: true,
			blockTime: time.Unix(35235, 30).UTC(), shapes: []string{"corpus"}}
	}
	var out []*testCase
	out = append(out, base("repo_unit_test", addrA))
	for i, o := range []string{"", " ", "\t\n\v\f\r ", "\u0085\u00a0", "\u1680\u2000\u2001\u2002\u2003\u2004\u2005\u2006\u2007\u2008\u2009\u200a\u2028\u2029\u202f\u205f\u3000", "\u200b", " \xc2", "\xe2\x80", " a ", "\u3000x", "\xe2\x80\x8b", "\xe2\x80\x8a", "\xe2\x81\x9f", "\xe2\x81\x9e", "\xe1\x9a\x80", "\xe1\x9a\x81", "\xe3\x80\x80", "\xe3\x80\x81", "\xc2\x85", "\xc2\x86", "\xe2\x80\xa7", "\xe2\x80\xaa", "\xe2\x80\xae", "\xe2\x80\xb0", "\xe2\x80\x7f", "\xe2\x80\x8b "} {
		out = append(out, base(fmt.Sprintf("blank_owner_%d", i), o))
	}
	// all four availability combinations
	for i := 0; i < 4; i++ {
		tc := base(fmt.Sprintf("availability_%d", i), addrA)
		tc.hasChan, tc.hasCap = i&1 == 1, i&2 == 2
		out = append(out, tc)
	}
	// owner B's message while only owner A's channel/capability exist (and vice versa)
	tc := base("other_owners_channel", addrB)
	tc.keyPort = wantPort(addrA)
	tc.capKey = wantCapPath(wantPort(addrA), "ch-1")
	out = append(out, tc)
	tc = base("other_owners_capability", addrB)
	tc.capKey = wantCapPath(wantPort(addrA), "ch-1")
	out = append(out, tc)
	up := base("uppercase_owner_same_account", strings.ToUpper(addrA))
	out = append(out, up)
	up2 := base("uppercase_owner_lowercase_channel", strings.ToUpper(addrA))
	up2.keyPort = wantPort(addrA)
	out = append(out, up2)
	// message shapes
	for i, k := range []innerKind{innerNil, innerRaw, innerNotMsg, innerUnpacked, innerNonCanonical} {
		tc := base(fmt.Sprintf("inner_kind_%d", i), addrA)
		tc.kind = k
		tc.shapes = []string{"corpus"}
		g.buildInner(tc)
		out = append(out, tc)
	}
	tc = base("inner_nil_no_channel", addrA)
	tc.kind, tc.any, tc.hasChan = innerNil, nil, false
	out = append(out, tc)
	tc = base("empty_inner_message", addrA)
	tc.any = packed(&banktypes.MsgSend{})
	out = append(out, tc)
	tc = base("empty_connection", addrA)
	tc.conn, tc.keyConn = "", ""
	out = append(out, tc)
	tc = base("sendtx_rejected", addrA)
	tc.sendOK = false
	out = append(out, tc)
	tc = base("empty_channel_id", addrA)
	tc.chanID = ""
	tc.capKey = wantCapPath(tc.keyPort, "")
	out = append(out, tc)
	for i, t := range edgeTimes {
		tc := base(fmt.Sprintf("edge_time_%d", i), addrA)
		tc.blockTime = t
		out = append(out, tc)
	}
	big := base("inner_64KiB_string", addrA)
	big.any = packed(&banktypes.MsgSend{FromAddress: strings.Repeat("0123456789abcdef", 4096), ToAddress: addrB})
	out = append(out, big)
	return out
}

// ---------- running one case ----------

type outcome struct {
	vbErr      error
	signers    []sdk.AccAddress
	addr       sdk.AccAddress
	addrErr    error
	resp       *v1.MsgSubmitTxResponse
	err        error
	panicked   interface{}
	ica        *fakeICA
	cap        *fakeCap
	cached     interface{}
	blockNs    *big.Int
	canonical  *codectypes.Any // canonical packing of the cached value (nil if none)
	innerIsMsg bool
}

func exactUnixNs(t time.Time) *big.Int {
	z := new(big.Int).Mul(big.NewInt(t.Unix()), big.NewInt(1000000000))
	return z.Add(z, big.NewInt(int64(t.Nanosecond())))
}

func run(cdc *codec.ProtoCodec, tc *testCase) *outcome {
	o := &outcome{}
	o.ica = &fakeICA{keyConn: tc.keyConn, keyPort: tc.keyPort, chanID: tc.chanID, hasChan: tc.hasChan, sendOK: tc.sendOK}
	o.cap = &fakeCap{key: tc.capKey, cap: capabilitytypes.NewCapability(tc.capIdx), hasCap: tc.hasCap}
	ss := currentSession(cdc)
	ss.ica.cur, ss.cap.cur = o.ica, o.cap
	k := ss.k
	ctx := sdk.NewContext(nil, tmproto.Header{Time: tc.blockTime}, false, log.NewNopLogger())
	o.blockNs = exactUnixNs(ctx.BlockTime())

	msg := &v1.MsgSubmitTx{Owner: tc.owner, ConnectionId: tc.conn, Msg: tc.any}
	o.vbErr = msg.ValidateBasic()
	o.signers = msg.GetSigners()
	o.addr, o.addrErr = sdk.AccAddressFromBech32(tc.owner)
	if tc.any != nil {
		o.cached = tc.any.GetCachedValue()
		if sm, ok := o.cached.(sdk.Msg); ok {
			o.innerIsMsg = true
			a, err := codectypes.NewAnyWithValue(sm)
			must(err)
			o.canonical = a
		}
	}
	func() {
		defer func() {
			if r := recover(); r != nil {
				o.panicked = r
			}
		}()
		o.resp, o.err = k.SubmitTx(sdk.WrapSDKContext(ctx), msg)
	}()
	return o
}

// ---------- error classes (names of the Coq constructors) ----------

func classifyVB(err error) string {
	switch {
	case err == nil:
		return "ONil"
	case errors.Is(err, sdkerrors.ErrInvalidAddress):
		return "(OErr EVBInvalidAddress)"
	case errors.Is(err, sdkerrors.ErrInvalidRequest) && strings.Contains(err.Error(), "owner cannot be empty"):
		return "(OErr EVBOwnerEmpty)"
	case errors.Is(err, sdkerrors.ErrInvalidRequest) && strings.Contains(err.Error(), "connection_id cannot be empty"):
		return "(OErr EVBConnectionEmpty)"
	case errors.Is(err, sdkerrors.ErrInvalidRequest) && strings.Contains(err.Error(), "msg cannot be empty"):
		return "(OErr EVBMsgEmpty)"
	}
	return "OUnknown"
}

func classifySubmit(tc *testCase, o *outcome) string {
	if o.panicked != nil {
		if e, ok := o.panicked.(error); ok && tc.any == nil && strings.Contains(e.Error(), "nil pointer dereference") {
			return "(OErr ENilMsgPanic)"
		}
		return "OUnknown"
	}
	err := o.err
	switch {
	case err == nil:
		if o.resp == nil {
			return "OUnknown"
		}
		return "ONil"
	case errors.Is(err, icatypes.ErrInvalidAccountAddress):
		return "(OErr EInvalidAccountAddress)"
	case errors.Is(err, icatypes.ErrActiveChannelNotFound):
		return "(OErr EActiveChannelNotFound)"
	case errors.Is(err, channeltypes.ErrChannelCapabilityNotFound):
		return "(OErr EChannelCapabilityNotFound)"
	case errors.Is(err, sdkerrors.ErrInvalidType):
		return "(OErr EInvalidType)"
	case err == errInjectedSendTx:
		return "(OErr ESendTxFailed)"
	}
	return "OUnknown"
}

// ---------- Coq printing ----------

// coqBytes prints a byte string compactly: printable ASCII up to 160 bytes as (b "..."), other short strings as
// (hx "<hex>"), long ones as (u63 <len> [<7 bytes per primitive int, big-endian, zero padded>]), in chunks
// (Coq's parser overflows its stack on very long literals and elaborates string literals slowly).
// hx and u63 are decoded by Regen.Cases.IntertxRun.
func coqChunk(s []byte) string {
	if len(s) == 0 {
		return "[]"
	}
	if len(s) <= 160 {
		printable := true
		for _, c := range s {
			if c < 0x20 || c > 0x7e || c == '"' {
				printable = false
				break
			}
		}
		if printable {
			return common.CoqBytes(s)
		}
		if len(s) <= 48 {
			return "(hx \"" + hex.EncodeToString(s) + "\")"
		}
	}
	var sb strings.Builder
	fmt.Fprintf(&sb, "(u63 %d%%N [", len(s))
	for i := 0; i < len(s); i += 7 {
		var grp [7]byte
		copy(grp[:], s[i:])
		if i > 0 {
			sb.WriteString(";")
		}
		sb.WriteString("0x" + hex.EncodeToString(grp[:]))
	}
	sb.WriteString("]%uint63)")
	return sb.String()
}

func coqBytes(s []byte) string {
	const chunk = 7 * 512
	if len(s) <= chunk {
		return coqChunk(s)
	}
	var parts []string
	for i := 0; i < len(s); i += chunk {
		j := i + chunk
		if j > len(s) {
			j = len(s)
		}
		parts = append(parts, coqChunk(s[i:j]))
	}
	return "(List.concat " + common.CoqList(parts) + ")"
}
func coqStr(s string) string { return coqBytes([]byte(s)) }

func coqAny(a *codectypes.Any) string {
	return "(MkAny " + coqStr(a.TypeUrl) + " " + coqBytes(a.Value) + ")"
}

func coqCase(id int, tc *testCase, o *outcome) string {
	var sb strings.Builder
	fmt.Fprintf(&sb, "(IntertxCase %s\n  %s %s %s\n  %s %s\n  %s %s %s\n",
		common.CoqN(uint64(id)),
		coqStr(tc.keyConn), coqStr(tc.keyPort), common.CoqOpt(tc.hasChan, coqStr(tc.chanID)),
		coqStr(tc.capKey), common.CoqOpt(tc.hasCap, common.CoqN(tc.capIdx)),
		common.CoqZ(o.blockNs), common.CoqOpt(o.addrErr == nil, coqBytes(o.addr)), common.CoqBool(tc.sendOK))
	// the message as the model sees it
	inner := "None"
	if tc.any != nil {
		a := tc.any
		if o.canonical != nil {
			a = o.canonical
		}
		inner = "(Some " + coqAny(a) + ")"
	}
	fmt.Fprintf(&sb, "  (MkSubmitMsg %s %s %s %s)\n", coqStr(tc.owner), coqStr(tc.conn), inner, common.CoqBool(o.innerIsMsg))
	// observed
	var sigs []string
	for _, s := range o.signers {
		sigs = append(sigs, coqBytes(s))
	}
	var calls []string
	for _, c := range o.ica.sends {
		idx := uint64(0)
		if c.cap != nil {
			idx = c.cap.GetIndex()
		}
		calls = append(calls, fmt.Sprintf("(MkSendCall %s %s %s %s %s %s %s)", common.CoqN(idx), coqStr(c.conn), coqStr(c.port),
			common.CoqN(uint64(c.typ)), coqBytes(c.data), coqStr(c.memo), common.CoqZ(new(big.Int).SetUint64(c.timeout))))
	}
	var chq []string
	for _, q := range o.ica.chanQueries {
		chq = append(chq, "("+coqStr(q[0])+", "+coqStr(q[1])+")")
	}
	var capq []string
	for _, q := range o.cap.capQueries {
		capq = append(capq, coqStr(q))
	}
	fmt.Fprintf(&sb, "  %s %s %s\n  %s\n  %s %s)", classifyVB(o.vbErr), common.CoqList(sigs), classifySubmit(tc, o),
		common.CoqList(calls), common.CoqList(chq), common.CoqList(capq))
	return sb.String()
}

// ---------- JSON description ----------

func clip(s []byte) interface{} {
	if len(s) <= 160 {
		return hexOrText(s)
	}
	h := sha256.Sum256(s)
	return map[string]interface{}{"len": len(s), "sha256": hex.EncodeToString(h[:]), "head": hexOrText(s[:64])}
}

func hexOrText(s []byte) string {
	for _, c := range s {
		if c < 0x20 || c > 0x7e {
			return "hex:" + hex.EncodeToString(s)
		}
	}
	return "text:" + string(s)
}

func describe(id int, tc *testCase, o *outcome) map[string]interface{} {
	in := map[string]interface{}{
		"label": tc.label, "owner": clip([]byte(tc.owner)), "connection_id": clip([]byte(tc.conn)),
		"inner_kind":       innerKindNames[tc.kind],
		"fake_channel_key": []interface{}{clip([]byte(tc.keyConn)), clip([]byte(tc.keyPort))}, "fake_channel": clip([]byte(tc.chanID)), "has_channel": tc.hasChan,
		"fake_capability_key": clip([]byte(tc.capKey)), "capability_index": tc.capIdx, "has_capability": tc.hasCap, "sendtx_ok": tc.sendOK,
		"block_time": tc.blockTime.UTC().Format(time.RFC3339Nano), "block_time_unix_ns": o.blockNs.String(),
	}
	if tc.any != nil {
		in["inner_type_url"] = tc.any.TypeUrl
		in["inner_value"] = clip(tc.any.Value)
	}
	var sends []interface{}
	for _, c := range o.ica.sends {
		sends = append(sends, map[string]interface{}{"connection": clip([]byte(c.conn)), "port": clip([]byte(c.port)), "type": int32(c.typ),
			"data": clip(c.data), "memo": c.memo, "timeout": fmt.Sprint(c.timeout)})
	}
	errStr := func(e error) interface{} {
		if e == nil {
			return nil
		}
		s := e.Error()
		if len(s) > 200 {
			s = s[:200] + "..."
		}
		return s
	}
	out := map[string]interface{}{
		"validate_basic": errStr(o.vbErr), "submit_error": errStr(o.err), "submit_class": classifySubmit(tc, o), "sends": sends,
		"capability_queries": len(o.cap.capQueries), "channel_queries": len(o.ica.chanQueries),
	}
	if o.panicked != nil {
		out["panic"] = fmt.Sprint(o.panicked)
	}
	return map[string]interface{}{"id": id, "input": in, "output": out}
}

// ---------- monitors (independent of the Coq model) ----------

type monitors struct {
	cdc        *codec.ProtoCodec
	violations []common.MonitorViolation
	seen       map[string]bool
	portOwner  map[string]string // port -> owner that caused a send over it
	stats      map[string]int
}

func (m *monitors) fire(key, desc string, input interface{}) {
	if m.seen[key] {
		return
	}
	m.seen[key] = true
	m.violations = append(m.violations, common.MonitorViolation{Property: "C20", Key: key, Desc: desc, Input: input})
}

var two64 = new(big.Int).Lsh(big.NewInt(1), 64)

// sameMessage: same Go type and same proto3-JSON rendering (gogoproto's proto.Equal cannot compare
// messages with custom types such as sdk.Int or Anys holding cached values).  The JSON rendering
// goes through jsonpb, not through the binary marshaller the keeper used.
func (m *monitors) sameMessage(x, y proto.Message) bool {
	if fmt.Sprintf("%T", x) != fmt.Sprintf("%T", y) {
		return false
	}
	jx, errx := m.cdc.MarshalInterfaceJSON(x)
	jy, erry := m.cdc.MarshalInterfaceJSON(y)
	if errx != nil || erry != nil {
		m.stats["json_rendering_failed(compared by binary encoding instead)"]++
		bx, e1 := proto.Marshal(x)
		by, e2 := proto.Marshal(y)
		return e1 == nil && e2 == nil && bytes.Equal(bx, by)
	}
	return bytes.Equal(jx, jy)
}

func (m *monitors) check(id int, tc *testCase, o *outcome, desc map[string]interface{}) {
	sends := o.ica.sends
	injected := o.err == errInjectedSendTx
	success := o.err == nil && o.panicked == nil
	// exactly one SendTx on success, zero on failure (one if the failure IS SendTx's own error)
	switch {
	case success && len(sends) != 1:
		m.fire("success_without_single_send", fmt.Sprintf("SubmitTx succeeded with %d SendTx calls", len(sends)), desc)
	case !success && !injected && len(sends) != 0:
		m.fire("send_on_failure", "SubmitTx failed but SendTx was called", desc)
	case injected && len(sends) != 1:
		m.fire("injected_error_without_single_send", "SendTx error surfaced without exactly one SendTx call", desc)
	}
	// the channel is looked up for THIS message's connection and for the port derived from THIS message's owner string
	for _, q := range o.ica.chanQueries {
		if q[0] != tc.conn || q[1] != wantPort(tc.owner) {
			m.fire("channel_lookup_for_other_owner", fmt.Sprintf("GetActiveChannelID(%q, %q) for a message of owner %q on connection %q", q[0], q[1], tc.owner, tc.conn), desc)
		}
	}
	// and when the owner is valid and the message well-formed, an active channel with its capability must be used
	if o.vbErr == nil && o.innerIsMsg && tc.hasChan && tc.hasCap && tc.sendOK && tc.keyConn == tc.conn && tc.keyPort == wantPort(tc.owner) &&
		tc.capKey == wantCapPath(tc.keyPort, tc.chanID) && o.panicked == nil && len(sends) == 0 {
		m.fire("not_sent_although_channel_and_capability_exist", "SubmitTx sent nothing although the owner's active channel and its capability exist", desc)
	}
	// nothing is sent without an active channel or without the channel capability
	chanFound := false
	for _, q := range o.ica.chanQueries {
		if tc.hasChan && q[0] == tc.keyConn && q[1] == tc.keyPort {
			chanFound = true
		}
	}
	capFound := false
	for _, q := range o.cap.capQueries {
		if tc.hasCap && q == tc.capKey {
			capFound = true
		}
	}
	if len(sends) > 0 && !chanFound {
		m.fire("send_without_active_channel", "SendTx called although no active channel was found", desc)
	}
	if len(sends) > 0 && !capFound {
		m.fire("send_without_capability", "SendTx called although no channel capability was found", desc)
	}
	if o.ica.otherCalls != 0 || o.cap.otherCalls != 0 {
		m.fire("unexpected_collaborator_call", "SubmitTx called RegisterInterchainAccount/GetInterchainAccountAddress/ClaimCapability", desc)
	}
	for _, c := range sends {
		if c.port != wantPort(tc.owner) {
			m.fire("port_not_owner_port", "SendTx port is not icacontroller-<owner>", desc)
		}
		if prev, ok := m.portOwner[c.port]; ok && prev != tc.owner {
			m.fire("port_shared_by_two_owners", fmt.Sprintf("owners %q and %q both sent over port %q", prev, tc.owner, c.port), desc)
		}
		m.portOwner[c.port] = tc.owner
		if c.conn != tc.conn {
			m.fire("connection_changed", "SendTx connection differs from msg.ConnectionId", desc)
		}
		if c.typ != 1 {
			m.fire("packet_type", "packet type is not EXECUTE_TX (1)", desc)
		}
		if c.memo != "" {
			m.fire("packet_memo", "packet memo is not empty", desc)
		}
		// the channel capability is the one found under the path of (port, active channel)
		if len(o.cap.capQueries) != 1 || o.cap.capQueries[0] != wantCapPath(c.port, tc.chanID) {
			m.fire("capability_path", "GetCapability was not asked for capabilities/ports/<port>/channels/<active channel>", desc)
		}
		if c.cap != o.cap.cap {
			m.fire("capability_identity", "SendTx received a capability other than the one GetCapability returned", desc)
		}
		// the packet holds exactly the supplied message
		msgs, err := icatypes.DeserializeCosmosTx(m.cdc, c.data)
		orig, isMsg := o.cached.(sdk.Msg)
		switch {
		case err != nil:
			m.fire("packet_undecodable", "DeserializeCosmosTx failed: "+err.Error(), desc)
		case len(msgs) != 1:
			m.fire("packet_message_count", fmt.Sprintf("packet holds %d messages", len(msgs)), desc)
		case !isMsg || !m.sameMessage(msgs[0], orig):
			m.fire("packet_message_modified", "decoded packet message differs from the supplied message", desc)
		default:
			// type URL must be preserved too (proto.Equal already implies the same Go type)
			if "/"+proto.MessageName(msgs[0]) != tc.any.TypeUrl {
				m.fire("packet_type_url", "decoded message type differs from the supplied Any's type URL", desc)
			}
		}
		if tc.any != nil && o.canonical != nil && !bytes.Equal(tc.any.Value, o.canonical.Value) {
			m.stats["sent_bytes_differ_from_supplied_any_value(noncanonical input, same message)"]++
		}
		// timeout one minute after block time
		want := new(big.Int).Add(o.blockNs, big.NewInt(60000000000))
		if want.Sign() >= 0 && want.Cmp(two64) < 0 {
			if want.Cmp(new(big.Int).SetUint64(c.timeout)) != 0 {
				m.fire("timeout", fmt.Sprintf("timeout %d is not block time + 60s = %s", c.timeout, want), desc)
			}
			if want.BitLen() > 63 {
				m.stats["timeout_exact_but_above_int64(2^63 <= t < 2^64)"]++
			}
		} else {
			// block time + 1 min is not representable as uint64 nanoseconds: no timeout can satisfy the property
			m.stats["timeout_unrepresentable_as_uint64_ns(wraps mod 2^64)"]++
			if new(big.Int).Mod(want, two64).Cmp(new(big.Int).SetUint64(c.timeout)) != 0 {
				m.stats["timeout_unrepresentable_and_not_even_wrapped"]++
			}
		}
	}
	// the owner is the only required signer
	if o.vbErr == nil {
		if o.addrErr != nil || len(o.signers) != 1 || !bytes.Equal(o.signers[0], o.addr) || len(o.addr) == 0 {
			m.fire("signer", "ValidateBasic passed but GetSigners is not exactly the account the owner string denotes", desc)
		}
	} else if len(o.signers) != 1 {
		m.fire("signer_count", "GetSigners does not return exactly one signer", desc)
	}
}

// ---------- main ----------

func must(err error) {
	if err != nil {
		fmt.Fprintln(os.Stderr, "harness broken:", err)
		os.Exit(2)
	}
}

func main() {
	seed := flag.Uint64("seed", 1, "PRNG seed")
	tier := flag.String("tier", "quick", "quick|thorough")
	out := flag.String("out", "", "output directory")
	flag.Parse()
	if *out == "" {
		fmt.Fprintln(os.Stderr, "missing -out")
		os.Exit(2)
	}
	var total int
	switch *tier {
	case "quick":
		total = 2000
	case "thorough":
		total = 50000
	default:
		fmt.Fprintln(os.Stderr, "unknown tier", *tier)
		os.Exit(2)
	}
	must(os.MkdirAll(*out, 0o755))
	old, _ := filepath.Glob(filepath.Join(*out, "cases_*.v"))
	for _, f := range old {
		os.Remove(f)
	}

	// the regen app's bech32 prefix (app/app.go sets "regen"); owners are regen1... addresses
	cfg := sdk.GetConfig()
	cfg.SetBech32PrefixForAccount("regen", "regenpub")

	ir := codectypes.NewInterfaceRegistry()
	banktypes.RegisterInterfaces(ir)
	stakingtypes.RegisterInterfaces(ir)
	govv1beta1.RegisterInterfaces(ir)
	authz.RegisterInterfaces(ir)
	v1.RegisterTypes(ir)
	cdc := codec.NewProtoCodec(ir)

	rng := common.NewRng(*seed)
	g := &gen{r: rng.Fork(), ir: ir, cdc: cdc}
	mon := &monitors{cdc: cdc, seen: map[string]bool{}, portOwner: map[string]string{}, stats: map[string]int{}}
	w := &common.ShardWriter{Dir: *out, RunMod: "Regen.Cases.IntertxRun", CaseType: "intertx_case", PerShard: 500,
		Preamble: "From Coq Require Import Uint63.\nRequire Import Regen.Intertx.ProtoWire Regen.Intertx.SubmitTx.\n"}

	hist := map[string]int{}
	descs := map[string]interface{}{}
	var samples []interface{}
	distinct := map[[32]byte]bool{}

	cases := g.corpus()
	ncorpus := len(cases)
	for len(cases) < total {
		sub := &gen{r: rng.Fork(), ir: ir, cdc: cdc}
		cases = append(cases, sub.randomCase())
	}

	for id, tc := range cases {
		o := run(cdc, tc)
		class := classifySubmit(tc, o)
		if class == "OUnknown" || classifyVB(o.vbErr) == "OUnknown" {
			hist["UNCLASSIFIED_ERROR"]++
		}
		d := describe(id, tc, o)
		descs[fmt.Sprint(id)] = d
		mon.check(id, tc, o, d)
		must(w.Add(coqCase(id, tc, o)))

		hist["outcome:"+strings.Trim(strings.TrimPrefix(class, "(OErr "), ")")]++
		hist["validate_basic:"+strings.Trim(strings.TrimPrefix(classifyVB(o.vbErr), "(OErr "), ")")]++
		hist[fmt.Sprintf("availability:channel=%v,capability=%v", tc.hasChan, tc.hasCap)]++
		if !tc.sendOK {
			hist["sendtx:rejecting"]++
		}
		for _, s := range tc.shapes {
			hist[s]++
		}
		if len(o.ica.chanQueries) > 0 { // got past the port-id check
			h := sha256.New()
			for _, s := range []string{tc.owner, tc.conn, tc.keyConn, tc.keyPort, tc.chanID, tc.capKey, fmt.Sprint(tc.hasChan, tc.hasCap, tc.sendOK, tc.capIdx, tc.kind), o.blockNs.String()} {
				fmt.Fprintf(h, "%d:%s|", len(s), s)
			}
			if tc.any != nil {
				fmt.Fprintf(h, "%s|%x", tc.any.TypeUrl, tc.any.Value)
			}
			var k [32]byte
			copy(k[:], h.Sum(nil))
			distinct[k] = true
		}
		if id == 0 || id == ncorpus || id == ncorpus+1 || id == total/2 || id == total-1 {
			samples = append(samples, d)
		}
	}
	must(w.Flush())

	extra := map[string]interface{}{"corpus_cases": ncorpus, "skipped_outside_model_domain": 0}
	for _, k := range common.SortedKeys(mon.stats) {
		extra[k] = mon.stats[k]
	}
	sum := common.Summary{
		Family: "intertx", Seed: *seed, Tier: *tier, Evaluations: len(cases), DistinctNontrivial: len(distinct),
		Rule:      "distinct input tuples (sha256 over owner, connection, inner Any, fake configuration, block time) whose SubmitTx call got past the controller-port check, i.e. reached GetActiveChannelID",
		Histogram: hist, Samples: samples, Shards: w.Shards, MonitorViolations: mon.violations, Extra: extra,
	}
	if sum.MonitorViolations == nil {
		sum.MonitorViolations = []common.MonitorViolation{}
	}
	must(common.WriteJSON(filepath.Join(*out, "cases.json"), descs))
	must(common.WriteJSON(filepath.Join(*out, "summary.json"), sum))
	if hist["UNCLASSIFIED_ERROR"] > 0 {
		fmt.Fprintf(os.Stderr, "warning: %d results with an unclassified error (they will show up as model mismatches)\n", hist["UNCLASSIFIED_ERROR"])
	}
	fmt.Printf("intertx: %d cases (%d corpus), %d shards, %d monitor violations\n", len(cases), ncorpus, len(w.Shards), len(mon.violations))
}
