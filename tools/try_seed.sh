#!/bin/bash
# usage: try_seed.sh <ID> <property> [more properties...]  -- applies /tmp/seed-out/<ID>/patch.diff to /repo, runs the quick checks, reverts.
ID=$1; shift
cd /verif
[ -z "$(git -C /repo status --short)" ] || { echo "/repo has uncommitted changes"; exit 2; }
git -C /repo apply /tmp/seed-out/$ID/patch.diff || { echo "$ID: patch does not apply"; exit 2; }
for prop in "$@"; do
  out=$(./check $prop --tier quick 2>&1); r=$?
  v=$(echo "$out" | grep -m1 "^VIOLATION")
  kinds=$(echo "$out" | grep "^\[check\] " | awk '{print $2, $3}' | sort | uniq -c | sort -rn | head -8 | tr '\n' ';')
  if [ $r -eq 1 ] && [ -n "$v" ]; then echo "$ID $prop CAUGHT $(echo "$v" | grep -o 'no-failing-input-found') | $kinds"
  else echo "$ID $prop MISSED rc=$r | $(echo "$out" | tail -2 | cut -c1-200)"; fi
done
git -C /repo checkout -- . ; git -C /repo clean -fdq
