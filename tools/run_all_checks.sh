#!/bin/bash
# Runs every claimed check (quick) on the current /repo tree and prints one line per property.
# Use before committing so that evidence/*.json and coq/Generated/*.v come from the unchanged tree.
cd /verif
[ -z "$(git -C /repo status --short)" ] || { echo "/repo has uncommitted changes"; git -C /repo status --short | head; exit 2; }
rc=0
for p in $(python3 -c "import json;print(' '.join(c['property_id'] for c in json.load(open('MANIFEST.json'))['checks']))"); do
  out=$(./check $p --tier ${1:-quick} 2>&1); r=$?
  echo "$p rc=$r $(echo "$out" | grep -c KNOWN-FINDING) known | $(echo "$out" | tail -1 | cut -c1-160)"
  [ $r -eq 0 ] || rc=1
done
exit $rc
