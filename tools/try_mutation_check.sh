#!/bin/bash
# usage: try_mutation_check.sh <patch.diff> <PROP> : applies the patch, runs ./check PROP, reverts, prints head of output
P=$1; PROP=$2
git -C /repo apply $P || exit 2
trap 'git -C /repo checkout -- .' EXIT
cd /verif && ./check $PROP 2>&1 | grep -v "^KNOWN-FINDING" | head -${3:-4} | cut -c1-420
