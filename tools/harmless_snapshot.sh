#!/bin/bash
# Runs the behaviour-preserving patch corpus (harmless/) against a SNAPSHOT of the repository:
#   vp run --with-repo -- tools/harmless_snapshot.sh
# Prints one line per (patch, property); exit 0 iff no check reports a violation.
set -u
R=${VP_RUN_REPO:?needs a repository snapshot}
cd "$(dirname "$0")/.."
export VERIF_REPO=$R GOFLAGS=-mod=mod GOPROXY=off GOSUMDB=off GOTOOLCHAIN=local CGO_ENABLED=0
sed -i "s#=> /repo/#=> $R/#" harness/go.mod harness-intertx/go.mod
./setup.sh || exit 2
rc=0
grep '^run ' harmless/run.sh | while read -r _ patch props; do
  p=$PWD/${patch#/verif/}
  git -C $R apply "$p" || { echo "$(basename $p): does not apply"; continue; }
  for prop in $props; do
    out=$(./check $prop --tier quick 2>&1); r=$?
    if [ $r -eq 0 ]; then echo "$(basename $p) $prop rc=0"; else echo "$(basename $p) $prop rc=$r ALARM"; echo "$out" | grep -v "^KNOWN-FINDING" | head -5 | cut -c1-400; fi
  done
  git -C $R checkout -- . ; git -C $R clean -fdq
done
