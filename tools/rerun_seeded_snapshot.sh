#!/bin/bash
# Re-applies every seeded change to a SNAPSHOT of the repository and runs the quick check of its property there.
# Meant for `vp run --with-repo -- tools/rerun_seeded_snapshot.sh` (cwd = snapshot of /verif, $VP_RUN_REPO = snapshot of
# /repo), so that /repo and /verif stay free.  Results are not evidence (DESIGN 9.4 records them).
# usage: tools/rerun_seeded_snapshot.sh [dir-prefix ...]
set -u
R=${VP_RUN_REPO:?needs a repository snapshot}
cd "$(dirname "$0")/.."
export VERIF_REPO=$R GOFLAGS=-mod=mod GOPROXY=off GOSUMDB=off GOTOOLCHAIN=local CGO_ENABLED=0
sed -i "s#=> /repo/#=> $R/#" harness/go.mod harness-intertx/go.mod
grep -rl '"/repo' tools/extract driver 2>/dev/null | head
./setup.sh || exit 2
rc=0
for d in seeded/*/; do
  n=$(basename $d)
  if [ $# -gt 0 ]; then m=0; for p in "$@"; do case $n in $p*) m=1;; esac; done; [ $m = 1 ] || continue; fi
  prop=$(python3 -c "import json;print(json.load(open('$d/meta.json'))['property'])")
  git -C $R apply $PWD/$d/patch.diff 2>/dev/null || { echo "$n: patch does not apply (older base)"; continue; }
  out=$(./check $prop --tier quick 2>&1); r=$?
  git -C $R checkout -- . ; git -C $R clean -fdq
  v=$(echo "$out" | grep -m1 "^VIOLATION")
  kinds=$(echo "$out" | grep "^\[check\] " | awk '{print $2, $3}' | sort | uniq -c | sort -rn | head -4 | tr '\n' ';')
  if [ $r -eq 1 ] && [ -n "$v" ]; then echo "$n $prop CAUGHT $(echo "$v" | grep -o 'no-failing-input-found') | $kinds"
  else echo "$n $prop MISSED rc=$r | $(echo "$out" | tail -1 | cut -c1-160)"; rc=1; fi
done
out=$(./check C01 --tier quick 2>&1); echo "clean tree C01: rc=$? $(echo "$out" | tail -1)"
exit $rc
