#!/bin/bash
# usage: confirm_mutation.sh <ID> <module-subdir>   (worktree /tmp/mut-<ID>, deliverables in MUTATION/)
# Confirms: builds+vets, existing tests pass with the change, demo fails with / passes without the change.
ID=$1; MOD=$2; WT=${WTROOT:-/tmp/mut}-$ID
export GOFLAGS=-mod=mod GOPROXY=off GOSUMDB=off GOTOOLCHAIN=local
cd $WT || exit 2
DEMO=$(git status --short | grep 'zz_mutation_demo_test.go' | awk '{print $2}' | head -1)
[ -n "$DEMO" ] || { echo "no demo test found"; exit 2; }
PKG=./$(dirname ${DEMO#$MOD/})
SRC=$(git diff --name-only)
echo "demo=$DEMO pkg=$PKG src=$SRC"
cd $WT/$MOD
go build ./... && go vet ./... >/dev/null 2>&1; echo "build+vet rc=$?"
go test -count=1 -run 'Mutation|mutation|Demo' $PKG > ${WTROOT:-/tmp/mut}-$ID.with.log 2>&1; W=$?
( cd $WT && git apply -R MUTATION/patch.diff )
go test -count=1 -run 'Mutation|mutation|Demo' $PKG > ${WTROOT:-/tmp/mut}-$ID.without.log 2>&1; WO=$?
( cd $WT && git apply MUTATION/patch.diff )
mv $WT/$DEMO ${WTROOT:-/tmp/mut}-$ID.demo.hold
go test -count=1 ./... > ${WTROOT:-/tmp/mut}-$ID.suite.log 2>&1; S=$?
mv ${WTROOT:-/tmp/mut}-$ID.demo.hold $WT/$DEMO
echo "RESULT id=$ID demo_with_change_rc=$W (want !=0) demo_without_change_rc=$WO (want 0) suite_with_change_rc=$S (want 0)"
