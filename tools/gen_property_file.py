#!/usr/bin/env python3
"""Builds a Properties/Cxx.v file whose theorems restate (verbatim) theorems proved elsewhere and are
closed by `exact`.  Usage: gen_property_file.py spec.json  where spec = {"out":..., "header":..., "requires":[...],
"theorems":[{"name":..., "file":..., "source":..., "comment":...}], "extra": "<raw Coq appended>"}.
With "append_marker": "<comment line>" the header/requires are not written: the existing file is kept up to the marker
line (exclusive) and marker + theorems (+ extra) are appended (idempotent); "extra_requires" lines are inserted before the
file's "Import ListNotations" line if not present."""
import json, re, sys
spec = json.load(open(sys.argv[1]))
if spec.get("append_marker"):
    cur = open("/verif/coq/" + spec["out"]).read()
    marker = spec["append_marker"]
    if marker in cur:
        cur = cur[:cur.index(marker)]
    for r in spec.get("extra_requires", []):
        if r not in cur:
            i = cur.index("Import ListNotations")
            cur = cur[:i] + r + "\n" + cur[i:]
    out = [cur.rstrip("\n") + "\n\n" + marker + "\n"]
else:
    out = ["(* %s *)\n" % spec["header"].replace("*)", "* )")]
    for r in spec["requires"]:
        out.append(r + "\n")
    out.append("\n")
for t in spec["theorems"]:
    src = re.sub(r"\(\*.*?\*\)", "", open("/verif/coq/" + t["file"]).read(), flags=re.S)   # comments removed
    m = re.search(r"^(?:Theorem|Lemma|Corollary|Example)\s+%s\b(.*?)\.\s*\nProof\." % re.escape(t["source"]), src, flags=re.S | re.M)
    if not m:
        sys.exit("cannot find %s in %s" % (t["source"], t["file"]))
    sig = m.group(1)
    # split binders from statement at the first top-level ':'
    depth, pos = 0, None
    for i, ch in enumerate(sig):
        if ch in "([{":
            depth += 1
        elif ch in ")]}":
            depth -= 1
        elif ch == ":" and depth == 0 and sig[i:i + 2] != ":=":
            pos = i
            break
    binders, stmt = sig[:pos].strip(), sig[pos + 1:].strip()
    if t.get("comment"):
        out.append("(* %s *)\n" % t["comment"])
    kw = t.get("keyword", "Theorem")
    if binders:
        out.append(kw + " %s : forall %s,\n  %s.\nProof. exact %s. Qed.\nPrint Assumptions %s.\n\n" % (t["name"], binders, stmt, t["source"], t["name"]))
    else:
        out.append(kw + " %s :\n  %s.\nProof. exact %s. Qed.\nPrint Assumptions %s.\n\n" % (t["name"], stmt, t["source"], t["name"]))
if spec.get("extra"):
    out.append(spec["extra"])
open("/verif/coq/" + spec["out"], "w").write("".join(out))
print("wrote", spec["out"], len(spec["theorems"]), "theorems")
