#!/usr/bin/env python3
"""Builds a Properties/Cxx.v file whose theorems restate (verbatim) theorems proved elsewhere and are
closed by `exact`.  Usage: gen_property_file.py spec.json  where spec = {"out":..., "header":..., "requires":[...],
"theorems":[{"name":..., "file":..., "source":..., "comment":...}], "extra": "<raw Coq appended>"}"""
import json, re, sys
spec = json.load(open(sys.argv[1]))
out = ["(* %s *)\n" % spec["header"].replace("*)", "* )")]
for r in spec["requires"]:
    out.append(r + "\n")
out.append("\n")
for t in spec["theorems"]:
    src = open("/verif/coq/" + t["file"]).read()
    m = re.search(r"^(?:Theorem|Lemma|Corollary)\s+%s\b(.*?)\.\s*\nProof\." % re.escape(t["source"]), src, flags=re.S | re.M)
    if not m:
        sys.exit("cannot find %s in %s" % (t["source"], t["file"]))
    sig = m.group(1)
    # split binders from statement at the first top-level ':'
    depth, pos = 0, None
    for i, ch in enumerate(sig):
        if ch in "([{":
            depth += 1
        elif ch in ")]}":
            depth -= 1
        elif ch == ":" and depth == 0 and sig[i:i + 2] != ":=":
            pos = i
            break
    binders, stmt = sig[:pos].strip(), sig[pos + 1:].strip()
    if t.get("comment"):
        out.append("(* %s *)\n" % t["comment"])
    if binders:
        out.append("Theorem %s : forall %s,\n  %s.\nProof. exact %s. Qed.\nPrint Assumptions %s.\n\n" % (t["name"], binders, stmt, t["source"], t["name"]))
    else:
        out.append("Theorem %s :\n  %s.\nProof. exact %s. Qed.\nPrint Assumptions %s.\n\n" % (t["name"], stmt, t["source"], t["name"]))
if spec.get("extra"):
    out.append(spec["extra"])
open("/verif/coq/" + spec["out"], "w").write("".join(out))
print("wrote", spec["out"], len(spec["theorems"]), "theorems")
