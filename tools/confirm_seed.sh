#!/bin/bash
# usage: confirm_seed.sh <ID>    (round-4 layout: worktree /tmp/wt-<ID> with the change applied and the demonstration test
# untracked; deliverables in /tmp/seed-out/<ID>/).  Confirms: patch applies to the pristine tree, module builds, the
# demonstration fails with the change and passes without it, the module's existing suite passes with the change.
ID=$1; WT=/tmp/wt-$ID; OUT=/tmp/seed-out/$ID
export GOFLAGS=-mod=mod GOPROXY=off GOSUMDB=off GOTOOLCHAIN=local
cd $WT || exit 2
SRC=$(git diff --name-only | grep -v '_test.go$')
DEMOS=$(git status --short | grep '^??' | awk '{print $2}' | grep '_test.go$')
[ -n "$DEMOS" ] || { echo "no untracked demo test"; exit 2; }
MOD=$(for m in x/ecocredit x/data x/intertx types api; do echo "$SRC" | grep -q "^$m/" && echo $m; done | head -1)
[ -n "$MOD" ] || MOD=.
PKGS=$(for d in $DEMOS; do echo ./$(dirname ${d#$MOD/}); done | sort -u)
echo "id=$ID module=$MOD src=[$(echo $SRC)] demos=[$(echo $DEMOS)] pkgs=[$(echo $PKGS)]"
git -C /repo apply --check $OUT/patch.diff && echo "patch applies to /repo HEAD" || echo "PATCH DOES NOT APPLY to /repo HEAD"
cd $WT/$MOD
go build ./... ; echo "build rc=$?"
go test -vet=off -count=1 $PKGS > /tmp/confirm-$ID.with.log 2>&1; W=$?
( cd $WT && git stash -q )
go test -vet=off -count=1 $PKGS > /tmp/confirm-$ID.without.log 2>&1; WO=$?
( cd $WT && git stash pop -q )
mkdir -p /tmp/confirm-$ID.hold; for d in $DEMOS; do mv $WT/$d /tmp/confirm-$ID.hold/$(echo $d | tr / _); done
go test -vet=off -count=1 ./... > /tmp/confirm-$ID.suite.log 2>&1; S=$?
for d in $DEMOS; do mv /tmp/confirm-$ID.hold/$(echo $d | tr / _) $WT/$d; done; rmdir /tmp/confirm-$ID.hold
echo "RESULT id=$ID demo_with_change_rc=$W (want !=0) demo_without_change_rc=$WO (want 0) suite_with_change_rc=$S (want 0)"
