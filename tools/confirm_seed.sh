#!/bin/bash
# usage: confirm_seed.sh <ID> <demo destination dir relative to the repo root> [<second demo file>=<dir> ...]
# Deliverables in /tmp/seed-out/<ID>/ (patch.diff, *_test.go, notes.md); scratch worktree /tmp/wt-<ID> (reset here).
# Confirms: patch applies to the pristine tree, module builds, the demonstration passes WITHOUT the change and fails
# WITH it, and the existing suite of the touched module passes with the change.  Uses git apply / apply -R only
# (git stash is shared between the worktrees of one repository).
ID=$1; DEST=$2; shift 2
WT=/tmp/wt-$ID; OUT=/tmp/seed-out/$ID
export GOFLAGS=-mod=mod GOPROXY=off GOSUMDB=off GOTOOLCHAIN=local
cd $WT || exit 2
git checkout -q -- . ; git clean -fdq
git apply --check $OUT/patch.diff && echo "patch applies to the pristine tree" || { echo "PATCH DOES NOT APPLY"; exit 2; }
SRC=$(grep '^+++ b/' $OUT/patch.diff | sed 's#^+++ b/##')
MOD=$(for m in x/ecocredit x/data x/intertx types api; do echo "$SRC" | grep -q "^$m/" && echo $m; done | head -1)
DEMOS=""
for f in $OUT/*_test.go; do
  d=$DEST; for kv in "$@"; do [ "${kv%%=*}" = "$(basename $f)" ] && d=${kv#*=}; done
  cp $f $WT/$d/; DEMOS="$DEMOS $d/$(basename $f)"
done
run_demos() { rc=0; for d in $DEMOS; do m=$(for mm in x/ecocredit x/data x/intertx types; do case $d in $mm/*) echo $mm;; esac; done | head -1); ( cd $WT/$m && go test -vet=off -count=1 ./$(dirname ${d#$m/}) ) >> $1 2>&1 || rc=1; done; return $rc; }
echo "id=$ID module=$MOD src=[$(echo $SRC)] demos=[$DEMOS]"
: > /tmp/confirm-$ID.without.log; run_demos /tmp/confirm-$ID.without.log; WO=$?
git apply $OUT/patch.diff
( cd $WT/$MOD && go build ./... ); echo "build rc=$?"
: > /tmp/confirm-$ID.with.log; run_demos /tmp/confirm-$ID.with.log; W=$?
for d in $DEMOS; do rm $WT/$d; done
( cd $WT/$MOD && go test -vet=off -count=1 ./... ) > /tmp/confirm-$ID.suite.log 2>&1; S=$?
echo "RESULT id=$ID demo_without_change_rc=$WO (want 0) demo_with_change_rc=$W (want !=0) suite_with_change_rc=$S (want 0)"
