#!/bin/bash
# usage: try_refactor.sh <patch.diff> <PROP> [<PROP>...] : applies a behaviour-preserving patch to /repo, runs the given
# checks, reverts.  Prints one line per check: "<patch> <PROP> rc=<rc> <last line or first VIOLATION detail lines>".
P=$1; shift
git -C /repo apply "$P" || { echo "$(basename $P): does not apply"; exit 2; }
trap 'git -C /repo checkout -- .; git -C /repo clean -fdq' EXIT
cd /verif
for PROP in "$@"; do
  out=$(./check $PROP 2>&1); rc=$?
  if [ $rc -eq 0 ]; then echo "$(basename $P) $PROP rc=0 $(echo "$out" | tail -1 | cut -c1-100)"
  else echo "$(basename $P) $PROP rc=$rc"; echo "$out" | grep -v "^KNOWN-FINDING" | head -6 | cut -c1-600; fi
done
