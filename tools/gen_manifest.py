#!/usr/bin/env python3
"""Regenerates /verif/MANIFEST.json from the table below (kept here so that the manifest stays valid)."""
import json
NOTE = ("Trusted: Coq 8.16.1 kernel (vm_compute for case evaluation and finite sweeps; no native_compute; no axioms — Print Assumptions re-checked every run), "
        "the Go-AST translator (coq/Generated regenerated every run), the correspondence harness and its projection; "
        "modelled, not verified: cosmos-sdk ORM, x/bank, baseapp tx rule, apd/math/big, protobuf, bech32, IAVL, gas (DESIGN.md section 3).")
CLAIMED = {
 "C08": ("proof", "Authorisation theorem over the ledger model: a message is delivered successfully only if its signer holds the role the property names, evaluated in the pre-state, for every message type incl. all governance messages (Coq, all states, all messages). The model is compared step by step with the real keepers on ~300 generated histories per run (roles family: role moves followed by attempts of former holders, other classes' issuers, plain accounts sending governance messages); Go monitors check role and frame on the real tables.",
         "inversion of every handler's checks in a hand-written Gallina model of the keepers (handle_requires_role); differential execution against the real chain; role/frame monitors"),
 "C09": ("proof", "Every state validator and ValidateGenesis' cross-table checks are transcribed into Coq; proved: whatever a message validator plus a successful handler lets into a row satisfies that row's state validator, for all 40 messages and begin-block, hence every state reachable from a validated genesis validates row by row (batch date clause excluded: that clause is REFUTED with a concrete witness - known finding batch-dates-equal; the public-resolver analogue likewise). The model verdict is compared with the real ValidateGenesis on every exported state of the ledger family and a 111-case boundary corpus; the real export/validate/import/re-export round trip is executed by the harness on sampled states of every history.",
         "transcription of state validators + per-handler 'message validator implies state validator' theorems; refutation witnesses for the two known defects; differential verdict comparison; real genesis round trips"),
 "C11": ("proof", "Proved over the basket model: every credit of a successful Put was admissible (class on the allowed list, credit type match, start date not before the criterion, with the three criteria spelled out), an admissible credit the owner holds can be put (magnitude guards stated), Take releases along (start date, denom) order draining each batch before the next, a basket with auto-retire enabled only serves retire_on_take and then the credits land in the retired column. Basket-dates family: start dates at criterion-1ns/criterion/criterion+1ns, pre-1970/epoch dates, year boundaries, 300-year windows; Go reference of admission and greedy split on the real chain.",
         "handler inversion + sorted-scan lemmas in the Gallina model; differential execution; admission/oldest-first monitors"),
 "C13": ("proof", "Proved over the base-module model: an origin tx (class, id, lower-cased source) issues at most once across CreateBatch, MintBatchCredits and BridgeReceive (history theorem with a ghost trace, NoDup), BridgeReceive needs an allowed source, a (class, contract) pair is bound to one batch and later receipts mint into it, Bridge out needs an allowed target and a bound contract, cancels exactly the amounts and emits that batch's contract. Bridge family: replays through every pair of entry points incl. letter-case variants; event attributes compared.",
         "invariant over the origin-tx and contract tables with a ghost issuance trace; differential execution incl. bridge events; replay monitors"),
 "C16": ("proof", "Data-module state machine proved for an ARBITRARY 8-byte ID digest function: id<->IRI bijection, ids/anchor timestamps/attestations/registrations never change or disappear, first-anchor time = block time, manager-only registration, probe loop fuel sufficient. The model is compared with the real server under the production hasher and two weak hashers (4 outputs, constant) that force collision chains into the varint region.",
         "invariant proofs over histories with the digest as a section variable; differential execution with injected weak hashers (verif hook)"),
 "C17": ("proof", "Each list query is modelled as filter + index order + the ORM paginator; proved for 22 ecocredit list queries and the data queries: result = exactly the matching rows, no duplicates, and key/offset page walks with any page size partition the result with a correct total (BatchesByClass under the id well-formedness invariant proved in C14). The real gRPC query services are run on ~60 generated states x ~195 requests per run (prefix neighbours C10/C100, VCS-1/VCS-10) and compared with the model and with a brute-force scan.",
         "filter/permutation/pagination theorems over the ledger state model; differential execution of the real query services; brute-force monitors"),
 "C19": ("proof", "The apd-based decimal type is transcribed into Coq and proved: parse yields exactly the denoted rational (only well-formed literals accepted), add/sub exact, balance subtraction never negative without error, exact mul/quo exact-or-error, rounding ones within half an ulp at 34 digits, trim toward zero, print/parse round trip in plain notation, non-negative/positive/fixed gates. ~22k generated calls per run compare value AND representation (sign, coefficient, exponent, rendered string) with the real library; big.Rat monitors check every clause incl. operand immutability.",
         "transcription of apd v2.0.2 as used by types/math with value theorems over Q; string-mode differential testing; big.Rat monitors"),
 "C10": ("proof", "PARTIAL. Proved: the modelled transition is a function, a failed message leaves no trace, and splitting a history at any block boundaries (restart = rebuild keepers over the stored state) gives the same result. Not provable in a model and therefore tested, not proved: identical app hashes, gas, events and responses across 3 (thorough: 8) executions with restart subsets and different GOMAXPROCS (determinism family), plus model/implementation agreement on every step.",
         "theorems about the model's transaction rule and history splitting; replicated real executions with restarts compared bit-for-bit (testing)"),
 "C14": ("proof", "Format/validator/parser theorems for class ids, project ids, batch denoms and basket denoms proved in Coq over regexes, format verbs and layouts regenerated from the Go AST on every run; executable model compared with the real functions on ~10k generated and malformed strings per run. Stateful half (sequences, uniqueness, references) is monitored on the real chain by the ledger family and proved as ledger invariants when Properties/C14.v is present.",
         "Brzozowski-derivative regex matcher proved correct + compositional format proofs; differential testing of Format*/Validate*/Get*From*"),
 "C15": ("proof", "Round trip, injectivity and re-encoding of the IRI codec proved in Coq for all valid content hashes and all strings, for any 4-byte checksum function; executable model (with SHA-256 in Gallina) compared with ToIRI/ParseIRI/Validate/CreateID on ~5k cases per run.",
         "base-58/base-256 radix conversion bijection proved generically; base58check and IRI round-trip theorems; differential testing"),
 "C18": ("proof", "Proved over the model: a set positive creation fee is debited exactly from the creator and burned (supply falls by it, module account nets to zero), an insufficient/wrong-denom/unfunded offer is rejected, no or zero fee charges nothing, any positive fee is payable by a funded creator, and every fee-rate pair accepted by the governance/state validator parses at its point of use. The params family runs every user operation after every accepted parameter value (and genesis-carried boundary values) on the real chain.",
         "theorems about the shared fee block and fee-rate parsing in the Gallina model; differential execution; enabledness monitors on the real chain"),
 "C20": ("proof", "SubmitTx model proved to send exactly one EXECUTE_TX packet carrying the owner's message over the port derived from the owner, with the stated timeout, and nothing without channel/capability; protobuf wire round trip proved; model compared with the real keeper driven through recording fakes.",
         "state-machine model of SubmitTx with oracle keepers; protobuf CosmosTx encode/decode round-trip theorem; differential testing against the real keeper"),
}
IN_PROGRESS = "check under construction in this session; not yet claimed"
def main():
    props = [json.loads(l) for l in open('/verif/properties.jsonl')]
    checks = []
    for pid in sorted(CLAIMED):
        cat, text, tech = CLAIMED[pid]
        checks.append({"property_id": pid, "quick_cmd": "./check %s --tier quick" % pid, "thorough_cmd": "./check %s --tier thorough" % pid,
                       "evidence_file": "/verif/evidence/%s.json" % pid, "replay_cmd_template": "./check %s --replay {path}" % pid,
                       "engine": "coq+harness", "level_claimed": {"category": cat, "text": text, "design_ref": "DESIGN.md section 5"},
                       "level_note": NOTE, "technique": tech})
    na = [{"property_id": p["id"], "reason": IN_PROGRESS} for p in props if p["id"] not in CLAIMED]
    m = {"version": 1, "setup_cmd": "./setup.sh",
         "hooks": {"guard": "verif", "enable": "go build -tags verif (the harness modules replace the regen-ledger modules with /repo)",
                   "baseline_off_cmd": "for m in . api types x/data x/ecocredit x/intertx; do (cd /repo/$m && go test -mod=mod -json -vet=off -count=1 -timeout 25m ./...); done",
                   "source_commits": ["65422ea63"], "add_only": True},
         "engines": [{"name": "coq+harness", "path": "/verif/check", "serves_properties": sorted(CLAIMED),
                      "kind_free_text": "Coq 8.16.1 proofs over a hand-written model tied to /repo by a Go-AST translator and a differential Go harness (real baseapp, bank keeper and module keepers)"}],
         "checks": checks, "not_applicable": na,
         "notes": "See DESIGN.md. Every check regenerates coq/Generated from /repo, rebuilds the theorems (full .vo), re-runs Print Assumptions, rebuilds the Go harness against /repo's working tree, runs the property's families and compares model and implementation; monitors search for concrete failing inputs."}
    json.dump(m, open('/verif/MANIFEST.json', 'w'), indent=1)
if __name__ == "__main__":
    main()
