#!/usr/bin/env python3
"""save_seeded.py <ID> <name> <property> <needs> <caught_by> : copies /tmp/mut-<ID>/MUTATION into /verif/seeded/<name>/ with meta.json"""
import sys, os, shutil, json, subprocess
ID, name, prop, needs, caught = sys.argv[1:6]
import os as _os
src = "%s-%s/MUTATION" % (_os.environ.get("WTROOT","/tmp/mut"), ID)
dst = "/verif/seeded/%s" % name
os.makedirs(dst, exist_ok=True)
for f in ("patch.diff", "demo_test.go", "README.md"):
    if os.path.exists(os.path.join(src, f)):
        shutil.copy(os.path.join(src, f), os.path.join(dst, f))
logs = {}
for k in ("with", "without", "suite"):
    p = "%s-%s.%s.log" % (_os.environ.get("WTROOT","/tmp/mut"), ID, k)
    if os.path.exists(p):
        logs[k] = open(p, errors="replace").read()[-600:]
base = subprocess.run(["git", "-C", "/repo", "rev-parse", "--short", "HEAD"], stdout=subprocess.PIPE, text=True).stdout.strip()
meta = {"property": prop, "base_commit": base, "needs_to_manifest": needs,
        "confirmed": "tools/confirm_mutation.sh %s: go build + go vet ok; module test suite passes with the change; demo test fails with the change and passes without it" % ID,
        "what_i_ran": ["git -C /repo apply seeded/%s/patch.diff" % name, "./check %s --tier quick" % prop, "git -C /repo checkout -- ."],
        "caught_by": caught, "confirm_logs_tail": logs}
json.dump(meta, open(os.path.join(dst, "meta.json"), "w"), indent=1)
print("saved", dst)
