#!/bin/bash
# usage: try_mutation_ledger.sh <patch.diff> <PROP>  — applies the patch to /repo, runs the ledger family (quick),
# prints monitor hits for PROP and the number of model/implementation mismatches, reverts /repo.
P=$1; PROP=$2
export GOFLAGS=-mod=mod GOPROXY=off GOSUMDB=off GOTOOLCHAIN=local
git -C /repo apply $P || exit 2
trap 'git -C /repo checkout -- .' EXIT
cd /verif/harness && go build -tags verif -o bin/ledger ./cmd/ledger || exit 2
OUT=/tmp/t/mutrun-$PROP; rm -rf $OUT
bin/ledger -seed ${SEED:-5} -tier quick -out $OUT > $OUT.log 2>&1
python3 - <<PY
import json,collections,sys
sys.path.insert(0,'/verif/driver')
s=json.load(open('$OUT/summary.json'))
c=collections.Counter((v['property'],v['key']) for v in s['monitor_violations'] if v['property'] in ('$PROP','*'))
print('monitor hits for $PROP:', dict(c))
for v in s['monitor_violations']:
    if v['property'] in ('$PROP','*'):
        print('  e.g.', v['desc'][:300]); break
import ledger_cases
sh=ledger_cases.traces_to_shards('$OUT', s)
print(len(sh),'shards')
PY
python3 /verif/driver/triage.py $OUT 2>&1 | tail -4 | cut -c1-400
