// Command idconsts regenerates /verif/coq/Generated/IdConsts.v from the Go sources of
// regen-ledger: the identifier regexes (as Regen.Base.Regex.re terms), the fmt verbs of the
// Format* functions (padding widths, separators), the date layout, length limits, the exponent
// prefix map and the basket denom pieces.
//
// It evaluates the package-level string constants/variables with a tiny constant evaluator
// (string/int literals, identifiers, + and -, fmt.Sprintf with %s/%d, regexp.MustCompile) and
// checks the shape of the functions the Coq model transcribes.  Any deviation from the expected
// shape is reported on stderr and the exit code is 2: the model must then be revisited by hand.
//
// Usage: idconsts [-repo /repo] -out /verif/coq/Generated/IdConsts.v
package main

import (
	"flag"
	"fmt"
	"go/ast"
	"go/parser"
	"go/token"
	"os"
	"path/filepath"
	"regexp"
	"sort"
	"strconv"
	"strings"

	"verif/tools/extract/regexp2coq"
)

func die(format string, args ...interface{}) {
	fmt.Fprintf(os.Stderr, "idconsts: "+format+"\n", args...)
	os.Exit(2)
}

// ---------- values of the tiny evaluator ----------

type value struct {
	kind string // "string", "int", "regexp"
	s    string
	i    int64
}

type pkg struct {
	path  string
	file  *ast.File
	fset  *token.FileSet
	specs map[string]ast.Expr // package-level name -> initialiser
	env   map[string]value
	funcs map[string]*ast.FuncDecl
}

func load(path string) *pkg {
	fset := token.NewFileSet()
	f, err := parser.ParseFile(fset, path, nil, parser.ParseComments)
	if err != nil {
		die("cannot parse %s: %v", path, err)
	}
	p := &pkg{path: path, file: f, fset: fset, specs: map[string]ast.Expr{}, env: map[string]value{}, funcs: map[string]*ast.FuncDecl{}}
	for _, d := range f.Decls {
		switch d := d.(type) {
		case *ast.GenDecl:
			if d.Tok != token.CONST && d.Tok != token.VAR {
				continue
			}
			for _, sp := range d.Specs {
				vs := sp.(*ast.ValueSpec)
				if len(vs.Values) != len(vs.Names) {
					continue // declared without initialiser (e.g. var validExponents string)
				}
				for i, n := range vs.Names {
					p.specs[n.Name] = vs.Values[i]
				}
			}
		case *ast.FuncDecl:
			if d.Recv == nil {
				p.funcs[d.Name.Name] = d
			}
		}
	}
	return p
}

func (p *pkg) pos(n ast.Node) string { return p.fset.Position(n.Pos()).String() }

// eval evaluates a constant expression; ok=false means "not (yet) evaluable".
func (p *pkg) eval(e ast.Expr, depth int) (value, error) {
	if depth > 50 {
		return value{}, fmt.Errorf("%s: cyclic definition", p.pos(e))
	}
	switch e := e.(type) {
	case *ast.ParenExpr:
		return p.eval(e.X, depth+1)
	case *ast.BasicLit:
		switch e.Kind {
		case token.STRING:
			s, err := strconv.Unquote(e.Value)
			if err != nil {
				return value{}, fmt.Errorf("%s: %v", p.pos(e), err)
			}
			return value{kind: "string", s: s}, nil
		case token.INT:
			i, err := strconv.ParseInt(e.Value, 0, 64)
			if err != nil {
				return value{}, fmt.Errorf("%s: %v", p.pos(e), err)
			}
			return value{kind: "int", i: i}, nil
		}
	case *ast.Ident:
		if v, ok := p.env[e.Name]; ok {
			return v, nil
		}
		if init, ok := p.specs[e.Name]; ok {
			v, err := p.eval(init, depth+1)
			if err != nil {
				return value{}, err
			}
			p.env[e.Name] = v
			return v, nil
		}
		return value{}, fmt.Errorf("%s: unknown identifier %s", p.pos(e), e.Name)
	case *ast.BinaryExpr:
		x, err := p.eval(e.X, depth+1)
		if err != nil {
			return value{}, err
		}
		y, err := p.eval(e.Y, depth+1)
		if err != nil {
			return value{}, err
		}
		switch {
		case x.kind == "int" && y.kind == "int" && e.Op == token.ADD:
			return value{kind: "int", i: x.i + y.i}, nil
		case x.kind == "int" && y.kind == "int" && e.Op == token.SUB:
			return value{kind: "int", i: x.i - y.i}, nil
		case x.kind == "string" && y.kind == "string" && e.Op == token.ADD:
			return value{kind: "string", s: x.s + y.s}, nil
		}
		return value{}, fmt.Errorf("%s: unsupported binary expression", p.pos(e))
	case *ast.CallExpr:
		switch calleeName(e.Fun) {
		case "fmt.Sprintf":
			if len(e.Args) == 0 {
				return value{}, fmt.Errorf("%s: Sprintf without format", p.pos(e))
			}
			f, err := p.eval(e.Args[0], depth+1)
			if err != nil || f.kind != "string" {
				return value{}, fmt.Errorf("%s: Sprintf format is not a constant string (%v)", p.pos(e), err)
			}
			args := []value{}
			for _, a := range e.Args[1:] {
				v, err := p.eval(a, depth+1)
				if err != nil {
					return value{}, err
				}
				args = append(args, v)
			}
			s, err := sprintf(f.s, args)
			if err != nil {
				return value{}, fmt.Errorf("%s: %v", p.pos(e), err)
			}
			return value{kind: "string", s: s}, nil
		case "regexp.MustCompile":
			if len(e.Args) != 1 {
				return value{}, fmt.Errorf("%s: MustCompile arity", p.pos(e))
			}
			v, err := p.eval(e.Args[0], depth+1)
			if err != nil || v.kind != "string" {
				return value{}, fmt.Errorf("%s: MustCompile argument is not a constant string (%v)", p.pos(e), err)
			}
			if _, err := regexp.Compile(v.s); err != nil {
				return value{}, fmt.Errorf("%s: %v", p.pos(e), err)
			}
			return value{kind: "regexp", s: v.s}, nil
		}
	}
	return value{}, fmt.Errorf("%s: unsupported expression %T", p.pos(e), e)
}

func calleeName(e ast.Expr) string {
	if s, ok := e.(*ast.SelectorExpr); ok {
		if x, ok := s.X.(*ast.Ident); ok {
			return x.Name + "." + s.Sel.Name
		}
	}
	if x, ok := e.(*ast.Ident); ok {
		return x.Name
	}
	return ""
}

// sprintf supports %s (string), %d (int) and %%.
func sprintf(f string, args []value) (string, error) {
	var sb strings.Builder
	k := 0
	for i := 0; i < len(f); i++ {
		if f[i] != '%' {
			sb.WriteByte(f[i])
			continue
		}
		i++
		if i >= len(f) {
			return "", fmt.Errorf("dangling %% in %q", f)
		}
		switch f[i] {
		case '%':
			sb.WriteByte('%')
		case 's':
			if k >= len(args) || args[k].kind != "string" {
				return "", fmt.Errorf("%%s needs a string argument in %q", f)
			}
			sb.WriteString(args[k].s)
			k++
		case 'd':
			if k >= len(args) || args[k].kind != "int" {
				return "", fmt.Errorf("%%d needs an int argument in %q", f)
			}
			sb.WriteString(strconv.FormatInt(args[k].i, 10))
			k++
		default:
			return "", fmt.Errorf("unsupported verb %%%c in %q", f[i], f)
		}
	}
	if k != len(args) {
		return "", fmt.Errorf("extra arguments for %q", f)
	}
	return sb.String(), nil
}

func (p *pkg) mustRegexp(name string) string {
	init, ok := p.specs[name]
	if !ok {
		die("%s: package-level variable %s not found", p.path, name)
	}
	v, err := p.eval(init, 0)
	if err != nil {
		die("%s: cannot evaluate %s: %v", p.path, name, err)
	}
	if v.kind != "regexp" {
		die("%s: %s is not regexp.MustCompile(<constant>)", p.path, name)
	}
	return v.s
}

func (p *pkg) mustString(name string) string {
	v, err := p.eval(&ast.Ident{Name: name}, 0)
	if err != nil || v.kind != "string" {
		die("%s: %s is not a constant string (%v)", p.path, name, err)
	}
	return v.s
}

func (p *pkg) mustInt(name string) int64 {
	v, err := p.eval(&ast.Ident{Name: name}, 0)
	if err != nil || v.kind != "int" {
		die("%s: %s is not a constant int (%v)", p.path, name, err)
	}
	return v.i
}

func (p *pkg) mustFunc(name string) *ast.FuncDecl {
	f, ok := p.funcs[name]
	if !ok || f.Body == nil {
		die("%s: function %s not found", p.path, name)
	}
	return f
}

func paramNames(f *ast.FuncDecl) []string {
	out := []string{}
	for _, fl := range f.Type.Params.List {
		for _, n := range fl.Names {
			out = append(out, n.Name)
		}
	}
	return out
}

// ---------- format strings ----------

type piece struct {
	kind  string // "lit", "s", "d"
	lit   string
	width int // for %0Nd
}

var verbRe = regexp.MustCompile(`^%(s|0([1-9])d)`)

func parseFormat(f string) ([]piece, error) {
	out := []piece{}
	for len(f) > 0 {
		if f[0] != '%' {
			j := strings.IndexByte(f, '%')
			if j < 0 {
				j = len(f)
			}
			out = append(out, piece{kind: "lit", lit: f[:j]})
			f = f[j:]
			continue
		}
		m := verbRe.FindStringSubmatch(f)
		if m == nil {
			return nil, fmt.Errorf("unsupported verb in format %q", f)
		}
		if m[1] == "s" {
			out = append(out, piece{kind: "s"})
		} else {
			w, _ := strconv.Atoi(m[2])
			out = append(out, piece{kind: "d", width: w})
		}
		f = f[len(m[0]):]
	}
	return out, nil
}

func shape(ps []piece) string {
	var sb strings.Builder
	for _, p := range ps {
		switch p.kind {
		case "lit":
			sb.WriteString("L")
		case "s":
			sb.WriteString("S")
		case "d":
			sb.WriteString("D")
		}
	}
	return sb.String()
}

// sprintfCall finds the unique fmt.Sprintf call with a literal format in the expression.
func literalSprintf(p *pkg, e ast.Expr) (string, []ast.Expr) {
	c, ok := e.(*ast.CallExpr)
	if !ok || calleeName(c.Fun) != "fmt.Sprintf" || len(c.Args) == 0 {
		die("%s: expected fmt.Sprintf(...)", p.pos(e))
	}
	v, err := p.eval(c.Args[0], 0)
	if err != nil || v.kind != "string" {
		die("%s: Sprintf format is not constant", p.pos(e))
	}
	return v.s, c.Args[1:]
}

func isIdent(e ast.Expr, name string) bool {
	x, ok := e.(*ast.Ident)
	return ok && x.Name == name
}

// dateArg recognises <param>.UTC().Format("<layout>") and returns the layout.
func dateArg(p *pkg, e ast.Expr, param string) string {
	c, ok := e.(*ast.CallExpr)
	if ok && len(c.Args) == 1 {
		if sel, ok := c.Fun.(*ast.SelectorExpr); ok && sel.Sel.Name == "Format" {
			if c2, ok := sel.X.(*ast.CallExpr); ok && len(c2.Args) == 0 {
				if sel2, ok := c2.Fun.(*ast.SelectorExpr); ok && sel2.Sel.Name == "UTC" && isIdent(sel2.X, param) {
					v, err := p.eval(c.Args[0], 0)
					if err == nil && v.kind == "string" {
						return v.s
					}
				}
			}
		}
	}
	die("%s: expected %s.UTC().Format(<literal layout>)", p.pos(e), param)
	return ""
}

func singleReturn(p *pkg, f *ast.FuncDecl, nres int) []ast.Expr {
	if len(f.Body.List) != 1 {
		die("%s: %s: expected a single return statement", p.path, f.Name.Name)
	}
	r, ok := f.Body.List[0].(*ast.ReturnStmt)
	if !ok || len(r.Results) != nres {
		die("%s: %s: expected a single return statement with %d results", p.path, f.Name.Name, nres)
	}
	return r.Results
}

// validatorShape checks: if x == "" { return err }; m := <reVar>.<method>(x); if m == nil { return err }; return nil
func validatorShape(p *pkg, fn, reVar string) {
	f := p.mustFunc(fn)
	ps := paramNames(f)
	bad := func(why string) { die("%s: %s no longer has the expected validator shape: %s", p.path, fn, why) }
	if len(ps) != 1 {
		bad("one parameter expected")
	}
	if len(f.Body.List) != 4 {
		bad("4 statements expected")
	}
	ifs, ok := f.Body.List[0].(*ast.IfStmt)
	if !ok {
		bad("first statement must be the empty-string check")
	}
	be, ok := ifs.Cond.(*ast.BinaryExpr)
	if !ok || be.Op != token.EQL || !isIdent(be.X, ps[0]) {
		bad("first statement must compare the parameter with \"\"")
	}
	if l, ok := be.Y.(*ast.BasicLit); !ok || l.Value != `""` {
		bad("first statement must compare the parameter with \"\"")
	}
	as, ok := f.Body.List[1].(*ast.AssignStmt)
	if !ok || len(as.Rhs) != 1 {
		bad("second statement must be the regexp call")
	}
	c, ok := as.Rhs[0].(*ast.CallExpr)
	if !ok || calleeName(c.Fun) != reVar+".FindStringSubmatch" || len(c.Args) != 1 || !isIdent(c.Args[0], ps[0]) {
		bad("second statement must be " + reVar + ".FindStringSubmatch(" + ps[0] + ")")
	}
	ifs2, ok := f.Body.List[2].(*ast.IfStmt)
	if !ok {
		bad("third statement must test the match for nil")
	}
	be2, ok := ifs2.Cond.(*ast.BinaryExpr)
	if !ok || be2.Op != token.EQL || !isIdent(be2.Y, "nil") {
		bad("third statement must test the match for nil")
	}
	r, ok := f.Body.List[3].(*ast.ReturnStmt)
	if !ok || len(r.Results) != 1 || !isIdent(r.Results[0], "nil") {
		bad("last statement must be return nil")
	}
}

// inlineRegexp finds `regexp.MustCompile(<const>)` inside a function body (types/eth).
func inlineRegexp(p *pkg, fn string) string {
	f := p.mustFunc(fn)
	found := []string{}
	ast.Inspect(f.Body, func(n ast.Node) bool {
		if c, ok := n.(*ast.CallExpr); ok && calleeName(c.Fun) == "regexp.MustCompile" {
			v, err := p.eval(c, 0)
			if err != nil {
				die("%s: %s: %v", p.path, fn, err)
			}
			found = append(found, v.s)
		}
		return true
	})
	if len(found) != 1 {
		die("%s: %s: expected exactly one regexp.MustCompile", p.path, fn)
	}
	usesMatchString := false
	ast.Inspect(f.Body, func(n ast.Node) bool {
		if s, ok := n.(*ast.SelectorExpr); ok && s.Sel.Name == "MatchString" {
			usesMatchString = true
		}
		return true
	})
	if !usesMatchString {
		die("%s: %s: expected a MatchString call", p.path, fn)
	}
	return found[0]
}

func coqBytes(s string) string {
	if s == "" {
		return "[]"
	}
	parts := []string{}
	for i := 0; i < len(s); i++ {
		parts = append(parts, fmt.Sprintf("x%02x", s[i]))
	}
	return "[" + strings.Join(parts, "; ") + "]"
}

func quoteComment(s string) string { return strings.ReplaceAll(s, "*)", "* )") }

func main() {
	repo := flag.String("repo", "/repo", "path of the regen-ledger working tree")
	out := flag.String("out", "", "output file (Generated/IdConsts.v)")
	flag.Parse()
	if *out == "" {
		die("-out is required")
	}

	baseP := load(filepath.Join(*repo, "x/ecocredit/base/utils.go"))
	basketP := load(filepath.Join(*repo, "x/ecocredit/basket/utils.go"))
	originP := load(filepath.Join(*repo, "x/ecocredit/base/types/v1/types_origin_tx.go"))
	ethAddrP := load(filepath.Join(*repo, "types/eth/addr.go"))
	ethHashP := load(filepath.Join(*repo, "types/eth/tx_hash.go"))

	type reDef struct{ coq, src, pattern string }
	res := []reDef{
		{"re_credit_type_abbrev", "base/utils.go regexCreditTypeAbbrev", baseP.mustRegexp("regexCreditTypeAbbrev")},
		{"re_class_id", "base/utils.go regexClassID", baseP.mustRegexp("regexClassID")},
		{"re_project_id", "base/utils.go regexProjectID", baseP.mustRegexp("regexProjectID")},
		{"re_batch_denom", "base/utils.go regexBatchDenom", baseP.mustRegexp("regexBatchDenom")},
		{"re_jurisdiction", "base/utils.go regexJurisdiction", baseP.mustRegexp("regexJurisdiction")},
		{"re_basket_name", "basket/utils.go regexBasketName", basketP.mustRegexp("regexBasketName")},
		{"re_basket_denom", "basket/utils.go regexBasketDenom", basketP.mustRegexp("regexBasketDenom")},
		{"re_origin_tx_id", "base/types/v1/types_origin_tx.go reOriginTxID", originP.mustRegexp("reOriginTxID")},
		{"re_origin_tx_source", "base/types/v1/types_origin_tx.go reOriginTxSource", originP.mustRegexp("reOriginTxSource")},
		{"re_eth_address", "types/eth/addr.go IsValidAddress", inlineRegexp(ethAddrP, "IsValidAddress")},
		{"re_eth_tx_hash", "types/eth/tx_hash.go IsValidTxHash", inlineRegexp(ethHashP, "IsValidTxHash")},
	}

	// validators use the regex the model assumes, after the empty-string pre-check
	validatorShape(baseP, "ValidateCreditTypeAbbreviation", "regexCreditTypeAbbrev")
	validatorShape(baseP, "ValidateClassID", "regexClassID")
	validatorShape(baseP, "ValidateProjectID", "regexProjectID")
	validatorShape(baseP, "ValidateBatchDenom", "regexBatchDenom")
	validatorShape(baseP, "ValidateJurisdiction", "regexJurisdiction")
	validatorShape(basketP, "ValidateBasketName", "regexBasketName")
	validatorShape(basketP, "ValidateBasketDenom", "regexBasketDenom")

	// FormatClassID: "%s%02d"(abbrev, seq)
	fc := baseP.mustFunc("FormatClassID")
	fcFmt, fcArgs := literalSprintf(baseP, singleReturn(baseP, fc, 1)[0])
	fcP, err := parseFormat(fcFmt)
	if err != nil || shape(fcP) != "SD" {
		die("FormatClassID: format %q is not <%%s><%%0Nd> (%v)", fcFmt, err)
	}
	pn := paramNames(fc)
	if len(pn) != 2 || len(fcArgs) != 2 || !isIdent(fcArgs[0], pn[0]) || !isIdent(fcArgs[1], pn[1]) {
		die("FormatClassID: unexpected Sprintf arguments")
	}
	classWidth := fcP[1].width

	// FormatProjectID: "%s-%03d"(classID, seq)
	fp := baseP.mustFunc("FormatProjectID")
	fpFmt, fpArgs := literalSprintf(baseP, singleReturn(baseP, fp, 1)[0])
	fpP, err := parseFormat(fpFmt)
	if err != nil || shape(fpP) != "SLD" {
		die("FormatProjectID: format %q is not <%%s><sep><%%0Nd> (%v)", fpFmt, err)
	}
	pn = paramNames(fp)
	if len(pn) != 2 || len(fpArgs) != 2 || !isIdent(fpArgs[0], pn[0]) || !isIdent(fpArgs[1], pn[1]) {
		die("FormatProjectID: unexpected Sprintf arguments")
	}
	projectWidth := fpP[2].width
	sep := fpP[1].lit

	// FormatBatchDenom: "%s-%s-%s-%03d"(projectID, start.UTC().Format(L), end.UTC().Format(L), seq), nil
	fb := baseP.mustFunc("FormatBatchDenom")
	fbRes := singleReturn(baseP, fb, 2)
	if !isIdent(fbRes[1], "nil") {
		die("FormatBatchDenom: second result is not nil")
	}
	fbFmt, fbArgs := literalSprintf(baseP, fbRes[0])
	fbP, err := parseFormat(fbFmt)
	if err != nil || shape(fbP) != "SLSLSLD" {
		die("FormatBatchDenom: format %q is not <%%s><sep><%%s><sep><%%s><sep><%%0Nd> (%v)", fbFmt, err)
	}
	pn = paramNames(fb)
	if len(pn) != 4 || len(fbArgs) != 4 || !isIdent(fbArgs[0], pn[0]) || !isIdent(fbArgs[3], pn[1]) {
		die("FormatBatchDenom: unexpected Sprintf arguments")
	}
	layout1 := dateArg(baseP, fbArgs[1], pn[2])
	layout2 := dateArg(baseP, fbArgs[2], pn[3])
	if layout1 != layout2 {
		die("FormatBatchDenom: start and end dates use different layouts")
	}
	layoutTag := map[string]string{"20060102": "Layout_20060102"}[layout1]
	if layoutTag == "" {
		die("FormatBatchDenom: layout %q is not modelled by Regen.Base.Calendar", layout1)
	}
	batchWidth := fbP[6].width
	if fbP[1].lit != sep || fbP[3].lit != sep || fbP[5].lit != sep || len(sep) != 1 {
		die("Format*: separators differ or are not a single byte")
	}

	// exponentPrefixMap
	mapInit, ok := baseP.specs["exponentPrefixMap"]
	if !ok {
		die("exponentPrefixMap not found")
	}
	cl, ok := mapInit.(*ast.CompositeLit)
	if !ok {
		die("exponentPrefixMap is not a composite literal")
	}
	if mt, ok := cl.Type.(*ast.MapType); !ok || !isIdent(mt.Key, "uint32") || !isIdent(mt.Value, "string") {
		die("exponentPrefixMap is not a map[uint32]string")
	}
	type kv struct {
		k int64
		v string
	}
	kvs := []kv{}
	seen := map[int64]bool{}
	for _, el := range cl.Elts {
		e, ok := el.(*ast.KeyValueExpr)
		if !ok {
			die("exponentPrefixMap: unexpected element")
		}
		k, err1 := baseP.eval(e.Key, 0)
		v, err2 := baseP.eval(e.Value, 0)
		if err1 != nil || err2 != nil || k.kind != "int" || v.kind != "string" || k.i < 0 || seen[k.i] {
			die("exponentPrefixMap: unexpected entry at %s", baseP.pos(e))
		}
		seen[k.i] = true
		kvs = append(kvs, kv{k.i, v.s})
	}
	sort.Slice(kvs, func(i, j int) bool { return kvs[i].k < kvs[j].k })
	// ExponentToPrefix indexes that map
	etp := baseP.mustFunc("ExponentToPrefix")
	usesMap := false
	ast.Inspect(etp.Body, func(n ast.Node) bool {
		if ix, ok := n.(*ast.IndexExpr); ok && isIdent(ix.X, "exponentPrefixMap") {
			usesMap = true
		}
		return true
	})
	if !usesMap {
		die("ExponentToPrefix no longer indexes exponentPrefixMap")
	}

	// FormatBasketDenom
	fbd := basketP.mustFunc("FormatBasketDenom")
	pn = paramNames(fbd)
	if len(pn) != 3 {
		die("FormatBasketDenom: 3 parameters expected")
	}
	var denomFmt, displayFmt string
	var denomArgs, displayArgs []ast.Expr
	callsExponentToPrefix := false
	for _, st := range fbd.Body.List {
		as, ok := st.(*ast.AssignStmt)
		if !ok || len(as.Rhs) != 1 {
			continue
		}
		c, ok := as.Rhs[0].(*ast.CallExpr)
		if !ok {
			continue
		}
		switch calleeName(c.Fun) {
		case "base.ExponentToPrefix":
			if len(c.Args) == 1 && isIdent(c.Args[0], pn[2]) && len(as.Lhs) == 2 && isIdent(as.Lhs[0], "exponentPrefix") {
				callsExponentToPrefix = true
			}
		case "fmt.Sprintf":
			if len(as.Lhs) == 1 && isIdent(as.Lhs[0], "denom") {
				denomFmt, denomArgs = literalSprintf(basketP, c)
			}
			if len(as.Lhs) == 1 && isIdent(as.Lhs[0], "displayDenom") {
				displayFmt, displayArgs = literalSprintf(basketP, c)
			}
		}
	}
	if !callsExponentToPrefix {
		die("FormatBasketDenom: exponentPrefix, err := base.ExponentToPrefix(exponent) not found")
	}
	dP, err := parseFormat(denomFmt)
	if err != nil || shape(dP) != "SLSSLS" || len(denomArgs) != 4 ||
		!isIdent(denomArgs[0], "denomPrefix") || !isIdent(denomArgs[1], "exponentPrefix") ||
		!isIdent(denomArgs[2], pn[1]) || !isIdent(denomArgs[3], pn[0]) {
		die("FormatBasketDenom: denom format %q / arguments changed", denomFmt)
	}
	ddP, err := parseFormat(displayFmt)
	if err != nil || shape(ddP) != "SLSLS" || len(displayArgs) != 3 ||
		!isIdent(displayArgs[0], "denomPrefix") || !isIdent(displayArgs[1], pn[1]) || !isIdent(displayArgs[2], pn[0]) {
		die("FormatBasketDenom: display denom format %q / arguments changed", displayFmt)
	}
	bsep := dP[1].lit
	if dP[4].lit != bsep || ddP[1].lit != bsep || ddP[3].lit != bsep || len(bsep) != 1 {
		die("FormatBasketDenom: separators differ or are not a single byte")
	}
	last := fbd.Body.List[len(fbd.Body.List)-1]
	if r, ok := last.(*ast.ReturnStmt); !ok || len(r.Results) != 3 || !isIdent(r.Results[0], "denom") || !isIdent(r.Results[1], "displayDenom") || !isIdent(r.Results[2], "nil") {
		die("FormatBasketDenom: final return changed")
	}

	// ---------- output ----------
	var sb strings.Builder
	sb.WriteString("(* GENERATED by tools/extract from /repo — do not edit *)\n")
	sb.WriteString("(* regenerate: cd /verif/tools/extract && go run ./cmd/idconsts -repo /repo -out /verif/coq/Generated/IdConsts.v *)\n")
	sb.WriteString("From Coq Require Import List NArith Strings.Byte.\n")
	sb.WriteString("Require Import Regen.Base.Bytes Regen.Base.Regex Regen.Base.Calendar.\n")
	sb.WriteString("Import ListNotations.\n\n")
	sb.WriteString("(* ---- regular expressions (anchors ^...$ stripped; rmatch is a whole-string match) ---- *)\n")
	for _, r := range res {
		term, err := regexp2coq.ToCoq(r.pattern)
		if err != nil {
			die("%s: %v", r.src, err)
		}
		fmt.Fprintf(&sb, "(* %s = %s *)\n", r.src, quoteComment(r.pattern))
		fmt.Fprintf(&sb, "Definition %s : re :=\n  %s.\n\n", r.coq, term)
	}
	sb.WriteString("(* ---- fmt verbs of FormatClassID / FormatProjectID / FormatBatchDenom ---- *)\n")
	fmt.Fprintf(&sb, "(* FormatClassID %q, FormatProjectID %q, FormatBatchDenom %q *)\n", fcFmt, fpFmt, fbFmt)
	fmt.Fprintf(&sb, "Definition class_seq_width : nat := %d.\n", classWidth)
	fmt.Fprintf(&sb, "Definition project_seq_width : nat := %d.\n", projectWidth)
	fmt.Fprintf(&sb, "Definition batch_seq_width : nat := %d.\n", batchWidth)
	fmt.Fprintf(&sb, "Definition id_separator : byte := x%02x.\n", sep[0])
	fmt.Fprintf(&sb, "(* startDate.UTC().Format(%q) *)\n", layout1)
	fmt.Fprintf(&sb, "Definition batch_date_layout : date_layout := %s.\n\n", layoutTag)
	sb.WriteString("(* ---- length limits ---- *)\n")
	fmt.Fprintf(&sb, "Definition max_metadata_length : N := %d.\n", baseP.mustInt("MaxMetadataLength"))
	fmt.Fprintf(&sb, "Definition max_note_length : N := %d.\n\n", baseP.mustInt("MaxNoteLength"))
	sb.WriteString("(* ---- exponentPrefixMap (sorted by exponent) ---- *)\n")
	sb.WriteString("Definition exponent_prefix_map : list (N * bytes) :=\n  [")
	for i, e := range kvs {
		if i > 0 {
			sb.WriteString("; ")
		}
		fmt.Fprintf(&sb, "(%d%%N, %s)", e.k, coqBytes(e.v))
	}
	sb.WriteString("].\n\n")
	sb.WriteString("(* ---- basket denom pieces ---- *)\n")
	fmt.Fprintf(&sb, "(* FormatBasketDenom denom %q, display denom %q *)\n", denomFmt, displayFmt)
	fmt.Fprintf(&sb, "Definition basket_denom_prefix : bytes := %s. (* %q *)\n", coqBytes(basketP.mustString("denomPrefix")), basketP.mustString("denomPrefix"))
	fmt.Fprintf(&sb, "Definition basket_denom_separator : byte := x%02x.\n", bsep[0])
	fmt.Fprintf(&sb, "Definition basket_name_min_len : N := %d.\n", basketP.mustInt("nameMinLen"))
	fmt.Fprintf(&sb, "Definition basket_name_max_len : N := %d.\n", basketP.mustInt("nameMaxLen"))

	if err := os.MkdirAll(filepath.Dir(*out), 0o755); err != nil {
		die("%v", err)
	}
	if err := os.WriteFile(*out, []byte(sb.String()), 0o644); err != nil {
		die("%v", err)
	}
}
