// Command dataconsts regenerates /verif/coq/Generated/DataConsts.v from the Go sources of
// x/data (IRI codec, content-hash validators, data-ID hasher), of the btcutil base58 package in
// the module cache (version pinned by /repo/x/data/go.mod) and of encoding/binary in GOROOT.
//
// Besides reading constants it checks the shape of the code the Coq model transcribes (which
// byte of the IRI payload holds which field and through which conversion, which comparison
// operators the validators use, ...).  Any deviation is reported on stderr and the exit code is
// 2: the model must then be revisited by hand.
//
// Usage: dataconsts [-repo /repo] -out /verif/coq/Generated/DataConsts.v
package main

import (
	"flag"
	"fmt"
	"go/ast"
	"go/token"
	"path/filepath"
	"sort"
	"strings"

	"verif/tools/extract/astx"
)

var die = astx.Die

// iriLayout is what ToIRI writes before the hash.
type iriLayout struct {
	prefixConst string   // identifier stored in bz[0]
	fields      []string // fields stored in bz[1..offset-1], in index order
	offset      int64    // index of the first hash byte
	format      string   // fmt.Sprintf format of the returned IRI
	recv        string   // name of the receiver variable
}

// toIRI checks the shape of a ContentHash_X.ToIRI method:
//
//	err := r.Validate(); if err != nil { return "", err }
//	bz := make([]byte, len(r.Hash)+N)
//	bz[0] = <PrefixConst>
//	bz[i] = byte(r.<Field>)            for i = 1..N-1, each exactly once
//	copy(bz[N:], r.Hash)
//	hashStr := base58.CheckEncode(bz, iriVersion0)
//	return fmt.Sprintf("<format>", hashStr [, ext]), nil
func toIRI(f *astx.File, method string) iriLayout {
	fd := f.MustFunc(method)
	r := astx.RecvName(fd)
	bad := func(n ast.Node, why string, args ...interface{}) {
		die("%s: %s no longer has the expected shape: %s", f.Pos(n), method, fmt.Sprintf(why, args...))
	}
	if r == "" {
		bad(fd, "receiver is not named")
	}
	var lay iriLayout
	lay.offset = -1
	lay.recv = r
	byIndex := map[int64]string{}
	buf := ""
	validated, encoded := false, false
	var copyOff int64 = -1
	for _, st := range fd.Body.List {
		switch st := st.(type) {
		case *ast.AssignStmt:
			if len(st.Lhs) != 1 || len(st.Rhs) != 1 {
				bad(st, "unexpected assignment %s", astx.Str(st.Lhs[0]))
			}
			lhs, rhs := st.Lhs[0], st.Rhs[0]
			if call, ok := rhs.(*ast.CallExpr); ok {
				switch {
				case astx.Str(call.Fun) == r+".Validate" && len(call.Args) == 0 && astx.IsIdent(lhs, "err"):
					validated = true
					continue
				case astx.Callee(call) == "make":
					if len(call.Args) != 2 || astx.Str(call.Args[0]) != "[]byte" || st.Tok != token.DEFINE {
						bad(st, "buffer is not <buf> := make([]byte, len(%s.Hash)+N)", r)
					}
					sum, ok := call.Args[1].(*ast.BinaryExpr)
					if !ok || sum.Op != token.ADD || astx.Str(sum.X) != "len("+r+".Hash)" {
						bad(st, "buffer length is not len(%s.Hash)+N", r)
					}
					id, ok := lhs.(*ast.Ident)
					if !ok || buf != "" {
						bad(st, "more than one buffer")
					}
					buf = id.Name
					lay.offset = f.MustInt(sum.Y, nil, method+": buffer header length")
					continue
				case astx.Callee(call) == "base58.CheckEncode":
					if len(call.Args) != 2 || !astx.IsIdent(call.Args[0], buf) || !astx.IsIdent(call.Args[1], "iriVersion0") || !astx.IsIdent(lhs, "hashStr") {
						bad(st, "expected hashStr := base58.CheckEncode(%s, iriVersion0)", buf)
					}
					encoded = true
					continue
				}
			}
			if ix, ok := lhs.(*ast.IndexExpr); ok && buf != "" && astx.IsIdent(ix.X, buf) {
				if st.Tok != token.ASSIGN {
					bad(st, "unexpected operator %s on %s", st.Tok, astx.Str(lhs))
				}
				i := f.MustInt(ix.Index, nil, method+": index of "+astx.Str(lhs))
				if _, dup := byIndex[i]; dup {
					bad(st, "%s is written twice", astx.Str(lhs))
				}
				if i == 0 {
					id, ok := rhs.(*ast.Ident)
					if !ok {
						bad(st, "%s[0] is not a prefix constant", buf)
					}
					byIndex[0] = id.Name
					continue
				}
				// the conversion the model transcribes: byte(<recv>.<Field>), i.e. the low 8 bits
				conv, ok := rhs.(*ast.CallExpr)
				if !ok || !astx.IsIdent(conv.Fun, "byte") || len(conv.Args) != 1 {
					bad(st, "%s is not assigned byte(%s.<Field>) but %s", astx.Str(lhs), r, astx.Str(rhs))
				}
				fs, ok := conv.Args[0].(*ast.SelectorExpr)
				if !ok || !astx.IsIdent(fs.X, r) {
					bad(st, "%s is not assigned byte(%s.<Field>) but %s", astx.Str(lhs), r, astx.Str(rhs))
				}
				byIndex[i] = fs.Sel.Name
				continue
			}
			if astx.IsIdent(lhs, "ext") && astx.Str(rhs) == r+".FileExtension" {
				continue
			}
			bad(st, "unexpected statement %s %s %s", astx.Str(lhs), st.Tok, astx.Str(rhs))
		case *ast.IfStmt:
			if astx.Str(st.Cond) != "err != nil" {
				bad(st, "unexpected condition %s", astx.Str(st.Cond))
			}
		case *ast.ExprStmt:
			call, ok := st.X.(*ast.CallExpr)
			if !ok || astx.Callee(call) != "copy" || len(call.Args) != 2 || astx.Str(call.Args[1]) != r+".Hash" {
				bad(st, "expected copy(%s[N:], %s.Hash)", buf, r)
			}
			sl, ok := call.Args[0].(*ast.SliceExpr)
			if !ok || !astx.IsIdent(sl.X, buf) || sl.Low == nil || sl.High != nil || sl.Max != nil || copyOff >= 0 {
				bad(st, "expected copy(%s[N:], %s.Hash)", buf, r)
			}
			copyOff = f.MustInt(sl.Low, nil, method+": copy offset")
		case *ast.ReturnStmt:
			if len(st.Results) != 2 || !astx.IsIdent(st.Results[1], "nil") {
				bad(st, "final return is not (fmt.Sprintf(...), nil)")
			}
			call, ok := st.Results[0].(*ast.CallExpr)
			if !ok || astx.Callee(call) != "fmt.Sprintf" || len(call.Args) < 2 || !astx.IsIdent(call.Args[1], "hashStr") {
				bad(st, "final return is not fmt.Sprintf(<format>, hashStr, ...)")
			}
			lay.format = f.MustString(call.Args[0], nil, method+": Sprintf format")
			pieces, err := astx.SplitFormat(lay.format)
			if err != nil || len(pieces)-1 != len(call.Args)-1 {
				bad(st, "format %q does not consist of %d %%s verbs (%v)", lay.format, len(call.Args)-1, err)
			}
			if len(call.Args) == 3 && !astx.IsIdent(call.Args[2], "ext") {
				bad(st, "second Sprintf argument is not ext")
			}
			if len(call.Args) > 3 {
				bad(st, "too many Sprintf arguments")
			}
		default:
			bad(st, "unexpected statement")
		}
	}
	if !validated || !encoded || buf == "" || lay.format == "" {
		bad(fd, "Validate call, buffer, CheckEncode or return missing")
	}
	if copyOff != lay.offset {
		bad(fd, "hash copied at offset %d but header length is %d", copyOff, lay.offset)
	}
	if int64(len(byIndex)) != lay.offset {
		bad(fd, "%d header bytes written, header length is %d", len(byIndex), lay.offset)
	}
	for i := int64(0); i < lay.offset; i++ {
		v, ok := byIndex[i]
		if !ok {
			bad(fd, "%s[%d] is never written", buf, i)
		}
		if i == 0 {
			lay.prefixConst = v
		} else {
			lay.fields = append(lay.fields, v)
		}
	}
	return lay
}

// thresholdAssign recognises `if <v> == 0 { <v> = N }` and returns N.
func thresholdAssign(f *astx.File, body *ast.BlockStmt, v, where string) int64 {
	found := []int64{}
	ast.Inspect(body, func(n ast.Node) bool {
		ifs, ok := n.(*ast.IfStmt)
		if !ok || astx.Str(ifs.Cond) != v+" == 0" {
			return true
		}
		if len(ifs.Body.List) != 1 || ifs.Else != nil {
			die("%s: %s: unexpected body of `if %s == 0`", f.Pos(ifs), where, v)
		}
		as, ok := ifs.Body.List[0].(*ast.AssignStmt)
		if !ok || as.Tok != token.ASSIGN || len(as.Lhs) != 1 || !astx.IsIdent(as.Lhs[0], v) {
			die("%s: %s: unexpected body of `if %s == 0`", f.Pos(ifs), where, v)
		}
		found = append(found, f.MustInt(as.Rhs[0], nil, where+": default of "+v))
		return true
	})
	if len(found) != 1 {
		die("%s: %s: expected exactly one `if %s == 0 { %s = N }`, found %d", f.Label, where, v, v, len(found))
	}
	return found[0]
}

func main() {
	astx.Tool = "dataconsts"
	repo := flag.String("repo", "/repo", "path of the regen-ledger working tree")
	out := flag.String("out", "", "output file (Generated/DataConsts.v)")
	flag.Parse()
	if *out == "" {
		die("-out is required")
	}
	load := func(rel string) *astx.File { return astx.Load(filepath.Join(*repo, filepath.FromSlash(rel)), rel) }

	// ---------- x/data/iri.go ----------
	iri := load("x/data/iri.go")
	constLine := func(f *astx.File, name string) string {
		t := ""
		if f.Types[name] != nil {
			t = " " + astx.Str(f.Types[name])
		}
		return fmt.Sprintf("const %s%s = %s", name, t, astx.Str(f.Specs[name]))
	}
	iriVersion0 := iri.MustConstInt("iriVersion0")
	prefixRaw := iri.MustConstInt("IriPrefixRaw")
	prefixGraph := iri.MustConstInt("IriPrefixGraph")
	for _, v := range []int64{iriVersion0, prefixRaw, prefixGraph} {
		if v < 0 || v > 255 {
			die("%s: IRI version/prefix constant %d does not fit a byte", iri.Label, v)
		}
	}
	rawLay := toIRI(iri, "ContentHash_Raw.ToIRI")
	graphLay := toIRI(iri, "ContentHash_Graph.ToIRI")
	if rawLay.prefixConst != "IriPrefixRaw" || graphLay.prefixConst != "IriPrefixGraph" {
		die("%s: ToIRI prefix bytes are %s / %s, expected IriPrefixRaw / IriPrefixGraph", iri.Label, rawLay.prefixConst, graphLay.prefixConst)
	}
	if len(strings.Split(rawLay.format, "%s")) != 3 || len(strings.Split(graphLay.format, "%s")) != 2 {
		die("%s: ToIRI formats %q / %q do not have 2 / 1 %%s verbs", iri.Label, rawLay.format, graphLay.format)
	}

	parse := iri.MustFunc("ParseIRI")
	locals := astx.LocalConsts(parse.Body)
	if _, ok := locals["regenPrefix"]; !ok {
		die("%s: ParseIRI: local const regenPrefix not found", iri.Label)
	}
	parsePrefix := iri.MustString(locals["regenPrefix"], locals, "regenPrefix")
	split := iri.MustOneCall(parse.Body, "strings.Split", "ParseIRI")
	if len(split.Args) != 2 || !astx.IsIdent(split.Args[0], "hashExtPart") {
		die("%s: ParseIRI: expected strings.Split(hashExtPart, <sep>)", iri.Pos(split))
	}
	sep := iri.MustString(split.Args[1], locals, "ParseIRI separator")
	if len(sep) != 1 {
		die("%s: ParseIRI: separator %q is not a single byte", iri.Pos(split), sep)
	}
	parts, partsCmp := iri.MustCompare(parse.Body, "len(parts)", token.NEQ, "ParseIRI")
	iri.MustNoOtherCompare(parse.Body, "len(parts)", []token.Token{token.NEQ}, "ParseIRI")
	// case IriPrefixGraph: if ext != "<ext>"
	graphExt, graphExtSrc := "", ""
	nGraphCases := 0
	ast.Inspect(parse.Body, func(n ast.Node) bool {
		cc, ok := n.(*ast.CaseClause)
		if !ok {
			return true
		}
		isGraph := len(cc.List) == 1 && astx.IsIdent(cc.List[0], "IriPrefixGraph")
		for _, st := range cc.Body {
			for _, b := range astx.Binaries(st, func(b *ast.BinaryExpr) bool { return astx.IsIdent(b.X, "ext") || astx.IsIdent(b.Y, "ext") }) {
				if !isGraph || b.Op != token.NEQ || !astx.IsIdent(b.X, "ext") || graphExt != "" {
					die("%s: ParseIRI: unexpected comparison %s", iri.Pos(b), astx.Str(b))
				}
				graphExt = iri.MustString(b.Y, locals, "graph extension")
				graphExtSrc = astx.Str(b)
			}
		}
		if isGraph {
			nGraphCases++
		}
		return true
	})
	if graphExt == "" || nGraphCases != 1 {
		die("%s: ParseIRI: `case IriPrefixGraph: if ext != \"<ext>\"` not found", iri.Label)
	}

	// ---------- x/data/types.go ----------
	typ := load("x/data/types.go")
	vh := typ.MustFunc("validateHash")
	hashMin, hashMinSrc := typ.MustCompare(vh.Body, "hashLen", token.LSS, "validateHash")
	hashMax, hashMaxSrc := typ.MustCompare(vh.Body, "hashLen", token.GTR, "validateHash")
	typ.MustNoOtherCompare(vh.Body, "hashLen", []token.Token{token.LSS, token.GTR}, "validateHash")
	if n := len(astx.Calls(vh.Body, func(c *ast.CallExpr) bool { return astx.Callee(c) == "len" })); n != 1 {
		die("%s: validateHash: expected hashLen := len(hash) and no other len call", typ.Label)
	}
	rv := typ.MustFunc("ContentHash_Raw.Validate")
	extMin, extMinSrc := typ.MustCompare(rv.Body, "extLen", token.LSS, "ContentHash_Raw.Validate")
	extMax, extMaxSrc := typ.MustCompare(rv.Body, "extLen", token.GTR, "ContentHash_Raw.Validate")
	typ.MustNoOtherCompare(rv.Body, "extLen", []token.Token{token.LSS, token.GTR}, "ContentHash_Raw.Validate")
	// for _, c := range ext { if c < '0' || c > '9' && c < 'a' || c > 'z' { return err } }
	var charCond ast.Expr
	ast.Inspect(rv.Body, func(n ast.Node) bool {
		rs, ok := n.(*ast.RangeStmt)
		if !ok {
			return true
		}
		if !astx.IsIdent(rs.X, "ext") || !astx.IsIdent(rs.Value, "c") || len(rs.Body.List) != 1 || charCond != nil {
			die("%s: ContentHash_Raw.Validate: unexpected range loop", typ.Pos(rs))
		}
		ifs, ok := rs.Body.List[0].(*ast.IfStmt)
		if !ok || ifs.Else != nil || ifs.Init != nil {
			die("%s: ContentHash_Raw.Validate: range body is not a single if", typ.Pos(rs))
		}
		charCond = ifs.Cond
		return true
	})
	if charCond == nil {
		die("%s: ContentHash_Raw.Validate: character loop `for _, c := range ext` not found", typ.Label)
	}
	// shape: ((c < A) || ((c > B) && (c < C))) || (c > D)  -- Go precedence of the unparenthesised source
	charShape := func() []int64 {
		or2, ok := charCond.(*ast.BinaryExpr)
		if !ok || or2.Op != token.LOR {
			return nil
		}
		or1, ok := or2.X.(*ast.BinaryExpr)
		if !ok || or1.Op != token.LOR {
			return nil
		}
		and, ok := or1.Y.(*ast.BinaryExpr)
		if !ok || and.Op != token.LAND {
			return nil
		}
		leaves := []struct {
			e  ast.Expr
			op token.Token
		}{{or1.X, token.LSS}, {and.X, token.GTR}, {and.Y, token.LSS}, {or2.Y, token.GTR}}
		out := []int64{}
		for _, l := range leaves {
			b, ok := l.e.(*ast.BinaryExpr)
			if !ok || b.Op != l.op || !astx.IsIdent(b.X, "c") {
				return nil
			}
			lit, ok := b.Y.(*ast.BasicLit)
			if !ok || lit.Kind != token.CHAR {
				return nil
			}
			out = append(out, typ.MustInt(lit, nil, "extension character bound"))
		}
		return out
	}()
	if charShape == nil {
		die("%s: ContentHash_Raw.Validate: character test is not `c < 'A' || c > 'B' && c < 'C' || c > 'D'`: %s", typ.Pos(charCond), astx.Str(charCond))
	}
	maxAlg := typ.MustConstInt("maxIRIAlgorithm")
	// which fields are bounded by maxIRIAlgorithm
	gv := typ.MustFunc("ContentHash_Graph.Validate")
	fieldTag := map[string]string{"DigestAlgorithm": "digest", "CanonicalizationAlgorithm": "canonicalization", "MerkleTree": "merkle"}
	bounded := map[string]bool{}
	for _, b := range astx.Binaries(typ.AST, func(b *ast.BinaryExpr) bool {
		return strings.Contains(astx.Str(b.X), "maxIRIAlgorithm") || strings.Contains(astx.Str(b.Y), "maxIRIAlgorithm")
	}) {
		if b.Op != token.GTR || !astx.IsIdent(b.Y, "maxIRIAlgorithm") {
			die("%s: comparison with maxIRIAlgorithm is not `<field> > maxIRIAlgorithm`: %s", typ.Pos(b), astx.Str(b))
		}
		field := ""
		switch x := b.X.(type) {
		case *ast.Ident: // parameter of validateHash
			if x.Name == "digestAlgorithm" && b.Pos() >= vh.Pos() && b.End() <= vh.End() {
				field = "DigestAlgorithm"
			}
		case *ast.SelectorExpr:
			if astx.IsIdent(x.X, astx.RecvName(gv)) && b.Pos() >= gv.Pos() && b.End() <= gv.End() {
				field = x.Sel.Name
			}
		}
		tag, ok := fieldTag[field]
		if !ok {
			die("%s: cannot tell which field %s bounds", typ.Pos(b), astx.Str(b))
		}
		if bounded[tag] {
			die("%s: field %s is bounded twice", typ.Pos(b), field)
		}
		bounded[tag] = true
	}
	// validateHash's digestAlgorithm parameter is the DigestAlgorithm field in both validators
	params := []string{}
	for _, fl := range vh.Type.Params.List {
		for _, n := range fl.Names {
			params = append(params, n.Name)
		}
	}
	if len(params) != 2 || params[0] != "hash" || params[1] != "digestAlgorithm" {
		die("%s: validateHash parameters are not (hash, digestAlgorithm)", typ.Label)
	}
	for _, m := range []*ast.FuncDecl{rv, gv} {
		r := astx.RecvName(m)
		c := typ.MustOneCall(m.Body, "validateHash", astx.FuncName(m))
		if len(c.Args) != 2 || astx.Str(c.Args[0]) != r+".Hash" || astx.Str(c.Args[1]) != r+".DigestAlgorithm" {
			die("%s: expected validateHash(%s.Hash, %s.DigestAlgorithm)", typ.Pos(c), r, r)
		}
	}
	boundedList := []string{}
	for t := range bounded {
		boundedList = append(boundedList, t)
	}
	sort.Strings(boundedList)

	// ---------- btcutil base58 ----------
	btcVer := astx.ModVersion(filepath.Join(*repo, "x", "data", "go.mod"), "github.com/cosmos/btcutil")
	btcDir := astx.ModDir("github.com/cosmos/btcutil", btcVer)
	btc := func(name string) *astx.File {
		return astx.Load(filepath.Join(btcDir, "base58", name), "github.com/cosmos/btcutil@"+btcVer+"/base58/"+name)
	}
	alpha := btc("alphabet.go")
	alphabet := alpha.MustConstString("alphabet")
	alphabetIdx0 := alpha.MustConstInt("alphabetIdx0")
	tableInit, ok := alpha.Specs["b58"].(*ast.CompositeLit)
	if !ok {
		die("%s: var b58 = [N]byte{...} not found", alpha.Label)
	}
	at, ok := tableInit.Type.(*ast.ArrayType)
	if !ok || at.Len == nil || !astx.IsIdent(at.Elt, "byte") {
		die("%s: b58 is not a [N]byte array", alpha.Label)
	}
	tableLen := alpha.MustInt(at.Len, nil, "len(b58)")
	if int64(len(tableInit.Elts)) != tableLen {
		die("%s: b58 has %d elements for length %d", alpha.Label, len(tableInit.Elts), tableLen)
	}
	check := btc("base58check.go")
	ck := check.MustFunc("checksum")
	if ck.Type.Results == nil || len(ck.Type.Results.List) != 1 {
		die("%s: checksum does not have a single result", check.Label)
	}
	ckT, ok := ck.Type.Results.List[0].Type.(*ast.ArrayType)
	if !ok || ckT.Len == nil || !astx.IsIdent(ckT.Elt, "byte") {
		die("%s: checksum result is not [N]byte", check.Label)
	}
	cksumLen := check.MustInt(ckT.Len, nil, "checksum length")
	ckRes := "cksum"
	if len(ck.Type.Results.List[0].Names) == 1 {
		ckRes = ck.Type.Results.List[0].Names[0].Name
	}
	cd := check.MustFunc("CheckDecode")
	minDecoded, minDecodedSrc := check.MustCompare(cd.Body, "len(decoded)", token.LSS, "CheckDecode")
	b58 := btc("base58.go")
	dec := b58.MustFunc("Decode")
	var chunk int64 = -1
	chunkSrc := ""
	ast.Inspect(dec.Body, func(n ast.Node) bool {
		ifs, ok := n.(*ast.IfStmt)
		if !ok {
			return true
		}
		b, ok := ifs.Cond.(*ast.BinaryExpr)
		if !ok || b.Op != token.GTR || !astx.IsIdent(b.X, "n") {
			return true
		}
		if len(ifs.Body.List) != 1 || chunk >= 0 {
			die("%s: Decode: unexpected chunk clamp", b58.Pos(ifs))
		}
		as, ok := ifs.Body.List[0].(*ast.AssignStmt)
		if !ok || len(as.Lhs) != 1 || !astx.IsIdent(as.Lhs[0], "n") || as.Tok != token.ASSIGN {
			die("%s: Decode: unexpected chunk clamp", b58.Pos(ifs))
		}
		c1 := b58.MustInt(b.Y, nil, "Decode chunk size")
		c2 := b58.MustInt(as.Rhs[0], nil, "Decode chunk size")
		if c1 != c2 {
			die("%s: Decode: `if n > %d { n = %d }` is not a clamp", b58.Pos(ifs), c1, c2)
		}
		chunk = c1
		chunkSrc = fmt.Sprintf("if %s { %s = %s }", astx.Str(b), astx.Str(as.Lhs[0]), astx.Str(as.Rhs[0]))
		return true
	})
	if chunk < 0 {
		die("%s: Decode: chunk clamp `if n > N { n = N }` not found", b58.Label)
	}

	// ---------- hasher ----------
	hs := load("x/data/server/hasher/hasher.go")
	nh := hs.MustFunc("NewHasherWithOptions")
	hasherMin := thresholdAssign(hs, nh.Body, "minLength", "NewHasherWithOptions")
	bl := hs.MustOneCall(nh.Body, "blake2b.New", "NewHasherWithOptions")
	if len(bl.Args) != 2 || !astx.IsIdent(bl.Args[1], "nil") {
		die("%s: expected blake2b.New(<size>, nil)", hs.Pos(bl))
	}
	digestSize := hs.MustInt(bl.Args[0], nil, "blake2b digest size")
	bufLenSrc := ""
	ast.Inspect(nh.Body, func(n ast.Node) bool {
		as, ok := n.(*ast.AssignStmt)
		if ok && len(as.Lhs) == 1 && astx.IsIdent(as.Lhs[0], "bufLen") && len(as.Rhs) == 1 {
			bufLenSrc = astx.Str(as.Lhs[0]) + " " + as.Tok.String() + " " + astx.Str(as.Rhs[0])
		}
		return true
	})
	if bufLenSrc != "bufLen := hashLen + binary.MaxVarintLen64" || hs.Imports["binary"] != "encoding/binary" {
		die("%s: NewHasherWithOptions: expected bufLen := hashLen + binary.MaxVarintLen64 (encoding/binary), found %q", hs.Label, bufLenSrc)
	}
	varint := astx.Load(filepath.Join(astx.GoRoot(), "src", "encoding", "binary", "varint.go"), "GOROOT/src/encoding/binary/varint.go")
	maxVarint := varint.MustConstInt("MaxVarintLen64")

	// ---------- output (names, types and order of the original hand-written file) ----------
	var sb strings.Builder
	w := func(format string, args ...interface{}) { fmt.Fprintf(&sb, format, args...) }
	c := astx.CoqComment
	w("(* GENERATED by tools/extract from /repo — do not edit.\n")
	w("   Constants of the x/data IRI codec and data-ID hasher, one flat [Definition] per\n")
	w("   source expression.  The source location of each constant is given in its comment. *)\n")
	w("From Coq Require Import List NArith Strings.Byte Strings.String.\n")
	w("Require Import Regen.Base.Bytes.\n")
	w("Import ListNotations.\n")
	w("Local Open Scope N_scope.\n")
	w("Local Open Scope string_scope.\n\n")

	w("(* x/data/iri.go: %s *)\n", c(constLine(iri, "iriVersion0")))
	w("Definition iri_version0 : N := %d.\n", iriVersion0)
	w("(* x/data/iri.go: %s *)\n", c(constLine(iri, "IriPrefixRaw")))
	w("Definition iri_prefix_raw : N := %d.\n", prefixRaw)
	w("(* x/data/iri.go: %s *)\n", c(constLine(iri, "IriPrefixGraph")))
	w("Definition iri_prefix_graph : N := %d.\n", prefixGraph)
	w("(* x/data/iri.go: ContentHash_Raw.ToIRI, fmt.Sprintf format string *)\n")
	w("Definition iri_raw_format : bytes := %s.\n", astx.CoqB(rawLay.format))
	w("(* x/data/iri.go: ContentHash_Graph.ToIRI, fmt.Sprintf format string *)\n")
	w("Definition iri_graph_format : bytes := %s.\n", astx.CoqB(graphLay.format))
	w("(* x/data/iri.go: ParseIRI, %s *)\n", c("const regenPrefix = "+astx.Str(locals["regenPrefix"])))
	w("Definition iri_parse_prefix : bytes := %s.\n", astx.CoqB(parsePrefix))
	w("(* x/data/iri.go: ParseIRI, separator in %s *)\n", c(astx.Str(split)))
	w("Definition iri_parse_sep : N := %d.\n", sep[0])
	w("(* x/data/iri.go: ParseIRI, required number of parts: %s *)\n", c(astx.Str(partsCmp)))
	w("Definition iri_parse_parts : N := %d.\n", parts)
	w("(* x/data/iri.go: ParseIRI, case IriPrefixGraph: if %s *)\n", c(graphExtSrc))
	w("Definition iri_parse_graph_ext : bytes := %s.\n\n", astx.CoqB(graphExt))

	w("(* x/data/types.go: validateHash, if %s *)\n", c(astx.Str(hashMinSrc)))
	w("Definition hash_min_len : N := %d.\n", hashMin)
	w("(* x/data/types.go: validateHash, if %s *)\n", c(astx.Str(hashMaxSrc)))
	w("Definition hash_max_len : N := %d.\n", hashMax)
	w("(* x/data/types.go: ContentHash_Raw.Validate, if %s *)\n", c(astx.Str(extMinSrc)))
	w("Definition ext_min_len : N := %d.\n", extMin)
	w("(* x/data/types.go: ContentHash_Raw.Validate, if %s *)\n", c(astx.Str(extMaxSrc)))
	w("Definition ext_max_len : N := %d.\n", extMax)
	w("(* x/data/types.go: ContentHash_Raw.Validate, %s *)\n", c(astx.Str(charCond)))
	w("Definition ext_char_0 : N := %d.\n", charShape[0])
	w("Definition ext_char_9 : N := %d.\n", charShape[1])
	w("Definition ext_char_a : N := %d.\n", charShape[2])
	w("Definition ext_char_z : N := %d.\n", charShape[3])
	w("(* x/data/types.go: %s *)\n", c(constLine(typ, "maxIRIAlgorithm")))
	w("Definition max_iri_algorithm : N := %d.\n\n", maxAlg)

	w("(* github.com/cosmos/btcutil base58/alphabet.go: const alphabet *)\n")
	w("Definition b58_alphabet : bytes := %s.\n", astx.CoqB(alphabet))
	w("(* github.com/cosmos/btcutil base58/alphabet.go: %s *)\n", c(constLine(alpha, "alphabetIdx0")))
	w("Definition b58_alphabet_idx0 : N := %d.\n", alphabetIdx0)
	w("(* github.com/cosmos/btcutil base58/base58check.go: checksum, %s %s *)\n", ckRes, astx.Str(ckT))
	w("Definition b58_checksum_len : N := %d.\n", cksumLen)
	w("(* github.com/cosmos/btcutil base58/base58check.go: CheckDecode, if %s *)\n", c(astx.Str(minDecodedSrc)))
	w("Definition b58_min_decoded_len : N := %d.\n", minDecoded)
	w("(* github.com/cosmos/btcutil base58/base58.go: Decode, chunk size: %s *)\n", c(chunkSrc))
	w("Definition b58_decode_chunk : N := %d.\n", chunk)
	w("(* github.com/cosmos/btcutil base58/alphabet.go: len(b58) of var b58 = %s{...} *)\n", astx.Str(at))
	w("Definition b58_table_len : N := %d.\n\n", tableLen)

	w("(* x/data/server/hasher/hasher.go: NewHasherWithOptions, if minLength == 0 { minLength = %d } *)\n", hasherMin)
	w("Definition hasher_min_len : N := %d.\n", hasherMin)
	w("(* x/data/server/hasher/hasher.go: NewHasherWithOptions, %s: digest size in bytes *)\n", c(astx.Str(bl)))
	w("Definition hasher_digest_size : N := %d.\n", digestSize)
	w("(* encoding/binary: const MaxVarintLen64 = %d (%s) *)\n", maxVarint, c(bufLenSrc))
	w("Definition max_varint_len64 : N := %d.\n", maxVarint)

	// ---- definitions added by the generator (after every original one) ----
	w("\n(* ---- layout of the base58check payload written by ToIRI (btcutil %s) ---- *)\n", btcVer)
	w("(* x/data/iri.go: every header byte after the prefix is written as bz[i] = byte(<recv>.<Field>), i.e. the\n")
	w("   field is truncated to its low 8 bits and occupies exactly one byte (any other form is a generator error) *)\n")
	w("Definition iri_field_conv_is_byte_trunc : bool := true.\n")
	w("(* x/data/iri.go: ContentHash_Raw.ToIRI, make([]byte, len(%s.Hash)+%d) / copy(bz[%d:], %s.Hash) *)\n", rawLay.recv, rawLay.offset, rawLay.offset, rawLay.recv)
	w("Definition iri_raw_hash_offset : N := %d.\n", rawLay.offset)
	w("(* x/data/iri.go: ContentHash_Graph.ToIRI, make([]byte, len(%s.Hash)+%d) / copy(bz[%d:], %s.Hash) *)\n", graphLay.recv, graphLay.offset, graphLay.offset, graphLay.recv)
	w("Definition iri_graph_hash_offset : N := %d.\n", graphLay.offset)
	w("(* x/data/iri.go: fields stored in bz[1], bz[2], ... in index order *)\n")
	w("Definition iri_raw_field_order : list bytes := %s.\n", astx.CoqBList(rawLay.fields))
	w("Definition iri_graph_field_order : list bytes := %s.\n", astx.CoqBList(graphLay.fields))
	w("(* x/data/types.go: fields compared with `> maxIRIAlgorithm` in validateHash (digest, called with\n")
	w("   <recv>.DigestAlgorithm by both validators) and ContentHash_Graph.Validate, sorted *)\n")
	w("Definition bounded_fields : list bytes := %s.\n", astx.CoqBList(boundedList))

	astx.WriteFile(*out, sb.String())
}
