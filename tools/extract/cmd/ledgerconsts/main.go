// Command ledgerconsts regenerates /verif/coq/Generated/LedgerConsts.v from the Go sources of
// x/ecocredit and types/math: length limits, the "uregen" denom, the apd contexts, the prune and
// date-criteria bounds, and -- most importantly -- the *choices* the handlers make: which decimal
// constructor validates which string, which decimal operation computes which quantity, how times
// are compared, which ORM tables and bank-keeper methods each function writes (the static write
// footprint), which keeper functions call which, and which handlers check the gov authority.
//
// Types are resolved with go/types over the working tree only (astx.World): math.Dec, time.Time,
// the ORM table interfaces of /repo/api and ecocredit.BankKeeper are local or standard-library
// types, so no module cache and no build are needed.
//
// Any deviation from the expected shape is reported on stderr and the exit code is 2.
//
// Usage: ledgerconsts [-repo /repo] -out /verif/coq/Generated/LedgerConsts.v
package main

import (
	"flag"
	"fmt"
	"go/ast"
	"go/constant"
	"go/token"
	"go/types"
	"path/filepath"
	"sort"
	"strings"

	"verif/tools/extract/astx"
)

var die = astx.Die

var (
	keeperDirs = []string{"base/keeper", "basket/keeper", "marketplace/keeper"}
	typesDirs  = []string{"base/types/v1", "basket/types/v1", "marketplace/types/v1"}
	// also scanned for decimal constructor uses: genesis validation and the helper behind
	// utils.GetNonNegativeFixedDecs
	extraCtorDirs = []string{"genesis", "server/utils"}
)

// Foreign timestamp types whose After/Before/Compare/Equal methods are time comparisons.
var timestampTypes = map[string][]string{
	"github.com/cosmos/gogoproto/types":                  {"Timestamp"},
	"github.com/gogo/protobuf/types":                     {"Timestamp"},
	"google.golang.org/protobuf/types/known/timestamppb": {"Timestamp"},
}

func isTimeType(t types.Type) bool {
	pp, n, ok := astx.NamedType(t)
	if !ok {
		return false
	}
	if pp == "time" && n == "Time" {
		return true
	}
	for path, names := range timestampTypes {
		for _, name := range names {
			if pp == path && n == name {
				return true
			}
		}
	}
	return false
}

// ORM methods that write a table.
var ormWrites = map[string]bool{"Insert": true, "InsertReturningID": true, "Update": true, "Save": true,
	"Delete": true, "DeleteBy": true, "DeleteRange": true}

func generated(name string) bool {
	for _, suf := range []string{".pb.go", ".pb.gw.go", ".pulsar.go", ".cosmos_orm.go"} {
		if strings.HasSuffix(name, suf) {
			return true
		}
	}
	return false
}

// limitShape checks that every comparison against the limit constant name in dir has the form
// `len(x) > name` (or `x != name` for op NEQ): a changed operator is a shape failure.
func limitShape(eco, dir, name string, op token.Token) {
	files, _ := filepath.Glob(filepath.Join(eco, dir, "*.go"))
	sort.Strings(files)
	n := 0
	for _, p := range files {
		if strings.HasSuffix(p, "_test.go") || generated(p) {
			continue
		}
		f := astx.Load(p, "x/ecocredit/"+dir+"/"+filepath.Base(p))
		for _, b := range astx.Binaries(f.AST, func(b *ast.BinaryExpr) bool {
			return astx.IsIdent(astx.Unparen(b.X), name) || astx.IsIdent(astx.Unparen(b.Y), name)
		}) {
			okShape := b.Op == op && astx.IsIdent(b.Y, name)
			if op == token.GTR {
				c, isCall := b.X.(*ast.CallExpr)
				okShape = okShape && isCall && astx.Callee(c) == "len" && len(c.Args) == 1
			}
			if !okShape {
				die("%s: comparison with %s is not of the form `%s %s %s`: %s", f.Pos(b), name,
					map[token.Token]string{token.GTR: "len(x)", token.NEQ: "x"}[op], op, name, astx.Str(b))
			}
			n++
		}
	}
	if n == 0 {
		die("x/ecocredit/%s: no comparison against %s found", dir, name)
	}
}

type collector struct {
	w        *astx.World
	eco      string
	mathPath string
	utilPath string
	ecoPath  string
	apiPath  string

	decMethods map[string]bool // methods of math.Dec that are reported (all but String)
	decFuncs   map[string]bool // package-level functions of package math over Dec (not constructors)
	decCtors   map[string]bool // package-level constructors of package math

	ctorUses, opUses, timeUses, footprint, calls [][]string
	authority                                    [][]string

	// edges: "dir:Func" -> set of "dir:Func" for every call between functions of the scanned packages
	edges map[string]map[string]bool
	// funcs: every scanned function "dir:Func" -> is it an entry point (exported name)
	funcs map[string]bool
}

func (c *collector) rel(dir, name string) string { return dir + "/" + name }

// pkgOf returns the imported package path if id names an imported package.
func pkgOf(p *astx.Package, e ast.Expr) string {
	id, ok := e.(*ast.Ident)
	if !ok {
		return ""
	}
	if pn, ok := p.Info.Uses[id].(*types.PkgName); ok {
		return pn.Imported().Path()
	}
	return ""
}

func isNamed(t types.Type, pkgPath, name string) bool {
	pp, n, ok := astx.NamedType(t)
	return ok && pp == pkgPath && n == name
}

// scan walks one package. keeper: record footprint, calls, authority checks; ops: record decimal
// operations; times: record time comparisons; constructor uses are always recorded.
func (c *collector) scan(dir string, keeper, ops, times bool) {
	p := c.w.CheckDir(filepath.Join(c.eco, filepath.FromSlash(dir)))
	for i, af := range p.Files {
		name := p.Names[i]
		if generated(name) {
			continue
		}
		file := c.rel(dir, name)
		for _, d := range af.Decls {
			fd, ok := d.(*ast.FuncDecl)
			if !ok || fd.Body == nil {
				continue
			}
			c.scanFunc(p, dir, file, fd, keeper, ops, times)
		}
	}
}

func (c *collector) scanFunc(p *astx.Package, dir, file string, fd *ast.FuncDecl, keeper, ops, times bool) {
	fn := astx.FuncName(fd)
	pos := func(n ast.Node) string {
		q := c.w.Fset.Position(n.Pos())
		return fmt.Sprintf("x/ecocredit/%s:%d:%d", file, q.Line, q.Column)
	}
	recv := astx.RecvName(fd)
	authCheck := false
	self := dir + ":" + fn
	if c.funcs == nil {
		c.funcs, c.edges = map[string]bool{}, map[string]map[string]bool{}
	}
	c.funcs[self] = ast.IsExported(fd.Name.Name)
	edge := func(f *types.Func) {
		if to := c.calleeKey(f); to != "" {
			if c.edges[self] == nil {
				c.edges[self] = map[string]bool{}
			}
			c.edges[self][to] = true
		}
	}

	astx.WalkStack(fd.Body, func(n ast.Node, stack []ast.Node) bool {
		// ---- authority: k.authority may only be compared in the two known ways ----
		if keeper && recv != "" {
			if ifs, ok := n.(*ast.IfStmt); ok {
				want1 := recv + ".authority.String() != "
				cond := astx.Str(ifs.Cond)
				isCheck := false
				if b, ok := ifs.Cond.(*ast.BinaryExpr); ok && b.Op == token.NEQ && strings.HasPrefix(cond, want1) {
					if s, ok := b.Y.(*ast.SelectorExpr); ok && s.Sel.Name == "Authority" {
						isCheck = true
					}
				}
				if u, ok := ifs.Cond.(*ast.UnaryExpr); ok && u.Op == token.NOT {
					if call, ok := u.X.(*ast.CallExpr); ok && astx.MethodName(call) == "Equals" && len(call.Args) == 1 &&
						astx.Str(call.Args[0]) == recv+".authority" {
						isCheck = true
					}
				}
				if isCheck {
					// the guarded branch must leave the handler with an error
					last := ifs.Body.List
					if len(last) == 0 {
						die("%s: authority check with an empty branch", pos(ifs))
					}
					r, ok := last[len(last)-1].(*ast.ReturnStmt)
					if !ok || len(r.Results) == 0 || astx.IsIdent(r.Results[len(r.Results)-1], "nil") {
						die("%s: authority check does not return an error", pos(ifs))
					}
					if authCheck {
						die("%s: %s checks the authority twice", pos(ifs), fn)
					}
					authCheck = true
					c.authority = append(c.authority, []string{file, fn})
				} else if strings.Contains(cond, recv+".authority") {
					die("%s: unexpected form of authority check: %s", pos(ifs), cond)
				}
			}
			if b, ok := n.(*ast.BinaryExpr); ok && (b.Op == token.EQL || b.Op == token.NEQ) &&
				(strings.Contains(astx.Str(b.X), recv+".authority") || strings.Contains(astx.Str(b.Y), recv+".authority")) {
				if _, inIf := parentIfCond(stack, b); !inIf {
					die("%s: %s.authority compared outside an if condition: %s", pos(b), recv, astx.Str(b))
				}
			}
		}

		call, ok := n.(*ast.CallExpr)
		if !ok {
			return true
		}
		sel, ok := call.Fun.(*ast.SelectorExpr)
		if !ok {
			// plain call of a function of the same package
			if id, ok := call.Fun.(*ast.Ident); ok {
				if f, ok := p.Info.Uses[id].(*types.Func); ok && f.Pkg() != nil {
					edge(f)
					if keeper {
						c.recordCall(file, fn, f)
					}
				}
			}
			return true
		}
		m := sel.Sel.Name

		// ---- package-qualified calls: math.* and utils.GetNonNegativeFixedDecs ----
		if pp := pkgOf(p, sel.X); pp != "" {
			switch {
			case pp == c.mathPath && c.decCtors[m]:
				c.ctorUses = append(c.ctorUses, []string{file, fn, m})
			case pp == c.utilPath && m == "GetNonNegativeFixedDecs":
				c.ctorUses = append(c.ctorUses, []string{file, fn, "GetNonNegativeFixedDecs"})
			case pp == c.mathPath && c.decFuncs[m] && ops:
				c.opUses = append(c.opUses, []string{file, fn, m})
			}
			if f, ok := p.Info.Uses[sel.Sel].(*types.Func); ok {
				edge(f)
				if keeper {
					c.recordCall(file, fn, f)
				}
			}
			return true
		}

		// ---- method calls ----
		rt := p.TypeOf(sel.X)
		if ops && rt != nil && isNamed(rt, c.mathPath, "Dec") && c.decMethods[m] {
			c.opUses = append(c.opUses, []string{file, fn, m})
		}
		if f, ok := p.Info.Uses[sel.Sel].(*types.Func); ok {
			edge(f)
		}
		if keeper {
			if f, ok := p.Info.Uses[sel.Sel].(*types.Func); ok {
				c.recordCall(file, fn, f)
			}
			// ORM table writes
			if ormWrites[m] {
				table := ""
				if pp, tn, ok := astx.NamedType(rt); ok && strings.HasPrefix(pp, c.apiPath+"/") && strings.HasSuffix(tn, "Table") {
					table = strings.TrimSuffix(tn, "Table")
				} else if rt == nil {
					if inner, ok := sel.X.(*ast.CallExpr); ok && strings.HasSuffix(astx.MethodName(inner), "Table") && len(inner.Args) == 0 {
						table = strings.TrimSuffix(astx.MethodName(inner), "Table")
					} else if s := strings.ToLower(astx.Str(sel.X)); strings.Contains(s, "table") || strings.Contains(s, "store") {
						die("%s: cannot determine which table %s writes", pos(call), astx.Str(call.Fun))
					}
				}
				if table != "" {
					c.footprint = append(c.footprint, []string{file, fn, table + "." + m})
				}
			}
			// bank keeper
			if isNamed(rt, c.ecoPath, "BankKeeper") {
				c.footprint = append(c.footprint, []string{file, fn, "bank." + m})
			} else if rt == nil && strings.Contains(strings.ToLower(astx.Str(sel.X)), "bank") {
				die("%s: cannot determine the type of %s (expected ecocredit.BankKeeper)", pos(call), astx.Str(sel.X))
			}
		}
		// ---- time comparisons ----
		if times && (m == "After" || m == "Before" || m == "Compare" || m == "Equal") && len(call.Args) == 1 {
			isTime := isTimeType(rt)
			if rt == nil && (m == "After" || m == "Before") {
				isTime = true // these names are specific enough when the receiver comes from foreign code
			}
			if isTime {
				c.timeUses = append(c.timeUses, []string{file, fn, cmpText(stack, call, m)})
			}
		}
		return true
	})

}

// parentIfCond reports whether e is (part of) the condition of the closest enclosing statement
// and that statement is an if.
func parentIfCond(stack []ast.Node, e ast.Expr) (*ast.IfStmt, bool) {
	for i := len(stack) - 1; i >= 0; i-- {
		switch s := stack[i].(type) {
		case ast.Expr:
			continue
		case *ast.IfStmt:
			return s, s.Cond != nil && s.Cond.Pos() <= e.Pos() && e.End() <= s.Cond.End()
		default:
			return nil, false
		}
	}
	return nil, false
}

// cmpText renders a time comparison: "!After" when directly negated, "Compare != 1" when the
// result is compared with a constant, else the bare method name.
func cmpText(stack []ast.Node, call *ast.CallExpr, m string) string {
	i := len(stack) - 1
	for i >= 0 {
		if _, ok := stack[i].(*ast.ParenExpr); ok {
			i--
			continue
		}
		break
	}
	if i >= 0 {
		switch par := stack[i].(type) {
		case *ast.UnaryExpr:
			if par.Op == token.NOT {
				return "!" + m
			}
		case *ast.BinaryExpr:
			switch par.Op {
			case token.EQL, token.NEQ, token.LSS, token.LEQ, token.GTR, token.GEQ:
				if astx.Unparen(par.X) == ast.Expr(call) {
					return m + " " + par.Op.String() + " " + astx.Str(par.Y)
				}
				return astx.Str(par.X) + " " + par.Op.String() + " " + m
			}
		}
	}
	return m
}

// recordCall records a call of a function or method declared in x/ecocredit's keeper packages or
// server/utils (the edges needed to close the per-function footprint over helper calls).
func (c *collector) recordCall(file, fn string, f *types.Func) {
	if f.Pkg() == nil {
		return
	}
	pp := f.Pkg().Path()
	if !strings.HasPrefix(pp, c.ecoPath+"/") {
		return
	}
	dir := strings.TrimPrefix(pp, c.ecoPath+"/")
	ok := dir == "server/utils"
	for _, k := range keeperDirs {
		ok = ok || dir == k
	}
	if !ok {
		return
	}
	name := f.Name()
	if sig, isSig := f.Type().(*types.Signature); isSig && sig.Recv() != nil {
		if _, tn, named := astx.NamedType(sig.Recv().Type()); named {
			name = tn + "." + name
		} else {
			return // method of an interface or unnamed type
		}
		if _, isIface := sig.Recv().Type().Underlying().(*types.Interface); isIface {
			return
		}
	}
	c.calls = append(c.calls, []string{file, fn, dir + ":" + name})
}

// constStringInPackage evaluates e as a constant string: in file f, or, when e is an identifier that f does not
// declare, in the sibling file of the package directory that declares it.
func constStringInPackage(f *astx.File, dir string, e ast.Expr, what string) string {
	if v, err := f.Eval(e, nil); err == nil && v.Kind() == constant.String {
		return constant.StringVal(v)
	}
	if id, ok := e.(*ast.Ident); ok {
		files, _ := filepath.Glob(filepath.Join(dir, "*.go"))
		sort.Strings(files)
		for _, p := range files {
			if strings.HasSuffix(p, "_test.go") || generated(p) {
				continue
			}
			g := astx.Load(p, p)
			if _, has := g.Specs[id.Name]; has {
				return g.MustString(id, nil, what)
			}
		}
	}
	die("%s: %s is not a constant string: %s", f.Pos(e), what, astx.Str(e))
	return ""
}

// calleeKey names a function or method of x/ecocredit as "dir:Recv.Name" ("" for anything else, for interface
// methods and for methods of unnamed types).
func (c *collector) calleeKey(f *types.Func) string {
	if f.Pkg() == nil {
		return ""
	}
	pp := f.Pkg().Path()
	if !strings.HasPrefix(pp, c.ecoPath+"/") {
		return ""
	}
	dir := strings.TrimPrefix(pp, c.ecoPath+"/")
	name := f.Name()
	if sig, isSig := f.Type().(*types.Signature); isSig && sig.Recv() != nil {
		_, tn, named := astx.NamedType(sig.Recv().Type())
		if !named {
			return ""
		}
		if _, isIface := sig.Recv().Type().Underlying().(*types.Interface); isIface {
			return ""
		}
		name = tn + "." + name
	}
	return dir + ":" + name
}

// closures turns per-function rows (file, function, item) into per-ENTRY-POINT rows (entry, item): an entry point
// is a scanned function with an exported name; its items are those of every scanned function reachable from it
// through calls (the entry itself included), as a sorted set.  The result does not depend on how the code is
// split into unexported helpers, on the files the functions live in, on local names or on repetition.
func (c *collector) closures(rows [][]string) [][]string {
	own := map[string]map[string]bool{}
	for _, r := range rows {
		k := filepath.ToSlash(filepath.Dir(r[0])) + ":" + r[1]
		if own[k] == nil {
			own[k] = map[string]bool{}
		}
		own[k][r[2]] = true
	}
	var out [][]string
	for entry, exported := range c.funcs {
		if !exported {
			continue
		}
		seen := map[string]bool{entry: true}
		todo := []string{entry}
		items := map[string]bool{}
		for len(todo) > 0 {
			f := todo[len(todo)-1]
			todo = todo[:len(todo)-1]
			for it := range own[f] {
				items[it] = true
			}
			for to := range c.edges[f] {
				if _, scanned := c.funcs[to]; scanned && !seen[to] {
					seen[to] = true
					todo = append(todo, to)
				}
			}
		}
		for it := range items {
			out = append(out, []string{entry, it})
		}
	}
	astx.SortRows(out)
	return out
}

func main() {
	astx.Tool = "ledgerconsts"
	repo := flag.String("repo", "/repo", "path of the regen-ledger working tree")
	out := flag.String("out", "", "output file (Generated/LedgerConsts.v)")
	flag.Parse()
	if *out == "" {
		die("-out is required")
	}
	eco := filepath.Join(*repo, "x", "ecocredit")
	load := func(rel string) *astx.File { return astx.Load(filepath.Join(*repo, filepath.FromSlash(rel)), rel) }

	// ---------- numeric / string constants ----------
	createProject := load("x/ecocredit/base/types/v1/msg_create_project.go")
	maxRefID := createProject.MustConstInt("MaxReferenceIDLength")
	limitShape(eco, "base/types/v1", "MaxReferenceIDLength", token.GTR)

	burnMsg := load("x/ecocredit/base/types/v1/msg_burn_regen.go")
	maxReason := burnMsg.MustConstInt("MaxReasonLen")
	limitShape(eco, "base/types/v1", "MaxReasonLen", token.GTR)

	creditType := load("x/ecocredit/base/types/v1/state_credit_type.go")
	maxCTName := creditType.MustConstInt("maxCreditTypeNameLength")
	limitShape(eco, "base/types/v1", "maxCreditTypeNameLength", token.GTR)

	params := load("x/ecocredit/base/types/v1/params.go")
	precision := params.MustConstInt("PRECISION")
	limitShape(eco, "base/types/v1", "PRECISION", token.NEQ)

	basketCreate := load("x/ecocredit/basket/types/v1/msg_create.go")
	descrMax := basketCreate.MustConstInt("descrMaxLen")
	limitShape(eco, "basket/types/v1", "descrMaxLen", token.GTR)

	// "uregen": marketplace fee burn (params.bankDenom == "uregen") and Msg/BurnRegen (sdk.NewCoin("uregen", ...))
	mutils := load("x/ecocredit/marketplace/keeper/utils.go")
	uregen := []string{}
	for _, b := range astx.Binaries(mutils.AST, func(b *ast.BinaryExpr) bool {
		s, ok := b.X.(*ast.SelectorExpr)
		return ok && s.Sel.Name == "bankDenom"
	}) {
		if b.Op != token.EQL {
			die("%s: expected `<params>.bankDenom == \"<denom>\"`, found %s", mutils.Pos(b), astx.Str(b))
		}
		// a string literal, or a named string constant of the package (same file or a sibling file)
		uregen = append(uregen, constStringInPackage(mutils, filepath.Join(eco, "marketplace", "keeper"), b.Y, "burn denom"))
	}
	if len(uregen) != 1 {
		die("%s: expected exactly one comparison `<params>.bankDenom == \"<denom>\"`, found %d", mutils.Label, len(uregen))
	}
	burnKeeper := load("x/ecocredit/base/keeper/msg_burn_regen.go")
	newCoin := burnKeeper.MustOneCall(burnKeeper.MustFunc("Keeper.BurnRegen").Body, "sdk.NewCoin", "Keeper.BurnRegen")
	if len(newCoin.Args) != 2 {
		die("%s: sdk.NewCoin arity", burnKeeper.Pos(newCoin))
	}
	if d := constStringInPackage(burnKeeper, filepath.Join(eco, "base", "keeper"), newCoin.Args[0], "sdk.NewCoin denom"); d != uregen[0] {
		die("burn denoms disagree: %s uses %q, %s uses %q", mutils.Label, uregen[0], burnKeeper.Label, d)
	}

	// apd contexts
	decF := load("types/math/dec.go")
	mathF := load("types/math/math.go")
	type ctxInfo struct {
		prec  int64
		traps []string
	}
	context := func(f *astx.File, name string) ctxInfo {
		init, ok := f.Specs[name]
		cl, ok2 := init.(*ast.CompositeLit)
		if !ok || !ok2 || astx.Str(cl.Type) != "apd.Context" {
			die("%s: var %s = apd.Context{...} not found", f.Label, name)
		}
		ci := ctxInfo{prec: -1}
		seenTraps := false
		for _, el := range cl.Elts {
			kv, ok := el.(*ast.KeyValueExpr)
			if !ok {
				die("%s: %s: unkeyed field", f.Pos(el), name)
			}
			switch astx.Str(kv.Key) {
			case "Precision":
				ci.prec = f.MustInt(kv.Value, nil, name+".Precision")
			case "Traps":
				seenTraps = true
				hasDefault := false
				var flat func(e ast.Expr)
				flat = func(e ast.Expr) {
					e = astx.Unparen(e)
					if b, ok := e.(*ast.BinaryExpr); ok && b.Op == token.OR {
						flat(b.X)
						flat(b.Y)
						return
					}
					s := astx.Str(e)
					if !strings.HasPrefix(s, "apd.") {
						die("%s: %s.Traps: unexpected term %s", f.Pos(e), name, s)
					}
					if s == "apd.DefaultTraps" {
						hasDefault = true
					} else {
						ci.traps = append(ci.traps, strings.TrimPrefix(s, "apd."))
					}
				}
				flat(kv.Value)
				if !hasDefault {
					die("%s: %s.Traps does not include apd.DefaultTraps", f.Pos(kv), name)
				}
			case "MaxExponent":
				if astx.Str(kv.Value) != "apd.MaxExponent" {
					die("%s: %s.MaxExponent is not apd.MaxExponent", f.Pos(kv), name)
				}
			case "MinExponent":
				if astx.Str(kv.Value) != "apd.MinExponent" {
					die("%s: %s.MinExponent is not apd.MinExponent", f.Pos(kv), name)
				}
			case "Rounding":
				die("%s: %s sets a Rounding mode; the model assumes apd's default (half up)", f.Pos(kv), name)
			default:
				die("%s: %s: unexpected field %s", f.Pos(kv), name, astx.Str(kv.Key))
			}
		}
		if ci.prec < 0 || !seenTraps {
			die("%s: %s lacks Precision or Traps", f.Label, name)
		}
		sort.Strings(ci.traps)
		return ci
	}
	dec128 := context(decF, "dec128Context")
	exact := context(mathF, "exactContext")

	// which apd context each function of types/math computes with
	ctxUses := [][]string{}
	for _, f := range []*astx.File{decF, mathF} {
		names := []string{}
		for n := range f.Funcs {
			names = append(names, n)
		}
		sort.Strings(names)
		for _, n := range names {
			fd := f.Funcs[n]
			if fd.Body == nil {
				continue
			}
			for _, c := range astx.Calls(fd.Body, func(c *ast.CallExpr) bool {
				s, ok := c.Fun.(*ast.SelectorExpr)
				if !ok {
					return false
				}
				x := astx.Str(s.X)
				return x == "apd.BaseContext" || x == "dec128Context" || x == "exactContext"
			}) {
				s := c.Fun.(*ast.SelectorExpr)
				ctxUses = append(ctxUses, []string{n, astx.Str(s.X), s.Sel.Name})
			}
		}
	}
	astx.SortRows(ctxUses)
	if len(ctxUses) == 0 {
		die("types/math: no use of an apd context found")
	}

	// prune lower bound: time.Unix(0, 1)
	prune := load("x/ecocredit/marketplace/keeper/prune_sell_orders.go")
	unix := prune.MustOneCall(prune.MustFunc("Keeper.PruneSellOrders").Body, "time.Unix", "Keeper.PruneSellOrders")
	if len(unix.Args) != 2 {
		die("%s: time.Unix arity", prune.Pos(unix))
	}
	pruneSecs := prune.MustInt(unix.Args[0], nil, "time.Unix seconds")
	pruneNanos := prune.MustInt(unix.Args[1], nil, "time.Unix nanoseconds")

	// date criteria bounds
	dc := load("x/ecocredit/basket/types/v1/types_date_criteria.go")
	dcBody := dc.MustFunc("DateCriteria.Validate").Body
	minStart, _ := dc.MustCompare(dcBody, "minStartDate.Seconds", token.LSS, "DateCriteria.Validate")
	maxStart, _ := dc.MustCompare(dcBody, "minStartDate.Seconds", token.GTR, "DateCriteria.Validate")
	dc.MustNoOtherCompare(dcBody, "minStartDate.Seconds", []token.Token{token.LSS, token.GTR}, "DateCriteria.Validate")
	startNanosLo, _ := dc.MustCompare(dcBody, "minStartDate.Nanos", token.LSS, "DateCriteria.Validate")
	startNanosHi, _ := dc.MustCompare(dcBody, "minStartDate.Nanos", token.GEQ, "DateCriteria.Validate")
	dc.MustNoOtherCompare(dcBody, "minStartDate.Nanos", []token.Token{token.LSS, token.GEQ}, "DateCriteria.Validate")
	minWindow, _ := dc.MustCompare(dcBody, "startDateWindow.Seconds", token.LSS, "DateCriteria.Validate")
	maxWindow, _ := dc.MustCompare(dcBody, "startDateWindow.Seconds", token.GTR, "DateCriteria.Validate")
	dc.MustNoOtherCompare(dcBody, "startDateWindow.Seconds", []token.Token{token.LSS, token.GTR}, "DateCriteria.Validate")
	windowNanosLo, _ := dc.MustCompare(dcBody, "startDateWindow.Nanos", token.LSS, "DateCriteria.Validate")
	windowNanosHi, _ := dc.MustCompare(dcBody, "startDateWindow.Nanos", token.GEQ, "DateCriteria.Validate")
	dc.MustNoOtherCompare(dcBody, "startDateWindow.Nanos", []token.Token{token.LSS, token.GEQ}, "DateCriteria.Validate")

	// ---------- typed scan ----------
	w := astx.NewWorld(*repo)
	w.Opaque = timestampTypes
	c := &collector{w: w, eco: eco}
	c.ecoPath = w.ImportPathOf(eco)
	c.mathPath = w.ImportPathOf(filepath.Join(*repo, "types", "math"))
	c.apiPath = w.ImportPathOf(filepath.Join(*repo, "api"))
	c.utilPath = c.ecoPath + "/server/utils"
	if c.ecoPath == "" || c.mathPath == "" || c.apiPath == "" {
		die("cannot determine the import paths of x/ecocredit, types/math and api below %s", *repo)
	}
	if tp, err := w.Import("time"); err != nil || tp.Scope().Lookup("Time") == nil {
		die("cannot type-check package time from GOROOT (%s): time comparisons could not be recognised", astx.GoRoot())
	}
	mp := w.CheckDir(filepath.Join(*repo, "types", "math"))
	decObj, _ := mp.Types.Scope().Lookup("Dec").(*types.TypeName)
	if decObj == nil {
		die("types/math: type Dec not found")
	}
	decNamed := decObj.Type().(*types.Named)
	c.decMethods, c.decFuncs, c.decCtors = map[string]bool{}, map[string]bool{}, map[string]bool{}
	for i := 0; i < decNamed.NumMethods(); i++ {
		if n := decNamed.Method(i).Name(); n != "String" {
			c.decMethods[n] = true
		}
	}
	mentionsDec := func(t *types.Tuple) bool {
		for i := 0; i < t.Len(); i++ {
			if isNamed(t.At(i).Type(), c.mathPath, "Dec") {
				return true
			}
		}
		return false
	}
	for _, n := range mp.Types.Scope().Names() {
		f, ok := mp.Types.Scope().Lookup(n).(*types.Func)
		if !ok || !f.Exported() {
			continue
		}
		sig := f.Type().(*types.Signature)
		switch {
		case strings.HasPrefix(n, "New") && mentionsDec(sig.Results()) && !mentionsDec(sig.Params()):
			c.decCtors[n] = true
		case mentionsDec(sig.Params()) && mentionsDec(sig.Results()):
			c.decFuncs[n] = true
		}
	}
	for _, need := range []string{"NewDecFromString", "NewNonNegativeDecFromString", "NewNonNegativeFixedDecFromString",
		"NewPositiveDecFromString", "NewPositiveFixedDecFromString"} {
		if !c.decCtors[need] {
			die("types/math: constructor %s not found", need)
		}
	}
	for _, need := range []string{"Add", "Sub", "Mul", "Quo", "MulExact", "QuoExact", "SdkIntTrim", "BigInt", "Cmp", "IsZero", "IsPositive", "IsNegative"} {
		if !c.decMethods[need] {
			die("types/math: method Dec.%s not found", need)
		}
	}
	for _, need := range []string{"SafeSubBalance", "SafeAddBalance", "SubNonNegative", "Add"} {
		if !c.decFuncs[need] {
			die("types/math: function %s not found", need)
		}
	}

	for _, d := range keeperDirs {
		c.scan(d, true, true, true)
	}
	for _, d := range typesDirs {
		c.scan(d, false, true, true)
	}
	for _, d := range extraCtorDirs {
		c.scan(d, false, false, false)
	}
	for _, rows := range []*[][]string{&c.ctorUses, &c.opUses, &c.timeUses, &c.footprint, &c.calls, &c.authority} {
		astx.SortRows(*rows)
	}
	for _, l := range []struct {
		what string
		rows [][]string
	}{{"dec_ctor_uses", c.ctorUses}, {"dec_op_uses", c.opUses}, {"time_cmp_uses", c.timeUses},
		{"footprint", c.footprint}, {"keeper_calls", c.calls}, {"authority_checks", c.authority}} {
		if len(l.rows) == 0 {
			die("%s would be empty: the scan found nothing (did x/ecocredit move?)", l.what)
		}
	}
	// the constructor behind utils.GetNonNegativeFixedDecs
	fixedCtor := ""
	for _, r := range c.ctorUses {
		if r[0] == "server/utils/utils.go" && r[1] == "GetNonNegativeFixedDecs" {
			if fixedCtor != "" {
				die("server/utils/utils.go: GetNonNegativeFixedDecs uses more than one constructor")
			}
			fixedCtor = r[2]
		}
	}
	if fixedCtor == "" {
		die("server/utils/utils.go: GetNonNegativeFixedDecs: no math.New*Dec* call found")
	}

	// ---------- output ----------
	var sb strings.Builder
	sb.WriteString("(* GENERATED by tools/extract from /repo — do not edit.\n")
	sb.WriteString("   Constants and handler choices of x/ecocredit and types/math.  File paths are relative to\n")
	sb.WriteString("   /repo/x/ecocredit; functions are named Recv.Method; every list is sorted and keeps duplicates\n")
	sb.WriteString("   (one entry per occurrence in the source). *)\n")
	sb.WriteString("(* regenerate: cd /verif/tools/extract && go run ./cmd/ledgerconsts -repo /repo -out /verif/coq/Generated/LedgerConsts.v *)\n")
	sb.WriteString("From Coq Require Import List ZArith NArith Strings.Byte Strings.String.\n")
	sb.WriteString("Require Import Regen.Base.Bytes.\n")
	sb.WriteString("Import ListNotations.\n")
	sb.WriteString("Local Open Scope string_scope.\n\n")

	sb.WriteString("(* ---- limits ---- *)\n")
	fmt.Fprintf(&sb, "(* base/types/v1/msg_create_project.go: const MaxReferenceIDLength; every use is `len(x) > MaxReferenceIDLength` *)\n")
	fmt.Fprintf(&sb, "Definition max_reference_id_length : N := %d%%N.\n", maxRefID)
	fmt.Fprintf(&sb, "(* base/types/v1/msg_burn_regen.go: const MaxReasonLen; every use is `len(x) > MaxReasonLen` *)\n")
	fmt.Fprintf(&sb, "Definition max_reason_len : N := %d%%N.\n", maxReason)
	fmt.Fprintf(&sb, "(* base/types/v1/state_credit_type.go: const maxCreditTypeNameLength; every use is `len(x) > maxCreditTypeNameLength` *)\n")
	fmt.Fprintf(&sb, "Definition max_credit_type_name_length : N := %d%%N.\n", maxCTName)
	fmt.Fprintf(&sb, "(* base/types/v1/params.go: PRECISION; every use is `x != PRECISION` *)\n")
	fmt.Fprintf(&sb, "Definition credit_type_precision : N := %d%%N.\n", precision)
	fmt.Fprintf(&sb, "(* basket/types/v1/msg_create.go: const descrMaxLen; every use is `len(x) > descrMaxLen` *)\n")
	fmt.Fprintf(&sb, "Definition basket_descr_max_len : N := %d%%N.\n", descrMax)
	fmt.Fprintf(&sb, "(* marketplace/keeper/utils.go: params.bankDenom == %q; base/keeper/msg_burn_regen.go: sdk.NewCoin(%q, amount) *)\n", uregen[0], uregen[0])
	fmt.Fprintf(&sb, "Definition uregen_denom : bytes := %s.\n\n", astx.CoqB(uregen[0]))

	sb.WriteString("(* ---- apd contexts (MaxExponent/MinExponent are apd's, no Rounding field: apd default) ---- *)\n")
	sb.WriteString("(* /repo/types/math/dec.go: var dec128Context = apd.Context{Precision: ..., Traps: apd.DefaultTraps | ...} *)\n")
	fmt.Fprintf(&sb, "Definition dec128_precision : N := %d%%N.\n", dec128.prec)
	fmt.Fprintf(&sb, "Definition dec128_context_traps : list bytes := %s.\n", astx.CoqBList(dec128.traps))
	sb.WriteString("(* /repo/types/math/math.go: var exactContext = apd.Context{Precision: ..., Traps: apd.DefaultTraps | ...};\n   the traps listed are the ones added to apd.DefaultTraps *)\n")
	fmt.Fprintf(&sb, "Definition exact_context_precision : N := %d%%N.\n", exact.prec)
	fmt.Fprintf(&sb, "Definition exact_context_traps : list bytes := %s.\n", astx.CoqBList(exact.traps))
	sb.WriteString("(* /repo/types/math/{dec,math}.go: (function, apd context, apd operation) for every <context>.<Op>(...) call *)\n")
	fmt.Fprintf(&sb, "Definition dec_context_uses : list (bytes * bytes * bytes) :=\n%s.\n\n", astx.CoqTuples(ctxUses))

	sb.WriteString("(* ---- time bounds ---- *)\n")
	fmt.Fprintf(&sb, "(* marketplace/keeper/prune_sell_orders.go: lower end of the pruned range, %s *)\n", astx.Str(unix))
	fmt.Fprintf(&sb, "Definition prune_lower_secs : Z := %s.\n", coqZ(pruneSecs))
	fmt.Fprintf(&sb, "Definition prune_lower_nanos : Z := %s.\n", coqZ(pruneNanos))
	sb.WriteString("(* basket/types/v1/types_date_criteria.go DateCriteria.Validate: minStartDate.Seconds < <bound> and\n   startDateWindow.Seconds < <bound> are rejected *)\n")
	fmt.Fprintf(&sb, "Definition date_criteria_min_start_seconds : Z := %s.\n", coqZ(minStart))
	fmt.Fprintf(&sb, "Definition date_criteria_min_window_seconds : Z := %s.\n", coqZ(minWindow))
	sb.WriteString("(* the same function rejects minStartDate.Seconds > <bound>, minStartDate.Nanos < <lo>, minStartDate.Nanos >= <hi>,\n   startDateWindow.Seconds > <bound>, startDateWindow.Nanos < <lo>, startDateWindow.Nanos >= <hi> *)\n")
	fmt.Fprintf(&sb, "Definition date_criteria_max_start_seconds : Z := %s.\n", coqZ(maxStart))
	fmt.Fprintf(&sb, "Definition date_criteria_start_nanos_lo : Z := %s.\n", coqZ(startNanosLo))
	fmt.Fprintf(&sb, "Definition date_criteria_start_nanos_hi : Z := %s.\n", coqZ(startNanosHi))
	fmt.Fprintf(&sb, "Definition date_criteria_max_window_seconds : Z := %s.\n", coqZ(maxWindow))
	fmt.Fprintf(&sb, "Definition date_criteria_window_nanos_lo : Z := %s.\n", coqZ(windowNanosLo))
	fmt.Fprintf(&sb, "Definition date_criteria_window_nanos_hi : Z := %s.\n\n", coqZ(windowNanosHi))

	sb.WriteString("(* ---- decimal constructors: (file, function, constructor) for every math.New*Dec* call and every\n")
	sb.WriteString("   utils.GetNonNegativeFixedDecs call in */keeper, */types/v1, genesis and server/utils ---- *)\n")
	fmt.Fprintf(&sb, "(* server/utils/utils.go: the constructor GetNonNegativeFixedDecs applies to each string *)\n")
	fmt.Fprintf(&sb, "Definition fixed_decs_ctor : bytes := %s.\n", astx.CoqB(fixedCtor))
	fmt.Fprintf(&sb, "Definition dec_ctor_uses : list (bytes * bytes * bytes) :=\n%s.\n\n", astx.CoqTuples(c.ctorUses))

	sb.WriteString("(* ---- decimal operations in */keeper and */types/v1: (file, function, operation) for every method called on a\n")
	sb.WriteString("   math.Dec value (all methods but String) and every math.<F>(Dec...) Dec function ---- *)\n")
	fmt.Fprintf(&sb, "Definition dec_op_uses : list (bytes * bytes * bytes) :=\n%s.\n\n", astx.CoqTuples(c.opUses))

	sb.WriteString("(* ---- time comparisons in */keeper and */types/v1: After/Before/Compare/Equal on time.Time\n")
	sb.WriteString("   (and the protobuf Timestamp types); \"!M\" = directly negated, \"M op c\" = result compared with c ---- *)\n")
	fmt.Fprintf(&sb, "Definition time_cmp_uses : list (bytes * bytes * bytes) :=\n%s.\n\n", astx.CoqTuples(c.timeUses))

	sb.WriteString("(* ---- static write footprint of */keeper: (file, function, \"Table.Op\") for every ORM write\n")
	sb.WriteString("   (Insert, InsertReturningID, Update, Save, Delete, DeleteBy, DeleteRange) and (file, function, \"bank.Method\")\n")
	sb.WriteString("   for every method called on an ecocredit.BankKeeper ---- *)\n")
	fmt.Fprintf(&sb, "Definition footprint : list (bytes * bytes * bytes) :=\n%s.\n\n", astx.CoqTuples(c.footprint))

	sb.WriteString("(* ---- calls from */keeper into */keeper and server/utils: (file, caller, \"dir:callee\"); the\n")
	sb.WriteString("   footprint of a handler is the union over the functions reachable through these edges ---- *)\n")
	fmt.Fprintf(&sb, "Definition keeper_calls : list (bytes * bytes * bytes) :=\n%s.\n\n", astx.CoqTuples(c.calls))

	sb.WriteString("(* ---- per ENTRY POINT (exported function or method \"dir:Recv.Name\" of */keeper, */types/v1, genesis, server/utils):\n")
	sb.WriteString("   the SET of items used by the entry point or by any scanned function it reaches through calls.  These are the\n")
	sb.WriteString("   lists Ledger/Tie.v pins: they do not change when code moves between unexported helpers or files ---- *)\n")
	fmt.Fprintf(&sb, "Definition entry_dec_ctors : list (bytes * bytes) :=\n%s.\n\n", astx.CoqTuples(c.closures(c.ctorUses)))
	fmt.Fprintf(&sb, "Definition entry_dec_ops : list (bytes * bytes) :=\n%s.\n\n", astx.CoqTuples(c.closures(c.opUses)))
	fmt.Fprintf(&sb, "Definition entry_time_cmps : list (bytes * bytes) :=\n%s.\n\n", astx.CoqTuples(c.closures(c.timeUses)))
	fmt.Fprintf(&sb, "Definition entry_footprint : list (bytes * bytes) :=\n%s.\n\n", astx.CoqTuples(c.closures(c.footprint)))

	sb.WriteString("(* ---- keeper functions that reject a request whose Authority is not k.authority:\n")
	sb.WriteString("   `if k.authority.String() != req.Authority { return ..., err }` or `if !addr.Equals(k.authority) { ... }` ---- *)\n")
	fmt.Fprintf(&sb, "Definition authority_checks : list (bytes * bytes) :=\n%s.\n", astx.CoqTuples(c.authority))

	astx.WriteFile(*out, sb.String())
}

func coqZ(i int64) string {
	if i < 0 {
		return fmt.Sprintf("(%d)%%Z", i)
	}
	return fmt.Sprintf("%d%%Z", i)
}
