// Command miscconsts regenerates the two small constant files of the intertx and query models:
//
//	<out>/IntertxConsts.v  x/intertx Msg/SubmitTx and the ibc-go / cosmos-sdk helpers it calls
//	<out>/QueryConsts.v    list-query pagination defaults
//
// ibc-go, cosmos-sdk and the ORM are read from the module cache at the versions pinned by
// /repo/x/intertx/go.mod and /repo/types/go.mod; time constants come from GOROOT/src/time.
// Any deviation from the expected shape is reported on stderr and the exit code is 2 (no file
// is written).
//
// Usage: miscconsts [-repo /repo] -out /verif/coq/Generated     (-out is a DIRECTORY)
package main

import (
	"flag"
	"fmt"
	"go/ast"
	"go/constant"
	"go/parser"
	"go/token"
	"os"
	"path/filepath"
	"strconv"
	"strings"

	"verif/tools/extract/astx"
)

var die = astx.Die

const (
	ibcModule = "github.com/cosmos/ibc-go/v7"
	sdkModule = "github.com/cosmos/cosmos-sdk"
	ormModule = "github.com/cosmos/cosmos-sdk/orm"
	icaTypes  = "modules/apps/27-interchain-accounts/types"
)

// mainPathCalls lists, in evaluation order (arguments before the call that uses them), the
// selector calls on the main path of a function body: the bodies of if statements (the error
// exits) are skipped, conditions and initialisers are not.
func mainPathCalls(body *ast.BlockStmt) []*ast.CallExpr {
	out := []*ast.CallExpr{}
	var expr func(n ast.Node)
	expr = func(n ast.Node) {
		ast.Inspect(n, func(m ast.Node) bool {
			switch m := m.(type) {
			case *ast.FuncLit:
				return false
			case *ast.CallExpr:
				// post-order: receiver chain and arguments first
				if s, ok := m.Fun.(*ast.SelectorExpr); ok {
					expr(s.X)
				} else {
					expr(m.Fun)
				}
				for _, a := range m.Args {
					expr(a)
				}
				if _, ok := m.Fun.(*ast.SelectorExpr); ok {
					out = append(out, m)
				}
				return false
			}
			return true
		})
	}
	var stmts func(list []ast.Stmt)
	stmts = func(list []ast.Stmt) {
		for _, st := range list {
			switch st := st.(type) {
			case *ast.IfStmt:
				if st.Init != nil {
					stmts([]ast.Stmt{st.Init})
				}
				expr(st.Cond)
				if st.Else != nil {
					die("SubmitTx: if/else on the main path is not modelled")
				}
			case *ast.BlockStmt:
				stmts(st.List)
			case *ast.ForStmt, *ast.RangeStmt, *ast.SwitchStmt, *ast.TypeSwitchStmt, *ast.SelectStmt, *ast.GoStmt, *ast.DeferStmt:
				die("SubmitTx: loops, switches, go and defer statements are not modelled")
			default:
				expr(st)
			}
		}
	}
	stmts(body.List)
	return out
}

func main() {
	astx.Tool = "miscconsts"
	repo := flag.String("repo", "/repo", "path of the regen-ledger working tree")
	out := flag.String("out", "", "output DIRECTORY (receives IntertxConsts.v and QueryConsts.v)")
	flag.Parse()
	if *out == "" {
		die("-out is required")
	}
	if strings.HasSuffix(*out, ".v") {
		die("-out must be a directory (IntertxConsts.v and QueryConsts.v are written into it), got %s", *out)
	}
	if st, err := os.Stat(*out); err == nil && !st.IsDir() {
		die("-out %s exists and is not a directory", *out)
	}
	load := func(rel string) *astx.File {
		return astx.Load(filepath.Join(*repo, filepath.FromSlash(rel)), "/repo/"+rel)
	}

	intertxMod := filepath.Join(*repo, "x", "intertx", "go.mod")
	ibcVer := astx.ModVersion(intertxMod, ibcModule)
	sdkVer := astx.ModVersion(intertxMod, sdkModule)
	ibcDir := astx.ModDir(ibcModule, ibcVer)
	sdkDir := astx.ModDir(sdkModule, sdkVer)
	ibc := func(rel string) *astx.File {
		return astx.Load(filepath.Join(ibcDir, filepath.FromSlash(rel)), "IBC "+rel)
	}

	// ---------- ibc-go: port prefix, packet type, host keys ----------
	keys := ibc(icaTypes + "/keys.go")
	portPrefix := keys.MustConstString("ControllerPortPrefix")
	port := ibc(icaTypes + "/port.go")
	ncp := port.MustFunc("NewControllerPortID")
	sprint := port.MustOneCall(ncp.Body, "fmt.Sprint", "NewControllerPortID")
	if len(ncp.Type.Params.List) != 1 || len(ncp.Type.Params.List[0].Names) != 1 {
		die("%s: NewControllerPortID does not take one parameter", port.Label)
	}
	owner := ncp.Type.Params.List[0].Names[0].Name
	if len(sprint.Args) != 2 || !astx.IsIdent(sprint.Args[0], "ControllerPortPrefix") || !astx.IsIdent(sprint.Args[1], owner) {
		die("%s: expected fmt.Sprint(ControllerPortPrefix, %s), found %s", port.Pos(sprint), owner, astx.Str(sprint))
	}

	packet := ibc(icaTypes + "/packet.pb.go")
	if t := packet.Types["EXECUTE_TX"]; t == nil || astx.Str(t) != "Type" {
		die("%s: const EXECUTE_TX Type not found", packet.Label)
	}
	executeTx := packet.MustConstInt("EXECUTE_TX")

	host := ibc("modules/core/24-host/keys.go")
	capPrefix := host.MustConstString("KeyChannelCapabilityPrefix")
	portKey := host.MustConstString("KeyPortPrefix")
	chanKey := host.MustConstString("KeyChannelPrefix")
	singleSprintf := func(fn string, wantArgs []string) string {
		fd := host.MustFunc(fn)
		if len(fd.Body.List) != 1 {
			die("%s: %s is not a single return statement", host.Label, fn)
		}
		c := host.MustOneCall(fd.Body, "fmt.Sprintf", fn)
		if len(c.Args) != len(wantArgs)+1 {
			die("%s: %s: expected %d Sprintf arguments", host.Pos(c), fn, len(wantArgs))
		}
		for i, want := range wantArgs {
			if astx.Str(c.Args[i+1]) != want {
				die("%s: %s: Sprintf argument %d is %s, expected %s", host.Pos(c), fn, i+1, astx.Str(c.Args[i+1]), want)
			}
		}
		return host.MustString(c.Args[0], nil, fn+" format")
	}
	capFmt := singleSprintf("ChannelCapabilityPath", []string{"KeyChannelCapabilityPrefix", "channelPath(portID, channelID)"})
	chanFmt := singleSprintf("channelPath", []string{"KeyPortPrefix", "portID", "KeyChannelPrefix", "channelID"})
	pathSep := ""
	for _, fm := range []string{capFmt, chanFmt} {
		pieces, err := astx.SplitFormat(fm)
		if err != nil || len(pieces) < 3 || pieces[0] != "" || pieces[len(pieces)-1] != "" {
			die("%s: format %q is not %%s<sep>%%s...: %v", host.Label, fm, err)
		}
		for _, p := range pieces[1 : len(pieces)-1] {
			if pathSep == "" {
				pathSep = p
			}
			if p != pathSep || p == "" {
				die("%s: formats %q and %q do not use one separator", host.Label, capFmt, chanFmt)
			}
		}
	}

	// ---------- protobuf field numbers ----------
	var anyFile *astx.File
	for _, name := range []string{"any.pb.go", "any.go"} { // the struct (with its tags) is declared in one of them
		p := filepath.Join(sdkDir, "codec", "types", name)
		if _, err := os.Stat(p); err != nil {
			continue
		}
		f := astx.Load(p, "SDK codec/types/"+name)
		if _, ok := f.Decls["Any"].(*ast.StructType); ok {
			anyFile = f
			break
		}
	}
	if anyFile == nil {
		die("SDK codec/types: struct Any not found in any.pb.go / any.go")
	}
	tagText := func(kind string, num int64, rep bool) string {
		s := fmt.Sprintf("`protobuf:\"%s,%d,", kind, num)
		if rep {
			s += "rep,"
		}
		return s + "...\"`"
	}
	k1, anyTypeURL, r1 := anyFile.MustProtobufTag("Any", "TypeUrl")
	k2, anyValue, r2 := anyFile.MustProtobufTag("Any", "Value")
	k3, txMessages, r3 := packet.MustProtobufTag("CosmosTx", "Messages")
	if k1 != "bytes" || k2 != "bytes" || k3 != "bytes" || r1 || r2 || !r3 {
		die("Any.TypeUrl / Any.Value / CosmosTx.Messages are not length-delimited (bytes) fields, the last one repeated")
	}

	// ---------- /repo/x/intertx ----------
	timeFile, durations := astx.TimeDurations()
	submit := load("x/intertx/keeper/msg_submit_tx.go")
	submit.Extern = durations
	if submit.Imports["time"] != "time" {
		die("%s: package time is not imported as time", submit.Label)
	}
	st := submit.MustFunc("Keeper.SubmitTx")
	if len(st.Type.Params.List) != 2 || len(st.Type.Params.List[1].Names) != 1 {
		die("%s: SubmitTx does not take (ctx, msg)", submit.Label)
	}
	msgVar := st.Type.Params.List[1].Names[0].Name
	// timeout: <ctx>.BlockTime().Add(<duration>).UnixNano()
	adds := astx.Calls(st.Body, func(c *ast.CallExpr) bool {
		s, ok := c.Fun.(*ast.SelectorExpr)
		if !ok || s.Sel.Name != "Add" {
			return false
		}
		inner, ok := s.X.(*ast.CallExpr)
		return ok && astx.MethodName(inner) == "BlockTime"
	})
	if len(adds) != 1 || len(adds[0].Args) != 1 {
		die("%s: SubmitTx: expected exactly one <ctx>.BlockTime().Add(<duration>)", submit.Label)
	}
	addCall := adds[0]
	timeoutNs := submit.MustInt(addCall.Args[0], nil, "SubmitTx timeout")
	timeoutUse := ""
	astx.WalkStack(st.Body, func(n ast.Node, stack []ast.Node) bool {
		if n == ast.Node(addCall) && len(stack) >= 2 {
			if s, ok := stack[len(stack)-1].(*ast.SelectorExpr); ok && s.Sel.Name == "UnixNano" {
				timeoutUse = "UnixNano"
			}
		}
		return true
	})
	if timeoutUse != "UnixNano" {
		die("%s: SubmitTx: the timeout is not <ctx>.BlockTime().Add(...).UnixNano()", submit.Pos(addCall))
	}
	durationNote := fmt.Sprintf("= %d ns", timeoutNs)
	if s, ok := addCall.Args[0].(*ast.SelectorExpr); ok && astx.IsIdent(s.X, "time") {
		init := astx.Str(timeFile.Specs[s.Sel.Name])
		if timeoutNs%1000000000 == 0 {
			durationNote = fmt.Sprintf("%s = %s = %d * 10^9 ns", s.Sel.Name, init, timeoutNs/1000000000)
		} else {
			durationNote = fmt.Sprintf("%s = %s = %d ns", s.Sel.Name, init, timeoutNs)
		}
	}
	// packet literal: Type: icatypes.EXECUTE_TX, Data: data
	icaAlias := ""
	for name, path := range submit.Imports {
		if path == ibcModule+"/"+icaTypes {
			icaAlias = name
		}
	}
	if icaAlias == "" {
		die("%s: %s/%s is not imported", submit.Label, ibcModule, icaTypes)
	}
	packetType := ""
	ast.Inspect(st.Body, func(n ast.Node) bool {
		cl, ok := n.(*ast.CompositeLit)
		if !ok || astx.Str(cl.Type) != icaAlias+".InterchainAccountPacketData" {
			return true
		}
		for _, el := range cl.Elts {
			kv, ok := el.(*ast.KeyValueExpr)
			if !ok {
				die("%s: unkeyed InterchainAccountPacketData literal", submit.Pos(cl))
			}
			switch astx.Str(kv.Key) {
			case "Type":
				packetType = astx.Str(kv.Value)
			case "Data":
				if !astx.IsIdent(kv.Value, "data") {
					die("%s: packet Data is not the serialized tx", submit.Pos(kv))
				}
			default:
				die("%s: unexpected packet field %s (the model leaves it empty)", submit.Pos(kv), astx.Str(kv.Key))
			}
		}
		return true
	})
	if packetType != icaAlias+".EXECUTE_TX" {
		die("%s: SubmitTx: packet Type is %q, expected %s.EXECUTE_TX", submit.Label, packetType, icaAlias)
	}
	// order of look-ups
	ignore := map[string]bool{"UnwrapSDKContext": true, "ChannelCapabilityPath": true, "BlockTime": true, "Add": true, "UnixNano": true}
	order := []string{}
	msgsPerPacket := -1
	portOwnerField := ""
	for _, c := range mainPathCalls(st.Body) {
		name := astx.MethodName(c)
		if ignore[name] {
			continue
		}
		order = append(order, name)
		switch name {
		case "SerializeCosmosTx":
			if len(c.Args) != 2 {
				die("%s: SerializeCosmosTx arity", submit.Pos(c))
			}
			cl, ok := c.Args[1].(*ast.CompositeLit)
			if !ok || astx.Str(cl.Type) != "[]proto.Message" {
				die("%s: SerializeCosmosTx is not given a []proto.Message{...} literal", submit.Pos(c))
			}
			msgsPerPacket = len(cl.Elts)
		case "NewControllerPortID":
			if len(c.Args) != 1 {
				die("%s: NewControllerPortID arity", submit.Pos(c))
			}
			s, ok := c.Args[0].(*ast.SelectorExpr)
			if !ok || !astx.IsIdent(s.X, msgVar) {
				die("%s: NewControllerPortID is not applied to a field of %s", submit.Pos(c), msgVar)
			}
			portOwnerField = s.Sel.Name
		}
	}
	if msgsPerPacket < 0 || portOwnerField == "" {
		die("%s: SubmitTx: NewControllerPortID or SerializeCosmosTx call not found on the main path", submit.Label)
	}
	for _, need := range []string{"NewControllerPortID", "GetActiveChannelID", "GetCapability", "SerializeCosmosTx", "SendTx"} {
		n := 0
		for _, o := range order {
			if o == need {
				n++
			}
		}
		if n != 1 {
			die("%s: SubmitTx: %s is called %d times on the main path, expected once", submit.Label, need, n)
		}
	}
	// signer
	msgFile := load("x/intertx/types/v1/msg_submit_tx.go")
	gs := msgFile.MustFunc("MsgSubmitTx.GetSigners")
	bech := msgFile.MustOneCall(gs.Body, "sdk.AccAddressFromBech32", "MsgSubmitTx.GetSigners")
	sf, ok := bech.Args[0].(*ast.SelectorExpr)
	if len(bech.Args) != 1 || !ok || !astx.IsIdent(sf.X, astx.RecvName(gs)) {
		die("%s: GetSigners does not decode a field of the message", msgFile.Pos(bech))
	}
	signerField := sf.Sel.Name
	nSigners := -1
	ast.Inspect(gs.Body, func(n ast.Node) bool {
		if r, ok := n.(*ast.ReturnStmt); ok && len(r.Results) == 1 {
			if cl, ok := r.Results[0].(*ast.CompositeLit); ok && astx.Str(cl.Type) == "[]sdk.AccAddress" {
				nSigners = len(cl.Elts)
			}
		}
		return true
	})
	if nSigners != 1 {
		die("%s: GetSigners does not return exactly one address", msgFile.Label)
	}

	// ---------- IntertxConsts.v ----------
	var sb strings.Builder
	w := func(format string, args ...interface{}) { fmt.Fprintf(&sb, format, args...) }
	c := astx.CoqComment
	w("(* GENERATED by tools/extract from /repo — do not edit.\n")
	w("   Constants used by x/intertx Msg/SubmitTx and by the ibc-go / protobuf helpers it calls, one flat\n")
	w("   [Definition] per source expression.  The source location of each constant is given in its comment.\n")
	w("   IBC  = %s@%s (version pinned by /repo/x/intertx/go.mod)\n", ibcModule, ibcVer)
	w("   SDK  = %s@%s (idem). *)\n", sdkModule, sdkVer)
	w("From Coq Require Import List ZArith NArith Strings.Byte Strings.String.\n")
	w("Require Import Regen.Base.Bytes.\n")
	w("Import ListNotations.\n")
	w("Local Open Scope string_scope.\n\n")
	w("(* IBC %s/keys.go: ControllerPortPrefix = %s\n", icaTypes, c(strconv.Quote(portPrefix)))
	w("   (used by types/port.go NewControllerPortID: %s) *)\n", c(astx.Str(sprint)))
	w("Definition controller_port_prefix : bytes := %s.\n\n", astx.CoqB(portPrefix))
	w("(* /repo/x/intertx/keeper/msg_submit_tx.go: %s;\n", c(astx.Str(addCall)))
	w("   Go time/time.go: %s *)\n", c(durationNote))
	w("Definition submit_timeout_ns : Z := %d%%Z.\n\n", timeoutNs)
	w("(* /repo/x/intertx/keeper/msg_submit_tx.go: Type: %s;\n", c(packetType))
	w("   IBC %s/packet.pb.go: EXECUTE_TX Type = %d *)\n", icaTypes, executeTx)
	w("Definition packet_type_execute_tx : N := %d%%N.\n\n", executeTx)
	w("(* IBC modules/core/24-host/keys.go: KeyChannelCapabilityPrefix = %s *)\n", c(strconv.Quote(capPrefix)))
	w("Definition key_channel_capability_prefix : bytes := %s.\n", astx.CoqB(capPrefix))
	w("(* IBC modules/core/24-host/keys.go: KeyPortPrefix = %s *)\n", c(strconv.Quote(portKey)))
	w("Definition key_port_prefix : bytes := %s.\n", astx.CoqB(portKey))
	w("(* IBC modules/core/24-host/keys.go: KeyChannelPrefix = %s *)\n", c(strconv.Quote(chanKey)))
	w("Definition key_channel_prefix : bytes := %s.\n", astx.CoqB(chanKey))
	w("(* IBC modules/core/24-host/keys.go: separator of the format strings\n")
	w("   ChannelCapabilityPath %s and channelPath %s *)\n", c(strconv.Quote(capFmt)), c(strconv.Quote(chanFmt)))
	w("Definition path_sep : bytes := %s.\n\n", astx.CoqB(pathSep))
	w("(* protobuf field numbers (struct tags of the generated Go types):\n")
	w("   %s: Any.TypeUrl %s, Any.Value %s;\n", anyFile.Label, tagText(k1, anyTypeURL, r1), tagText(k2, anyValue, r2))
	w("   IBC %s/packet.pb.go: CosmosTx.Messages %s *)\n", icaTypes, tagText(k3, txMessages, r3))
	w("Definition any_field_type_url : N := %d%%N.\n", anyTypeURL)
	w("Definition any_field_value : N := %d%%N.\n", anyValue)
	w("Definition cosmos_tx_field_messages : N := %d%%N.\n", txMessages)
	w("(* protobuf wire type 2 (length-delimited), encoding spec; tag = field << 3 | wire type *)\n")
	w("Definition wire_type_len : N := 2%%N.\n")
	// ---- definitions added by the generator (after every original one) ----
	w("\n(* ---- shape of SubmitTx ---- *)\n")
	w("(* /repo/x/intertx/keeper/msg_submit_tx.go: selector calls on the main path of SubmitTx (bodies of the\n")
	w("   error branches skipped), in evaluation order, without the pure helpers UnwrapSDKContext,\n")
	w("   ChannelCapabilityPath, BlockTime, Add, UnixNano *)\n")
	w("Definition submit_check_order : list bytes :=\n  %s.\n", astx.CoqBList(order))
	w("(* /repo/x/intertx/keeper/msg_submit_tx.go: length of the []proto.Message{...} literal given to SerializeCosmosTx *)\n")
	w("Definition submit_msgs_per_packet : N := %d%%N.\n", msgsPerPacket)
	w("(* /repo/x/intertx/keeper/msg_submit_tx.go: %s.NewControllerPortID(%s.%s) *)\n", icaAlias, msgVar, portOwnerField)
	w("Definition port_owner_field : bytes := %s.\n", astx.CoqB(portOwnerField))
	w("(* /repo/x/intertx/types/v1/msg_submit_tx.go: GetSigners returns the single address %s *)\n", c(astx.Str(bech)))
	w("Definition signer_field : bytes := %s.\n", astx.CoqB(signerField))
	intertx := sb.String()

	// ---------- QueryConsts.v ----------
	typesMod := filepath.Join(*repo, "types", "go.mod")
	qSdkVer := astx.ModVersion(typesMod, sdkModule)
	ormVer := astx.ModVersion(typesMod, ormModule)
	qSdkDir := astx.ModDir(sdkModule, qSdkVer)
	ormDir := astx.ModDir(ormModule, ormVer)
	pag := astx.Load(filepath.Join(qSdkDir, "types", "query", "pagination.go"), "SDK types/query/pagination.go")
	queryDefault := pag.MustConstInt("DefaultLimit")
	compat := load("types/ormutil/compatability.go")
	legacy := compat.MustFunc("PageReqToCosmosAPILegacy")
	if len(legacy.Type.Params.List) != 1 || len(legacy.Type.Params.List[0].Names) != 1 {
		die("%s: PageReqToCosmosAPILegacy does not take one parameter", compat.Label)
	}
	// a harmless refactoring may turn the adapter into a wrapper `return helper(from)` around a helper
	// of the same file that takes the request as its only parameter: follow such wrappers
	for depth := 0; depth < 3; depth++ {
		if len(legacy.Body.List) != 1 {
			break
		}
		r, ok := legacy.Body.List[0].(*ast.ReturnStmt)
		if !ok || len(r.Results) != 1 {
			break
		}
		call, ok := r.Results[0].(*ast.CallExpr)
		if !ok || len(call.Args) != 1 || !astx.IsIdent(call.Args[0], legacy.Type.Params.List[0].Names[0].Name) {
			break
		}
		id, ok := call.Fun.(*ast.Ident)
		if !ok {
			break
		}
		callee, ok := compat.Funcs[id.Name]
		if !ok || callee.Body == nil || callee.Recv != nil || len(callee.Type.Params.List) != 1 || len(callee.Type.Params.List[0].Names) != 1 {
			break
		}
		legacy = callee
	}
	from := legacy.Type.Params.List[0].Names[0].Name
	queryAlias := ""
	for name, path := range compat.Imports {
		if path == sdkModule+"/types/query" {
			queryAlias = name
		}
	}
	foundNil := false
	for _, s := range legacy.Body.List {
		ifs, ok := s.(*ast.IfStmt)
		if !ok || astx.Str(ifs.Cond) != from+" == nil" || len(ifs.Body.List) != 1 {
			continue
		}
		r, ok := ifs.Body.List[0].(*ast.ReturnStmt)
		if !ok || len(r.Results) != 1 {
			continue
		}
		u, ok := r.Results[0].(*ast.UnaryExpr)
		if !ok || u.Op != token.AND {
			continue
		}
		cl, ok := u.X.(*ast.CompositeLit)
		if !ok || len(cl.Elts) != 1 {
			die("%s: PageReqToCosmosAPILegacy: nil request does not become {Limit: %s.DefaultLimit}", compat.Pos(r), queryAlias)
		}
		if kv, ok := cl.Elts[0].(*ast.KeyValueExpr); !ok || astx.Str(kv.Key) != "Limit" || astx.Str(kv.Value) != queryAlias+".DefaultLimit" || queryAlias == "" {
			die("%s: PageReqToCosmosAPILegacy: nil request does not become {Limit: %s.DefaultLimit}", compat.Pos(r), queryAlias)
		}
		foundNil = true
	}
	if !foundNil {
		die("%s: PageReqToCosmosAPILegacy: `if %s == nil { return &...{Limit: query.DefaultLimit} }` not found", compat.Label, from)
	}
	// ORM: Options.DefaultLimit is a plain uint64 field (zero value 0) set only by ormlist.DefaultLimit
	opts := astx.Load(filepath.Join(ormDir, "internal", "listinternal", "options.go"), "ORM internal/listinternal/options.go")
	ost, ok := opts.Decls["Options"].(*ast.StructType)
	if !ok {
		die("%s: struct Options not found", opts.Label)
	}
	hasField := false
	for _, fl := range ost.Fields.List {
		for _, n := range fl.Names {
			if n.Name == "DefaultLimit" {
				if !astx.IsIdent(fl.Type, "uint64") {
					die("%s: Options.DefaultLimit is not a uint64", opts.Label)
				}
				hasField = true
			}
		}
	}
	if !hasField {
		die("%s: Options.DefaultLimit not found", opts.Label)
	}
	ol := astx.Load(filepath.Join(ormDir, "model", "ormlist", "options.go"), "ORM model/ormlist/options.go")
	ol.MustFunc("DefaultLimit")
	// no file of /repo (tests included) may mention ormlist.DefaultLimit
	ormlistPath := ormModule + "/model/ormlist"
	var ormDefault constant.Value = constant.MakeInt64(0)
	err := filepath.Walk(*repo, func(p string, info os.FileInfo, err error) error {
		if err != nil {
			return err
		}
		if info.IsDir() {
			switch info.Name() {
			case ".git", "node_modules", "vendor":
				return filepath.SkipDir
			}
			return nil
		}
		if !strings.HasSuffix(p, ".go") {
			return nil
		}
		data, err := os.ReadFile(p)
		if err != nil {
			return err
		}
		if !strings.Contains(string(data), ormlistPath) {
			return nil
		}
		fset := token.NewFileSet()
		af, err := parser.ParseFile(fset, p, data, parser.SkipObjectResolution)
		if err != nil {
			die("cannot parse %s: %v", p, err)
		}
		f := astx.Index(fset, af, p, p)
		for name, path := range f.Imports {
			if path != ormlistPath {
				continue
			}
			ast.Inspect(af, func(n ast.Node) bool {
				if s, ok := n.(*ast.SelectorExpr); ok && astx.IsIdent(s.X, name) && s.Sel.Name == "DefaultLimit" {
					die("%s: ormlist.DefaultLimit is used: orm_default_limit is no longer the zero value and the pagination model must be revisited", f.Pos(s))
				}
				return true
			})
		}
		return nil
	})
	if err != nil {
		die("cannot scan %s: %v", *repo, err)
	}

	sb.Reset()
	w("(* GENERATED by tools/extract from /repo — do not edit.\n")
	w("   Constants of list-query pagination, one flat [Definition] per source expression.\n")
	w("   SDK = %s@%s, ORM = %s@%s\n", sdkModule, qSdkVer, ormModule, astx.ShortVersion(ormVer))
	w("   (versions pinned by /repo/types/go.mod). *)\n")
	w("From Coq Require Import NArith.\n\n")
	w("(* /repo/types/ormutil/compatability.go PageReqToCosmosAPILegacy: a nil PageRequest becomes\n")
	w("   {Limit: %s.DefaultLimit}; SDK types/query/pagination.go: const DefaultLimit = %d *)\n", queryAlias, queryDefault)
	w("Definition query_default_limit : N := %d%%N.\n\n", queryDefault)
	w("(* ORM internal/listinternal/options.go Options.DefaultLimit: zero value; it is only set by the\n")
	w("   ormlist.DefaultLimit option, which no caller in /repo passes (grep: no occurrence outside the ORM) *)\n")
	w("Definition orm_default_limit : N := %s%%N.\n", ormDefault.ExactString())
	query := sb.String()

	astx.WriteFile(filepath.Join(*out, "IntertxConsts.v"), intertx)
	astx.WriteFile(filepath.Join(*out, "QueryConsts.v"), query)
}
