module verif/tools/extract

go 1.21
