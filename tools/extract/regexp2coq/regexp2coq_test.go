package regexp2coq

import "testing"

func TestSupported(t *testing.T) {
	cases := map[string]string{
		`^[A-Z]{1,3}$`:      "(Rep (Class [(x41, x5a)]) 1 3)",
		`^[A-Z]{1,3}[0-9]{2,}$`: "(Cat (Rep (Class [(x41, x5a)]) 1 3) (RepAtLeast (Class [(x30, x39)]) 2))",
		`^a|bc$`:            "", // anchors bind tighter than |: not of the form ^...$
		`^(?:a|bc)$`:        "(Alt (Chr x61) (Cat (Chr x62) (Chr x63)))",
		`^(a)?b*c+$`:        "(Cat (Opt (Chr x61)) (Cat (Star (Chr x62)) (RepAtLeast (Chr x63) 1)))",
		`^$`:                "Eps",
		`^x.y$`:             "(Cat (Chr x78) (Cat re_dot (Chr x79)))",
		`^x.$`:              "(Cat (Chr x78) re_dot)",
	}
	for p, want := range cases {
		got, err := ToCoq(p)
		if want == "" {
			if err == nil {
				t.Errorf("%q: expected an error, got %s", p, got)
			}
			continue
		}
		if err != nil || got != want {
			t.Errorf("%q: got %q, %v; want %q", p, got, err, want)
		}
	}
}

func TestRejected(t *testing.T) {
	for _, p := range []string{
		`[A-Z]`, `^[A-Z]`, `[A-Z]$`, // not anchored
		`^\bA$`, `^A\B$`, // word boundaries
		`^(?i)abc$`, `^(?i:[a-z])$`, // case folding
		`^a*?$`, `^a+?b$`, // non-greedy
		`^..$`, `^x.é$`, `^x.[^a]$`, `^(x.)y$`, `^x.y?$`, `^x.(?:y|é)$`, // `.` whose follower may start with a non-ASCII byte / nested dot
		`^(?s).$`,        // dot matching newline
		`^[^a]$`, `^é$`, `^[а-я]$`, `^\pL$`, // non-ASCII classes and literals
		`^a$b$`, `^(?m)a$`, `^a^b$`, // inner or multi-line anchors
		`^a\z`, // end anchor that is not `$`
		`^a{2,1001}$`, // bounds
	} {
		if got, err := ToCoq(p); err == nil {
			t.Errorf("%q: expected an error, got %s", p, got)
		}
	}
}
