// Package regexp2coq translates a Go regular expression (regexp/syntax, Perl flags) into a
// Gallina term of type Regen.Base.Regex.re.
//
// The Coq matcher decides whole-string membership over *bytes*; Go matches UTF-8 runes.  The
// translation is exact under the restrictions enforced here, and anything outside them is an
// error (never silently dropped):
//   - the pattern must be anchored as ^...$ (ToCoq) — rmatch is a whole-string match;
//   - literals and character classes must be ASCII (a byte >= 0x80 or an invalid UTF-8 byte
//     decodes to a rune that no ASCII class contains, so byte-level matching agrees);
//   - `.` (any rune but \n) is expanded to Regex.re_dot (one arbitrary byte, or one well-formed
//     multi-byte UTF-8 sequence).  This is exact only if whatever follows the dot must start
//     with an ASCII byte, or the dot is the last element before `$`; the translator checks that
//     every dot is a direct element of the top-level concatenation and satisfies this;
//   - no case folding, no non-greedy operators, no word boundaries, no multi-line anchors,
//     no empty-width assertions other than the outer ^ and $.
// Capture and non-capture groups are transparent (only match/no-match is modelled).
package regexp2coq

import (
	"fmt"
	"regexp/syntax"
	"strings"
)

// ToCoq translates an anchored pattern ^...$ to a Coq term of type re.
func ToCoq(pattern string) (string, error) {
	r, err := syntax.Parse(pattern, syntax.Perl)
	if err != nil {
		return "", fmt.Errorf("regexp2coq: parse %q: %v", pattern, err)
	}
	var items []*syntax.Regexp
	if r.Op == syntax.OpConcat {
		items = r.Sub
	} else {
		items = []*syntax.Regexp{r}
	}
	if len(items) < 2 || items[0].Op != syntax.OpBeginText || items[len(items)-1].Op != syntax.OpEndText {
		return "", fmt.Errorf("regexp2coq: pattern %q is not anchored as ^...$ (whole-string match is the only modelled mode)", pattern)
	}
	if items[len(items)-1].Flags&syntax.WasDollar == 0 {
		return "", fmt.Errorf("regexp2coq: pattern %q: end anchor is not a plain `$`", pattern)
	}
	return convTop(pattern, items[1:len(items)-1])
}

// ToCoqFragment translates an unanchored fragment as if it were wrapped in ^(?:...)$.
func ToCoqFragment(fragment string) (string, error) {
	r, err := syntax.Parse(fragment, syntax.Perl)
	if err != nil {
		return "", fmt.Errorf("regexp2coq: parse %q: %v", fragment, err)
	}
	var items []*syntax.Regexp
	if r.Op == syntax.OpConcat {
		items = r.Sub
	} else {
		items = []*syntax.Regexp{r}
	}
	return convTop(fragment, items)
}

func convTop(pattern string, items []*syntax.Regexp) (string, error) {
	c := &conv{pattern: pattern}
	terms := []string{}
	for i, it := range items {
		if it.Op == syntax.OpAnyCharNotNL {
			if i+1 < len(items) && !startsASCIINonNullable(items[i+1]) {
				return "", c.errf("`.` must be followed by something that can only start with an ASCII byte (or be last)")
			}
			terms = append(terms, "re_dot")
			continue
		}
		ts, err := c.seq(it)
		if err != nil {
			return "", err
		}
		terms = append(terms, ts...)
	}
	return catRight(terms), nil
}

type conv struct{ pattern string }

func (c *conv) errf(format string, args ...interface{}) error {
	return fmt.Errorf("regexp2coq: pattern %q: unsupported: %s", c.pattern, fmt.Sprintf(format, args...))
}

func catRight(terms []string) string {
	switch len(terms) {
	case 0:
		return "Eps"
	case 1:
		return terms[0]
	}
	return "(Cat " + paren(terms[0]) + " " + paren(catRight(terms[1:])) + ")"
}

func paren(t string) string {
	if strings.HasPrefix(t, "(") || !strings.Contains(t, " ") {
		return t
	}
	return "(" + t + ")"
}

func coqByte(r rune) string { return fmt.Sprintf("x%02x", r) }

// seq returns the sequence of terms a node contributes to an enclosing concatenation
// (a multi-rune literal contributes one Chr per rune).
func (c *conv) seq(r *syntax.Regexp) ([]string, error) {
	if r.Op == syntax.OpLiteral {
		if r.Flags&syntax.FoldCase != 0 {
			return nil, c.errf("case-insensitive literal")
		}
		out := []string{}
		for _, ru := range r.Rune {
			if ru > 0x7f {
				return nil, c.errf("non-ASCII literal %q", ru)
			}
			out = append(out, "(Chr "+coqByte(ru)+")")
		}
		return out, nil
	}
	if r.Op == syntax.OpConcat {
		out := []string{}
		for _, s := range r.Sub {
			ts, err := c.seq(s)
			if err != nil {
				return nil, err
			}
			out = append(out, ts...)
		}
		return out, nil
	}
	t, err := c.one(r)
	if err != nil {
		return nil, err
	}
	return []string{t}, nil
}

func (c *conv) one(r *syntax.Regexp) (string, error) {
	if r.Flags&syntax.NonGreedy != 0 {
		return "", c.errf("non-greedy operator")
	}
	switch r.Op {
	case syntax.OpEmptyMatch:
		return "Eps", nil
	case syntax.OpNoMatch:
		return "(Class [])", nil
	case syntax.OpLiteral, syntax.OpConcat:
		ts, err := c.seq(r)
		if err != nil {
			return "", err
		}
		return catRight(ts), nil
	case syntax.OpCharClass:
		if r.Flags&syntax.FoldCase != 0 {
			return "", c.errf("case-insensitive class")
		}
		if len(r.Rune)%2 != 0 {
			return "", c.errf("malformed class")
		}
		parts := []string{}
		for i := 0; i+1 < len(r.Rune); i += 2 {
			lo, hi := r.Rune[i], r.Rune[i+1]
			if lo > hi || hi > 0x7f || lo < 0 {
				return "", c.errf("class range %U-%U is not ASCII", lo, hi)
			}
			parts = append(parts, "("+coqByte(lo)+", "+coqByte(hi)+")")
		}
		return "(Class [" + strings.Join(parts, "; ") + "])", nil
	case syntax.OpCapture:
		return c.one(r.Sub[0])
	case syntax.OpStar:
		a, err := c.one(r.Sub[0])
		if err != nil {
			return "", err
		}
		return "(Star " + paren(a) + ")", nil
	case syntax.OpPlus:
		a, err := c.one(r.Sub[0])
		if err != nil {
			return "", err
		}
		return "(RepAtLeast " + paren(a) + " 1)", nil
	case syntax.OpQuest:
		a, err := c.one(r.Sub[0])
		if err != nil {
			return "", err
		}
		return "(Opt " + paren(a) + ")", nil
	case syntax.OpRepeat:
		a, err := c.one(r.Sub[0])
		if err != nil {
			return "", err
		}
		if r.Min < 0 || r.Min > 1000 || r.Max > 1000 {
			return "", c.errf("repeat bounds {%d,%d}", r.Min, r.Max)
		}
		if r.Max < 0 {
			return fmt.Sprintf("(RepAtLeast %s %d)", paren(a), r.Min), nil
		}
		if r.Max < r.Min {
			return "", c.errf("repeat bounds {%d,%d}", r.Min, r.Max)
		}
		return fmt.Sprintf("(Rep %s %d %d)", paren(a), r.Min, r.Max), nil
	case syntax.OpAlternate:
		if len(r.Sub) == 0 {
			return "(Class [])", nil
		}
		ts := []string{}
		for _, s := range r.Sub {
			t, err := c.one(s)
			if err != nil {
				return "", err
			}
			ts = append(ts, t)
		}
		out := ts[len(ts)-1]
		for i := len(ts) - 2; i >= 0; i-- {
			out = "(Alt " + paren(ts[i]) + " " + paren(out) + ")"
		}
		return out, nil
	case syntax.OpAnyCharNotNL:
		return "", c.errf("`.` outside the top-level concatenation")
	case syntax.OpAnyChar:
		return "", c.errf("`.` with flag s")
	case syntax.OpBeginLine, syntax.OpEndLine, syntax.OpBeginText, syntax.OpEndText:
		return "", c.errf("inner anchor %s", r.Op)
	case syntax.OpWordBoundary, syntax.OpNoWordBoundary:
		return "", c.errf("word boundary")
	}
	return "", c.errf("operator %s", r.Op)
}

// startsASCIINonNullable reports whether every string matched by r is non-empty and starts
// with an ASCII byte (a conservative syntactic check).
func startsASCIINonNullable(r *syntax.Regexp) bool {
	switch r.Op {
	case syntax.OpLiteral:
		return r.Flags&syntax.FoldCase == 0 && len(r.Rune) > 0 && r.Rune[0] <= 0x7f
	case syntax.OpCharClass:
		if len(r.Rune) == 0 || r.Flags&syntax.FoldCase != 0 {
			return false
		}
		for _, ru := range r.Rune {
			if ru > 0x7f {
				return false
			}
		}
		return true
	case syntax.OpCapture, syntax.OpPlus:
		return startsASCIINonNullable(r.Sub[0])
	case syntax.OpRepeat:
		return r.Min >= 1 && startsASCIINonNullable(r.Sub[0])
	case syntax.OpConcat:
		return len(r.Sub) > 0 && startsASCIINonNullable(r.Sub[0])
	case syntax.OpAlternate:
		if len(r.Sub) == 0 {
			return false
		}
		for _, s := range r.Sub {
			if !startsASCIINonNullable(s) {
				return false
			}
		}
		return true
	}
	return false
}
