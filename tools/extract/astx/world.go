package astx

import (
	"go/ast"
	"go/build"
	"go/importer"
	"go/parser"
	"go/token"
	"go/types"
	"os"
	"path/filepath"
	"sort"
	"strings"
)

// World type-checks packages of the working tree from source with go/types, without needing the
// module cache or a build: packages that belong to a module of the working tree (found through
// the go.mod files below the root) are parsed and checked recursively; standard-library packages
// are checked from GOROOT/src; every other import (cosmos-sdk, protobuf, ...) is replaced by an
// empty package, so expressions that depend on it simply have no type.  Type errors are
// collected, never fatal: the generators only look at the types they can resolve (math.Dec,
// time.Time, the ORM table interfaces of /repo/api, ecocredit.BankKeeper) and fall back to
// syntax, or fail loudly, where a type is unknown.
type World struct {
	Root    string
	Fset    *token.FileSet
	modules []worldModule // longest path first
	pkgs    map[string]*Package
	std     types.Importer
	fakes   map[string]*types.Package
	// Opaque lists, per foreign import path, type names that the empty stand-in package declares
	// as opaque named types (no fields, no methods): values of these types then keep a
	// recognisable type (e.g. gogoproto's types.Timestamp) although the package is not loaded.
	// Set it before the first CheckDir.
	Opaque map[string][]string
}

type worldModule struct{ path, dir string }

// Package is one checked package.
type Package struct {
	Path  string
	Dir   string
	Files []*ast.File // non-test files that match the default build constraints, sorted by name
	Names []string    // file names, parallel to Files
	Types *types.Package
	Info  *types.Info
	Errs  []error
}

// NewWorld scans root for go.mod files (skipping .git, node_modules, vendor, testdata).
func NewWorld(root string) *World {
	w := &World{Root: root, Fset: token.NewFileSet(), pkgs: map[string]*Package{}, fakes: map[string]*types.Package{}}
	w.std = importer.ForCompiler(w.Fset, "source", nil)
	err := filepath.Walk(root, func(p string, info os.FileInfo, err error) error {
		if err != nil {
			return err
		}
		if info.IsDir() {
			switch info.Name() {
			case ".git", "node_modules", "vendor", "testdata":
				return filepath.SkipDir
			}
			return nil
		}
		if info.Name() != "go.mod" {
			return nil
		}
		data, err := os.ReadFile(p)
		if err != nil {
			return err
		}
		for _, line := range strings.Split(string(data), "\n") {
			f := strings.Fields(line)
			if len(f) >= 2 && f[0] == "module" {
				w.modules = append(w.modules, worldModule{strings.Trim(f[1], `"`), filepath.Dir(p)})
				break
			}
		}
		return nil
	})
	if err != nil {
		Die("cannot scan %s for go.mod files: %v", root, err)
	}
	if len(w.modules) == 0 {
		Die("no go.mod below %s", root)
	}
	sort.Slice(w.modules, func(i, j int) bool { return len(w.modules[i].path) > len(w.modules[j].path) })
	return w
}

// localDir maps an import path to a directory of the working tree ("" if it is not local).
// Imports of a local module under another major version (x/ecocredit/v4 while go.mod says v3)
// are not resolved: they are foreign code as far as this tree is concerned.
func (w *World) localDir(path string) string {
	for _, m := range w.modules {
		if path == m.path {
			return m.dir
		}
		if strings.HasPrefix(path, m.path+"/") {
			d := filepath.Join(m.dir, filepath.FromSlash(path[len(m.path)+1:]))
			if st, err := os.Stat(d); err == nil && st.IsDir() {
				return d
			}
		}
	}
	return ""
}

// ImportPathOf is the import path of a directory of the working tree ("" if outside any module).
func (w *World) ImportPathOf(dir string) string {
	for _, m := range w.modules { // longest module path first, so nested modules win
		if dir == m.dir {
			return m.path
		}
		if strings.HasPrefix(dir, m.dir+string(filepath.Separator)) {
			return m.path + "/" + filepath.ToSlash(dir[len(m.dir)+1:])
		}
	}
	return ""
}

func isStd(path string) bool {
	first := path
	if i := strings.Index(path, "/"); i >= 0 {
		first = path[:i]
	}
	return !strings.Contains(first, ".")
}

// Import implements types.Importer.
func (w *World) Import(path string) (*types.Package, error) {
	if path == "unsafe" {
		return types.Unsafe, nil
	}
	if dir := w.localDir(path); dir != "" {
		return w.check(path, dir).Types, nil
	}
	if isStd(path) {
		if p, err := w.std.Import(path); err == nil {
			return p, nil
		}
	}
	if p, ok := w.fakes[path]; ok {
		return p, nil
	}
	p := types.NewPackage(path, DefaultImportName(path))
	for _, name := range w.Opaque[path] {
		tn := types.NewTypeName(token.NoPos, p, name, nil)
		types.NewNamed(tn, types.NewStruct(nil, nil), nil)
		p.Scope().Insert(tn)
	}
	p.MarkComplete()
	w.fakes[path] = p
	return p, nil
}

// CheckDir type-checks the package in dir (a directory of the working tree).
func (w *World) CheckDir(dir string) *Package {
	path := w.ImportPathOf(dir)
	if path == "" {
		Die("%s is not inside a module of %s", dir, w.Root)
	}
	return w.check(path, dir)
}

func (w *World) check(path, dir string) *Package {
	if p, ok := w.pkgs[path]; ok {
		return p
	}
	pkg := &Package{Path: path, Dir: dir}
	w.pkgs[path] = pkg // registered first: an import cycle yields the (still empty) package
	pkg.Types = types.NewPackage(path, filepath.Base(dir))
	entries, err := os.ReadDir(dir)
	if err != nil {
		Die("cannot read %s: %v", dir, err)
	}
	ctxt := build.Default
	ctxt.CgoEnabled = false
	for _, e := range entries {
		n := e.Name()
		if e.IsDir() || !strings.HasSuffix(n, ".go") || strings.HasSuffix(n, "_test.go") {
			continue
		}
		if ok, err := ctxt.MatchFile(dir, n); err != nil || !ok {
			continue
		}
		af, err := parser.ParseFile(w.Fset, filepath.Join(dir, n), nil, 0)
		if err != nil {
			Die("cannot parse %s: %v", filepath.Join(dir, n), err)
		}
		pkg.Files = append(pkg.Files, af)
		pkg.Names = append(pkg.Names, n)
	}
	if len(pkg.Files) == 0 {
		Die("no Go files in %s", dir)
	}
	pkg.Info = &types.Info{
		Types:      map[ast.Expr]types.TypeAndValue{},
		Defs:       map[*ast.Ident]types.Object{},
		Uses:       map[*ast.Ident]types.Object{},
		Selections: map[*ast.SelectorExpr]*types.Selection{},
	}
	conf := types.Config{
		Importer:    w,
		FakeImportC: true,
		Error:       func(err error) { pkg.Errs = append(pkg.Errs, err) },
	}
	tp, _ := conf.Check(path, w.Fset, pkg.Files, pkg.Info)
	if tp != nil {
		pkg.Types = tp
	}
	return pkg
}

// TypeOf is the type of e in pkg, or nil when it could not be determined.
func (p *Package) TypeOf(e ast.Expr) types.Type {
	t := p.Info.TypeOf(e)
	if t == nil {
		return nil
	}
	if b, ok := t.(*types.Basic); ok && b.Kind() == types.Invalid {
		return nil
	}
	return t
}

// NamedType returns (package path, type name) of t after stripping pointers; ok=false when t is
// nil or not a named type.
func NamedType(t types.Type) (pkgPath, name string, ok bool) {
	for t != nil {
		if p, isPtr := t.(*types.Pointer); isPtr {
			t = p.Elem()
			continue
		}
		break
	}
	n, isNamed := t.(*types.Named)
	if !isNamed || n.Obj() == nil {
		return "", "", false
	}
	if n.Obj().Pkg() != nil {
		pkgPath = n.Obj().Pkg().Path()
	}
	return pkgPath, n.Obj().Name(), true
}
