package astx

import (
	"go/ast"
	"go/constant"
	"os"
	"os/exec"
	"path/filepath"
	"regexp"
	"runtime"
	"strings"
	"unicode"
)

// ModVersion reads gomod and returns the version required for module (the `replace` block is
// honoured when it redirects the module to another version of the same path).  Exits 2 if the
// module is not required.
func ModVersion(gomod, module string) string {
	data, err := os.ReadFile(gomod)
	if err != nil {
		Die("cannot read %s: %v", gomod, err)
	}
	version := ""
	q := regexp.QuoteMeta(module)
	req := regexp.MustCompile(`^\s*(?:require\s+)?` + q + `\s+(v\S+)`)
	rep := regexp.MustCompile(`^\s*(?:replace\s+)?` + q + `(?:\s+v\S+)?\s+=>\s+` + q + `\s+(v\S+)`)
	for _, line := range strings.Split(string(data), "\n") {
		if i := strings.Index(line, "//"); i >= 0 {
			line = line[:i]
		}
		if m := rep.FindStringSubmatch(line); m != nil {
			return m[1]
		}
		if m := req.FindStringSubmatch(line); m != nil && version == "" {
			version = m[1]
		}
	}
	if version == "" {
		Die("%s: module %s is not required", gomod, module)
	}
	return version
}

// ShortVersion drops the commit hash of a pseudo-version (v1.0.0-alpha.12.0.20240514101554-56648741cbd6
// -> v1.0.0-alpha.12.0.20240514101554); other versions are returned unchanged.
func ShortVersion(v string) string {
	if m := regexp.MustCompile(`^(.*\d{14})-[0-9a-f]{12}$`).FindStringSubmatch(v); m != nil {
		return m[1]
	}
	return v
}

func goEnv(name string) string {
	if v := os.Getenv(name); v != "" {
		return v
	}
	out, err := exec.Command("go", "env", name).Output()
	if err != nil {
		return ""
	}
	return strings.TrimSpace(string(out))
}

// escapeModPath applies the module cache case encoding (upper-case letters become !lower).
func escapeModPath(p string) string {
	var sb strings.Builder
	for _, r := range p {
		if unicode.IsUpper(r) {
			sb.WriteByte('!')
			sb.WriteRune(unicode.ToLower(r))
		} else {
			sb.WriteRune(r)
		}
	}
	return sb.String()
}

// ModDir locates module@version in the module cache: $GOMODCACHE / `go env GOMODCACHE`, then
// $GOPATH/pkg/mod, then /root/go/pkg/mod.  Exits 2 if the directory does not exist.
func ModDir(module, version string) string {
	rel := filepath.FromSlash(escapeModPath(module) + "@" + escapeModPath(version))
	tried := []string{}
	cands := []string{goEnv("GOMODCACHE")}
	if gp := goEnv("GOPATH"); gp != "" {
		cands = append(cands, filepath.Join(strings.Split(gp, string(os.PathListSeparator))[0], "pkg", "mod"))
	}
	cands = append(cands, "/root/go/pkg/mod")
	for _, c := range cands {
		if c == "" {
			continue
		}
		d := filepath.Join(c, rel)
		if st, err := os.Stat(d); err == nil && st.IsDir() {
			return d
		}
		tried = append(tried, d)
	}
	Die("module %s@%s not found in the module cache (tried %s)", module, version, strings.Join(tried, ", "))
	return ""
}

// GoRoot is `go env GOROOT` (falling back to the toolchain this binary was built with).
func GoRoot() string {
	if r := goEnv("GOROOT"); r != "" {
		return r
	}
	return runtime.GOROOT()
}

// TimeDurations evaluates the Duration constants of GOROOT/src/time/time.go (Nanosecond ...
// Hour) from their source and returns (file, resolver): the resolver maps "time.Minute" to its
// value in nanoseconds and is suitable for File.Extern.
func TimeDurations() (*File, func(string) (constant.Value, bool)) {
	tf := Load(filepath.Join(GoRoot(), "src", "time", "time.go"), "GOROOT/src/time/time.go")
	names := []string{"Nanosecond", "Microsecond", "Millisecond", "Second", "Minute", "Hour"}
	vals := map[string]constant.Value{}
	for _, n := range names {
		if _, ok := tf.Specs[n]; !ok {
			Die("%s: constant %s not found", tf.Label, n)
		}
		v, err := tf.Eval(&ast.Ident{Name: n}, nil)
		if err != nil || v.Kind() != constant.Int {
			Die("%s: cannot evaluate %s: %v", tf.Label, n, err)
		}
		vals["time."+n] = v
	}
	return tf, func(q string) (constant.Value, bool) { v, ok := vals[q]; return v, ok }
}
