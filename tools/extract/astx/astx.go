// Package astx holds the AST helpers shared by the generators under cmd/ (dataconsts,
// miscconsts, ledgerconsts): loading one Go file, a small constant evaluator built on
// go/constant, canonical expression text, shape-matching helpers that fail loudly, and the Coq
// pretty-printers.  Everything is stdlib only.
//
// Failure policy: every helper whose name starts with Must, and Die itself, terminates the
// process with exit code 2 and a one-line message naming the file/position and the construct
// that was expected.  Generators never guess: if the source no longer has the shape the Coq
// model transcribes, no output file is written.
package astx

import (
	"fmt"
	"go/ast"
	"go/constant"
	"go/parser"
	"go/token"
	"go/types"
	"os"
	"path/filepath"
	"regexp"
	"sort"
	"strconv"
	"strings"
)

// Tool is the prefix of every diagnostic (set by each command's main).
var Tool = "extract"

// Die prints "<tool>: message" on stderr and exits with status 2.
func Die(format string, args ...interface{}) {
	fmt.Fprintf(os.Stderr, Tool+": "+format+"\n", args...)
	os.Exit(2)
}

// ---------------------------------------------------------------------------------------------
// one parsed file
// ---------------------------------------------------------------------------------------------

// File is one parsed Go source file with its package-level declarations indexed by name.
type File struct {
	Path    string // absolute path
	Label   string // how the file is named in diagnostics and generated comments
	Fset    *token.FileSet
	AST     *ast.File
	Specs   map[string]ast.Expr      // package-level const/var name -> initialiser
	Types   map[string]ast.Expr      // package-level const/var name -> declared type (may be nil)
	Decls   map[string]ast.Expr      // type name -> type expression
	Funcs   map[string]*ast.FuncDecl // "Name" for functions, "Recv.Name" for methods (pointer star dropped)
	Imports map[string]string        // local package name -> import path
	// Extern resolves qualified identifiers ("time.Minute") the evaluator meets; may be nil.
	Extern func(qualified string) (constant.Value, bool)
	env    map[string]constant.Value
}

// Load parses path (exit 2 if it does not exist or does not parse).
func Load(path, label string) *File {
	fset := token.NewFileSet()
	af, err := parser.ParseFile(fset, path, nil, parser.SkipObjectResolution)
	if err != nil {
		Die("cannot parse %s: %v", path, err)
	}
	return Index(fset, af, path, label)
}

// Index builds the declaration tables of an already parsed file.
func Index(fset *token.FileSet, af *ast.File, path, label string) *File {
	f := &File{Path: path, Label: label, Fset: fset, AST: af,
		Specs: map[string]ast.Expr{}, Types: map[string]ast.Expr{}, Decls: map[string]ast.Expr{},
		Funcs: map[string]*ast.FuncDecl{}, Imports: map[string]string{}, env: map[string]constant.Value{}}
	for _, im := range af.Imports {
		p, _ := strconv.Unquote(im.Path.Value)
		name := DefaultImportName(p)
		if im.Name != nil {
			name = im.Name.Name
		}
		f.Imports[name] = p
	}
	for _, d := range af.Decls {
		switch d := d.(type) {
		case *ast.GenDecl:
			for _, sp := range d.Specs {
				switch sp := sp.(type) {
				case *ast.ValueSpec:
					if len(sp.Values) != len(sp.Names) {
						continue
					}
					for i, n := range sp.Names {
						f.Specs[n.Name] = sp.Values[i]
						f.Types[n.Name] = sp.Type
					}
				case *ast.TypeSpec:
					f.Decls[sp.Name.Name] = sp.Type
				}
			}
		case *ast.FuncDecl:
			f.Funcs[FuncName(d)] = d
		}
	}
	return f
}

// DefaultImportName is the package name Go assumes for an import path without explicit name:
// the last element, or the one before it when the last is a major-version suffix (v2, v7...).
func DefaultImportName(path string) string {
	parts := strings.Split(path, "/")
	last := parts[len(parts)-1]
	if len(parts) > 1 && regexp.MustCompile(`^v[0-9]+$`).MatchString(last) {
		last = parts[len(parts)-2]
	}
	// "27-interchain-accounts" style directories never match their package name; callers
	// that need them use an explicit import name in the source.
	return last
}

// FuncName is "Name" for a function and "Recv.Name" for a method ("*T" and "T" both give "T").
func FuncName(d *ast.FuncDecl) string {
	if d.Recv == nil || len(d.Recv.List) == 0 {
		return d.Name.Name
	}
	t := d.Recv.List[0].Type
	if s, ok := t.(*ast.StarExpr); ok {
		t = s.X
	}
	if ix, ok := t.(*ast.IndexExpr); ok { // generic receiver
		t = ix.X
	}
	if id, ok := t.(*ast.Ident); ok {
		return id.Name + "." + d.Name.Name
	}
	return "?." + d.Name.Name
}

// RecvName is the name of the receiver variable of a method ("" if anonymous / not a method).
func RecvName(d *ast.FuncDecl) string {
	if d.Recv == nil || len(d.Recv.List) == 0 || len(d.Recv.List[0].Names) == 0 {
		return ""
	}
	return d.Recv.List[0].Names[0].Name
}

// Pos renders the position of n as file:line:col.
func (f *File) Pos(n ast.Node) string {
	p := f.Fset.Position(n.Pos())
	return fmt.Sprintf("%s:%d:%d", f.Label, p.Line, p.Column)
}

// MustFunc returns the function or method ("Recv.Name") with a body, or exits 2.
func (f *File) MustFunc(name string) *ast.FuncDecl {
	d, ok := f.Funcs[name]
	if !ok || d.Body == nil {
		Die("%s: function %s not found", f.Label, name)
	}
	return d
}

// ---------------------------------------------------------------------------------------------
// constant evaluation
// ---------------------------------------------------------------------------------------------

// Eval evaluates a constant expression: literals (int, char, string), identifiers bound at
// package level or in locals, qualified identifiers through f.Extern, parentheses, unary + -,
// binary + - * / % << >> | & on ints and + on strings, and conversions T(x) to a basic integer
// type (the type is ignored: values are mathematical integers).
func (f *File) Eval(e ast.Expr, locals map[string]ast.Expr) (constant.Value, error) {
	return f.eval(e, locals, 0)
}

var intTypes = map[string]bool{"byte": true, "rune": true, "int": true, "int8": true, "int16": true, "int32": true,
	"int64": true, "uint": true, "uint8": true, "uint16": true, "uint32": true, "uint64": true}

func (f *File) eval(e ast.Expr, locals map[string]ast.Expr, depth int) (constant.Value, error) {
	if depth > 50 {
		return nil, fmt.Errorf("%s: cyclic or too deep constant definition", f.Pos(e))
	}
	switch e := e.(type) {
	case *ast.ParenExpr:
		return f.eval(e.X, locals, depth+1)
	case *ast.BasicLit:
		switch e.Kind {
		case token.INT, token.CHAR, token.STRING, token.FLOAT:
			v := constant.MakeFromLiteral(e.Value, e.Kind, 0)
			if v.Kind() == constant.Unknown {
				return nil, fmt.Errorf("%s: bad literal %s", f.Pos(e), e.Value)
			}
			return v, nil
		}
	case *ast.Ident:
		if init, ok := locals[e.Name]; ok {
			rest := map[string]ast.Expr{}
			for k, v := range locals {
				if k != e.Name {
					rest[k] = v
				}
			}
			return f.eval(init, rest, depth+1)
		}
		if v, ok := f.env[e.Name]; ok {
			return v, nil
		}
		if init, ok := f.Specs[e.Name]; ok {
			v, err := f.eval(init, nil, depth+1)
			if err != nil {
				return nil, err
			}
			f.env[e.Name] = v
			return v, nil
		}
		return nil, fmt.Errorf("%s: unknown identifier %s", f.Pos(e), e.Name)
	case *ast.SelectorExpr:
		if x, ok := e.X.(*ast.Ident); ok && f.Extern != nil {
			if v, ok := f.Extern(x.Name + "." + e.Sel.Name); ok {
				return v, nil
			}
		}
		return nil, fmt.Errorf("%s: cannot evaluate %s", f.Pos(e), Str(e))
	case *ast.UnaryExpr:
		x, err := f.eval(e.X, locals, depth+1)
		if err != nil {
			return nil, err
		}
		if x.Kind() == constant.Int && (e.Op == token.SUB || e.Op == token.ADD) {
			return constant.UnaryOp(e.Op, x, 0), nil
		}
	case *ast.BinaryExpr:
		x, err := f.eval(e.X, locals, depth+1)
		if err != nil {
			return nil, err
		}
		y, err := f.eval(e.Y, locals, depth+1)
		if err != nil {
			return nil, err
		}
		switch {
		case x.Kind() == constant.String && y.Kind() == constant.String && e.Op == token.ADD:
			return constant.BinaryOp(x, token.ADD, y), nil
		case x.Kind() == constant.Int && y.Kind() == constant.Int:
			switch e.Op {
			case token.ADD, token.SUB, token.MUL, token.AND, token.OR:
				return constant.BinaryOp(x, e.Op, y), nil
			case token.QUO, token.REM:
				if constant.Sign(y) == 0 {
					return nil, fmt.Errorf("%s: division by zero", f.Pos(e))
				}
				op := e.Op
				if op == token.QUO {
					op = token.QUO_ASSIGN // integer division in go/constant
				}
				return constant.BinaryOp(x, op, y), nil
			case token.SHL, token.SHR:
				s, ok := constant.Uint64Val(y)
				if !ok || s > 512 {
					return nil, fmt.Errorf("%s: bad shift count", f.Pos(e))
				}
				return constant.Shift(x, e.Op, uint(s)), nil
			}
		}
	case *ast.CallExpr:
		if id, ok := e.Fun.(*ast.Ident); ok && intTypes[id.Name] && len(e.Args) == 1 {
			return f.eval(e.Args[0], locals, depth+1)
		}
	}
	return nil, fmt.Errorf("%s: unsupported constant expression %s", f.Pos(e), Str(e))
}

// MustInt evaluates e to an integer that fits int64, or exits 2.
func (f *File) MustInt(e ast.Expr, locals map[string]ast.Expr, what string) int64 {
	v, err := f.Eval(e, locals)
	if err != nil {
		Die("%s: %s is not a constant integer: %v", f.Label, what, err)
	}
	if v.Kind() == constant.Float { // 1e9 is an untyped float constant with an integer value
		v = constant.ToInt(v)
	}
	if v.Kind() != constant.Int {
		Die("%s: %s is not a constant integer (%s)", f.Label, what, Str(e))
	}
	i, ok := constant.Int64Val(v)
	if !ok {
		Die("%s: %s does not fit int64", f.Label, what)
	}
	return i
}

// MustString evaluates e to a string, or exits 2.
func (f *File) MustString(e ast.Expr, locals map[string]ast.Expr, what string) string {
	v, err := f.Eval(e, locals)
	if err != nil {
		Die("%s: %s is not a constant string: %v", f.Label, what, err)
	}
	if v.Kind() != constant.String {
		Die("%s: %s is not a constant string (%s)", f.Label, what, Str(e))
	}
	return constant.StringVal(v)
}

// MustConstInt / MustConstString evaluate a package-level constant or variable by name.
func (f *File) MustConstInt(name string) int64 {
	if _, ok := f.Specs[name]; !ok {
		Die("%s: package-level constant %s not found", f.Label, name)
	}
	return f.MustInt(&ast.Ident{Name: name}, nil, name)
}

func (f *File) MustConstString(name string) string {
	if _, ok := f.Specs[name]; !ok {
		Die("%s: package-level constant %s not found", f.Label, name)
	}
	return f.MustString(&ast.Ident{Name: name}, nil, name)
}

// LocalConsts collects the `const name = expr` declarations inside a function body.
func LocalConsts(body *ast.BlockStmt) map[string]ast.Expr {
	out := map[string]ast.Expr{}
	ast.Inspect(body, func(n ast.Node) bool {
		if d, ok := n.(*ast.GenDecl); ok && d.Tok == token.CONST {
			for _, sp := range d.Specs {
				vs := sp.(*ast.ValueSpec)
				if len(vs.Values) == len(vs.Names) {
					for i, nm := range vs.Names {
						out[nm.Name] = vs.Values[i]
					}
				}
			}
		}
		return true
	})
	return out
}

// ---------------------------------------------------------------------------------------------
// expression helpers
// ---------------------------------------------------------------------------------------------

// Str is the canonical one-line text of an expression (independent of gofmt and comments).
func Str(e ast.Expr) string {
	if e == nil {
		return ""
	}
	return types.ExprString(e)
}

// IsIdent reports whether e is the identifier name.
func IsIdent(e ast.Expr, name string) bool {
	x, ok := e.(*ast.Ident)
	return ok && x.Name == name
}

// Unparen strips parentheses.
func Unparen(e ast.Expr) ast.Expr {
	for {
		p, ok := e.(*ast.ParenExpr)
		if !ok {
			return e
		}
		e = p.X
	}
}

// Callee is "pkg.F" / "x.M" for a selector on an identifier, "F" for a plain identifier, ""
// otherwise.
func Callee(c *ast.CallExpr) string {
	switch fn := c.Fun.(type) {
	case *ast.SelectorExpr:
		if x, ok := fn.X.(*ast.Ident); ok {
			return x.Name + "." + fn.Sel.Name
		}
	case *ast.Ident:
		return fn.Name
	}
	return ""
}

// MethodName is the selected name of a call `<expr>.Name(...)` ("" if the callee is not a
// selector).
func MethodName(c *ast.CallExpr) string {
	if s, ok := c.Fun.(*ast.SelectorExpr); ok {
		return s.Sel.Name
	}
	return ""
}

// Calls returns every call expression below n, in source order, for which keep returns true.
func Calls(n ast.Node, keep func(*ast.CallExpr) bool) []*ast.CallExpr {
	out := []*ast.CallExpr{}
	ast.Inspect(n, func(n ast.Node) bool {
		if c, ok := n.(*ast.CallExpr); ok && keep(c) {
			out = append(out, c)
		}
		return true
	})
	return out
}

// MustOneCall returns the unique call below n whose Callee() is name, or exits 2.
func (f *File) MustOneCall(n ast.Node, name, where string) *ast.CallExpr {
	cs := Calls(n, func(c *ast.CallExpr) bool { return Callee(c) == name })
	if len(cs) != 1 {
		Die("%s: %s: expected exactly one call of %s, found %d", f.Label, where, name, len(cs))
	}
	return cs[0]
}

// Binaries returns every binary expression below n (source order) for which keep returns true.
func Binaries(n ast.Node, keep func(*ast.BinaryExpr) bool) []*ast.BinaryExpr {
	out := []*ast.BinaryExpr{}
	ast.Inspect(n, func(n ast.Node) bool {
		if b, ok := n.(*ast.BinaryExpr); ok && keep(b) {
			out = append(out, b)
		}
		return true
	})
	return out
}

// MustCompare finds the unique comparison `<lhs> <op> <constant>` below n where Str(lhs) == lhs,
// and returns the constant; exits 2 if there is none or more than one, so a changed operator
// (< to <=) or a duplicated check is a shape failure rather than a silently different constant.
func (f *File) MustCompare(n ast.Node, lhs string, op token.Token, where string) (int64, *ast.BinaryExpr) {
	bs := Binaries(n, func(b *ast.BinaryExpr) bool { return b.Op == op && Str(b.X) == lhs })
	if len(bs) != 1 {
		Die("%s: %s: expected exactly one comparison `%s %s <constant>`, found %d", f.Label, where, lhs, op, len(bs))
	}
	return f.MustInt(bs[0].Y, nil, where+": "+Str(bs[0])), bs[0]
}

// MustNoOtherCompare exits 2 if lhs is compared with anything using an operator outside allowed.
func (f *File) MustNoOtherCompare(n ast.Node, lhs string, allowed []token.Token, where string) {
	cmp := map[token.Token]bool{token.LSS: true, token.LEQ: true, token.GTR: true, token.GEQ: true, token.EQL: true, token.NEQ: true}
	ok := map[token.Token]bool{}
	for _, t := range allowed {
		ok[t] = true
	}
	for _, b := range Binaries(n, func(b *ast.BinaryExpr) bool { return cmp[b.Op] && (Str(b.X) == lhs || Str(b.Y) == lhs) }) {
		if !ok[b.Op] || Str(b.X) != lhs {
			Die("%s: %s: unexpected comparison %s", f.Pos(b), where, Str(b))
		}
	}
}

// ---------------------------------------------------------------------------------------------
// fmt.Sprintf formats made of %s verbs and literal text
// ---------------------------------------------------------------------------------------------

// SplitFormat splits a format string made only of %s verbs into the literal pieces around
// them: "regen:%s.%s" -> ["regen:", ".", ""].  Any other verb is an error.
func SplitFormat(format string) ([]string, error) {
	pieces := []string{}
	cur := strings.Builder{}
	for i := 0; i < len(format); i++ {
		if format[i] != '%' {
			cur.WriteByte(format[i])
			continue
		}
		i++
		if i >= len(format) {
			return nil, fmt.Errorf("dangling %% in %q", format)
		}
		switch format[i] {
		case '%':
			cur.WriteByte('%')
		case 's':
			pieces = append(pieces, cur.String())
			cur.Reset()
		default:
			return nil, fmt.Errorf("unsupported verb %%%c in %q", format[i], format)
		}
	}
	return append(pieces, cur.String()), nil
}

// ---------------------------------------------------------------------------------------------
// struct tags
// ---------------------------------------------------------------------------------------------

// MustProtobufTag returns the wire kind, the field number and whether the field is repeated from
// the `protobuf:"kind,number,opt|rep|req,..."` tag of field of struct typ.
func (f *File) MustProtobufTag(typ, field string) (kind string, number int64, rep bool) {
	te, ok := f.Decls[typ]
	st, ok2 := te.(*ast.StructType)
	if !ok || !ok2 {
		Die("%s: struct type %s not found", f.Label, typ)
	}
	for _, fl := range st.Fields.List {
		for _, n := range fl.Names {
			if n.Name != field {
				continue
			}
			if fl.Tag == nil {
				Die("%s: %s.%s has no struct tag", f.Label, typ, field)
			}
			raw, err := strconv.Unquote(fl.Tag.Value)
			if err != nil {
				Die("%s: %s.%s: bad struct tag", f.Label, typ, field)
			}
			m := regexp.MustCompile(`protobuf:"([a-z0-9]+),([0-9]+),(opt|rep|req)[,"]`).FindStringSubmatch(raw)
			if m == nil {
				Die("%s: %s.%s: no protobuf:\"kind,number,...\" tag in %s", f.Label, typ, field, raw)
			}
			num, _ := strconv.ParseInt(m[2], 10, 64)
			return m[1], num, m[3] == "rep"
		}
	}
	Die("%s: field %s.%s not found", f.Label, typ, field)
	return
}

// ---------------------------------------------------------------------------------------------
// Coq output
// ---------------------------------------------------------------------------------------------

// CoqB renders a Go string as a Coq term of type Regen.Base.Bytes.bytes: `b "..."` (string
// notation, string_scope must be open) when every byte is printable ASCII, else an explicit
// list of Strings.Byte constructors.
func CoqB(s string) string {
	printable := true
	for i := 0; i < len(s); i++ {
		if s[i] < 0x20 || s[i] > 0x7e {
			printable = false
		}
	}
	if printable {
		return `b "` + strings.ReplaceAll(s, `"`, `""`) + `"`
	}
	if s == "" {
		return "[]"
	}
	parts := []string{}
	for i := 0; i < len(s); i++ {
		parts = append(parts, fmt.Sprintf("x%02x", s[i]))
	}
	return "[" + strings.Join(parts, "; ") + "]"
}

// CoqComment makes text safe inside a Coq comment: comment delimiters are broken up and string
// quotes are balanced (Coq lexes string literals inside comments).
func CoqComment(s string) string {
	s = strings.ReplaceAll(s, "(*", "( *")
	s = strings.ReplaceAll(s, "*)", "* )")
	if strings.Count(s, `"`)%2 == 1 {
		s += ` "`
	}
	return s
}

// CoqBList renders a list of byte strings, one `b "..."` per element, on one line.
func CoqBList(xs []string) string {
	parts := []string{}
	for _, x := range xs {
		parts = append(parts, CoqB(x))
	}
	return "[" + strings.Join(parts, "; ") + "]"
}

// CoqTuples renders a list of tuples of byte strings, one tuple per line.
func CoqTuples(rows [][]string) string {
	if len(rows) == 0 {
		return "  []"
	}
	var sb strings.Builder
	for i, r := range rows {
		if i == 0 {
			sb.WriteString("  [ ")
		} else {
			sb.WriteString("  ; ")
		}
		parts := []string{}
		for _, x := range r {
			parts = append(parts, CoqB(x))
		}
		sb.WriteString("(" + strings.Join(parts, ", ") + ")\n")
	}
	sb.WriteString("  ]")
	return sb.String()
}

// SortRows sorts tuples lexicographically (bytewise), keeping duplicates.
func SortRows(rows [][]string) {
	sort.SliceStable(rows, func(i, j int) bool {
		a, b := rows[i], rows[j]
		for k := 0; k < len(a) && k < len(b); k++ {
			if a[k] != b[k] {
				return a[k] < b[k]
			}
		}
		return len(a) < len(b)
	})
}

// WriteFile writes content to path (creating the directory), exit 2 on error.  A file that
// already has exactly this content is left untouched, so make does not rebuild its dependents.
func WriteFile(path, content string) {
	if old, err := os.ReadFile(path); err == nil && string(old) == content {
		return
	}
	if err := os.MkdirAll(filepath.Dir(path), 0o755); err != nil {
		Die("%v", err)
	}
	if err := os.WriteFile(path, []byte(content), 0o644); err != nil {
		Die("%v", err)
	}
}

// WalkStack walks the tree below root in source order; visit receives each node together with
// the stack of its ancestors (outermost first, not including the node itself) and returns false
// to skip the node's children.
func WalkStack(root ast.Node, visit func(n ast.Node, stack []ast.Node) bool) {
	stack := []ast.Node{}
	ast.Inspect(root, func(n ast.Node) bool {
		if n == nil {
			stack = stack[:len(stack)-1]
			return false
		}
		if !visit(n, stack) {
			return false // ast.Inspect does not call f(nil) for a skipped node
		}
		stack = append(stack, n)
		return true
	})
}
