#!/bin/bash
# Re-applies every seeded breaking change (seeded/<dir>/patch.diff) to /repo in turn, runs the quick check of its property
# and reverts.  Prints one line per change; exit 0 iff every change is reported as a VIOLATION.
# usage: tools/rerun_seeded.sh [dir-prefix ...]
cd /verif
[ -z "$(git -C /repo status --short)" ] || { echo "/repo has uncommitted changes"; exit 2; }
rc=0
for d in seeded/*/; do
  n=$(basename $d)
  if [ $# -gt 0 ]; then m=0; for p in "$@"; do case $n in $p*) m=1;; esac; done; [ $m = 1 ] || continue; fi
  prop=$(python3 -c "import json;print(json.load(open('$d/meta.json'))['property'])")
  git -C /repo apply /verif/$d/patch.diff || { echo "$n: patch does not apply"; rc=1; continue; }
  out=$(./check $prop 2>&1); r=$?
  git -C /repo checkout -- . ; git -C /repo clean -fdq
  v=$(echo "$out" | grep -m1 "^VIOLATION")
  kinds=$(echo "$out" | grep "^\[check\] " | awk '{print $2}' | sort | uniq -c | tr '\n' ' ')
  if [ $r -eq 1 ] && [ -n "$v" ]; then echo "$n $prop CAUGHT $(echo "$v" | grep -o 'no-failing-input-found') | $kinds"
  else echo "$n $prop MISSED rc=$r | $(echo "$out" | tail -1 | cut -c1-120)"; rc=1; fi
done
exit $rc
