#!/bin/bash
# Regenerates _CoqProject from the tree and runs a full .vo build.
set -e
cd "$(dirname "$0")"
{
  echo "-Q . Regen"
  echo "-arg -w -arg -notation-overridden,-deprecated-hint-without-locality,-deprecated-instance-without-locality,-ambiguous-paths"
  find . -name '*.v' ! -name 'cases_*.v' ! -path './Cases/tmp/*' | sed 's#^\./##' | LC_ALL=C sort
} > _CoqProject.new
if ! cmp -s _CoqProject.new _CoqProject; then mv _CoqProject.new _CoqProject; coq_makefile -f _CoqProject -o Makefile.coq >/dev/null; else rm _CoqProject.new; fi
[ -f Makefile.coq ] || coq_makefile -f _CoqProject -o Makefile.coq >/dev/null
exec timeout ${COQ_BUILD_TIMEOUT:-3000} make -f Makefile.coq -j${JOBS:-16} -k "$@"
