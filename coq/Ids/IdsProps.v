(* Theorems about the identifier formats (pure half of C14): formatted ids are accepted by the
   validators, the parsers recover the embedded components, the formats are injective, prefix
   scans do not confuse C01 with C011, basket denoms are valid and injective.

   Method: every generated regex is first characterised by a plain list predicate through the
   denotational semantics ([rmatch_correct] + [matches_rep_class] ...), then all reasoning is
   about lists.  The characterisation lemmas unfold the *generated* constants, so they are
   re-checked against the current Go literals on every run (a changed regex breaks them). *)
From Coq Require Import List NArith ZArith Bool Lia Strings.Byte.
Require Import Regen.Base.Bytes Regen.Base.BytesProps Regen.Base.Regex Regen.Base.RegexProps
  Regen.Base.Calendar Regen.Base.CalendarProps Regen.Generated.IdConsts Regen.Ids.Ids.
Import ListNotations.

(* ---------- character classes ---------- *)

Definition all_upper (s : bytes) : Prop := Forall (fun c => is_upper c = true) s.
Definition all_lower (s : bytes) : Prop := Forall (fun c => is_lower c = true) s.
Definition is_alpha (c : byte) : bool := is_upper c || is_lower c.
Definition is_alnum (c : byte) : bool := is_digit c || is_upper c || is_lower c.

Lemma in_ranges_digit c : in_ranges [(x30, x39)] c = is_digit c.
Proof. unfold in_ranges, is_digit. rewrite orb_false_r. reflexivity. Qed.

Lemma in_ranges_upper c : in_ranges [(x41, x5a)] c = is_upper c.
Proof. unfold in_ranges, is_upper. rewrite orb_false_r. reflexivity. Qed.

Lemma in_ranges_alpha c : in_ranges [(x41, x5a); (x61, x7a)] c = is_alpha c.
Proof. unfold in_ranges, is_alpha, is_upper, is_lower. rewrite orb_false_r. reflexivity. Qed.

Lemma in_ranges_alnum c : in_ranges [(x30, x39); (x41, x5a); (x61, x7a)] c = is_alnum c.
Proof. unfold in_ranges, is_alnum, is_digit, is_upper, is_lower. rewrite orb_false_r, orb_assoc. reflexivity. Qed.

Lemma all_in_ext rs (P : byte -> bool) s :
  (forall c, in_ranges rs c = P c) -> (all_in rs s <-> Forall (fun c => P c = true) s).
Proof.
  intro H. unfold all_in. split; intro F; (eapply Forall_impl; [|exact F]); intros c Hc; cbv beta in *;
    [rewrite <- H|rewrite H]; exact Hc.
Qed.

Lemma is_upper_range c : is_upper c = true <-> (65 <= byte_N c <= 90)%N.
Proof. unfold is_upper. rewrite andb_true_iff, !N.leb_le. tauto. Qed.

Lemma is_lower_range c : is_lower c = true <-> (97 <= byte_N c <= 122)%N.
Proof. unfold is_lower. rewrite andb_true_iff, !N.leb_le. tauto. Qed.

Lemma upper_not_digit c : is_upper c = true -> is_digit c = false.
Proof.
  intro H. apply is_upper_range in H. destruct (is_digit c) eqn:E; [|reflexivity].
  apply is_digit_range in E. lia.
Qed.

Lemma upper_not_lower c : is_upper c = true -> is_lower c = false.
Proof.
  intro H. apply is_upper_range in H. destruct (is_lower c) eqn:E; [|reflexivity].
  apply is_lower_range in E. lia.
Qed.

(* identifier characters: ASCII, and never a separator *)
Definition idchar (c : byte) : Prop := (byte_N c < 128)%N /\ c <> x2d /\ c <> x2e.

Lemma byte_N_neq c k : byte_N c <> byte_N k -> c <> k.
Proof. intros H E. apply H. rewrite E. reflexivity. Qed.

Lemma upper_idchar c : is_upper c = true -> idchar c.
Proof.
  intro H. apply is_upper_range in H. split; [lia|].
  split; apply byte_N_neq; change (byte_N x2d) with 45%N; change (byte_N x2e) with 46%N; lia.
Qed.

Lemma lower_idchar c : is_lower c = true -> idchar c.
Proof.
  intro H. apply is_lower_range in H. split; [lia|].
  split; apply byte_N_neq; change (byte_N x2d) with 45%N; change (byte_N x2e) with 46%N; lia.
Qed.

Lemma digit_idchar c : is_digit c = true -> idchar c.
Proof.
  intro H. apply is_digit_range in H. split; [lia|].
  split; apply byte_N_neq; change (byte_N x2d) with 45%N; change (byte_N x2e) with 46%N; lia.
Qed.

Definition idchars (s : bytes) : Prop := Forall idchar s.

Lemma all_upper_idchars s : all_upper s -> idchars s.
Proof. intro H. eapply Forall_impl; [|exact H]. apply upper_idchar. Qed.

Lemma all_digits_idchars s : all_digits s -> idchars s.
Proof. intro H. eapply Forall_impl; [|exact H]. apply digit_idchar. Qed.

Lemma idchars_app s t : idchars (s ++ t) <-> idchars s /\ idchars t.
Proof. apply Forall_app. Qed.

(* ---------- characterisation of the generated regexes ---------- *)

Definition is_abbrev (a : bytes) : Prop := (1 <= length a <= 3)%nat /\ all_upper a.

Definition is_class_id (s : bytes) : Prop :=
  exists a ds, s = a ++ ds /\ is_abbrev a /\ all_digits ds /\ (2 <= length ds)%nat.

Definition is_project_id (s : bytes) : Prop :=
  exists c ds, s = c ++ x2d :: ds /\ is_class_id c /\ all_digits ds /\ (3 <= length ds)%nat.

Definition is_batch_denom (s : bytes) : Prop :=
  exists p d1 d2 ds, s = p ++ x2d :: d1 ++ x2d :: d2 ++ x2d :: ds /\ is_project_id p /\
    all_digits d1 /\ length d1 = 8%nat /\ all_digits d2 /\ length d2 = 8%nat /\
    all_digits ds /\ (3 <= length ds)%nat.

Lemma matches_upper_rep m n s :
  matches (Rep (Class [(x41, x5a)]) m n) s <-> ((m <= length s <= n)%nat /\ all_upper s).
Proof. rewrite matches_rep_class, (all_in_ext _ is_upper s in_ranges_upper). reflexivity. Qed.

Lemma matches_digit_rep m n s :
  matches (Rep (Class [(x30, x39)]) m n) s <-> ((m <= length s <= n)%nat /\ all_digits s).
Proof. rewrite matches_rep_class, (all_in_ext _ is_digit s in_ranges_digit). reflexivity. Qed.

Lemma matches_digit_atleast m s :
  matches (RepAtLeast (Class [(x30, x39)]) m) s <-> ((m <= length s)%nat /\ all_digits s).
Proof. rewrite matches_rep_atleast_class, (all_in_ext _ is_digit s in_ranges_digit). reflexivity. Qed.

Lemma abbrev_spec a : rmatch re_credit_type_abbrev a = true <-> is_abbrev a.
Proof. rewrite rmatch_correct. unfold re_credit_type_abbrev. apply matches_upper_rep. Qed.

Lemma matches_class_id s : matches re_class_id s <-> is_class_id s.
Proof.
  unfold re_class_id, is_class_id. rewrite matches_cat. split.
  - intros [a [ds [-> [Ha Hd]]]]. apply matches_upper_rep in Ha. apply matches_digit_atleast in Hd.
    exists a, ds. unfold is_abbrev. tauto.
  - intros [a [ds [-> [Ha [Hd Hl]]]]]. exists a, ds. split; [reflexivity|].
    split; [apply matches_upper_rep; exact Ha|apply matches_digit_atleast; tauto].
Qed.

Lemma class_id_spec s : rmatch re_class_id s = true <-> is_class_id s.
Proof. rewrite rmatch_correct. apply matches_class_id. Qed.

Lemma matches_project_id s : matches re_project_id s <-> is_project_id s.
Proof.
  unfold re_project_id, is_project_id. rewrite matches_cat. split.
  - intros [a [r1 [-> [Ha H]]]]. apply matches_cat in H. destruct H as [ds [r2 [-> [Hd H]]]].
    apply matches_cat_chr in H. destruct H as [t [-> Ht]]. apply matches_digit_atleast in Ht.
    exists (a ++ ds), t. split; [rewrite <- app_assoc; reflexivity|].
    split; [|tauto]. apply matches_class_id. unfold re_class_id. apply matches_cat.
    exists a, ds. split; [reflexivity|split; assumption].
  - intros [c [t [-> [Hc [Ht Hl]]]]]. apply matches_class_id in Hc. unfold re_class_id in Hc.
    apply matches_cat in Hc. destruct Hc as [a [ds [-> [Ha Hd]]]].
    exists a, (ds ++ x2d :: t). split; [rewrite <- app_assoc; reflexivity|]. split; [exact Ha|].
    apply matches_cat. exists ds, (x2d :: t). split; [reflexivity|]. split; [exact Hd|].
    apply matches_cat_chr. exists t. split; [reflexivity|]. apply matches_digit_atleast. tauto.
Qed.

Lemma project_id_spec s : rmatch re_project_id s = true <-> is_project_id s.
Proof. rewrite rmatch_correct. apply matches_project_id. Qed.

Lemma matches_batch_denom s : matches re_batch_denom s <-> is_batch_denom s.
Proof.
  unfold re_batch_denom, is_batch_denom. rewrite matches_cat. split.
  - intros [a [r1 [-> [Ha H]]]]. apply matches_cat in H. destruct H as [ds [r2 [-> [Hd H]]]].
    apply matches_cat_chr in H. destruct H as [r3 [-> H]].
    apply matches_cat in H. destruct H as [ps [r4 [-> [Hps H]]]].
    apply matches_cat_chr in H. destruct H as [r5 [-> H]].
    apply matches_cat in H. destruct H as [d1 [r6 [-> [Hd1 H]]]].
    apply matches_cat_chr in H. destruct H as [r7 [-> H]].
    apply matches_cat in H. destruct H as [d2 [r8 [-> [Hd2 H]]]].
    apply matches_cat_chr in H. destruct H as [bs [-> Hbs]].
    apply matches_digit_rep in Hd1. apply matches_digit_rep in Hd2. apply matches_digit_atleast in Hbs.
    exists (a ++ ds ++ x2d :: ps), d1, d2, bs.
    split; [rewrite <- !app_assoc; cbn [app]; reflexivity|].
    split; [|repeat split; try tauto; lia].
    apply matches_project_id. unfold re_project_id. apply matches_cat. exists a, (ds ++ x2d :: ps).
    split; [reflexivity|]. split; [exact Ha|]. apply matches_cat. exists ds, (x2d :: ps).
    split; [reflexivity|]. split; [exact Hd|]. apply matches_cat_chr. exists ps. split; [reflexivity|exact Hps].
  - intros [p [d1 [d2 [bs [-> [Hp [Hd1 [Hl1 [Hd2 [Hl2 [Hbs Hl]]]]]]]]]]].
    apply matches_project_id in Hp. unfold re_project_id in Hp.
    apply matches_cat in Hp. destruct Hp as [a [r1 [-> [Ha H]]]].
    apply matches_cat in H. destruct H as [ds [r2 [-> [Hd H]]]].
    apply matches_cat_chr in H. destruct H as [ps [-> Hps]].
    exists a, (ds ++ x2d :: ps ++ x2d :: d1 ++ x2d :: d2 ++ x2d :: bs).
    split; [rewrite <- !app_assoc; cbn [app]; reflexivity|]. split; [exact Ha|].
    apply matches_cat. eexists ds, _. split; [reflexivity|]. split; [exact Hd|].
    apply matches_cat_chr. eexists. split; [reflexivity|].
    apply matches_cat. eexists ps, _. split; [reflexivity|]. split; [exact Hps|].
    apply matches_cat_chr. eexists. split; [reflexivity|].
    apply matches_cat. eexists d1, _. split; [reflexivity|]. split; [apply matches_digit_rep; split; [lia|exact Hd1]|].
    apply matches_cat_chr. eexists. split; [reflexivity|].
    apply matches_cat. eexists d2, _. split; [reflexivity|]. split; [apply matches_digit_rep; split; [lia|exact Hd2]|].
    apply matches_cat_chr. eexists. split; [reflexivity|]. apply matches_digit_atleast. tauto.
Qed.

Lemma batch_denom_spec s : rmatch re_batch_denom s = true <-> is_batch_denom s.
Proof. rewrite rmatch_correct. apply matches_batch_denom. Qed.

(* the empty-string pre-check of the validators is subsumed by the regexes *)
Lemma validate_with_spec r s : validate_with r s = true <-> (s <> [] /\ rmatch r s = true).
Proof.
  unfold validate_with. destruct s as [|c s].
  - split; [discriminate|]. intros [H _]. congruence.
  - split; [intro H; split; [discriminate|exact H]|tauto].
Qed.

Lemma is_abbrev_nonempty a : is_abbrev a -> a <> [].
Proof. intros [[H _] _] ->. cbn in H. lia. Qed.

Lemma is_class_id_nonempty s : is_class_id s -> s <> [].
Proof.
  intros [a [ds [-> [Ha _]]]] E. apply app_eq_nil in E. destruct E as [E _].
  exact (is_abbrev_nonempty a Ha E).
Qed.

Lemma is_project_id_nonempty s : is_project_id s -> s <> [].
Proof. intros [c [ds [-> _]]] E. apply app_eq_nil in E. destruct E as [_ E]. discriminate E. Qed.

Lemma is_batch_denom_nonempty s : is_batch_denom s -> s <> [].
Proof. intros [p [d1 [d2 [ds [-> _]]]]] E. apply app_eq_nil in E. destruct E as [_ E]. discriminate E. Qed.

Lemma validate_abbrev_spec a : validate_credit_type_abbrev a = true <-> is_abbrev a.
Proof.
  unfold validate_credit_type_abbrev. rewrite validate_with_spec, abbrev_spec. split; [tauto|].
  intro H. split; [apply is_abbrev_nonempty; exact H|exact H].
Qed.

Lemma validate_class_id_spec s : validate_class_id s = true <-> is_class_id s.
Proof.
  unfold validate_class_id. rewrite validate_with_spec, class_id_spec. split; [tauto|].
  intro H. split; [apply is_class_id_nonempty; exact H|exact H].
Qed.

Lemma validate_project_id_spec s : validate_project_id s = true <-> is_project_id s.
Proof.
  unfold validate_project_id. rewrite validate_with_spec, project_id_spec. split; [tauto|].
  intro H. split; [apply is_project_id_nonempty; exact H|exact H].
Qed.

Lemma validate_batch_denom_spec s : validate_batch_denom s = true <-> is_batch_denom s.
Proof.
  unfold validate_batch_denom. rewrite validate_with_spec, batch_denom_spec. split; [tauto|].
  intro H. split; [apply is_batch_denom_nonempty; exact H|exact H].
Qed.

(* ---------- formatted identifiers are valid ---------- *)

Lemma format_class_id_is_class_id a n : is_abbrev a -> is_class_id (format_class_id a n).
Proof.
  intro Ha. exists a, (N_to_dec_pad class_seq_width n). split; [reflexivity|]. split; [exact Ha|].
  split; [apply N_to_dec_pad_digits|apply N_to_dec_pad_length_ge].
Qed.

(* Holds for every sequence number, 0 included ("C00"); the chain starts sequences at 1. *)
Theorem format_class_id_valid a n :
  rmatch re_credit_type_abbrev a = true -> validate_class_id (format_class_id a n) = true.
Proof. intro H. apply validate_class_id_spec, format_class_id_is_class_id, abbrev_spec, H. Qed.

Lemma format_project_id_is_project_id c n : is_class_id c -> is_project_id (format_project_id c n).
Proof.
  intro Hc. exists c, (N_to_dec_pad project_seq_width n). split; [reflexivity|]. split; [exact Hc|].
  split; [apply N_to_dec_pad_digits|apply N_to_dec_pad_length_ge].
Qed.

Theorem format_project_id_valid c n :
  validate_class_id c = true -> validate_project_id (format_project_id c n) = true.
Proof. intro H. apply validate_project_id_spec, format_project_id_is_project_id, validate_class_id_spec, H. Qed.

Lemma format_batch_denom_is_batch_denom p n s e :
  is_project_id p -> ts_valid s = true -> ts_valid e = true ->
  is_batch_denom (format_batch_denom p n s e).
Proof.
  intros Hp Hs He. destruct (format_yyyymmdd_valid s Hs) as [Ls Ds]. destruct (format_yyyymmdd_valid e He) as [Le De].
  exists p, (format_yyyymmdd s), (format_yyyymmdd e), (N_to_dec_pad batch_seq_width n).
  split; [reflexivity|]. split; [exact Hp|].
  repeat split; try assumption; [apply N_to_dec_pad_digits|apply N_to_dec_pad_length_ge].
Qed.

Theorem format_batch_denom_valid p n s e :
  validate_project_id p = true -> ts_valid s = true -> ts_valid e = true ->
  validate_batch_denom (format_batch_denom p n s e) = true.
Proof.
  intros Hp Hs He. apply validate_batch_denom_spec, format_batch_denom_is_batch_denom; try assumption.
  apply validate_project_id_spec, Hp.
Qed.

(* ---------- the rune loop on ASCII prefixes ---------- *)

Definition singles (s : bytes) : list bytes := map (fun c => [c]) s.

Lemma runes_go_ascii c r : (byte_N c < 128)%N -> runes_go 0 (c :: r) = [c] :: runes_go 0 r.
Proof.
  intro H. cbn [runes_go utf8_width]. apply N.ltb_lt in H. rewrite H. reflexivity.
Qed.

Lemma runes_idchars_app p r : idchars p -> runes (p ++ r) = singles p ++ runes r.
Proof.
  unfold runes. induction 1 as [|c p [Hc _] _ IH]; [reflexivity|].
  cbn [app singles map]. rewrite runes_go_ascii by exact Hc. fold (singles p). rewrite IH. reflexivity.
Qed.

Lemma runes_sep r : runes (x2d :: r) = [x2d] :: runes r.
Proof. unfold runes. apply runes_go_ascii. change (byte_N x2d) with 45%N. lia. Qed.

Lemma is_sep_rune_single c : is_sep_rune [c] = Byte.eqb c x2d.
Proof. unfold is_sep_rune, id_separator. cbn [bytes_eqb]. rewrite andb_true_r. reflexivity. Qed.

Lemma is_sep_rune_idchar c : idchar c -> is_sep_rune [c] = false.
Proof.
  intros [_ [H _]]. rewrite is_sep_rune_single. destruct (Byte.eqb c x2d) eqn:E; [|reflexivity].
  apply byte_eqb_eq in E. contradiction.
Qed.

Lemma until_sep_singles p R : idchars p -> until_sep (singles p ++ R) = p ++ until_sep R.
Proof.
  induction 1 as [|c p Hc _ IH]; [reflexivity|].
  cbn [singles map app until_sep]. rewrite (is_sep_rune_idchar c Hc). cbn [negb]. fold (singles p).
  rewrite IH. reflexivity.
Qed.

Lemma until_sep_runes p r : idchars p -> until_sep (runes (p ++ x2d :: r)) = p.
Proof.
  intro H. rewrite runes_idchars_app by exact H. rewrite until_sep_singles by exact H.
  rewrite runes_sep. cbn [until_sep]. rewrite is_sep_rune_single. cbn. apply app_nil_r.
Qed.

Lemma until_second_sep_singles k p R : idchars p ->
  until_second_sep k (singles p ++ R) = p ++ until_second_sep k R.
Proof.
  induction 1 as [|c p Hc _ IH]; [reflexivity|].
  cbn [singles map app until_second_sep]. rewrite (is_sep_rune_idchar c Hc). cbn [negb orb]. fold (singles p).
  rewrite IH. reflexivity.
Qed.

Lemma until_second_sep_runes c ds r : idchars c -> idchars ds ->
  until_second_sep 0 (runes (c ++ x2d :: ds ++ x2d :: r)) = c ++ x2d :: ds.
Proof.
  intros Hc Hd. rewrite runes_idchars_app by exact Hc. rewrite until_second_sep_singles by exact Hc.
  rewrite runes_sep. cbn [until_second_sep]. rewrite is_sep_rune_single. cbn [Byte.eqb negb orb Nat.eqb app].
  f_equal. f_equal.
  rewrite runes_idchars_app by exact Hd. rewrite until_second_sep_singles by exact Hd.
  rewrite runes_sep. cbn [until_second_sep]. rewrite is_sep_rune_single. cbn. rewrite app_nil_r. reflexivity.
Qed.

Lemma is_abbrev_idchars a : is_abbrev a -> idchars a.
Proof. intros [_ H]. apply all_upper_idchars, H. Qed.

Lemma is_class_id_idchars c : is_class_id c -> idchars c.
Proof.
  intros [a [ds [-> [Ha [Hd _]]]]]. apply idchars_app. split; [apply is_abbrev_idchars, Ha|apply all_digits_idchars, Hd].
Qed.

(* ---------- parsers recover the components ---------- *)

Theorem get_class_id_from_project_id_format c n :
  validate_class_id c = true -> get_class_id_from_project_id (format_project_id c n) = c.
Proof.
  intro H. apply validate_class_id_spec, is_class_id_idchars in H.
  unfold get_class_id_from_project_id, format_project_id, id_separator. apply until_sep_runes, H.
Qed.

Lemma get_class_id_from_project_id_spec p : is_project_id p ->
  exists c ds, p = c ++ x2d :: ds /\ is_class_id c /\ get_class_id_from_project_id p = c.
Proof.
  intros [c [ds [-> [Hc _]]]]. exists c, ds. split; [reflexivity|]. split; [exact Hc|].
  apply until_sep_runes, is_class_id_idchars, Hc.
Qed.

Theorem get_project_id_from_batch_denom_format p n s e :
  validate_project_id p = true -> get_project_id_from_batch_denom (format_batch_denom p n s e) = p.
Proof.
  intro H. apply validate_project_id_spec in H. destruct H as [c [ds [-> [Hc [Hd _]]]]].
  unfold get_project_id_from_batch_denom, format_batch_denom, id_separator.
  rewrite <- app_assoc. cbn [app]. apply until_second_sep_runes; [apply is_class_id_idchars, Hc|apply all_digits_idchars, Hd].
Qed.

Theorem get_class_id_from_batch_denom_format c k n s e :
  validate_class_id c = true ->
  get_class_id_from_batch_denom (format_batch_denom (format_project_id c k) n s e) = c.
Proof.
  intro H. apply validate_class_id_spec, is_class_id_idchars in H.
  unfold get_class_id_from_batch_denom, format_batch_denom, format_project_id, id_separator.
  rewrite <- app_assoc. cbn [app]. apply until_sep_runes, H.
Qed.

(* on any valid denom the two parsers are consistent with each other and with the project parser *)
Lemma batch_denom_components d : is_batch_denom d ->
  exists c ps rest, d = c ++ x2d :: ps ++ x2d :: rest /\ is_class_id c /\ all_digits ps /\
    is_project_id (c ++ x2d :: ps) /\
    get_class_id_from_batch_denom d = c /\ get_project_id_from_batch_denom d = c ++ x2d :: ps.
Proof.
  intros [p [d1 [d2 [bs [-> [Hp _]]]]]]. pose proof Hp as Hp'. destruct Hp as [c [ps [-> [Hc [Hps Hl]]]]].
  exists c, ps, (d1 ++ x2d :: d2 ++ x2d :: bs).
  split; [rewrite <- app_assoc; reflexivity|]. split; [exact Hc|]. split; [exact Hps|]. split; [exact Hp'|].
  rewrite <- app_assoc. cbn [app]. split.
  - apply until_sep_runes, is_class_id_idchars, Hc.
  - apply until_second_sep_runes; [apply is_class_id_idchars, Hc|apply all_digits_idchars, Hps].
Qed.

Theorem parsers_consistent d : validate_batch_denom d = true ->
  validate_project_id (get_project_id_from_batch_denom d) = true /\
  validate_class_id (get_class_id_from_batch_denom d) = true /\
  get_class_id_from_project_id (get_project_id_from_batch_denom d) = get_class_id_from_batch_denom d.
Proof.
  intro H. apply validate_batch_denom_spec in H.
  destruct (batch_denom_components d H) as [c [ps [rest [_ [Hc [Hps [Hp [E1 E2]]]]]]]].
  rewrite E1, E2. split; [apply validate_project_id_spec, Hp|]. split; [apply validate_class_id_spec, Hc|].
  apply until_sep_runes, is_class_id_idchars, Hc.
Qed.

Lemma abbrev_parser_spec a ds : all_upper a -> all_digits ds -> ds <> [] ->
  get_credit_type_abbrev_from_class_id (a ++ ds) = Some a.
Proof.
  intros Ha Hd Hne. induction Ha as [|c a Hc _ IH].
  - destruct ds as [|d ds]; [congruence|]. inversion Hd as [|? ? Hdd _]; subst.
    cbn [app get_credit_type_abbrev_from_class_id]. rewrite Hdd.
    apply is_digit_range in Hdd. destruct (N.leb_spec 128 (byte_N d)); [lia|reflexivity].
  - cbn [app get_credit_type_abbrev_from_class_id]. rewrite IH. rewrite (upper_not_digit c Hc).
    apply is_upper_range in Hc. destruct (N.leb_spec 128 (byte_N c)); [lia|reflexivity].
Qed.

Theorem get_credit_type_abbrev_from_class_id_format a n :
  rmatch re_credit_type_abbrev a = true ->
  get_credit_type_abbrev_from_class_id (format_class_id a n) = Some a.
Proof.
  intro H. apply abbrev_spec in H. destruct H as [_ Hu]. unfold format_class_id.
  apply abbrev_parser_spec; [exact Hu|apply N_to_dec_pad_digits|].
  intro E. pose proof (N_to_dec_pad_length_pos class_seq_width n) as Hl. rewrite E in Hl. cbn in Hl. lia.
Qed.

(* ---------- injectivity ---------- *)

Theorem format_class_id_inj a n a' n' :
  rmatch re_credit_type_abbrev a = true -> rmatch re_credit_type_abbrev a' = true ->
  format_class_id a n = format_class_id a' n' -> a = a' /\ n = n'.
Proof.
  intros Ha Ha' E.
  pose proof (get_credit_type_abbrev_from_class_id_format a n Ha) as P.
  pose proof (get_credit_type_abbrev_from_class_id_format a' n' Ha') as P'.
  rewrite E in P. rewrite P' in P. injection P as <-. split; [reflexivity|].
  unfold format_class_id in E. apply app_inv_head in E. apply N_to_dec_pad_inj in E. exact E.
Qed.

Theorem format_project_id_inj c n c' n' :
  validate_class_id c = true -> validate_class_id c' = true ->
  format_project_id c n = format_project_id c' n' -> c = c' /\ n = n'.
Proof.
  intros Hc Hc' E.
  pose proof (get_class_id_from_project_id_format c n Hc) as P.
  pose proof (get_class_id_from_project_id_format c' n' Hc') as P'.
  rewrite E in P. rewrite P' in P. subst c'. split; [reflexivity|].
  unfold format_project_id in E. apply app_inv_head in E. injection E as E. apply N_to_dec_pad_inj in E. exact E.
Qed.

(* equal denoms: equal project, equal sequence number and equal UTC *dates* (not instants) *)
Theorem format_batch_denom_inj p n s e p' n' s' e' :
  validate_project_id p = true -> validate_project_id p' = true ->
  ts_valid s = true -> ts_valid e = true -> ts_valid s' = true -> ts_valid e' = true ->
  format_batch_denom p n s e = format_batch_denom p' n' s' e' ->
  p = p' /\ n = n' /\ ts_date s = ts_date s' /\ ts_date e = ts_date e'.
Proof.
  intros Hp Hp' Hs He Hs' He' E.
  pose proof (get_project_id_from_batch_denom_format p n s e Hp) as P.
  pose proof (get_project_id_from_batch_denom_format p' n' s' e' Hp') as P'.
  rewrite E in P. rewrite P' in P. subst p'. split; [reflexivity|].
  unfold format_batch_denom, batch_date_layout, format_layout in E.
  apply app_inv_head in E. injection E as E.
  destruct (format_yyyymmdd_valid s Hs) as [Ls _]. destruct (format_yyyymmdd_valid s' Hs') as [Ls' _].
  destruct (format_yyyymmdd_valid e He) as [Le _]. destruct (format_yyyymmdd_valid e' He') as [Le' _].
  apply app_eq_length_inv in E; [|congruence]. destruct E as [E1 E]. injection E as E.
  apply app_eq_length_inv in E; [|congruence]. destruct E as [E2 E]. injection E as E.
  apply N_to_dec_pad_inj in E.
  split; [exact E|]. split; apply format_yyyymmdd_inj; assumption.
Qed.

(* ---------- prefix scans ---------- *)

Lemma app_sep_inj (c c' X Y : bytes) : idchars c -> idchars c' ->
  c ++ x2d :: X = c' ++ x2d :: Y -> c = c' /\ X = Y.
Proof.
  intros Hc. revert c'. induction Hc as [|x c Hx _ IH]; intros c' Hc' E.
  - destruct Hc' as [|y c' Hy _].
    + cbn in E. injection E as ->. tauto.
    + cbn in E. injection E as E _. destruct Hy as [_ [Hy _]]. congruence.
  - destruct Hc' as [|y c' Hy Hc'].
    + cbn in E. injection E as E _. destruct Hx as [_ [Hx _]]. congruence.
    + cbn in E. injection E as -> E. destruct (IH c' Hc' E) as [-> ->]. tauto.
Qed.

Lemma has_prefix_sep_app (c c' X Y : bytes) : idchars c -> idchars c' ->
  has_prefix (c ++ x2d :: X) (c' ++ x2d :: Y) = true <-> (c = c' /\ has_prefix X Y = true).
Proof.
  intros Hc. revert c'. induction Hc as [|x c Hx _ IH]; intros c' Hc'.
  - destruct Hc' as [|y c' Hy _].
    + cbn. tauto.
    + cbn [app has_prefix]. destruct Hy as [_ [Hy _]].
      destruct (Byte.eqb x2d y) eqn:E; [apply byte_eqb_eq in E; congruence|].
      cbn. split; [discriminate|]. intros [H _]. discriminate H.
  - destruct Hc' as [|y c' Hy Hc'].
    + cbn [app has_prefix]. destruct Hx as [_ [Hx _]].
      destruct (Byte.eqb x x2d) eqn:E; [apply byte_eqb_eq in E; congruence|].
      cbn. split; [discriminate|]. intros [H _]. discriminate H.
    + cbn [app has_prefix]. rewrite andb_true_iff, byte_eqb_eq, (IH c' Hc'). split.
      * intros [-> [-> H]]. split; [reflexivity|exact H].
      * intros [E H]. injection E as -> ->. tauto.
Qed.

(* The prefix lemma behind the BatchesByClass query (C01 vs C011): on a valid denom, the scan
   for classID + "-" selects exactly the denoms whose embedded class id is classID. *)
Theorem class_prefix_of_denom c d :
  validate_class_id c = true -> validate_batch_denom d = true ->
  (has_prefix (c ++ [x2d]) d = true <-> get_class_id_from_batch_denom d = c).
Proof.
  intros Hc Hd. apply validate_class_id_spec, is_class_id_idchars in Hc. apply validate_batch_denom_spec in Hd.
  destruct (batch_denom_components d Hd) as [c' [ps [rest [-> [Hc' [_ [_ [E1 _]]]]]]]].
  rewrite E1. rewrite (has_prefix_sep_app c c' [] _ Hc (is_class_id_idchars _ Hc')). cbn [has_prefix].
  split; [intros [-> _]; reflexivity|intros ->; tauto].
Qed.

Theorem class_prefix_of_formatted_denom c c' k n s e :
  validate_class_id c = true -> validate_class_id c' = true ->
  (has_prefix (c ++ [x2d]) (format_batch_denom (format_project_id c' k) n s e) = true <-> c = c').
Proof.
  intros Hc Hc'. apply validate_class_id_spec, is_class_id_idchars in Hc.
  apply validate_class_id_spec, is_class_id_idchars in Hc'.
  unfold format_batch_denom, format_project_id, id_separator. rewrite <- app_assoc. cbn [app].
  rewrite (has_prefix_sep_app c c' [] _ Hc Hc'). cbn [has_prefix]. tauto.
Qed.

(* same for project ids of a class (C01 vs C011) ... *)
Theorem class_prefix_of_formatted_project c c' k :
  validate_class_id c = true -> validate_class_id c' = true ->
  (has_prefix (c ++ [x2d]) (format_project_id c' k) = true <-> c = c').
Proof.
  intros Hc Hc'. apply validate_class_id_spec, is_class_id_idchars in Hc.
  apply validate_class_id_spec, is_class_id_idchars in Hc'.
  unfold format_project_id, id_separator.
  rewrite (has_prefix_sep_app c c' [] _ Hc Hc'). cbn [has_prefix]. tauto.
Qed.

(* ... and for denoms of a project (C01-001 vs C01-0011) *)
Theorem project_prefix_of_denom p d :
  validate_project_id p = true -> validate_batch_denom d = true ->
  (has_prefix (p ++ [x2d]) d = true <-> get_project_id_from_batch_denom d = p).
Proof.
  intros Hp Hd. apply validate_project_id_spec in Hp. apply validate_batch_denom_spec in Hd.
  destruct Hp as [c [ds [-> [Hc [Hds _]]]]].
  destruct (batch_denom_components d Hd) as [c' [ps [rest [-> [Hc' [Hps [_ [_ E2]]]]]]]].
  rewrite E2. rewrite <- app_assoc. cbn [app].
  rewrite (has_prefix_sep_app c c' _ _ (is_class_id_idchars _ Hc) (is_class_id_idchars _ Hc')).
  rewrite (has_prefix_sep_app ds ps [] _ (all_digits_idchars _ Hds) (all_digits_idchars _ Hps)). cbn [has_prefix].
  split; [intros [-> [-> _]]; reflexivity|]. intro E.
  apply app_sep_inj in E; [|apply is_class_id_idchars, Hc'|apply is_class_id_idchars, Hc].
  destruct E as [-> ->]. tauto.
Qed.

(* ---------- exponent prefixes ---------- *)

Lemma lookup_N_In {A} k (m : list (N * A)) v : lookup_N k m = Some v -> In (k, v) m.
Proof.
  induction m as [|[k' v'] m IH]; cbn [lookup_N]; [discriminate|].
  destruct (N.eqb k k') eqn:E.
  - apply N.eqb_eq in E. subst k'. intro H. injection H as ->. left. reflexivity.
  - intro H. right. exact (IH H).
Qed.

(* checked by computation on the generated map: prefixes are at most one lowercase letter and
   pairwise distinct *)
Definition prefix_map_ok : bool :=
  forallb (fun x =>
    Nat.leb (length (snd x)) 1 && forallb is_lower (snd x) &&
    forallb (fun y => implb (bytes_eqb (snd x) (snd y)) (N.eqb (fst x) (fst y))) exponent_prefix_map)
  exponent_prefix_map.

Lemma prefix_map_ok_true : prefix_map_ok = true.
Proof. vm_compute. reflexivity. Qed.

Lemma exponent_prefix_shape e p : exponent_to_prefix e = Some p -> (length p <= 1)%nat /\ all_lower p.
Proof.
  intro H. apply lookup_N_In in H. pose proof prefix_map_ok_true as K. unfold prefix_map_ok in K.
  rewrite forallb_forall in K. specialize (K _ H). cbn [fst snd] in K.
  rewrite !andb_true_iff in K. destruct K as [[K1 K2] _]. apply Nat.leb_le in K1. split; [exact K1|].
  rewrite forallb_forall in K2. apply Forall_forall. exact K2.
Qed.

Theorem exponent_prefix_inj e e' p :
  exponent_to_prefix e = Some p -> exponent_to_prefix e' = Some p -> e = e'.
Proof.
  intros H H'. apply lookup_N_In in H. apply lookup_N_In in H'.
  pose proof prefix_map_ok_true as K. unfold prefix_map_ok in K.
  rewrite forallb_forall in K. specialize (K _ H). cbn [fst snd] in K.
  rewrite !andb_true_iff in K. destruct K as [_ K]. rewrite forallb_forall in K. specialize (K _ H').
  cbn [fst snd] in K. rewrite bytes_eqb_refl in K. cbn [implb] in K. apply N.eqb_eq in K. exact K.
Qed.

(* ---------- basket names and denoms ---------- *)

Definition is_basket_name (s : bytes) : Prop :=
  exists c r, s = c :: r /\ is_alpha c = true /\ Forall (fun x => is_alnum x = true) r /\ (2 <= length r <= 7)%nat.

Lemma matches_basket_name s : matches re_basket_name s <-> is_basket_name s.
Proof.
  unfold re_basket_name, is_basket_name. rewrite matches_cat. split.
  - intros [s1 [r [-> [H1 H2]]]]. apply matches_class in H1. destruct H1 as [c [-> Hc]].
    rewrite in_ranges_alpha in Hc. apply matches_rep_class in H2.
    rewrite (all_in_ext _ is_alnum r in_ranges_alnum) in H2. exists c, r. tauto.
  - intros [c [r [-> [Hc [Hr Hl]]]]]. exists [c], r. split; [reflexivity|]. split.
    + apply matches_class. exists c. split; [reflexivity|]. rewrite in_ranges_alpha. exact Hc.
    + apply matches_rep_class. rewrite (all_in_ext _ is_alnum r in_ranges_alnum). tauto.
Qed.

Lemma validate_basket_name_spec s : validate_basket_name s = true <-> is_basket_name s.
Proof.
  unfold validate_basket_name. rewrite validate_with_spec, rmatch_correct, matches_basket_name.
  split; [tauto|]. intro H. split; [|exact H]. destruct H as [c [r [-> _]]]. discriminate.
Qed.

Lemma matches_dot_sep : matches re_dot [x2e].
Proof. apply rmatch_correct. vm_compute. reflexivity. Qed.

(* "eco" "." <1-4 letters> "." <basket name> is accepted by ValidateBasketDenom *)
Lemma basket_denom_matches mid name :
  (1 <= length mid <= 4)%nat -> Forall (fun c => is_alpha c = true) mid -> is_basket_name name ->
  validate_basket_denom (basket_denom_prefix ++ basket_denom_separator :: mid ++ basket_denom_separator :: name) = true.
Proof.
  intros Hl Hm Hn. unfold validate_basket_denom. apply validate_with_spec. split; [discriminate|].
  apply rmatch_correct. unfold re_basket_denom, basket_denom_prefix, basket_denom_separator. cbn [app].
  apply matches_cat_chr. eexists. split; [reflexivity|].
  apply matches_cat_chr. eexists. split; [reflexivity|].
  apply matches_cat_chr. eexists. split; [reflexivity|].
  apply matches_cat. exists [x2e], (mid ++ x2e :: name). split; [reflexivity|]. split; [exact matches_dot_sep|].
  apply matches_cat. exists mid, (x2e :: name). split; [reflexivity|]. split.
  { apply matches_rep_class. rewrite (all_in_ext _ is_alpha mid in_ranges_alpha). tauto. }
  apply matches_cat. exists [x2e], name. split; [reflexivity|]. split; [exact matches_dot_sep|].
  apply matches_basket_name in Hn. exact Hn.
Qed.

Lemma all_upper_alpha s : all_upper s -> Forall (fun c => is_alpha c = true) s.
Proof. intro H. eapply Forall_impl; [|exact H]. intros c Hc. unfold is_alpha. cbv beta in Hc. rewrite Hc. reflexivity. Qed.

Lemma all_lower_alpha s : all_lower s -> Forall (fun c => is_alpha c = true) s.
Proof. intro H. eapply Forall_impl; [|exact H]. intros c Hc. unfold is_alpha. cbv beta in Hc. rewrite Hc. apply orb_true_r. Qed.

(* For a valid basket name, a valid credit type abbreviation and every exponent of the prefix map,
   FormatBasketDenom succeeds and both the denom and the display denom pass ValidateBasketDenom. *)
Theorem format_basket_denom_valid name a e p :
  validate_basket_name name = true -> rmatch re_credit_type_abbrev a = true ->
  exponent_to_prefix e = Some p ->
  exists d dd, format_basket_denom name a e = Some (d, dd) /\
    validate_basket_denom d = true /\ validate_basket_denom dd = true.
Proof.
  intros Hn Ha Hp. apply validate_basket_name_spec in Hn. apply abbrev_spec in Ha. destruct Ha as [Hal Hau].
  destruct (exponent_prefix_shape e p Hp) as [Hpl Hplow].
  unfold format_basket_denom. rewrite Hp. eexists; eexists. split; [reflexivity|]. split.
  - rewrite app_assoc. apply basket_denom_matches; [rewrite app_length; lia| |exact Hn].
    apply Forall_app. split; [apply all_lower_alpha, Hplow|apply all_upper_alpha, Hau].
  - apply basket_denom_matches; [lia|apply all_upper_alpha, Hau|exact Hn].
Qed.

Theorem format_basket_denom_none name a e :
  format_basket_denom name a e = None <-> exponent_to_prefix e = None.
Proof. unfold format_basket_denom. destruct (exponent_to_prefix e); split; congruence. Qed.

Lemma app_sep_inj_gen (sep : byte) (c c' X Y : bytes) :
  Forall (fun x => x <> sep) c -> Forall (fun x => x <> sep) c' ->
  c ++ sep :: X = c' ++ sep :: Y -> c = c' /\ X = Y.
Proof.
  intros Hc. revert c'. induction Hc as [|x c Hx _ IH]; intros c' Hc' E.
  - destruct Hc' as [|y c' Hy _].
    + cbn in E. injection E as ->. tauto.
    + cbn in E. injection E as E _. congruence.
  - destruct Hc' as [|y c' Hy Hc'].
    + cbn in E. injection E as E _. congruence.
    + cbn in E. injection E as -> E. destruct (IH c' Hc' E) as [-> ->]. tauto.
Qed.

Lemma lower_upper_split p p' a a' :
  all_lower p -> all_lower p' -> all_upper a -> all_upper a' -> a <> [] -> a' <> [] ->
  p ++ a = p' ++ a' -> p = p' /\ a = a'.
Proof.
  intros Hp. revert p'. induction Hp as [|x p Hx _ IH]; intros p' Hp' Ha Ha' Hne Hne' E.
  - destruct Hp' as [|y p' Hy _]; [tauto|]. exfalso. cbn in E.
    destruct a as [|z a]; [congruence|]. injection E as -> _. inversion Ha as [|? ? Hz _]; subst.
    rewrite (upper_not_lower _ Hz) in Hy. discriminate Hy.
  - destruct Hp' as [|y p' Hy Hp'].
    + exfalso. cbn in E. destruct a' as [|z a']; [congruence|]. injection E as -> _.
      inversion Ha' as [|? ? Hz _]; subst. rewrite (upper_not_lower _ Hz) in Hx. discriminate Hx.
    + cbn in E. injection E as -> E. destruct (IH p' Hp' Ha Ha' Hne Hne' E) as [-> ->]. tauto.
Qed.

(* The basket denom determines (name, credit type abbreviation, exponent), for valid (uppercase)
   abbreviations and names without '.', in particular valid names.  With a lowercase "abbreviation"
   it would not: ("NCT","dC",0) and ("NCT","C",1) both give eco.dC.NCT. *)
Theorem format_basket_denom_inj name a e name' a' e' d dd dd' :
  rmatch re_credit_type_abbrev a = true -> rmatch re_credit_type_abbrev a' = true ->
  format_basket_denom name a e = Some (d, dd) -> format_basket_denom name' a' e' = Some (d, dd') ->
  name = name' /\ a = a' /\ e = e'.
Proof.
  intros Ha Ha' H H'. apply abbrev_spec in Ha. apply abbrev_spec in Ha'.
  unfold format_basket_denom in H, H'.
  destruct (exponent_to_prefix e) as [p|] eqn:Hp; [|discriminate]. destruct (exponent_to_prefix e') as [p'|] eqn:Hp'; [|discriminate].
  injection H as H _. injection H' as H' _. rewrite <- H' in H. clear H'.
  injection H as H. rewrite !app_assoc in H.
  destruct (exponent_prefix_shape e p Hp) as [_ Hl]. destruct (exponent_prefix_shape e' p' Hp') as [_ Hl'].
  destruct Ha as [Hlen Hu]. destruct Ha' as [Hlen' Hu'].
  assert (Hns : forall q u, all_lower q -> all_upper u -> Forall (fun x => x <> basket_denom_separator) (q ++ u)).
  { intros q u Hq Hu0. apply Forall_app. split; (eapply Forall_impl; [|eassumption]); intros c Hc; cbv beta in Hc.
    - apply lower_idchar in Hc. destruct Hc as [_ [_ Hc]]. exact Hc.
    - apply upper_idchar in Hc. destruct Hc as [_ [_ Hc]]. exact Hc. }
  apply app_sep_inj_gen in H; [|apply Hns; assumption|apply Hns; assumption].
  destruct H as [H ->]. split; [reflexivity|].
  apply lower_upper_split in H; try assumption.
  - destruct H as [-> ->]. split; [reflexivity|]. exact (exponent_prefix_inj _ _ _ Hp Hp').
  - intros ->. cbn in Hlen. lia.
  - intros ->. cbn in Hlen'. lia.
Qed.

(* ---------- statements phrased with the chain's own validators (used by Properties/C14pure.v) ---------- *)

Lemma abbrev_valid_rmatch a : validate_credit_type_abbrev a = true -> rmatch re_credit_type_abbrev a = true.
Proof. unfold validate_credit_type_abbrev. rewrite validate_with_spec. tauto. Qed.

Theorem class_id_valid a n :
  validate_credit_type_abbrev a = true -> validate_class_id (format_class_id a n) = true.
Proof. intro H. apply format_class_id_valid, abbrev_valid_rmatch, H. Qed.

Theorem abbrev_recovered a n :
  validate_credit_type_abbrev a = true ->
  get_credit_type_abbrev_from_class_id (format_class_id a n) = Some a.
Proof. intro H. apply get_credit_type_abbrev_from_class_id_format, abbrev_valid_rmatch, H. Qed.

Theorem class_id_injective a n a' n' :
  validate_credit_type_abbrev a = true -> validate_credit_type_abbrev a' = true ->
  format_class_id a n = format_class_id a' n' -> a = a' /\ n = n'.
Proof. intros H H'. apply format_class_id_inj; apply abbrev_valid_rmatch; assumption. Qed.

Theorem basket_denom_valid name a e p :
  validate_basket_name name = true -> validate_credit_type_abbrev a = true ->
  exponent_to_prefix e = Some p ->
  exists d dd, format_basket_denom name a e = Some (d, dd) /\
    validate_basket_denom d = true /\ validate_basket_denom dd = true.
Proof. intros Hn Ha. apply format_basket_denom_valid; [exact Hn|apply abbrev_valid_rmatch, Ha]. Qed.

Theorem basket_denom_injective name a e name' a' e' d dd dd' :
  validate_credit_type_abbrev a = true -> validate_credit_type_abbrev a' = true ->
  format_basket_denom name a e = Some (d, dd) -> format_basket_denom name' a' e' = Some (d, dd') ->
  name = name' /\ a = a' /\ e = e'.
Proof. intros H H'. apply format_basket_denom_inj; apply abbrev_valid_rmatch; assumption. Qed.

(* whole chain: abbreviation -> class id -> project id -> denom, everything validates and every
   parser returns the component it was built from *)
Theorem id_chain a cs ps bs s e :
  validate_credit_type_abbrev a = true -> ts_valid s = true -> ts_valid e = true ->
  let c := format_class_id a cs in
  let p := format_project_id c ps in
  let d := format_batch_denom p bs s e in
  validate_class_id c = true /\ validate_project_id p = true /\ validate_batch_denom d = true /\
  get_credit_type_abbrev_from_class_id c = Some a /\
  get_class_id_from_project_id p = c /\
  get_class_id_from_batch_denom d = c /\
  get_project_id_from_batch_denom d = p.
Proof.
  intros Ha Hs He c p d.
  assert (Hc : validate_class_id c = true) by (apply class_id_valid, Ha).
  assert (Hp : validate_project_id p = true) by (apply format_project_id_valid, Hc).
  split; [exact Hc|]. split; [exact Hp|]. split; [apply format_batch_denom_valid; assumption|].
  split; [apply abbrev_recovered, Ha|]. split; [apply get_class_id_from_project_id_format, Hc|].
  split; [apply get_class_id_from_batch_denom_format, Hc|apply get_project_id_from_batch_denom_format, Hp].
Qed.
