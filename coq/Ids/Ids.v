(* Executable model of the identifier formats of x/ecocredit (pure half of property C14):
   base/utils.go (Format*/Validate*/Get*From*, ExponentToPrefix), basket/utils.go
   (FormatBasketDenom, ValidateBasketName/Denom), the origin-tx and eth-address regexes.
   Model file: definitions only.  Theorems are in IdsProps.v; constants (regexes, widths, layout,
   prefix map) come from Generated/IdConsts.v, which tools/extract regenerates from the Go source.

   Strings are byte strings.  Sequence numbers are [N] (Go: uint64; nothing here depends on the
   bound).  Dates are protobuf timestamps [ts]. *)
From Coq Require Import List NArith ZArith Bool Strings.Byte.
Require Import Regen.Base.Bytes Regen.Base.Regex Regen.Base.Calendar Regen.Generated.IdConsts.
Import ListNotations.

(* ---------- formatters ---------- *)

(* fmt.Sprintf("%s%02d", creditTypeAbbreviation, classSeqNo) *)
Definition format_class_id (abbrev : bytes) (seq : N) : bytes :=
  abbrev ++ N_to_dec_pad class_seq_width seq.

(* fmt.Sprintf("%s-%03d", classID, projectSeqNo) *)
Definition format_project_id (class_id : bytes) (seq : N) : bytes :=
  class_id ++ id_separator :: N_to_dec_pad project_seq_width seq.

(* fmt.Sprintf("%s-%s-%s-%03d", projectID, start.UTC().Format(L), end.UTC().Format(L), batchSeqNo) *)
Definition format_batch_denom (project_id : bytes) (seq : N) (start_date end_date : ts) : bytes :=
  project_id ++ id_separator :: format_layout batch_date_layout start_date
             ++ id_separator :: format_layout batch_date_layout end_date
             ++ id_separator :: N_to_dec_pad batch_seq_width seq.

(* ---------- validators ---------- *)

(* if s == "" { return err }; if re.FindStringSubmatch(s) == nil { return err }; return nil *)
Definition validate_with (r : re) (s : bytes) : bool :=
  match s with [] => false | _ :: _ => rmatch r s end.

Definition validate_credit_type_abbrev : bytes -> bool := validate_with re_credit_type_abbrev.
Definition validate_class_id : bytes -> bool := validate_with re_class_id.
Definition validate_project_id : bytes -> bool := validate_with re_project_id.
Definition validate_batch_denom : bytes -> bool := validate_with re_batch_denom.
Definition validate_jurisdiction : bytes -> bool := validate_with re_jurisdiction.
Definition validate_basket_name : bytes -> bool := validate_with re_basket_name.
Definition validate_basket_denom : bytes -> bool := validate_with re_basket_denom.
(* OriginTx.Validate: id == "" rejected, then reOriginTxID.MatchString(id); same for source *)
Definition validate_origin_tx_id : bytes -> bool := validate_with re_origin_tx_id.
Definition validate_origin_tx_source : bytes -> bool := validate_with re_origin_tx_source.
(* eth.IsValidAddress: MatchString only, no empty pre-check (the regex rejects "" anyway) *)
Definition is_valid_eth_address (s : bytes) : bool := rmatch re_eth_address s.
Definition is_valid_eth_tx_hash (s : bytes) : bool := rmatch re_eth_tx_hash s.

(* ---------- Go's `for _, r := range s` and strings.Builder.WriteRune ---------- *)

Definition in_rng (lo hi : N) (c : byte) : bool := (lo <=? byte_N c)%N && (byte_N c <=? hi)%N.

(* Width of the well-formed UTF-8 sequence at the head of [s]; [None] when Go's decoder yields
   (RuneError, 1): invalid lead byte, bad/missing continuation, overlong form, surrogate,
   or above U+10FFFF (utf8.DecodeRuneInString's first/acceptRanges tables). *)
Definition utf8_width (s : bytes) : option nat :=
  match s with
  | [] => None
  | c0 :: r =>
      if (byte_N c0 <? 128)%N then Some 1%nat
      else if in_rng 194 223 c0 then
        match r with
        | c1 :: _ => if in_rng 128 191 c1 then Some 2%nat else None
        | _ => None
        end
      else if in_rng 224 239 c0 then
        let lo := if Byte.eqb c0 xe0 then 160%N else 128%N in
        let hi := if Byte.eqb c0 xed then 159%N else 191%N in
        match r with
        | c1 :: c2 :: _ => if in_rng lo hi c1 && in_rng 128 191 c2 then Some 3%nat else None
        | _ => None
        end
      else if in_rng 240 244 c0 then
        let lo := if Byte.eqb c0 xf0 then 144%N else 128%N in
        let hi := if Byte.eqb c0 xf4 then 143%N else 191%N in
        match r with
        | c1 :: c2 :: c3 :: _ =>
            if in_rng lo hi c1 && in_rng 128 191 c2 && in_rng 128 191 c3 then Some 4%nat else None
        | _ => None
        end
      else None
  end.

(* UTF-8 encoding of utf8.RuneError (U+FFFD) *)
Definition rune_error_utf8 : bytes := [xef; xbf; xbd].

(* The runes of [s] in iteration order, each given by the bytes WriteRune appends for it:
   a well-formed sequence re-encodes to itself, anything else decodes to RuneError (width 1)
   and is written as EF BF BD.  [skip] counts bytes already emitted as part of the current rune. *)
Fixpoint runes_go (skip : nat) (s : bytes) : list bytes :=
  match s with
  | [] => []
  | _ :: r =>
      match skip with
      | S k => runes_go k r
      | O =>
          match utf8_width s with
          | Some w => firstn w s :: runes_go (pred w) r
          | None => rune_error_utf8 :: runes_go 0 r
          end
      end
  end.
Definition runes (s : bytes) : list bytes := runes_go 0 s.

(* r == '-' *)
Definition is_sep_rune (r : bytes) : bool := bytes_eqb r [id_separator].

(* ---------- parsers (transcribed loops) ---------- *)

(* for _, r := range s { if r != '-' { sb.WriteRune(r); continue }; break } *)
Fixpoint until_sep (rs : list bytes) : bytes :=
  match rs with
  | [] => []
  | r :: rs' => if negb (is_sep_rune r) then r ++ until_sep rs' else []
  end.

Definition get_class_id_from_project_id (project_id : bytes) : bytes := until_sep (runes project_id).
Definition get_class_id_from_batch_denom (denom : bytes) : bytes := until_sep (runes denom).

(* c := 0; for _, r := range denom { if r == '-' { c++ }; if r != '-' || c != 2 { write; continue }; break } *)
Fixpoint until_second_sep (c : nat) (rs : list bytes) : bytes :=
  match rs with
  | [] => []
  | r :: rs' =>
      let c' := if is_sep_rune r then S c else c in
      if negb (is_sep_rune r) || negb (Nat.eqb c' 2) then r ++ until_second_sep c' rs' else []
  end.

Definition get_project_id_from_batch_denom (denom : bytes) : bytes := until_second_sep 0 (runes denom).

(* for _, r := range classID { if !unicode.IsNumber(r) { write; continue }; break }
   Domain guard: unicode.IsNumber is modelled on ASCII only ('0'..'9').  [None] = a byte >= 0x80
   is reached before the loop breaks: outside the model's domain (no claim is made). *)
Fixpoint get_credit_type_abbrev_from_class_id (class_id : bytes) : option bytes :=
  match class_id with
  | [] => Some []
  | c :: r =>
      if (128 <=? byte_N c)%N then None
      else if is_digit c then Some []
      else option_map (cons c) (get_credit_type_abbrev_from_class_id r)
  end.

(* ---------- exponent prefixes and basket denoms ---------- *)

Fixpoint lookup_N {A : Type} (k : N) (m : list (N * A)) : option A :=
  match m with
  | [] => None
  | (k', v) :: m' => if N.eqb k k' then Some v else lookup_N k m'
  end.

(* ExponentToPrefix: error iff the exponent is not a key of exponentPrefixMap *)
Definition exponent_to_prefix (exponent : N) : option bytes := lookup_N exponent exponent_prefix_map.

(* FormatBasketDenom(name, creditTypeAbbrev, exponent) = (denom, displayDenom) or an error:
   denom        = "eco" "." <prefix> <abbrev> "." <name>
   displayDenom = "eco" "." <abbrev> "." <name> *)
Definition format_basket_denom (name abbrev : bytes) (exponent : N) : option (bytes * bytes) :=
  match exponent_to_prefix exponent with
  | None => None
  | Some p =>
      Some (basket_denom_prefix ++ basket_denom_separator :: p ++ abbrev ++ basket_denom_separator :: name,
            basket_denom_prefix ++ basket_denom_separator :: abbrev ++ basket_denom_separator :: name)
  end.
