(* PutUvarint is injective and prefix-free; it needs between 1 and [fuel] bytes. *)
From Coq Require Import List NArith Lia Bool Strings.Byte.
Require Import Regen.Base.Bytes Regen.Data.BytesExt Regen.Data.Varint Regen.Data.Base58Props
  Regen.Generated.DataConsts.
Import ListNotations.
Local Open Scope N_scope.

Lemma trunc_inj x y : x < 256 -> y < 256 -> byte_of_N_trunc x = byte_of_N_trunc y -> x = y.
Proof.
  intros Hx Hy H. apply (f_equal byte_N) in H. rewrite !byte_N_trunc in H by assumption. exact H.
Qed.

(* no encoding is a proper prefix of another one *)
Lemma uvarint_fuel_prefix_free : forall f1 f2 x y l1 l2 r1 r2,
  uvarint_fuel f1 x = Some l1 -> uvarint_fuel f2 y = Some l2 -> l1 ++ r1 = l2 ++ r2 -> x = y.
Proof.
  induction f1 as [|f1 IH]; intros f2 x y l1 l2 r1 r2 H1 H2 Happ; [discriminate H1|].
  destruct f2 as [|f2]; [discriminate H2|].
  cbn [uvarint_fuel] in H1, H2.
  assert (Hmx : x mod 128 < 128) by (apply N.mod_lt; lia).
  assert (Hmy : y mod 128 < 128) by (apply N.mod_lt; lia).
  assert (Hdx : x = 128 * (x / 128) + x mod 128) by (apply N.div_mod; lia).
  assert (Hdy : y = 128 * (y / 128) + y mod 128) by (apply N.div_mod; lia).
  (* lia does not cope with the N.modulo terms themselves *)
  remember (x mod 128) as mx eqn:Emx. remember (y mod 128) as my eqn:Emy.
  remember (x / 128) as qx eqn:Eqx. remember (y / 128) as qy eqn:Eqy.
  clear Emx Emy Eqx Eqy.
  destruct (x <? 128) eqn:Ex; destruct (y <? 128) eqn:Ey;
    try apply N.ltb_lt in Ex; try apply N.ltb_lt in Ey;
    try apply N.ltb_ge in Ex; try apply N.ltb_ge in Ey.
  - injection H1 as <-. injection H2 as <-. cbn [app] in Happ. injection Happ as Hh _.
    apply trunc_inj in Hh; lia.
  - injection H1 as <-. destruct (uvarint_fuel f2 qy); [|discriminate H2].
    injection H2 as <-. cbn [app] in Happ. injection Happ as Hh _. apply trunc_inj in Hh; lia.
  - injection H2 as <-. destruct (uvarint_fuel f1 qx); [|discriminate H1].
    injection H1 as <-. cbn [app] in Happ. injection Happ as Hh _. apply trunc_inj in Hh; lia.
  - destruct (uvarint_fuel f1 qx) as [t1|] eqn:E1; [|discriminate H1].
    destruct (uvarint_fuel f2 qy) as [t2|] eqn:E2; [|discriminate H2].
    injection H1 as <-. injection H2 as <-. cbn [app] in Happ. injection Happ as Hh Ht.
    apply trunc_inj in Hh; [|lia|lia].
    assert (Hq : qx = qy) by (eapply IH; eassumption).
    lia.
Qed.

Lemma uvarint_fuel_injective f1 f2 x y l :
  uvarint_fuel f1 x = Some l -> uvarint_fuel f2 y = Some l -> x = y.
Proof. intros H1 H2. exact (uvarint_fuel_prefix_free _ _ _ _ _ _ [] [] H1 H2 eq_refl). Qed.

Lemma uvarint_fuel_length : forall f x l, uvarint_fuel f x = Some l ->
  (1 <= List.length l <= f)%nat.
Proof.
  induction f as [|f IH]; intros x l H; [discriminate H|].
  cbn [uvarint_fuel] in H. destruct (x <? 128).
  - injection H as <-. cbn. lia.
  - destruct (uvarint_fuel f (x / 128)) as [t|] eqn:E; [|discriminate H].
    injection H as <-. apply IH in E. cbn [List.length]. lia.
Qed.

Lemma uvarint_fuel_total : forall f x, x < 128 ^ N.of_nat (S f) ->
  exists l, uvarint_fuel (S f) x = Some l.
Proof.
  induction f as [|f IH]; intros x Hx.
  - change (128 ^ N.of_nat 1) with 128 in Hx. cbn [uvarint_fuel].
    apply N.ltb_lt in Hx. rewrite Hx. eauto.
  - remember (S f) as f' eqn:Ef. cbn [uvarint_fuel]. destruct (x <? 128) eqn:Ex; [eauto|].
    assert (Hq : x / 128 < 128 ^ N.of_nat f').
    { apply N.div_lt_upper_bound; [lia|]. rewrite Nat2N.inj_succ, N.pow_succ_r' in Hx. exact Hx. }
    subst f'. destruct (IH _ Hq) as [l Hl]. rewrite Hl. cbn [option_map]. eauto.
Qed.

(* statements about PutUvarint with a MaxVarintLen64 buffer *)
Theorem uvarint_injective x y l : uvarint x = Some l -> uvarint y = Some l -> x = y.
Proof. apply uvarint_fuel_injective. Qed.

Theorem uvarint_prefix_free x y l1 l2 r1 r2 :
  uvarint x = Some l1 -> uvarint y = Some l2 -> l1 ++ r1 = l2 ++ r2 -> x = y.
Proof. apply uvarint_fuel_prefix_free. Qed.

Theorem uvarint_length x l : uvarint x = Some l -> (1 <= List.length l <= 10)%nat.
Proof. intros H. apply uvarint_fuel_length in H. exact H. Qed.

(* every uint64 fits *)
Theorem uvarint_total x : x < 2 ^ 64 -> exists l, uvarint x = Some l.
Proof.
  intros Hx. unfold uvarint. change (N.to_nat max_varint_len64) with 10%nat.
  apply uvarint_fuel_total. change (128 ^ N.of_nat 10) with (2 ^ 70).
  assert (2 ^ 64 < 2 ^ 70) by (apply N.pow_lt_mono_r; lia). lia.
Qed.
