(* Lemmas about the association lists of AList.v and the key equalities of DataMsgs.v. *)
From Coq Require Import List NArith Bool Lia Strings.Byte.
Require Import Regen.Base.Bytes Regen.Data.AList Regen.Data.DataMsgs.
Import ListNotations.

Section AListProps.
  Context {K V : Type}.
  Variable eqb : K -> K -> bool.
  Hypothesis eqb_ok : forall a c, eqb a c = true <-> a = c.

  Lemma eqb_refl k : eqb k k = true.
  Proof. apply eqb_ok. reflexivity. Qed.

  Lemma eqb_neq k k' : k <> k' -> eqb k k' = false.
  Proof. intros Hne. destruct (eqb k k') eqn:E; [|reflexivity]. apply eqb_ok in E. contradiction. Qed.

  Lemma alookup_cons (k k' : K) (v : V) l :
    alookup eqb k ((k', v) :: l) = if eqb k k' then Some v else alookup eqb k l.
  Proof. reflexivity. Qed.

  Lemma alookup_cons_eq (k : K) (v : V) l : alookup eqb k ((k, v) :: l) = Some v.
  Proof. cbn. rewrite eqb_refl. reflexivity. Qed.

  Lemma alookup_cons_neq (k k' : K) (v : V) l : k <> k' -> alookup eqb k ((k', v) :: l) = alookup eqb k l.
  Proof. intros Hne. cbn. rewrite (eqb_neq _ _ Hne). reflexivity. Qed.

  Lemma alookup_Some_In (k : K) (v : V) l : alookup eqb k l = Some v -> In (k, v) l.
  Proof.
    induction l as [|[k' v'] l IH]; cbn; [discriminate|].
    destruct (eqb k k') eqn:E.
    - intros [= ->]. apply eqb_ok in E. subst k'. left. reflexivity.
    - intros Hl. right. apply IH. exact Hl.
  Qed.

  Lemma alookup_None_iff (k : K) (l : list (K * V)) : alookup eqb k l = None <-> ~ In k (map fst l).
  Proof.
    induction l as [|[k' v'] l IH]; cbn.
    - split; [intros _ []|reflexivity].
    - destruct (eqb k k') eqn:E.
      + apply eqb_ok in E. subst k'. split; [discriminate|]. intros Hn. exfalso. apply Hn. left. reflexivity.
      + rewrite IH. split.
        * intros Hn [Heq | Hin]; [|exact (Hn Hin)]. subst k'. rewrite eqb_refl in E. discriminate.
        * intros Hn Hin. apply Hn. right. exact Hin.
  Qed.

  Lemma alookup_Some_key (k : K) (v : V) l : alookup eqb k l = Some v -> In k (map fst l).
  Proof. intros Hl. apply alookup_Some_In in Hl. apply (in_map fst) in Hl. exact Hl. Qed.

  Lemma In_alookup (k : K) (v : V) l : NoDup (map fst l) -> In (k, v) l -> alookup eqb k l = Some v.
  Proof.
    induction l as [|[k' v'] l IH]; cbn; [intros _ []|].
    intros Hnd [Heq | Hin].
    - injection Heq as -> ->. rewrite eqb_refl. reflexivity.
    - inversion Hnd as [|? ? Hnotin Hnd']; subst.
      destruct (eqb k k') eqn:E.
      + apply eqb_ok in E. subst k'. exfalso. apply Hnotin. apply (in_map fst) in Hin. exact Hin.
      + apply IH; assumption.
  Qed.

  Lemma In_key_alookup (k : K) (l : list (K * V)) : In k (map fst l) -> exists v, alookup eqb k l = Some v.
  Proof.
    intros Hin. destruct (alookup eqb k l) as [v|] eqn:E; [exists v; reflexivity|].
    apply alookup_None_iff in E. contradiction.
  Qed.

  Lemma amem_true_iff (k : K) (l : list (K * V)) : amem eqb k l = true <-> In k (map fst l).
  Proof.
    unfold amem. destruct (alookup eqb k l) as [v|] eqn:E.
    - split; [intros _; eapply alookup_Some_key; exact E | reflexivity].
    - apply alookup_None_iff in E. split; [discriminate | contradiction].
  Qed.

  (* key-only tables *)
  Lemma smem_true_iff (k : K) (l : list K) : smem eqb k l = true <-> In k l.
  Proof.
    unfold smem. rewrite existsb_exists. split.
    - intros (x & Hin & Hx). apply eqb_ok in Hx. subst x. exact Hin.
    - intros Hin. exists k. split; [exact Hin | apply eqb_refl].
  Qed.

  Lemma smem_false_iff (k : K) (l : list K) : smem eqb k l = false <-> ~ In k l.
  Proof.
    split.
    - intros Hf Hin. apply smem_true_iff in Hin. congruence.
    - intros Hn. destruct (smem eqb k l) eqn:E; [|reflexivity]. apply smem_true_iff in E. contradiction.
  Qed.
End AListProps.

Lemma avalue_taken_true_iff {K V} (p : V -> bool) (l : list (K * V)) :
  avalue_taken p l = true <-> exists v, In v (map snd l) /\ p v = true.
Proof.
  unfold avalue_taken. rewrite existsb_exists. split.
  - intros ([k v] & Hin & Hp). exists v. split; [apply (in_map snd) in Hin; exact Hin | exact Hp].
  - intros (v & Hin & Hp). apply in_map_iff in Hin. destruct Hin as ([k v'] & Hv & Hin). cbn in Hv. subst v'.
    exists (k, v). split; [exact Hin | exact Hp].
Qed.

(* ---------- the key equalities of DataMsgs.v ---------- *)

Lemma att_key_eqb_ok (x y : bytes * addr) : att_key_eqb x y = true <-> x = y.
Proof.
  destruct x as [i a], y as [j c]. unfold att_key_eqb. cbn [fst snd].
  rewrite andb_true_iff, bytes_eqb_eq, N.eqb_eq. split; [intros [-> ->]; reflexivity | intros [= -> ->]; auto].
Qed.

Lemma dr_key_eqb_ok (x y : bytes * N) : dr_key_eqb x y = true <-> x = y.
Proof. exact (att_key_eqb_ok x y). Qed.

Lemma opt_addr_eqb_ok (x y : option addr) : opt_addr_eqb x y = true <-> x = y.
Proof.
  destruct x as [a|], y as [c|]; cbn; try (split; [discriminate | discriminate]); [|split; reflexivity].
  rewrite N.eqb_eq. split; [intros ->; reflexivity | intros [= ->]; reflexivity].
Qed.

Lemma resolver_eqb_ok (x y : resolver) : resolver_eqb x y = true <-> x = y.
Proof.
  destruct x as [u m], y as [u' m']. unfold resolver_eqb. cbn [fst snd].
  rewrite andb_true_iff, bytes_eqb_eq, opt_addr_eqb_ok. split; [intros [-> ->]; reflexivity | intros [= -> ->]; auto].
Qed.

Lemma iri_taken_false_iff (iri : bytes) (ids : list (bytes * bytes)) :
  iri_taken iri ids = false <-> ~ In iri (map snd ids).
Proof.
  unfold iri_taken. destruct (avalue_taken (bytes_eqb iri) ids) eqn:E.
  - apply avalue_taken_true_iff in E. destruct E as (v & Hin & Hv). apply bytes_eqb_eq in Hv. subst v.
    split; [discriminate | contradiction].
  - split; [|reflexivity]. intros _ Hin.
    assert (avalue_taken (bytes_eqb iri) ids = true); [|congruence].
    apply avalue_taken_true_iff. exists iri. split; [exact Hin | apply bytes_eqb_refl].
Qed.

Lemma resolver_taken_false_iff (r : resolver) (rs : list (N * resolver)) :
  resolver_taken r rs = false <-> ~ In r (map snd rs).
Proof.
  unfold resolver_taken. destruct (avalue_taken (resolver_eqb r) rs) eqn:E.
  - apply avalue_taken_true_iff in E. destruct E as (v & Hin & Hv). apply resolver_eqb_ok in Hv. subst v.
    split; [discriminate | contradiction].
  - split; [|reflexivity]. intros _ Hin.
    assert (avalue_taken (resolver_eqb r) rs = true); [|congruence].
    apply avalue_taken_true_iff. exists r. split; [exact Hin | apply resolver_eqb_ok; reflexivity].
Qed.
