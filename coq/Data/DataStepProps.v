(* Every state change of the x/data handlers is a sequence of five kinds of elementary insertions
   ([estep]), each guarded by the absence of the inserted key:

     ES_id        a new DataID row  (id free, iri not yet indexed)
     ES_anchor    a new DataAnchor row for an allocated id, stamped with the block time
     ES_attest    a new DataAttestor row for an allocated id, stamped with the block time
     ES_resolver  a new Resolver row with id = sequence + 1
     ES_register  a new DataResolver row for an allocated id and an existing resolver

   There is no elementary step that removes or overwrites a row: this file shows that [deliver]
   decomposes into such steps (for an arbitrary digest function H); DataInv.v derives the C16
   statements from the shape of the steps alone. *)
From Coq Require Import List ZArith NArith Bool Lia Strings.Byte.
Require Import Regen.Base.Bytes Regen.Base.Calendar Regen.Data.BytesExt Regen.Data.Base58 Regen.Data.Hasher
  Regen.Data.Iri Regen.Data.AList Regen.Data.DataMsgs Regen.Data.DataAListProps Regen.Generated.DataConsts.
Import ListNotations.
Local Open Scope N_scope.

Inductive estep (t : ts) (s : dstate) : dstate -> Prop :=
| ES_id id iri :
    get_data_id id s = None -> iri_taken iri (data_ids s) = false ->
    estep t s (set_data_ids (ainsert id iri (data_ids s)) s)
| ES_anchor id :
    get_anchor id s = None -> In id (map fst (data_ids s)) ->
    estep t s (set_anchors (ainsert id t (anchors s)) s)
| ES_attest id a :
    get_attestor id a s = None -> In id (map fst (data_ids s)) ->
    estep t s (set_attestors (ainsert (id, a) t (attestors s)) s)
| ES_resolver r :
    get_resolver (resolver_seq s + 1) s = None -> resolver_taken r (resolvers s) = false ->
    estep t s (set_resolvers (ainsert (resolver_seq s + 1) r (resolvers s)) (resolver_seq s + 1) s)
| ES_register id rid :
    has_data_resolver id rid s = false -> In id (map fst (data_ids s)) -> In rid (map fst (resolvers s)) ->
    estep t s (set_data_resolvers ((id, rid) :: data_resolvers s) s).

Inductive esteps (t : ts) : dstate -> dstate -> Prop :=
| ESS_refl s : esteps t s s
| ESS_step s1 s2 s3 : estep t s1 s2 -> esteps t s2 s3 -> esteps t s1 s3.

Lemma esteps_one t s s' : estep t s s' -> esteps t s s'.
Proof. intros Hs. eapply ESS_step; [exact Hs | apply ESS_refl]. Qed.

Lemma esteps_trans t s1 s2 s3 : esteps t s1 s2 -> esteps t s2 s3 -> esteps t s1 s3.
Proof.
  intros H12 H23. induction H12 as [s | s1 s2 s2' Hs H12 IH]; [exact H23|].
  eapply ESS_step; [exact Hs | apply IH; exact H23].
Qed.

(* ---------- ToIRI never returns the empty string ---------- *)

Lemma to_iri_raw_nonempty ck r iri : to_iri_raw ck r = Ok iri -> iri <> [].
Proof.
  unfold to_iri_raw. destruct (negb (valid_raw r)); [discriminate|].
  destruct (check_encode _ _ _); [|discriminate]. intros [= <-]. discriminate.
Qed.

Lemma to_iri_graph_nonempty ck g iri : to_iri_graph ck g = Ok iri -> iri <> [].
Proof.
  unfold to_iri_graph. destruct (negb (valid_graph g)); [discriminate|].
  destruct (check_encode _ _ _); [|discriminate]. intros [= <-]. discriminate.
Qed.

Lemma to_iri_nonempty ck ch iri : to_iri ck ch = Ok iri -> iri <> [].
Proof.
  unfold to_iri. destruct (ch_raw ch); [apply to_iri_raw_nonempty|].
  destruct (ch_graph ch); [apply to_iri_graph_nonempty | discriminate].
Qed.

Section Steps.
  Variable H : bytes -> bytes.

  (* ---------- the probe loop ---------- *)
  Lemma probe_spec fuel iri : forall c ids id ids',
    probe H fuel iri c ids = Ok (id, ids') ->
    (ids' = ids /\ alookup bytes_eqb id ids = Some iri) \/
    (ids' = ainsert id iri ids /\ alookup bytes_eqb id ids = None /\ iri_taken iri ids = false).
  Proof.
    induction fuel as [|f IH]; intros c ids id ids'; cbn [probe]; [discriminate|].
    destruct (create_id H iri c) as [id0|e]; [|discriminate].
    destruct (alookup bytes_eqb id0 ids) as [iri'|] eqn:El.
    - destruct (bytes_eqb iri' iri) eqn:Ei.
      + intros [= <- <-]. left. apply bytes_eqb_eq in Ei. subst iri'. split; [reflexivity | exact El].
      + apply IH.
    - destruct (iri_taken iri ids) eqn:Et; [discriminate|].
      intros [= <- <-]. right. repeat split; assumption.
  Qed.

  Lemma get_or_create_spec iri ids id ids' :
    iri <> [] ->
    get_or_create_data_id H iri ids = Ok (id, ids') ->
    (ids' = ids /\ alookup bytes_eqb id ids = Some iri) \/
    (ids' = ainsert id iri ids /\ alookup bytes_eqb id ids = None /\ iri_taken iri ids = false).
  Proof.
    intros Hne. unfold get_or_create_data_id. destruct iri as [|x iri]; [contradiction|]. apply probe_spec.
  Qed.

  Lemma set_data_ids_same s : set_data_ids (data_ids s) s = s.
  Proof. destruct s; reflexivity. Qed.
  Lemma set_data_resolvers_same s : set_data_resolvers (data_resolvers s) s = s.
  Proof. destruct s; reflexivity. Qed.

  (* ---------- anchorAndGetIRI ---------- *)
  Lemma anchor_and_get_iri_spec t iri_r s iri id tstamp s' :
    (forall i, iri_r = Ok i -> i <> []) ->
    anchor_and_get_iri H t iri_r s = Ok (iri, id, tstamp, s') ->
    iri_r = Ok iri /\ esteps t s s' /\ get_data_id id s' = Some iri /\ get_anchor id s' = Some tstamp.
  Proof.
    intros Hne. unfold anchor_and_get_iri. destruct iri_r as [iri0|e]; [|discriminate].
    specialize (Hne iri0 eq_refl).
    destruct (get_or_create_data_id H iri0 (data_ids s)) as [[id0 ids']|e] eqn:Eg; [|discriminate].
    apply (get_or_create_spec _ _ _ _ Hne) in Eg.
    set (s1 := set_data_ids ids' s).
    assert (H1 : esteps t s s1 /\ get_data_id id0 s1 = Some iri0).
    { destruct Eg as [[-> Hl] | (-> & Hl & Ht)].
      - unfold s1. rewrite set_data_ids_same. split; [apply ESS_refl | exact Hl].
      - split; [apply esteps_one; apply ES_id; assumption|].
        unfold s1, get_data_id. cbn. rewrite bytes_eqb_refl. reflexivity. }
    destruct H1 as [H1 Hid].
    unfold anchor_and_get_timestamp. destruct (get_anchor id0 s1) as [t0|] eqn:Ea.
    - intros [= <- <- <- <-]. repeat split; assumption.
    - destruct (negb (ts_valid t)); [discriminate|].
      intros [= <- <- <- <-]. repeat split.
      + eapply esteps_trans; [exact H1|]. apply esteps_one.
        change (estep t s1 (set_anchors (ainsert id0 t (anchors s1)) s1)). apply ES_anchor; [exact Ea|].
        eapply (alookup_Some_key bytes_eqb bytes_eqb_eq). exact Hid.
      + exact Hid.
      + unfold get_anchor. cbn. rewrite bytes_eqb_refl. reflexivity.
  Qed.

  Lemma handle_anchor_spec t ch s s' r :
    handle_anchor H t ch s = Ok (s', r) ->
    exists iri id tstamp, r = RAnchored iri tstamp /\ to_iri_sha ch = Ok iri /\ esteps t s s' /\
                          get_data_id id s' = Some iri /\ get_anchor id s' = Some tstamp.
  Proof.
    unfold handle_anchor.
    destruct (anchor_and_get_iri H t (to_iri_sha ch) s) as [[[[iri id] tstamp] s1]|e] eqn:E; [|discriminate].
    intros [= <- <-]. apply anchor_and_get_iri_spec in E; [|intros i; apply to_iri_nonempty].
    destruct E as (Hi & Hs & Hid & Ha). exists iri, id, tstamp. repeat split; assumption.
  Qed.

  (* ---------- Attest ---------- *)
  Lemma attest_loop_esteps t a : forall chs s iris s' iris',
    attest_loop H t a chs s iris = Ok (s', iris') -> esteps t s s'.
  Proof.
    induction chs as [|g chs IH]; intros s iris s' iris'; cbn [attest_loop].
    - intros [= <- <-]. apply ESS_refl.
    - destruct (anchor_and_get_iri H t (to_iri_graph sha256d_cksum g) s) as [[[[iri id] tstamp] s1]|e] eqn:E; [|discriminate].
      apply anchor_and_get_iri_spec in E; [|intros i; apply to_iri_graph_nonempty].
      destruct E as (_ & Hs & Hid & _).
      destruct (get_attestor id a s1) as [t0|] eqn:Eat.
      + intros Hl. eapply esteps_trans; [exact Hs | eapply IH; exact Hl].
      + intros Hl. eapply esteps_trans; [exact Hs|]. eapply ESS_step; [|eapply IH; exact Hl].
        apply ES_attest; [exact Eat|]. eapply (alookup_Some_key bytes_eqb bytes_eqb_eq). exact Hid.
  Qed.

  (* the IRIs reported by Attest are exactly those whose (id, attestor) row is new *)
  Lemma handle_attest_spec t a chs s s' r :
    handle_attest H t a chs s = Ok (s', r) -> esteps t s s' /\ exists iris, r = RAttested iris t.
  Proof.
    unfold handle_attest. destruct (attest_loop H t a chs s []) as [[s1 iris]|e] eqn:E; [|discriminate].
    intros [= <- <-]. split; [eapply attest_loop_esteps; exact E | exists iris; reflexivity].
  Qed.

  (* ---------- DefineResolver ---------- *)
  Lemma handle_define_resolver_spec t d url pub s s' r :
    handle_define_resolver d url pub s = Ok (s', r) ->
    estep t s s' /\ r = RDefined (resolver_seq s + 1) /\
    get_resolver (resolver_seq s + 1) s' = Some (url, if pub then None else Some d).
  Proof.
    unfold handle_define_resolver. destruct (get_resolver (resolver_seq s + 1) s) eqn:Eg; [discriminate|].
    destruct (resolver_taken _ _) eqn:Et; [discriminate|]. intros [= <- <-]. repeat split.
    - apply ES_resolver; assumption.
    - unfold get_resolver. cbn. rewrite N.eqb_refl. reflexivity.
  Qed.

  (* ---------- RegisterResolver ---------- *)
  Lemma esteps_resolver_kept t s s' : esteps t s s' ->
    forall rid, In rid (map fst (resolvers s)) -> In rid (map fst (resolvers s')).
  Proof.
    induction 1 as [s | s1 s2 s3 Hs _ IH]; intros rid Hin; [exact Hin|]. apply IH.
    destruct Hs; cbn; try exact Hin. right. exact Hin.
  Qed.

  Lemma register_loop_esteps t rid : forall chs s s',
    In rid (map fst (resolvers s)) -> register_loop H t rid chs s = Ok s' -> esteps t s s'.
  Proof.
    induction chs as [|ch chs IH]; intros s s' Hrid; cbn [register_loop].
    - intros [= <-]. apply ESS_refl.
    - destruct (anchor_and_get_iri H t (to_iri_sha ch) s) as [[[[iri id] tstamp] s1]|e] eqn:E; [|discriminate].
      apply anchor_and_get_iri_spec in E; [|intros i; apply to_iri_nonempty].
      destruct E as (_ & Hs & Hid & _).
      assert (Hrid1 : In rid (map fst (resolvers s1))) by (eapply esteps_resolver_kept; eassumption).
      unfold sadd. destruct (smem dr_key_eqb (id, rid) (data_resolvers s1)) eqn:Em.
      + rewrite set_data_resolvers_same. intros Hl. eapply esteps_trans; [exact Hs | eapply IH; eassumption].
      + intros Hl. eapply esteps_trans; [exact Hs|]. eapply ESS_step; [|eapply IH; [|exact Hl]; exact Hrid1].
        apply ES_register; [exact Em | | exact Hrid1]. eapply (alookup_Some_key bytes_eqb bytes_eqb_eq). exact Hid.
  Qed.

  Lemma handle_register_resolver_spec t sg rid chs s s' r :
    handle_register_resolver H t sg rid chs s = Ok (s', r) ->
    esteps t s s' /\ r = RRegistered /\
    exists url manager, get_resolver rid s = Some (url, manager) /\ (forall m, manager = Some m -> m = sg).
  Proof.
    unfold handle_register_resolver. destruct (get_resolver rid s) as [[url manager]|] eqn:Eg; [|discriminate].
    destruct manager as [m|]; cbn [negb].
    - destruct (m =? sg) eqn:Em; cbn [negb]; [|discriminate]. apply N.eqb_eq in Em. subst m.
      destruct (register_loop H t rid chs s) as [s1|e] eqn:El; [|discriminate]. intros [= <- <-]. repeat split.
      + eapply register_loop_esteps; [|exact El]. eapply (alookup_Some_key N.eqb N.eqb_eq). exact Eg.
      + exists url, (Some sg). split; [reflexivity|]. intros m [= ->]. reflexivity.
    - destruct (register_loop H t rid chs s) as [s1|e] eqn:El; [|discriminate]. intros [= <- <-]. repeat split.
      + eapply register_loop_esteps; [|exact El]. eapply (alookup_Some_key N.eqb N.eqb_eq). exact Eg.
      + exists url, None. split; [reflexivity|]. discriminate.
  Qed.

  (* ---------- the whole transaction ---------- *)
  Lemma handle_esteps t m s s' r : handle H t m s = Ok (s', r) -> esteps t s s'.
  Proof.
    destruct m as [sd [ch|] | a chs | d url uok pub | sg rid chs]; cbn [handle]; intros Hh.
    - apply handle_anchor_spec in Hh. destruct Hh as (iri & id & ts0 & _ & _ & Hs & _). exact Hs.
    - discriminate.
    - apply handle_attest_spec in Hh. apply Hh.
    - apply (handle_define_resolver_spec t) in Hh. apply esteps_one. apply Hh.
    - apply handle_register_resolver_spec in Hh. apply Hh.
  Qed.

  Lemma deliver_esteps t s m : esteps t s (fst (deliver H t s m)).
  Proof.
    unfold deliver. destruct (negb (validate_basic m)); [apply ESS_refl|].
    destruct (handle H t m s) as [[s' r]|e] eqn:Eh; cbn [fst]; [|apply ESS_refl].
    eapply handle_esteps. exact Eh.
  Qed.

  (* the transaction rule: a failed message leaves the state untouched *)
  Lemma deliver_failed_unchanged t s m s' e : deliver H t s m = (s', DErr e) -> s' = s.
  Proof.
    unfold deliver. destruct (negb (validate_basic m)); [intros [= <- _]; reflexivity|].
    destruct (handle H t m s) as [[s1 r]|e1]; [discriminate|]. intros [= <- _]. reflexivity.
  Qed.
End Steps.
