(* SHA-256 (FIPS 180-4) in Gallina over N (32-bit words as N) and byte lists.
   Executable with vm_compute; used only so that the executable IRI model computes real IRIs.
   The IRI theorems treat the checksum as an arbitrary function with 4-byte output. *)
From Coq Require Import List NArith Strings.Byte Strings.String.
Require Import Regen.Base.Bytes Regen.Data.BytesExt.
Import ListNotations.
Local Open Scope N_scope.

Definition mask32 : N := 0xFFFFFFFF.
Definition w32 (x : N) : N := N.land x mask32.
Definition add32 (x y : N) : N := w32 (x + y).
Definition rotr (n x : N) : N := N.lor (N.shiftr x n) (w32 (N.shiftl x (32 - n))).
Definition not32 (x : N) : N := N.lxor x mask32.

Definition Ch (x y z : N) : N := N.lxor (N.land x y) (N.land (not32 x) z).
Definition Maj (x y z : N) : N := N.lxor (N.lxor (N.land x y) (N.land x z)) (N.land y z).
Definition BSig0 (x : N) : N := N.lxor (N.lxor (rotr 2 x) (rotr 13 x)) (rotr 22 x).
Definition BSig1 (x : N) : N := N.lxor (N.lxor (rotr 6 x) (rotr 11 x)) (rotr 25 x).
Definition SSig0 (x : N) : N := N.lxor (N.lxor (rotr 7 x) (rotr 18 x)) (N.shiftr x 3).
Definition SSig1 (x : N) : N := N.lxor (N.lxor (rotr 17 x) (rotr 19 x)) (N.shiftr x 10).

Definition K256 : list N :=
  [0x428a2f98; 0x71374491; 0xb5c0fbcf; 0xe9b5dba5; 0x3956c25b; 0x59f111f1; 0x923f82a4; 0xab1c5ed5;
   0xd807aa98; 0x12835b01; 0x243185be; 0x550c7dc3; 0x72be5d74; 0x80deb1fe; 0x9bdc06a7; 0xc19bf174;
   0xe49b69c1; 0xefbe4786; 0x0fc19dc6; 0x240ca1cc; 0x2de92c6f; 0x4a7484aa; 0x5cb0a9dc; 0x76f988da;
   0x983e5152; 0xa831c66d; 0xb00327c8; 0xbf597fc7; 0xc6e00bf3; 0xd5a79147; 0x06ca6351; 0x14292967;
   0x27b70a85; 0x2e1b2138; 0x4d2c6dfc; 0x53380d13; 0x650a7354; 0x766a0abb; 0x81c2c92e; 0x92722c85;
   0xa2bfe8a1; 0xa81a664b; 0xc24b8b70; 0xc76c51a3; 0xd192e819; 0xd6990624; 0xf40e3585; 0x106aa070;
   0x19a4c116; 0x1e376c08; 0x2748774c; 0x34b0bcb5; 0x391c0cb3; 0x4ed8aa4a; 0x5b9cca4f; 0x682e6ff3;
   0x748f82ee; 0x78a5636f; 0x84c87814; 0x8cc70208; 0x90befffa; 0xa4506ceb; 0xbef9a3f7; 0xc67178f2].

Record state := mkState { sa : N; sb : N; sc : N; sd : N; se : N; sf : N; sg : N; sh : N }.

Definition H0 : state :=
  mkState 0x6a09e667 0xbb67ae85 0x3c6ef372 0xa54ff53a 0x510e527f 0x9b05688c 0x1f83d9ab 0x5be0cd19.

(* padding: 0x80, zeros up to 56 mod 64, 64-bit big-endian bit length *)
Definition pad (m : bytes) : bytes :=
  let l := blen m in
  m ++ x80 :: repeat x00 (N.to_nat ((119 - l mod 64) mod 64)) ++ be64 (8 * l).

(* big-endian 32-bit words of a block *)
Fixpoint words (nwords : nat) (s : bytes) : list N :=
  match nwords with
  | O => []
  | S n =>
      match s with
      | a :: c :: d :: e :: s' =>
          (byte_N a * 16777216 + byte_N c * 65536 + byte_N d * 256 + byte_N e) :: words n s'
      | _ => []
      end
  end.

(* message schedule: [win] holds the 16 most recent words, oldest first *)
Fixpoint schedule (n : nat) (win : list N) : list N :=
  match n with
  | O => []
  | S n' =>
      let w := add32 (add32 (SSig1 (nth 14 win 0)) (nth 9 win 0))
                     (add32 (SSig0 (nth 1 win 0)) (nth 0 win 0)) in
      w :: schedule n' (tl win ++ [w])
  end.

Definition round (s : state) (kw : N * N) : state :=
  let (k, w) := kw in
  let t1 := add32 (add32 (add32 (sh s) (BSig1 (se s))) (add32 (Ch (se s) (sf s) (sg s)) k)) w in
  let t2 := add32 (BSig0 (sa s)) (Maj (sa s) (sb s) (sc s)) in
  mkState (add32 t1 t2) (sa s) (sb s) (sc s) (add32 (sd s) t1) (se s) (sf s) (sg s).

Definition compress (s : state) (block : bytes) : state :=
  let w16 := words 16 block in
  let w := w16 ++ schedule 48 w16 in
  let r := fold_left round (combine K256 w) s in
  mkState (add32 (sa s) (sa r)) (add32 (sb s) (sb r)) (add32 (sc s) (sc r)) (add32 (sd s) (sd r))
          (add32 (se s) (se r)) (add32 (sf s) (sf r)) (add32 (sg s) (sg r)) (add32 (sh s) (sh r)).

(* a bounded loop over the [nblocks] 64-byte blocks of the padded message *)
Fixpoint blocks (nblocks : nat) (s : state) (data : bytes) : state :=
  match nblocks with
  | O => s
  | S n => blocks n (compress s (firstn 64 data)) (skipn 64 data)
  end.

Definition state_bytes (s : state) : bytes :=
  be32 (sa s) ++ be32 (sb s) ++ be32 (sc s) ++ be32 (sd s) ++
  be32 (se s) ++ be32 (sf s) ++ be32 (sg s) ++ be32 (sh s).

Definition sha256 (m : bytes) : bytes :=
  let p := pad m in
  state_bytes (blocks (Nat.div (List.length p) 64) H0 p).

(* crypto/sha256 output length (sha256.Size = 32) *)
Lemma sha256_length m : List.length (sha256 m) = 32%nat.
Proof. reflexivity. Qed.

Local Open Scope string_scope.
Example sha256_empty :
  to_hex (sha256 []) = b "e3b0c44298fc1c149afbf4c8996fb92427ae41e4649b934ca495991b7852b855".
Proof. vm_compute. reflexivity. Qed.
Example sha256_abc :
  to_hex (sha256 (b "abc")) = b "ba7816bf8f01cfea414140de5dae2223b00361a396177a9cb410ff61f20015ad".
Proof. vm_compute. reflexivity. Qed.
Example sha256_56 :
  to_hex (sha256 (b "abcdbcdecdefdefgefghfghighijhijkijkljklmklmnlmnomnopnopq"))
  = b "248d6a61d20638b8e5c026930c3e6039a33ce45964ff2167f6ecedd419db06c1".
Proof. vm_compute. reflexivity. Qed.
(* one million-bit style stress is out of scope; a 3-block message (119 bytes of 'a') *)
Example sha256_119a :
  to_hex (sha256 (repeat x61 119))
  = b "31eba51c313a5c08226adf18d4a359cfdfd8d2e816b13f4af952f7ea6584dcfb".
Proof. vm_compute. reflexivity. Qed.
