(* Byte-string helpers used only by the Data layer (Regen.Base.Bytes is shared and read-only). *)
From Coq Require Import List NArith Bool Strings.Byte Strings.String.
Require Import Regen.Base.Bytes.
Import ListNotations.
Local Open Scope N_scope.

Definition blen (s : bytes) : N := N.of_nat (List.length s).

(* strings.Split(s, sep) for a one-byte separator: never returns the empty list. *)
Fixpoint split_on1 (c : byte) (s : bytes) : bytes * list bytes :=
  match s with
  | [] => ([], [])
  | a :: s' =>
      let (p, ps) := split_on1 c s' in
      if Byte.eqb a c then ([], p :: ps) else (a :: p, ps)
  end.
Definition split_on (c : byte) (s : bytes) : list bytes :=
  let (p, ps) := split_on1 c s in p :: ps.

(* fmt.Sprintf restricted to the verb %s (the only verb in the IRI format strings).
   A missing argument renders as Go does: "%!s(MISSING)". *)
Fixpoint sprintf_s (fmt : bytes) (args : list bytes) : bytes :=
  match fmt with
  | [] => []
  | x25 :: x73 :: rest =>
      match args with
      | a :: args' => a ++ sprintf_s rest args'
      | [] => b "%!s(MISSING)" ++ sprintf_s rest []
      end
  | c :: rest => c :: sprintf_s rest args
  end.

(* lower-case hex rendering (for test vectors and case descriptions) *)
Definition hex_digit (n : N) : byte :=
  byte_of_N_trunc (if n <? 10 then 48 + n else 87 + n).
Definition to_hex (s : bytes) : bytes :=
  flat_map (fun x => [hex_digit (byte_N x / 16); hex_digit (byte_N x mod 16)]) s.

(* big-endian bytes of a 32-bit and of a 64-bit word *)
Definition be32 (w : N) : bytes :=
  [byte_of_N_trunc (N.shiftr w 24); byte_of_N_trunc (N.shiftr w 16);
   byte_of_N_trunc (N.shiftr w 8); byte_of_N_trunc w].
Definition be64 (w : N) : bytes := be32 (N.shiftr w 32) ++ be32 w.

(* Go-style (value, error) results *)
Inductive result (E A : Type) : Type :=
| Ok (a : A)
| Err (e : E).
Arguments Ok {E A} a.
Arguments Err {E A} e.
