(* Property C16 for the x/data state machine model (DataMsgs.v): invariants and permanence theorems.

   Everything here holds for an ARBITRARY ID-digest function [H] -- no property of BLAKE2b is used,
   in particular not collision freeness: uniqueness of ids comes from the probe loop's lookups and
   the tables' key constraints, not from the hash.  (The length hypothesis |H v| = 8 is needed only
   for the fuel bound in DataFuelProps.v.)

   "Later state" always means: the state after any history of block begins and messages
   ([drun H t0 s h]), successful or failed, by any signers. *)
From Coq Require Import List ZArith NArith Bool Lia Strings.Byte.
Require Import Regen.Base.Bytes Regen.Base.Calendar Regen.Data.BytesExt Regen.Data.Hasher
  Regen.Data.Iri Regen.Data.AList Regen.Data.DataMsgs Regen.Data.DataAListProps Regen.Data.DataStepProps.
Import ListNotations.
Local Open Scope N_scope.

(* ---------- the invariant ---------- *)
Record Inv_data (s : dstate) : Prop := {
  (* DataID is a bijection between allocated ids and IRIs *)
  inv_id_keys : NoDup (map fst (data_ids s));          (* one row per id    (primary key) *)
  inv_id_iris : NoDup (map snd (data_ids s));          (* one row per IRI   (unique index) *)
  (* every id used in another table is allocated *)
  inv_anchor_keys : NoDup (map fst (anchors s));
  inv_anchor_alloc : forall id, In id (map fst (anchors s)) -> In id (map fst (data_ids s));
  inv_att_keys : NoDup (map fst (attestors s));
  inv_att_alloc : forall id a, In (id, a) (map fst (attestors s)) -> In id (map fst (data_ids s));
  inv_dr_nodup : NoDup (data_resolvers s);
  inv_dr_alloc : forall id rid, In (id, rid) (data_resolvers s) ->
                   In id (map fst (data_ids s)) /\ In rid (map fst (resolvers s));
  (* resolvers: ids are unique and were handed out by the sequence; (url, manager) is unique *)
  inv_res_keys : NoDup (map fst (resolvers s));
  inv_res_seq : forall rid, In rid (map fst (resolvers s)) -> 1 <= rid <= resolver_seq s;
  inv_res_vals : NoDup (map snd (resolvers s))
}.

Lemma Inv_data_empty : Inv_data empty_dstate.
Proof. constructor; cbn; try constructor; intros; contradiction. Qed.

(* ---------- "nothing is lost or changed" ---------- *)
Definition ext (s s' : dstate) : Prop :=
  (forall id iri, get_data_id id s = Some iri -> get_data_id id s' = Some iri) /\
  (forall id t, get_anchor id s = Some t -> get_anchor id s' = Some t) /\
  (forall id a t, get_attestor id a s = Some t -> get_attestor id a s' = Some t) /\
  (forall rid r, get_resolver rid s = Some r -> get_resolver rid s' = Some r) /\
  (forall id rid, has_data_resolver id rid s = true -> has_data_resolver id rid s' = true) /\
  resolver_seq s <= resolver_seq s'.

Lemma ext_refl s : ext s s.
Proof. unfold ext. repeat split; auto. lia. Qed.

Lemma ext_trans s1 s2 s3 : ext s1 s2 -> ext s2 s3 -> ext s1 s3.
Proof.
  unfold ext. intros (A1 & B1 & C1 & D1 & E1 & F1) (A2 & B2 & C2 & D2 & E2 & F2).
  repeat split; intros; auto. lia.
Qed.

(* rows that are new in s' carry the block time t *)
Definition fresh_at (t : ts) (s s' : dstate) : Prop :=
  (forall id t', get_anchor id s' = Some t' -> get_anchor id s = Some t' \/ (get_anchor id s = None /\ t' = t)) /\
  (forall id a t', get_attestor id a s' = Some t' ->
                   get_attestor id a s = Some t' \/ (get_attestor id a s = None /\ t' = t)).

Lemma fresh_at_refl t s : fresh_at t s s.
Proof. split; intros; left; assumption. Qed.

Lemma lookup_cons_absent {K V} (eqb : K -> K -> bool) (eqb_ok : forall a c, eqb a c = true <-> a = c)
      (k k0 : K) (v v0 : V) l :
  alookup eqb k0 l = None -> alookup eqb k l = Some v -> alookup eqb k ((k0, v0) :: l) = Some v.
Proof.
  intros Hnone Hsome. rewrite alookup_cons. destruct (eqb k k0) eqn:E; [|exact Hsome].
  apply eqb_ok in E. subst k0. congruence.
Qed.

Lemma estep_ext t s s' : estep t s s' -> ext s s'.
Proof.
  intros Hs. destruct Hs as [id iri Hfree _ | id Hfree _ | id a Hfree _ | r Hfree _ | id rid Hfree _ _];
    unfold ext, get_data_id, get_anchor, get_attestor, get_resolver, has_data_resolver in *; cbn [data_ids anchors attestors resolvers resolver_seq data_resolvers set_data_ids set_anchors set_attestors set_resolvers set_data_resolvers ainsert];
    repeat split; intros; auto; try lia.
  - apply (lookup_cons_absent _ bytes_eqb_eq); assumption.
  - apply (lookup_cons_absent _ bytes_eqb_eq); assumption.
  - apply (lookup_cons_absent _ att_key_eqb_ok); assumption.
  - apply (lookup_cons_absent _ N.eqb_eq); assumption.
  - apply (smem_true_iff _ dr_key_eqb_ok). right. apply (smem_true_iff _ dr_key_eqb_ok). assumption.
Qed.

Lemma esteps_ext t s s' : esteps t s s' -> ext s s'.
Proof.
  induction 1 as [s | s1 s2 s3 Hs _ IH]; [apply ext_refl|].
  eapply ext_trans; [eapply estep_ext; exact Hs | exact IH].
Qed.

Lemma estep_fresh t s s' : estep t s s' -> fresh_at t s s'.
Proof.
  intros Hs. destruct Hs as [id iri Hfree _ | id Hfree _ | id a Hfree _ | r Hfree _ | id rid Hfree _ _].
  - split; intros; left; assumption.
  - split; [|intros; left; assumption]. intros id' t'. unfold get_anchor in *. cbn.
    destruct (bytes_eqb id' id) eqn:E; [|intros; left; assumption].
    apply bytes_eqb_eq in E. subst id'. intros [= <-]. right. split; [exact Hfree | reflexivity].
  - split; [intros; left; assumption|]. intros id' a' t'. unfold get_attestor in *. cbn - [att_key_eqb].
    destruct (att_key_eqb (id', a') (id, a)) eqn:E; [|intros; left; assumption].
    apply att_key_eqb_ok in E. injection E as -> ->. intros [= <-]. right. split; [exact Hfree | reflexivity].
  - split; intros; left; assumption.
  - split; intros; left; assumption.
Qed.

Lemma esteps_fresh t s s' : esteps t s s' -> fresh_at t s s'.
Proof.
  induction 1 as [s | s1 s2 s3 Hs Hss IH]; [apply fresh_at_refl|].
  pose proof (estep_fresh _ _ _ Hs) as (A1 & B1). pose proof (estep_ext _ _ _ Hs) as (_ & A0 & B0 & _).
  destruct IH as (A2 & B2). split.
  - intros id t' Hl. destruct (A2 _ _ Hl) as [H2 | [H2 ->]].
    + apply A1. exact H2.
    + right. split; [|reflexivity]. destruct (get_anchor id s1) as [t1|] eqn:E1; [|reflexivity].
      apply A0 in E1. congruence.
  - intros id a t' Hl. destruct (B2 _ _ _ Hl) as [H2 | [H2 ->]].
    + apply B1. exact H2.
    + right. split; [|reflexivity]. destruct (get_attestor id a s1) as [t1|] eqn:E1; [|reflexivity].
      apply B0 in E1. congruence.
Qed.

(* ---------- the elementary steps preserve the invariant ---------- *)
Lemma estep_inv t s s' : estep t s s' -> Inv_data s -> Inv_data s'.
Proof.
  intros Hs [I1 I2 I3 I4 I5 I6 I7 I8 I9 I10 I11].
  destruct Hs as [id iri Hfree Hiri | id Hfree Halloc | id a Hfree Halloc | r Hfree Htaken | id rid Hfree Halloc Hres];
    constructor; cbn [data_ids anchors attestors resolvers resolver_seq data_resolvers set_data_ids set_anchors
                      set_attestors set_resolvers set_data_resolvers ainsert map fst snd]; auto.
  - (* ES_id *) constructor; [|exact I1]. apply (alookup_None_iff _ bytes_eqb_eq). exact Hfree.
  - constructor; [|exact I2]. apply iri_taken_false_iff. exact Hiri.
  - intros i Hi. right. apply I4. exact Hi.
  - intros i a Hi. right. eapply I6. exact Hi.
  - intros i rid Hi. destruct (I8 _ _ Hi) as [X Y]. split; [right; exact X | exact Y].
  - (* ES_anchor *) constructor; [|exact I3]. apply (alookup_None_iff _ bytes_eqb_eq). exact Hfree.
  - intros i [<- | Hi]; [exact Halloc | apply I4; exact Hi].
  - (* ES_attest *) constructor; [|exact I5]. apply (alookup_None_iff _ att_key_eqb_ok). exact Hfree.
  - intros i a' [[= <- <-] | Hi]; [exact Halloc | eapply I6; exact Hi].
  - (* ES_resolver *) intros i rid Hi. destruct (I8 _ _ Hi) as [X Y]. split; [exact X | right; exact Y].
  - constructor; [|exact I9]. apply (alookup_None_iff _ N.eqb_eq). exact Hfree.
  - intros rid [<- | Hi]; [lia|]. apply I10 in Hi. lia.
  - constructor; [|exact I11]. apply resolver_taken_false_iff. exact Htaken.
  - (* ES_register *) constructor; [|exact I7]. apply (smem_false_iff _ dr_key_eqb_ok). exact Hfree.
  - intros i rid' [[= <- <-] | Hi]; [split; assumption | apply I8; exact Hi].
Qed.

Lemma esteps_inv t s s' : esteps t s s' -> Inv_data s -> Inv_data s'.
Proof. induction 1 as [s | s1 s2 s3 Hs _ IH]; [auto|]. intros Hi. apply IH. eapply estep_inv; eassumption. Qed.

Section C16.
  Variable H : bytes -> bytes.     (* arbitrary ID digest: collisions allowed *)

  (* ---------- preservation over transactions and histories ---------- *)
  Theorem data_step_preserves_inv t s m : Inv_data s -> Inv_data (fst (deliver H t s m)).
  Proof. intros Hi. eapply esteps_inv; [apply deliver_esteps | exact Hi]. Qed.

  Lemma dstep_ext ts_s e : ext (snd ts_s) (snd (dstep H ts_s e)).
  Proof.
    destruct ts_s as [t s]. destruct e as [t'|m]; cbn [dstep snd]; [apply ext_refl|].
    eapply esteps_ext. apply deliver_esteps.
  Qed.

  Lemma dstep_inv ts_s e : Inv_data (snd ts_s) -> Inv_data (snd (dstep H ts_s e)).
  Proof.
    destruct ts_s as [t s]. destruct e as [t'|m]; cbn [dstep snd]; [auto|]. apply data_step_preserves_inv.
  Qed.

  Lemma drun_fold_ext h : forall ts_s, ext (snd ts_s) (snd (fold_left (dstep H) h ts_s)).
  Proof.
    induction h as [|e h IH]; intros ts_s; cbn [fold_left]; [apply ext_refl|].
    eapply ext_trans; [apply dstep_ext | apply IH].
  Qed.

  Lemma drun_fold_inv h : forall ts_s, Inv_data (snd ts_s) -> Inv_data (snd (fold_left (dstep H) h ts_s)).
  Proof.
    induction h as [|e h IH]; intros ts_s Hi; cbn [fold_left]; [exact Hi|]. apply IH. apply dstep_inv. exact Hi.
  Qed.

  Theorem data_run_preserves_inv t0 s h : Inv_data s -> Inv_data (snd (drun H t0 s h)).
  Proof. intros Hi. unfold drun. apply (drun_fold_inv h (t0, s)). exact Hi. Qed.

  Theorem data_run_ext t0 s h : ext s (snd (drun H t0 s h)).
  Proof. unfold drun. apply (drun_fold_ext h (t0, s)). Qed.

  (* every state reachable from genesis-empty satisfies the invariant *)
  Corollary data_reachable_inv t0 h : Inv_data (snd (drun H t0 empty_dstate h)).
  Proof. apply data_run_preserves_inv. apply Inv_data_empty. Qed.

  (* ---------- ids ---------- *)

  (* once iri |-> id, always iri |-> id: no reallocation, no deletion *)
  Theorem C16_id_stable t0 s h id iri :
    get_data_id id s = Some iri -> get_data_id id (snd (drun H t0 s h)) = Some iri.
  Proof. intros Hl. destruct (data_run_ext t0 s h) as (A & _). apply A. exact Hl. Qed.

  (* distinct IRIs have distinct ids (an id holds one IRI) and an IRI has one id *)
  Theorem C16_id_functional s id iri1 iri2 :
    get_data_id id s = Some iri1 -> get_data_id id s = Some iri2 -> iri1 = iri2.
  Proof. congruence. Qed.

  Lemma NoDup_snd_inj {A B} (l : list (A * B)) a1 a2 v :
    NoDup (map snd l) -> In (a1, v) l -> In (a2, v) l -> a1 = a2.
  Proof.
    induction l as [|[a0 v0] l IH]; cbn; [intros _ []|].
    intros Hnd H1 H2. inversion Hnd as [|? ? Hnotin Hnd']; subst.
    destruct H1 as [E1 | H1], H2 as [E2 | H2].
    - congruence.
    - injection E1 as -> ->. exfalso. apply Hnotin. apply (in_map snd) in H2. exact H2.
    - injection E2 as -> ->. exfalso. apply Hnotin. apply (in_map snd) in H1. exact H1.
    - eapply IH; eassumption.
  Qed.

  Theorem C16_id_injective s id1 id2 iri :
    Inv_data s -> get_data_id id1 s = Some iri -> get_data_id id2 s = Some iri -> id1 = id2.
  Proof.
    intros Hi H1 H2. apply (alookup_Some_In _ bytes_eqb_eq) in H1. apply (alookup_Some_In _ bytes_eqb_eq) in H2.
    eapply NoDup_snd_inj; [apply (inv_id_iris _ Hi) | exact H1 | exact H2].
  Qed.

  (* the same IRI always the same id, at any two moments of any history *)
  Corollary C16_same_iri_same_id t0 s h id1 id2 iri :
    Inv_data s -> get_data_id id1 s = Some iri ->
    get_data_id id2 (snd (drun H t0 s h)) = Some iri -> id2 = id1.
  Proof.
    intros Hi H1 H2. apply (C16_id_injective (snd (drun H t0 s h)) id2 id1 iri);
      [apply data_run_preserves_inv; exact Hi | exact H2 | apply C16_id_stable; exact H1].
  Qed.

  (* distinct IRIs never share an id, at any two moments of any history *)
  Corollary C16_distinct_iris_distinct_ids t0 s h id iri1 iri2 :
    get_data_id id s = Some iri1 -> get_data_id id (snd (drun H t0 s h)) = Some iri2 -> iri1 = iri2.
  Proof. intros H1 H2. apply (C16_id_stable t0 s h) in H1. congruence. Qed.

  (* ---------- anchors ---------- *)
  Theorem C16_anchor_permanent t0 s h id t :
    get_anchor id s = Some t -> get_anchor id (snd (drun H t0 s h)) = Some t.
  Proof. intros Hl. destruct (data_run_ext t0 s h) as (_ & A & _). apply A. exact Hl. Qed.

  (* an anchor row that appears during a transaction carries that transaction's block time *)
  Theorem C16_anchor_first_time t s m id t' :
    get_anchor id s = None -> get_anchor id (fst (deliver H t s m)) = Some t' -> t' = t.
  Proof.
    intros Hnone Hsome. destruct (esteps_fresh _ _ _ (deliver_esteps H t s m)) as (A & _).
    destruct (A _ _ Hsome) as [Hold | [_ ->]]; [congruence | reflexivity].
  Qed.

  (* what Anchor answers: the IRI of the content hash and the timestamp stored for its id *)
  Theorem C16_anchor_response t s sd ch s' iri tstamp :
    deliver H t s (DAnchor sd (Some ch)) = (s', DOk (RAnchored iri tstamp)) ->
    to_iri_sha ch = Ok iri /\ exists id, get_data_id id s' = Some iri /\ get_anchor id s' = Some tstamp.
  Proof.
    unfold deliver. destruct (negb (validate_basic _)); [discriminate|]. cbn [handle].
    destruct (handle_anchor H t ch s) as [[s1 r]|e] eqn:Eh; [|discriminate]. intros [= <- ->].
    apply handle_anchor_spec in Eh. destruct Eh as (iri' & id & ts' & [= <- <-] & Hi & _ & Hid & Ha).
    split; [exact Hi | exists id; split; assumption].
  Qed.

  (* anchoring data that is already anchored answers the ORIGINAL timestamp, whatever the block time *)
  Corollary C16_reanchor_same_timestamp t s sd ch s' iri tstamp id t1 :
    Inv_data s -> get_data_id id s = Some iri -> get_anchor id s = Some t1 ->
    deliver H t s (DAnchor sd (Some ch)) = (s', DOk (RAnchored iri tstamp)) -> tstamp = t1.
  Proof.
    intros Hi Hid Ha Hd. pose proof (C16_anchor_response _ _ _ _ _ _ _ Hd) as (_ & id' & Hid' & Ha').
    assert (Hs' : s' = fst (deliver H t s (DAnchor sd (Some ch)))) by (rewrite Hd; reflexivity).
    pose proof (esteps_ext _ _ _ (deliver_esteps H t s (DAnchor sd (Some ch)))) as (A & B & _).
    rewrite <- Hs' in A, B.
    assert (id' = id).
    { apply (C16_id_injective s' id' id iri); [|exact Hid'|apply A; exact Hid].
      rewrite Hs'. apply data_step_preserves_inv. exact Hi. }
    subst id'. apply B in Ha. congruence.
  Qed.

  (* ---------- attestations ---------- *)
  Theorem C16_attest_once t0 s h id a t :
    get_attestor id a s = Some t -> get_attestor id a (snd (drun H t0 s h)) = Some t.
  Proof. intros Hl. destruct (data_run_ext t0 s h) as (_ & _ & A & _). apply A. exact Hl. Qed.

  (* in particular re-attesting leaves the row as it is *)
  Corollary C16_reattest_unchanged t s chs id a t0 :
    get_attestor id a s = Some t0 -> get_attestor id a (fst (deliver H t s (DAttest a chs))) = Some t0.
  Proof.
    intros Hl. destruct (esteps_ext _ _ _ (deliver_esteps H t s (DAttest a chs))) as (_ & _ & A & _). apply A. exact Hl.
  Qed.

  (* a new attestation row records the block time of the transaction that created it *)
  Theorem C16_attest_first_time t s m id a t' :
    get_attestor id a s = None -> get_attestor id a (fst (deliver H t s m)) = Some t' -> t' = t.
  Proof.
    intros Hnone Hsome. destruct (esteps_fresh _ _ _ (deliver_esteps H t s m)) as (_ & A).
    destruct (A _ _ _ Hsome) as [Hold | [_ ->]]; [congruence | reflexivity].
  Qed.

  (* ---------- resolvers ---------- *)
  Theorem C16_registration_kept t0 s h :
    (forall id rid, has_data_resolver id rid s = true -> has_data_resolver id rid (snd (drun H t0 s h)) = true) /\
    (forall rid r, get_resolver rid s = Some r -> get_resolver rid (snd (drun H t0 s h)) = Some r).
  Proof. destruct (data_run_ext t0 s h) as (_ & _ & _ & A & B & _). split; assumption. Qed.

  (* only the manager registers data to a non-public resolver *)
  Theorem C16_manager_only t s sg rid chs s' r url m :
    deliver H t s (DRegisterResolver sg rid chs) = (s', DOk r) ->
    get_resolver rid s = Some (url, Some m) -> sg = m.
  Proof.
    unfold deliver. destruct (negb (validate_basic _)); [discriminate|]. cbn [handle].
    destruct (handle_register_resolver H t sg rid chs s) as [[s1 r1]|e] eqn:Eh; [|discriminate]. intros _ Hg.
    apply handle_register_resolver_spec in Eh. destruct Eh as (_ & _ & url' & m' & Hg' & Hm).
    rewrite Hg in Hg'. injection Hg' as <- <-. symmetry. apply Hm. reflexivity.
  Qed.

  (* a message that fails changes nothing at all *)
  Theorem C16_failed_tx_unchanged t s m s' e : deliver H t s m = (s', DErr e) -> s' = s.
  Proof. apply deliver_failed_unchanged. Qed.
End C16.
