(* Model of github.com/cosmos/btcutil/base58 (Encode, Decode, CheckEncode, CheckDecode).

   Encode/Decode are modelled at the level "big-endian digit list in base A  <->  number  <->
   big-endian digit list in base B, leading zero digits copied one for one".  The Go code converts
   ten base-58 digits at a time through an int64 (an optimisation with the same result: the
   correspondence family checks the model against the real code on every case).

   The checksum is a parameter of check_encode / check_decode; the executable instance is
   the first four bytes of SHA-256(SHA-256(x)). *)
From Coq Require Import List NArith Bool Strings.Byte Strings.String.
Require Import Regen.Base.Bytes Regen.Data.BytesExt Regen.Data.Sha256 Regen.Generated.DataConsts.
Import ListNotations.
Local Open Scope N_scope.

(* ---------- positional notation in an arbitrary base ---------- *)
Section Radix.
  Variable B : N.

  (* little-endian digits of x, most significant digit non-zero; None = out of fuel *)
  Fixpoint to_digits_le (fuel : nat) (x : N) : option (list N) :=
    match fuel with
    | O => if x =? 0 then Some [] else None
    | S f => if x =? 0 then Some []
             else option_map (cons (x mod B)) (to_digits_le f (x / B))
    end.

  (* big.Int.Bytes / the digit loop of Encode: minimal big-endian digits, [] for 0 *)
  Definition to_digits_be (x : N) : option (list N) :=
    option_map (@rev N) (to_digits_le (N.to_nat (N.size x)) x).

  (* big.Int.SetBytes / the accumulation loop of Decode *)
  Definition of_digits_be (l : list N) : N := fold_left (fun acc d => acc * B + d) l 0.
End Radix.

(* number of leading zero digits *)
Fixpoint count_lz (l : list N) : nat :=
  match l with
  | 0 :: l' => S (count_lz l')
  | _ => O
  end.

(* base-A digits to base-B digits, keeping the number of leading zero digits *)
Definition conv (A B : N) (l : list N) : option (list N) :=
  option_map (fun ds => repeat 0 (count_lz l) ++ ds) (to_digits_be B (of_digits_be A l)).

(* ---------- alphabet ---------- *)
Definition b58_radix : N := blen b58_alphabet.

(* alphabet[d]; only ever applied to d < 58 *)
Definition alpha_char (d : N) : byte := nth (N.to_nat d) b58_alphabet x00.
(* the b58 table: Some d where the table holds d, None where it holds 255 *)
Definition alpha_idx (c : byte) : option N := option_map N.of_nat (index_byte c b58_alphabet).

(* Encode/Decode translate leading zero bytes to/from the character alphabetIdx0; the model
   translates them to/from the digit 0.  The two agree because alphabetIdx0 = alphabet[0]. *)
Example alphabet_idx0_is_digit_0 : alpha_idx (byte_of_N_trunc b58_alphabet_idx0) = Some 0.
Proof. reflexivity. Qed.

(* ---------- Encode ---------- *)
Definition b58_encode (bs : bytes) : option bytes :=
  option_map (map alpha_char) (conv b58_table_len b58_radix (map byte_N bs)).

(* ---------- Decode ----------
   Decode walks the string in chunks of ten BYTES and ranges over each chunk as RUNES, indexing the
   256-entry table with the rune.  For the first byte that is not an alphabet character:
   * ASCII: table entry 255, Decode returns "" ;
   * a well-formed two-byte UTF-8 sequence inside the chunk: the rune is < 0x800; if it is below the
     table length (U+0080..U+00FF) the entry is 255 and Decode returns "", otherwise the index is out
     of range and Decode PANICS;
   * anything else (longer sequences, malformed UTF-8 = U+FFFD, a sequence cut by the chunk
     boundary): rune >= 0x800, out of range, PANIC. *)
Inductive scan_result := ScanOk (ds : list N) | ScanInvalid | ScanPanic.

Definition bad_char (pos : N) (c : byte) (rest : bytes) : scan_result :=
  let v := byte_N c in
  if v <? 128 then ScanInvalid
  else if (194 <=? v) && (v <=? 223) && (pos + 1 <? b58_decode_chunk) then
    match rest with
    | n :: _ =>
        let w := byte_N n in
        if (128 <=? w) && (w <=? 191) then
          if (v - 192) * 64 + (w - 128) <? b58_table_len then ScanInvalid else ScanPanic
        else ScanPanic
    | [] => ScanPanic
    end
  else ScanPanic.

(* [pos] is the offset of the current byte inside its chunk *)
Fixpoint scan (pos : N) (s : bytes) : scan_result :=
  match s with
  | [] => ScanOk []
  | c :: s' =>
      match alpha_idx c with
      | Some d =>
          match scan ((pos + 1) mod b58_decode_chunk) s' with
          | ScanOk ds => ScanOk (d :: ds)
          | r => r
          end
      | None => bad_char pos c s'
      end
  end.

Inductive dec_result := DecOk (bs : bytes) | DecPanic | DecFuel.

Definition b58_decode (s : bytes) : dec_result :=
  match scan 0 s with
  | ScanPanic => DecPanic
  | ScanInvalid => DecOk []
  | ScanOk ds =>
      match conv b58_radix b58_table_len ds with
      | Some l => DecOk (map byte_of_N_trunc l)
      | None => DecFuel
      end
  end.

(* ---------- CheckEncode / CheckDecode ---------- *)
Section Check.
  Variable cksum : bytes -> bytes.

  Definition check_encode (input : bytes) (version : byte) : option bytes :=
    let body := version :: input in
    b58_encode (body ++ cksum body).

  Inductive check_err := ErrInvalidFormat | ErrChecksum | ErrDecodePanic | ErrDecodeFuel.

  Definition check_decode (s : bytes) : result check_err (bytes * byte) :=
    match b58_decode s with
    | DecPanic => Err ErrDecodePanic
    | DecFuel => Err ErrDecodeFuel
    | DecOk decoded =>
        if blen decoded <? b58_min_decoded_len then Err ErrInvalidFormat
        else match decoded with
             | [] => Err ErrInvalidFormat
             | version :: rest =>
                 let n := (List.length rest - N.to_nat b58_checksum_len)%nat in
                 let payload := firstn n rest in
                 let ck := skipn n rest in
                 if bytes_eqb (cksum (version :: payload)) ck then Ok (payload, version)
                 else Err ErrChecksum
             end
    end.
End Check.

(* checksum of base58check.go: first four bytes of sha256(sha256(x)) *)
Definition sha256d_cksum (x : bytes) : bytes :=
  firstn (N.to_nat b58_checksum_len) (sha256 (sha256 x)).

Local Open Scope string_scope.
(* btcutil's own test vectors (base58_test.go / base58check_test.go) *)
Example b58_enc_1 : b58_encode [x00;x00;x00;x28;x7f;xb4;xcd] = Some (b "111233QC4").
Proof. vm_compute. reflexivity. Qed.
Example b58_dec_1 : b58_decode (b "111233QC4") = DecOk [x00;x00;x00;x28;x7f;xb4;xcd].
Proof. vm_compute. reflexivity. Qed.
Example b58_dec_invalid : b58_decode (b "3mJr0") = DecOk [].
Proof. vm_compute. reflexivity. Qed.
Example b58_enc_2 :
  b58_encode [x00;x01;x11;xd3;x8e;x5f;xc9;x07;x1f;xfc;xd2;x0b;x4a;x76;x3c;xc9;xae;x4f;x25;x2b;xb4;xe4;
              x8f;xd6;x6a;x83;x5e;x25;x2a;xda;x93;xff;x48;x0d;x6d;xd4;x3d;xc6;x2a;x64;x11;x55;xa5]
  = Some b58_alphabet.
Proof. vm_compute. reflexivity. Qed.
Example b58check_1 :
  check_encode sha256d_cksum (b "abc") x14 = Some (b "4QiVtDjUdeq").
Proof. vm_compute. reflexivity. Qed.
Example b58check_2 :
  check_decode sha256d_cksum (b "K2RYDcKfupxwXdWhSAxQPCeiULntKm63UXyx5MvEH2")
  = Ok (b "abcdefghijklmnopqrstuvwxyz", x14).
Proof. vm_compute. reflexivity. Qed.
Example b58check_3 : check_decode sha256d_cksum (b "3MNQE1Y") = Err ErrChecksum.
Proof. vm_compute. reflexivity. Qed.
Example b58check_4 : check_decode sha256d_cksum (b "3MNQ") = Err ErrInvalidFormat.
Proof. vm_compute. reflexivity. Qed.
