(* base58: Decode . Encode = id on byte strings, Encode . Decode = id on alphabet strings,
   CheckDecode . CheckEncode = id for every 4-byte checksum function, and every string accepted by
   CheckDecode is exactly what CheckEncode produces for the decoded payload and version. *)
From Coq Require Import List NArith Lia Bool Strings.Byte.
Require Import Regen.Base.Bytes Regen.Data.BytesExt Regen.Data.Sha256 Regen.Data.Base58
  Regen.Data.RadixProps Regen.Generated.DataConsts.
Import ListNotations.
Local Open Scope N_scope.

(* ---------- bytes <-> base-256 digits ---------- *)
Lemma byte_N_lt x : byte_N x < 256.
Proof. unfold byte_N. pose proof (Byte.to_N_bounded x). lia. Qed.

Lemma trunc_byte_N x : byte_of_N_trunc (byte_N x) = x.
Proof.
  unfold byte_of_N_trunc, byte_N. rewrite N.mod_small by (apply byte_N_lt).
  rewrite Byte.of_to_N. reflexivity.
Qed.

Lemma byte_N_trunc n : n < 256 -> byte_N (byte_of_N_trunc n) = n.
Proof.
  intros Hn. unfold byte_of_N_trunc, byte_N. rewrite N.mod_small by exact Hn.
  destruct (Byte.of_N n) as [x|] eqn:E.
  - apply Byte.to_of_N. exact E.
  - apply Byte.of_N_None_iff in E. lia.
Qed.

Lemma map_trunc_byte_N bs : map byte_of_N_trunc (map byte_N bs) = bs.
Proof. induction bs as [|x bs IH]; [reflexivity|]. cbn [map]. rewrite trunc_byte_N, IH. reflexivity. Qed.

Lemma map_byte_N_trunc l : digits_lt 256 l -> map byte_N (map byte_of_N_trunc l) = l.
Proof.
  induction 1 as [|d l Hd _ IH]; [reflexivity|]. cbn [map]. rewrite byte_N_trunc by exact Hd.
  rewrite IH. reflexivity.
Qed.

Lemma digits_lt_bytes bs : digits_lt 256 (map byte_N bs).
Proof. induction bs; constructor; [apply byte_N_lt | assumption]. Qed.

(* ---------- alphabet characters <-> base-58 digits ---------- *)
Lemma b58_radix_eq : b58_radix = 58. Proof. reflexivity. Qed.
Lemma b58_table_len_eq : b58_table_len = 256. Proof. reflexivity. Qed.

Lemma alpha_idx_char d : d < 58 -> alpha_idx (alpha_char d) = Some d.
Proof.
  intros Hd.
  assert (H : forall n : nat, (n < 58)%nat -> alpha_idx (alpha_char (N.of_nat n)) = Some (N.of_nat n)).
  { intros n Hn. do 58 (destruct n as [|n]; [vm_compute; reflexivity|]). lia. }
  specialize (H (N.to_nat d)). rewrite N2Nat.id in H. apply H. lia.
Qed.

Lemma alpha_char_idx c d : alpha_idx c = Some d -> alpha_char d = c /\ d < 58.
Proof.
  intros H. destruct c; vm_compute in H; try discriminate H;
    injection H as <-; split; reflexivity.
Qed.

Definition over_alphabet (s : bytes) : Prop := Forall (fun c => alpha_idx c <> None) s.

Lemma over_alphabet_map ds : digits_lt 58 ds -> over_alphabet (map alpha_char ds).
Proof.
  induction 1 as [|d ds Hd _ IH]; constructor; [|exact IH].
  rewrite alpha_idx_char by exact Hd. discriminate.
Qed.

Lemma over_alphabet_no_dot s : over_alphabet s -> ~ In (byte_of_N_trunc iri_parse_sep) s.
Proof.
  intros H Hin. unfold over_alphabet in H. rewrite Forall_forall in H.
  apply (H _ Hin). vm_compute. reflexivity.
Qed.

(* ---------- scan ---------- *)
Lemma bad_char_not_ok pos c rest ds : bad_char pos c rest <> ScanOk ds.
Proof.
  unfold bad_char.
  repeat match goal with
         | |- context [if ?x then _ else _] => destruct x
         | |- context [match ?r with [] => _ | _ :: _ => _ end] => destruct r
         end; discriminate.
Qed.

Lemma scan_map : forall ds pos, digits_lt 58 ds -> scan pos (map alpha_char ds) = ScanOk ds.
Proof.
  induction ds as [|d ds IH]; intros pos H; [reflexivity|].
  inversion H as [|? ? Hd Hds]; subst.
  cbn [map scan]. rewrite alpha_idx_char by exact Hd. rewrite IH by exact Hds. reflexivity.
Qed.

Lemma scan_ok : forall s pos ds, scan pos s = ScanOk ds -> map alpha_char ds = s /\ digits_lt 58 ds.
Proof.
  induction s as [|c s IH]; intros pos ds H.
  - cbn in H. injection H as <-. split; [reflexivity | constructor].
  - cbn [scan] in H. destruct (alpha_idx c) as [d|] eqn:Ec.
    + destruct (scan ((pos + 1) mod b58_decode_chunk) s) as [ds'| |] eqn:Es; try discriminate H.
      injection H as <-. destruct (IH _ _ Es) as [Hm Hlt].
      destruct (alpha_char_idx _ _ Ec) as [Hc Hd].
      split; [cbn [map]; rewrite Hc, Hm; reflexivity | constructor; assumption].
    + exfalso. exact (bad_char_not_ok _ _ _ _ H).
Qed.

Lemma scan_alphabet : forall s pos, over_alphabet s -> exists ds, scan pos s = ScanOk ds.
Proof.
  induction s as [|c s IH]; intros pos H; [exists []; reflexivity|].
  inversion H as [|? ? Hc Hs]; subst.
  cbn [scan]. destruct (alpha_idx c) as [d|]; [|congruence].
  destruct (IH ((pos + 1) mod b58_decode_chunk) Hs) as [ds Hds]. rewrite Hds. eauto.
Qed.

(* ---------- Encode / Decode ---------- *)
Lemma b58_encode_spec bs :
  exists m, b58_encode bs = Some (map alpha_char m) /\ digits_lt 58 m
            /\ conv 58 256 m = Some (map byte_N bs).
Proof.
  destruct (conv_roundtrip 256 58 (map byte_N bs)) as (m & Hc & Hlt & Hback);
    [lia | lia | apply digits_lt_bytes |].
  exists m. unfold b58_encode. rewrite b58_radix_eq, b58_table_len_eq, Hc. auto.
Qed.

Theorem b58_encode_total bs : exists s, b58_encode bs = Some s.
Proof. destruct (b58_encode_spec bs) as (m & H & _). eauto. Qed.

Theorem b58_encode_alphabet bs s : b58_encode bs = Some s -> over_alphabet s.
Proof.
  intros H. destruct (b58_encode_spec bs) as (m & Hm & Hlt & _). rewrite Hm in H.
  injection H as <-. apply over_alphabet_map. exact Hlt.
Qed.

(* Decode(Encode(bs)) = bs *)
Theorem b58_decode_encode bs s : b58_encode bs = Some s -> b58_decode s = DecOk bs.
Proof.
  intros H. destruct (b58_encode_spec bs) as (m & Hm & Hlt & Hback). rewrite Hm in H.
  injection H as <-. unfold b58_decode. rewrite scan_map by exact Hlt.
  rewrite b58_radix_eq, b58_table_len_eq, Hback, map_trunc_byte_N. reflexivity.
Qed.

(* Encode(Decode(s)) = s for every string over the alphabet *)
Theorem b58_encode_decode s : over_alphabet s ->
  exists bs, b58_decode s = DecOk bs /\ b58_encode bs = Some s.
Proof.
  intros H. destruct (scan_alphabet s 0 H) as [ds Hds].
  destruct (scan_ok _ _ _ Hds) as [Hmap Hlt].
  destruct (conv_roundtrip 58 256 ds) as (m & Hc & Hm & Hback); [lia | lia | exact Hlt |].
  exists (map byte_of_N_trunc m). unfold b58_decode, b58_encode.
  rewrite Hds, b58_radix_eq, b58_table_len_eq, Hc. split; [reflexivity|].
  rewrite map_byte_N_trunc by exact Hm. rewrite Hback. cbn [option_map]. rewrite Hmap. reflexivity.
Qed.

Theorem b58_encode_injective a c s : b58_encode a = Some s -> b58_encode c = Some s -> a = c.
Proof.
  intros Ha Hc. apply b58_decode_encode in Ha. apply b58_decode_encode in Hc. congruence.
Qed.

(* a non-empty result of Decode can only come from an alphabet string, which re-encodes to itself
   (on a non-alphabet string Decode returns the empty slice, or panics) *)
Theorem b58_decode_reencode s bs : b58_decode s = DecOk bs -> bs <> [] -> b58_encode bs = Some s.
Proof.
  intros H Hne. assert (Ha : over_alphabet s).
  { unfold b58_decode in H. destruct (scan 0 s) as [ds| |] eqn:Es.
    - destruct (scan_ok _ _ _ Es) as [<- Hlt]. apply over_alphabet_map. exact Hlt.
    - injection H as <-. congruence.
    - discriminate H. }
  destruct (b58_encode_decode s Ha) as (bs' & Hd & He). congruence.
Qed.

(* ---------- CheckEncode / CheckDecode ---------- *)
Lemma firstn_length_app {A} (p q : list A) : firstn (List.length p) (p ++ q) = p.
Proof. induction p as [|a p IH]; [destruct q; reflexivity|]. cbn. rewrite IH. reflexivity. Qed.
Lemma skipn_length_app {A} (p q : list A) : skipn (List.length p) (p ++ q) = q.
Proof. induction p as [|a p IH]; [reflexivity|]. cbn. exact IH. Qed.

Section CheckProps.
  Variable cksum : bytes -> bytes.

  Theorem check_encode_total p v : exists s, check_encode cksum p v = Some s.
  Proof. apply b58_encode_total. Qed.

  Theorem check_encode_alphabet p v s : check_encode cksum p v = Some s -> over_alphabet s.
  Proof. apply b58_encode_alphabet. Qed.

  (* CheckDecode(CheckEncode(p, v)) = (p, v) for ANY checksum function with 4-byte output *)
  Theorem check_decode_encode :
    (forall x, List.length (cksum x) = 4%nat) ->
    forall p v s, check_encode cksum p v = Some s -> check_decode cksum s = Ok (p, v).
  Proof.
    intros Hlen p v s H. unfold check_encode in H. apply b58_decode_encode in H.
    unfold check_decode. rewrite H. cbn [app].
    assert (Hl : blen (v :: p ++ cksum (v :: p)) <? b58_min_decoded_len = false).
    { apply N.ltb_ge. unfold blen, b58_min_decoded_len. cbn [List.length].
      rewrite app_length, Hlen. lia. }
    rewrite Hl.
    replace (List.length (p ++ cksum (v :: p)) - N.to_nat b58_checksum_len)%nat with (List.length p).
    2:{ rewrite app_length, Hlen. change (N.to_nat b58_checksum_len) with 4%nat. lia. }
    rewrite firstn_length_app, skipn_length_app, bytes_eqb_refl. reflexivity.
  Qed.

  (* whatever CheckDecode accepts is exactly CheckEncode of what it returns *)
  Theorem check_decode_reencode p v s :
    check_decode cksum s = Ok (p, v) -> check_encode cksum p v = Some s.
  Proof.
    unfold check_decode. intros H.
    destruct (b58_decode s) as [decoded| |] eqn:Ed; try discriminate H.
    destruct (blen decoded <? b58_min_decoded_len); [discriminate H|].
    destruct decoded as [|ver rest]; [discriminate H|].
    set (n := (List.length rest - N.to_nat b58_checksum_len)%nat) in *.
    destruct (bytes_eqb (cksum (ver :: firstn n rest)) (skipn n rest)) eqn:Ec; [|discriminate H].
    injection H as <- <-. apply bytes_eqb_eq in Ec.
    unfold check_encode. rewrite Ec. cbn [app]. rewrite firstn_skipn.
    apply b58_decode_reencode; [exact Ed | discriminate].
  Qed.

  Theorem check_encode_injective :
    (forall x, List.length (cksum x) = 4%nat) ->
    forall p1 v1 p2 v2 s, check_encode cksum p1 v1 = Some s -> check_encode cksum p2 v2 = Some s ->
                          p1 = p2 /\ v1 = v2.
  Proof.
    intros Hlen p1 v1 p2 v2 s H1 H2.
    apply (check_decode_encode Hlen) in H1. apply (check_decode_encode Hlen) in H2.
    rewrite H1 in H2. injection H2 as -> ->. auto.
  Qed.
End CheckProps.

(* the production checksum has four bytes *)
Lemma sha256d_cksum_length x : List.length (sha256d_cksum x) = 4%nat.
Proof.
  unfold sha256d_cksum. rewrite firstn_length, sha256_length.
  change (N.to_nat b58_checksum_len) with 4%nat. reflexivity.
Qed.
