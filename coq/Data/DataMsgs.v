(* Model of the x/data module state machine (property C16).

   Transcribed from
     x/data/msg_anchor.go, msg_attest.go, msg_define_resolver.go, msg_register_resolver.go   (ValidateBasic)
     x/data/server/msg_anchor.go    Anchor, anchorAndGetIRI, getOrCreateDataID, anchorAndGetTimestamp
     x/data/server/msg_attest.go    Attest
     x/data/server/msg_define_resolver.go    DefineResolver
     x/data/server/msg_register_resolver.go  RegisterResolver
   and the table definitions of proto/regen/data/v2/state.proto:
     DataID       primary key id,             unique index iri
     DataAnchor   primary key id
     DataAttestor primary key (id, attestor)
     Resolver     primary key id (auto increment), unique index (url, manager)
     DataResolver primary key (id, resolver_id)
   ORM rules used: Get/Has by primary key; Insert fails with AlreadyExists on an existing primary key
   and with UniqueKeyViolation when a unique index already holds the value; Save = insert or update;
   InsertReturningID allocates sequence+1.

   The ID digest function (BLAKE2b-64 in production) is the Section variable [H]; case files supply
   a finite table.  Accounts are harness account indices.  Model file: definitions only. *)
From Coq Require Import List ZArith NArith Bool Strings.Byte Strings.String.
Require Import Regen.Base.Bytes Regen.Base.Calendar Regen.Data.BytesExt Regen.Data.Base58 Regen.Data.Hasher
  Regen.Data.Iri Regen.Data.AList Regen.Generated.DataConsts.
Import ListNotations.
Local Open Scope N_scope.

Definition addr := N.

(* ---------- state ---------- *)

(* a Resolver row without its id: url, manager (None = public resolver: Manager is nil) *)
Definition resolver := (bytes * option addr)%type.

Record dstate := mkDState {
  data_ids : list (bytes * bytes);             (* DataID: id -> iri *)
  anchors : list (bytes * ts);                 (* DataAnchor: id -> timestamp *)
  attestors : list ((bytes * addr) * ts);      (* DataAttestor: (id, attestor) -> timestamp *)
  resolvers : list (N * resolver);             (* Resolver: id -> (url, manager) *)
  resolver_seq : N;                            (* the auto-increment sequence of Resolver *)
  data_resolvers : list (bytes * N)            (* DataResolver: (id, resolver_id) *)
}.

Definition empty_dstate : dstate := mkDState [] [] [] [] 0 [].

Definition set_data_ids (v : list (bytes * bytes)) (s : dstate) : dstate :=
  mkDState v (anchors s) (attestors s) (resolvers s) (resolver_seq s) (data_resolvers s).
Definition set_anchors (v : list (bytes * ts)) (s : dstate) : dstate :=
  mkDState (data_ids s) v (attestors s) (resolvers s) (resolver_seq s) (data_resolvers s).
Definition set_attestors (v : list ((bytes * addr) * ts)) (s : dstate) : dstate :=
  mkDState (data_ids s) (anchors s) v (resolvers s) (resolver_seq s) (data_resolvers s).
Definition set_resolvers (v : list (N * resolver)) (q : N) (s : dstate) : dstate :=
  mkDState (data_ids s) (anchors s) (attestors s) v q (data_resolvers s).
Definition set_data_resolvers (v : list (bytes * N)) (s : dstate) : dstate :=
  mkDState (data_ids s) (anchors s) (attestors s) (resolvers s) (resolver_seq s) v.

(* key equalities *)
Definition att_key_eqb (x y : bytes * addr) : bool := bytes_eqb (fst x) (fst y) && (snd x =? snd y).
Definition dr_key_eqb (x y : bytes * N) : bool := bytes_eqb (fst x) (fst y) && (snd x =? snd y).
Definition opt_addr_eqb (x y : option addr) : bool :=
  match x, y with Some a, Some c => a =? c | None, None => true | _, _ => false end.
Definition resolver_eqb (x y : resolver) : bool := bytes_eqb (fst x) (fst y) && opt_addr_eqb (snd x) (snd y).

(* table reads *)
Definition get_data_id (id : bytes) (s : dstate) : option bytes := alookup bytes_eqb id (data_ids s).
Definition get_anchor (id : bytes) (s : dstate) : option ts := alookup bytes_eqb id (anchors s).
Definition get_attestor (id : bytes) (a : addr) (s : dstate) : option ts := alookup att_key_eqb (id, a) (attestors s).
Definition get_resolver (rid : N) (s : dstate) : option resolver := alookup N.eqb rid (resolvers s).
Definition has_data_resolver (id : bytes) (rid : N) (s : dstate) : bool := smem dr_key_eqb (id, rid) (data_resolvers s).
(* the unique index DataID.iri *)
Definition iri_taken (iri : bytes) (ids : list (bytes * bytes)) : bool := avalue_taken (bytes_eqb iri) ids.
(* the unique index Resolver.(url, manager) *)
Definition resolver_taken (r : resolver) (rs : list (N * resolver)) : bool := avalue_taken (resolver_eqb r) rs.

(* ---------- messages, responses, errors ---------- *)

Inductive dmsg :=
  (* MsgAnchor{Sender, ContentHash *ContentHash}: None = nil pointer *)
| DAnchor (sender : addr) (ch : option content_hash)
  (* MsgAttest{Attestor, ContentHashes []*ContentHash_Graph}: graph hashes only *)
| DAttest (attestor : addr) (chs : list graph)
  (* MsgDefineResolver{Definer, ResolverUrl, Public}.  [url_ok] stands for
     "url.ParseRequestURI(m.ResolverUrl) returned a nil error" (net/url is not modelled; the case
     converter computes it with an independent port of ParseRequestURI) *)
| DDefineResolver (definer : addr) (url : bytes) (url_ok : bool) (public : bool)
  (* MsgRegisterResolver{Signer, ResolverId, ContentHashes []*ContentHash} *)
| DRegisterResolver (signer : addr) (resolver_id : N) (chs : list content_hash).

Inductive dresp :=
| RAnchored (iri : bytes) (timestamp : ts)          (* MsgAnchorResponse{Iri, Timestamp} *)
| RAttested (iris : list bytes) (timestamp : ts)    (* MsgAttestResponse{Iris (new attestations only), Timestamp} *)
| RDefined (resolver_id : N)                        (* MsgDefineResolverResponse{ResolverId} *)
| RRegistered.                                      (* MsgRegisterResolverResponse{} *)

Inductive derr :=
| EInvalidRequest        (* sdkerrors.ErrInvalidRequest: every ValidateBasic failure, ToIRI of an invalid hash *)
| EInvalidType           (* sdkerrors.ErrInvalidType: ContentHash.ToIRI with neither raw nor graph *)
| EIriFuel               (* model fuel of the base58 encoder (excluded by to_iri_no_fuel) *)
| EHasher (e : hasher_err)   (* CreateID would panic *)
| EProbeFuel             (* model fuel of the probe loop (excluded by C16_alloc_no_fuel) *)
| EIriUnique             (* ormerrors.UniqueKeyViolation: DataID insert with an IRI that already has another id *)
| EBlockTime             (* gogotypes.TimestampProto(BlockTime) failed: "invalid block time" *)
| EAlreadyExists         (* ormerrors.AlreadyExists: primary key present on Insert *)
| EResolverUnique        (* ormerrors.UniqueKeyViolation: (url, manager) already defined *)
| EResolverNotFound      (* sdkerrors.ErrNotFound *)
| EUnauthorized.         (* data.ErrUnauthorizedResolverManager *)

Inductive outcome :=
| DOk (r : dresp)
| DErr (e : derr).

(* ABCI (codespace, code) of an error; model-only errors have code 0 *)
Definition err_code (e : derr) : bytes * N :=
  match e with
  | EInvalidRequest => (b "sdk"%string, 18)
  | EInvalidType => (b "sdk"%string, 29)
  | EIriUnique | EResolverUnique => (b "orm"%string, 24)
  | EAlreadyExists => (b "orm"%string, 31)
  | EResolverNotFound => (b "sdk"%string, 38)
  | EUnauthorized => (b "regen.data"%string, 4)
  | EBlockTime => (b "undefined"%string, 1)
  | EHasher _ => (b "undefined"%string, 111222)   (* baseapp: recovered panic *)
  | EIriFuel | EProbeFuel => ([], 0)
  end.

(* ---------- ValidateBasic ---------- *)

(* The signer's bech32 check is outside the model: addresses are account indices (the converter
   rejects traces with a malformed address). *)
Definition validate_basic (m : dmsg) : bool :=
  match m with
  | DAnchor _ ch =>
      match ch with
      | None => false                                  (* "content hash cannot be empty" *)
      | Some c => valid_ch c                           (* m.ContentHash.Validate() *)
      end
  | DAttest _ chs =>
      match chs with
      | [] => false                                    (* "content hashes cannot be empty" *)
      | _ => forallb valid_graph chs                   (* hash.Validate() for each *)
      end
  | DDefineResolver _ _ url_ok _ => url_ok             (* url.ParseRequestURI *)
  | DRegisterResolver _ rid chs =>
      if rid =? 0 then false                           (* "resolver id cannot be empty" *)
      else match chs with
           | [] => false                               (* "content hashes cannot be empty" *)
           | _ => forallb valid_ch chs
           end
  end.

(* ---------- handlers ---------- *)

Definition of_iri_err (e : to_iri_err) : derr :=
  match e with TErrInvalidRequest => EInvalidRequest | TErrInvalidType => EInvalidType | TErrFuel => EIriFuel end.

Section Handlers.
  Variable H : bytes -> bytes.      (* hasher.Write(value); hasher.Sum(nil) *)

  (* getOrCreateDataID:
       dataID := &api.DataID{Iri: ""}
       for collisions := 0; dataID.Iri != iri; collisions++ {
         id = CreateID([]byte(iri), collisions)
         dataID, err = DataIDTable().Get(ctx, id)
         if not found { dataID = {id, iri}; err = Insert(dataID); if err != nil { return err } }
       }
       return id
     [probe] is the loop from counter [collisions] on, entered with dataID.Iri != iri. *)
  Fixpoint probe (fuel : nat) (iri : bytes) (collisions : N) (ids : list (bytes * bytes))
    : result derr (bytes * list (bytes * bytes)) :=
    match fuel with
    | O => Err EProbeFuel
    | S f =>
        match create_id H iri collisions with
        | Err e => Err (EHasher e)
        | Ok id =>
            match alookup bytes_eqb id ids with
            | Some iri' =>
                if bytes_eqb iri' iri then Ok (id, ids)              (* loop condition false: done *)
                else probe f iri (collisions + 1) ids                 (* id taken by another IRI *)
            | None =>
                (* Insert: primary key is free; the unique index on iri must be free as well *)
                if iri_taken iri ids then Err EIriUnique
                else Ok (id, ainsert id iri ids)
            end
        end
    end.

  (* fuel of the probe loop: C16_alloc_no_fuel shows it is never exhausted *)
  Definition probe_fuel (ids : list (bytes * bytes)) : nat :=
    List.length ids + N.to_nat hasher_digest_size + 2.

  Definition get_or_create_data_id (iri : bytes) (ids : list (bytes * bytes))
    : result derr (bytes * list (bytes * bytes)) :=
    match iri with
    | [] => Ok ([], ids)        (* dataID.Iri == iri before the first iteration: id stays nil (ToIRI never returns "") *)
    | _ => probe (probe_fuel ids) iri 0 ids
    end.

  (* anchorAndGetTimestamp *)
  Definition anchor_and_get_timestamp (t : ts) (id : bytes) (s : dstate) : result derr (ts * dstate) :=
    match get_anchor id s with
    | Some t0 => Ok (t0, s)
    | None =>
        if negb (ts_valid t) then Err EBlockTime          (* gogotypes.TimestampProto *)
        else Ok (t, set_anchors (ainsert id t (anchors s)) s)
    end.

  (* anchorAndGetIRI; [iri_r] is ch.ToIRI() *)
  Definition anchor_and_get_iri (t : ts) (iri_r : result to_iri_err bytes) (s : dstate)
    : result derr (bytes * bytes * ts * dstate) :=
    match iri_r with
    | Err e => Err (of_iri_err e)
    | Ok iri =>
        match get_or_create_data_id iri (data_ids s) with
        | Err e => Err e
        | Ok (id, ids') =>
            match anchor_and_get_timestamp t id (set_data_ids ids' s) with
            | Err e => Err e
            | Ok (tstamp, s') => Ok (iri, id, tstamp, s')
            end
        end
    end.

  (* Anchor *)
  Definition handle_anchor (t : ts) (ch : content_hash) (s : dstate) : result derr (dstate * dresp) :=
    match anchor_and_get_iri t (to_iri_sha ch) s with
    | Err e => Err e
    | Ok (iri, _, tstamp, s') => Ok (s', RAnchored iri tstamp)
    end.

  (* Attest: the loop over request.ContentHashes; [iris] are the IRIs of the new attestations *)
  Fixpoint attest_loop (t : ts) (attestor : addr) (chs : list graph) (s : dstate) (iris : list bytes)
    : result derr (dstate * list bytes) :=
    match chs with
    | [] => Ok (s, iris)
    | g :: rest =>
        match anchor_and_get_iri t (to_iri_graph sha256d_cksum g) s with
        | Err e => Err e
        | Ok (iri, id, _, s1) =>
            match get_attestor id attestor s1 with
            | Some _ => attest_loop t attestor rest s1 iris        (* found: no-op, continue *)
            | None =>
                attest_loop t attestor rest
                  (set_attestors (ainsert (id, attestor) t (attestors s1)) s1) (iris ++ [iri])
            end
        end
    end.

  Definition handle_attest (t : ts) (attestor : addr) (chs : list graph) (s : dstate)
    : result derr (dstate * dresp) :=
    match attest_loop t attestor chs s [] with
    | Err e => Err e
    | Ok (s', iris) => Ok (s', RAttested iris t)
    end.

  (* DefineResolver: InsertReturningID *)
  Definition handle_define_resolver (definer : addr) (url : bytes) (public : bool) (s : dstate)
    : result derr (dstate * dresp) :=
    let manager := if public then None else Some definer in
    let id := resolver_seq s + 1 in
    match get_resolver id s with
    | Some _ => Err EAlreadyExists
    | None =>
        if resolver_taken (url, manager) (resolvers s) then Err EResolverUnique
        else Ok (set_resolvers (ainsert id (url, manager) (resolvers s)) id s, RDefined id)
    end.

  (* RegisterResolver: the loop over msg.ContentHashes *)
  Fixpoint register_loop (t : ts) (rid : N) (chs : list content_hash) (s : dstate) : result derr dstate :=
    match chs with
    | [] => Ok s
    | ch :: rest =>
        match anchor_and_get_iri t (to_iri_sha ch) s with
        | Err e => Err e
        | Ok (_, id, _, s1) =>
            register_loop t rid rest (set_data_resolvers (sadd dr_key_eqb (id, rid) (data_resolvers s1)) s1)
        end
    end.

  Definition handle_register_resolver (t : ts) (signer : addr) (rid : N) (chs : list content_hash) (s : dstate)
    : result derr (dstate * dresp) :=
    match get_resolver rid s with
    | None => Err EResolverNotFound
    | Some (_, manager) =>
        (* if resolver isn't public, the signer must be the manager *)
        let authorized := match manager with Some m => m =? signer | None => true end in
        if negb authorized then Err EUnauthorized
        else match register_loop t rid chs s with
             | Err e => Err e
             | Ok s' => Ok (s', RRegistered)
             end
    end.

  Definition handle (t : ts) (m : dmsg) (s : dstate) : result derr (dstate * dresp) :=
    match m with
    | DAnchor _ ch =>
        match ch with
        | Some c => handle_anchor t c s
        | None => Err EInvalidRequest        (* unreachable after validate_basic *)
        end
    | DAttest a chs => handle_attest t a chs s
    | DDefineResolver d url _ pub => handle_define_resolver d url pub s
    | DRegisterResolver sg rid chs => handle_register_resolver t sg rid chs s
    end.

  (* One transaction with one message at block time [t]: ValidateBasic, then the handler on a cached
     store that is written back only on success. *)
  Definition deliver (t : ts) (s : dstate) (m : dmsg) : dstate * outcome :=
    if negb (validate_basic m) then (s, DErr EInvalidRequest)
    else match handle t m s with
         | Ok (s', r) => (s', DOk r)
         | Err e => (s, DErr e)
         end.

  (* histories: block times and messages *)
  Inductive devent :=
  | DBegin (t : ts)          (* BeginBlock: new block time *)
  | DMsg (m : dmsg).

  Definition dstep (ts_s : ts * dstate) (e : devent) : ts * dstate :=
    let (t, s) := ts_s in
    match e with
    | DBegin t' => (t', s)
    | DMsg m => (t, fst (deliver t s m))
    end.

  Definition drun (t0 : ts) (s : dstate) (h : list devent) : ts * dstate := fold_left dstep h (t0, s).
End Handlers.
