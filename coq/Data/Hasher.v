(* Model of x/data/server/hasher: hasher.CreateID.

   The hash function (BLAKE2b with an 8-byte digest in production) is a parameter: [H value] is
   what hasher.Sum(nil) returns after hasher.Write(value).  [hash_len] is the struct field
   t.hashLen (= len(newHash().Sum(nil))), [min_len] is t.minLen, bufLen = hash_len + MaxVarintLen64.

     id = make([]byte, minLen, bufLen); copy(id, hashBz[:minLen])
     if minLen+collisions < hashLen { id = append(id, hashBz[collisions]) }
     else { id = id[:bufLen]; n := PutUvarint(id[hashLen:], uint64(collisions)); id = id[:hashLen+n] }

   Note that the short branch appends hashBz[collisions] (NOT hashBz[minLen+collisions]) and that
   id[minLen:hashLen] are zero bytes in the long branch. *)
From Coq Require Import List NArith Bool Strings.Byte.
Require Import Regen.Base.Bytes Regen.Data.BytesExt Regen.Data.Varint Regen.Generated.DataConsts.
Import ListNotations.
Local Open Scope N_scope.

Inductive hasher_err :=
| HPanic            (* Go would panic: slice/index out of range on hashBz *)
| HCollisionsRange. (* collisions outside the uint64 range handled by PutUvarint's buffer *)

(* [x < y] on Go's 64-bit int where x is a sum that may have wrapped around: a sum of two
   non-negative ints that reaches 2^63 is negative, hence smaller than any non-negative y.
   (CreateID(v, math.MaxInt64) takes the short branch and panics on hashBz[collisions].) *)
Definition int_lt (x y : N) : bool := (x <? y) || (9223372036854775808 <=? x).

Section Hasher.
  Variable min_len hash_len : N.
  Variable H : bytes -> bytes.

  Definition create_id_with (value : bytes) (collisions : N) : result hasher_err bytes :=
    let hashBz := H value in
    if blen hashBz <? min_len then Err HPanic
    else
      let id := firstn (N.to_nat min_len) hashBz in
      if int_lt (min_len + collisions) hash_len then
        if blen hashBz <=? collisions then Err HPanic   (* hashBz[collisions] out of range *)
        else match nth_error hashBz (N.to_nat collisions) with
             | Some x => Ok (id ++ [x])
             | None => Err HPanic
             end
      else
        match uvarint collisions with
        | Some u => Ok (id ++ repeat x00 (N.to_nat (hash_len - min_len)) ++ u)
        | None => Err HCollisionsRange
        end.
End Hasher.

(* hasher.NewHasher(): minLength 4, blake2b.New(8, nil) *)
Definition create_id (H : bytes -> bytes) (value : bytes) (collisions : N) : result hasher_err bytes :=
  create_id_with hasher_min_len hasher_digest_size H value collisions.

(* observed with the production hasher: BLAKE2b-64("abc") = d8bb14d833d59559 *)
Definition h_abc : bytes := [xd8;xbb;x14;xd8;x33;xd5;x95;x59].
Example create_id_abc_0 : create_id (fun _ => h_abc) [] 0 = Ok [xd8;xbb;x14;xd8;xd8].
Proof. reflexivity. Qed.
Example create_id_abc_3 : create_id (fun _ => h_abc) [] 3 = Ok [xd8;xbb;x14;xd8;xd8].
Proof. reflexivity. Qed.
Example create_id_abc_4 : create_id (fun _ => h_abc) [] 4 = Ok [xd8;xbb;x14;xd8;x00;x00;x00;x00;x04].
Proof. reflexivity. Qed.
Example create_id_abc_300 :
  create_id (fun _ => h_abc) [] 300 = Ok [xd8;xbb;x14;xd8;x00;x00;x00;x00;xac;x02].
Proof. reflexivity. Qed.
