(* Model of x/data/iri.go (ToIRI, ParseIRI) and of the ContentHash validation in x/data/types.go.

   A Go ContentHash is a struct with two optional pointers (Raw, Graph); both, one or none may be set.
   The uint32 algorithm fields are N (the theorems bound them only through [valid_ch]); the
   byte(x) conversions of ToIRI are modelled as truncation.  Strings are byte lists. *)
From Coq Require Import List NArith Bool Strings.Byte Strings.String.
Require Import Regen.Base.Bytes Regen.Data.BytesExt Regen.Data.Base58 Regen.Generated.DataConsts.
Import ListNotations.
Local Open Scope N_scope.

Record raw := mkRaw { r_hash : bytes; r_digest : N; r_ext : bytes }.
Record graph := mkGraph { g_hash : bytes; g_digest : N; g_canon : N; g_merkle : N }.
Record content_hash := mkCH { ch_raw : option raw; ch_graph : option graph }.

Definition ch_of_raw (r : raw) : content_hash := mkCH (Some r) None.
Definition ch_of_graph (g : graph) : content_hash := mkCH None (Some g).

(* ---------- types.go: validation ---------- *)

(* validateHash *)
Definition validate_hash (hash : bytes) (digest : N) : bool :=
  negb (blen hash <? hash_min_len) && negb (hash_max_len <? blen hash)
  && negb (digest =? 0) && negb (max_iri_algorithm <? digest).

(* c < '0' || c > '9' && c < 'a' || c > 'z'  (the Go loop ranges over runes; every byte of a
   non-ASCII rune and the rune itself are > 'z', so the byte-wise check accepts the same strings) *)
Definition ext_char_bad (c : byte) : bool :=
  let v := byte_N c in
  (v <? ext_char_0) || ((ext_char_9 <? v) && (v <? ext_char_a)) || (ext_char_z <? v).

(* ContentHash_Raw.Validate *)
Definition valid_raw (r : raw) : bool :=
  validate_hash (r_hash r) (r_digest r)
  && negb (blen (r_ext r) <? ext_min_len) && negb (ext_max_len <? blen (r_ext r))
  && forallb (fun c => negb (ext_char_bad c)) (r_ext r).

(* ContentHash_Graph.Validate *)
Definition valid_graph (g : graph) : bool :=
  validate_hash (g_hash g) (g_digest g)
  && negb (g_canon g =? 0) && negb (max_iri_algorithm <? g_canon g)
  && negb (max_iri_algorithm <? g_merkle g).

(* ContentHash.Validate (true = nil error; the only error class is ErrInvalidRequest) *)
Definition valid_ch (ch : content_hash) : bool :=
  match ch_raw ch, ch_graph ch with
  | Some _, Some _ => false
  | Some r, None => valid_raw r
  | None, Some g => valid_graph g
  | None, None => false
  end.

(* ---------- iri.go ---------- *)
Inductive to_iri_err :=
| TErrInvalidRequest   (* Validate failed: sdkerrors.ErrInvalidRequest *)
| TErrInvalidType      (* neither raw nor graph: sdkerrors.ErrInvalidType *)
| TErrFuel.            (* model ran out of fuel (excluded by the theorems) *)

Inductive parse_err :=
| PEmpty | PNoPrefix | PParts | PCheckFormat | PChecksum | PVersion | PGraphExt | PUnknownType
                       (* all wrapped in data.ErrInvalidIRI *)
| PEOF                 (* bytes.Buffer.ReadByte failed: a bare io.EOF *)
| PPanic               (* base58.Decode indexes its table out of range *)
| PFuel.               (* model ran out of fuel (excluded by the theorems) *)

Section Iri.
  Variable cksum : bytes -> bytes.

  (* ContentHash_Raw.ToIRI *)
  Definition to_iri_raw (r : raw) : result to_iri_err bytes :=
    if negb (valid_raw r) then Err TErrInvalidRequest
    else
      let bz := byte_of_N_trunc iri_prefix_raw :: byte_of_N_trunc (r_digest r) :: r_hash r in
      match check_encode cksum bz (byte_of_N_trunc iri_version0) with
      | Some hashStr => Ok (sprintf_s iri_raw_format [hashStr; r_ext r])
      | None => Err TErrFuel
      end.

  (* ContentHash_Graph.ToIRI *)
  Definition to_iri_graph (g : graph) : result to_iri_err bytes :=
    if negb (valid_graph g) then Err TErrInvalidRequest
    else
      let bz := byte_of_N_trunc iri_prefix_graph :: byte_of_N_trunc (g_canon g)
                :: byte_of_N_trunc (g_merkle g) :: byte_of_N_trunc (g_digest g) :: g_hash g in
      match check_encode cksum bz (byte_of_N_trunc iri_version0) with
      | Some hashStr => Ok (sprintf_s iri_graph_format [hashStr])
      | None => Err TErrFuel
      end.

  (* ContentHash.ToIRI: raw wins when both are set *)
  Definition to_iri (ch : content_hash) : result to_iri_err bytes :=
    match ch_raw ch with
    | Some r => to_iri_raw r
    | None =>
        match ch_graph ch with
        | Some g => to_iri_graph g
        | None => Err TErrInvalidType
        end
    end.

  (* ParseIRI, after the split: base58check-decode the hash part and read the fields *)
  Definition parse_parts (hashPart ext : bytes) : result parse_err content_hash :=
    match check_decode cksum hashPart with
    | Err ErrInvalidFormat => Err PCheckFormat
    | Err ErrChecksum => Err PChecksum
    | Err ErrDecodePanic => Err PPanic
    | Err ErrDecodeFuel => Err PFuel
    | Ok (res, version) =>
      match res with
      | [] => Err PEOF
      | typ :: r1 =>
        if byte_N typ =? iri_prefix_raw then
          match r1 with
          | [] => Err PEOF
          | b0 :: hash =>
              if negb (byte_N version =? iri_version0) then Err PVersion
              else Ok (ch_of_raw (mkRaw hash (byte_N b0) ext))
          end
        else if byte_N typ =? iri_prefix_graph then
          if negb (bytes_eqb ext iri_parse_graph_ext) then Err PGraphExt
          else match r1 with
          | bC14NAlg :: bMtAlg :: bDigestAlg :: hash =>
              if negb (byte_N version =? iri_version0) then Err PVersion
              else Ok (ch_of_graph (mkGraph hash (byte_N bDigestAlg) (byte_N bC14NAlg) (byte_N bMtAlg)))
          | _ => Err PEOF
          end
        else Err PUnknownType
      end
    end.

  (* ParseIRI *)
  Definition parse_iri (iri : bytes) : result parse_err content_hash :=
    match iri with
    | [] => Err PEmpty
    | _ =>
      if negb (has_prefix iri_parse_prefix iri) then Err PNoPrefix
      else
        let hashExtPart := skipn (List.length iri_parse_prefix) iri in
        let parts := split_on (byte_of_N_trunc iri_parse_sep) hashExtPart in
        if negb (N.of_nat (List.length parts) =? iri_parse_parts) then Err PParts
        else match parts with
             | hashPart :: ext :: _ => parse_parts hashPart ext
             | _ => Err PParts
             end
    end.
End Iri.

(* the production instances *)
Definition to_iri_sha := to_iri sha256d_cksum.
Definition parse_iri_sha := parse_iri sha256d_cksum.

Local Open Scope string_scope.
(* doc comment of ToIRI / x/data/iri_test.go *)
Example iri_zero_raw :
  to_iri_sha (ch_of_raw (mkRaw (repeat x00 32) 1 (b "rdf")))
  = Ok (b "regen:112wkBET2rRgE8pahuaczxKbmv7ciehqsne57F9gtzf1PVhwuFTX.rdf").
Proof. vm_compute. reflexivity. Qed.
