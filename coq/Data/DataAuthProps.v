(* Who can create which row (state-based authorization, part of C16):
     - a DataResolver row (id, rid) appears only through a MsgRegisterResolver for resolver rid whose
       signer is the resolver's manager (or the resolver is public);
     - a DataAttestor row (id, a) appears only through a MsgAttest signed by a;
     - a Resolver row appears only through MsgDefineResolver and its manager is the definer or nobody.
   Frame lemmas: which tables each handler leaves alone.  Arbitrary digest function H. *)
From Coq Require Import List ZArith NArith Bool Lia Strings.Byte.
Require Import Regen.Base.Bytes Regen.Base.Calendar Regen.Data.BytesExt Regen.Data.Base58 Regen.Data.Hasher
  Regen.Data.Iri Regen.Data.AList Regen.Data.DataMsgs Regen.Data.DataAListProps Regen.Data.DataStepProps.
Import ListNotations.
Local Open Scope N_scope.

Section Auth.
  Variable H : bytes -> bytes.

  (* anchorAndGetIRI touches DataID and DataAnchor only *)
  Lemma anchor_and_get_iri_frame t iri_r s iri id tstamp s' :
    anchor_and_get_iri H t iri_r s = Ok (iri, id, tstamp, s') ->
    attestors s' = attestors s /\ resolvers s' = resolvers s /\ resolver_seq s' = resolver_seq s /\
    data_resolvers s' = data_resolvers s.
  Proof.
    unfold anchor_and_get_iri. destruct iri_r as [iri0|e]; [|discriminate].
    destruct (get_or_create_data_id H iri0 (data_ids s)) as [[id0 ids']|e]; [|discriminate].
    unfold anchor_and_get_timestamp. destruct (get_anchor id0 (set_data_ids ids' s)).
    - intros [= _ _ _ <-]. repeat split.
    - destruct (negb (ts_valid t)); [discriminate|]. intros [= _ _ _ <-]. repeat split.
  Qed.

  Lemma attest_loop_frame t a : forall chs s iris s' iris',
    attest_loop H t a chs s iris = Ok (s', iris') ->
    resolvers s' = resolvers s /\ resolver_seq s' = resolver_seq s /\ data_resolvers s' = data_resolvers s /\
    (forall id a' t', get_attestor id a' s' = Some t' -> get_attestor id a' s = Some t' \/ a' = a).
  Proof.
    induction chs as [|g chs IH]; intros s iris s' iris'; cbn [attest_loop].
    - intros [= <- <-]. repeat split. intros; left; assumption.
    - destruct (anchor_and_get_iri H t (to_iri_graph sha256d_cksum g) s) as [[[[iri id] tstamp] s1]|e] eqn:E; [|discriminate].
      apply anchor_and_get_iri_frame in E. destruct E as (Ea & Er & Eq & Ed).
      destruct (get_attestor id a s1) as [t0|] eqn:Eat; intros Hl; apply IH in Hl; destruct Hl as (Hr & Hq & Hd & Ha).
      + repeat split; try congruence. intros i a' t' Hg. destruct (Ha _ _ _ Hg) as [Hg1 | ->]; [left | right; reflexivity].
        unfold get_attestor in *. rewrite <- Ea. exact Hg1.
      + cbn [resolvers resolver_seq data_resolvers set_attestors] in *. repeat split; try congruence.
        intros i a' t' Hg. destruct (Ha _ _ _ Hg) as [Hg1 | ->]; [|right; reflexivity].
        unfold get_attestor in Hg1. cbn [attestors set_attestors ainsert alookup] in Hg1.
        destruct (att_key_eqb (i, a') (id, a)) eqn:Ek.
        * apply att_key_eqb_ok in Ek. injection Ek as _ ->. right. reflexivity.
        * left. unfold get_attestor. rewrite <- Ea. exact Hg1.
  Qed.

  Lemma register_loop_frame t rid : forall chs s s',
    register_loop H t rid chs s = Ok s' ->
    attestors s' = attestors s /\ resolvers s' = resolvers s /\ resolver_seq s' = resolver_seq s /\
    (forall id rid', In (id, rid') (data_resolvers s') -> In (id, rid') (data_resolvers s) \/ rid' = rid).
  Proof.
    induction chs as [|ch chs IH]; intros s s'; cbn [register_loop].
    - intros [= <-]. repeat split. intros; left; assumption.
    - destruct (anchor_and_get_iri H t (to_iri_sha ch) s) as [[[[iri id] tstamp] s1]|e] eqn:E; [|discriminate].
      apply anchor_and_get_iri_frame in E. destruct E as (Ea & Er & Eq & Ed).
      intros Hl. apply IH in Hl. destruct Hl as (Ha' & Hr' & Hq' & Hd').
      cbn [attestors resolvers resolver_seq data_resolvers set_data_resolvers] in *. repeat split; try congruence.
      intros i rid' Hin. destruct (Hd' _ _ Hin) as [Hin1 | ->]; [|right; reflexivity].
      unfold sadd in Hin1. destruct (smem dr_key_eqb (id, rid) (data_resolvers s1)).
      + left. rewrite <- Ed. exact Hin1.
      + destruct Hin1 as [[= _ <-] | Hin1]; [right; reflexivity | left; rewrite <- Ed; exact Hin1].
  Qed.

  Lemma has_data_resolver_In id rid s : has_data_resolver id rid s = true <-> In (id, rid) (data_resolvers s).
  Proof. apply (smem_true_iff _ dr_key_eqb_ok). Qed.

  (* A registration row that was not there before the transaction: the message was a
     MsgRegisterResolver for that resolver, and its signer is the manager unless the resolver is public. *)
  Theorem C16_registration_authorized t s m id rid :
    has_data_resolver id rid s = false -> has_data_resolver id rid (fst (deliver H t s m)) = true ->
    exists sg chs url mgr, m = DRegisterResolver sg rid chs /\ get_resolver rid s = Some (url, mgr) /\
                           (forall a, mgr = Some a -> a = sg).
  Proof.
    intros Hold Hnew. assert (Hnot : ~ In (id, rid) (data_resolvers s)).
    { intros Hin. apply has_data_resolver_In in Hin. congruence. }
    apply has_data_resolver_In in Hnew. revert Hnew. unfold deliver.
    destruct (negb (validate_basic m)); cbn [fst]; [contradiction|].
    destruct (handle H t m s) as [[s' r]|e] eqn:Eh; cbn [fst]; [|contradiction].
    destruct m as [sd [ch|] | a chs | d url uok pub | sg rid' chs]; cbn [handle] in Eh.
    - unfold handle_anchor in Eh.
      destruct (anchor_and_get_iri H t (to_iri_sha ch) s) as [[[[iri i] tstamp] s1]|e] eqn:E; [|discriminate].
      injection Eh as <- _. apply anchor_and_get_iri_frame in E. destruct E as (_ & _ & _ & ->). contradiction.
    - discriminate.
    - unfold handle_attest in Eh. destruct (attest_loop H t a chs s []) as [[s1 iris]|e] eqn:E; [|discriminate].
      injection Eh as <- _. apply attest_loop_frame in E. destruct E as (_ & _ & -> & _). contradiction.
    - unfold handle_define_resolver in Eh. destruct (get_resolver _ s); [discriminate|].
      destruct (resolver_taken _ _); [discriminate|]. injection Eh as <- _. cbn. contradiction.
    - pose proof Eh as Eh'. apply handle_register_resolver_spec in Eh'.
      destruct Eh' as (_ & _ & url & mgr & Hg & Hm).
      unfold handle_register_resolver in Eh. rewrite Hg in Eh. destruct (negb _); [discriminate|].
      destruct (register_loop H t rid' chs s) as [s1|e] eqn:E; [|discriminate]. injection Eh as <- _.
      apply register_loop_frame in E. destruct E as (_ & _ & _ & Hd). intros Hin.
      destruct (Hd _ _ Hin) as [Hin0 | ->]; [contradiction|].
      exists sg, chs, url, mgr. repeat split; assumption.
  Qed.

  (* An attestation row that was not there before the transaction was written by a MsgAttest of that attestor. *)
  Theorem C16_attestation_authorized t s m id a t' :
    get_attestor id a s = None -> get_attestor id a (fst (deliver H t s m)) = Some t' ->
    exists chs, m = DAttest a chs.
  Proof.
    intros Hold. unfold deliver.
    destruct (negb (validate_basic m)); cbn [fst]; [congruence|].
    destruct (handle H t m s) as [[s' r]|e] eqn:Eh; cbn [fst]; [|congruence].
    destruct m as [sd [ch|] | a0 chs | d url uok pub | sg rid' chs]; cbn [handle] in Eh.
    - unfold handle_anchor in Eh.
      destruct (anchor_and_get_iri H t (to_iri_sha ch) s) as [[[[iri i] tstamp] s1]|e] eqn:E; [|discriminate].
      injection Eh as <- _. apply anchor_and_get_iri_frame in E. destruct E as (Ea & _).
      unfold get_attestor in *. rewrite Ea. congruence.
    - discriminate.
    - unfold handle_attest in Eh. destruct (attest_loop H t a0 chs s []) as [[s1 iris]|e] eqn:E; [|discriminate].
      injection Eh as <- _. apply attest_loop_frame in E. destruct E as (_ & _ & _ & Ha). intros Hnew.
      destruct (Ha _ _ _ Hnew) as [Hg | ->]; [congruence|]. exists chs. reflexivity.
    - unfold handle_define_resolver in Eh. destruct (get_resolver _ s); [discriminate|].
      destruct (resolver_taken _ _); [discriminate|]. injection Eh as <- _. unfold get_attestor in *. cbn. congruence.
    - unfold handle_register_resolver in Eh. destruct (get_resolver rid' s) as [[url mgr]|]; [|discriminate].
      destruct (negb _); [discriminate|].
      destruct (register_loop H t rid' chs s) as [s1|e] eqn:E; [|discriminate]. injection Eh as <- _.
      apply register_loop_frame in E. destruct E as (Ea & _). unfold get_attestor in *. rewrite Ea. congruence.
  Qed.

  (* A resolver row that was not there before was defined by this message; its manager is the definer
     (private) or nobody (public), and its id is the next value of the sequence. *)
  Theorem C16_resolver_defined t s m rid url mgr :
    get_resolver rid s = None -> get_resolver rid (fst (deliver H t s m)) = Some (url, mgr) ->
    exists d uok pub, m = DDefineResolver d url uok pub /\ mgr = (if pub then None else Some d) /\
                      rid = resolver_seq s + 1.
  Proof.
    intros Hold. unfold deliver.
    destruct (negb (validate_basic m)); cbn [fst]; [congruence|].
    destruct (handle H t m s) as [[s' r]|e] eqn:Eh; cbn [fst]; [|congruence].
    destruct m as [sd [ch|] | a0 chs | d url0 uok pub | sg rid' chs]; cbn [handle] in Eh.
    - unfold handle_anchor in Eh.
      destruct (anchor_and_get_iri H t (to_iri_sha ch) s) as [[[[iri i] tstamp] s1]|e] eqn:E; [|discriminate].
      injection Eh as <- _. apply anchor_and_get_iri_frame in E. destruct E as (_ & Er & _).
      unfold get_resolver in *. rewrite Er. congruence.
    - discriminate.
    - unfold handle_attest in Eh. destruct (attest_loop H t a0 chs s []) as [[s1 iris]|e] eqn:E; [|discriminate].
      injection Eh as <- _. apply attest_loop_frame in E. destruct E as (Er & _).
      unfold get_resolver in *. rewrite Er. congruence.
    - unfold handle_define_resolver in Eh. destruct (get_resolver (resolver_seq s + 1) s) eqn:Eg; [discriminate|].
      destruct (resolver_taken _ _); [discriminate|]. injection Eh as <- _.
      unfold get_resolver in *. cbn [resolvers set_resolvers ainsert alookup].
      destruct (rid =? resolver_seq s + 1) eqn:Ek; [|congruence]. apply N.eqb_eq in Ek.
      intros [= <- <-]. exists d, uok, pub. repeat split. exact Ek.
    - unfold handle_register_resolver in Eh. destruct (get_resolver rid' s) as [[url1 mgr1]|]; [|discriminate].
      destruct (negb _); [discriminate|].
      destruct (register_loop H t rid' chs s) as [s1|e] eqn:E; [|discriminate]. injection Eh as <- _.
      apply register_loop_frame in E. destruct E as (_ & Er & _). unfold get_resolver in *. rewrite Er. congruence.
  Qed.
End Auth.
