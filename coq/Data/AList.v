(* Association lists as finite maps / finite sets with a boolean key equality (stdlib only).
   Used by the x/data state model: every ORM table is a list of (primary key, value) pairs and every
   key-only table a list of keys.  New entries are consed in front; the model never removes an entry
   (the x/data module has no Delete and no Update of a stored row).

   Model file: executable definitions only.  The lemmas are in DataAListProps.v. *)
From Coq Require Import List Bool.
Import ListNotations.

Section AList.
  Context {K V : Type}.
  Variable eqb : K -> K -> bool.

  (* ORM Get by primary key *)
  Fixpoint alookup (k : K) (l : list (K * V)) : option V :=
    match l with
    | [] => None
    | (k', v) :: l' => if eqb k k' then Some v else alookup k l'
    end.

  (* ORM Has by primary key *)
  Definition amem (k : K) (l : list (K * V)) : bool :=
    match alookup k l with Some _ => true | None => false end.

  (* the write half of ORM Insert; the caller has checked that [k] is absent *)
  Definition ainsert (k : K) (v : V) (l : list (K * V)) : list (K * V) := (k, v) :: l.

  (* key-only tables *)
  Definition smem (k : K) (l : list K) : bool := existsb (eqb k) l.
  (* ORM Save on a key-only table: insert unless present *)
  Definition sadd (k : K) (l : list K) : list K := if smem k l then l else k :: l.
End AList.

(* a secondary (unique) index: is there a row whose value satisfies [p]? *)
Definition avalue_taken {K V : Type} (p : V -> bool) (l : list (K * V)) : bool :=
  existsb (fun kv => p (snd kv)) l.
