(* Tie between the hand-written IRI model and the source layout it transcribes (regenerated facts). *)
From Coq Require Import List NArith Strings.String Strings.Byte.
Require Import Regen.Base.Bytes Regen.Generated.DataConsts.
Import ListNotations.
Local Open Scope string_scope.

(* Data/Iri.v writes each algorithm identifier with a truncating byte() conversion, in this order,
   followed by the hash at these offsets; validation bounds exactly these three fields by 255. *)
Theorem iri_layout_matches :
  iri_field_conv_is_byte_trunc = true /\ iri_raw_hash_offset = 2%N /\ iri_graph_hash_offset = 4%N /\
  iri_raw_field_order = [b "DigestAlgorithm"] /\
  iri_graph_field_order = [b "CanonicalizationAlgorithm"; b "MerkleTree"; b "DigestAlgorithm"] /\
  bounded_fields = [b "canonicalization"; b "digest"; b "merkle"].
Proof. repeat split; reflexivity. Qed.
