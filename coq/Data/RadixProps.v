(* Positional notation in a base B >= 2: minimal big-endian digit lists are in bijection with N,
   and re-basing a digit list while keeping its leading zeros (conv) is invertible.
   Instantiated at (256, 58) and (58, 256) this is Decode(Encode(b)) = b and Encode(Decode(s)) = s. *)
From Coq Require Import List NArith Lia Bool.
Require Import Regen.Data.Base58.
Import ListNotations.
Local Open Scope N_scope.

Section OneBase.
  Variable B : N.
  Hypothesis HB : 2 <= B.

  Fixpoint val_le (l : list N) : N :=
    match l with
    | [] => 0
    | d :: l' => d + B * val_le l'
    end.

  Definition digits_lt (l : list N) : Prop := Forall (fun d => d < B) l.

  Lemma of_digits_be_snoc l d : of_digits_be B (l ++ [d]) = of_digits_be B l * B + d.
  Proof. unfold of_digits_be. rewrite fold_left_app. reflexivity. Qed.

  Lemma of_digits_be_rev l : of_digits_be B l = val_le (rev l).
  Proof.
    induction l as [|d l IH] using rev_ind; [reflexivity|].
    rewrite of_digits_be_snoc, rev_app_distr. cbn [rev app val_le]. rewrite IH. lia.
  Qed.

  Lemma val_le_pos l : l <> [] -> last l 1 <> 0 -> 0 < val_le l.
  Proof.
    induction l as [|d l IH]; intros Hne Hlast; [congruence|].
    cbn [val_le]. destruct l as [|e l'].
    - cbn in Hlast. cbn [val_le]. lia.
    - assert (Hpos : 0 < val_le (e :: l')) by (apply IH; [discriminate | exact Hlast]).
      nia.
  Qed.

  (* to_digits_le produces the canonical little-endian digits *)
  Lemma to_digits_le_spec fuel : forall x, x < 2 ^ N.of_nat fuel ->
    exists l, to_digits_le B fuel x = Some l /\ val_le l = x /\ digits_lt l /\ last l 1 <> 0.
  Proof.
    induction fuel as [|f IH]; intros x Hx.
    - change (2 ^ N.of_nat 0) with 1 in Hx. assert (x = 0) by lia. subst x. exists []. cbn. repeat split; [constructor | lia].
    - cbn [to_digits_le]. destruct (x =? 0) eqn:Ex.
      + apply N.eqb_eq in Ex. subst x. exists []. cbn. repeat split; [constructor | lia].
      + apply N.eqb_neq in Ex.
        assert (Hpow : 2 ^ N.of_nat (S f) = 2 * 2 ^ N.of_nat f).
        { rewrite Nat2N.inj_succ, N.pow_succ_r'. reflexivity. }
        assert (Hdm : x = B * (x / B) + x mod B) by (apply N.div_mod; lia).
        assert (Hmod : x mod B < B) by (apply N.mod_lt; lia).
        assert (H2q : 2 * (x / B) <= B * (x / B)) by (apply N.mul_le_mono_r; lia).
        assert (Hq : x / B < 2 ^ N.of_nat f).
        { rewrite Hpow in Hx. generalize dependent (2 ^ N.of_nat f). generalize dependent (x / B).
          generalize dependent (x mod B). intros. nia. }
        destruct (IH _ Hq) as (l' & Hl' & Hval & Hlt & Hlast).
        exists (x mod B :: l'). rewrite Hl'. cbn [option_map val_le]. repeat split.
        * rewrite Hval. lia.
        * constructor; assumption.
        * destruct l' as [|e l'']; [|exact Hlast].
          cbn [val_le] in Hval. cbn [last]. lia.
  Qed.

  (* ... and only those: canonical digits are recovered from their value *)
  Lemma to_digits_le_canon : forall l fuel, digits_lt l -> last l 1 <> 0 ->
    val_le l < 2 ^ N.of_nat fuel -> to_digits_le B fuel (val_le l) = Some l.
  Proof.
    induction l as [|d l IH]; intros fuel Hlt Hlast Hfuel.
    - destruct fuel; reflexivity.
    - assert (Hd : d < B) by (inversion Hlt; assumption).
      assert (Hlt' : digits_lt l) by (inversion Hlt; assumption).
      assert (Hpos : 0 < val_le (d :: l)) by (apply val_le_pos; [discriminate | exact Hlast]).
      assert (Hlast' : last l 1 <> 0) by (destruct l; [cbn; lia | exact Hlast]).
      cbn [val_le] in *.
      destruct fuel as [|f]; [change (2 ^ N.of_nat 0) with 1 in Hfuel; lia|].
      cbn [to_digits_le].
      destruct (d + B * val_le l =? 0) eqn:E; [apply N.eqb_eq in E; lia|].
      assert (Hpow : 2 ^ N.of_nat (S f) = 2 * 2 ^ N.of_nat f).
      { rewrite Nat2N.inj_succ, N.pow_succ_r'. reflexivity. }
      assert (Hq : (d + B * val_le l) / B = val_le l).
      { symmetry. apply (N.div_unique _ _ _ d); lia. }
      assert (Hm : (d + B * val_le l) mod B = d).
      { symmetry. apply (N.mod_unique _ _ (val_le l)); lia. }
      assert (H2q : 2 * val_le l <= B * val_le l) by (apply N.mul_le_mono_r; lia).
      rewrite Hq, Hm. rewrite IH; [reflexivity | assumption | assumption | lia].
  Qed.

  Lemma hd_rev (l : list N) d : hd d (rev l) = last l d.
  Proof.
    induction l as [|a l IH] using rev_ind; [reflexivity|].
    rewrite rev_app_distr, last_last. reflexivity.
  Qed.

  Lemma size_fuel x : x < 2 ^ N.of_nat (N.to_nat (N.size x)).
  Proof. rewrite N2Nat.id. apply N.size_gt. Qed.

  (* big-endian statements *)
  Lemma to_digits_be_spec x :
    exists l, to_digits_be B x = Some l /\ of_digits_be B l = x /\ digits_lt l /\ hd 1 l <> 0.
  Proof.
    unfold to_digits_be.
    destruct (to_digits_le_spec _ x (size_fuel x)) as (l & Hl & Hval & Hlt & Hlast).
    exists (rev l). rewrite Hl. cbn [option_map]. repeat split.
    - rewrite of_digits_be_rev, rev_involutive. exact Hval.
    - apply Forall_rev. exact Hlt.
    - rewrite hd_rev. exact Hlast.
  Qed.

  Lemma to_digits_be_of r : digits_lt r -> hd 1 r <> 0 ->
    to_digits_be B (of_digits_be B r) = Some r.
  Proof.
    intros Hlt Hhd. unfold to_digits_be. rewrite of_digits_be_rev.
    rewrite to_digits_le_canon.
    - cbn [option_map]. rewrite rev_involutive. reflexivity.
    - apply Forall_rev. exact Hlt.
    - rewrite <- hd_rev, rev_involutive. exact Hhd.
    - apply size_fuel.
  Qed.

  Lemma of_digits_be_zeros k r : of_digits_be B (repeat 0 k ++ r) = of_digits_be B r.
  Proof.
    unfold of_digits_be. rewrite fold_left_app. f_equal.
    induction k as [|k IH]; [reflexivity|]. cbn [repeat fold_left]. exact IH.
  Qed.

  Lemma digits_lt_zeros k : digits_lt (repeat 0 k).
  Proof. induction k; constructor; [lia | assumption]. Qed.
End OneBase.

Lemma count_lz_zeros k r : hd 1 r <> 0 -> count_lz (repeat 0 k ++ r) = k.
Proof.
  intros Hhd. induction k as [|k IH].
  - destruct r as [|d r]; [reflexivity|]. cbn in Hhd. destruct d; [congruence | reflexivity].
  - cbn [repeat app count_lz]. rewrite IH. reflexivity.
Qed.

Lemma lz_split (P : N -> Prop) l :
  exists r, l = repeat 0 (count_lz l) ++ r /\ hd 1 r <> 0 /\ (Forall P l -> Forall P r).
Proof.
  induction l as [|d l IH].
  - exists []. cbn. repeat split; [lia | auto].
  - destruct d as [|p].
    + destruct IH as (r & Hl & Hhd & HP). exists r. cbn [count_lz repeat app]. repeat split.
      * f_equal. exact Hl.
      * exact Hhd.
      * intros HF. inversion HF. auto.
    + exists (N.pos p :: l). cbn. repeat split; [lia | auto].
Qed.

(* re-basing is invertible *)
Theorem conv_roundtrip A B l : 2 <= A -> 2 <= B -> digits_lt A l ->
  exists m, conv A B l = Some m /\ digits_lt B m /\ conv B A m = Some l.
Proof.
  intros HA HB Hlt.
  destruct (lz_split (fun d => d < A) l) as (r & Hl & Hhd & Hr).
  specialize (Hr Hlt).
  set (k := count_lz l) in *.
  destruct (to_digits_be_spec B HB (of_digits_be A l)) as (cb & Hcb & Hval & Hcblt & Hcbhd).
  exists (repeat 0 k ++ cb). unfold conv at 1. rewrite Hcb. cbn [option_map]. fold k.
  repeat split.
  - apply Forall_app. split; [apply digits_lt_zeros; lia | exact Hcblt].
  - unfold conv. rewrite count_lz_zeros by exact Hcbhd.
    rewrite of_digits_be_zeros, Hval.
    rewrite Hl at 1. rewrite of_digits_be_zeros.
    rewrite (to_digits_be_of A HA r Hr Hhd). cbn [option_map]. rewrite <- Hl. reflexivity.
Qed.
