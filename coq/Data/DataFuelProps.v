(* The fuel of the probe loop of getOrCreateDataID is never exhausted (C16_alloc_no_fuel).

   The model runs the loop with fuel |DataID table| + hasher_digest_size + 2.  By the pigeonhole lemma
   [create_id_free_slot_production] one of the collision counters 0 .. 4 + |table| yields an id that is
   not a key of the table; the loop stops there at the latest (it inserts), so it needs at most
   |table| + 5 iterations.  This holds for EVERY digest function with 8-byte output, e.g. a constant
   one.  The only other hypothesis is that the table has fewer than 2^62 rows (CreateID's int
   arithmetic). *)
From Coq Require Import List ZArith NArith Bool Lia Strings.Byte.
Require Import Regen.Base.Bytes Regen.Base.Calendar Regen.Data.BytesExt Regen.Data.Base58 Regen.Data.Hasher
  Regen.Data.HasherProps Regen.Data.Iri Regen.Data.AList Regen.Data.DataMsgs Regen.Data.DataAListProps
  Regen.Data.DataStepProps Regen.Generated.DataConsts.
Import ListNotations.
Local Open Scope N_scope.

Section Fuel.
  Variable H : bytes -> bytes.
  Hypothesis Hlen : forall v, blen (H v) = hasher_digest_size.

  Lemma probe_no_fuel iri ids c id :
    create_id H iri c = Ok id -> ~ In id (map fst ids) ->
    forall fuel j, j <= c -> (N.to_nat c - N.to_nat j < fuel)%nat -> probe H fuel iri j ids <> Err EProbeFuel.
  Proof.
    intros Hc Hfree. induction fuel as [|f IH]; intros j Hj Hf; [lia|]. cbn [probe].
    destruct (create_id H iri j) as [id0|e] eqn:Ej; [|discriminate].
    destruct (alookup bytes_eqb id0 ids) as [iri'|] eqn:El.
    - destruct (bytes_eqb iri' iri); [discriminate|].
      assert (j <> c).
      { intros ->. rewrite Hc in Ej. injection Ej as <-.
        apply Hfree. eapply (alookup_Some_key bytes_eqb bytes_eqb_eq). exact El. }
      apply IH; lia.
    - destruct (iri_taken iri ids); discriminate.
  Qed.

  Theorem get_or_create_no_fuel iri ids :
    N.of_nat (List.length ids) < 2 ^ 62 -> get_or_create_data_id H iri ids <> Err EProbeFuel.
  Proof.
    intros Hsmall. unfold get_or_create_data_id. destruct iri as [|x iri]; [discriminate|].
    destruct (create_id_free_slot_production H (x :: iri) (Hlen _) (map fst ids)) as (c & id & Hc & Hid & Hfree).
    { rewrite map_length. exact Hsmall. }
    rewrite map_length in Hc.
    apply (probe_no_fuel _ _ c id Hid Hfree); [lia|].
    unfold probe_fuel, hasher_digest_size, hasher_min_len in *. lia.
  Qed.

  (* an allocation adds at most one DataID row *)
  Lemma get_or_create_length iri ids id ids' :
    get_or_create_data_id H iri ids = Ok (id, ids') -> (List.length ids' <= S (List.length ids))%nat.
  Proof.
    unfold get_or_create_data_id. destruct iri as [|x iri]; [intros [= _ <-]; lia|]. intros Hp.
    apply probe_spec in Hp. destruct Hp as [[-> _] | (-> & _)]; cbn; lia.
  Qed.

  Lemma anchor_and_get_iri_no_fuel t iri_r s :
    N.of_nat (List.length (data_ids s)) < 2 ^ 62 ->
    match anchor_and_get_iri H t iri_r s with
    | Err e => e <> EProbeFuel
    | Ok (_, _, _, s') => (List.length (data_ids s') <= S (List.length (data_ids s)))%nat
    end.
  Proof.
    intros Hsmall. unfold anchor_and_get_iri. destruct iri_r as [iri|e]; [|destruct e; discriminate].
    pose proof (get_or_create_no_fuel iri (data_ids s) Hsmall) as Hnf.
    destruct (get_or_create_data_id H iri (data_ids s)) as [[id ids']|e] eqn:Eg; [|congruence].
    apply get_or_create_length in Eg. unfold anchor_and_get_timestamp.
    destruct (get_anchor id (set_data_ids ids' s)); [exact Eg|].
    destruct (negb (ts_valid t)); [discriminate | exact Eg].
  Qed.

  Lemma pow62_val : 2 ^ 62 = 4611686018427387904. Proof. reflexivity. Qed.

  Lemma attest_loop_no_fuel t a : forall chs s iris,
    N.of_nat (List.length (data_ids s) + List.length chs) < 2 ^ 62 ->
    attest_loop H t a chs s iris <> Err EProbeFuel.
  Proof.
    rewrite pow62_val. induction chs as [|g chs IH]; intros s iris Hsmall; cbn [attest_loop]; [discriminate|].
    pose proof (anchor_and_get_iri_no_fuel t (to_iri_graph sha256d_cksum g) s) as Hn. rewrite pow62_val in Hn.
    cbn [List.length] in Hsmall.
    destruct (anchor_and_get_iri H t (to_iri_graph sha256d_cksum g) s) as [[[[iri id] tstamp] s1]|e].
    - specialize (Hn ltac:(lia)). destruct (get_attestor id a s1); apply IH; cbn [data_ids set_attestors]; lia.
    - specialize (Hn ltac:(lia)). congruence.
  Qed.

  Lemma register_loop_no_fuel t rid : forall chs s,
    N.of_nat (List.length (data_ids s) + List.length chs) < 2 ^ 62 ->
    register_loop H t rid chs s <> Err EProbeFuel.
  Proof.
    rewrite pow62_val. induction chs as [|ch chs IH]; intros s Hsmall; cbn [register_loop]; [discriminate|].
    pose proof (anchor_and_get_iri_no_fuel t (to_iri_sha ch) s) as Hn. rewrite pow62_val in Hn.
    cbn [List.length] in Hsmall.
    destruct (anchor_and_get_iri H t (to_iri_sha ch) s) as [[[[iri id] tstamp] s1]|e].
    - specialize (Hn ltac:(lia)). apply IH; cbn [data_ids set_data_resolvers]; lia.
    - specialize (Hn ltac:(lia)). congruence.
  Qed.

  (* number of content hashes a message carries *)
  Definition msg_hashes (m : dmsg) : nat :=
    match m with
    | DAnchor _ _ => 1
    | DAttest _ chs => List.length chs
    | DDefineResolver _ _ _ _ => 0
    | DRegisterResolver _ _ chs => List.length chs
    end.

  (* no transaction ever fails for lack of probe fuel *)
  Theorem C16_alloc_no_fuel t s m :
    N.of_nat (List.length (data_ids s) + msg_hashes m) < 2 ^ 62 ->
    snd (deliver H t s m) <> DErr EProbeFuel.
  Proof.
    intros Hsmall. unfold deliver. destruct (negb (validate_basic m)); [discriminate|].
    assert (Hh : handle H t m s <> Err EProbeFuel).
    { destruct m as [sd [ch|] | a chs | d url uok pub | sg rid chs]; cbn [handle msg_hashes] in *.
      - unfold handle_anchor. pose proof (anchor_and_get_iri_no_fuel t (to_iri_sha ch) s) as Hn.
        rewrite pow62_val in *.
        destruct (anchor_and_get_iri H t (to_iri_sha ch) s) as [[[[iri id] tstamp] s1]|e]; [discriminate|].
        specialize (Hn ltac:(lia)). congruence.
      - discriminate.
      - unfold handle_attest. pose proof (attest_loop_no_fuel t a chs s [] Hsmall) as Hn.
        destruct (attest_loop H t a chs s []) as [[s1 iris]|e]; [discriminate | congruence].
      - unfold handle_define_resolver. destruct (get_resolver _ s); [discriminate|].
        destruct (resolver_taken _ _); discriminate.
      - unfold handle_register_resolver. destruct (get_resolver rid s) as [[url mgr]|]; [|discriminate].
        destruct (negb _); [discriminate|].
        pose proof (register_loop_no_fuel t rid chs s Hsmall) as Hn.
        destruct (register_loop H t rid chs s) as [s1|e]; [discriminate | congruence]. }
    destruct (handle H t m s) as [[s1 r]|e]; cbn [snd]; [discriminate | congruence].
  Qed.
End Fuel.
