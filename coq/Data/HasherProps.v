(* Facts about hasher.CreateID that the anchor probe loop (msg_anchor.go) relies on.

   IMPORTANT: CreateID is NOT injective in the collision counter while the counter is below
   hashLen - minLen: the short branch appends hashBz[collisions], so two counters give the same id
   whenever the hash has equal bytes at those positions ([create_id_short_eq_iff],
   [create_id_not_injective_short]; observed with the production hasher: CreateID("abc",0) =
   CreateID("abc",3)).  What does hold, and what termination of the probe loop needs:
   ids of counters >= hashLen - minLen are pairwise distinct and differ from every short id, hence a
   free id exists among any |occupied|+1 consecutive long counters ([create_id_free_slot]). *)
From Coq Require Import List NArith Lia Bool Strings.Byte.
Require Import Regen.Base.Bytes Regen.Data.BytesExt Regen.Data.Varint Regen.Data.Hasher
  Regen.Data.VarintProps Regen.Generated.DataConsts.
Import ListNotations.
Local Open Scope N_scope.

Lemma NoDup_map_inj_in {A B} (f : A -> B) (l : list A) :
  (forall x y, In x l -> In y l -> f x = f y -> x = y) -> NoDup l -> NoDup (map f l).
Proof.
  intros Hinj Hnd. induction Hnd as [|a l Hnotin Hnd IH]; [constructor|].
  cbn [map]. constructor.
  - intros Hin. apply in_map_iff in Hin. destruct Hin as (y & Hy & Hyin).
    assert (y = a) by (apply Hinj; [right; exact Hyin | left; reflexivity | exact Hy]).
    subst y. contradiction.
  - apply IH. intros x y Hx Hy. apply Hinj; right; assumption.
Qed.

Section HasherProps.
  Variables min_len hash_len : N.
  Variable H : bytes -> bytes.
  Variable v : bytes.
  Hypothesis Hmin : min_len <= hash_len.
  Hypothesis Hlen : blen (H v) = hash_len.            (* len(hasher.Sum(nil)) = t.hashLen *)
  Hypothesis Hsmall : hash_len < 2 ^ 62.

  Let k := hash_len - min_len.                         (* first counter of the long branch *)
  Let pre := firstn (N.to_nat min_len) (H v).
  Let int_max1 := 9223372036854775808.                 (* 2^63 *)

  Lemma pow62 : 2 ^ 62 = 4611686018427387904. Proof. reflexivity. Qed.

  Lemma pre_length : List.length pre = N.to_nat min_len.
  Proof. unfold pre. rewrite firstn_length. unfold blen in Hlen. lia. Qed.

  (* short branch *)
  Lemma create_id_short c : c < k ->
    exists x, nth_error (H v) (N.to_nat c) = Some x /\
              create_id_with min_len hash_len H v c = Ok (pre ++ [x]).
  Proof.
    intros Hc. unfold create_id_with, int_lt. pose proof pow62 as Hp.
    assert (E1 : blen (H v) <? min_len = false) by (apply N.ltb_ge; lia).
    assert (E2 : min_len + c <? hash_len = true) by (apply N.ltb_lt; lia).
    assert (E3 : blen (H v) <=? c = false) by (apply N.leb_gt; lia).
    rewrite E1, E2, E3. cbn [orb].
    destruct (nth_error (H v) (N.to_nat c)) as [x|] eqn:En.
    - exists x. split; reflexivity.
    - apply nth_error_None in En. unfold blen in Hlen. lia.
  Qed.

  (* long branch *)
  Lemma create_id_long c : k <= c -> min_len + c < int_max1 ->
    exists u, uvarint c = Some u /\
              create_id_with min_len hash_len H v c = Ok (pre ++ repeat x00 (N.to_nat k) ++ u).
  Proof.
    intros Hc Hmax. unfold create_id_with, int_lt. unfold int_max1 in Hmax.
    assert (E1 : blen (H v) <? min_len = false) by (apply N.ltb_ge; lia).
    assert (E2 : min_len + c <? hash_len = false) by (apply N.ltb_ge; lia).
    assert (E3 : 9223372036854775808 <=? min_len + c = false) by (apply N.leb_gt; lia).
    rewrite E1, E2, E3. cbn [orb].
    destruct (uvarint_total c) as [u Hu].
    { change (2 ^ 64) with 18446744073709551616. lia. }
    rewrite Hu. exists u. split; reflexivity.
  Qed.

  (* lengths *)
  Theorem create_id_length_short c id : c < k ->
    create_id_with min_len hash_len H v c = Ok id -> blen id = min_len + 1.
  Proof.
    intros Hc Hid. destruct (create_id_short c Hc) as (x & _ & E). rewrite E in Hid.
    injection Hid as <-. unfold blen. rewrite app_length, pre_length. cbn [List.length]. lia.
  Qed.

  Theorem create_id_length_long c id : k <= c -> min_len + c < int_max1 ->
    create_id_with min_len hash_len H v c = Ok id ->
    hash_len + 1 <= blen id <= hash_len + max_varint_len64.
  Proof.
    intros Hc Hmax Hid. destruct (create_id_long c Hc Hmax) as (u & Hu & E). rewrite E in Hid.
    injection Hid as <-. apply uvarint_length in Hu.
    unfold blen, max_varint_len64. rewrite !app_length, pre_length, repeat_length. lia.
  Qed.

  Theorem create_id_prefix c id :
    create_id_with min_len hash_len H v c = Ok id -> firstn (N.to_nat min_len) id = pre.
  Proof.
    unfold create_id_with. intros Hid.
    destruct (blen (H v) <? min_len); [discriminate Hid|]. fold pre in Hid.
    assert (Hf : forall t, firstn (N.to_nat min_len) (pre ++ t) = pre).
    { intros t. rewrite <- pre_length. clear. induction pre as [|a p IH]; [destruct t; reflexivity|].
      cbn. rewrite IH. reflexivity. }
    destruct (int_lt (min_len + c) hash_len).
    - destruct (blen (H v) <=? c); [discriminate Hid|].
      destruct (nth_error (H v) (N.to_nat c)); [|discriminate Hid]. injection Hid as <-. apply Hf.
    - destruct (uvarint c); [|discriminate Hid]. injection Hid as <-. apply Hf.
  Qed.

  (* the key fact for termination of the probe loop: long ids are pairwise distinct *)
  Theorem create_id_injective_long c1 c2 id :
    k <= c1 -> k <= c2 -> min_len + c1 < int_max1 -> min_len + c2 < int_max1 ->
    create_id_with min_len hash_len H v c1 = Ok id ->
    create_id_with min_len hash_len H v c2 = Ok id -> c1 = c2.
  Proof.
    intros Hc1 Hc2 Hm1 Hm2 H1 H2.
    destruct (create_id_long c1 Hc1 Hm1) as (u1 & Hu1 & E1). rewrite E1 in H1.
    destruct (create_id_long c2 Hc2 Hm2) as (u2 & Hu2 & E2). rewrite E2 in H2.
    rewrite <- H2 in H1. injection H1 as H1.
    apply app_inv_head in H1. apply app_inv_head in H1. subst u2.
    exact (uvarint_injective _ _ _ Hu1 Hu2).
  Qed.

  (* a short id never equals a long id *)
  Theorem create_id_short_long_ne c1 c2 id :
    c1 < k -> k <= c2 -> min_len + c2 < int_max1 ->
    create_id_with min_len hash_len H v c1 = Ok id ->
    create_id_with min_len hash_len H v c2 = Ok id -> False.
  Proof.
    intros Hc1 Hc2 Hm2 H1 H2.
    apply (create_id_length_short _ _ Hc1) in H1.
    apply (create_id_length_long _ _ Hc2 Hm2) in H2. lia.
  Qed.

  (* two short ids coincide exactly when the hash has the same byte at both counters *)
  Theorem create_id_short_eq_iff c1 c2 : c1 < k -> c2 < k ->
    (create_id_with min_len hash_len H v c1 = create_id_with min_len hash_len H v c2
     <-> nth_error (H v) (N.to_nat c1) = nth_error (H v) (N.to_nat c2)).
  Proof.
    intros Hc1 Hc2.
    destruct (create_id_short c1 Hc1) as (x1 & Hx1 & E1).
    destruct (create_id_short c2 Hc2) as (x2 & Hx2 & E2).
    rewrite E1, E2, Hx1, Hx2. split; intros HE.
    - injection HE as HE. apply app_inv_head in HE. congruence.
    - congruence.
  Qed.

  (* ---------- a free id always exists ---------- *)
  Let tail_of (c : N) : bytes := match uvarint c with Some u => u | None => [] end.
  Let idf (i : nat) : bytes := pre ++ repeat x00 (N.to_nat k) ++ tail_of (k + N.of_nat i).

  Lemma idf_spec i : min_len + (k + N.of_nat i) < int_max1 ->
    create_id_with min_len hash_len H v (k + N.of_nat i) = Ok (idf i).
  Proof.
    intros Hm. destruct (create_id_long (k + N.of_nat i)) as (u & Hu & E); [lia | exact Hm |].
    rewrite E. unfold idf, tail_of. rewrite Hu. reflexivity.
  Qed.

  Lemma idf_nodup : forall n, min_len + (k + N.of_nat n) < int_max1 -> NoDup (map idf (seq 0 n)).
  Proof.
    intros n Hn. apply NoDup_map_inj_in; [|apply seq_NoDup].
    intros i j Hi Hj Hij. apply in_seq in Hi. apply in_seq in Hj.
    assert (k + N.of_nat i = k + N.of_nat j); [|lia].
    apply (create_id_injective_long _ _ (idf i)); try lia.
    - apply idf_spec. lia.
    - rewrite Hij. apply idf_spec. lia.
  Qed.

  (* Whatever finite set of ids is already taken, one of the counters k .. k+|occupied| yields an id
     that is not taken: the probe loop finds a free slot after at most k + |occupied| + 1 probes. *)
  Theorem create_id_free_slot (occupied : list bytes) :
    min_len + (k + N.of_nat (S (List.length occupied))) < int_max1 ->
    exists c id, k <= c <= k + N.of_nat (List.length occupied) /\
                 create_id_with min_len hash_len H v c = Ok id /\ ~ In id occupied.
  Proof.
    intros Hm. set (n := S (List.length occupied)) in *.
    destruct (Forall_Exists_dec (fun id => In id occupied) (fun id => in_dec bytes_eq_dec id occupied)
                                (map idf (seq 0 n))) as [Hall | Hex].
    - exfalso. assert (Hle : (List.length (map idf (seq 0 n)) <= List.length occupied)%nat).
      { apply NoDup_incl_length; [apply idf_nodup; exact Hm|].
        intros id Hin. rewrite Forall_forall in Hall. apply Hall. exact Hin. }
      rewrite map_length, seq_length in Hle. unfold n in Hle. lia.
    - apply Exists_exists in Hex. destruct Hex as (id & Hin & Hfree).
      apply in_map_iff in Hin. destruct Hin as (i & <- & Hi). apply in_seq in Hi.
      exists (k + N.of_nat i), (idf i). repeat split; try (unfold n in Hi; lia); [|exact Hfree].
      apply idf_spec. unfold n in *. lia.
  Qed.
End HasherProps.

(* ---------- the production hasher: minLength 4, 8-byte BLAKE2b ---------- *)
Section Production.
  Variable H : bytes -> bytes.
  Variable v : bytes.
  Hypothesis Hlen : blen (H v) = hasher_digest_size.

  Let k := hasher_digest_size - hasher_min_len.   (* = 4 *)

  Lemma prod_min : hasher_min_len <= hasher_digest_size. Proof. unfold hasher_min_len, hasher_digest_size. lia. Qed.
  Lemma prod_small : hasher_digest_size < 2 ^ 62. Proof. reflexivity. Qed.

  Theorem create_id_injective_in_collisions_long c1 c2 :
    k <= c1 -> k <= c2 -> c1 < 2 ^ 62 -> c2 < 2 ^ 62 -> c1 <> c2 ->
    create_id H v c1 <> create_id H v c2.
  Proof.
    intros Hc1 Hc2 Hm1 Hm2 Hne HE. rewrite pow62 in *.
    assert (Hb1 : hasher_min_len + c1 < 9223372036854775808) by (unfold hasher_min_len; lia).
    assert (Hb2 : hasher_min_len + c2 < 9223372036854775808) by (unfold hasher_min_len; lia).
    destruct (create_id_long _ _ H v prod_min Hlen prod_small c1 Hc1 Hb1) as (u & _ & E).
    unfold create_id in HE. apply Hne.
    eapply (create_id_injective_long _ _ H v prod_min Hlen prod_small c1 c2); eauto.
    rewrite <- HE. exact E.
  Qed.

  Theorem create_id_length c id : c < 2 ^ 62 -> create_id H v c = Ok id ->
    (c < k /\ blen id = 5) \/ (k <= c /\ 9 <= blen id <= 18).
  Proof.
    intros Hc Hid. rewrite pow62 in Hc. unfold create_id in Hid.
    destruct (N.lt_ge_cases c k) as [Hlt | Hge]; [left | right]; split; try assumption.
    - apply (create_id_length_short _ _ H v prod_min Hlen prod_small c id Hlt Hid).
    - assert (Hb : hasher_min_len + c < 9223372036854775808) by (unfold hasher_min_len; lia).
      apply (create_id_length_long _ _ H v prod_min Hlen prod_small c id Hge Hb Hid).
  Qed.

  Theorem create_id_free_slot_production (occupied : list bytes) :
    N.of_nat (List.length occupied) < 2 ^ 62 ->
    exists c id, c <= k + N.of_nat (List.length occupied) /\
                 create_id H v c = Ok id /\ ~ In id occupied.
  Proof.
    intros Hocc. rewrite pow62 in Hocc.
    destruct (create_id_free_slot _ _ H v prod_min Hlen prod_small occupied) as (c & id & Hc & Hid & Hfree).
    { unfold hasher_min_len, hasher_digest_size. lia. }
    exists c, id. repeat split; [apply Hc | exact Hid | exact Hfree].
  Qed.
End Production.

(* the short branch is NOT injective in the counter: a hash whose first two bytes agree *)
Example create_id_not_injective_short :
  let H := fun _ : bytes => [x07; x07; x01; x02; x03; x04; x05; x06] in
  create_id H [] 0 = create_id H [] 1.
Proof. reflexivity. Qed.
