(* C15: the IRI codec is a lossless bijection between valid content hashes and accepted IRIs.
   All statements hold for an arbitrary checksum function with 4-byte output (and the re-encoding
   statement for any checksum function at all); SHA-256 is not part of the trusted base. *)
From Coq Require Import List NArith Lia Bool Strings.Byte Strings.String.
Require Import Regen.Base.Bytes Regen.Data.BytesExt Regen.Data.Sha256 Regen.Data.Base58
  Regen.Data.Base58Props Regen.Data.Iri Regen.Generated.DataConsts.
Import ListNotations.
Local Open Scope N_scope.

Definition dot : byte := byte_of_N_trunc iri_parse_sep.

(* ---------- strings ---------- *)
Lemma has_prefix_app p s : has_prefix p (p ++ s) = true.
Proof.
  induction p as [|a p IH]; [reflexivity|]. cbn [app has_prefix].
  rewrite IH, andb_true_r. apply byte_eqb_eq. reflexivity.
Qed.

Lemma has_prefix_split p s : has_prefix p s = true -> s = p ++ skipn (List.length p) s.
Proof.
  revert s. induction p as [|a p IH]; intros s H; [reflexivity|].
  destruct s as [|c s]; [discriminate H|]. cbn [has_prefix] in H.
  apply andb_true_iff in H. destruct H as [Hac Hp]. apply byte_eqb_eq in Hac. subst c.
  cbn [app List.length skipn]. f_equal. apply IH. exact Hp.
Qed.

Lemma byte_eqb_refl a : Byte.eqb a a = true.
Proof. apply byte_eqb_eq. reflexivity. Qed.

Lemma byte_eqb_neq a c : a <> c -> Byte.eqb a c = false.
Proof.
  intros H. destruct (Byte.eqb a c) eqn:E; [|reflexivity]. apply byte_eqb_eq in E. contradiction.
Qed.

Lemma split_on1_none c e : ~ In c e -> split_on1 c e = (e, []).
Proof.
  induction e as [|a e IH]; intros H; [reflexivity|].
  cbn [split_on1]. rewrite IH by (intros Hin; apply H; right; exact Hin).
  rewrite byte_eqb_neq; [reflexivity|]. intros ->. apply H. left. reflexivity.
Qed.

(* strings.Split on a string with exactly one separator *)
Lemma split_on_two c a e : ~ In c a -> ~ In c e -> split_on c (a ++ c :: e) = [a; e].
Proof.
  intros Ha He. unfold split_on.
  assert (H : split_on1 c (a ++ c :: e) = (a, [e])).
  { induction a as [|x a IH].
    - cbn [app split_on1]. rewrite (split_on1_none c e He), byte_eqb_refl. reflexivity.
    - cbn [app split_on1]. rewrite IH by (intros Hin; apply Ha; right; exact Hin).
      rewrite byte_eqb_neq; [reflexivity|]. intros ->. apply Ha. left. reflexivity. }
  rewrite H. reflexivity.
Qed.

Fixpoint join_on (c : byte) (p : bytes) (ps : list bytes) : bytes :=
  match ps with
  | [] => p
  | q :: qs => p ++ c :: join_on c q qs
  end.

Lemma split_on1_join c : forall s p ps, split_on1 c s = (p, ps) -> s = join_on c p ps.
Proof.
  induction s as [|a s IH]; intros p ps H.
  - cbn in H. injection H as <- <-. reflexivity.
  - cbn [split_on1] in H. destruct (split_on1 c s) as [p' ps'] eqn:E.
    specialize (IH _ _ eq_refl). destruct (Byte.eqb a c) eqn:Eac.
    + apply byte_eqb_eq in Eac. subst a. injection H as <- <-. cbn [join_on app]. f_equal. exact IH.
    + injection H as <- <-. rewrite IH. destruct ps'; reflexivity.
Qed.

Lemma split_on_two_inv c s a e rest :
  split_on c s = a :: e :: rest -> N.of_nat (List.length (split_on c s)) = 2 -> s = a ++ c :: e.
Proof.
  intros H Hl. rewrite H in Hl. destruct rest; [|cbn [List.length] in Hl; lia].
  unfold split_on in H. destruct (split_on1 c s) as [p ps] eqn:E. injection H as -> ->.
  apply split_on1_join in E. exact E.
Qed.

(* evaluate the closed byte-string literals of the goal *)
Ltac eval_lits :=
  repeat match goal with
         | |- context [b ?s] => let x := eval vm_compute in (b s) in change (b s) with x
         | |- context [byte_of_N_trunc ?n] =>
             let x := eval vm_compute in (byte_of_N_trunc n) in change (byte_of_N_trunc n) with x
         end.

(* the two format strings *)
Lemma sprintf_raw hs ext : sprintf_s iri_raw_format [hs; ext] = iri_parse_prefix ++ hs ++ dot :: ext.
Proof.
  unfold iri_raw_format, iri_parse_prefix, dot. eval_lits.
  cbn [sprintf_s app]. rewrite app_nil_r. reflexivity.
Qed.

Lemma sprintf_graph hs : sprintf_s iri_graph_format [hs] = iri_parse_prefix ++ hs ++ dot :: iri_parse_graph_ext.
Proof.
  unfold iri_graph_format, iri_parse_prefix, iri_parse_graph_ext, dot. eval_lits.
  cbn [sprintf_s app]. reflexivity.
Qed.

(* ---------- small facts about the constants ---------- *)
Lemma typ_raw_raw : byte_N (byte_of_N_trunc iri_prefix_raw) =? iri_prefix_raw = true. Proof. reflexivity. Qed.
Lemma typ_graph_raw : byte_N (byte_of_N_trunc iri_prefix_graph) =? iri_prefix_raw = false. Proof. reflexivity. Qed.
Lemma typ_graph_graph : byte_N (byte_of_N_trunc iri_prefix_graph) =? iri_prefix_graph = true. Proof. reflexivity. Qed.
Lemma version_ok : byte_N (byte_of_N_trunc iri_version0) =? iri_version0 = true. Proof. reflexivity. Qed.
Lemma graph_ext_no_dot : ~ In dot iri_parse_graph_ext.
Proof. cbn. intros [H|[H|[H|[]]]]; discriminate H. Qed.

Lemma byte_N_eqb_trunc x n : byte_N x =? n = true -> x = byte_of_N_trunc n.
Proof. intros H. apply N.eqb_eq in H. subst n. symmetry. apply trunc_byte_N. Qed.

Lemma ext_no_dot ext : forallb (fun c => negb (ext_char_bad c)) ext = true -> ~ In dot ext.
Proof.
  intros H Hin. rewrite forallb_forall in H. specialize (H _ Hin).
  assert (Hd : ext_char_bad dot = true) by reflexivity. rewrite Hd in H. discriminate H.
Qed.

Lemma alg_byte d : negb (max_iri_algorithm <? d) = true -> byte_N (byte_of_N_trunc d) = d.
Proof.
  intros H. apply negb_true_iff, N.ltb_ge in H. unfold max_iri_algorithm in H.
  apply byte_N_trunc. lia.
Qed.

Section IriProps.
  Variable cksum : bytes -> bytes.

  (* ---------- ParseIRI in terms of its two parts ---------- *)
  Lemma parse_iri_join hs ext : ~ In dot hs -> ~ In dot ext ->
    parse_iri cksum (iri_parse_prefix ++ hs ++ dot :: ext) = parse_parts cksum hs ext.
  Proof.
    intros Hhs Hext. unfold parse_iri.
    rewrite has_prefix_app, skipn_length_app. fold dot. rewrite (split_on_two dot hs ext Hhs Hext).
    reflexivity.
  Qed.

  Lemma parse_iri_inv s ch : parse_iri cksum s = Ok ch ->
    exists hs ext, s = iri_parse_prefix ++ hs ++ dot :: ext /\ parse_parts cksum hs ext = Ok ch.
  Proof.
    unfold parse_iri. intros H. destruct s as [|c0 s0]; [discriminate H|].
    set (s := c0 :: s0) in *. clearbody s.
    destruct (has_prefix iri_parse_prefix s) eqn:Ep; [|discriminate H]. cbn [negb] in H.
    fold dot in H.
    destruct (N.of_nat (List.length (split_on dot (skipn (List.length iri_parse_prefix) s))) =? iri_parse_parts)
      eqn:El; [|discriminate H].
    cbn [negb] in H. apply N.eqb_eq in El.
    destruct (split_on dot (skipn (List.length iri_parse_prefix) s)) as [|hs [|ext rest]] eqn:Es;
      try discriminate H.
    exists hs, ext. split; [|exact H].
    rewrite (has_prefix_split _ _ Ep) at 1. f_equal.
    apply (split_on_two_inv dot _ hs ext rest Es). rewrite Es. exact El.
  Qed.

  (* ---------- round trip ---------- *)
  Section WithLength.
  Hypothesis Hlen : forall x, List.length (cksum x) = 4%nat.

  Lemma roundtrip_raw r : valid_raw r = true ->
    exists s, to_iri_raw cksum r = Ok s /\ parse_iri cksum s = Ok (ch_of_raw r).
  Proof.
    intros Hv. unfold to_iri_raw. rewrite Hv. cbn [negb].
    destruct (check_encode_total cksum
                (byte_of_N_trunc iri_prefix_raw :: byte_of_N_trunc (r_digest r) :: r_hash r)
                (byte_of_N_trunc iri_version0)) as [hs Hhs].
    rewrite Hhs. eexists. split; [reflexivity|].
    unfold valid_raw, validate_hash in Hv. repeat (apply andb_true_iff in Hv; destruct Hv as [Hv ?]).
    rewrite sprintf_raw, parse_iri_join.
    - unfold parse_parts. rewrite (check_decode_encode cksum Hlen _ _ _ Hhs).
      rewrite typ_raw_raw, version_ok. cbn [negb]. rewrite alg_byte by assumption.
      destruct r; reflexivity.
    - apply over_alphabet_no_dot. eapply check_encode_alphabet. exact Hhs.
    - apply ext_no_dot. assumption.
  Qed.

  Lemma roundtrip_graph g : valid_graph g = true ->
    exists s, to_iri_graph cksum g = Ok s /\ parse_iri cksum s = Ok (ch_of_graph g).
  Proof.
    intros Hv. unfold to_iri_graph. rewrite Hv. cbn [negb].
    destruct (check_encode_total cksum
                (byte_of_N_trunc iri_prefix_graph :: byte_of_N_trunc (g_canon g)
                 :: byte_of_N_trunc (g_merkle g) :: byte_of_N_trunc (g_digest g) :: g_hash g)
                (byte_of_N_trunc iri_version0)) as [hs Hhs].
    rewrite Hhs. eexists. split; [reflexivity|].
    unfold valid_graph, validate_hash in Hv. repeat (apply andb_true_iff in Hv; destruct Hv as [Hv ?]).
    rewrite sprintf_graph, parse_iri_join.
    - unfold parse_parts. rewrite (check_decode_encode cksum Hlen _ _ _ Hhs).
      rewrite typ_graph_raw, typ_graph_graph, version_ok, bytes_eqb_refl. cbn [negb].
      rewrite !alg_byte by assumption. destruct g; reflexivity.
    - apply over_alphabet_no_dot. eapply check_encode_alphabet. exact Hhs.
    - apply graph_ext_no_dot.
  Qed.

  (* ToIRI then ParseIRI returns the identical content hash: same variant set, same fields *)
  Theorem iri_roundtrip ch : valid_ch ch = true ->
    exists s, to_iri cksum ch = Ok s /\ parse_iri cksum s = Ok ch.
  Proof.
    destruct ch as [[r|] [g|]]; unfold valid_ch, to_iri; cbn [ch_raw ch_graph]; intros Hv;
      try discriminate Hv.
    - apply roundtrip_raw. exact Hv.
    - apply roundtrip_graph. exact Hv.
  Qed.

  (* two different valid content hashes never have the same IRI *)
  Theorem iri_injective a c : valid_ch a = true -> valid_ch c = true ->
    to_iri cksum a = to_iri cksum c -> a = c.
  Proof.
    intros Ha Hc Heq.
    destruct (iri_roundtrip a Ha) as (sa & Hsa & Hpa).
    destruct (iri_roundtrip c Hc) as (sc & Hsc & Hpc).
    rewrite Hsa, Hsc in Heq. injection Heq as ->. rewrite Hpa in Hpc. injection Hpc as ->. reflexivity.
  Qed.
  End WithLength.

  (* ---------- re-encoding (holds for every checksum function) ---------- *)
  Lemma parse_parts_reencode hs ext ch : parse_parts cksum hs ext = Ok ch -> valid_ch ch = true ->
    to_iri cksum ch = Ok (iri_parse_prefix ++ hs ++ dot :: ext).
  Proof.
    unfold parse_parts. intros H Hv.
    destruct (check_decode cksum hs) as [[res ver]|e] eqn:Ed; [|destruct e; discriminate H].
    apply check_decode_reencode in Ed.
    destruct res as [|typ r1]; [discriminate H|].
    destruct (byte_N typ =? iri_prefix_raw) eqn:Et.
    - destruct r1 as [|b0 hash]; [discriminate H|].
      destruct (byte_N ver =? iri_version0) eqn:Ever; [|discriminate H]. cbn [negb] in H.
      injection H as <-. unfold valid_ch in Hv. cbn [ch_of_raw ch_raw ch_graph] in Hv.
      unfold to_iri, to_iri_raw. cbn [ch_of_raw ch_raw r_hash r_digest r_ext]. rewrite Hv. cbn [negb].
      rewrite trunc_byte_N, <- (byte_N_eqb_trunc _ _ Et), <- (byte_N_eqb_trunc _ _ Ever), Ed.
      rewrite sprintf_raw. reflexivity.
    - destruct (byte_N typ =? iri_prefix_graph) eqn:Eg; [|discriminate H].
      destruct (bytes_eqb ext iri_parse_graph_ext) eqn:Ee; [|discriminate H]. cbn [negb] in H.
      apply bytes_eqb_eq in Ee. subst ext.
      destruct r1 as [|bC [|bM [|bD hash]]]; try discriminate H.
      destruct (byte_N ver =? iri_version0) eqn:Ever; [|discriminate H]. cbn [negb] in H.
      injection H as <-. unfold valid_ch in Hv. cbn [ch_of_graph ch_raw ch_graph] in Hv.
      unfold to_iri, to_iri_graph. cbn [ch_of_graph ch_raw ch_graph g_hash g_digest g_canon g_merkle].
      rewrite Hv. cbn [negb].
      rewrite !trunc_byte_N, <- (byte_N_eqb_trunc _ _ Eg), <- (byte_N_eqb_trunc _ _ Ever), Ed.
      rewrite sprintf_graph. reflexivity.
  Qed.

  (* any accepted IRI whose content hash is valid re-encodes to the identical string *)
  Theorem iri_reencode s ch : parse_iri cksum s = Ok ch -> valid_ch ch = true -> to_iri cksum ch = Ok s.
  Proof.
    intros Hp Hv. destruct (parse_iri_inv s ch Hp) as (hs & ext & -> & Hparts).
    apply parse_parts_reencode; assumption.
  Qed.

  (* ParseIRI only ever returns a hash with exactly one variant set *)
  Lemma parse_iri_variant s ch : parse_iri cksum s = Ok ch ->
    (exists r, ch = ch_of_raw r) \/ (exists g, ch = ch_of_graph g).
  Proof.
    intros Hp. destruct (parse_iri_inv s ch Hp) as (hs & ext & _ & H). unfold parse_parts in H.
    destruct (check_decode cksum hs) as [[res ver]|e]; [|destruct e; discriminate H].
    destruct res as [|typ r1]; [discriminate H|].
    destruct (byte_N typ =? iri_prefix_raw).
    - destruct r1 as [|b0 hash]; [discriminate H|].
      destruct (negb (byte_N ver =? iri_version0)); [discriminate H|]. injection H as <-. eauto.
    - destruct (byte_N typ =? iri_prefix_graph); [|discriminate H].
      destruct (negb (bytes_eqb ext iri_parse_graph_ext)); [discriminate H|].
      destruct r1 as [|bC [|bM [|bD hash]]]; try discriminate H.
      destruct (negb (byte_N ver =? iri_version0)); [discriminate H|]. injection H as <-. eauto.
  Qed.

  (* ParseIRI does not validate, so re-encoding an accepted IRI can FAIL (invalid hash), but it can
     never produce a different string *)
  Theorem iri_reencode_never_differs s ch s' :
    parse_iri cksum s = Ok ch -> to_iri cksum ch = Ok s' -> s' = s.
  Proof.
    intros Hp Ht. assert (Hv : valid_ch ch = true).
    { destruct (parse_iri_variant s ch Hp) as [[r ->] | [g ->]];
        unfold to_iri, valid_ch in *; cbn [ch_of_raw ch_of_graph ch_raw ch_graph] in *.
      - unfold to_iri_raw in Ht. destruct (valid_raw r); [reflexivity | discriminate Ht].
      - unfold to_iri_graph in Ht. destruct (valid_graph g); [reflexivity | discriminate Ht]. }
    pose proof (iri_reencode s ch Hp Hv) as H. rewrite H in Ht. injection Ht as <-. reflexivity.
  Qed.

  (* the model never runs out of fuel *)
  Theorem to_iri_no_fuel ch : to_iri cksum ch <> Err TErrFuel.
  Proof.
    unfold to_iri, to_iri_raw, to_iri_graph. destruct ch as [[r|] [g|]]; cbn [ch_raw ch_graph];
      repeat match goal with
             | |- context [if ?x then _ else _] => destruct x
             | |- context [check_encode cksum ?p ?v] =>
                 let s := fresh "s" in let E := fresh "E" in
                 destruct (check_encode_total cksum p v) as [s E]; rewrite E
             end; discriminate.
  Qed.
End IriProps.

(* ---------- the production codec: checksum = first 4 bytes of SHA-256(SHA-256(x)) ---------- *)
Theorem iri_roundtrip_sha ch : valid_ch ch = true ->
  exists s, to_iri_sha ch = Ok s /\ parse_iri_sha s = Ok ch.
Proof. apply iri_roundtrip. exact sha256d_cksum_length. Qed.

Theorem iri_injective_sha a c : valid_ch a = true -> valid_ch c = true ->
  to_iri_sha a = to_iri_sha c -> a = c.
Proof. apply iri_injective. exact sha256d_cksum_length. Qed.

Theorem iri_reencode_sha s ch : parse_iri_sha s = Ok ch -> valid_ch ch = true -> to_iri_sha ch = Ok s.
Proof. apply iri_reencode. Qed.

Theorem iri_reencode_never_differs_sha s ch s' :
  parse_iri_sha s = Ok ch -> to_iri_sha ch = Ok s' -> s' = s.
Proof. apply iri_reencode_never_differs. Qed.
