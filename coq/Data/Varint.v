(* encoding/binary.PutUvarint: 7 bits per byte, least significant group first,
   continuation bit 0x80 on every byte but the last. *)
From Coq Require Import List NArith Bool Strings.Byte.
Require Import Regen.Base.Bytes Regen.Data.BytesExt Regen.Generated.DataConsts.
Import ListNotations.
Local Open Scope N_scope.

(* for x >= 0x80 { buf[i] = byte(x) | 0x80; x >>= 7; i++ }; buf[i] = byte(x)
   written arithmetically: byte(x)|0x80 = x mod 128 + 128 and x >> 7 = x / 128.
   None = more bytes needed than [fuel] (the buffer would overflow; Go panics). *)
Fixpoint uvarint_fuel (fuel : nat) (x : N) : option bytes :=
  match fuel with
  | O => None
  | S f =>
      if x <? 128 then Some [byte_of_N_trunc x]
      else option_map (cons (byte_of_N_trunc (x mod 128 + 128))) (uvarint_fuel f (x / 128))
  end.

(* with a buffer of binary.MaxVarintLen64 bytes: defined exactly for x < 2^70 (every uint64) *)
Definition uvarint (x : N) : option bytes := uvarint_fuel (N.to_nat max_varint_len64) x.

Example uvarint_0 : uvarint 0 = Some [x00]. Proof. reflexivity. Qed.
Example uvarint_127 : uvarint 127 = Some [x7f]. Proof. reflexivity. Qed.
Example uvarint_128 : uvarint 128 = Some [x80; x01]. Proof. reflexivity. Qed.
Example uvarint_300 : uvarint 300 = Some [xac; x02]. Proof. reflexivity. Qed.
Example uvarint_max64 :
  uvarint 18446744073709551615 = Some [xff;xff;xff;xff;xff;xff;xff;xff;xff;x01].
Proof. vm_compute. reflexivity. Qed.
