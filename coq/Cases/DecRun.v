(* Correspondence evaluator for the decimal family (property C19).
   Imports model files only.  A case records one call of the real Go API and what it returned;
   [mismatches] re-runs the call on the model and lists the cases where the answers differ. *)
From Coq Require Import List ZArith NArith Bool Strings.Byte.
Require Import Regen.Base.Bytes Regen.Base.BigIntScan Regen.Dec.Dec.
Import ListNotations.
Local Open Scope Z_scope.

Inductive dec_op :=
| OpParse                (* NewDecFromString(a0) *)
| OpNonNeg               (* NewNonNegativeDecFromString(a0) *)
| OpNonNegFixed          (* NewNonNegativeFixedDecFromString(a0, extra) *)
| OpPositive             (* NewPositiveDecFromString(a0) *)
| OpPositiveFixed        (* NewPositiveFixedDecFromString(a0, extra) *)
| OpAdd | OpSub | OpMul | OpQuo | OpMulExact | OpQuoExact     (* x.Op(y), x = a0, y = a1 *)
| OpMathAdd | OpSubNonNegative | OpSafeSubBalance | OpSafeAddBalance   (* math.go helpers *)
| OpCmp | OpEqual
| OpIsZero | OpIsNegative | OpIsPositive | OpNumDecimalPlaces
| OpReduce | OpString | OpBigInt | OpSdkIntTrim
| OpSdkInt.              (* sdk.NewIntFromString(a0): RZ value, or RErr EParse when not ok *)

(* What the implementation (or the model) answered. *)
Inductive dec_result :=
| RDec (s : bytes) (neg : bool) (coef exp : Z)   (* a Dec: String() and the apd representation *)
| RDecN (s : bytes) (neg : bool) (coef exp : Z) (n : Z)   (* Reduce: Dec and removed-zero count *)
| RErr (e : err)
| RZ (z : Z)
| RBool (v : bool)
| RCmp (c : comparison)
| RStr (s : bytes)
| RBadCase.                                      (* the model could not even build the operands *)

Inductive dec_case :=
| DecCase (id : N) (op : dec_op) (args : list bytes) (extra : Z) (expected : dec_result).

Definition comparison_eqb (x y : comparison) : bool :=
  match x, y with Eq, Eq | Lt, Lt | Gt, Gt => true | _, _ => false end.

Definition result_eqb (x y : dec_result) : bool :=
  match x, y with
  | RDec s n c e, RDec s' n' c' e' => bytes_eqb s s' && Bool.eqb n n' && (c =? c') && (e =? e')
  | RDecN s n c e k, RDecN s' n' c' e' k' =>
      bytes_eqb s s' && Bool.eqb n n' && (c =? c') && (e =? e') && (k =? k')
  | RErr e, RErr e' => err_eqb e e'
  | RZ z, RZ z' => z =? z'
  | RBool v, RBool v' => Bool.eqb v v'
  | RCmp c, RCmp c' => comparison_eqb c c'
  | RStr s, RStr s' => bytes_eqb s s'
  | _, _ => false
  end.

Definition show (d : dec) : dec_result := RDec (to_string d) (dneg d) (dcoef d) (dexp d).

Definition show_res (r : res dec) : dec_result :=
  match r with Ok d => show d | Err e => RErr e end.

Definition show_resZ (r : res Z) : dec_result :=
  match r with Ok z => RZ z | Err e => RErr e end.

(* operands are given as strings the implementation parsed successfully *)
Definition with1 (args : list bytes) (f : dec -> dec_result) : dec_result :=
  match args with
  | [a] => match parse a with Ok x => f x | Err _ => RBadCase end
  | _ => RBadCase
  end.

Definition with2 (args : list bytes) (f : dec -> dec -> dec_result) : dec_result :=
  match args with
  | [a; c] =>
      match parse a, parse c with
      | Ok x, Ok y => f x y
      | _, _ => RBadCase
      end
  | _ => RBadCase
  end.

Definition arg0 (args : list bytes) : option bytes :=
  match args with [a] => Some a | _ => None end.

Definition run_model (op : dec_op) (args : list bytes) (extra : Z) : dec_result :=
  match op with
  | OpParse => match arg0 args with Some a => show_res (parse a) | None => RBadCase end
  | OpNonNeg =>
      match arg0 args with Some a => show_res (non_negative_dec_from_string a) | None => RBadCase end
  | OpNonNegFixed =>
      match arg0 args with
      | Some a => show_res (non_negative_fixed_dec_from_string a extra) | None => RBadCase end
  | OpPositive =>
      match arg0 args with Some a => show_res (positive_dec_from_string a) | None => RBadCase end
  | OpPositiveFixed =>
      match arg0 args with
      | Some a => show_res (positive_fixed_dec_from_string a extra) | None => RBadCase end
  | OpAdd => with2 args (fun x y => show_res (add x y))
  | OpMathAdd => with2 args (fun x y => show_res (add x y))
  | OpSub => with2 args (fun x y => show_res (sub x y))
  | OpMul => with2 args (fun x y => show_res (mul x y))
  | OpQuo => with2 args (fun x y => show_res (quo x y))
  | OpMulExact => with2 args (fun x y => show_res (mul_exact x y))
  | OpQuoExact => with2 args (fun x y => show_res (quo_exact x y))
  | OpSubNonNegative => with2 args (fun x y => show_res (sub_non_negative x y))
  | OpSafeSubBalance => with2 args (fun x y => show_res (safe_sub_balance x y))
  | OpSafeAddBalance => with2 args (fun x y => show_res (safe_add_balance x y))
  | OpCmp => with2 args (fun x y => RCmp (cmp x y))
  | OpEqual => with2 args (fun x y => RBool (equal x y))
  | OpIsZero => with1 args (fun x => RBool (is_zero x))
  | OpIsNegative => with1 args (fun x => RBool (is_negative x))
  | OpIsPositive => with1 args (fun x => RBool (is_positive x))
  | OpNumDecimalPlaces => with1 args (fun x => RZ (num_decimal_places x))
  | OpReduce =>
      with1 args (fun x => let '(y, n) := reduce x in
                           RDecN (to_string y) (dneg y) (dcoef y) (dexp y) n)
  | OpString => with1 args (fun x => RStr (to_string x))
  | OpBigInt => with1 args (fun x => show_resZ (big_int x))
  | OpSdkIntTrim => with1 args (fun x => show_resZ (sdk_int_trim x))
  | OpSdkInt =>
      match arg0 args with
      | Some a => match sdk_int_from_string a with Some z => RZ z | None => RErr EParse end
      | None => RBadCase end
  end.

(* ids of the cases where the model disagrees with the implementation, with the model's answer *)
Fixpoint mismatches (cs : list dec_case) : list (N * dec_result) :=
  match cs with
  | [] => []
  | DecCase id op args extra expected :: r =>
      let got := run_model op args extra in
      if result_eqb got expected then mismatches r else (id, got) :: mismatches r
  end.
