(* Correspondence evaluator for the "iri" family: runs the executable model on the cases emitted by
   /verif/harness/cmd/iri and lists the ids whose observed outcome differs.  Imports model files only. *)
From Coq Require Import List NArith Bool Strings.Byte Strings.String.
Require Import Regen.Base.Bytes Regen.Data.BytesExt Regen.Data.Sha256 Regen.Data.Base58
  Regen.Data.Varint Regen.Data.Hasher Regen.Data.Iri Regen.Generated.DataConsts.
Import ListNotations.
Local Open Scope N_scope.

(* short constructors for case files *)
Definition R (hash : bytes) (digest : N) (ext : bytes) : raw := mkRaw hash digest ext.
Definition G (hash : bytes) (digest canon merkle : N) : graph := mkGraph hash digest canon merkle.
Definition chR (r : raw) : content_hash := mkCH (Some r) None.
Definition chG (g : graph) : content_hash := mkCH None (Some g).
Definition chB (r : raw) (g : graph) : content_hash := mkCH (Some r) (Some g).
Definition chN : content_hash := mkCH None None.

(* what the Go side observed: values, or error CLASSES (never messages) *)
Inductive toiri_obs := TOk (iri : bytes) | TInvalidRequest | TInvalidType.
Inductive parse_obs := POk (ch : content_hash) | PInvalidIRI | PIoEOF | PPanicked.

Inductive id_obs := IdOk (id : bytes) | IdPanicked.

Inductive iri_case :=
| CToIRI (id : N) (ch : content_hash) (obs : toiri_obs)
| CParse (id : N) (s : bytes) (obs : parse_obs)
| CValidate (id : N) (ch : content_hash) (obs : bool)     (* true = Validate returned nil *)
| CCreateID (id : N) (hv : bytes) (collisions : N) (obs : id_obs)   (* hv = hash of the value *)
| CCreateIDWith (id : N) (min_len hash_len : N) (hv : bytes) (collisions : N) (obs : id_obs).

Definition raw_eqb (x y : raw) : bool :=
  bytes_eqb (r_hash x) (r_hash y) && (r_digest x =? r_digest y) && bytes_eqb (r_ext x) (r_ext y).
Definition graph_eqb (x y : graph) : bool :=
  bytes_eqb (g_hash x) (g_hash y) && (g_digest x =? g_digest y)
  && (g_canon x =? g_canon y) && (g_merkle x =? g_merkle y).
Definition opt_eqb {A} (f : A -> A -> bool) (x y : option A) : bool :=
  match x, y with
  | Some a, Some c => f a c
  | None, None => true
  | _, _ => false
  end.
Definition ch_eqb (x y : content_hash) : bool :=
  opt_eqb raw_eqb (ch_raw x) (ch_raw y) && opt_eqb graph_eqb (ch_graph x) (ch_graph y).

Definition toiri_agrees (m : result to_iri_err bytes) (o : toiri_obs) : bool :=
  match m, o with
  | Ok s, TOk s' => bytes_eqb s s'
  | Err TErrInvalidRequest, TInvalidRequest => true
  | Err TErrInvalidType, TInvalidType => true
  | _, _ => false
  end.

Definition parse_agrees (m : result parse_err content_hash) (o : parse_obs) : bool :=
  match m, o with
  | Ok ch, POk ch' => ch_eqb ch ch'
  | Err PEOF, PIoEOF => true
  | Err PPanic, PPanicked => true
  | Err PFuel, _ => false
  | Err PEOF, _ => false
  | Err PPanic, _ => false
  | Err _, PInvalidIRI => true
  | _, _ => false
  end.

Definition create_agrees (m : result hasher_err bytes) (o : id_obs) : bool :=
  match m, o with
  | Ok s, IdOk s' => bytes_eqb s s'
  | Err HPanic, IdPanicked => true
  | _, _ => false
  end.

Definition case_ok (c : iri_case) : bool :=
  match c with
  | CToIRI _ ch o => toiri_agrees (to_iri_sha ch) o
  | CParse _ s o => parse_agrees (parse_iri_sha s) o
  | CValidate _ ch o => Bool.eqb (valid_ch ch) o
  | CCreateID _ hv c o => create_agrees (create_id (fun _ => hv) [] c) o
  | CCreateIDWith _ ml hl hv c o => create_agrees (create_id_with ml hl (fun _ => hv) [] c) o
  end.

Definition case_id (c : iri_case) : N :=
  match c with
  | CToIRI id _ _ | CParse id _ _ | CValidate id _ _ | CCreateID id _ _ _
  | CCreateIDWith id _ _ _ _ _ => id
  end.

Definition mismatches (cs : list iri_case) : list N :=
  map case_id (filter (fun c => negb (case_ok c)) cs).
