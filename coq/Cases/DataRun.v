(* Case evaluator for the x/data correspondence family (property C16).  A case is: the ID-digest table
   of the hasher the chain ran with (iri -> 8-byte digest), the genesis rows of the five data tables,
   a list of items (begin-block / data message / other message, each with what the implementation
   did: success or failure with its ABCI error code, the response, and every data row that changed),
   and the complete final state with row counts.  The evaluator runs the model on the same operations
   and reports every item where the model's outcome, response or one of the listed rows differs.
   Imports model files only. *)
From Coq Require Import ZArith NArith List Bool Strings.Byte Strings.String.
Require Import Regen.Base.Bytes Regen.Base.Calendar Regen.Data.BytesExt Regen.Data.Hasher Regen.Data.Iri
  Regen.Data.AList Regen.Data.DataMsgs.
Import ListNotations.
Local Open Scope N_scope.

(* ---------- rows: [None] / [false] = the row is absent ---------- *)
Inductive drow :=
| XDataID (id : bytes) (iri : option bytes)
| XAnchor (id : bytes) (t : option ts)
| XAttestor (id : bytes) (a : addr) (t : option ts)
| XResolver (id : N) (v : option (bytes * option addr))
| XDataResolver (id : bytes) (rid : N) (present : bool)
| XResolverSeq (v : N)
| XCount (table : N) (n : N).     (* 0 DataID 1 DataAnchor 2 DataAttestor 3 Resolver 4 DataResolver *)

(* building the genesis state (absent rows are ignored: nothing is ever removed) *)
Definition set_row (r : drow) (s : dstate) : dstate :=
  match r with
  | XDataID id (Some iri) =>
      match get_data_id id s with Some _ => s | None => set_data_ids (ainsert id iri (data_ids s)) s end
  | XAnchor id (Some t) =>
      match get_anchor id s with Some _ => s | None => set_anchors (ainsert id t (anchors s)) s end
  | XAttestor id a (Some t) =>
      match get_attestor id a s with Some _ => s | None => set_attestors (ainsert (id, a) t (attestors s)) s end
  | XResolver id (Some v) =>
      match get_resolver id s with Some _ => s | None => set_resolvers (ainsert id v (resolvers s)) (resolver_seq s) s end
  | XDataResolver id rid true => set_data_resolvers (sadd dr_key_eqb (id, rid) (data_resolvers s)) s
  | XResolverSeq v => set_resolvers (resolvers s) v s
  | _ => s
  end.

Definition build_state (rows : list drow) : dstate := fold_left (fun s r => set_row r s) rows empty_dstate.

Definition opt_eqb {A} (eqb : A -> A -> bool) (x y : option A) : bool :=
  match x, y with Some a, Some c => eqb a c | None, None => true | _, _ => false end.
Definition ts_eqb (a c : ts) : bool := ((secs a =? secs c) && (nanos a =? nanos c))%Z.

Definition count_rows (t : N) (s : dstate) : N :=
  N.of_nat (match t with
            | 0 => List.length (data_ids s) | 1 => List.length (anchors s) | 2 => List.length (attestors s)
            | 3 => List.length (resolvers s) | _ => List.length (data_resolvers s)
            end).

Definition check_row (s : dstate) (r : drow) : bool :=
  match r with
  | XDataID id iri => opt_eqb bytes_eqb (get_data_id id s) iri
  | XAnchor id t => opt_eqb ts_eqb (get_anchor id s) t
  | XAttestor id a t => opt_eqb ts_eqb (get_attestor id a s) t
  | XResolver id v => opt_eqb resolver_eqb (get_resolver id s) v
  | XDataResolver id rid p => Bool.eqb (has_data_resolver id rid s) p
  | XResolverSeq v => resolver_seq s =? v
  | XCount t n => count_rows t s =? n
  end.

Fixpoint list_eqb {A} (eqb : A -> A -> bool) (x y : list A) : bool :=
  match x, y with
  | [], [] => true
  | a :: x', c :: y' => eqb a c && list_eqb eqb x' y'
  | _, _ => false
  end.

Definition resp_eqb (x y : dresp) : bool :=
  match x, y with
  | RAnchored i1 t1, RAnchored i2 t2 => bytes_eqb i1 i2 && ts_eqb t1 t2
  | RAttested l1 t1, RAttested l2 t2 => list_eqb bytes_eqb l1 l2 && ts_eqb t1 t2
  | RDefined a, RDefined c => a =? c
  | RRegistered, RRegistered => true
  | _, _ => false
  end.

(* ---------- cases ---------- *)

(* what the implementation did with a message *)
Inductive observed :=
| OOk (r : dresp)
| OFail (codespace : bytes) (code : N).

Inductive ditem :=
| IBegin (t : ts)
| IMsg (m : dmsg) (o : observed) (rows : list drow)
| IOther (rows : list drow).     (* a message of another module: lists the data rows it changed (none expected) *)

Record dcase := {
  dc_id : N;
  dc_hasher : list (bytes * bytes);      (* iri -> digest *)
  dc_genesis : list drow;
  dc_items : list ditem;
  dc_final : list drow }.

(* an IRI outside the table gets the empty digest: CreateID then "panics" (EHasher) and the item mismatches *)
Definition table_H (tbl : list (bytes * bytes)) (iri : bytes) : bytes :=
  match alookup bytes_eqb iri tbl with Some d => d | None => [] end.

(* mismatch codes: 1 outcome (ok/fail) differs, 2 response differs, 4 a changed row differs (with its
   index), 5 final state differs (with the index of the row), 7 error code differs *)
Definition bad_rows (s : dstate) (rows : list drow) : list N :=
  (fix go (i : N) (l : list drow) : list N :=
     match l with
     | [] => []
     | r :: l' => if check_row s r then go (i + 1) l' else i :: go (i + 1) l'
     end) 0 rows.

Definition code_eqb (x : bytes * N) (cs : bytes) (c : N) : bool := bytes_eqb (fst x) cs && (snd x =? c).

Section Run.
  Variable H : bytes -> bytes.

  Fixpoint run_items (idx : N) (t : ts) (s : dstate) (l : list ditem) (acc : list (N * N * list N))
    : dstate * list (N * N * list N) :=
    match l with
    | [] => (s, acc)
    | IBegin t' :: l' => run_items (idx + 1) t' s l' acc
    | IOther rows :: l' =>
        run_items (idx + 1) t s l' (match bad_rows s rows with [] => acc | bad => acc ++ [(idx, 4, bad)] end)
    | IMsg m o rows :: l' =>
        let '(s', out) := deliver H t s m in
        match out, o with
        | DOk r, OOk r' =>
            let acc := if resp_eqb r r' then acc else acc ++ [(idx, 2, [])] in
            let acc := match bad_rows s' rows with [] => acc | bad => acc ++ [(idx, 4, bad)] end in
            run_items (idx + 1) t s' l' acc
        | DOk _, OFail _ _ => run_items (idx + 1) t s l' (acc ++ [(idx, 1, [])])
        | DErr _, OOk _ =>
            (* resynchronise on the observed rows so that one disagreement is reported once *)
            run_items (idx + 1) t (fold_left (fun s r => set_row r s) rows s) l' (acc ++ [(idx, 1, [])])
        | DErr e, OFail cs c =>
            let acc := if code_eqb (err_code e) cs c then acc else acc ++ [(idx, 7, [])] in
            (* a failed transaction changes nothing: the item lists no rows, the model state is [s] *)
            let acc := match bad_rows s' rows with [] => acc | bad => acc ++ [(idx, 4, bad)] end in
            run_items (idx + 1) t s' l' acc
        end
    end.
End Run.

Definition run_case (c : dcase) : list (N * N * list N) :=
  let s0 := build_state (dc_genesis c) in
  let '(s, acc) := run_items (table_H (dc_hasher c)) 0 {| secs := 0; nanos := 0 |} s0 (dc_items c) [] in
  match bad_rows s (dc_final c) with [] => acc | bad => acc ++ [(N.of_nat (List.length (dc_items c)), 5, bad)] end.

Definition mismatches (cs : list dcase) : list (N * list (N * N * list N)) :=
  flat_map (fun c => match run_case c with [] => [] | l => [(dc_id c, l)] end) cs.
