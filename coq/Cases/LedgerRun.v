(* Case evaluator for the ledger correspondence families.  A case is a genesis (list of rows), a
   list of items (begin-block / message, each with what the implementation did: success or failure,
   response, bridge events, and every row / bank balance / supply that changed), and the complete
   final state.  The evaluator runs the model on the same operations and reports every item where
   the model's outcome or one of the listed rows differs.  Imports model files only. *)
From stdpp Require Import gmap.
From RecordUpdate Require Import RecordSet.
From Coq Require Import ZArith NArith List Bool Strings.Byte Strings.String.
Require Import Regen.Base.Bytes Regen.Base.Calendar Regen.Dec.Dec.
Require Import Regen.Ledger.Types Regen.Ledger.Msgs Regen.Ledger.Orm Regen.Ledger.BaseMsgs
               Regen.Ledger.BasketMsgs Regen.Ledger.MarketMsgs Regen.Ledger.Step Regen.Ledger.SpellingModel.
Import ListNotations RecordSetNotations.
Local Open Scope Z_scope.

(* ------------------------------------------------------------------ *)
(* rows: one constructor per table; [None] / [false] = the row is absent *)
(* amounts are the stored strings                                      *)
(* ------------------------------------------------------------------ *)

Inductive rowv :=
| XCreditType (abbrev : bytes) (v : option (bytes * bytes * Z))
| XClass (key : N) (v : option class)
| XIssuer (class_key : N) (a : addr) (present : bool)
| XProject (key : N) (v : option project)
| XBatch (key : N) (v : option batch)
| XClassSeq (ct : bytes) (v : option N)
| XProjectSeq (class_key : N) (v : option N)
| XBatchSeq (project_key : N) (v : option N)
| XBalance (a : addr) (bk : N) (v : option (bytes * bytes * bytes))       (* tradable, retired, escrowed *)
| XSupply (bk : N) (v : option (bytes * bytes * bytes))                   (* tradable, retired, cancelled *)
| XOriginTx (class_key : N) (id source : bytes) (present : bool)
| XContract (bk : N) (v : option (N * bytes))
| XAllowlist (enabled : bool)
| XCreator (a : addr) (present : bool)
| XClassFee (v : option coin)
| XBridgeChain (name : bytes) (present : bool)
| XBasket (id : N) (v : option basket)
| XBasketClass (id : N) (class_id : bytes) (present : bool)
| XBasketBalance (id : N) (denom : bytes) (v : option (bytes * ts))
| XBasketFee (v : option coin)
| XOrder (id : N) (v : option sell_order)
| XAllowedDenom (d : bytes) (v : option (bytes * Z))
| XMarket (id : N) (v : option market)
| XFeeParams (buyer seller : bytes)
| XSeq (table : N) (v : N)          (* 0 Class 1 Project 2 Batch 3 Basket 4 SellOrder 5 Market *)
| XBank (a : addr) (denom : bytes) (v : Z)
| XBankSupply (denom : bytes) (v : Z)
| XCount (table : N) (n : N).       (* number of rows of a table, see [count_rows] *)

(* a stored string denotes the model's stored decimal *)
Definition amount_of (str : bytes) : dec := match parse str with Ok d => dnorm d | Err _ => mkDec false 0 0 end.
Definition amount_eq (str : bytes) (d : dec) : bool :=
  match parse str with Ok x => equal x d | Err _ => false end.

Definition opt_upd {K V} `{Countable K} (k : K) (v : option V) (m : gmap K V) : gmap K V :=
  match v with Some x => <[k := x]> m | None => delete k m end.
Definition set_upd {K} `{Countable K} (k : K) (present : bool) (m : gset K) : gset K :=
  if present then {[ k ]} ∪ m else m ∖ {[ k ]}.

(* building a state from rows (genesis) *)
Definition set_row (r : rowv) (s : state) : state :=
  match r with
  | XCreditType a v => s <| credit_types := opt_upd a (option_map (fun '(n, u, p) => {| ct_name := n; ct_unit := u; ct_precision := p |}) v) (credit_types s) |>
  | XClass k v => s <| classes := opt_upd k v (classes s) |>
  | XIssuer ck a p => s <| class_issuers := set_upd (ck, a) p (class_issuers s) |>
  | XProject k v => s <| projects := opt_upd k v (projects s) |>
  | XBatch k v => s <| batches := opt_upd k v (batches s) |>
  | XClassSeq ct v => s <| class_sequences := opt_upd ct v (class_sequences s) |>
  | XProjectSeq k v => s <| project_sequences := opt_upd k v (project_sequences s) |>
  | XBatchSeq k v => s <| batch_sequences := opt_upd k v (batch_sequences s) |>
  | XBalance a bk v => s <| balances := opt_upd (a, bk) (option_map (fun '(t, r, e) => {| bl_tradable := amount_of t; bl_retired := amount_of r; bl_escrowed := amount_of e |}) v) (balances s) |>
  | XSupply bk v => s <| supplies := opt_upd bk (option_map (fun '(t, r, c) => {| su_tradable := amount_of t; su_retired := amount_of r; su_cancelled := amount_of c |}) v) (supplies s) |>
  | XOriginTx ck id src p => s <| origin_txs := set_upd (ck, id, src) p (origin_txs s) |>
  | XContract bk v => s <| batch_contracts := opt_upd bk (option_map (fun '(ck, c) => {| bc_class_key := ck; bc_contract := c |}) v) (batch_contracts s) |>
  | XAllowlist e => s <| allowlist_enabled := e |>
  | XCreator a p => s <| allowed_creators := set_upd a p (allowed_creators s) |>
  | XClassFee v => s <| class_fee := v |>
  | XBridgeChain n p => s <| allowed_bridge_chains := set_upd n p (allowed_bridge_chains s) |>
  | XBasket id v => s <| baskets := opt_upd id v (baskets s) |>
  | XBasketClass id c p => s <| basket_classes := set_upd (id, c) p (basket_classes s) |>
  | XBasketBalance id d v => s <| basket_balances := opt_upd (id, d) (option_map (fun '(bal, st) => {| bb_balance := amount_of bal; bb_start := st |}) v) (basket_balances s) |>
  | XBasketFee v => s <| basket_fee := v |>
  | XOrder id v => s <| sell_orders := opt_upd id v (sell_orders s) |>
  | XAllowedDenom d v => s <| allowed_denoms := opt_upd d v (allowed_denoms s) |>
  | XMarket id v => s <| markets := opt_upd id v (markets s) |>
  | XFeeParams bf sf => s <| fee_params_ := Some {| fp_buyer := bf; fp_seller := sf |} |>
  | XSeq t v =>
      match t with
      | 0%N => s <| class_seq_id := v |> | 1%N => s <| project_seq_id := v |> | 2%N => s <| batch_seq_id := v |>
      | 3%N => s <| basket_seq_id := v |> | 4%N => s <| sell_order_seq_id := v |> | _ => s <| market_seq_id := v |>
      end
  | XBank a d v => s <| bank := <[(a, d) := v]> (bank s) |>
  | XBankSupply d v => s <| bank_supply := <[d := v]> (bank_supply s) |>
  | XCount _ _ => s
  end.

Definition empty_state : state :=
  {| credit_types := ∅; classes := ∅; class_seq_id := 0; class_issuers := ∅; projects := ∅; project_seq_id := 0;
     batches := ∅; batch_seq_id := 0; class_sequences := ∅; project_sequences := ∅; batch_sequences := ∅;
     balances := ∅; supplies := ∅; origin_txs := ∅; batch_contracts := ∅; allowlist_enabled := false;
     allowed_creators := ∅; class_fee := None; allowed_bridge_chains := ∅;
     baskets := ∅; basket_seq_id := 0; basket_classes := ∅; basket_balances := ∅; basket_fee := None;
     sell_orders := ∅; sell_order_seq_id := 0; allowed_denoms := ∅; markets := ∅; market_seq_id := 0;
     fee_params_ := None; bank := ∅; bank_supply := ∅ |}.

Definition build_state (rows : list rowv) : state := fold_left (fun s r => set_row r s) rows empty_state.

(* ------------------------------------------------------------------ *)
(* comparing the model state with observed rows                        *)
(* ------------------------------------------------------------------ *)

Definition opt_eqb {A B} (eqb : A -> B -> bool) (x : option A) (y : option B) : bool :=
  match x, y with Some a, Some c => eqb a c | None, None => true | _, _ => false end.
Definition ts_eqb (a c : ts) : bool := (secs a =? secs c) && (nanos a =? nanos c).
Definition coin_eqb (a c : coin) : bool := bytes_eqb (c_denom a) (c_denom c) && (c_amount a =? c_amount c).

Definition criteria_eqb (a c : date_criteria) : bool :=
  match a, c with
  | DCNone, DCNone => true
  | DCMinStart x, DCMinStart y => ts_eqb x y
  | DCWindow s1 n1, DCWindow s2 n2 => (s1 =? s2) && (n1 =? n2)
  | DCYears x, DCYears y => x =? y
  | _, _ => false
  end.

Definition class_eqb (a c : class) : bool :=
  bytes_eqb (cl_id a) (cl_id c) && (cl_admin a =? cl_admin c)%N && bytes_eqb (cl_metadata a) (cl_metadata c) && bytes_eqb (cl_ct a) (cl_ct c).
Definition project_eqb (a c : project) : bool :=
  bytes_eqb (pj_id a) (pj_id c) && (pj_admin a =? pj_admin c)%N && (pj_class_key a =? pj_class_key c)%N &&
  bytes_eqb (pj_jurisdiction a) (pj_jurisdiction c) && bytes_eqb (pj_metadata a) (pj_metadata c) &&
  bytes_eqb (pj_reference_id a) (pj_reference_id c).
Definition batch_eqb (a c : batch) : bool :=
  (ba_issuer a =? ba_issuer c)%N && (ba_project_key a =? ba_project_key c)%N && bytes_eqb (ba_denom a) (ba_denom c) &&
  bytes_eqb (ba_metadata a) (ba_metadata c) && ts_eqb (ba_start a) (ba_start c) && ts_eqb (ba_end a) (ba_end c) &&
  ts_eqb (ba_issuance a) (ba_issuance c) && Bool.eqb (ba_open a) (ba_open c).
Definition basket_eqb (a c : basket) : bool :=
  bytes_eqb (bk_denom a) (bk_denom c) && bytes_eqb (bk_name a) (bk_name c) &&
  Bool.eqb (bk_disable_auto_retire a) (bk_disable_auto_retire c) && bytes_eqb (bk_ct a) (bk_ct c) &&
  criteria_eqb (bk_criteria a) (bk_criteria c) && (bk_exponent a =? bk_exponent c) && (bk_curator a =? bk_curator c)%N.
(* the order quantity is compared as the exact stored string *)
Definition order_eqb (a c : sell_order) : bool :=
  (so_seller a =? so_seller c)%N && (so_batch_key a =? so_batch_key c)%N && bytes_eqb (so_quantity a) (so_quantity c) &&
  (so_market_id a =? so_market_id c)%N && (so_ask_amount a =? so_ask_amount c) &&
  Bool.eqb (so_disable_auto_retire a) (so_disable_auto_retire c) && opt_eqb ts_eqb (so_expiration a) (so_expiration c) &&
  Bool.eqb (so_maker a) (so_maker c).
Definition market_eqb (a c : market) : bool :=
  bytes_eqb (mk_ct a) (mk_ct c) && bytes_eqb (mk_denom a) (mk_denom c) && (mk_precision_modifier a =? mk_precision_modifier c).

Definition count_rows (t : N) (s : state) : N :=
  N.of_nat (match t with
  | 0%N => size (classes s) | 1%N => size (projects s) | 2%N => size (batches s) | 3%N => size (baskets s)
  | 4%N => size (sell_orders s) | 5%N => size (markets s) | 6%N => size (balances s) | 7%N => size (supplies s)
  | 8%N => size (basket_balances s) | 9%N => size (class_issuers s) | 10%N => size (origin_txs s)
  | 11%N => size (batch_contracts s) | 12%N => size (credit_types s) | 13%N => size (basket_classes s)
  | 14%N => size (allowed_denoms s) | 15%N => size (allowed_creators s) | 16%N => size (allowed_bridge_chains s)
  | 17%N => size (class_sequences s) | 18%N => size (project_sequences s) | _ => size (batch_sequences s)
  end).

Definition check_row (s : state) (r : rowv) : bool :=
  match r with
  | XCreditType a v =>
      opt_eqb (fun x '(n, u, p) => bytes_eqb (ct_name x) n && bytes_eqb (ct_unit x) u && (ct_precision x =? p)) (credit_types s !! a) v
  | XClass k v => opt_eqb class_eqb (classes s !! k) v
  | XIssuer ck a p => Bool.eqb (bool_decide ((ck, a) ∈ class_issuers s)) p
  | XProject k v => opt_eqb project_eqb (projects s !! k) v
  | XBatch k v => opt_eqb batch_eqb (batches s !! k) v
  | XClassSeq ct v => opt_eqb N.eqb (class_sequences s !! ct) v
  | XProjectSeq k v => opt_eqb N.eqb (project_sequences s !! k) v
  | XBatchSeq k v => opt_eqb N.eqb (batch_sequences s !! k) v
  | XBalance a bk v =>
      opt_eqb (fun x '(t, r, e) => amount_eq t (bl_tradable x) && amount_eq r (bl_retired x) && amount_eq e (bl_escrowed x)) (balances s !! (a, bk)) v
  | XSupply bk v =>
      opt_eqb (fun x '(t, r, c) => amount_eq t (su_tradable x) && amount_eq r (su_retired x) && amount_eq c (su_cancelled x)) (supplies s !! bk) v
  | XOriginTx ck id src p => Bool.eqb (bool_decide ((ck, id, src) ∈ origin_txs s)) p
  | XContract bk v => opt_eqb (fun x '(ck, c) => (bc_class_key x =? ck)%N && bytes_eqb (bc_contract x) c) (batch_contracts s !! bk) v
  | XAllowlist e => Bool.eqb (allowlist_enabled s) e
  | XCreator a p => Bool.eqb (bool_decide (a ∈ allowed_creators s)) p
  | XClassFee v => opt_eqb coin_eqb (class_fee s) v
  | XBridgeChain n p => Bool.eqb (bool_decide (n ∈ allowed_bridge_chains s)) p
  | XBasket id v => opt_eqb basket_eqb (baskets s !! id) v
  | XBasketClass id c p => Bool.eqb (bool_decide ((id, c) ∈ basket_classes s)) p
  | XBasketBalance id d v => opt_eqb (fun x '(bal, st) => amount_eq bal (bb_balance x) && ts_eqb (bb_start x) st) (basket_balances s !! (id, d)) v
  | XBasketFee v => opt_eqb coin_eqb (basket_fee s) v
  | XOrder id v => opt_eqb order_eqb (sell_orders s !! id) v
  | XAllowedDenom d v => opt_eqb (fun x '(dd, e) => bytes_eqb x.1 dd && (x.2 =? e)) (allowed_denoms s !! d) v
  | XMarket id v => opt_eqb market_eqb (markets s !! id) v
  | XFeeParams bf sf =>
      let fp := default {| fp_buyer := []; fp_seller := [] |} (fee_params_ s) in
      bytes_eqb (fp_buyer fp) bf && bytes_eqb (fp_seller fp) sf
  | XSeq t v =>
      (match t with
       | 0%N => class_seq_id s | 1%N => project_seq_id s | 2%N => batch_seq_id s
       | 3%N => basket_seq_id s | 4%N => sell_order_seq_id s | _ => market_seq_id s
       end =? v)%N
  | XBank a d v => bank_bal s a d =? v
  | XBankSupply d v => bank_sup s d =? v
  | XCount t n => (count_rows t s =? n)%N
  end.

(* ------------------------------------------------------------------ *)
(* responses and events                                                *)
(* ------------------------------------------------------------------ *)

Fixpoint list_eqb {A} (eqb : A -> A -> bool) (x y : list A) : bool :=
  match x, y with
  | [], [] => true
  | a :: x', c :: y' => eqb a c && list_eqb eqb x' y'
  | _, _ => false
  end.

(* amounts in responses are compared by value *)
Definition amount_str_eq (x y : bytes) : bool :=
  match parse x, parse y with Ok a, Ok c => equal a c | _, _ => bytes_eqb x y end.

Definition response_eqb (x y : response) : bool :=
  match x, y with
  | REmpty, REmpty => true
  | RClassId a, RClassId c | RProjectId a, RProjectId c | RBatchDenom a, RBatchDenom c | RBasketDenom a, RBasketDenom c => bytes_eqb a c
  | RBridgeReceive a1 a2, RBridgeReceive c1 c2 => bytes_eqb a1 c1 && bytes_eqb a2 c2
  | RAmountReceived a, RAmountReceived c => a =? c
  | RTake a, RTake c => list_eqb (fun p q => bytes_eqb p.1 q.1 && amount_str_eq p.2 q.2) a c
  | RSellOrderIds a, RSellOrderIds c => list_eqb N.eqb a c
  | _, _ => false
  end.

Definition otx_eqb (a c : origin_tx) : bool :=
  bytes_eqb (ot_id a) (ot_id c) && bytes_eqb (ot_source a) (ot_source c) && bytes_eqb (ot_contract a) (ot_contract c) && bytes_eqb (ot_note a) (ot_note c).

Definition event_eqb (x y : event) : bool :=
  match x, y with
  | EvBridge t1 r1 c1 a1 o1 d1, EvBridge t2 r2 c2 a2 o2 d2 =>
      bytes_eqb t1 t2 && bytes_eqb r1 r2 && bytes_eqb c1 c2 && amount_str_eq a1 a2 && (o1 =? o2)%N && bytes_eqb d1 d2
  | EvBridgeReceive p1 d1 a1 o1, EvBridgeReceive p2 d2 a2 o2 =>
      bytes_eqb p1 p2 && bytes_eqb d1 d2 && amount_str_eq a1 a2 && otx_eqb o1 o2
  | _, _ => false
  end.

(* ------------------------------------------------------------------ *)
(* cases                                                               *)
(* ------------------------------------------------------------------ *)

Inductive item :=
| IBegin (t : ts) (ok : bool) (rows : list rowv)
| IMsg (m : msg) (ok : bool) (resp : response) (evs : list event) (rows : list rowv)
(* a message in which an address string that ValidateBasic or a handler compares is not in canonical spelling *)
| IMsgSp (sp : spelling) (m : msg) (ok : bool) (resp : response) (evs : list event) (rows : list rowv).

Record lcase := { lc_id : N; lc_genesis : list rowv; lc_items : list item; lc_final : list rowv }.

(* mismatch codes: 1 outcome differs, 2 response differs, 3 events differ, 4 a row differs (with its index),
   5 final state differs (with the index of the row), 6 the model changed state on a failed item *)
Definition bad_rows (s : state) (rows : list rowv) : list N :=
  (fix go (i : N) (l : list rowv) : list N :=
     match l with
     | [] => []
     | r :: l' => if check_row s r then go (i + 1)%N l' else i :: go (i + 1)%N l'
     end) 0%N rows.

Definition authority : addr := addr_gov.

Fixpoint run_items (idx : N) (t : ts) (s : state) (l : list item) (acc : list (N * N * list N)) : state * list (N * N * list N) :=
  match l with
  | [] => (s, acc)
  | IBegin t' ok rows :: l' =>
      match begin_block t' s with
      | LOk s' =>
          let acc := if ok then match bad_rows s' rows with [] => acc | b => acc ++ [(idx, 4%N, b)] end
                     else acc ++ [(idx, 1%N, [])] in
          run_items (idx + 1)%N t' (if ok then s' else s) l' acc
      | LErr _ =>
          run_items (idx + 1)%N t' s l' (if ok then acc ++ [(idx, 1%N, [])] else acc)
      end
  | IMsg m ok resp evs rows :: l' =>
      let '(s', out) := deliver {| e_time := t; e_authority := authority |} s m in
      match out with
      | OOk r es =>
          if ok then
            let acc := if response_eqb r resp then acc else acc ++ [(idx, 2%N, [])] in
            let acc := if list_eqb event_eqb es evs then acc else acc ++ [(idx, 3%N, [])] in
            let acc := match bad_rows s' rows with [] => acc | b => acc ++ [(idx, 4%N, b)] end in
            run_items (idx + 1)%N t s' l' acc
          else run_items (idx + 1)%N t s l' (acc ++ [(idx, 1%N, [])])
      | _ =>
          if ok then
            (* resynchronise on the observed rows so that one disagreement is reported once *)
            run_items (idx + 1)%N t (fold_left (fun s r => set_row r s) rows s) l' (acc ++ [(idx, 1%N, [])])
          else run_items (idx + 1)%N t s l' acc
      end
  | IMsgSp sp m ok resp evs rows :: l' =>
      let '(s', out) := deliver_sp sp {| e_time := t; e_authority := authority |} s m in
      match out with
      | OOk r es =>
          if ok then
            let acc := if response_eqb r resp then acc else acc ++ [(idx, 2%N, [])] in
            let acc := if list_eqb event_eqb es evs then acc else acc ++ [(idx, 3%N, [])] in
            let acc := match bad_rows s' rows with [] => acc | b => acc ++ [(idx, 4%N, b)] end in
            run_items (idx + 1)%N t s' l' acc
          else run_items (idx + 1)%N t s l' (acc ++ [(idx, 1%N, [])])
      | _ =>
          if ok then
            (* resynchronise on the observed rows so that one disagreement is reported once *)
            run_items (idx + 1)%N t (fold_left (fun s r => set_row r s) rows s) l' (acc ++ [(idx, 1%N, [])])
          else run_items (idx + 1)%N t s l' acc
      end
  end.

Definition run_case (c : lcase) : list (N * N * list N) :=
  let s0 := build_state (lc_genesis c) in
  let '(s, acc) := run_items 0%N {| secs := 0; nanos := 0 |} s0 (lc_items c) [] in
  match bad_rows s (lc_final c) with [] => acc | b => acc ++ [(N.of_nat (List.length (lc_items c)), 5%N, b)] end.

Definition mismatches (cs : list lcase) : list (N * list (N * N * list N)) :=
  flat_map (fun c => match run_case c with [] => [] | l => [(lc_id c, l)] end) cs.
