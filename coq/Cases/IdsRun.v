(* Correspondence evaluator of family "idstrings" (harness/cmd/idstrings): replays the cases
   observed on the real Go functions against the model of Ids/Ids.v.  Imports model files only.

   Domain guards (the only inputs on which the model makes no claim):
   * GetCreditTypeAbbrevFromClassID: unicode.IsNumber is modelled on ASCII only.  When a byte
     >= 0x80 occurs before the first ASCII digit the model returns None; the Go harness then
     emits [obs = None] as well (and counts the case as "skipped_non_ascii_abbrev_parser" in its
     summary).  A disagreement about which inputs are skipped is reported as a mismatch.
   Everything else (all validators, formatters and the three '-' parsers) is total: arbitrary
   bytes, invalid UTF-8, timestamps of either sign, sequence numbers up to 2^64-1. *)
From Coq Require Import List NArith ZArith Bool Strings.Byte.
Require Import Regen.Base.Bytes Regen.Base.Regex Regen.Base.Calendar Regen.Generated.IdConsts Regen.Ids.Ids.
Import ListNotations.

Inductive validator :=
| VAbbrev | VClassID | VProjectID | VBatchDenom | VJurisdiction
| VBasketName | VBasketDenom | VOriginTxID | VOriginTxSource | VEthAddress.

Inductive parser := PClassFromProject | PClassFromDenom | PProjectFromDenom | PAbbrevFromClass.

Inductive id_case :=
| CFormatClassID (id : N) (abbrev : bytes) (seq : N) (obs : bytes)
| CFormatProjectID (id : N) (class_id : bytes) (seq : N) (obs : bytes)
| CFormatBatchDenom (id : N) (project_id : bytes) (seq : N) (start_date end_date : ts) (obs : bytes)
| CValidate (id : N) (v : validator) (s : bytes) (obs : bool)             (* obs = (err == nil) *)
| CGet (id : N) (p : parser) (s : bytes) (obs : option bytes)             (* None = declared out of domain *)
| CExponentToPrefix (id : N) (e : N) (obs : option bytes)                 (* None = error *)
| CFormatBasketDenom (id : N) (name abbrev : bytes) (e : N) (obs : option (bytes * bytes)).

Definition run_validator (v : validator) (s : bytes) : bool :=
  match v with
  | VAbbrev => validate_credit_type_abbrev s
  | VClassID => validate_class_id s
  | VProjectID => validate_project_id s
  | VBatchDenom => validate_batch_denom s
  | VJurisdiction => validate_jurisdiction s
  | VBasketName => validate_basket_name s
  | VBasketDenom => validate_basket_denom s
  | VOriginTxID => validate_origin_tx_id s
  | VOriginTxSource => validate_origin_tx_source s
  | VEthAddress => is_valid_eth_address s
  end.

Definition run_parser (p : parser) (s : bytes) : option bytes :=
  match p with
  | PClassFromProject => Some (get_class_id_from_project_id s)
  | PClassFromDenom => Some (get_class_id_from_batch_denom s)
  | PProjectFromDenom => Some (get_project_id_from_batch_denom s)
  | PAbbrevFromClass => get_credit_type_abbrev_from_class_id s
  end.

Definition opt_bytes_eqb (x y : option bytes) : bool :=
  match x, y with
  | Some a, Some c => bytes_eqb a c
  | None, None => true
  | _, _ => false
  end.

Definition opt_pair_eqb (x y : option (bytes * bytes)) : bool :=
  match x, y with
  | Some (a1, a2), Some (c1, c2) => bytes_eqb a1 c1 && bytes_eqb a2 c2
  | None, None => true
  | _, _ => false
  end.

Definition case_id (c : id_case) : N :=
  match c with
  | CFormatClassID id _ _ _ | CFormatProjectID id _ _ _ | CFormatBatchDenom id _ _ _ _ _
  | CValidate id _ _ _ | CGet id _ _ _ | CExponentToPrefix id _ _ | CFormatBasketDenom id _ _ _ _ => id
  end.

Definition case_ok (c : id_case) : bool :=
  match c with
  | CFormatClassID _ a n obs => bytes_eqb (format_class_id a n) obs
  | CFormatProjectID _ c n obs => bytes_eqb (format_project_id c n) obs
  | CFormatBatchDenom _ p n s e obs => bytes_eqb (format_batch_denom p n s e) obs
  | CValidate _ v s obs => Bool.eqb (run_validator v s) obs
  | CGet _ p s obs => opt_bytes_eqb (run_parser p s) obs
  | CExponentToPrefix _ e obs => opt_bytes_eqb (exponent_to_prefix e) obs
  | CFormatBasketDenom _ name a e obs => opt_pair_eqb (format_basket_denom name a e) obs
  end.

(* ids of the cases on which model and implementation disagree; expected [] *)
Definition mismatches (cs : list id_case) : list N :=
  map case_id (filter (fun c => negb (case_ok c)) cs).

(* ids of the cases skipped by the domain guard (informational) *)
Definition skipped (cs : list id_case) : list N :=
  map case_id (filter (fun c => match c with CGet _ p s _ => match run_parser p s with None => true | _ => false end | _ => false end) cs).
