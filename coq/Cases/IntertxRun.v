(* Correspondence evaluator for the intertx family (property C20).  Imports model files only.

   A case records one configuration of the two fake collaborators of the real keeper
   (what GetActiveChannelID / GetCapability answer and for which key, whether SendTx accepts),
   the block time, one MsgSubmitTx, and what the real code did with it:
   ValidateBasic, GetSigners, the SubmitTx response, every recorded SendTx call and the arguments of
   every recorded GetActiveChannelID / GetCapability query.  [mismatches] re-runs the model and
   lists the ids of the cases where any of these differ. *)
From Coq Require Import List ZArith NArith Bool Strings.Byte Strings.Ascii Strings.String Uint63.
Require Import Regen.Base.Bytes Regen.Generated.IntertxConsts Regen.Intertx.ProtoWire Regen.Intertx.SubmitTx.
Import ListNotations.

(* Compact literals for case files.  Coq elaborates a long list of byte constructors or a long
   string literal slowly (tens of seconds per MB), so long byte strings are shipped as lists of
   primitive 63-bit integers, 7 bytes per integer, big-endian, zero-padded at the end:
   [u63 n [i1; i2; ...]] is the first [n] bytes of the concatenation of the 7-byte groups.
   Short or printable strings use [b "..."] (Regen.Base.Bytes) or [hx "<lower-case hex>"].
   Ill-formed input cannot make a wrong case pass by accident: the decoded bytes are compared with
   what the model computes. *)
Definition hex_val (a : Ascii.ascii) : N :=
  let n := Ascii.N_of_ascii a in
  if (n <? 58)%N then (n - 48)%N else (n - 87)%N.
Fixpoint hx (s : String.string) : bytes :=
  match s with
  | String.String a (String.String c r) => byte_of_N_trunc (16 * hex_val a + hex_val c) :: hx r
  | _ => []
  end.

Definition int_byte (i : Uint63.int) (shift : Uint63.int) : byte :=
  byte_of_Z_trunc (Uint63.to_Z (Uint63.land (Uint63.lsr i shift) 255%uint63)).
Definition unpack7 (i : Uint63.int) : bytes :=
  [int_byte i 48%uint63; int_byte i 40%uint63; int_byte i 32%uint63; int_byte i 24%uint63;
   int_byte i 16%uint63; int_byte i 8%uint63; int_byte i 0%uint63].
Definition u63 (n : N) (l : list Uint63.int) : bytes := firstn (N.to_nat n) (flat_map unpack7 l).

(* observed error class *)
Inductive oerr :=
| ONil                 (* nil error *)
| OErr (e : err)
| OUnknown.            (* an error the harness could not classify: never matches the model *)

Inductive intertx_case :=
| IntertxCase
    (id : N)
    (* fake ICA controller keeper: answers [chan] to GetActiveChannelID(conn_key, port_key), not found otherwise *)
    (chan_key_conn chan_key_port : bytes) (chan : option bytes)
    (* fake capability keeper: answers capability #cap to GetCapability(cap_key), not found otherwise *)
    (cap_key : bytes) (cap : option N)
    (block_ns : Z)                      (* ctx.BlockTime() as exact Unix ns *)
    (addr : option bytes)               (* sdk.AccAddressFromBech32(owner) *)
    (send_ok : bool)                    (* whether the fake SendTx returns nil *)
    (msg : submit_msg)
    (* observed *)
    (obs_vb : oerr)
    (obs_signers : list bytes)
    (obs_resp : oerr)
    (obs_calls : list (send_call N))
    (obs_chan_queries : list (bytes * bytes))
    (obs_cap_queries : list bytes).

Fixpoint list_eqb {A} (eqb : A -> A -> bool) (x y : list A) : bool :=
  match x, y with
  | [], [] => true
  | a :: x', c :: y' => eqb a c && list_eqb eqb x' y'
  | _, _ => false
  end.

Definition call_eqb (x y : send_call N) : bool :=
  (sc_cap x =? sc_cap y)%N && bytes_eqb (sc_conn x) (sc_conn y) && bytes_eqb (sc_port x) (sc_port y)
  && (sc_type x =? sc_type y)%N && bytes_eqb (sc_data x) (sc_data y) && bytes_eqb (sc_memo x) (sc_memo y)
  && (sc_timeout x =? sc_timeout y)%Z.

Definition pair_eqb (x y : bytes * bytes) : bool := bytes_eqb (fst x) (fst y) && bytes_eqb (snd x) (snd y).

Definition res_matches {A} (r : res A) (o : oerr) : bool :=
  match r, o with
  | Ok _, ONil => true
  | Err e, OErr e' => err_eqb e e'
  | _, _ => false
  end.

Definition case_env (chan_key_conn chan_key_port : bytes) (chan : option bytes)
    (cap_key : bytes) (cap : option N) (block_ns : Z) (addr : option bytes) (send_ok : bool) : env N :=
  {| active_channel := fun c p => if bytes_eqb c chan_key_conn && bytes_eqb p chan_key_port then chan else None;
     capability := fun name => if bytes_eqb name cap_key then cap else None;
     block_time_ns := block_ns;
     acc_from_bech32 := fun _ => addr;
     sendtx_accepts := fun _ => send_ok |}.

(* the oracle queries the model makes, in order *)
Definition model_chan_queries (m : submit_msg) : list (bytes * bytes) :=
  match controller_port_id (owner m) with
  | Ok port => [(connection_id m, port)]
  | Err _ => []
  end.

Definition model_cap_queries (e : env N) (m : submit_msg) : list bytes :=
  match controller_port_id (owner m) with
  | Ok port =>
      match active_channel e (connection_id m) port with
      | Some ch => [channel_capability_path port ch]
      | None => []
      end
  | Err _ => []
  end.

Definition model_calls (e : env N) (m : submit_msg) : list (send_call N) :=
  match submit e m with Ok l => l | Err _ => [] end.

(* every observed packet decodes (model decoder) to exactly the inner message *)
Definition data_decodes (m : submit_msg) (c : send_call N) : bool :=
  match decode_cosmos_tx (sc_data c), inner m with
  | Some [a], Some a' => any_eqb a a'
  | _, _ => false
  end.

(* reason codes: 1 ValidateBasic, 2 GetSigners, 3 response, 4 SendTx calls, 5 channel queries,
   6 capability queries, 7 model decoder on the observed packet *)
Definition check_case (c : intertx_case) : list N :=
  match c with
  | IntertxCase id kc kp chan ck cap bt addr sok m ovb osig oresp ocalls ochq ocapq =>
      let e := case_env kc kp chan ck cap bt addr sok in
      (if res_matches (validate_basic e m) ovb then [] else [1%N]) ++
      (if list_eqb bytes_eqb (signers e m) osig then [] else [2%N]) ++
      (if res_matches (submit_tx e m) oresp then [] else [3%N]) ++
      (if list_eqb call_eqb (model_calls e m) ocalls then [] else [4%N]) ++
      (if list_eqb pair_eqb (model_chan_queries m) ochq then [] else [5%N]) ++
      (if list_eqb bytes_eqb (model_cap_queries e m) ocapq then [] else [6%N]) ++
      (if forallb (data_decodes m) ocalls then [] else [7%N])
  end.

Definition case_id (c : intertx_case) : N :=
  match c with IntertxCase id _ _ _ _ _ _ _ _ _ _ _ _ _ _ _ => id end.

Definition mismatches (cs : list intertx_case) : list N :=
  flat_map (fun c => match check_case c with [] => [] | _ => [case_id c] end) cs.

(* for debugging a red run: ids with their reason codes *)
Definition mismatch_reasons (cs : list intertx_case) : list (N * list N) :=
  flat_map (fun c => match check_case c with [] => [] | r => [(case_id c, r)] end) cs.
