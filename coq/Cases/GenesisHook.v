(* Hook of the genesis validators (property C09) into the correspondence evaluators: the verdict of
   the model of x/ecocredit/genesis.ValidateGenesis on a model state.  Model file. *)
Require Import Regen.Ledger.Types Regen.Genesis.Validators.

Definition validate_state (s : state) : bool := validate_genesis_full s.
