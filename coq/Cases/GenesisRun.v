(* Case evaluator for the genesis-validation correspondence (property C09).

   A case is a complete ecocredit module state, given as the rows of its tables (the [rowv] type of
   Cases/LedgerRun.v, amounts as the stored strings), together with the verdict the REAL
   `ValidateGenesis` of the ecocredit module returned on the genesis exported from that state
   (true = no error).  The evaluator builds the model state with [build_state] and compares
   [validate_genesis] with the observed verdict.

   The model state stores decimals, not strings, and [build_state] turns an unparsable amount
   string into 0.  The implementation's row validators reject such a string
   (NewNonNegativeDecFromString fails), so the evaluator checks the raw strings first
   ([rows_parse_ok]); this only matters for hand-edited genesis files (harness cmd/genesisprobe).
   Imports model files only. *)
From stdpp Require Import gmap.
From Coq Require Import ZArith NArith List Bool Strings.Byte Strings.String.
Require Import Regen.Base.Bytes Regen.Base.Calendar Regen.Dec.Dec.
Require Import Regen.Ledger.Types Regen.Ledger.Msgs Regen.Ledger.Orm Regen.Ledger.Step.
Require Import Regen.Cases.LedgerRun Regen.Genesis.Validators Regen.Cases.GenesisHook.
Import ListNotations.

Record gcase := { gc_id : N; gc_rows : list rowv; gc_observed : bool }.

Definition amount_string_parses (str : bytes) : bool := is_ok (parse str).

Definition row_parse_ok (r : rowv) : bool :=
  match r with
  | XBalance _ _ (Some (t, r, e)) => amount_string_parses t && amount_string_parses r && amount_string_parses e
  | XSupply _ (Some (t, r, c)) => amount_string_parses t && amount_string_parses r && amount_string_parses c
  | XBasketBalance _ _ (Some (bal, _)) => amount_string_parses bal
  | _ => true
  end.
Definition rows_parse_ok (rows : list rowv) : bool := forallb row_parse_ok rows.

Definition model_verdict (rows : list rowv) : bool :=
  rows_parse_ok rows && validate_state (build_state rows).

(* (strings parse, ORM import checks, row validators, cross-table checks): for triage of a mismatch *)
Definition diagnose (rows : list rowv) : bool * bool * bool * bool :=
  let s := build_state rows in
  (rows_parse_ok rows, import_ok s, validate_rows s, validate_cross s).

Definition mismatches (cs : list gcase) : list N :=
  flat_map (fun c => if Bool.eqb (model_verdict (gc_rows c)) (gc_observed c) then [] else [gc_id c]) cs.

(* how many cases the implementation rejected (so that a summary can show both verdicts occur) *)
Definition rejected (cs : list gcase) : N :=
  N.of_nat (List.length (List.filter (fun c => negb (gc_observed c)) cs)).
