(* Case evaluator of the query correspondence family (property C17).  A case is a ledger state (the
   snapshot rows of Cases/LedgerRun.v), the address-bytes table of the harness accounts, and a list
   of items: a query request, a pagination scenario, and what the REAL gRPC query service returned
   (every page: the ordered rows, whether next_key was set, total, whether a PageResponse was
   present; or the single entity; or the error class).  The evaluator runs the model of
   Query/Queries.v + Query/Paginate.v on the same state and reports every item that differs.
   Cursors are opaque: a key walk is replayed by the model with its own (positional) cursors and
   compared page by page.  Imports model files only. *)
From stdpp Require Import gmap.
From Coq Require Import ZArith NArith List Bool Strings.Byte Strings.String.
Require Import Regen.Base.Bytes Regen.Base.Calendar Regen.Dec.Dec.
Require Import Regen.Ledger.Types Regen.Ledger.Msgs Regen.Ledger.Orm.
Require Import Regen.Query.Paginate Regen.Query.Queries.
Require Import Regen.Cases.LedgerRun.
Require Regen.Data.DataMsgs Regen.Cases.DataRun.
Import ListNotations.
Local Open Scope Z_scope.

(* ------------------------------------------------------------------ *)
(* cases                                                               *)
(* ------------------------------------------------------------------ *)

Inductive pspec :=
| PSNil                                        (* nil PageRequest (the handler substitutes limit 100) *)
| PSOne (offset limit : N) (ct rev : bool)     (* one request without a key *)
| PSKeyAndOffset (offset limit : N)            (* a non-empty key together with an offset > 0 *)
| PSWalkKey (k : N) (ct rev : bool)            (* limit k, follow next_key until it is empty *)
| PSWalkOffset (k : N) (ct rev : bool).        (* offsets 0, k, 2k, ... until next_key is empty *)

Definition orow := qrow bytes.

Record opage := { op_rows : list orow; op_next : bool; op_total : N; op_present : bool }.

Inductive qobs :=
| OPages (pages : list opage)     (* a paginated or unpaginated list answer, one entry per request made *)
| OOne (r : orow)                 (* single-entity answer *)
| OErr (cls : N).                 (* 1 NotFound, 2 InvalidArgument, 3 any other error, 4 panic *)

(* a request to one of the three ecocredit query services, or to the data query service *)
Inductive anyreq := EQ (q : qreq) | DQ (q : dqreq).

Record qitem := { qi_req : anyreq; qi_page : pspec; qi_obs : qobs }.

(* [qc_state]: the ecocredit tables (rowv of Cases/LedgerRun.v); [qc_data]: the data tables (drow of
   Cases/DataRun.v) *)
Record qcase := { qc_id : N; qc_state : list rowv; qc_data : list DataRun.drow; qc_addrs : addr_table;
                  qc_items : list qitem }.

(* ------------------------------------------------------------------ *)
(* comparing rows (amounts by value)                                   *)
(* ------------------------------------------------------------------ *)

Definition beq := bytes_eqb.
Definition aeq (o : bytes) (m : dec) : bool := amount_eq o m.

Definition row_match (m : mrow) (o : orow) : bool :=
  match m, o with
  | RClass i a md ct, RClass i' a' md' ct' => beq i i' && (a =? a')%N && beq md md' && beq ct ct'
  | RProject i a c j md r, RProject i' a' c' j' md' r' =>
      beq i i' && (a =? a')%N && beq c c' && beq j j' && beq md md' && beq r r'
  | RBatch a p d md s e i o, RBatch a' p' d' md' s' e' i' o' =>
      (a =? a')%N && beq p p' && beq d d' && beq md md' && ts_eqb s s' && ts_eqb e e' && ts_eqb i i' && Bool.eqb o o'
  | RBalance a d t r e, RBalance a' d' t' r' e' => (a =? a')%N && beq d d' && aeq t' t && aeq r' r && aeq e' e
  | RSupply t r c, RSupply t' r' c' => aeq t' t && aeq r' r && aeq c' c
  | RCreditType a n u p, RCreditType a' n' u' p' => beq a a' && beq n n' && beq u u' && (p =? p')
  | RAddr a, RAddr a' => (a =? a')%N
  | RStr x, RStr x' => beq x x'
  | RBasket i d n dar ct cr ex cu, RBasket i' d' n' dar' ct' cr' ex' cu' =>
      (i =? i')%N && beq d d' && beq n n' && Bool.eqb dar dar' && beq ct ct' && criteria_eqb cr cr' && (ex =? ex') && (cu =? cu')%N
  | RBasketOne i d n dar ct cr ex cu cls, RBasketOne i' d' n' dar' ct' cr' ex' cu' cls' =>
      (i =? i')%N && beq d d' && beq n n' && Bool.eqb dar dar' && beq ct ct' && criteria_eqb cr cr' && (ex =? ex') && (cu =? cu')%N
      && list_eqb beq cls cls'
  | RBasketBalance i d bal st, RBasketBalance i' d' bal' st' => (i =? i')%N && beq d d' && aeq bal' bal && ts_eqb st st'
  | RAmount x, RAmount x' => aeq x' x
  | ROrder i sl d q ad aa dar ex, ROrder i' sl' d' q' ad' aa' dar' ex' =>
      (i =? i')%N && (sl =? sl')%N && beq d d' && beq q q' && beq ad ad' && (aa =? aa') && Bool.eqb dar dar' && opt_eqb ts_eqb ex ex'
  | RAllowedDenom bd d e, RAllowedDenom bd' d' e' => beq bd bd' && beq d d' && (e =? e')
  | RAttestation i a t, RAttestation i' a' t' => beq i i' && (a =? a')%N && ts_eqb t t'
  | RResolver i u m, RResolver i' u' m' => (i =? i')%N && beq u u' && opt_eqb N.eqb m m'
  | RAnchor i t, RAnchor i' t' => beq i i' && ts_eqb t t'
  | _, _ => false
  end.

Fixpoint rows_match (m : list mrow) (o : list orow) : bool :=
  match m, o with
  | [], [] => true
  | x :: m', y :: o' => row_match x y && rows_match m' o'
  | _, _ => false
  end.

(* ------------------------------------------------------------------ *)
(* evaluation                                                          *)
(* ------------------------------------------------------------------ *)

(* mismatch codes:
   1 the model answers with an error / a list / an entity and the implementation with another kind
   2 the error class differs            3 the number of pages differs
   4 the rows of a page differ          5 next_key presence differs
   6 total differs                      7 PageResponse presence differs
   8 the single entity differs          9 the model's walk failed or ran out of fuel *)

Definition err_class (e : qerr) : N := match e with ENotFound => 1 | EInvalidArgument => 2 | EOther => 3 end.

Definition check_page (pg : page_res (option mrow)) (o : opage) : list N :=
  match all_some (pg_items pg) with
  | None => [1%N]
  | Some rows =>
      (if rows_match rows (op_rows o) then [] else [4%N]) ++
      (if Bool.eqb (match pg_next pg with Some _ => true | None => false end) (op_next o) then [] else [5%N]) ++
      (if (pg_total pg =? op_total o)%N then [] else [6%N]) ++
      (if Bool.eqb (pg_present pg) (op_present o) then [] else [7%N])
  end.

Fixpoint check_pages (pgs : list (page_res (option mrow))) (os : list opage) : list N :=
  match pgs, os with
  | [], [] => []
  | p :: pgs', o :: os' => check_page p o ++ check_pages pgs' os'
  | _, _ => [3%N]
  end.

(* a join failure inside a page makes the handler return NotFound for that request; every earlier
   page of a walk was answered, so an observed error is compared with the first failing page *)
Fixpoint first_bad_page (pgs : list (page_res (option mrow))) : bool :=
  match pgs with
  | [] => false
  | p :: pgs' => match all_some (pg_items p) with None => true | Some _ => first_bad_page pgs' end
  end.

Definition check_single (r : pres (option mrow)) (obs : qobs) : list N :=
  match r, obs with
  | POk pg, OPages [o] => check_page pg o
  | POk pg, OPages _ => [3%N]
  | POk pg, OErr c => match all_some (pg_items pg) with None => if (c =? 1)%N then [] else [2%N] | Some _ => [1%N] end
  | PErrCursorAndOffset, OErr c => if (c =? 3)%N then [] else [2%N]
  | PSkipPastEnd _, OErr c => if (c =? 4)%N then [] else [2%N]
  | _, _ => [1%N]
  end.

Definition check_walk (w : walk_res (option mrow)) (obs : qobs) : list N :=
  match w, obs with
  | WOk pgs, OPages os => check_pages pgs os
  | WOk pgs, OErr c => if first_bad_page pgs then (if (c =? 1)%N then [] else [2%N]) else [1%N]
  | WOk _, OOne _ => [1%N]
  | _, _ => [9%N]
  end.

Definition check_paged (l : list (option mrow)) (p : pspec) (obs : qobs) : list N :=
  match p with
  | PSNil => check_single (paginate l (page_req_of_request None)) obs
  | PSOne off lim ct rev => check_single (paginate l (page_req_of_request (Some (MkPageReq None off lim ct rev)))) obs
  | PSKeyAndOffset off lim => check_single (paginate l (page_req_of_request (Some (MkPageReq (Some O) off lim false false)))) obs
  | PSWalkKey k ct rev => check_walk (walk_by_key (S (List.length l)) l k ct rev None) obs
  | PSWalkOffset k ct rev => check_walk (walk_by_offset (S (List.length l)) l k ct rev 0%N) obs
  end.

Definition check_item (ab : addr -> bytes) (s : state) (d : DataMsgs.dstate) (it : qitem) : list N :=
  match (match qi_req it with EQ q => run_query ab s q | DQ q => run_data_query ab d q end), qi_obs it with
  | QErr e, OErr c => if (err_class e =? c)%N then [] else [2%N]
  | QErr _, _ => [1%N]
  | QOne r, OOne o => if row_match r o then [] else [8%N]
  | QOne _, _ => [1%N]
  | QAll l, OPages [o] =>
      (if rows_match l (op_rows o) then [] else [4%N]) ++
      (if op_next o then [5%N] else []) ++ (if (op_total o =? 0)%N then [] else [6%N]) ++ (if op_present o then [7%N] else [])
  | QAll _, _ => [1%N]
  | QPaged l, obs => check_paged l (qi_page it) obs
  end.

Definition run_case (c : qcase) : list (N * list N) :=
  let s := build_state (qc_state c) in
  let d := DataRun.build_state (qc_data c) in
  let ab := addr_lookup (qc_addrs c) in
  (fix go (i : N) (l : list qitem) : list (N * list N) :=
     match l with
     | [] => []
     | it :: l' =>
         match check_item ab s d it with
         | [] => go (i + 1)%N l'
         | bad => (i, bad) :: go (i + 1)%N l'
         end
     end) 0%N (qc_items c).

Definition mismatches (cs : list qcase) : list (N * list (N * list N)) :=
  flat_map (fun c => match run_case c with [] => [] | l => [(qc_id c, l)] end) cs.
