(* Property C09, proof file: "what message validation plus a successful handler lets into a row
   satisfies that row's genesis validator".

   Shape of the theorems.  [Inv_valid s := validate_rows s = true] (every row of every table that
   ValidateGenesis validates passes its state validator).  For a handler h:

       Inv_valid s -> validate_basic m = true -> handle e s m = LOk (s', r, evs) ->
       Inv_core s' -> small_state s' -> Inv_valid s'

   The two extra hypotheses are about the POST state and concern only the amount columns:
     - [Inv_core s'] is the credit-accounting invariant of Ledger/Inv.v (stored amounts are
       non-negative decimals with at most 6 places, every balance / supply / basket-balance / order
       row names an existing batch or basket); its preservation by every handler is property C01
       (Ledger/InvBase.v, InvBasket.v, ...), so it is available for every reachable state;
     - [small_state s'] bounds the coefficients by 10^100000, the side condition of
       DecIface.parse_to_string (apd refuses exponents beyond +-100000; no reachable amount comes
       near).
   Under them the amount columns of s' validate ([amounts_valid]) without looking at the handler at
   all.  Everything else (ids, denoms, metadata / jurisdiction / reference bounds, dates, fees,
   sell-order keys and prices, markets, baskets, sequences, origin txs, contracts, ...) is proved by
   walking through the handler: that part is [MV] ("meta valid") and its preservation.

   Known defect F4: Batch.Validate wants end date > start date, MsgCreateBatch / MsgBridgeReceive
   accept start = end.  So the statement above is FALSE for those two messages
   ([C09_batch_dates_refuted]); it is proved for them with the date clause removed
   ([..._partial], parameter d = false below) and in full (d = true) for every other message.

   The data module's analogue (defect F6, public resolver) is at the end of the file. *)
From stdpp Require Import gmap.
From RecordUpdate Require Import RecordSet.
From Coq Require Import ZArith NArith List Bool Lia Strings.Byte Strings.String.
Require Import Regen.Base.Bytes Regen.Base.Regex Regen.Base.RegexProps Regen.Base.Calendar Regen.Dec.Dec Regen.Dec.DecLemmas
               Regen.Dec.DecIface Regen.Ids.Ids Regen.Ids.IdsProps Regen.Generated.IdConsts.
Require Import Regen.Ledger.Types Regen.Ledger.Msgs Regen.Ledger.Orm Regen.Ledger.BaseMsgs
               Regen.Ledger.BasketMsgs Regen.Ledger.MarketMsgs Regen.Ledger.Step
               Regen.Ledger.Amount Regen.Ledger.MapSum Regen.Ledger.Inv Regen.Ledger.InvTactics
               Regen.Ledger.InvFrame.
Require Import Regen.Genesis.Validators.
Import ListNotations RecordSetNotations.
Local Open Scope Z_scope.

(* ------------------------------------------------------------------ *)
(* boolean folds over tables                                           *)
(* ------------------------------------------------------------------ *)

Lemma map_forallb_spec {K V} `{Countable K} (f : K -> V -> bool) (m : gmap K V) :
  map_forallb f m = true <-> (forall k v, m !! k = Some v -> f k v = true).
Proof.
  unfold map_forallb. rewrite forallb_forall. split.
  - intros Hf k v Hkv. apply (Hf (k, v)). apply elem_of_list_In, elem_of_map_to_list. exact Hkv.
  - intros Hf [k v] Hin. apply Hf. apply elem_of_map_to_list, elem_of_list_In. exact Hin.
Qed.

Lemma set_forallb_spec {K} `{Countable K} (f : K -> bool) (m : gset K) :
  set_forallb f m = true <-> (forall k, k ∈ m -> f k = true).
Proof.
  unfold set_forallb. rewrite forallb_forall. split.
  - intros Hf k Hk. apply Hf. apply elem_of_list_In, elem_of_elements. exact Hk.
  - intros Hf k Hin. apply Hf. apply elem_of_elements, elem_of_list_In. exact Hin.
Qed.

Ltac bsplit := repeat (apply andb_true_intro; split).
Ltac bdestr H := repeat (let H' := fresh H in apply andb_true_iff in H; destruct H as [H H']).

(* ------------------------------------------------------------------ *)
(* the statement                                                       *)
(* ------------------------------------------------------------------ *)

(* the batch validator with (d = true) or without (d = false) the date comparison *)
Definition vbd (d : bool) (k : N) (ba : batch) : bool :=
  valid_batch_except_dates k ba && (if d then valid_batch_dates ba else true).

Definition Inv_valid (s : state) : Prop := validate_rows s = true.
Definition Inv_valid_except_dates (s : state) : Prop := validate_rows_except_dates s = true.
Definition Inv_valid_d (d : bool) (s : state) : Prop := validate_rows_with (vbd d) s = true.

Lemma Inv_valid_d_true s : Inv_valid_d true s <-> Inv_valid s.
Proof. reflexivity. Qed.

Lemma forallb_ext' {A} (f g : A -> bool) l : (forall x, f x = g x) -> forallb f l = forallb g l.
Proof. intros E. induction l as [|a l IH]; [reflexivity|]. cbn. rewrite E, IH. reflexivity. Qed.

Lemma validate_rows_with_ext f g s :
  (forall k ba, f k ba = g k ba) -> validate_rows_with f s = validate_rows_with g s.
Proof.
  intros E. unfold validate_rows_with.
  replace (map_forallb f (batches s)) with (map_forallb g (batches s)); [reflexivity|].
  unfold map_forallb. apply forallb_ext'. intros [k ba]. symmetry. apply E.
Qed.

Lemma Inv_valid_d_false s : Inv_valid_d false s <-> Inv_valid_except_dates s.
Proof.
  unfold Inv_valid_d, Inv_valid_except_dates, validate_rows_except_dates.
  rewrite (validate_rows_with_ext (vbd false) valid_batch_except_dates); [reflexivity|].
  intros k ba. unfold vbd. apply andb_true_r.
Qed.

(* the full validator implies the one without dates *)
Lemma Inv_valid_weaken s : Inv_valid s -> Inv_valid_except_dates s.
Proof.
  unfold Inv_valid, Inv_valid_except_dates, validate_rows, validate_rows_except_dates, validate_rows_with.
  intros Hv. bdestr Hv. bsplit; try assumption.
  apply map_forallb_spec. intros k ba Hk.
  match goal with Hb : map_forallb valid_batch _ = true |- _ => rewrite map_forallb_spec in Hb; specialize (Hb k ba Hk) end.
  unfold valid_batch in *. match goal with Hb : _ && _ = true |- _ => apply andb_true_iff in Hb; tauto end.
Qed.

(* coefficient bound: the side condition of DecIface.parse_to_string *)
Definition small_dec (x : dec) : Prop := dcoef x < 10 ^ 100000.
Definition small_state (s : state) : Prop :=
  (forall k v, balances s !! k = Some v -> small_dec (bl_tradable v) /\ small_dec (bl_retired v) /\ small_dec (bl_escrowed v)) /\
  (forall k v, supplies s !! k = Some v -> small_dec (su_tradable v) /\ small_dec (su_retired v) /\ small_dec (su_cancelled v)) /\
  (forall k v, basket_balances s !! k = Some v -> small_dec (bb_balance v)) /\
  (forall k o, sell_orders s !! k = Some o -> so_ask_amount o < 10 ^ 100000).

(* ------------------------------------------------------------------ *)
(* (d) amounts: a stored amount prints to a string the validator parses *)
(* ------------------------------------------------------------------ *)

Lemma in_ok_not_negative x : in_ok x -> is_negative x = false.
Proof.
  intros (Hc & Hn & _). unfold is_negative, is_zero. destruct (dneg x) eqn:E; [|reflexivity].
  rewrite (Hn eq_refl). reflexivity.
Qed.

Theorem stored_amount_valid x : stored_ok x -> small_dec x -> nn_amount_ok x = true.
Proof.
  intros (Hc & Hn & He1 & He2) Hs. unfold nn_amount_ok, nn_string_ok, non_negative_dec_from_string.
  rewrite (parse_to_string x); [| exact Hc | unfold P in He1; clear - He1 He2; lia | exact Hs].
  rewrite in_ok_not_negative; [reflexivity|]. split; [exact Hc|]. split; [exact Hn|exact He1].
Qed.

(* ask amounts: an sdk.Int >= 0 renders as its digits *)
Theorem ask_amount_valid z : 0 <= z -> z < 10 ^ 100000 ->
  nonempty (ask_string z) = true /\ nn_string_ok (ask_string z) = true.
Proof.
  intros H0 Hs. unfold ask_string, dec_of_int.
  assert (E1 : (z <? 0) = false) by (apply Z.ltb_ge; exact H0). rewrite E1, Z.abs_eq by exact H0.
  split.
  - unfold to_string. cbn [dneg dcoef dexp]. destruct (Z_to_dec_spec z H0) as (Hne & _ & _).
    destruct (Z_to_dec z); [congruence|reflexivity].
  - unfold nn_string_ok, non_negative_dec_from_string.
    rewrite (parse_to_string (mkDec false z 0)); [reflexivity | exact H0 | cbn; clear; lia | exact Hs].
Qed.

(* sell-order quantities: a string that parses to a positive in-range decimal *)
Lemma order_quantity_valid o : order_ok o ->
  nonempty (so_quantity o) = true /\ nn_string_ok (so_quantity o) = true.
Proof.
  intros (x & Hp & Hok & Hpos). split.
  - destruct (so_quantity o) eqn:E; [|reflexivity].
    assert (Hx : x = mkDec false 0 0) by (vm_compute in Hp; congruence). subst x. vm_compute in Hpos. discriminate Hpos.
  - unfold nn_string_ok, non_negative_dec_from_string. rewrite Hp, (in_ok_not_negative x Hok). reflexivity.
Qed.

(* a string accepted by NewPositiveDecFromString is accepted by NewNonNegativeDecFromString *)
Lemma positive_string_nn str : is_ok (positive_dec_from_string str) = true -> nn_string_ok str = true.
Proof.
  unfold nn_string_ok, positive_dec_from_string, non_negative_dec_from_string.
  destruct (parse str) as [x|]; [|discriminate].
  unfold is_positive, is_negative. destruct (dneg x); cbn; [discriminate|reflexivity].
Qed.

Lemma finish_inv' neg C xs a : finish neg C xs = Ok a -> dneg a = neg /\ dcoef a = C.
Proof.
  unfold finish, bind, round0. destruct (set_exponent (mkDec neg C 0) xs) as [d1|] eqn:E1; [|discriminate].
  destruct (set_exponent d1 [dexp d1]) as [d2|] eqn:E2; [|discriminate].
  destruct (dcoef d2 <? 0); [discriminate|]. intros Ha. injection Ha as <-.
  apply set_exponent_inv in E1. apply set_exponent_inv in E2. cbn [dneg dcoef] in *.
  destruct E1 as (A1 & A2 & _). destruct E2 as (B1 & B2 & _). split; congruence.
Qed.

(* the rendering of a negative sdk.Int is rejected by NewNonNegativeDecFromString *)
Lemma ask_negative_invalid z : z < 0 -> nn_string_ok (ask_string z) = false.
Proof.
  intros Hz. unfold ask_string, dec_of_int. rewrite (proj2 (Z.ltb_lt z 0) Hz).
  set (c := Z.abs z). assert (Hc : 0 < c) by (subst c; lia). clearbody c. clear Hz z.
  destruct (Z_to_dec_spec c ltac:(lia)) as (Hne & Hall & Hval).
  unfold to_string. cbn [dneg dcoef dexp]. change (0 <? 0) with false. cbv iota.
  change (zeros 0) with (@nil byte). rewrite app_nil_r.
  destruct (Z_to_dec c) as [|f r] eqn:E; [congruence|].
  pose proof Hall as Hall0. cbn [forallb] in Hall. apply andb_true_iff in Hall. destruct Hall as [Hf Hr].
  unfold nn_string_ok, non_negative_dec_from_string.
  pose proof (parse_plain true f r Hf (digits_plain r Hr)) as Hpp. cbv iota in Hpp. rewrite Hpp. clear Hpp.
  rewrite pf_nopoint; [|discriminate|exact Hall0].
  rewrite Hval. destruct (finish true c []) as [a|] eqn:Ef; [|reflexivity].
  apply finish_inv' in Ef. destruct Ef as [En Ec].
  unfold is_negative, is_zero. rewrite En, Ec.
  assert (Ez : (c =? 0) = false) by (apply Z.eqb_neq; lia). rewrite Ez. reflexivity.
Qed.

Lemma ask_valid_nonneg z : nn_string_ok (ask_string z) = true -> 0 <= z.
Proof.
  intros Hv. destruct (Z_lt_le_dec z 0) as [Hlt|Hle]; [|exact Hle].
  rewrite (ask_negative_invalid z Hlt) in Hv. discriminate.
Qed.

(* ------------------------------------------------------------------ *)
(* the part of the validators that does not read amounts ("meta")       *)
(* ------------------------------------------------------------------ *)

(* the sell-order validator without the two amount strings, plus the sign of the ask amount *)
Definition so_struct_ok (id : N) (o : sell_order) : bool :=
  nz id && nz (so_batch_key o) && nz (so_market_id o) && (0 <=? so_ask_amount o).

Record MV (d : bool) (s : state) : Prop := {
  mv_ct : forall k v, credit_types s !! k = Some v -> valid_credit_type k v = true;
  mv_cl : forall k v, classes s !! k = Some v -> valid_class k v = true;
  mv_is : forall k, k ∈ class_issuers s -> valid_class_issuer k = true;
  mv_pj : forall k v, projects s !! k = Some v -> valid_project k v = true;
  mv_ba : forall k v, batches s !! k = Some v -> vbd d k v = true;
  mv_cs : forall k v, class_sequences s !! k = Some v -> valid_class_sequence k v = true;
  mv_ps : forall k v, project_sequences s !! k = Some v -> valid_project_sequence k v = true;
  mv_bs : forall k v, batch_sequences s !! k = Some v -> valid_batch_sequence k v = true;
  mv_ot : forall k, k ∈ origin_txs s -> valid_origin_tx_index k = true;
  mv_bc : forall k v, batch_contracts s !! k = Some v -> valid_batch_contract k v = true;
  mv_cf : valid_class_fee (class_fee s) = true;
  mv_br : forall k, k ∈ allowed_bridge_chains s -> valid_allowed_bridge_chain k = true;
  mv_bk : forall k v, baskets s !! k = Some v -> valid_basket k v = true;
  mv_kc : forall k, k ∈ basket_classes s -> valid_basket_class k = true;
  mv_bf : valid_basket_fee (basket_fee s) = true;
  mv_so : forall k v, sell_orders s !! k = Some v -> so_struct_ok k v = true;
  mv_ad : forall k v, allowed_denoms s !! k = Some v -> valid_allowed_denom k v = true;
  mv_mk : forall k v, markets s !! k = Some v -> valid_market k v = true
}.

Lemma valid_sell_order_struct k o : valid_sell_order k o = true -> so_struct_ok k o = true.
Proof.
  unfold valid_sell_order, so_struct_ok. intros Hv. bdestr Hv. bsplit; try assumption.
  apply Z.leb_le. apply ask_valid_nonneg. assumption.
Qed.

(* (1) every validated state is meta-valid *)
Lemma rows_MV d s : Inv_valid_d d s -> MV d s.
Proof.
  unfold Inv_valid_d, validate_rows_with. intros Hv. bdestr Hv.
  repeat match goal with
         | Hm : map_forallb _ _ = true |- _ => rewrite map_forallb_spec in Hm
         | Hm : set_forallb _ _ = true |- _ => rewrite set_forallb_spec in Hm
         end.
  constructor; try assumption.
  intros k v Hk. apply valid_sell_order_struct. auto.
Qed.

Lemma vbd_nz d k ba : vbd d k ba = true -> nz k = true /\ validate_batch_denom (ba_denom ba) = true.
Proof. unfold vbd, valid_batch_except_dates. intros Hv. bdestr Hv. split; assumption. Qed.

(* (3) a meta-valid state whose amounts obey the ledger invariant validates *)
Theorem amounts_valid d s : MV d s -> Inv_core s -> small_state s -> Inv_valid_d d s.
Proof.
  intros Hm (_ & (Sb & Ss & Sbb & So) & (_ & Ksup & Kbal & Kbb & Kso & _) & _ & _) (Lb & Ls & Lbb & Lo).
  destruct Hm. unfold Inv_valid_d, validate_rows_with. bsplit;
    try (apply map_forallb_spec; assumption); try (apply set_forallb_spec; assumption); try assumption.
  - (* balances *)
    apply map_forallb_spec. intros [a bk] bl Hb. unfold valid_batch_balance. cbn [fst snd].
    destruct (Kbal a bk bl Hb) as [ba Hba]. destruct (vbd_nz _ _ _ (mv_ba0 _ _ Hba)) as [Hnz _].
    destruct (Sb _ _ Hb) as (S1 & S2 & S3). destruct (Lb _ _ Hb) as (L1 & L2 & L3).
    rewrite Hnz, !stored_amount_valid by assumption. reflexivity.
  - (* supplies *)
    apply map_forallb_spec. intros bk su Hsu. unfold valid_batch_supply.
    destruct (proj2 (Ksup bk) (ex_intro _ su Hsu)) as [ba Hba]. destruct (vbd_nz _ _ _ (mv_ba0 _ _ Hba)) as [Hnz _].
    destruct (Ss _ _ Hsu) as (S1 & S2 & S3). destruct (Ls _ _ Hsu) as (L1 & L2 & L3).
    rewrite Hnz, !stored_amount_valid by assumption. reflexivity.
  - reflexivity.
  - apply set_forallb_spec. reflexivity.
  - (* basket balances *)
    apply map_forallb_spec. intros [id dn] bb Hbb. unfold valid_basket_balance. cbn [fst snd].
    destruct (Kbb id dn bb Hbb) as [(bk & ba & Hba & Hdn) [k Hk]].
    destruct (vbd_nz _ _ _ (mv_ba0 _ _ Hba)) as [_ Hden]. rewrite Hdn in Hden.
    pose proof (mv_bk0 _ _ Hk) as Hvk. unfold valid_basket in Hvk. bdestr Hvk.
    destruct (Sbb _ _ Hbb) as [S1 _].
    rewrite Hvk, Hden, stored_amount_valid by (try assumption; eapply Lbb; eassumption). reflexivity.
  - (* sell orders *)
    apply map_forallb_spec. intros id o Ho. unfold valid_sell_order.
    pose proof (mv_so0 _ _ Ho) as Hst. unfold so_struct_ok in Hst. bdestr Hst.
    destruct (order_quantity_valid o (So _ _ Ho)) as [Q1 Q2].
    apply Z.leb_le in Hst0.
    destruct (ask_amount_valid (so_ask_amount o) Hst0 (Lo _ _ Ho)) as [A1 A2].
    rewrite Hst, Hst2, Hst1, Q1, Q2, A1, A2. reflexivity.
Qed.

(* ------------------------------------------------------------------ *)
(* tools for walking through handlers                                  *)
(* ------------------------------------------------------------------ *)

Lemma fa_insert {K V} `{Countable K} (Pr : K -> V -> Prop) (m : gmap K V) k v :
  Pr k v -> (forall k' v', m !! k' = Some v' -> Pr k' v') ->
  forall k' v', <[k := v]> m !! k' = Some v' -> Pr k' v'.
Proof. intros Hn Ho k' v' Hl. apply lookup_insert_Some in Hl. destruct Hl as [[<- <-]|[_ Hl]]; auto. Qed.

Lemma fa_delete {K V} `{Countable K} (Pr : K -> V -> Prop) (m : gmap K V) k :
  (forall k' v', m !! k' = Some v' -> Pr k' v') ->
  forall k' v', delete k m !! k' = Some v' -> Pr k' v'.
Proof. intros Ho k' v' Hl. apply lookup_delete_Some in Hl. destruct Hl as [_ Hl]. auto. Qed.

Lemma fs_union {K} `{Countable K} (Pr : K -> Prop) (m : gset K) k :
  Pr k -> (forall k', k' ∈ m -> Pr k') -> forall k', k' ∈ ({[ k ]} ∪ m : gset K) -> Pr k'.
Proof. intros Hn Ho k' Hk. apply elem_of_union in Hk. destruct Hk as [Hk|Hk]; [apply elem_of_singleton in Hk; subst; exact Hn|auto]. Qed.

Lemma fs_diff {K} `{Countable K} (Pr : K -> Prop) (m X : gset K) :
  (forall k', k' ∈ m -> Pr k') -> forall k', k' ∈ m ∖ X -> Pr k'.
Proof. intros Ho k' Hk. apply elem_of_difference in Hk. destruct Hk as [Hk _]. auto. Qed.

Lemma lfold_rel {A B} (R : A -> A -> Prop) (f : A -> B -> lres A) :
  (forall a, R a a) -> (forall a c e, R a c -> R c e -> R a e) ->
  (forall a x a', f a x = LOk a' -> R a a') ->
  forall l a a', lfold f l a = LOk a' -> R a a'.
Proof.
  intros Hr Ht Hf l. induction l as [|x l IH]; intros a a' Hl; cbn in Hl.
  - inversion Hl. apply Hr.
  - apply lbind_ok in Hl. destruct Hl as (a1 & H1 & H2). eapply Ht; [eapply Hf; exact H1 | apply IH; exact H2].
Qed.

Lemma lfold_pred {A B} (Q : B -> Prop) (Pr : A -> Prop) (f : A -> B -> lres A) :
  (forall a x a', Q x -> Pr a -> f a x = LOk a' -> Pr a') ->
  forall l a a', Forall Q l -> Pr a -> lfold f l a = LOk a' -> Pr a'.
Proof.
  intros Hf l. induction l as [|x l IH]; intros a a' Hq Hp Hl; cbn in Hl.
  - inversion Hl; subst. exact Hp.
  - apply lbind_ok in Hl. destruct Hl as (a1 & H1 & H2). inversion Hq; subst.
    eapply IH; [assumption | eapply Hf; eassumption | exact H2].
Qed.

Lemma forallb_Forall {A} (f : A -> bool) l : forallb f l = true -> Forall (fun x => f x = true) l.
Proof. intros Hf. apply Forall_forall. intros x Hx. rewrite forallb_forall in Hf. apply Hf. exact Hx. Qed.

(* ------------------------------------------------------------------ *)
(* frames: the tables MV reads                                         *)
(* ------------------------------------------------------------------ *)

Definition mtuple (s : state) :=
  (credit_types s, classes s, class_issuers s, projects s, batches s, class_sequences s, project_sequences s,
   batch_sequences s, origin_txs s, batch_contracts s, class_fee s, allowed_bridge_chains s, baskets s,
   basket_classes s, basket_fee s, sell_orders s, allowed_denoms s, markets s).

Definition meq (s s' : state) : Prop := mtuple s' = mtuple s.

Lemma meq_refl s : meq s s. Proof. reflexivity. Qed.
Lemma meq_trans s1 s2 s3 : meq s1 s2 -> meq s2 s3 -> meq s1 s3.
Proof. unfold meq. congruence. Qed.

Lemma meq_MV d s s' : meq s s' -> MV d s -> MV d s'.
Proof.
  unfold meq, mtuple. intros E.
  injection E as E1 E2 E3 E4 E5 E6 E7 E8 E9 E10 E11 E12 E13 E14 E15 E16 E17 E18. intros [].
  constructor; rewrite ?E1, ?E2, ?E3, ?E4, ?E5, ?E6, ?E7, ?E8, ?E9, ?E10, ?E11, ?E12, ?E13, ?E14, ?E15, ?E16, ?E17, ?E18;
    assumption.
Qed.

Lemma nonbank_meq s s' : nonbank_eq s s' -> meq s s'.
Proof.
  unfold nonbank_eq, nonbank, meq, mtuple. intros E. injection E as ?????????? ?????????? ??????????.
  congruence.
Qed.

Lemma update_balance_meq a k b s s' : update_balance a k b s = LOk s' -> meq s s'.
Proof. intros Hu. apply update_balance_ok in Hu. destruct Hu as [-> _]. reflexivity. Qed.
Lemma update_supply_meq k v s s' : update_supply k v s = LOk s' -> meq s s'.
Proof. intros Hu. apply update_supply_ok in Hu. destruct Hu as [-> _]. reflexivity. Qed.

Lemma mt_save_balance a k b s : mtuple (save_balance a k b s) = mtuple s. Proof. reflexivity. Qed.
Lemma mt_set_balances m s : mtuple (s <| balances := m |>) = mtuple s. Proof. reflexivity. Qed.
Lemma mt_set_supplies m s : mtuple (s <| supplies := m |>) = mtuple s. Proof. reflexivity. Qed.
Lemma mt_set_basket_balances m s : mtuple (s <| basket_balances := m |>) = mtuple s. Proof. reflexivity. Qed.

Global Hint Rewrite mt_save_balance mt_set_balances mt_set_supplies mt_set_basket_balances : mt.

Ltac meq_chain :=
  repeat match goal with
         | Hu : update_balance _ _ _ ?s = LOk ?s' |- _ => apply update_balance_meq in Hu
         | Hu : update_supply _ _ ?s = LOk ?s' |- _ => apply update_supply_meq in Hu
         end;
  unfold meq in *; autorewrite with mt in *; congruence.

Ltac split_ifs :=
  repeat match goal with
         | Hi : (if ?c then _ else _) = LOk _ |- _ => destruct c eqn:?; linv1 Hi
         end.

Lemma add_and_save_balance_meq a k amt s s' : add_and_save_balance a k amt s = LOk s' -> meq s s'.
Proof. unfold add_and_save_balance. intros Hh. linv Hh. reflexivity. Qed.
Lemma retire_and_save_balance_meq a k amt s s' : retire_and_save_balance a k amt s = LOk s' -> meq s s'.
Proof. unfold retire_and_save_balance. intros Hh. linv Hh. reflexivity. Qed.
Lemma retire_supply_meq k amt s s' : retire_supply k amt s = LOk s' -> meq s s'.
Proof. unfold retire_supply. intros Hh. linv Hh. meq_chain. Qed.

Lemma send_tradable_meq bk a c amt s s' : send_tradable bk a c amt s = LOk s' -> meq s s'.
Proof. unfold send_tradable. intros Hh. linv Hh. meq_chain. Qed.
Lemma send_retired_meq bk a c amt s s' : send_retired bk a c amt s = LOk s' -> meq s s'.
Proof. unfold send_retired. intros Hh. linv Hh. meq_chain. Qed.

Lemma send_one_meq a c s x s' : send_one a c s x = LOk s' -> meq s s'.
Proof.
  unfold send_one. intros Hh. linv Hh. split_ifs;
    repeat match goal with
           | Hs : send_tradable _ _ _ _ _ = LOk _ |- _ => apply send_tradable_meq in Hs
           | Hs : send_retired _ _ _ _ _ = LOk _ |- _ => apply send_retired_meq in Hs
           end; unfold meq in *; congruence.
Qed.

Lemma retire_one_meq a s x s' : retire_one a s x = LOk s' -> meq s s'.
Proof. unfold retire_one. intros Hh. linv Hh. meq_chain. Qed.
Lemma cancel_one_meq a s x s' : cancel_one a s x = LOk s' -> meq s s'.
Proof. unfold cancel_one. intros Hh. linv Hh. meq_chain. Qed.

Lemma lfold_meq {B} (f : state -> B -> lres state) :
  (forall s x s', f s x = LOk s' -> meq s s') -> forall l s s', lfold f l s = LOk s' -> meq s s'.
Proof. intros Hf. apply (lfold_rel meq f meq_refl meq_trans Hf). Qed.

Lemma mint_issue_meq p bk s i s' : mint_issue p bk s i = LOk s' -> meq s s'.
Proof. unfold mint_issue. intros Hh. linv Hh. meq_chain. Qed.

(* ------------------------------------------------------------------ *)
(* (2) handlers preserve MV: the credit movers only touch amount tables *)
(* ------------------------------------------------------------------ *)

Lemma ret_inv s r s' r' evs : ret s r = LOk (s', r', evs) -> s' = s.
Proof. unfold ret. intros Hr. inversion Hr. reflexivity. Qed.

Lemma h_send_meq e s a c cs s' r evs : h_send e s a c cs = LOk (s', r, evs) -> meq s s'.
Proof.
  unfold h_send. intros Hh. lstep Hh as s1 H1. apply ret_inv in Hh. subst s'.
  eapply lfold_meq; [|exact H1]. intros; eapply send_one_meq; eassumption.
Qed.

Lemma h_retire_meq e s a cs s' r evs : h_retire e s a cs = LOk (s', r, evs) -> meq s s'.
Proof.
  unfold h_retire. intros Hh. lstep Hh as s1 H1. apply ret_inv in Hh. subst s'.
  eapply lfold_meq; [|exact H1]. intros; eapply retire_one_meq; eassumption.
Qed.

Lemma h_cancel_meq e s a cs s' r evs : h_cancel e s a cs = LOk (s', r, evs) -> meq s s'.
Proof.
  unfold h_cancel. intros Hh. lstep Hh as s1 H1. apply ret_inv in Hh. subst s'.
  eapply lfold_meq; [|exact H1]. intros; eapply cancel_one_meq; eassumption.
Qed.

Lemma h_bridge_meq e s a t rc cs s' r evs : h_bridge e s a t rc cs = LOk (s', r, evs) -> meq s s'.
Proof.
  unfold h_bridge. intros Hh. lstep Hh as u Hu. lstep Hh as s1 H1. lstep Hh as ev Hev. inversion Hh; subst.
  eapply lfold_meq; [|exact H1]. intros; eapply cancel_one_meq; eassumption.
Qed.

Lemma send_coins_meq a c cs s s' : send_coins a c cs s = LOk s' -> meq s s'.
Proof. intros Hh. apply nonbank_meq. eapply send_coins_nonbank. exact Hh. Qed.
Lemma send_m2a_meq a c cs s s' : send_coins_from_module_to_account a c cs s = LOk s' -> meq s s'.
Proof. intros Hh. apply nonbank_meq. eapply send_coins_m2a_nonbank. exact Hh. Qed.
Lemma mint_coins_meq a cs s s' : mint_coins a cs s = LOk s' -> meq s s'.
Proof. intros Hh. apply nonbank_meq. eapply mint_coins_nonbank. exact Hh. Qed.
Lemma burn_coins_meq a cs s s' : burn_coins a cs s = LOk s' -> meq s s'.
Proof. intros Hh. apply nonbank_meq. eapply burn_coins_nonbank. exact Hh. Qed.
Lemma charge_fee_meq rq off p m s s' : charge_fee rq off p m s = LOk s' -> meq s s'.
Proof. intros Hh. apply nonbank_meq. eapply charge_fee_nonbank. exact Hh. Qed.

Lemma h_burn_regen_meq e s a amt s' r evs : h_burn_regen e s a amt = LOk (s', r, evs) -> meq s s'.
Proof.
  unfold h_burn_regen. intros Hh. lstep Hh as z Hz. lstep Hh as u Hu. lstep Hh as cs Hcs.
  lstep Hh as s1 H1. lstep Hh as s2 H2. apply ret_inv in Hh. subst s'.
  eapply meq_trans; [eapply send_coins_meq; exact H1 | eapply burn_coins_meq; exact H2].
Qed.

(* ---- basket Put / Take ---- *)

Lemma transfer_to_basket_meq o amt id bkey ba p s s' : transfer_to_basket o amt id bkey ba p s = LOk s' -> meq s s'.
Proof.
  unfold transfer_to_basket. intros Hh. lstep Hh as ub Hub. lstep Hh as u Hu. lstep Hh as nt Hnt. lstep Hh as s1 H1.
  destruct (basket_balances s1 !! (id, ba_denom ba)); linv Hh; meq_chain.
Qed.

Lemma put_one_meq e o id k p acc c acc' : put_one e o id k p acc c = LOk acc' -> meq acc.1 acc'.1.
Proof.
  unfold put_one. destruct acc as [s rc]. intros Hh. lstep Hh as kb Hkb. destruct kb as [bkey ba].
  lstep Hh as u Hu. lstep Hh as amt Hamt. lstep Hh as s1 H1. lstep Hh as tk Htk. inversion Hh; subst. cbn.
  eapply transfer_to_basket_meq. exact H1.
Qed.

Lemma h_put_meq e s o bd cs s' r evs : h_put e s o bd cs = LOk (s', r, evs) -> meq s s'.
Proof.
  unfold h_put. intros Hh. lstep Hh as ik Hik. destruct ik as [id k]. lstep Hh as cty Hcty.
  lstep Hh as acc Hacc. destruct acc as [s1 rc]. lstep Hh as s2 H2. lstep Hh as s3 H3. apply ret_inv in Hh. subst s'.
  assert (M1 : meq s s1).
  { change s with (s, 0).1. change s1 with (s1, rc).1.
    eapply (lfold_rel (fun a c => meq a.1 c.1)); [intros; apply meq_refl | intros ? ? ? A B; eapply meq_trans; eassumption | | exact Hacc].
    intros; eapply put_one_meq; eassumption. }
  eapply meq_trans; [exact M1|]. eapply meq_trans; [eapply mint_coins_meq; exact H2 | eapply send_m2a_meq; exact H3].
Qed.

Lemma add_credit_balance_meq o dn amt rt s s' : add_credit_balance o dn amt rt s = LOk s' -> meq s s'.
Proof.
  unfold add_credit_balance. intros Hh. lstep Hh as kb Hkb. destruct kb as [bkey ba]. destruct rt.
  - lstep Hh as s1 H1. eapply meq_trans; [eapply retire_and_save_balance_meq; exact H1 | eapply retire_supply_meq; exact Hh].
  - eapply add_and_save_balance_meq. exact Hh.
Qed.

Lemma take_loop_meq o id rt : forall fuel needed acc s s' acc',
  take_loop fuel o id rt needed acc s = LOk (s', acc') -> meq s s'.
Proof.
  induction fuel as [|fuel IH]; intros needed acc s s' acc' Hh; cbn [take_loop] in Hh; [discriminate|].
  destruct (basket_rows s id) as [|[dn bb] rest]; [discriminate|].
  destruct (cmp (bb_balance bb) needed) eqn:Ec.
  - lstep Hh as s1 H1. inversion Hh; subst. apply add_credit_balance_meq in H1. meq_chain.
  - lstep Hh as s1 H1. lstep Hh as nd Hnd. apply IH in Hh. apply add_credit_balance_meq in H1.
    unfold meq in *. autorewrite with mt in *. congruence.
  - lstep Hh as s1 H1. lstep Hh as nb Hnb. lstep Hh as m Hm. inversion Hh; subst. apply add_credit_balance_meq in H1. meq_chain.
Qed.

Lemma h_take_meq e s o bd amt rt s' r evs : h_take e s o bd amt rt = LOk (s', r, evs) -> meq s s'.
Proof.
  unfold h_take. intros Hh. lstep Hh as ik Hik. destruct ik as [id k]. lstep Hh as cty Hcty. lstep Hh as u Hu.
  lstep Hh as tk Htk. lstep Hh as coins Hc. lstep Hh as u2 Hu2. lstep Hh as s1 H1. lstep Hh as s2 H2.
  lstep Hh as am Ham. lstep Hh as nd Hnd. lstep Hh as sc Hsc. destruct sc as [s3 credits]. apply ret_inv in Hh. subst s'.
  eapply meq_trans; [eapply send_coins_meq; exact H1|]. eapply meq_trans; [eapply burn_coins_meq; exact H2|].
  eapply take_loop_meq. exact Hsc.
Qed.

(* ------------------------------------------------------------------ *)
(* (2) row-writing handlers of the base module                         *)
(* ------------------------------------------------------------------ *)

Lemma nz_succ n : nz (n + 1) = true.
Proof. unfold nz. apply negb_true_iff. apply N.eqb_neq. lia. Qed.

Lemma class_by_id_Some s id k c : class_by_id s id = Some (k, c) -> classes s !! k = Some c /\ cl_id c = id.
Proof.
  unfold class_by_id. intros Hf. apply map_find_Some in Hf. destruct Hf as [H1 H2].
  split; [exact H1|]. apply bytes_eqb_eq. exact H2.
Qed.
Lemma project_by_id_Some s id k p : project_by_id s id = Some (k, p) -> projects s !! k = Some p /\ pj_id p = id.
Proof.
  unfold project_by_id. intros Hf. apply map_find_Some in Hf. destruct Hf as [H1 H2].
  split; [exact H1|]. apply bytes_eqb_eq. exact H2.
Qed.
Lemma basket_by_denom_Some s dn k v : basket_by_denom s dn = Some (k, v) -> baskets s !! k = Some v /\ bk_denom v = dn.
Proof.
  unfold basket_by_denom. intros Hf. apply map_find_Some in Hf. destruct Hf as [H1 H2].
  split; [exact H1|]. apply bytes_eqb_eq. exact H2.
Qed.

(* tactic: MV of a state obtained from a meta-valid one by record updates; leaves the touched tables *)
Ltac mv_updates Hmv := destruct Hmv; constructor; cbn; try assumption.

Lemma set_issuers_twice s x y : s <| class_issuers := x |> <| class_issuers := y |> = s <| class_issuers := y |>.
Proof. destruct s; reflexivity. Qed.

Lemma insert_issuers_spec k l : forall s s', insert_issuers k l s = LOk s' ->
  exists iss, s' = s <| class_issuers := iss |> /\ (forall x, x ∈ iss -> x ∈ class_issuers s \/ x.1 = k).
Proof.
  induction l as [|a l IH]; intros s s' Hh; cbn in Hh.
  - inversion Hh; subst. exists (class_issuers s'). split; [destruct s'; reflexivity|]. intros x Hx. left. exact Hx.
  - destruct (bool_decide _); [discriminate|]. apply IH in Hh. destruct Hh as (iss & -> & Hiss).
    exists iss. split; [apply set_issuers_twice|]. intros x Hx. destruct (Hiss x Hx) as [Ho|Ho]; [|right; exact Ho].
    cbn in Ho. apply elem_of_union in Ho. destruct Ho as [Ho|Ho]; [|left; exact Ho].
    apply elem_of_singleton in Ho. subst x. right. reflexivity.
Qed.

Lemma MV_set_issuers d s iss k : MV d s -> nz k = true ->
  (forall x, x ∈ iss -> x ∈ class_issuers s \/ x.1 = k) -> MV d (s <| class_issuers := iss |>).
Proof.
  intros Hmv Hk Hiss. mv_updates Hmv. intros x Hx. destruct (Hiss x Hx) as [Ho|Ho]; [auto|].
  unfold valid_class_issuer. rewrite Ho, Hk. reflexivity.
Qed.

(* (b) CreateClass: the id is a format_class_id output, hence valid by IdsProps.class_id_valid *)
Lemma h_create_class_MV d e s admin issuers metadata ct fee s' r evs :
  MV d s -> len_le metadata max_metadata_length = true -> validate_credit_type_abbrev ct = true ->
  h_create_class e s admin issuers metadata ct fee = LOk (s', r, evs) -> MV d s'.
Proof.
  intros Hmv Hmd Hct. unfold h_create_class. intros Hh.
  lstep Hh as u Hu. lstep Hh as s1 H1. lstep Hh as cty Hcty. lstep Hh as u2 Hu2. lstep Hh as s2 H2.
  apply ret_inv in Hh. subst s'.
  apply charge_fee_meq in H1. apply (meq_MV d _ _ H1) in Hmv. clear H1 Hu s.
  apply insert_issuers_spec in H2. destruct H2 as (iss & -> & Hiss).
  apply MV_set_issuers with (k := (class_seq_id s1 + 1)%N); [|apply nz_succ|exact Hiss].
  mv_updates Hmv.
  - apply fa_insert; [|assumption]. unfold valid_class. cbn.
    rewrite nz_succ, (class_id_valid ct _ Hct), Hmd, Hct. reflexivity.
  - apply fa_insert; [|assumption]. unfold valid_class_sequence. rewrite Hct, nz_succ. reflexivity.
Qed.

(* CreateProject *)
Lemma h_create_project_MV d e s admin class_id metadata jurisdiction reference_id s' r evs :
  MV d s -> len_le metadata max_metadata_length = true -> validate_jurisdiction jurisdiction = true ->
  h_create_project e s admin class_id metadata jurisdiction reference_id = LOk (s', r, evs) -> MV d s'.
Proof.
  intros Hmv Hmd Hj. unfold h_create_project. intros Hh.
  lstep Hh as kc Hkc. destruct kc as [ck cl]. lstep Hh as u Hu. lstep Hh as u2 Hu2. lstep Hh as u3 Hu3.
  apply ret_inv in Hh. subst s'.
  apply class_by_id_Some in Hkc. destruct Hkc as [Hcl _].
  pose proof (mv_cl d s Hmv _ _ Hcl) as Hvc. unfold valid_class in Hvc. bdestr Hvc.
  mv_updates Hmv.
  - apply fa_insert; [|assumption]. unfold valid_project. cbn.
    rewrite nz_succ, (format_project_id_valid _ _ Hvc3), Hvc, Hj, Hmd. reflexivity.
  - apply fa_insert; [|assumption]. unfold valid_project_sequence. rewrite Hvc, nz_succ. reflexivity.
Qed.

(* ---- origin txs: the source is stored lower-cased; the regex classes are closed under lower-casing ---- *)

Definition class_src_first : list (byte * byte) := [(x30, x39); (x41, x5a); (x61, x7a)].
Definition class_src_rest : list (byte * byte) := [(x20, x20); (x2d, x2d); (x30, x39); (x41, x5a); (x5f, x5f); (x61, x7a)].

Lemma lower_first c : in_ranges class_src_first c = true -> in_ranges class_src_first (to_lower_byte c) = true.
Proof. destruct c; intros Hc; try discriminate Hc; reflexivity. Qed.
Lemma lower_rest c : in_ranges class_src_rest c = true -> in_ranges class_src_rest (to_lower_byte c) = true.
Proof. destruct c; intros Hc; try discriminate Hc; reflexivity. Qed.

Lemma origin_source_lower src : rmatch re_origin_tx_source src = true -> rmatch re_origin_tx_source (to_lower src) = true.
Proof.
  rewrite !rmatch_correct. unfold re_origin_tx_source. fold class_src_first. fold class_src_rest.
  rewrite !matches_cat. intros (s1 & s2 & -> & H1 & H2).
  apply matches_class in H1. destruct H1 as (c & -> & Hc). apply matches_rep_class in H2. destruct H2 as [Hl Ha].
  exists [to_lower_byte c], (to_lower s2). split; [reflexivity|]. split.
  - apply matches_class. exists (to_lower_byte c). split; [reflexivity|apply lower_first; exact Hc].
  - apply matches_rep_class. split; [unfold to_lower; rewrite map_length; exact Hl|].
    unfold all_in, to_lower. apply Forall_forall. intros x Hx. apply in_map_iff in Hx. destruct Hx as (y & <- & Hy).
    apply lower_rest. unfold all_in in Ha. rewrite Forall_forall in Ha. apply Ha. exact Hy.
Qed.

Lemma nonempty_to_lower x : nonempty x = true -> nonempty (to_lower x) = true.
Proof. destruct x; [discriminate|reflexivity]. Qed.

Lemma validate_with_inv r x : validate_with r x = true -> nonempty x = true /\ rmatch r x = true.
Proof. unfold validate_with. destruct x; [discriminate|]. intros Hv. split; [reflexivity|exact Hv]. Qed.

Lemma vb_origin_tx_row ck o : nz ck = true -> vb_origin_tx o = true ->
  valid_origin_tx_index (ck, ot_id o, to_lower (ot_source o)) = true.
Proof.
  intros Hk Hv. unfold vb_origin_tx in Hv. bdestr Hv.
  apply validate_with_inv in Hv4. apply validate_with_inv in Hv2. destruct Hv4 as [A1 A2]. destruct Hv2 as [B1 B2].
  unfold valid_origin_tx_index. rewrite Hk, A1, A2, (nonempty_to_lower _ B1), (origin_source_lower _ B2). reflexivity.
Qed.

Lemma insert_origin_tx_MV d ck o s s' : MV d s -> nz ck = true -> vb_origin_tx o = true ->
  insert_origin_tx ck o s = LOk s' -> MV d s'.
Proof.
  intros Hmv Hk Hv. unfold insert_origin_tx. destruct (bool_decide _); [discriminate|]. intros Hh. inversion Hh; subst.
  mv_updates Hmv. apply fs_union; [|assumption]. apply vb_origin_tx_row; assumption.
Qed.

(* ---- MintBatchCredits ---- *)

Lemma project_class_nz d s pk pj : MV d s -> projects s !! pk = Some pj -> nz pk = true /\ nz (pj_class_key pj) = true /\ validate_project_id (pj_id pj) = true.
Proof.
  intros Hmv Hp. pose proof (mv_pj d s Hmv _ _ Hp) as Hv. unfold valid_project in Hv. bdestr Hv. auto.
Qed.

Lemma h_mint_MV d e s issuer denom iss otx s' r evs :
  MV d s -> (match otx with Some o => vb_origin_tx o = true | None => True end) ->
  h_mint_batch_credits e s issuer denom iss otx = LOk (s', r, evs) -> MV d s'.
Proof.
  intros Hmv Ho. unfold h_mint_batch_credits. intros Hh.
  lstep Hh as kb Hkb. destruct kb as [bk ba]. lstep Hh as u Hu. lstep Hh as u2 Hu2. lstep Hh as pj Hpj.
  lstep Hh as o Hotx. subst otx. lstep Hh as s1 H1. lstep Hh as ct Hct. lstep Hh as s2 H2. apply ret_inv in Hh. subst s'.
  destruct (project_class_nz d s _ _ Hmv Hpj) as (_ & Hck & _).
  apply (insert_origin_tx_MV d _ _ _ _ Hmv Hck Ho) in H1.
  eapply meq_MV; [|exact H1]. eapply lfold_meq; [|exact H2]. intros; eapply mint_issue_meq; eassumption.
Qed.

(* ---- CreateBatch ---- *)

Lemma create_batch_issue_meq p bk acc i acc' : create_batch_issue p bk acc i = LOk acc' -> meq acc.1.1 acc'.1.1.
Proof.
  unfold create_batch_issue. destruct acc as [[s t] r]. intros Hh. linv Hh. reflexivity.
Qed.

(* what the wire format guarantees about the two dates of MsgCreateBatch / MsgBridgeReceive
   (gogoproto stdtime decoding rejects timestamps outside 0001-01-01 .. 9999-12-31), plus, for the
   full validator (d = true), the STRICT order that Batch.Validate demands *)
Definition dates_ok (d : bool) (start_ end_ : option ts) : Prop :=
  match start_, end_ with
  | Some sd, Some ed => ts_valid sd = true /\ ts_valid ed = true /\ (d = true -> timestamp_compare ed sd = Gt)
  | _, _ => True
  end.

Lemma h_create_batch_MV d e s issuer project_id iss metadata start_ end_ open otx s' r evs :
  MV d s -> len_le metadata max_metadata_length = true -> dates_ok d start_ end_ ->
  (match otx with Some o => vb_origin_tx o = true | None => True end) ->
  h_create_batch e s issuer project_id iss metadata start_ end_ open otx = LOk (s', r, evs) -> MV d s'.
Proof.
  intros Hmv Hmd Hd Ho. unfold h_create_batch. intros Hh.
  lstep Hh as kp Hkp. destruct kp as [pk pj]. lstep Hh as cl Hcl. lstep Hh as u Hu. cbv zeta in Hh.
  lstep Hh as sd Hsd. lstep Hh as ed Hed. subst start_ end_. lstep Hh as u2 Hu2. lstep Hh as ct Hct.
  lstep Hh as acc Hacc. destruct acc as [[s1 tsum] rsum]. lstep Hh as m Hm. lstep Hh as s2 H2.
  apply ret_inv in Hh. subst s'.
  apply project_by_id_Some in Hkp. destruct Hkp as [Hpj _].
  destruct (project_class_nz d s _ _ Hmv Hpj) as (Hpk & Hck & Hpid).
  destruct Hd as (Hvs & Hve & Hord).
  (* the state after the batch row and the sequence are written *)
  match type of Hacc with lfold _ _ (?s0, _, _) = _ => set (sb := s0) in * end.
  assert (Hsb : MV d sb).
  { subst sb. mv_updates Hmv.
    - apply fa_insert; [|assumption]. unfold vbd, valid_batch_except_dates. cbn.
      rewrite nz_succ, Hpk, (format_batch_denom_valid _ _ _ _ Hpid Hvs Hve), Hmd. cbn.
      destruct d; [|reflexivity]. unfold valid_batch_dates. cbn. rewrite (Hord eq_refl). reflexivity.
    - apply fa_insert; [|assumption]. unfold valid_batch_sequence. rewrite Hpk, nz_succ. reflexivity. }
  assert (Hs1 : MV d s1).
  { eapply meq_MV; [|exact Hsb].
    change sb with (sb, dzero, dzero).1.1. change s1 with (s1, tsum, rsum).1.1.
    eapply (lfold_rel (fun a c => meq a.1.1 c.1.1)); [intros; apply meq_refl | intros ? ? ? A B; eapply meq_trans; eassumption | | exact Hacc].
    intros; eapply create_batch_issue_meq; eassumption. }
  assert (Hs1' : MV d (s1 <| supplies := m |>)) by (eapply meq_MV; [|exact Hs1]; reflexivity).
  destruct otx as [o|]; [|inversion H2; subst; exact Hs1'].
  lstep H2 as s3 H3. apply (insert_origin_tx_MV d _ _ _ _ Hs1' Hck Ho) in H3.
  destruct (ot_contract o) as [|c0 cr] eqn:Ec; [inversion H2; subst; exact H3|].
  destruct (contract_taken _ _ _); [discriminate|]. lstep H2 as m2 Hm2. inversion H2; subst.
  apply orm_insert_ok in Hm2. destruct Hm2 as [-> _].
  mv_updates H3. apply fa_insert; [|assumption].
  unfold valid_batch_contract. cbn. rewrite nz_succ, Hck. cbn.
  unfold vb_origin_tx in Ho. bdestr Ho. rewrite Ec in Ho1. exact Ho1.
Qed.

(* ---- updates of existing rows ---- *)

Lemma vbd_same d k ba ba' :
  ba_issuer ba' = ba_issuer ba -> ba_project_key ba' = ba_project_key ba -> ba_denom ba' = ba_denom ba ->
  ba_start ba' = ba_start ba -> ba_end ba' = ba_end ba ->
  len_le (ba_metadata ba') max_metadata_length = true -> vbd d k ba = true -> vbd d k ba' = true.
Proof.
  intros E1 E2 E3 E4 E5 Hm Hv. unfold vbd, valid_batch_except_dates, valid_batch_dates in *.
  rewrite E1, E2, E3, E4, E5, Hm. bdestr Hv. rewrite Hv, Hv0, Hv2, Hv3, Hv4. reflexivity.
Qed.

Lemma vbd_metadata d k ba : vbd d k ba = true -> len_le (ba_metadata ba) max_metadata_length = true.
Proof. unfold vbd, valid_batch_except_dates. intros Hv. bdestr Hv. assumption. Qed.

Lemma h_seal_batch_MV d e s issuer denom s' r evs : MV d s -> h_seal_batch e s issuer denom = LOk (s', r, evs) -> MV d s'.
Proof.
  intros Hmv. unfold h_seal_batch. intros Hh. lstep Hh as kb Hkb. destruct kb as [bk ba]. lstep Hh as u Hu.
  apply batch_by_denom_Some in Hkb. destruct Hkb as [Hba _].
  destruct (negb (ba_open ba)); apply ret_inv in Hh; subst s'; [exact Hmv|].
  pose proof (mv_ba d s Hmv _ _ Hba) as Hv. unfold set_batch. mv_updates Hmv.
  apply fa_insert; [|assumption]. eapply vbd_same; [..|exact Hv]; try reflexivity. cbn. eapply vbd_metadata. exact Hv.
Qed.

Lemma h_update_batch_metadata_MV d e s issuer denom md s' r evs :
  MV d s -> len_le md max_metadata_length = true ->
  h_update_batch_metadata e s issuer denom md = LOk (s', r, evs) -> MV d s'.
Proof.
  intros Hmv Hmd. unfold h_update_batch_metadata. intros Hh. lstep Hh as kb Hkb. destruct kb as [bk ba].
  lstep Hh as u Hu. lstep Hh as u2 Hu2. apply ret_inv in Hh. subst s'.
  apply batch_by_denom_Some in Hkb. destruct Hkb as [Hba _].
  pose proof (mv_ba d s Hmv _ _ Hba) as Hv. unfold set_batch. mv_updates Hmv.
  apply fa_insert; [|assumption]. eapply vbd_same; [..|exact Hv]; try reflexivity. exact Hmd.
Qed.

Lemma valid_class_same k c c' : cl_id c' = cl_id c -> cl_ct c' = cl_ct c ->
  len_le (cl_metadata c') max_metadata_length = true -> valid_class k c = true -> valid_class k c' = true.
Proof.
  intros E1 E2 Hm Hv. unfold valid_class in *. rewrite E1, E2, Hm. bdestr Hv. rewrite Hv, Hv0, Hv3. reflexivity.
Qed.

Lemma valid_class_metadata k c : valid_class k c = true -> len_le (cl_metadata c) max_metadata_length = true.
Proof. unfold valid_class. intros Hv. bdestr Hv. assumption. Qed.

Lemma h_update_class_admin_MV d e s admin class_id new_admin s' r evs :
  MV d s -> h_update_class_admin e s admin class_id new_admin = LOk (s', r, evs) -> MV d s'.
Proof.
  intros Hmv. unfold h_update_class_admin. intros Hh. lstep Hh as kc Hkc. destruct kc as [k c]. lstep Hh as u Hu.
  apply ret_inv in Hh. subst s'. apply class_by_id_Some in Hkc. destruct Hkc as [Hc _].
  pose proof (mv_cl d s Hmv _ _ Hc) as Hv. unfold set_class. mv_updates Hmv.
  apply fa_insert; [|assumption]. eapply valid_class_same; [..|exact Hv]; try reflexivity. cbn. eapply valid_class_metadata. exact Hv.
Qed.

Lemma h_update_class_metadata_MV d e s admin class_id md s' r evs :
  MV d s -> len_le md max_metadata_length = true ->
  h_update_class_metadata e s admin class_id md = LOk (s', r, evs) -> MV d s'.
Proof.
  intros Hmv Hmd. unfold h_update_class_metadata. intros Hh. lstep Hh as kc Hkc. destruct kc as [k c]. lstep Hh as u Hu.
  apply ret_inv in Hh. subst s'. apply class_by_id_Some in Hkc. destruct Hkc as [Hc _].
  pose proof (mv_cl d s Hmv _ _ Hc) as Hv. unfold set_class. mv_updates Hmv.
  apply fa_insert; [|assumption]. eapply valid_class_same; [..|exact Hv]; try reflexivity. exact Hmd.
Qed.

Lemma fold_remove_issuers_spec k l : forall s,
  exists iss, fold_left (fun s a => s <| class_issuers := class_issuers s ∖ {[ (k, a) ]} |>) l s = s <| class_issuers := iss |>
              /\ forall x, x ∈ iss -> x ∈ class_issuers s.
Proof.
  induction l as [|a l IH]; intros s; cbn.
  - exists (class_issuers s). split; [destruct s; reflexivity|auto].
  - destruct (IH (s <| class_issuers := class_issuers s ∖ {[ (k, a) ]} |>)) as (iss & -> & Hiss).
    exists iss. split; [apply set_issuers_twice|]. intros x Hx. specialize (Hiss x Hx). cbn in Hiss.
    apply elem_of_difference in Hiss. tauto.
Qed.

Lemma h_update_class_issuers_MV d e s admin class_id add remove s' r evs :
  MV d s -> h_update_class_issuers e s admin class_id add remove = LOk (s', r, evs) -> MV d s'.
Proof.
  intros Hmv. unfold h_update_class_issuers. intros Hh. lstep Hh as kc Hkc. destruct kc as [k c]. lstep Hh as u Hu.
  cbv zeta in Hh. lstep Hh as s2 H2. apply ret_inv in Hh. subst s'.
  apply class_by_id_Some in Hkc. destruct Hkc as [Hc _].
  pose proof (mv_cl d s Hmv _ _ Hc) as Hv. unfold valid_class in Hv. bdestr Hv.
  destruct (fold_remove_issuers_spec k remove s) as (iss & Ef & Hiss). rewrite Ef in H2.
  apply insert_issuers_spec in H2. destruct H2 as (iss2 & -> & Hiss2). rewrite set_issuers_twice.
  apply MV_set_issuers with (k := k); [exact Hmv|exact Hv|].
  intros x Hx. destruct (Hiss2 x Hx) as [Hx'|Hx']; [left; apply Hiss; exact Hx'|right; exact Hx'].
Qed.

Lemma valid_project_same k p p' : pj_id p' = pj_id p -> pj_class_key p' = pj_class_key p ->
  pj_jurisdiction p' = pj_jurisdiction p -> len_le (pj_metadata p') max_metadata_length = true ->
  valid_project k p = true -> valid_project k p' = true.
Proof.
  intros E1 E2 E3 Hm Hv. unfold valid_project in *. rewrite E1, E2, E3, Hm. bdestr Hv. rewrite Hv, Hv1, Hv2, Hv4. reflexivity.
Qed.
Lemma valid_project_metadata k p : valid_project k p = true -> len_le (pj_metadata p) max_metadata_length = true.
Proof. unfold valid_project. intros Hv. bdestr Hv. assumption. Qed.

Lemma h_update_project_admin_MV d e s admin project_id new_admin s' r evs :
  MV d s -> h_update_project_admin e s admin project_id new_admin = LOk (s', r, evs) -> MV d s'.
Proof.
  intros Hmv. unfold h_update_project_admin. intros Hh. lstep Hh as kp Hkp. destruct kp as [k p]. lstep Hh as u Hu.
  apply ret_inv in Hh. subst s'. apply project_by_id_Some in Hkp. destruct Hkp as [Hp _].
  pose proof (mv_pj d s Hmv _ _ Hp) as Hv. unfold set_project. mv_updates Hmv.
  apply fa_insert; [|assumption]. eapply valid_project_same; [..|exact Hv]; try reflexivity. cbn. eapply valid_project_metadata. exact Hv.
Qed.

Lemma h_update_project_metadata_MV d e s admin project_id md s' r evs :
  MV d s -> len_le md max_metadata_length = true ->
  h_update_project_metadata e s admin project_id md = LOk (s', r, evs) -> MV d s'.
Proof.
  intros Hmv Hmd. unfold h_update_project_metadata. intros Hh. lstep Hh as kp Hkp. destruct kp as [k p]. lstep Hh as u Hu.
  apply ret_inv in Hh. subst s'. apply project_by_id_Some in Hkp. destruct Hkp as [Hp _].
  pose proof (mv_pj d s Hmv _ _ Hp) as Hv. unfold set_project. mv_updates Hmv.
  apply fa_insert; [|assumption]. eapply valid_project_same; [..|exact Hv]; try reflexivity. exact Hmd.
Qed.

(* ---- governance messages of the base module ---- *)

Lemma h_add_credit_type_MV d e s a abbrev name unit_ precision s' r evs :
  MV d s -> validate_credit_type_abbrev abbrev = true -> nonempty name = true ->
  len_le name max_credit_type_name_length = true -> nonempty unit_ = true -> (precision =? credit_type_precision) = true ->
  h_add_credit_type e s a abbrev name unit_ precision = LOk (s', r, evs) -> MV d s'.
Proof.
  intros Hmv H1 H2 H3 H4 H5. unfold h_add_credit_type. intros Hh. lstep Hh as u Hu. lstep Hh as u2 Hu2. lstep Hh as u3 Hu3.
  apply ret_inv in Hh. subst s'. mv_updates Hmv. apply fa_insert; [|assumption].
  unfold valid_credit_type. cbn [ct_name ct_unit ct_precision]. rewrite H1, H2, H3, H4, H5. reflexivity.
Qed.

Lemma valid_denom_nonempty x : valid_denom x = true -> nonempty x = true.
Proof. destruct x; [discriminate|reflexivity]. Qed.

(* (e) fees: the stored fee is the validated coin, or nothing when its amount is zero *)
Lemma normalise_fee_valid fee : (match fee with None => True | Some c => coin_valid c = true end) -> valid_fee (normalise_fee fee) = true.
Proof.
  destruct fee as [c|]; [|reflexivity]. intros Hc. unfold normalise_fee. destruct (0 <? c_amount c); [|reflexivity].
  unfold valid_fee. rewrite Hc. unfold coin_valid in Hc. apply andb_true_iff in Hc. destruct Hc as [Hd _].
  rewrite (valid_denom_nonempty _ Hd). reflexivity.
Qed.

Lemma h_update_class_fee_MV d e s a fee s' r evs :
  MV d s -> (match fee with None => True | Some c => coin_valid c = true end) ->
  h_update_class_fee e s a fee = LOk (s', r, evs) -> MV d s'.
Proof.
  intros Hmv Hf. unfold h_update_class_fee. intros Hh. lstep Hh as u Hu. apply ret_inv in Hh. subst s'.
  mv_updates Hmv. apply normalise_fee_valid. exact Hf.
Qed.

Lemma h_update_basket_fee_MV d e s a fee s' r evs :
  MV d s -> (match fee with None => True | Some c => coin_valid c = true end) ->
  h_update_basket_fee e s a fee = LOk (s', r, evs) -> MV d s'.
Proof.
  intros Hmv Hf. unfold h_update_basket_fee. intros Hh. lstep Hh as u Hu. apply ret_inv in Hh. subst s'.
  mv_updates Hmv. apply normalise_fee_valid. exact Hf.
Qed.

Lemma h_add_allowed_bridge_chain_MV d e s a chain s' r evs :
  MV d s -> nonempty chain = true -> h_add_allowed_bridge_chain e s a chain = LOk (s', r, evs) -> MV d s'.
Proof.
  intros Hmv Hc. unfold h_add_allowed_bridge_chain. intros Hh. lstep Hh as u Hu. cbv zeta in Hh. lstep Hh as u2 Hu2.
  apply ret_inv in Hh. subst s'. mv_updates Hmv. apply fs_union; [|assumption].
  unfold valid_allowed_bridge_chain. apply nonempty_to_lower. exact Hc.
Qed.

Lemma h_remove_allowed_bridge_chain_MV d e s a chain s' r evs :
  MV d s -> h_remove_allowed_bridge_chain e s a chain = LOk (s', r, evs) -> MV d s'.
Proof.
  intros Hmv. unfold h_remove_allowed_bridge_chain. intros Hh. lstep Hh as u Hu. apply ret_inv in Hh. subst s'.
  mv_updates Hmv. apply fs_diff. assumption.
Qed.

Lemma h_set_allowlist_meq e s a en s' r evs : h_set_allowlist e s a en = LOk (s', r, evs) -> meq s s'.
Proof. unfold h_set_allowlist. intros Hh. lstep Hh as u Hu. apply ret_inv in Hh. subst s'. reflexivity. Qed.
Lemma h_add_class_creator_meq e s a c s' r evs : h_add_class_creator e s a c = LOk (s', r, evs) -> meq s s'.
Proof. unfold h_add_class_creator. intros Hh. lstep Hh as u Hu. lstep Hh as u2 Hu2. apply ret_inv in Hh. subst s'. reflexivity. Qed.
Lemma h_remove_class_creator_meq e s a c s' r evs : h_remove_class_creator e s a c = LOk (s', r, evs) -> meq s s'.
Proof. unfold h_remove_class_creator. intros Hh. lstep Hh as u Hu. lstep Hh as u2 Hu2. apply ret_inv in Hh. subst s'. reflexivity. Qed.

(* ------------------------------------------------------------------ *)
(* (2) basket module                                                   *)
(* ------------------------------------------------------------------ *)

(* (c) date criteria: the message check is the state check *)
Lemma vb_date_criteria_valid c : vb_date_criteria c = true -> valid_date_criteria c = true.
Proof.
  destruct c as [|t|ds dn|n]; cbn; try reflexivity; intros Hv;
    change LedgerConsts.date_criteria_min_start_seconds with (-2208992400) in Hv;
    change LedgerConsts.date_criteria_max_start_seconds with 253402300799 in Hv;
    change LedgerConsts.date_criteria_start_nanos_lo with 0 in Hv;
    change LedgerConsts.date_criteria_start_nanos_hi with 1000000000 in Hv;
    change LedgerConsts.date_criteria_min_window_seconds with 86400 in Hv;
    change LedgerConsts.date_criteria_max_window_seconds with 315576000000 in Hv;
    change LedgerConsts.date_criteria_window_nanos_lo with 0 in Hv;
    change LedgerConsts.date_criteria_window_nanos_hi with 1000000000 in Hv; lia.
Qed.

Lemma set_basket_classes_twice s x y : s <| basket_classes := x |> <| basket_classes := y |> = s <| basket_classes := y |>.
Proof. destruct s; reflexivity. Qed.

Lemma index_allowed_classes_spec id ct l : forall s s', index_allowed_classes id ct l s = LOk s' ->
  exists kc, s' = s <| basket_classes := kc |> /\ (forall x, x ∈ kc -> x ∈ basket_classes s \/ (x.1 = id /\ In x.2 l)).
Proof.
  induction l as [|c l IH]; intros s s' Hh; cbn in Hh.
  - inversion Hh; subst. exists (basket_classes s'). split; [destruct s'; reflexivity|]. intros x Hx. left. exact Hx.
  - lstep Hh as kc Hkc. destruct kc as [k cl]. lstep Hh as u Hu. destruct (bool_decide _); [discriminate|].
    apply IH in Hh. destruct Hh as (kc & -> & Hkc'). exists kc. split; [apply set_basket_classes_twice|].
    intros x Hx. destruct (Hkc' x Hx) as [Ho|[Ho1 Ho2]]; [|right; split; [exact Ho1|right; exact Ho2]].
    cbn in Ho. apply elem_of_union in Ho. destruct Ho as [Ho|Ho]; [|left; exact Ho].
    apply elem_of_singleton in Ho. subst x. right. split; [reflexivity|left; reflexivity].
Qed.

(* (g) basket Create: the denom is a format_basket_denom output, hence valid by IdsProps.basket_denom_valid *)
Lemma h_basket_create_MV d e s curator name dar ct allowed criteria fee s' r evs :
  MV d s -> validate_basket_name name = true -> validate_credit_type_abbrev ct = true ->
  Forall (fun c => validate_class_id c = true) allowed -> vb_date_criteria criteria = true ->
  h_basket_create e s curator name dar ct allowed criteria fee = LOk (s', r, evs) -> MV d s'.
Proof.
  intros Hmv Hn Hct Hal Hcr. unfold h_basket_create. intros Hh.
  lstep Hh as s1 H1. lstep Hh as cty Hcty. lstep Hh as dd Hdd. destruct dd as [denom dden]. lstep Hh as u Hu.
  cbv zeta in Hh. lstep Hh as s2 H2. apply ret_inv in Hh. subst s'.
  apply charge_fee_meq in H1. apply (meq_MV d _ _ H1) in Hmv. clear H1 s.
  assert (Hden : validate_basket_denom denom = true).
  { unfold format_basket_denom in Hdd. destruct (exponent_to_prefix (Z.to_N (ct_precision cty))) as [p|] eqn:Ep; [|discriminate].
    destruct (basket_denom_valid name ct _ p Hn Hct Ep) as (x & y & Ef & Hx & _).
    unfold format_basket_denom in Ef. rewrite Ep in Ef. congruence. }
  apply index_allowed_classes_spec in H2. destruct H2 as (kc & -> & Hkc).
  assert (Hb : MV d (s1 <| baskets := <[(basket_seq_id s1 + 1)%N := {| bk_denom := denom; bk_name := name; bk_disable_auto_retire := dar;
                     bk_ct := ct; bk_criteria := criteria; bk_exponent := ct_precision cty; bk_curator := curator |}]> (baskets s1) |>
                     <| basket_seq_id := (basket_seq_id s1 + 1)%N |>)).
  { mv_updates Hmv. apply fa_insert; [|assumption]. unfold valid_basket. cbn.
    rewrite nz_succ, Hden, Hn, Hct, (vb_date_criteria_valid _ Hcr). reflexivity. }
  mv_updates Hb. intros x Hx. destruct (Hkc x Hx) as [Ho|[Ho1 Ho2]]; [auto|].
  unfold valid_basket_class. rewrite Ho1, nz_succ. cbn. rewrite Forall_forall in Hal. apply Hal. exact Ho2.
Qed.

Lemma valid_basket_same k v v' : bk_denom v' = bk_denom v -> bk_name v' = bk_name v -> bk_ct v' = bk_ct v ->
  valid_date_criteria (bk_criteria v') = true -> valid_basket k v = true -> valid_basket k v' = true.
Proof.
  intros E1 E2 E3 Hc Hv. unfold valid_basket in *. rewrite E1, E2, E3, Hc. bdestr Hv. rewrite Hv, Hv2, Hv3, Hv4. reflexivity.
Qed.
Lemma valid_basket_criteria k v : valid_basket k v = true -> valid_date_criteria (bk_criteria v) = true.
Proof. unfold valid_basket. intros Hv. bdestr Hv. assumption. Qed.

Lemma h_update_curator_MV d e s curator denom new_curator s' r evs :
  MV d s -> h_update_curator e s curator denom new_curator = LOk (s', r, evs) -> MV d s'.
Proof.
  intros Hmv. unfold h_update_curator. intros Hh. lstep Hh as ik Hik. destruct ik as [id k]. lstep Hh as u Hu.
  apply ret_inv in Hh. subst s'. apply basket_by_denom_Some in Hik. destruct Hik as [Hk _].
  pose proof (mv_bk d s Hmv _ _ Hk) as Hv. unfold set_basket. mv_updates Hmv.
  apply fa_insert; [|assumption]. eapply valid_basket_same; [..|exact Hv]; try reflexivity. cbn. eapply valid_basket_criteria. exact Hv.
Qed.

Lemma h_update_date_criteria_MV d e s a denom criteria s' r evs :
  MV d s -> vb_date_criteria criteria = true ->
  h_update_date_criteria e s a denom criteria = LOk (s', r, evs) -> MV d s'.
Proof.
  intros Hmv Hc. unfold h_update_date_criteria. intros Hh. lstep Hh as u Hu. lstep Hh as ik Hik. destruct ik as [id k].
  apply ret_inv in Hh. subst s'. apply basket_by_denom_Some in Hik. destruct Hik as [Hk _].
  pose proof (mv_bk d s Hmv _ _ Hk) as Hv. unfold set_basket. mv_updates Hmv.
  apply fa_insert; [|assumption]. eapply valid_basket_same; [..|exact Hv]; try reflexivity. cbn. apply vb_date_criteria_valid. exact Hc.
Qed.

(* ------------------------------------------------------------------ *)
(* (2) marketplace module                                              *)
(* ------------------------------------------------------------------ *)

Lemma escrow_credits_meq a bk q s s' : escrow_credits a bk q s = LOk s' -> meq s s'.
Proof. unfold escrow_credits. intros Hh. linv Hh. meq_chain. Qed.
Lemma unescrow_credits_meq a bk q s s' : unescrow_credits a bk q s = LOk s' -> meq s s'.
Proof. unfold unescrow_credits. intros Hh. linv Hh. meq_chain. Qed.

Lemma credit_type_abbrev_valid d s denom ab ct : MV d s ->
  credit_type_abbrev_of_denom s denom = LOk (ab, ct) -> validate_credit_type_abbrev ab = true.
Proof.
  intros Hmv. unfold credit_type_abbrev_of_denom. intros Hh. cbv zeta in Hh. lstep Hh as kc Hkc. destruct kc as [k c].
  lstep Hh as cty Hcty. inversion Hh; subst. apply class_by_id_Some in Hkc. destruct Hkc as [Hc _].
  pose proof (mv_cl d s Hmv _ _ Hc) as Hv. unfold valid_class in Hv. bdestr Hv. assumption.
Qed.

(* getOrCreateMarketID: the market id is non-zero and the market row (if new) is valid *)
Lemma get_or_create_market_MV d ab dn s s1 id : MV d s ->
  validate_credit_type_abbrev ab = true -> valid_denom dn = true ->
  get_or_create_market ab dn s = (s1, id) -> MV d s1 /\ nz id = true /\ sell_orders s1 = sell_orders s.
Proof.
  intros Hmv Hab Hdn. unfold get_or_create_market.
  destruct (map_find _ (markets s)) as [[k m]|] eqn:Ef; intros Hg; inversion Hg; subst.
  - split; [exact Hmv|]. split; [|reflexivity]. apply map_find_Some in Ef. destruct Ef as [Hk _].
    pose proof (mv_mk d s1 Hmv _ _ Hk) as Hv. unfold valid_market in Hv. bdestr Hv. assumption.
  - split; [|split; [apply nz_succ|reflexivity]]. mv_updates Hmv. apply fa_insert; [|assumption].
    unfold valid_market. cbn. rewrite nz_succ, Hab, Hdn, (valid_denom_nonempty _ Hdn). reflexivity.
Qed.

Lemma vb_price_inv p : vb_price p = true -> exists c, p = Some c /\ valid_denom (c_denom c) = true /\ 0 < c_amount c.
Proof.
  destruct p as [c|]; [|discriminate]. cbn. intros Hv. bdestr Hv. exists c. split; [reflexivity|]. split; [assumption|].
  apply Z.ltb_lt. assumption.
Qed.

Lemma batch_key_nz d s bk ba : MV d s -> batches s !! bk = Some ba -> nz bk = true.
Proof. intros Hmv Hb. destruct (vbd_nz _ _ _ (mv_ba d s Hmv _ _ Hb)) as [Hn _]. exact Hn. Qed.

(* (f) Sell: keys non-zero, ask amount positive *)
Lemma sell_one_MV d e seller acc o acc' : MV d acc.1 -> vb_sell_req o = true ->
  sell_one e seller acc o = LOk acc' -> MV d acc'.1.
Proof.
  destruct acc as [s ids]. cbn [fst]. intros Hmv Hv. unfold sell_one. intros Hh.
  lstep Hh as kb Hkb. destruct kb as [bk ba]. lstep Hh as ac Hac. destruct ac as [ab ct]. lstep Hh as ask Hask.
  unfold vb_sell_req in Hv. bdestr Hv. destruct (vb_price_inv _ Hv0) as (c & Ec & Hcd & Hca). rewrite Ec in Hask. inversion Hask; subst ask.
  destruct (get_or_create_market ab (c_denom c) s) as [s1 mid] eqn:Eg.
  lstep Hh as u Hu. lstep Hh as q Hq. lstep Hh as s2 H2. lstep Hh as u2 Hu2. inversion Hh; subst. cbn [fst].
  apply batch_by_denom_Some in Hkb. destruct Hkb as [Hba _].
  pose proof (batch_key_nz d s _ _ Hmv Hba) as Hbk.
  destruct (get_or_create_market_MV d ab (c_denom c) s s1 mid Hmv (credit_type_abbrev_valid d s _ _ _ Hmv Hac) Hcd Eg) as (Hm1 & Hmid & _).
  apply escrow_credits_meq in H2. apply (meq_MV d _ _ H2) in Hm1.
  mv_updates Hm1. apply fa_insert; [|assumption]. unfold so_struct_ok. cbn.
  rewrite nz_succ, Hbk, Hmid. cbn. apply Z.leb_le. lia.
Qed.

Lemma h_sell_MV d e s seller orders s' r evs : MV d s -> forallb vb_sell_req orders = true ->
  h_sell e s seller orders = LOk (s', r, evs) -> MV d s'.
Proof.
  intros Hmv Hv. unfold h_sell. intros Hh. lstep Hh as acc Hacc. destruct acc as [s1 ids]. apply ret_inv in Hh. subst s'.
  assert (L : forall a x a', vb_sell_req x = true -> MV d a.1 -> sell_one e seller a x = LOk a' -> MV d a'.1)
    by (intros a x a' Hx Ha Hf; eapply sell_one_MV; eassumption).
  exact (lfold_pred (fun o => vb_sell_req o = true) (fun a : state * list N => MV d a.1) (sell_one e seller) L
           orders (s, []) (s1, ids) (forallb_Forall _ _ Hv) Hmv Hacc).
Qed.

Lemma so_struct_same k o o' : so_batch_key o' = so_batch_key o -> nz (so_market_id o') = true -> 0 <= so_ask_amount o' ->
  so_struct_ok k o = true -> so_struct_ok k o' = true.
Proof.
  intros E1 Hm Ha Hv. unfold so_struct_ok in *. rewrite E1, Hm. bdestr Hv. rewrite Hv, Hv2. cbn. apply Z.leb_le. exact Ha.
Qed.

Lemma so_struct_inv k o : so_struct_ok k o = true -> nz (so_market_id o) = true /\ 0 <= so_ask_amount o.
Proof. unfold so_struct_ok. intros Hv. bdestr Hv. split; [assumption|apply Z.leb_le; assumption]. Qed.

Lemma update_one_MV d e seller s u s' : MV d s -> vb_update_req u = true ->
  update_one e seller s u = LOk s' -> MV d s'.
Proof.
  intros Hmv Hv. unfold update_one. intros Hh.
  lstep Hh as o Ho. lstep Hh as u1 Hu1. lstep Hh as ba Hba. lstep Hh as ac Hac. destruct ac as [ab ct].
  lstep Hh as tr Htr. destruct tr as [[s1 mid] askz]. lstep Hh as ex Hex. lstep Hh as sq Hsq. destruct sq as [s2 qty].
  lstep Hh as m Hm. inversion Hh; subst. apply orm_update_ok in Hm. destruct Hm as [-> _].
  destruct (so_struct_inv _ _ (mv_so d s Hmv _ _ Ho)) as [Hmk0 Hask0].
  pose proof (mv_so d s Hmv _ _ Ho) as Hso.
  (* the price block *)
  assert (H1 : MV d s1 /\ nz mid = true /\ 0 <= askz /\ sell_orders s1 = sell_orders s).
  { unfold vb_update_req in Hv. bdestr Hv. destruct (vb_price_inv _ Hv0) as (c & Ec & Hcd & Hca). rewrite Ec in Htr.
    lstep Htr as mk Hmk. lstep Htr as u2 Hu2. destruct (bytes_eqb (mk_denom mk) (c_denom c)).
    - inversion Htr; subst. split; [assumption|]. split; [assumption|]. split; [lia|reflexivity].
    - destruct (get_or_create_market ab (c_denom c) s) as [s1' id'] eqn:Eg. inversion Htr; subst.
      destruct (get_or_create_market_MV d ab (c_denom c) s s1 mid Hmv (credit_type_abbrev_valid d s _ _ _ Hmv Hac) Hcd Eg) as (A & B & C).
      split; [assumption|]. split; [assumption|]. split; [lia|assumption]. }
  destruct H1 as (Hm1 & Hmid & Haz & Eso).
  (* the quantity block only moves escrow *)
  assert (H2 : meq s1 s2).
  { destruct (up_quantity u); [inversion Hsq; subst; apply meq_refl|].
    lstep Hsq as nq Hnq. lstep Hsq as cq Hcq. destruct (cmp nq cq).
    - inversion Hsq; subst. apply meq_refl.
    - lstep Hsq as df Hdf. lstep Hsq as s3 H3. inversion Hsq; subst. eapply unescrow_credits_meq. exact H3.
    - lstep Hsq as df Hdf. lstep Hsq as s3 H3. inversion Hsq; subst. eapply escrow_credits_meq. exact H3. }
  apply (meq_MV d _ _ H2) in Hm1.
  mv_updates Hm1. apply fa_insert; [|assumption].
  eapply so_struct_same; [..|exact Hso]; cbn; try reflexivity; assumption.
Qed.

Lemma h_update_sell_orders_MV d e s seller updates s' r evs : MV d s -> forallb vb_update_req updates = true ->
  h_update_sell_orders e s seller updates = LOk (s', r, evs) -> MV d s'.
Proof.
  intros Hmv Hv. unfold h_update_sell_orders. intros Hh. lstep Hh as s1 H1. apply ret_inv in Hh. subst s'.
  eapply (lfold_pred (fun u => vb_update_req u = true) (MV d)); [| apply forallb_Forall; exact Hv | exact Hmv | exact H1].
  intros a x a' Hx Ha Hf. eapply update_one_MV; eassumption.
Qed.

Lemma h_cancel_sell_order_MV d e s seller id s' r evs : MV d s -> h_cancel_sell_order e s seller id = LOk (s', r, evs) -> MV d s'.
Proof.
  intros Hmv. unfold h_cancel_sell_order. intros Hh. lstep Hh as o Ho. lstep Hh as u Hu. lstep Hh as s1 H1.
  apply ret_inv in Hh. subst s'. apply unescrow_credits_meq in H1. apply (meq_MV d _ _ H1) in Hmv.
  mv_updates Hmv. apply fa_delete. assumption.
Qed.

(* BuyDirect: an order is deleted, or rewritten with a smaller quantity and the same keys and price *)
Lemma fill_order_MV d id o buyer q bf st ar dn s s' : MV d s -> sell_orders s !! id = Some o ->
  fill_order id o buyer q bf st ar dn s = LOk s' -> MV d s'.
Proof.
  intros Hmv Ho. unfold fill_order. intros Hh. lstep Hh as oq Hoq. lstep Hh as s1 H1.
  pose proof (mv_so d s Hmv _ _ Ho) as Hso.
  assert (Hm1 : MV d s1).
  { destruct (cmp oq q); [| discriminate |].
    - inversion H1; subst. mv_updates Hmv. apply fa_delete. assumption.
    - lstep H1 as nq Hnq. lstep H1 as m Hm. inversion H1; subst. apply orm_update_ok in Hm. destruct Hm as [-> _].
      destruct (so_struct_inv _ _ Hso) as [A B].
      mv_updates Hmv. apply fa_insert; [|assumption]. eapply so_struct_same; [..|exact Hso]; cbn; try reflexivity; assumption. }
  clear Hmv. lstep Hh as sb Hsb. lstep Hh as ne Hne. lstep Hh as s2 H2.
  apply update_balance_meq in H2. apply (meq_MV d _ _ H2) in Hm1. clear H2.
  cbv zeta in Hh. lstep Hh as s3 H3.
  assert (Hm3 : MV d s3).
  { destruct (negb ar).
    - lstep H3 as nt Hnt. inversion H3; subst. eapply meq_MV; [|exact Hm1]. reflexivity.
    - lstep H3 as nr Hnr. lstep H3 as su Hsu. lstep H3 as stt Hst. lstep H3 as sr Hsr. lstep H3 as s4 H4.
      inversion H3; subst. apply update_supply_meq in H4. eapply meq_MV; [|exact Hm1]. unfold meq in *. autorewrite with mt. exact H4. }
  clear Hm1. lstep Hh as rate Hrate. lstep Hh as sf Hsf. lstep Hh as tf Htf. lstep Hh as s4 H4.
  assert (Hm4 : MV d s4).
  { destruct (is_positive tf); [|inversion H4; subst; exact Hm3].
    lstep H4 as am Ham. lstep H4 as cs Hcs. lstep H4 as s5 H5. apply send_coins_meq in H5. apply (meq_MV d _ _ H5) in Hm3.
    destruct (bytes_eqb dn uregen); [|inversion H4; subst; exact Hm3].
    apply burn_coins_meq in H4. eapply meq_MV; eassumption. }
  lstep Hh as pm Hpm. lstep Hh as pay Hpay. lstep Hh as cs Hcs. apply send_coins_meq in Hh. eapply meq_MV; eassumption.
Qed.

Lemma buy_one_MV d e buyer s rq s' : MV d s -> buy_one e buyer s rq = LOk s' -> MV d s'.
Proof.
  intros Hmv. unfold buy_one. intros Hh. lstep Hh as o Ho.
  repeat match type of Hh with
         | lbind _ _ = LOk _ => let x := fresh "x" in let Hx := fresh "Hx" in apply lbind_ok in Hh; destruct Hh as (x & Hx & Hh)
         end.
  eapply fill_order_MV; eassumption.
Qed.

Lemma h_buy_direct_MV d e s buyer orders s' r evs : MV d s -> h_buy_direct e s buyer orders = LOk (s', r, evs) -> MV d s'.
Proof.
  intros Hmv. unfold h_buy_direct. intros Hh. lstep Hh as s1 H1. apply ret_inv in Hh. subst s'.
  eapply (lfold_pred (fun _ => True) (MV d)); [| apply Forall_forall; intros; exact I | exact Hmv | exact H1].
  intros a x a' _ Ha Hf. eapply buy_one_MV; eassumption.
Qed.

Lemma h_add_allowed_denom_MV d e s a bank_denom display_denom exponent s' r evs :
  MV d s -> valid_denom bank_denom = true -> valid_denom display_denom = true ->
  (match exponent_to_prefix (Z.to_N exponent) with Some _ => true | None => false end) = true ->
  h_add_allowed_denom e s a bank_denom display_denom exponent = LOk (s', r, evs) -> MV d s'.
Proof.
  intros Hmv H1 H2 H3. unfold h_add_allowed_denom. intros Hh. lstep Hh as u Hu. lstep Hh as u2 Hu2. lstep Hh as u3 Hu3.
  apply ret_inv in Hh. subst s'. mv_updates Hmv. apply fa_insert; [|assumption].
  unfold valid_allowed_denom. cbn [fst snd]. rewrite H1, H2, H3, (valid_denom_nonempty _ H1), (valid_denom_nonempty _ H2). reflexivity.
Qed.

Lemma h_remove_allowed_denom_MV d e s a denom s' r evs :
  MV d s -> h_remove_allowed_denom e s a denom = LOk (s', r, evs) -> MV d s'.
Proof.
  intros Hmv. unfold h_remove_allowed_denom. intros Hh. lstep Hh as u Hu. lstep Hh as u2 Hu2.
  apply ret_inv in Hh. subst s'. mv_updates Hmv. apply fa_delete. assumption.
Qed.

Lemma h_gov_set_fee_params_meq e s a fees s' r evs : h_gov_set_fee_params e s a fees = LOk (s', r, evs) -> meq s s'.
Proof. unfold h_gov_set_fee_params. intros Hh. lstep Hh as u Hu. lstep Hh as fp Hfp. apply ret_inv in Hh. subst s'. reflexivity. Qed.

Lemma h_gov_send_from_fee_pool_meq e s a rc coins s' r evs : h_gov_send_from_fee_pool e s a rc coins = LOk (s', r, evs) -> meq s s'.
Proof. unfold h_gov_send_from_fee_pool. intros Hh. lstep Hh as u Hu. lstep Hh as s1 H1. apply ret_inv in Hh. subst s'. eapply send_m2a_meq. exact H1. Qed.

(* (h) fee params: FeeParams.Validate (which ValidateGenesis never calls) accepts what GovSetFeeParams stores *)
Theorem gov_set_fee_params_valid e s a fees s' r evs :
  validate_basic (MGovSetFeeParams a fees) = true ->
  handle e s (MGovSetFeeParams a fees) = LOk (s', r, evs) -> fee_params_ok s' = true.
Proof.
  cbn [validate_basic handle]. intros Hv. unfold h_gov_set_fee_params. intros Hh. lstep Hh as u Hu. lstep Hh as fp Hfp.
  apply ret_inv in Hh. subst s' fees. unfold fee_params_ok. cbn. exact Hv.
Qed.

(* BeginBlock: expired orders are un-escrowed and deleted *)
Lemma fold_delete_sub {V} (l : list (N * V)) : forall (m : gmap N V) k v,
  fold_left (fun m kv => delete kv.1 m) l m !! k = Some v -> m !! k = Some v.
Proof.
  induction l as [|x l IH]; intros m k v Hl; cbn in Hl; [exact Hl|].
  apply IH in Hl. apply lookup_delete_Some in Hl. tauto.
Qed.

Lemma begin_block_MV d t s s' : MV d s -> begin_block t s = LOk s' -> MV d s'.
Proof.
  intros Hmv. unfold begin_block, prune_sell_orders. intros Hh. cbv zeta in Hh. lstep Hh as s1 H1. inversion Hh; subst.
  assert (M : meq s s1).
  { eapply lfold_meq; [|exact H1]. intros a x a' Hf. eapply unescrow_credits_meq. exact Hf. }
  apply (meq_MV d _ _ M) in Hmv. mv_updates Hmv. intros k v Hk. apply fold_delete_sub in Hk.
  replace (sell_orders s) with (sell_orders s1) in Hk; [auto|]. unfold meq, mtuple in M. congruence.
Qed.

(* BridgeReceive = (CreateProject)? ; CreateBatch, or MintBatchCredits into the batch of the contract *)
Lemma h_bridge_receive_MV d e s issuer class_id pjr bar otx s' r evs :
  MV d s ->
  (forall o, otx = Some o -> vb_origin_tx o = true) ->
  (forall pp, pjr = Some pp -> len_le (brp_metadata pp) max_metadata_length = true /\ validate_jurisdiction (brp_jurisdiction pp) = true) ->
  (forall bb, bar = Some bb -> len_le (brb_metadata bb) max_metadata_length = true /\ dates_ok d (brb_start bb) (brb_end bb)) ->
  h_bridge_receive e s issuer class_id pjr bar otx = LOk (s', r, evs) -> MV d s'.
Proof.
  intros Hmv Ho Hp Hb. unfold h_bridge_receive. intros Hh.
  lstep Hh as o Eo. lstep Hh as bb Eb. lstep Hh as pp Ep. lstep Hh as u Hu. lstep Hh as kc Hkc. destruct kc as [ck cl].
  specialize (Ho o Eo). destruct (Hp pp Ep) as [Hpm Hpj]. destruct (Hb bb Eb) as [Hbm Hbd]. cbv zeta in Hh.
  destruct (map_find _ (batch_contracts s)) as [[bk bc]|].
  - lstep Hh as ba Hba. lstep Hh as pj Hpjr. lstep Hh as x Hx. destruct x as [[s1 r1] ev1]. inversion Hh; subst.
    eapply h_mint_MV; [exact Hmv | | exact Hx]. exact Ho.
  - lstep Hh as sp Hsp. destruct sp as [s1 project_id]. lstep Hh as x Hx. destruct x as [[s2 r2] ev2].
    assert (Hm1 : MV d s1).
    { destruct (map_find _ (projects s)) as [[k0 pj0]|]; [inversion Hsp; subst; exact Hmv|].
      lstep Hsp as y Hy. destruct y as [[s3 r3] ev3]. destruct r3; try discriminate. inversion Hsp; subst.
      eapply h_create_project_MV; [exact Hmv | exact Hpm | exact Hpj | exact Hy]. }
    destruct r2; try discriminate. inversion Hh; subst.
    eapply h_create_batch_MV; [exact Hm1 | exact Hbm | exact Hbd | | exact Hx]. exact Ho.
Qed.

(* ------------------------------------------------------------------ *)
(* (2) the dispatcher: every message                                   *)
(* ------------------------------------------------------------------ *)

(* the side condition on the dates of the two batch-creating messages (see [dates_ok]); vacuous for
   every other message *)
Definition msg_dates_ok (d : bool) (m : msg) : Prop :=
  match m with
  | MCreateBatch _ _ _ _ start_ end_ _ _ => dates_ok d start_ end_
  | MBridgeReceive _ _ _ (Some bb) _ => dates_ok d (brb_start bb) (brb_end bb)
  | _ => True
  end.

Lemma forallb_class_ids allowed :
  forallb (fun c => nonempty c && validate_class_id c) allowed = true -> Forall (fun c => validate_class_id c = true) allowed.
Proof.
  intros Hf. apply Forall_forall. intros x Hx. rewrite forallb_forall in Hf. specialize (Hf x Hx).
  apply andb_true_iff in Hf. tauto.
Qed.

Theorem handle_MV d e s m s' r evs :
  MV d s -> validate_basic m = true -> msg_dates_ok d m -> handle e s m = LOk (s', r, evs) -> MV d s'.
Proof.
  intros Hmv Hv Hd Hh. destruct m; cbn [handle validate_basic msg_dates_ok] in *.
  - (* CreateClass *) bdestr Hv. eapply h_create_class_MV; [exact Hmv| | |exact Hh]; assumption.
  - (* CreateProject *) bdestr Hv. eapply h_create_project_MV; [exact Hmv| | |exact Hh]; assumption.
  - (* CreateBatch *) bdestr Hv. eapply h_create_batch_MV; [exact Hmv| |exact Hd| |exact Hh]; [assumption|].
    destruct otx; [assumption|exact I].
  - (* MintBatchCredits *) bdestr Hv. eapply h_mint_MV; [exact Hmv| |exact Hh]. destruct otx; [assumption|exact I].
  - (* SealBatch *) eapply h_seal_batch_MV; eassumption.
  - (* Send *) eapply meq_MV; [eapply h_send_meq; exact Hh|exact Hmv].
  - (* Retire *) eapply meq_MV; [eapply h_retire_meq; exact Hh|exact Hmv].
  - (* Cancel *) eapply meq_MV; [eapply h_cancel_meq; exact Hh|exact Hmv].
  - (* UpdateClassAdmin *) eapply h_update_class_admin_MV; eassumption.
  - (* UpdateClassIssuers *) eapply h_update_class_issuers_MV; eassumption.
  - (* UpdateClassMetadata *) bdestr Hv. eapply h_update_class_metadata_MV; [exact Hmv| |exact Hh]; assumption.
  - (* UpdateProjectAdmin *) eapply h_update_project_admin_MV; eassumption.
  - (* UpdateProjectMetadata *) bdestr Hv. eapply h_update_project_metadata_MV; [exact Hmv| |exact Hh]; assumption.
  - (* UpdateBatchMetadata *) bdestr Hv. eapply h_update_batch_metadata_MV; [exact Hmv| |exact Hh]; assumption.
  - (* Bridge *) eapply meq_MV; [eapply h_bridge_meq; exact Hh|exact Hmv].
  - (* BridgeReceive *)
    bdestr Hv. eapply h_bridge_receive_MV; [exact Hmv| | | |exact Hh].
    + intros o Eo. subst otx. bdestr Hv0. assumption.
    + intros pp Ep. subst pj. bdestr Hv2. split; assumption.
    + intros bb Eb. subst ba. bdestr Hv1. split; [assumption|exact Hd].
  - (* AddCreditType *) bdestr Hv. eapply h_add_credit_type_MV; [exact Hmv| | | | | |exact Hh]; assumption.
  - (* SetClassCreatorAllowlist *) eapply meq_MV; [eapply h_set_allowlist_meq; exact Hh|exact Hmv].
  - (* AddClassCreator *) eapply meq_MV; [eapply h_add_class_creator_meq; exact Hh|exact Hmv].
  - (* RemoveClassCreator *) eapply meq_MV; [eapply h_remove_class_creator_meq; exact Hh|exact Hmv].
  - (* UpdateClassFee *) eapply h_update_class_fee_MV; [exact Hmv| |exact Hh]. destruct fee; [exact Hv|exact I].
  - (* AddAllowedBridgeChain *) eapply h_add_allowed_bridge_chain_MV; eassumption.
  - (* RemoveAllowedBridgeChain *) eapply h_remove_allowed_bridge_chain_MV; eassumption.
  - (* BurnRegen *) eapply meq_MV; [eapply h_burn_regen_meq; exact Hh|exact Hmv].
  - (* basket Create *) bdestr Hv. eapply h_basket_create_MV; [exact Hmv| | | | |exact Hh]; try assumption.
    apply forallb_class_ids. assumption.
  - (* Put *) eapply meq_MV; [eapply h_put_meq; exact Hh|exact Hmv].
  - (* Take *) eapply meq_MV; [eapply h_take_meq; exact Hh|exact Hmv].
  - (* UpdateBasketFee *) eapply h_update_basket_fee_MV; [exact Hmv| |exact Hh]. destruct fee; [exact Hv|exact I].
  - (* UpdateCurator *) eapply h_update_curator_MV; eassumption.
  - (* UpdateDateCriteria *) bdestr Hv. eapply h_update_date_criteria_MV; [exact Hmv| |exact Hh]; assumption.
  - (* Sell *) bdestr Hv. eapply h_sell_MV; [exact Hmv| |exact Hh]; assumption.
  - (* UpdateSellOrders *) bdestr Hv. eapply h_update_sell_orders_MV; [exact Hmv| |exact Hh]; assumption.
  - (* CancelSellOrder *) eapply h_cancel_sell_order_MV; eassumption.
  - (* BuyDirect *) eapply h_buy_direct_MV; eassumption.
  - (* AddAllowedDenom *) bdestr Hv. eapply h_add_allowed_denom_MV; [exact Hmv| | | |exact Hh]; assumption.
  - (* RemoveAllowedDenom *) eapply h_remove_allowed_denom_MV; eassumption.
  - (* GovSetFeeParams *) eapply meq_MV; [eapply h_gov_set_fee_params_meq; exact Hh|exact Hmv].
  - (* GovSendFromFeePool *) eapply meq_MV; [eapply h_gov_send_from_fee_pool_meq; exact Hh|exact Hmv].
  - (* bank Send *) destruct (blocked_addr to); [discriminate|]. lstep Hh as s1 H1. apply ret_inv in Hh. subst s'.
    eapply meq_MV; [eapply send_coins_meq; exact H1|exact Hmv].
  - (* unimplemented *) discriminate.
Qed.

(* ------------------------------------------------------------------ *)
(* the theorems                                                        *)
(* ------------------------------------------------------------------ *)

(* message validator + handler => state validator, parametric in the date clause *)
Theorem msg_vs_state d e s m s' r evs :
  Inv_valid_d d s -> validate_basic m = true -> msg_dates_ok d m -> handle e s m = LOk (s', r, evs) ->
  Inv_core s' -> small_state s' -> Inv_valid_d d s'.
Proof.
  intros Hv Hb Hd Hh Hc Hs. apply amounts_valid; [|exact Hc|exact Hs].
  eapply handle_MV; [apply rows_MV; exact Hv | exact Hb | exact Hd | exact Hh].
Qed.

(* what remains of [msg_dates_ok] without the date clause: the two dates are representable
   time.Time values (guaranteed by the decoding of the transaction) *)
Definition wire_dates_ok (m : msg) : Prop := msg_dates_ok false m.

(* PARTIAL (defect F4).  The full statement would be
     Inv_valid s -> validate_basic m = true -> handle e s m = LOk (s', r, evs) -> ... -> Inv_valid s'
   for every message; it is false for MsgCreateBatch / MsgBridgeReceive with start date = end date
   ([C09_batch_dates_refuted]).  Proved here: the same with the batch date comparison removed
   from the validator, for every message. *)
Theorem msg_vs_state_partial e s m s' r evs :
  Inv_valid_except_dates s -> validate_basic m = true -> wire_dates_ok m -> handle e s m = LOk (s', r, evs) ->
  Inv_core s' -> small_state s' -> Inv_valid_except_dates s'.
Proof.
  intros Hv Hb Hd Hh Hc Hs. apply (proj1 (Inv_valid_d_false s')). apply (proj2 (Inv_valid_d_false s)) in Hv.
  exact (msg_vs_state false e s m s' r evs Hv Hb Hd Hh Hc Hs).
Qed.

(* FULL validator, with the exact extra condition under which it holds: a batch-creating message
   has end date strictly after start date.  For every other message the condition is [True]. *)
Definition strict_dates_ok (m : msg) : Prop := msg_dates_ok true m.

Theorem msg_vs_state_full e s m s' r evs :
  Inv_valid s -> validate_basic m = true -> strict_dates_ok m -> handle e s m = LOk (s', r, evs) ->
  Inv_core s' -> small_state s' -> Inv_valid s'.
Proof. intros Hv Hb Hd Hh Hc Hs. exact (msg_vs_state true e s m s' r evs Hv Hb Hd Hh Hc Hs). Qed.

Definition creates_batch (m : msg) : bool :=
  match m with MCreateBatch _ _ _ _ _ _ _ _ | MBridgeReceive _ _ _ _ _ => true | _ => false end.

(* the full statement for all the other messages, no side condition *)
Theorem msg_vs_state_other e s m s' r evs :
  creates_batch m = false ->
  Inv_valid s -> validate_basic m = true -> handle e s m = LOk (s', r, evs) ->
  Inv_core s' -> small_state s' -> Inv_valid s'.
Proof.
  intros Hcb Hv Hb Hh Hc Hs. eapply msg_vs_state_full; try eassumption.
  destruct m; try exact I; discriminate Hcb.
Qed.

(* ---- whole histories: MV is preserved by every step, the amount hypotheses are needed for the
   final state only ---- *)

Lemma deliver_MV d e s m : MV d s -> msg_dates_ok d m -> MV d (deliver e s m).1.
Proof.
  intros Hmv Hd. unfold deliver. destruct (validate_basic m) eqn:Hb; [|exact Hmv].
  destruct (handle e s m) as [[[s' r] evs]|err] eqn:Hh; [|exact Hmv]. cbn [fst]. eapply handle_MV; eassumption.
Qed.

Definition block_dates_ok (d : bool) (bl : block) : Prop := Forall (msg_dates_ok d) (blk_msgs bl).

Lemma run_block_MV d a s bl s' : MV d s -> block_dates_ok d bl -> run_block a s bl = LOk s' -> MV d s'.
Proof.
  intros Hmv Hd. unfold run_block. intros Hh. lstep Hh as s1 H1. inversion Hh; subst. clear Hh.
  apply (begin_block_MV d _ _ _ Hmv) in H1. clear Hmv. unfold block_dates_ok in Hd. revert s1 H1.
  induction Hd as [|m l Hm Hl IH]; intros s1 H1; cbn [fold_left]; [exact H1|]. apply IH. apply deliver_MV; assumption.
Qed.

Theorem run_MV d a s h s' : MV d s -> Forall (block_dates_ok d) h -> run a s h = LOk s' -> MV d s'.
Proof.
  intros Hmv Hd Hr. unfold run in Hr.
  eapply (lfold_pred (block_dates_ok d) (MV d)); [| exact Hd | exact Hmv | exact Hr].
  intros s1 bl s2 Hb H1 H2. eapply run_block_MV; eassumption.
Qed.

(* every state reached from a validated genesis by any history of blocks validates, given the
   ledger invariant and the size bound on that state *)
Theorem reachable_valid d a s0 h s :
  Inv_valid_d d s0 -> Forall (block_dates_ok d) h -> run a s0 h = LOk s ->
  Inv_core s -> small_state s -> Inv_valid_d d s.
Proof.
  intros Hv Hd Hr Hc Hs. apply amounts_valid; [|exact Hc|exact Hs].
  eapply run_MV; [apply rows_MV; exact Hv | exact Hd | exact Hr].
Qed.

Corollary reachable_valid_partial a s0 h s :
  Inv_valid_except_dates s0 -> Forall (block_dates_ok false) h -> run a s0 h = LOk s ->
  Inv_core s -> small_state s -> Inv_valid_except_dates s.
Proof.
  intros Hv Hd Hr Hc Hs. apply (proj1 (Inv_valid_d_false s)). apply (proj2 (Inv_valid_d_false s0)) in Hv.
  exact (reachable_valid false a s0 h s Hv Hd Hr Hc Hs).
Qed.

(* ---- (d) the amount columns survive export + import: printing a stored amount and parsing it
   back (what ExportGenesis / InitGenesis do with every amount column) gives the same decimal, so
   the re-exported string is identical.  The rest of the ORM JSON codec is the identity in this
   model (rows are the records themselves); the real codec is exercised by the `genesis_rt` items
   of the harness. ---- *)
Theorem amount_roundtrip x : stored_ok x -> small_dec x ->
  match parse (to_string x) with Ok y => dnorm y = x | Err _ => False end.
Proof.
  intros (Hc & Hn & He1 & He2) Hs.
  rewrite (parse_to_string x); [| exact Hc | unfold P in He1; clear - He1 He2; lia | exact Hs].
  unfold dnorm. destruct (0 <? dexp x) eqn:E; [apply Z.ltb_lt in E; clear - E He2; lia|reflexivity].
Qed.

(* ------------------------------------------------------------------ *)
(* refutation of the full statement (defect F4), by a concrete witness  *)
(* ------------------------------------------------------------------ *)

Require Regen.Cases.LedgerRun.

Module Witness.
  Import Regen.Cases.LedgerRun.

  (* credit type C, class C01 (admin and issuer: account 0), project C01-001 *)
  Definition s0 : state := build_state
    [ XCreditType (b "C") (Some (b "carbon", b "ton", 6));
      XClass 1%N (Some {| cl_id := b "C01"; cl_admin := 0%N; cl_metadata := b "m"; cl_ct := b "C" |});
      XIssuer 1%N 0%N true;
      XProject 1%N (Some {| pj_id := b "C01-001"; pj_admin := 0%N; pj_class_key := 1%N; pj_jurisdiction := b "US";
                          pj_metadata := b "m"; pj_reference_id := [] |});
      XClassSeq (b "C") (Some 2%N); XProjectSeq 1%N (Some 2%N); XSeq 0%N 1%N; XSeq 1%N 1%N ].

  Definition e0 : env := {| e_time := {| secs := 1704067200; nanos := 0 |}; e_authority := addr_gov |}.
  Definition day : ts := {| secs := 1577836800; nanos := 0 |}.        (* 2020-01-01 *)
  Definition later : ts := {| secs := 1609459200; nanos := 0 |}.      (* 2021-01-01 *)
  Definition iss : list issuance :=
    [ {| is_recipient := 0%N; is_tradable := b "10"; is_retired := []; is_jurisdiction := []; is_reason := [] |} ].

  (* MsgCreateBatch with start date = end date: accepted by ValidateBasic *)
  Definition m_same : msg := MCreateBatch 0%N (b "C01-001") iss (b "meta") (Some day) (Some day) false None.
  (* the same with end date after start date *)
  Definition m_good : msg := MCreateBatch 0%N (b "C01-001") iss (b "meta") (Some day) (Some later) false None.

  (* the state validates (rows, ORM checks, cross-table checks) and both messages pass ValidateBasic *)
  Lemma s0_valid : validate_rows s0 = true /\ validate_cross s0 = true /\ import_ok s0 = true /\
                   validate_basic m_same = true /\ validate_basic m_good = true.
  Proof. vm_compute. repeat split; reflexivity. Qed.

  (* start = end: the handler succeeds, and in the resulting state the row validators fail although
     the validators without the date clause, the ORM checks and the cross-table checks all pass *)
  Lemma after_same :
    match handle e0 s0 m_same with
    | LOk (s', _, _) => validate_rows s' = false /\ validate_rows_except_dates s' = true /\
                        validate_cross s' = true /\ import_ok s' = true
    | LErr _ => False
    end.
  Proof. vm_compute. repeat split; reflexivity. Qed.

  (* end after start: the resulting state validates completely *)
  Lemma after_good :
    match handle e0 s0 m_good with
    | LOk (s', _, _) => validate_rows s' = true /\ validate_cross s' = true /\ import_ok s' = true
    | LErr _ => False
    end.
  Proof. vm_compute. repeat split; reflexivity. Qed.
End Witness.

(* The full "message validator => state validator" statement is FALSE on the current tree:
   a valid state, a message accepted by ValidateBasic, a successful handler, and a resulting state
   whose Batch row fails Batch.Validate (end date must be strictly after start date). *)
Theorem C09_batch_dates_refuted :
  exists e s m s' r evs, Inv_valid s /\ validate_basic m = true /\ handle e s m = LOk (s', r, evs) /\ validate_rows s' = false.
Proof.
  destruct Witness.s0_valid as (A1 & A2 & A3 & A4 & A5).
  pose proof Witness.after_same as Hc.
  destruct (handle Witness.e0 Witness.s0 Witness.m_same) as [[[s' r] evs]|err] eqn:Hh; [|contradiction].
  destruct Hc as (B1 & B2 & B3 & B4). exists Witness.e0, Witness.s0, Witness.m_same, s', r, evs.
  split; [exact A1|]. split; [exact A4|]. split; [exact Hh|exact B1].
Qed.

(* ... and it is only the date clause that fails: exported, that state fails ValidateGenesis, while
   every other row check, the ORM import checks and the supply cross-check pass *)
Theorem C09_batch_dates_refuted_genesis :
  exists e s m s' r evs, validate_genesis s = true /\ validate_basic m = true /\ handle e s m = LOk (s', r, evs) /\
    validate_genesis s' = false /\ validate_rows_except_dates s' = true /\ validate_cross s' = true /\ import_ok s' = true.
Proof.
  destruct Witness.s0_valid as (A1 & A2 & A3 & A4 & A5).
  pose proof Witness.after_same as Hc.
  destruct (handle Witness.e0 Witness.s0 Witness.m_same) as [[[s' r] evs]|err] eqn:Hh; [|contradiction].
  destruct Hc as (B1 & B2 & B3 & B4). exists Witness.e0, Witness.s0, Witness.m_same, s', r, evs.
  split; [unfold validate_genesis; rewrite A1, A2, A3; reflexivity|]. split; [exact A4|]. split; [exact Hh|].
  split; [unfold validate_genesis; rewrite B1, B4; reflexivity|]. split; [exact B2|]. split; [exact B3|exact B4].
Qed.

(* the hypotheses of the theorems are satisfiable: the same batch with a later end date *)
Example C09_good_batch_example :
  exists e s m s' r evs, Inv_valid s /\ validate_basic m = true /\ strict_dates_ok m /\
    handle e s m = LOk (s', r, evs) /\ validate_genesis s' = true.
Proof.
  destruct Witness.s0_valid as (A1 & A2 & A3 & A4 & A5).
  pose proof Witness.after_good as Hc.
  destruct (handle Witness.e0 Witness.s0 Witness.m_good) as [[[s' r] evs]|err] eqn:Hh; [|contradiction].
  destruct Hc as (B1 & B2 & B3). exists Witness.e0, Witness.s0, Witness.m_good, s', r, evs.
  split; [exact A1|]. split; [exact A5|]. split; [|split; [exact Hh|unfold validate_genesis; rewrite B1, B2, B3; reflexivity]].
  cbn. split; [reflexivity|]. split; [reflexivity|]. intros _. reflexivity.
Qed.

(* ------------------------------------------------------------------ *)
(* the data module (x/data/state_resolver.go, defect F6)               *)
(* ------------------------------------------------------------------ *)

Require Regen.Data.DataMsgs.

Module DataC09.
  Import Regen.Data.DataMsgs.

  (* Resolver.Validate: m.Id == 0, m.Url == "", url.ParseRequestURI(m.Url) (net/url is not modelled:
     DefineResolver's ValidateBasic makes the same call, the model carries its verdict as the
     message's [url_ok] flag, so a stored URL has passed it), and
     AccAddressFromBech32(AccAddress(m.Manager).String()), which rejects the EMPTY manager that
     DefineResolver stores for a public resolver. *)
  Definition valid_resolver_row (kv : N * resolver) : bool :=
    nz kv.1 && nonempty kv.2.1 && (match kv.2.2 with Some _ => true | None => false end).
  Definition resolvers_valid (s : dstate) : bool := forallb valid_resolver_row (resolvers s).

  Definition t0 : ts := {| secs := 1704067200; nanos := 0 |}.
  Definition m_public : dmsg := DDefineResolver 0%N (b "https://resolver.example/data") true true.

  (* a public resolver, accepted by ValidateBasic and by the handler, leaves a row that
     Resolver.Validate rejects: the exported data genesis fails ValidateGenesis *)
  Theorem C09_public_resolver_refuted :
    exists (H : bytes -> bytes) t s m s' r,
      resolvers_valid s = true /\ validate_basic m = true /\ handle H t m s = BytesExt.Ok (s', r) /\
      resolvers_valid s' = false.
  Proof.
    exists (fun x => x), t0, empty_dstate, m_public. do 2 eexists.
    split; [reflexivity|]. split; [reflexivity|]. split; [vm_compute; reflexivity|]. vm_compute. reflexivity.
  Qed.

  (* PARTIAL: a private resolver (public = false) with a non-empty URL always leaves a valid row *)
  Theorem define_private_resolver_valid_partial definer url s s' r :
    resolvers_valid s = true -> nonempty url = true ->
    handle_define_resolver definer url false s = BytesExt.Ok (s', r) -> resolvers_valid s' = true.
  Proof.
    intros Hv Hu. unfold handle_define_resolver. destruct (get_resolver _ s); [discriminate|].
    destruct (resolver_taken _ _); [discriminate|]. intros Hh. inversion Hh; subst.
    unfold resolvers_valid, set_resolvers, AList.ainsert. cbn [resolvers forallb].
    unfold resolvers_valid in Hv. rewrite Hv. unfold valid_resolver_row. cbn [fst snd].
    rewrite Hu. rewrite andb_true_r. apply andb_true_intro. split; [|reflexivity].
    apply andb_true_intro. split; [|reflexivity]. unfold nz. apply negb_true_iff. apply N.eqb_neq. lia.
  Qed.
End DataC09.
