(* Property C09, proof file: "what message validation plus a successful handler lets into a row
   satisfies that row's genesis validator".

   Shape of the theorems.  [Inv_valid s := validate_rows s = true] (every row of every table that
   ValidateGenesis validates passes its state validator).  For a handler h:

       Inv_valid s -> validate_basic m = true -> handle e s m = LOk (s', r, evs) ->
       Inv_core s' -> small_state s' -> Inv_valid s'

   The two extra hypotheses are about the POST state and concern only the amount columns:
     - [Inv_core s'] is the credit-accounting invariant of Ledger/Inv.v (stored amounts are
       non-negative decimals with at most 6 places, every balance / supply / basket-balance / order
       row names an existing batch or basket); its preservation by every handler is property C01
       (Ledger/InvBase.v, InvBasket.v, ...), so it is available for every reachable state;
     - [small_state s'] bounds the coefficients by 10^100000, the side condition of
       DecIface.parse_to_string (apd refuses exponents beyond +-100000; no reachable amount comes
       near).
   Under them the amount columns of s' validate ([amounts_valid]) without looking at the handler at
   all.  Everything else (ids, denoms, metadata / jurisdiction / reference bounds, dates, fees,
   sell-order keys and prices, markets, baskets, sequences, origin txs, contracts, ...) is proved by
   walking through the handler: that part is [MV] ("meta valid") and its preservation.

   Known defect F4: Batch.Validate wants end date > start date, MsgCreateBatch / MsgBridgeReceive
   accept start = end.  So the statement above is FALSE for those two messages
   ([C09_batch_dates_refuted]); it is proved for them with the date clause removed
   ([..._partial], parameter d = false below) and in full (d = true) for every other message.

   The data module's analogue (defect F6, public resolver) is at the end of the file. *)
From stdpp Require Import gmap.
From RecordUpdate Require Import RecordSet.
From Coq Require Import ZArith NArith List Bool Lia Strings.Byte Strings.String.
Require Import Regen.Base.Bytes Regen.Base.Regex Regen.Base.RegexProps Regen.Base.Calendar Regen.Dec.Dec Regen.Dec.DecLemmas
               Regen.Dec.DecIface Regen.Ids.Ids Regen.Ids.IdsProps Regen.Generated.IdConsts.
Require Import Regen.Ledger.Types Regen.Ledger.Msgs Regen.Ledger.Orm Regen.Ledger.BaseMsgs
               Regen.Ledger.BasketMsgs Regen.Ledger.MarketMsgs Regen.Ledger.Step
               Regen.Ledger.Amount Regen.Ledger.MapSum Regen.Ledger.Inv Regen.Ledger.InvTactics
               Regen.Ledger.InvFrame.
Require Import Regen.Genesis.Validators.
Import ListNotations RecordSetNotations.
Local Open Scope Z_scope.

(* ------------------------------------------------------------------ *)
(* boolean folds over tables                                           *)
(* ------------------------------------------------------------------ *)

Lemma map_forallb_spec {K V} `{Countable K} (f : K -> V -> bool) (m : gmap K V) :
  map_forallb f m = true <-> (forall k v, m !! k = Some v -> f k v = true).
Proof.
  unfold map_forallb. rewrite forallb_forall. split.
  - intros Hf k v Hkv. apply (Hf (k, v)). apply elem_of_list_In, elem_of_map_to_list. exact Hkv.
  - intros Hf [k v] Hin. apply Hf. apply elem_of_map_to_list, elem_of_list_In. exact Hin.
Qed.

Lemma set_forallb_spec {K} `{Countable K} (f : K -> bool) (m : gset K) :
  set_forallb f m = true <-> (forall k, k ∈ m -> f k = true).
Proof.
  unfold set_forallb. rewrite forallb_forall. split.
  - intros Hf k Hk. apply Hf. apply elem_of_list_In, elem_of_elements. exact Hk.
  - intros Hf k Hin. apply Hf. apply elem_of_elements, elem_of_list_In. exact Hin.
Qed.

Ltac bsplit := repeat (apply andb_true_intro; split).
Ltac bdestr H := repeat (let H' := fresh H in apply andb_true_iff in H; destruct H as [H H']).

(* ------------------------------------------------------------------ *)
(* the statement                                                       *)
(* ------------------------------------------------------------------ *)

(* the batch validator with (d = true) or without (d = false) the date comparison *)
Definition vbd (d : bool) (k : N) (ba : batch) : bool :=
  valid_batch_except_dates k ba && (if d then valid_batch_dates ba else true).

Definition Inv_valid (s : state) : Prop := validate_rows s = true.
Definition Inv_valid_except_dates (s : state) : Prop := validate_rows_except_dates s = true.
Definition Inv_valid_d (d : bool) (s : state) : Prop := validate_rows_with (vbd d) s = true.

Lemma Inv_valid_d_true s : Inv_valid_d true s <-> Inv_valid s.
Proof. reflexivity. Qed.

Lemma forallb_ext' {A} (f g : A -> bool) l : (forall x, f x = g x) -> forallb f l = forallb g l.
Proof. intros E. induction l as [|a l IH]; [reflexivity|]. cbn. rewrite E, IH. reflexivity. Qed.

Lemma validate_rows_with_ext f g s :
  (forall k ba, f k ba = g k ba) -> validate_rows_with f s = validate_rows_with g s.
Proof.
  intros E. unfold validate_rows_with.
  replace (map_forallb f (batches s)) with (map_forallb g (batches s)); [reflexivity|].
  unfold map_forallb. apply forallb_ext'. intros [k ba]. symmetry. apply E.
Qed.

Lemma Inv_valid_d_false s : Inv_valid_d false s <-> Inv_valid_except_dates s.
Proof.
  unfold Inv_valid_d, Inv_valid_except_dates, validate_rows_except_dates.
  rewrite (validate_rows_with_ext (vbd false) valid_batch_except_dates); [reflexivity|].
  intros k ba. unfold vbd. apply andb_true_r.
Qed.

(* the full validator implies the one without dates *)
Lemma Inv_valid_weaken s : Inv_valid s -> Inv_valid_except_dates s.
Proof.
  unfold Inv_valid, Inv_valid_except_dates, validate_rows, validate_rows_except_dates, validate_rows_with.
  intros Hv. bdestr Hv. bsplit; try assumption.
  apply map_forallb_spec. intros k ba Hk.
  match goal with Hb : map_forallb valid_batch _ = true |- _ => rewrite map_forallb_spec in Hb; specialize (Hb k ba Hk) end.
  unfold valid_batch in *. match goal with Hb : _ && _ = true |- _ => apply andb_true_iff in Hb; tauto end.
Qed.

(* coefficient bound: the side condition of DecIface.parse_to_string *)
Definition small_dec (x : dec) : Prop := dcoef x < 10 ^ 100000.
Definition small_state (s : state) : Prop :=
  (forall k v, balances s !! k = Some v -> small_dec (bl_tradable v) /\ small_dec (bl_retired v) /\ small_dec (bl_escrowed v)) /\
  (forall k v, supplies s !! k = Some v -> small_dec (su_tradable v) /\ small_dec (su_retired v) /\ small_dec (su_cancelled v)) /\
  (forall k v, basket_balances s !! k = Some v -> small_dec (bb_balance v)) /\
  (forall k o, sell_orders s !! k = Some o -> so_ask_amount o < 10 ^ 100000).

(* ------------------------------------------------------------------ *)
(* (d) amounts: a stored amount prints to a string the validator parses *)
(* ------------------------------------------------------------------ *)

Lemma in_ok_not_negative x : in_ok x -> is_negative x = false.
Proof.
  intros (Hc & Hn & _). unfold is_negative, is_zero. destruct (dneg x) eqn:E; [|reflexivity].
  rewrite (Hn eq_refl). reflexivity.
Qed.

Theorem stored_amount_valid x : stored_ok x -> small_dec x -> nn_amount_ok x = true.
Proof.
  intros (Hc & Hn & He1 & He2) Hs. unfold nn_amount_ok, nn_string_ok, non_negative_dec_from_string.
  rewrite (parse_to_string x); [| exact Hc | unfold P in He1; clear - He1 He2; lia | exact Hs].
  rewrite in_ok_not_negative; [reflexivity|]. split; [exact Hc|]. split; [exact Hn|exact He1].
Qed.

(* ask amounts: an sdk.Int >= 0 renders as its digits *)
Theorem ask_amount_valid z : 0 <= z -> z < 10 ^ 100000 ->
  nonempty (ask_string z) = true /\ nn_string_ok (ask_string z) = true.
Proof.
  intros H0 Hs. unfold ask_string, dec_of_int.
  assert (E1 : (z <? 0) = false) by (apply Z.ltb_ge; exact H0). rewrite E1, Z.abs_eq by exact H0.
  split.
  - unfold to_string. cbn [dneg dcoef dexp]. destruct (Z_to_dec_spec z H0) as (Hne & _ & _).
    destruct (Z_to_dec z); [congruence|reflexivity].
  - unfold nn_string_ok, non_negative_dec_from_string.
    rewrite (parse_to_string (mkDec false z 0)); [reflexivity | exact H0 | cbn; clear; lia | exact Hs].
Qed.

(* sell-order quantities: a string that parses to a positive in-range decimal *)
Lemma order_quantity_valid o : order_ok o ->
  nonempty (so_quantity o) = true /\ nn_string_ok (so_quantity o) = true.
Proof.
  intros (x & Hp & Hok & Hpos). split.
  - destruct (so_quantity o) eqn:E; [|reflexivity].
    assert (Hx : x = mkDec false 0 0) by (vm_compute in Hp; congruence). subst x. vm_compute in Hpos. discriminate Hpos.
  - unfold nn_string_ok, non_negative_dec_from_string. rewrite Hp, (in_ok_not_negative x Hok). reflexivity.
Qed.

(* a string accepted by NewPositiveDecFromString is accepted by NewNonNegativeDecFromString *)
Lemma positive_string_nn str : is_ok (positive_dec_from_string str) = true -> nn_string_ok str = true.
Proof.
  unfold nn_string_ok, positive_dec_from_string, non_negative_dec_from_string.
  destruct (parse str) as [x|]; [|discriminate].
  unfold is_positive, is_negative. destruct (dneg x); cbn; [discriminate|reflexivity].
Qed.

Lemma finish_inv' neg C xs a : finish neg C xs = Ok a -> dneg a = neg /\ dcoef a = C.
Proof.
  unfold finish, bind, round0. destruct (set_exponent (mkDec neg C 0) xs) as [d1|] eqn:E1; [|discriminate].
  destruct (set_exponent d1 [dexp d1]) as [d2|] eqn:E2; [|discriminate].
  destruct (dcoef d2 <? 0); [discriminate|]. intros Ha. injection Ha as <-.
  apply set_exponent_inv in E1. apply set_exponent_inv in E2. cbn [dneg dcoef] in *.
  destruct E1 as (A1 & A2 & _). destruct E2 as (B1 & B2 & _). split; congruence.
Qed.

(* the rendering of a negative sdk.Int is rejected by NewNonNegativeDecFromString *)
Lemma ask_negative_invalid z : z < 0 -> nn_string_ok (ask_string z) = false.
Proof.
  intros Hz. unfold ask_string, dec_of_int. rewrite (proj2 (Z.ltb_lt z 0) Hz).
  set (c := Z.abs z). assert (Hc : 0 < c) by (subst c; lia). clearbody c. clear Hz z.
  destruct (Z_to_dec_spec c ltac:(lia)) as (Hne & Hall & Hval).
  unfold to_string. cbn [dneg dcoef dexp]. change (0 <? 0) with false. cbv iota.
  change (zeros 0) with (@nil byte). rewrite app_nil_r.
  destruct (Z_to_dec c) as [|f r] eqn:E; [congruence|].
  pose proof Hall as Hall0. cbn [forallb] in Hall. apply andb_true_iff in Hall. destruct Hall as [Hf Hr].
  unfold nn_string_ok, non_negative_dec_from_string.
  pose proof (parse_plain true f r Hf (digits_plain r Hr)) as Hpp. cbv iota in Hpp. rewrite Hpp. clear Hpp.
  rewrite pf_nopoint; [|discriminate|exact Hall0].
  rewrite Hval. destruct (finish true c []) as [a|] eqn:Ef; [|reflexivity].
  apply finish_inv' in Ef. destruct Ef as [En Ec].
  unfold is_negative, is_zero. rewrite En, Ec.
  assert (Ez : (c =? 0) = false) by (apply Z.eqb_neq; lia). rewrite Ez. reflexivity.
Qed.

Lemma ask_valid_nonneg z : nn_string_ok (ask_string z) = true -> 0 <= z.
Proof.
  intros Hv. destruct (Z_lt_le_dec z 0) as [Hlt|Hle]; [|exact Hle].
  rewrite (ask_negative_invalid z Hlt) in Hv. discriminate.
Qed.

(* ------------------------------------------------------------------ *)
(* the part of the validators that does not read amounts ("meta")       *)
(* ------------------------------------------------------------------ *)

(* the sell-order validator without the two amount strings, plus the sign of the ask amount *)
Definition so_struct_ok (id : N) (o : sell_order) : bool :=
  nz id && nz (so_batch_key o) && nz (so_market_id o) && (0 <=? so_ask_amount o).

Record MV (d : bool) (s : state) : Prop := {
  mv_ct : forall k v, credit_types s !! k = Some v -> valid_credit_type k v = true;
  mv_cl : forall k v, classes s !! k = Some v -> valid_class k v = true;
  mv_is : forall k, k ∈ class_issuers s -> valid_class_issuer k = true;
  mv_pj : forall k v, projects s !! k = Some v -> valid_project k v = true;
  mv_ba : forall k v, batches s !! k = Some v -> vbd d k v = true;
  mv_cs : forall k v, class_sequences s !! k = Some v -> valid_class_sequence k v = true;
  mv_ps : forall k v, project_sequences s !! k = Some v -> valid_project_sequence k v = true;
  mv_bs : forall k v, batch_sequences s !! k = Some v -> valid_batch_sequence k v = true;
  mv_ot : forall k, k ∈ origin_txs s -> valid_origin_tx_index k = true;
  mv_bc : forall k v, batch_contracts s !! k = Some v -> valid_batch_contract k v = true;
  mv_cf : valid_class_fee (class_fee s) = true;
  mv_br : forall k, k ∈ allowed_bridge_chains s -> valid_allowed_bridge_chain k = true;
  mv_bk : forall k v, baskets s !! k = Some v -> valid_basket k v = true;
  mv_kc : forall k, k ∈ basket_classes s -> valid_basket_class k = true;
  mv_bf : valid_basket_fee (basket_fee s) = true;
  mv_so : forall k v, sell_orders s !! k = Some v -> so_struct_ok k v = true;
  mv_ad : forall k v, allowed_denoms s !! k = Some v -> valid_allowed_denom k v = true;
  mv_mk : forall k v, markets s !! k = Some v -> valid_market k v = true
}.

Lemma valid_sell_order_struct k o : valid_sell_order k o = true -> so_struct_ok k o = true.
Proof.
  unfold valid_sell_order, so_struct_ok. intros Hv. bdestr Hv. bsplit; try assumption.
  apply Z.leb_le. apply ask_valid_nonneg. assumption.
Qed.

(* (1) every validated state is meta-valid *)
Lemma rows_MV d s : Inv_valid_d d s -> MV d s.
Proof.
  unfold Inv_valid_d, validate_rows_with. intros Hv. bdestr Hv.
  repeat match goal with
         | Hm : map_forallb _ _ = true |- _ => rewrite map_forallb_spec in Hm
         | Hm : set_forallb _ _ = true |- _ => rewrite set_forallb_spec in Hm
         end.
  constructor; try assumption.
  intros k v Hk. apply valid_sell_order_struct. auto.
Qed.

Lemma vbd_nz d k ba : vbd d k ba = true -> nz k = true /\ validate_batch_denom (ba_denom ba) = true.
Proof. unfold vbd, valid_batch_except_dates. intros Hv. bdestr Hv. split; assumption. Qed.

(* (3) a meta-valid state whose amounts obey the ledger invariant validates *)
Theorem amounts_valid d s : MV d s -> Inv_core s -> small_state s -> Inv_valid_d d s.
Proof.
  intros Hm (_ & (Sb & Ss & Sbb & So) & (_ & Ksup & Kbal & Kbb & Kso & _) & _ & _) (Lb & Ls & Lbb & Lo).
  destruct Hm. unfold Inv_valid_d, validate_rows_with. bsplit;
    try (apply map_forallb_spec; assumption); try (apply set_forallb_spec; assumption); try assumption.
  - (* balances *)
    apply map_forallb_spec. intros [a bk] bl Hb. unfold valid_batch_balance. cbn [fst snd].
    destruct (Kbal a bk bl Hb) as [ba Hba]. destruct (vbd_nz _ _ _ (mv_ba0 _ _ Hba)) as [Hnz _].
    destruct (Sb _ _ Hb) as (S1 & S2 & S3). destruct (Lb _ _ Hb) as (L1 & L2 & L3).
    rewrite Hnz, !stored_amount_valid by assumption. reflexivity.
  - (* supplies *)
    apply map_forallb_spec. intros bk su Hsu. unfold valid_batch_supply.
    destruct (proj2 (Ksup bk) (ex_intro _ su Hsu)) as [ba Hba]. destruct (vbd_nz _ _ _ (mv_ba0 _ _ Hba)) as [Hnz _].
    destruct (Ss _ _ Hsu) as (S1 & S2 & S3). destruct (Ls _ _ Hsu) as (L1 & L2 & L3).
    rewrite Hnz, !stored_amount_valid by assumption. reflexivity.
  - reflexivity.
  - apply set_forallb_spec. reflexivity.
  - (* basket balances *)
    apply map_forallb_spec. intros [id dn] bb Hbb. unfold valid_basket_balance. cbn [fst snd].
    destruct (Kbb id dn bb Hbb) as [(bk & ba & Hba & Hdn) [k Hk]].
    destruct (vbd_nz _ _ _ (mv_ba0 _ _ Hba)) as [_ Hden]. rewrite Hdn in Hden.
    pose proof (mv_bk0 _ _ Hk) as Hvk. unfold valid_basket in Hvk. bdestr Hvk.
    destruct (Sbb _ _ Hbb) as [S1 _].
    rewrite Hvk, Hden, stored_amount_valid by (try assumption; eapply Lbb; eassumption). reflexivity.
  - (* sell orders *)
    apply map_forallb_spec. intros id o Ho. unfold valid_sell_order.
    pose proof (mv_so0 _ _ Ho) as Hst. unfold so_struct_ok in Hst. bdestr Hst.
    destruct (order_quantity_valid o (So _ _ Ho)) as [Q1 Q2].
    apply Z.leb_le in Hst0.
    destruct (ask_amount_valid (so_ask_amount o) Hst0 (Lo _ _ Ho)) as [A1 A2].
    rewrite Hst, Hst2, Hst1, Q1, Q2, A1, A2. reflexivity.
Qed.

(* ------------------------------------------------------------------ *)
(* tools for walking through handlers                                  *)
(* ------------------------------------------------------------------ *)

Lemma fa_insert {K V} `{Countable K} (Pr : K -> V -> Prop) (m : gmap K V) k v :
  Pr k v -> (forall k' v', m !! k' = Some v' -> Pr k' v') ->
  forall k' v', <[k := v]> m !! k' = Some v' -> Pr k' v'.
Proof. intros Hn Ho k' v' Hl. apply lookup_insert_Some in Hl. destruct Hl as [[<- <-]|[_ Hl]]; auto. Qed.

Lemma fa_delete {K V} `{Countable K} (Pr : K -> V -> Prop) (m : gmap K V) k :
  (forall k' v', m !! k' = Some v' -> Pr k' v') ->
  forall k' v', delete k m !! k' = Some v' -> Pr k' v'.
Proof. intros Ho k' v' Hl. apply lookup_delete_Some in Hl. destruct Hl as [_ Hl]. auto. Qed.

Lemma fs_union {K} `{Countable K} (Pr : K -> Prop) (m : gset K) k :
  Pr k -> (forall k', k' ∈ m -> Pr k') -> forall k', k' ∈ ({[ k ]} ∪ m : gset K) -> Pr k'.
Proof. intros Hn Ho k' Hk. apply elem_of_union in Hk. destruct Hk as [Hk|Hk]; [apply elem_of_singleton in Hk; subst; exact Hn|auto]. Qed.

Lemma fs_diff {K} `{Countable K} (Pr : K -> Prop) (m X : gset K) :
  (forall k', k' ∈ m -> Pr k') -> forall k', k' ∈ m ∖ X -> Pr k'.
Proof. intros Ho k' Hk. apply elem_of_difference in Hk. destruct Hk as [Hk _]. auto. Qed.

Lemma lfold_rel {A B} (R : A -> A -> Prop) (f : A -> B -> lres A) :
  (forall a, R a a) -> (forall a c e, R a c -> R c e -> R a e) ->
  (forall a x a', f a x = LOk a' -> R a a') ->
  forall l a a', lfold f l a = LOk a' -> R a a'.
Proof.
  intros Hr Ht Hf l. induction l as [|x l IH]; intros a a' Hl; cbn in Hl.
  - inversion Hl. apply Hr.
  - apply lbind_ok in Hl. destruct Hl as (a1 & H1 & H2). eapply Ht; [eapply Hf; exact H1 | apply IH; exact H2].
Qed.

Lemma lfold_pred {A B} (Q : B -> Prop) (Pr : A -> Prop) (f : A -> B -> lres A) :
  (forall a x a', Q x -> Pr a -> f a x = LOk a' -> Pr a') ->
  forall l a a', Forall Q l -> Pr a -> lfold f l a = LOk a' -> Pr a'.
Proof.
  intros Hf l. induction l as [|x l IH]; intros a a' Hq Hp Hl; cbn in Hl.
  - inversion Hl; subst. exact Hp.
  - apply lbind_ok in Hl. destruct Hl as (a1 & H1 & H2). inversion Hq; subst.
    eapply IH; [assumption | eapply Hf; eassumption | exact H2].
Qed.

Lemma forallb_Forall {A} (f : A -> bool) l : forallb f l = true -> Forall (fun x => f x = true) l.
Proof. intros Hf. apply Forall_forall. intros x Hx. rewrite forallb_forall in Hf. apply Hf. exact Hx. Qed.

(* ------------------------------------------------------------------ *)
(* frames: the tables MV reads                                         *)
(* ------------------------------------------------------------------ *)

Definition mtuple (s : state) :=
  (credit_types s, classes s, class_issuers s, projects s, batches s, class_sequences s, project_sequences s,
   batch_sequences s, origin_txs s, batch_contracts s, class_fee s, allowed_bridge_chains s, baskets s,
   basket_classes s, basket_fee s, sell_orders s, allowed_denoms s, markets s).

Definition meq (s s' : state) : Prop := mtuple s' = mtuple s.

Lemma meq_refl s : meq s s. Proof. reflexivity. Qed.
Lemma meq_trans s1 s2 s3 : meq s1 s2 -> meq s2 s3 -> meq s1 s3.
Proof. unfold meq. congruence. Qed.

Lemma meq_MV d s s' : meq s s' -> MV d s -> MV d s'.
Proof.
  unfold meq, mtuple. intros E.
  injection E as E1 E2 E3 E4 E5 E6 E7 E8 E9 E10 E11 E12 E13 E14 E15 E16 E17 E18. intros [].
  constructor; rewrite ?E1, ?E2, ?E3, ?E4, ?E5, ?E6, ?E7, ?E8, ?E9, ?E10, ?E11, ?E12, ?E13, ?E14, ?E15, ?E16, ?E17, ?E18;
    assumption.
Qed.

Lemma nonbank_meq s s' : nonbank_eq s s' -> meq s s'.
Proof.
  unfold nonbank_eq, nonbank, meq, mtuple. intros E. injection E as ?????????? ?????????? ??????????.
  congruence.
Qed.

Lemma update_balance_meq a k b s s' : update_balance a k b s = LOk s' -> meq s s'.
Proof. intros Hu. apply update_balance_ok in Hu. destruct Hu as [-> _]. reflexivity. Qed.
Lemma update_supply_meq k v s s' : update_supply k v s = LOk s' -> meq s s'.
Proof. intros Hu. apply update_supply_ok in Hu. destruct Hu as [-> _]. reflexivity. Qed.

Lemma mt_save_balance a k b s : mtuple (save_balance a k b s) = mtuple s. Proof. reflexivity. Qed.
Lemma mt_set_balances m s : mtuple (s <| balances := m |>) = mtuple s. Proof. reflexivity. Qed.
Lemma mt_set_supplies m s : mtuple (s <| supplies := m |>) = mtuple s. Proof. reflexivity. Qed.
Lemma mt_set_basket_balances m s : mtuple (s <| basket_balances := m |>) = mtuple s. Proof. reflexivity. Qed.

Global Hint Rewrite mt_save_balance mt_set_balances mt_set_supplies mt_set_basket_balances : mt.

Ltac meq_chain :=
  repeat match goal with
         | Hu : update_balance _ _ _ ?s = LOk ?s' |- _ => apply update_balance_meq in Hu
         | Hu : update_supply _ _ ?s = LOk ?s' |- _ => apply update_supply_meq in Hu
         end;
  unfold meq in *; autorewrite with mt in *; congruence.

Ltac split_ifs :=
  repeat match goal with
         | Hi : (if ?c then _ else _) = LOk _ |- _ => destruct c eqn:?; linv1 Hi
         end.

Lemma add_and_save_balance_meq a k amt s s' : add_and_save_balance a k amt s = LOk s' -> meq s s'.
Proof. unfold add_and_save_balance. intros Hh. linv Hh. reflexivity. Qed.
Lemma retire_and_save_balance_meq a k amt s s' : retire_and_save_balance a k amt s = LOk s' -> meq s s'.
Proof. unfold retire_and_save_balance. intros Hh. linv Hh. reflexivity. Qed.
Lemma retire_supply_meq k amt s s' : retire_supply k amt s = LOk s' -> meq s s'.
Proof. unfold retire_supply. intros Hh. linv Hh. meq_chain. Qed.

Lemma send_tradable_meq bk a c amt s s' : send_tradable bk a c amt s = LOk s' -> meq s s'.
Proof. unfold send_tradable. intros Hh. linv Hh. meq_chain. Qed.
Lemma send_retired_meq bk a c amt s s' : send_retired bk a c amt s = LOk s' -> meq s s'.
Proof. unfold send_retired. intros Hh. linv Hh. meq_chain. Qed.

Lemma send_one_meq a c s x s' : send_one a c s x = LOk s' -> meq s s'.
Proof.
  unfold send_one. intros Hh. linv Hh. split_ifs;
    repeat match goal with
           | Hs : send_tradable _ _ _ _ _ = LOk _ |- _ => apply send_tradable_meq in Hs
           | Hs : send_retired _ _ _ _ _ = LOk _ |- _ => apply send_retired_meq in Hs
           end; unfold meq in *; congruence.
Qed.

Lemma retire_one_meq a s x s' : retire_one a s x = LOk s' -> meq s s'.
Proof. unfold retire_one. intros Hh. linv Hh. meq_chain. Qed.
Lemma cancel_one_meq a s x s' : cancel_one a s x = LOk s' -> meq s s'.
Proof. unfold cancel_one. intros Hh. linv Hh. meq_chain. Qed.

Lemma lfold_meq {B} (f : state -> B -> lres state) :
  (forall s x s', f s x = LOk s' -> meq s s') -> forall l s s', lfold f l s = LOk s' -> meq s s'.
Proof. intros Hf. apply (lfold_rel meq f meq_refl meq_trans Hf). Qed.

Lemma mint_issue_meq p bk s i s' : mint_issue p bk s i = LOk s' -> meq s s'.
Proof. unfold mint_issue. intros Hh. linv Hh. meq_chain. Qed.

(* ------------------------------------------------------------------ *)
(* (2) handlers preserve MV: the credit movers only touch amount tables *)
(* ------------------------------------------------------------------ *)

Lemma ret_inv s r s' r' evs : ret s r = LOk (s', r', evs) -> s' = s.
Proof. unfold ret. intros Hr. inversion Hr. reflexivity. Qed.

Lemma h_send_meq e s a c cs s' r evs : h_send e s a c cs = LOk (s', r, evs) -> meq s s'.
Proof.
  unfold h_send. intros Hh. lstep Hh as s1 H1. apply ret_inv in Hh. subst s'.
  eapply lfold_meq; [|exact H1]. intros; eapply send_one_meq; eassumption.
Qed.

Lemma h_retire_meq e s a cs s' r evs : h_retire e s a cs = LOk (s', r, evs) -> meq s s'.
Proof.
  unfold h_retire. intros Hh. lstep Hh as s1 H1. apply ret_inv in Hh. subst s'.
  eapply lfold_meq; [|exact H1]. intros; eapply retire_one_meq; eassumption.
Qed.

Lemma h_cancel_meq e s a cs s' r evs : h_cancel e s a cs = LOk (s', r, evs) -> meq s s'.
Proof.
  unfold h_cancel. intros Hh. lstep Hh as s1 H1. apply ret_inv in Hh. subst s'.
  eapply lfold_meq; [|exact H1]. intros; eapply cancel_one_meq; eassumption.
Qed.

Lemma h_bridge_meq e s a t rc cs s' r evs : h_bridge e s a t rc cs = LOk (s', r, evs) -> meq s s'.
Proof.
  unfold h_bridge. intros Hh. lstep Hh as u Hu. lstep Hh as s1 H1. lstep Hh as ev Hev. inversion Hh; subst.
  eapply lfold_meq; [|exact H1]. intros; eapply cancel_one_meq; eassumption.
Qed.

Lemma send_coins_meq a c cs s s' : send_coins a c cs s = LOk s' -> meq s s'.
Proof. intros Hh. apply nonbank_meq. eapply send_coins_nonbank. exact Hh. Qed.
Lemma send_m2a_meq a c cs s s' : send_coins_from_module_to_account a c cs s = LOk s' -> meq s s'.
Proof. intros Hh. apply nonbank_meq. eapply send_coins_m2a_nonbank. exact Hh. Qed.
Lemma mint_coins_meq a cs s s' : mint_coins a cs s = LOk s' -> meq s s'.
Proof. intros Hh. apply nonbank_meq. eapply mint_coins_nonbank. exact Hh. Qed.
Lemma burn_coins_meq a cs s s' : burn_coins a cs s = LOk s' -> meq s s'.
Proof. intros Hh. apply nonbank_meq. eapply burn_coins_nonbank. exact Hh. Qed.
Lemma charge_fee_meq rq off p m s s' : charge_fee rq off p m s = LOk s' -> meq s s'.
Proof. intros Hh. apply nonbank_meq. eapply charge_fee_nonbank. exact Hh. Qed.

Lemma h_burn_regen_meq e s a amt s' r evs : h_burn_regen e s a amt = LOk (s', r, evs) -> meq s s'.
Proof.
  unfold h_burn_regen. intros Hh. lstep Hh as z Hz. lstep Hh as u Hu. lstep Hh as cs Hcs.
  lstep Hh as s1 H1. lstep Hh as s2 H2. apply ret_inv in Hh. subst s'.
  eapply meq_trans; [eapply send_coins_meq; exact H1 | eapply burn_coins_meq; exact H2].
Qed.

(* ---- basket Put / Take ---- *)

Lemma transfer_to_basket_meq o amt id bkey ba p s s' : transfer_to_basket o amt id bkey ba p s = LOk s' -> meq s s'.
Proof.
  unfold transfer_to_basket. intros Hh. lstep Hh as ub Hub. lstep Hh as u Hu. lstep Hh as nt Hnt. lstep Hh as s1 H1.
  destruct (basket_balances s1 !! (id, ba_denom ba)); linv Hh; meq_chain.
Qed.

Lemma put_one_meq e o id k p acc c acc' : put_one e o id k p acc c = LOk acc' -> meq acc.1 acc'.1.
Proof.
  unfold put_one. destruct acc as [s rc]. intros Hh. lstep Hh as kb Hkb. destruct kb as [bkey ba].
  lstep Hh as u Hu. lstep Hh as amt Hamt. lstep Hh as s1 H1. lstep Hh as tk Htk. inversion Hh; subst. cbn.
  eapply transfer_to_basket_meq. exact H1.
Qed.

Lemma h_put_meq e s o bd cs s' r evs : h_put e s o bd cs = LOk (s', r, evs) -> meq s s'.
Proof.
  unfold h_put. intros Hh. lstep Hh as ik Hik. destruct ik as [id k]. lstep Hh as cty Hcty.
  lstep Hh as acc Hacc. destruct acc as [s1 rc]. lstep Hh as s2 H2. lstep Hh as s3 H3. apply ret_inv in Hh. subst s'.
  assert (M1 : meq s s1).
  { change s with (s, 0).1. change s1 with (s1, rc).1.
    eapply (lfold_rel (fun a c => meq a.1 c.1)); [intros; apply meq_refl | intros ? ? ? A B; eapply meq_trans; eassumption | | exact Hacc].
    intros; eapply put_one_meq; eassumption. }
  eapply meq_trans; [exact M1|]. eapply meq_trans; [eapply mint_coins_meq; exact H2 | eapply send_m2a_meq; exact H3].
Qed.

Lemma add_credit_balance_meq o dn amt rt s s' : add_credit_balance o dn amt rt s = LOk s' -> meq s s'.
Proof.
  unfold add_credit_balance. intros Hh. lstep Hh as kb Hkb. destruct kb as [bkey ba]. destruct rt.
  - lstep Hh as s1 H1. eapply meq_trans; [eapply retire_and_save_balance_meq; exact H1 | eapply retire_supply_meq; exact Hh].
  - eapply add_and_save_balance_meq. exact Hh.
Qed.

Lemma take_loop_meq o id rt : forall fuel needed acc s s' acc',
  take_loop fuel o id rt needed acc s = LOk (s', acc') -> meq s s'.
Proof.
  induction fuel as [|fuel IH]; intros needed acc s s' acc' Hh; cbn [take_loop] in Hh; [discriminate|].
  destruct (basket_rows s id) as [|[dn bb] rest]; [discriminate|].
  destruct (cmp (bb_balance bb) needed) eqn:Ec.
  - lstep Hh as s1 H1. inversion Hh; subst. apply add_credit_balance_meq in H1. meq_chain.
  - lstep Hh as s1 H1. lstep Hh as nd Hnd. apply IH in Hh. apply add_credit_balance_meq in H1.
    unfold meq in *. autorewrite with mt in *. congruence.
  - lstep Hh as s1 H1. lstep Hh as nb Hnb. lstep Hh as m Hm. inversion Hh; subst. apply add_credit_balance_meq in H1. meq_chain.
Qed.

Lemma h_take_meq e s o bd amt rt s' r evs : h_take e s o bd amt rt = LOk (s', r, evs) -> meq s s'.
Proof.
  unfold h_take. intros Hh. lstep Hh as ik Hik. destruct ik as [id k]. lstep Hh as cty Hcty. lstep Hh as u Hu.
  lstep Hh as tk Htk. lstep Hh as coins Hc. lstep Hh as u2 Hu2. lstep Hh as s1 H1. lstep Hh as s2 H2.
  lstep Hh as am Ham. lstep Hh as nd Hnd. lstep Hh as sc Hsc. destruct sc as [s3 credits]. apply ret_inv in Hh. subst s'.
  eapply meq_trans; [eapply send_coins_meq; exact H1|]. eapply meq_trans; [eapply burn_coins_meq; exact H2|].
  eapply take_loop_meq. exact Hsc.
Qed.

(* ------------------------------------------------------------------ *)
(* (2) row-writing handlers of the base module                         *)
(* ------------------------------------------------------------------ *)

Lemma nz_succ n : nz (n + 1) = true.
Proof. unfold nz. apply negb_true_iff. apply N.eqb_neq. lia. Qed.

Lemma class_by_id_Some s id k c : class_by_id s id = Some (k, c) -> classes s !! k = Some c /\ cl_id c = id.
Proof.
  unfold class_by_id. intros Hf. apply map_find_Some in Hf. destruct Hf as [H1 H2].
  split; [exact H1|]. apply bytes_eqb_eq. exact H2.
Qed.
Lemma project_by_id_Some s id k p : project_by_id s id = Some (k, p) -> projects s !! k = Some p /\ pj_id p = id.
Proof.
  unfold project_by_id. intros Hf. apply map_find_Some in Hf. destruct Hf as [H1 H2].
  split; [exact H1|]. apply bytes_eqb_eq. exact H2.
Qed.
Lemma basket_by_denom_Some s dn k v : basket_by_denom s dn = Some (k, v) -> baskets s !! k = Some v /\ bk_denom v = dn.
Proof.
  unfold basket_by_denom. intros Hf. apply map_find_Some in Hf. destruct Hf as [H1 H2].
  split; [exact H1|]. apply bytes_eqb_eq. exact H2.
Qed.

(* tactic: MV of a state obtained from a meta-valid one by record updates; leaves the touched tables *)
Ltac mv_updates Hmv := destruct Hmv; constructor; cbn; try assumption.

Lemma set_issuers_twice s x y : s <| class_issuers := x |> <| class_issuers := y |> = s <| class_issuers := y |>.
Proof. destruct s; reflexivity. Qed.

Lemma insert_issuers_spec k l : forall s s', insert_issuers k l s = LOk s' ->
  exists iss, s' = s <| class_issuers := iss |> /\ (forall x, x ∈ iss -> x ∈ class_issuers s \/ x.1 = k).
Proof.
  induction l as [|a l IH]; intros s s' Hh; cbn in Hh.
  - inversion Hh; subst. exists (class_issuers s'). split; [destruct s'; reflexivity|]. intros x Hx. left. exact Hx.
  - destruct (bool_decide _); [discriminate|]. apply IH in Hh. destruct Hh as (iss & -> & Hiss).
    exists iss. split; [apply set_issuers_twice|]. intros x Hx. destruct (Hiss x Hx) as [Ho|Ho]; [|right; exact Ho].
    cbn in Ho. apply elem_of_union in Ho. destruct Ho as [Ho|Ho]; [|left; exact Ho].
    apply elem_of_singleton in Ho. subst x. right. reflexivity.
Qed.

Lemma MV_set_issuers d s iss k : MV d s -> nz k = true ->
  (forall x, x ∈ iss -> x ∈ class_issuers s \/ x.1 = k) -> MV d (s <| class_issuers := iss |>).
Proof.
  intros Hmv Hk Hiss. mv_updates Hmv. intros x Hx. destruct (Hiss x Hx) as [Ho|Ho]; [auto|].
  unfold valid_class_issuer. rewrite Ho, Hk. reflexivity.
Qed.

(* (b) CreateClass: the id is a format_class_id output, hence valid by IdsProps.class_id_valid *)
Lemma h_create_class_MV d e s admin issuers metadata ct fee s' r evs :
  MV d s -> len_le metadata max_metadata_length = true -> validate_credit_type_abbrev ct = true ->
  h_create_class e s admin issuers metadata ct fee = LOk (s', r, evs) -> MV d s'.
Proof.
  intros Hmv Hmd Hct. unfold h_create_class. intros Hh.
  lstep Hh as u Hu. lstep Hh as s1 H1. lstep Hh as cty Hcty. lstep Hh as u2 Hu2. lstep Hh as s2 H2.
  apply ret_inv in Hh. subst s'.
  apply charge_fee_meq in H1. apply (meq_MV d _ _ H1) in Hmv. clear H1 Hu s.
  apply insert_issuers_spec in H2. destruct H2 as (iss & -> & Hiss).
  apply MV_set_issuers with (k := (class_seq_id s1 + 1)%N); [|apply nz_succ|exact Hiss].
  mv_updates Hmv.
  - apply fa_insert; [|assumption]. unfold valid_class. cbn.
    rewrite nz_succ, (class_id_valid ct _ Hct), Hmd, Hct. reflexivity.
  - apply fa_insert; [|assumption]. unfold valid_class_sequence. rewrite Hct, nz_succ. reflexivity.
Qed.

(* CreateProject *)
Lemma h_create_project_MV d e s admin class_id metadata jurisdiction reference_id s' r evs :
  MV d s -> len_le metadata max_metadata_length = true -> validate_jurisdiction jurisdiction = true ->
  h_create_project e s admin class_id metadata jurisdiction reference_id = LOk (s', r, evs) -> MV d s'.
Proof.
  intros Hmv Hmd Hj. unfold h_create_project. intros Hh.
  lstep Hh as kc Hkc. destruct kc as [ck cl]. lstep Hh as u Hu. lstep Hh as u2 Hu2. lstep Hh as u3 Hu3.
  apply ret_inv in Hh. subst s'.
  apply class_by_id_Some in Hkc. destruct Hkc as [Hcl _].
  pose proof (mv_cl d s Hmv _ _ Hcl) as Hvc. unfold valid_class in Hvc. bdestr Hvc.
  mv_updates Hmv.
  - apply fa_insert; [|assumption]. unfold valid_project. cbn.
    rewrite nz_succ, (format_project_id_valid _ _ Hvc3), Hvc, Hj, Hmd. reflexivity.
  - apply fa_insert; [|assumption]. unfold valid_project_sequence. rewrite Hvc, nz_succ. reflexivity.
Qed.

(* ---- origin txs: the source is stored lower-cased; the regex classes are closed under lower-casing ---- *)

Definition class_src_first : list (byte * byte) := [(x30, x39); (x41, x5a); (x61, x7a)].
Definition class_src_rest : list (byte * byte) := [(x20, x20); (x2d, x2d); (x30, x39); (x41, x5a); (x5f, x5f); (x61, x7a)].

Lemma lower_first c : in_ranges class_src_first c = true -> in_ranges class_src_first (to_lower_byte c) = true.
Proof. destruct c; intros Hc; try discriminate Hc; reflexivity. Qed.
Lemma lower_rest c : in_ranges class_src_rest c = true -> in_ranges class_src_rest (to_lower_byte c) = true.
Proof. destruct c; intros Hc; try discriminate Hc; reflexivity. Qed.

Lemma origin_source_lower src : rmatch re_origin_tx_source src = true -> rmatch re_origin_tx_source (to_lower src) = true.
Proof.
  rewrite !rmatch_correct. unfold re_origin_tx_source. fold class_src_first. fold class_src_rest.
  rewrite !matches_cat. intros (s1 & s2 & -> & H1 & H2).
  apply matches_class in H1. destruct H1 as (c & -> & Hc). apply matches_rep_class in H2. destruct H2 as [Hl Ha].
  exists [to_lower_byte c], (to_lower s2). split; [reflexivity|]. split.
  - apply matches_class. exists (to_lower_byte c). split; [reflexivity|apply lower_first; exact Hc].
  - apply matches_rep_class. split; [unfold to_lower; rewrite map_length; exact Hl|].
    unfold all_in, to_lower. apply Forall_forall. intros x Hx. apply in_map_iff in Hx. destruct Hx as (y & <- & Hy).
    apply lower_rest. unfold all_in in Ha. rewrite Forall_forall in Ha. apply Ha. exact Hy.
Qed.

Lemma nonempty_to_lower x : nonempty x = true -> nonempty (to_lower x) = true.
Proof. destruct x; [discriminate|reflexivity]. Qed.

Lemma validate_with_inv r x : validate_with r x = true -> nonempty x = true /\ rmatch r x = true.
Proof. unfold validate_with. destruct x; [discriminate|]. intros Hv. split; [reflexivity|exact Hv]. Qed.

Lemma vb_origin_tx_row ck o : nz ck = true -> vb_origin_tx o = true ->
  valid_origin_tx_index (ck, ot_id o, to_lower (ot_source o)) = true.
Proof.
  intros Hk Hv. unfold vb_origin_tx in Hv. bdestr Hv.
  apply validate_with_inv in Hv4. apply validate_with_inv in Hv2. destruct Hv4 as [A1 A2]. destruct Hv2 as [B1 B2].
  unfold valid_origin_tx_index. rewrite Hk, A1, A2, (nonempty_to_lower _ B1), (origin_source_lower _ B2). reflexivity.
Qed.

Lemma insert_origin_tx_MV d ck o s s' : MV d s -> nz ck = true -> vb_origin_tx o = true ->
  insert_origin_tx ck o s = LOk s' -> MV d s'.
Proof.
  intros Hmv Hk Hv. unfold insert_origin_tx. destruct (bool_decide _); [discriminate|]. intros Hh. inversion Hh; subst.
  mv_updates Hmv. apply fs_union; [|assumption]. apply vb_origin_tx_row; assumption.
Qed.

(* ---- MintBatchCredits ---- *)

Lemma project_class_nz d s pk pj : MV d s -> projects s !! pk = Some pj -> nz pk = true /\ nz (pj_class_key pj) = true /\ validate_project_id (pj_id pj) = true.
Proof.
  intros Hmv Hp. pose proof (mv_pj d s Hmv _ _ Hp) as Hv. unfold valid_project in Hv. bdestr Hv. auto.
Qed.

Lemma h_mint_MV d e s issuer denom iss otx s' r evs :
  MV d s -> (match otx with Some o => vb_origin_tx o = true | None => True end) ->
  h_mint_batch_credits e s issuer denom iss otx = LOk (s', r, evs) -> MV d s'.
Proof.
  intros Hmv Ho. unfold h_mint_batch_credits. intros Hh.
  lstep Hh as kb Hkb. destruct kb as [bk ba]. lstep Hh as u Hu. lstep Hh as u2 Hu2. lstep Hh as pj Hpj.
  lstep Hh as o Hotx. subst otx. lstep Hh as s1 H1. lstep Hh as ct Hct. lstep Hh as s2 H2. apply ret_inv in Hh. subst s'.
  destruct (project_class_nz d s _ _ Hmv Hpj) as (_ & Hck & _).
  apply (insert_origin_tx_MV d _ _ _ _ Hmv Hck Ho) in H1.
  eapply meq_MV; [|exact H1]. eapply lfold_meq; [|exact H2]. intros; eapply mint_issue_meq; eassumption.
Qed.

(* ---- CreateBatch ---- *)

Lemma create_batch_issue_meq p bk acc i acc' : create_batch_issue p bk acc i = LOk acc' -> meq acc.1.1 acc'.1.1.
Proof.
  unfold create_batch_issue. destruct acc as [[s t] r]. intros Hh. linv Hh. reflexivity.
Qed.

(* what the wire format guarantees about the two dates of MsgCreateBatch / MsgBridgeReceive
   (gogoproto stdtime decoding rejects timestamps outside 0001-01-01 .. 9999-12-31), plus, for the
   full validator (d = true), the STRICT order that Batch.Validate demands *)
Definition dates_ok (d : bool) (start_ end_ : option ts) : Prop :=
  match start_, end_ with
  | Some sd, Some ed => ts_valid sd = true /\ ts_valid ed = true /\ (d = true -> timestamp_compare ed sd = Gt)
  | _, _ => True
  end.

Lemma h_create_batch_MV d e s issuer project_id iss metadata start_ end_ open otx s' r evs :
  MV d s -> len_le metadata max_metadata_length = true -> dates_ok d start_ end_ ->
  (match otx with Some o => vb_origin_tx o = true | None => True end) ->
  h_create_batch e s issuer project_id iss metadata start_ end_ open otx = LOk (s', r, evs) -> MV d s'.
Proof.
  intros Hmv Hmd Hd Ho. unfold h_create_batch. intros Hh.
  lstep Hh as kp Hkp. destruct kp as [pk pj]. lstep Hh as cl Hcl. lstep Hh as u Hu. cbv zeta in Hh.
  lstep Hh as sd Hsd. lstep Hh as ed Hed. subst start_ end_. lstep Hh as u2 Hu2. lstep Hh as ct Hct.
  lstep Hh as acc Hacc. destruct acc as [[s1 tsum] rsum]. lstep Hh as m Hm. lstep Hh as s2 H2.
  apply ret_inv in Hh. subst s'.
  apply project_by_id_Some in Hkp. destruct Hkp as [Hpj _].
  destruct (project_class_nz d s _ _ Hmv Hpj) as (Hpk & Hck & Hpid).
  destruct Hd as (Hvs & Hve & Hord).
  (* the state after the batch row and the sequence are written *)
  match type of Hacc with lfold _ _ (?s0, _, _) = _ => set (sb := s0) in * end.
  assert (Hsb : MV d sb).
  { subst sb. mv_updates Hmv.
    - apply fa_insert; [|assumption]. unfold vbd, valid_batch_except_dates. cbn.
      rewrite nz_succ, Hpk, (format_batch_denom_valid _ _ _ _ Hpid Hvs Hve), Hmd. cbn.
      destruct d; [|reflexivity]. unfold valid_batch_dates. cbn. rewrite (Hord eq_refl). reflexivity.
    - apply fa_insert; [|assumption]. unfold valid_batch_sequence. rewrite Hpk, nz_succ. reflexivity. }
  assert (Hs1 : MV d s1).
  { eapply meq_MV; [|exact Hsb].
    change sb with (sb, dzero, dzero).1.1. change s1 with (s1, tsum, rsum).1.1.
    eapply (lfold_rel (fun a c => meq a.1.1 c.1.1)); [intros; apply meq_refl | intros ? ? ? A B; eapply meq_trans; eassumption | | exact Hacc].
    intros; eapply create_batch_issue_meq; eassumption. }
  assert (Hs1' : MV d (s1 <| supplies := m |>)) by (eapply meq_MV; [|exact Hs1]; reflexivity).
  destruct otx as [o|]; [|inversion H2; subst; exact Hs1'].
  lstep H2 as s3 H3. apply (insert_origin_tx_MV d _ _ _ _ Hs1' Hck Ho) in H3.
  destruct (ot_contract o) as [|c0 cr] eqn:Ec; [inversion H2; subst; exact H3|].
  destruct (contract_taken _ _ _); [discriminate|]. lstep H2 as m2 Hm2. inversion H2; subst.
  apply orm_insert_ok in Hm2. destruct Hm2 as [-> _].
  mv_updates H3. apply fa_insert; [|assumption].
  unfold valid_batch_contract. cbn. rewrite nz_succ, Hck. cbn.
  unfold vb_origin_tx in Ho. bdestr Ho. rewrite Ec in Ho1. exact Ho1.
Qed.

(* ---- updates of existing rows ---- *)

Lemma vbd_same d k ba ba' :
  ba_issuer ba' = ba_issuer ba -> ba_project_key ba' = ba_project_key ba -> ba_denom ba' = ba_denom ba ->
  ba_start ba' = ba_start ba -> ba_end ba' = ba_end ba ->
  len_le (ba_metadata ba') max_metadata_length = true -> vbd d k ba = true -> vbd d k ba' = true.
Proof.
  intros E1 E2 E3 E4 E5 Hm Hv. unfold vbd, valid_batch_except_dates, valid_batch_dates in *.
  rewrite E1, E2, E3, E4, E5, Hm. bdestr Hv. rewrite Hv, Hv0, Hv2, Hv3, Hv4. reflexivity.
Qed.

Lemma vbd_metadata d k ba : vbd d k ba = true -> len_le (ba_metadata ba) max_metadata_length = true.
Proof. unfold vbd, valid_batch_except_dates. intros Hv. bdestr Hv. assumption. Qed.

Lemma h_seal_batch_MV d e s issuer denom s' r evs : MV d s -> h_seal_batch e s issuer denom = LOk (s', r, evs) -> MV d s'.
Proof.
  intros Hmv. unfold h_seal_batch. intros Hh. lstep Hh as kb Hkb. destruct kb as [bk ba]. lstep Hh as u Hu.
  apply batch_by_denom_Some in Hkb. destruct Hkb as [Hba _].
  destruct (negb (ba_open ba)); apply ret_inv in Hh; subst s'; [exact Hmv|].
  pose proof (mv_ba d s Hmv _ _ Hba) as Hv. unfold set_batch. mv_updates Hmv.
  apply fa_insert; [|assumption]. eapply vbd_same; [..|exact Hv]; try reflexivity. cbn. eapply vbd_metadata. exact Hv.
Qed.

Lemma h_update_batch_metadata_MV d e s issuer denom md s' r evs :
  MV d s -> len_le md max_metadata_length = true ->
  h_update_batch_metadata e s issuer denom md = LOk (s', r, evs) -> MV d s'.
Proof.
  intros Hmv Hmd. unfold h_update_batch_metadata. intros Hh. lstep Hh as kb Hkb. destruct kb as [bk ba].
  lstep Hh as u Hu. lstep Hh as u2 Hu2. apply ret_inv in Hh. subst s'.
  apply batch_by_denom_Some in Hkb. destruct Hkb as [Hba _].
  pose proof (mv_ba d s Hmv _ _ Hba) as Hv. unfold set_batch. mv_updates Hmv.
  apply fa_insert; [|assumption]. eapply vbd_same; [..|exact Hv]; try reflexivity. exact Hmd.
Qed.

Lemma valid_class_same k c c' : cl_id c' = cl_id c -> cl_ct c' = cl_ct c ->
  len_le (cl_metadata c') max_metadata_length = true -> valid_class k c = true -> valid_class k c' = true.
Proof.
  intros E1 E2 Hm Hv. unfold valid_class in *. rewrite E1, E2, Hm. bdestr Hv. rewrite Hv, Hv0, Hv3. reflexivity.
Qed.

Lemma valid_class_metadata k c : valid_class k c = true -> len_le (cl_metadata c) max_metadata_length = true.
Proof. unfold valid_class. intros Hv. bdestr Hv. assumption. Qed.

Lemma h_update_class_admin_MV d e s admin class_id new_admin s' r evs :
  MV d s -> h_update_class_admin e s admin class_id new_admin = LOk (s', r, evs) -> MV d s'.
Proof.
  intros Hmv. unfold h_update_class_admin. intros Hh. lstep Hh as kc Hkc. destruct kc as [k c]. lstep Hh as u Hu.
  apply ret_inv in Hh. subst s'. apply class_by_id_Some in Hkc. destruct Hkc as [Hc _].
  pose proof (mv_cl d s Hmv _ _ Hc) as Hv. unfold set_class. mv_updates Hmv.
  apply fa_insert; [|assumption]. eapply valid_class_same; [..|exact Hv]; try reflexivity. cbn. eapply valid_class_metadata. exact Hv.
Qed.

Lemma h_update_class_metadata_MV d e s admin class_id md s' r evs :
  MV d s -> len_le md max_metadata_length = true ->
  h_update_class_metadata e s admin class_id md = LOk (s', r, evs) -> MV d s'.
Proof.
  intros Hmv Hmd. unfold h_update_class_metadata. intros Hh. lstep Hh as kc Hkc. destruct kc as [k c]. lstep Hh as u Hu.
  apply ret_inv in Hh. subst s'. apply class_by_id_Some in Hkc. destruct Hkc as [Hc _].
  pose proof (mv_cl d s Hmv _ _ Hc) as Hv. unfold set_class. mv_updates Hmv.
  apply fa_insert; [|assumption]. eapply valid_class_same; [..|exact Hv]; try reflexivity. exact Hmd.
Qed.

Lemma fold_remove_issuers_spec k l : forall s,
  exists iss, fold_left (fun s a => s <| class_issuers := class_issuers s ∖ {[ (k, a) ]} |>) l s = s <| class_issuers := iss |>
              /\ forall x, x ∈ iss -> x ∈ class_issuers s.
Proof.
  induction l as [|a l IH]; intros s; cbn.
  - exists (class_issuers s). split; [destruct s; reflexivity|auto].
  - destruct (IH (s <| class_issuers := class_issuers s ∖ {[ (k, a) ]} |>)) as (iss & -> & Hiss).
    exists iss. split; [apply set_issuers_twice|]. intros x Hx. specialize (Hiss x Hx). cbn in Hiss.
    apply elem_of_difference in Hiss. tauto.
Qed.

Lemma h_update_class_issuers_MV d e s admin class_id add remove s' r evs :
  MV d s -> h_update_class_issuers e s admin class_id add remove = LOk (s', r, evs) -> MV d s'.
Proof.
  intros Hmv. unfold h_update_class_issuers. intros Hh. lstep Hh as kc Hkc. destruct kc as [k c]. lstep Hh as u Hu.
  cbv zeta in Hh. lstep Hh as s2 H2. apply ret_inv in Hh. subst s'.
  apply class_by_id_Some in Hkc. destruct Hkc as [Hc _].
  pose proof (mv_cl d s Hmv _ _ Hc) as Hv. unfold valid_class in Hv. bdestr Hv.
  destruct (fold_remove_issuers_spec k remove s) as (iss & Ef & Hiss). rewrite Ef in H2.
  apply insert_issuers_spec in H2. destruct H2 as (iss2 & -> & Hiss2). rewrite set_issuers_twice.
  apply MV_set_issuers with (k := k); [exact Hmv|exact Hv|].
  intros x Hx. destruct (Hiss2 x Hx) as [Hx'|Hx']; [left; apply Hiss; exact Hx'|right; exact Hx'].
Qed.

Lemma valid_project_same k p p' : pj_id p' = pj_id p -> pj_class_key p' = pj_class_key p ->
  pj_jurisdiction p' = pj_jurisdiction p -> len_le (pj_metadata p') max_metadata_length = true ->
  valid_project k p = true -> valid_project k p' = true.
Proof.
  intros E1 E2 E3 Hm Hv. unfold valid_project in *. rewrite E1, E2, E3, Hm. bdestr Hv. rewrite Hv, Hv1, Hv2, Hv4. reflexivity.
Qed.
Lemma valid_project_metadata k p : valid_project k p = true -> len_le (pj_metadata p) max_metadata_length = true.
Proof. unfold valid_project. intros Hv. bdestr Hv. assumption. Qed.

Lemma h_update_project_admin_MV d e s admin project_id new_admin s' r evs :
  MV d s -> h_update_project_admin e s admin project_id new_admin = LOk (s', r, evs) -> MV d s'.
Proof.
  intros Hmv. unfold h_update_project_admin. intros Hh. lstep Hh as kp Hkp. destruct kp as [k p]. lstep Hh as u Hu.
  apply ret_inv in Hh. subst s'. apply project_by_id_Some in Hkp. destruct Hkp as [Hp _].
  pose proof (mv_pj d s Hmv _ _ Hp) as Hv. unfold set_project. mv_updates Hmv.
  apply fa_insert; [|assumption]. eapply valid_project_same; [..|exact Hv]; try reflexivity. cbn. eapply valid_project_metadata. exact Hv.
Qed.

Lemma h_update_project_metadata_MV d e s admin project_id md s' r evs :
  MV d s -> len_le md max_metadata_length = true ->
  h_update_project_metadata e s admin project_id md = LOk (s', r, evs) -> MV d s'.
Proof.
  intros Hmv Hmd. unfold h_update_project_metadata. intros Hh. lstep Hh as kp Hkp. destruct kp as [k p]. lstep Hh as u Hu.
  apply ret_inv in Hh. subst s'. apply project_by_id_Some in Hkp. destruct Hkp as [Hp _].
  pose proof (mv_pj d s Hmv _ _ Hp) as Hv. unfold set_project. mv_updates Hmv.
  apply fa_insert; [|assumption]. eapply valid_project_same; [..|exact Hv]; try reflexivity. exact Hmd.
Qed.

(* ---- governance messages of the base module ---- *)

Lemma h_add_credit_type_MV d e s a abbrev name unit_ precision s' r evs :
  MV d s -> validate_credit_type_abbrev abbrev = true -> nonempty name = true ->
  len_le name max_credit_type_name_length = true -> nonempty unit_ = true -> (precision =? credit_type_precision) = true ->
  h_add_credit_type e s a abbrev name unit_ precision = LOk (s', r, evs) -> MV d s'.
Proof.
  intros Hmv H1 H2 H3 H4 H5. unfold h_add_credit_type. intros Hh. lstep Hh as u Hu. lstep Hh as u2 Hu2. lstep Hh as u3 Hu3.
  apply ret_inv in Hh. subst s'. mv_updates Hmv. apply fa_insert; [|assumption].
  unfold valid_credit_type. cbn [ct_name ct_unit ct_precision]. rewrite H1, H2, H3, H4, H5. reflexivity.
Qed.

Lemma valid_denom_nonempty x : valid_denom x = true -> nonempty x = true.
Proof. destruct x; [discriminate|reflexivity]. Qed.

(* (e) fees: the stored fee is the validated coin, or nothing when its amount is zero *)
Lemma normalise_fee_valid fee : (match fee with None => True | Some c => coin_valid c = true end) -> valid_fee (normalise_fee fee) = true.
Proof.
  destruct fee as [c|]; [|reflexivity]. intros Hc. unfold normalise_fee. destruct (0 <? c_amount c); [|reflexivity].
  unfold valid_fee. rewrite Hc. unfold coin_valid in Hc. apply andb_true_iff in Hc. destruct Hc as [Hd _].
  rewrite (valid_denom_nonempty _ Hd). reflexivity.
Qed.

Lemma h_update_class_fee_MV d e s a fee s' r evs :
  MV d s -> (match fee with None => True | Some c => coin_valid c = true end) ->
  h_update_class_fee e s a fee = LOk (s', r, evs) -> MV d s'.
Proof.
  intros Hmv Hf. unfold h_update_class_fee. intros Hh. lstep Hh as u Hu. apply ret_inv in Hh. subst s'.
  mv_updates Hmv. apply normalise_fee_valid. exact Hf.
Qed.

Lemma h_update_basket_fee_MV d e s a fee s' r evs :
  MV d s -> (match fee with None => True | Some c => coin_valid c = true end) ->
  h_update_basket_fee e s a fee = LOk (s', r, evs) -> MV d s'.
Proof.
  intros Hmv Hf. unfold h_update_basket_fee. intros Hh. lstep Hh as u Hu. apply ret_inv in Hh. subst s'.
  mv_updates Hmv. apply normalise_fee_valid. exact Hf.
Qed.

Lemma h_add_allowed_bridge_chain_MV d e s a chain s' r evs :
  MV d s -> nonempty chain = true -> h_add_allowed_bridge_chain e s a chain = LOk (s', r, evs) -> MV d s'.
Proof.
  intros Hmv Hc. unfold h_add_allowed_bridge_chain. intros Hh. lstep Hh as u Hu. cbv zeta in Hh. lstep Hh as u2 Hu2.
  apply ret_inv in Hh. subst s'. mv_updates Hmv. apply fs_union; [|assumption].
  unfold valid_allowed_bridge_chain. apply nonempty_to_lower. exact Hc.
Qed.

Lemma h_remove_allowed_bridge_chain_MV d e s a chain s' r evs :
  MV d s -> h_remove_allowed_bridge_chain e s a chain = LOk (s', r, evs) -> MV d s'.
Proof.
  intros Hmv. unfold h_remove_allowed_bridge_chain. intros Hh. lstep Hh as u Hu. apply ret_inv in Hh. subst s'.
  mv_updates Hmv. apply fs_diff. assumption.
Qed.

Lemma h_set_allowlist_meq e s a en s' r evs : h_set_allowlist e s a en = LOk (s', r, evs) -> meq s s'.
Proof. unfold h_set_allowlist. intros Hh. lstep Hh as u Hu. apply ret_inv in Hh. subst s'. reflexivity. Qed.
Lemma h_add_class_creator_meq e s a c s' r evs : h_add_class_creator e s a c = LOk (s', r, evs) -> meq s s'.
Proof. unfold h_add_class_creator. intros Hh. lstep Hh as u Hu. lstep Hh as u2 Hu2. apply ret_inv in Hh. subst s'. reflexivity. Qed.
Lemma h_remove_class_creator_meq e s a c s' r evs : h_remove_class_creator e s a c = LOk (s', r, evs) -> meq s s'.
Proof. unfold h_remove_class_creator. intros Hh. lstep Hh as u Hu. lstep Hh as u2 Hu2. apply ret_inv in Hh. subst s'. reflexivity. Qed.
