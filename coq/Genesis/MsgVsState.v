(* Property C09, proof file: "what message validation plus a successful handler lets into a row
   satisfies that row's genesis validator".

   Shape of the theorems.  [Inv_valid s := validate_rows s = true] (every row of every table that
   ValidateGenesis validates passes its state validator).  For a handler h:

       Inv_valid s -> validate_basic m = true -> handle e s m = LOk (s', r, evs) ->
       Inv_core s' -> small_state s' -> Inv_valid s'

   The two extra hypotheses are about the POST state and concern only the amount columns:
     - [Inv_core s'] is the credit-accounting invariant of Ledger/Inv.v (stored amounts are
       non-negative decimals with at most 6 places, every balance / supply / basket-balance / order
       row names an existing batch or basket); its preservation by every handler is property C01
       (Ledger/InvBase.v, InvBasket.v, ...), so it is available for every reachable state;
     - [small_state s'] bounds the coefficients by 10^100000, the side condition of
       DecIface.parse_to_string (apd refuses exponents beyond +-100000; no reachable amount comes
       near).
   Under them the amount columns of s' validate ([amounts_valid]) without looking at the handler at
   all.  Everything else (ids, denoms, metadata / jurisdiction / reference bounds, dates, fees,
   sell-order keys and prices, markets, baskets, sequences, origin txs, contracts, ...) is proved by
   walking through the handler: that part is [MV] ("meta valid") and its preservation.

   Known defect F4: Batch.Validate wants end date > start date, MsgCreateBatch / MsgBridgeReceive
   accept start = end.  So the statement above is FALSE for those two messages
   ([C09_batch_dates_refuted]); it is proved for them with the date clause removed
   ([..._partial], parameter d = false below) and in full (d = true) for every other message.

   The data module's analogue (defect F6, public resolver) is at the end of the file. *)
From stdpp Require Import gmap.
From RecordUpdate Require Import RecordSet.
From Coq Require Import ZArith NArith List Bool Lia Strings.Byte Strings.String.
Require Import Regen.Base.Bytes Regen.Base.Regex Regen.Base.Calendar Regen.Dec.Dec Regen.Dec.DecLemmas
               Regen.Dec.DecIface Regen.Ids.Ids Regen.Ids.IdsProps Regen.Generated.IdConsts.
Require Import Regen.Ledger.Types Regen.Ledger.Msgs Regen.Ledger.Orm Regen.Ledger.BaseMsgs
               Regen.Ledger.BasketMsgs Regen.Ledger.MarketMsgs Regen.Ledger.Step
               Regen.Ledger.Amount Regen.Ledger.MapSum Regen.Ledger.Inv Regen.Ledger.InvTactics
               Regen.Ledger.InvFrame.
Require Import Regen.Genesis.Validators.
Import ListNotations RecordSetNotations.
Local Open Scope Z_scope.

(* ------------------------------------------------------------------ *)
(* boolean folds over tables                                           *)
(* ------------------------------------------------------------------ *)

Lemma map_forallb_spec {K V} `{Countable K} (f : K -> V -> bool) (m : gmap K V) :
  map_forallb f m = true <-> (forall k v, m !! k = Some v -> f k v = true).
Proof.
  unfold map_forallb. rewrite forallb_forall. split.
  - intros Hf k v Hkv. apply (Hf (k, v)). apply elem_of_list_In, elem_of_map_to_list. exact Hkv.
  - intros Hf [k v] Hin. apply Hf. apply elem_of_map_to_list, elem_of_list_In. exact Hin.
Qed.

Lemma set_forallb_spec {K} `{Countable K} (f : K -> bool) (m : gset K) :
  set_forallb f m = true <-> (forall k, k ∈ m -> f k = true).
Proof.
  unfold set_forallb. rewrite forallb_forall. split.
  - intros Hf k Hk. apply Hf. apply elem_of_list_In, elem_of_elements. exact Hk.
  - intros Hf k Hin. apply Hf. apply elem_of_elements, elem_of_list_In. exact Hin.
Qed.

Ltac bsplit := repeat (apply andb_true_intro; split).
Ltac bdestr H := repeat (let H' := fresh H in apply andb_true_iff in H; destruct H as [H H']).

(* ------------------------------------------------------------------ *)
(* the statement                                                       *)
(* ------------------------------------------------------------------ *)

(* the batch validator with (d = true) or without (d = false) the date comparison *)
Definition vbd (d : bool) (k : N) (ba : batch) : bool :=
  valid_batch_except_dates k ba && (if d then valid_batch_dates ba else true).

Definition Inv_valid (s : state) : Prop := validate_rows s = true.
Definition Inv_valid_except_dates (s : state) : Prop := validate_rows_except_dates s = true.
Definition Inv_valid_d (d : bool) (s : state) : Prop := validate_rows_with (vbd d) s = true.

Lemma Inv_valid_d_true s : Inv_valid_d true s <-> Inv_valid s.
Proof. reflexivity. Qed.

Lemma forallb_ext' {A} (f g : A -> bool) l : (forall x, f x = g x) -> forallb f l = forallb g l.
Proof. intros E. induction l as [|a l IH]; [reflexivity|]. cbn. rewrite E, IH. reflexivity. Qed.

Lemma validate_rows_with_ext f g s :
  (forall k ba, f k ba = g k ba) -> validate_rows_with f s = validate_rows_with g s.
Proof.
  intros E. unfold validate_rows_with.
  replace (map_forallb f (batches s)) with (map_forallb g (batches s)); [reflexivity|].
  unfold map_forallb. apply forallb_ext'. intros [k ba]. symmetry. apply E.
Qed.

Lemma Inv_valid_d_false s : Inv_valid_d false s <-> Inv_valid_except_dates s.
Proof.
  unfold Inv_valid_d, Inv_valid_except_dates, validate_rows_except_dates.
  rewrite (validate_rows_with_ext (vbd false) valid_batch_except_dates); [reflexivity|].
  intros k ba. unfold vbd. apply andb_true_r.
Qed.

(* the full validator implies the one without dates *)
Lemma Inv_valid_weaken s : Inv_valid s -> Inv_valid_except_dates s.
Proof.
  unfold Inv_valid, Inv_valid_except_dates, validate_rows, validate_rows_except_dates, validate_rows_with.
  intros Hv. bdestr Hv. bsplit; try assumption.
  apply map_forallb_spec. intros k ba Hk.
  match goal with Hb : map_forallb valid_batch _ = true |- _ => rewrite map_forallb_spec in Hb; specialize (Hb k ba Hk) end.
  unfold valid_batch in *. match goal with Hb : _ && _ = true |- _ => apply andb_true_iff in Hb; tauto end.
Qed.

(* coefficient bound: the side condition of DecIface.parse_to_string *)
Definition small_dec (x : dec) : Prop := dcoef x < 10 ^ 100000.
Definition small_state (s : state) : Prop :=
  (forall k v, balances s !! k = Some v -> small_dec (bl_tradable v) /\ small_dec (bl_retired v) /\ small_dec (bl_escrowed v)) /\
  (forall k v, supplies s !! k = Some v -> small_dec (su_tradable v) /\ small_dec (su_retired v) /\ small_dec (su_cancelled v)) /\
  (forall k v, basket_balances s !! k = Some v -> small_dec (bb_balance v)) /\
  (forall k o, sell_orders s !! k = Some o -> so_ask_amount o < 10 ^ 100000).

(* ------------------------------------------------------------------ *)
(* (d) amounts: a stored amount prints to a string the validator parses *)
(* ------------------------------------------------------------------ *)

Lemma in_ok_not_negative x : in_ok x -> is_negative x = false.
Proof.
  intros (Hc & Hn & _). unfold is_negative, is_zero. destruct (dneg x) eqn:E; [|reflexivity].
  rewrite (Hn eq_refl). reflexivity.
Qed.

Theorem stored_amount_valid x : stored_ok x -> small_dec x -> nn_amount_ok x = true.
Proof.
  intros (Hc & Hn & He1 & He2) Hs. unfold nn_amount_ok, nn_string_ok, non_negative_dec_from_string.
  rewrite (parse_to_string x); [| exact Hc | unfold P in He1; clear - He1 He2; lia | exact Hs].
  rewrite in_ok_not_negative; [reflexivity|]. split; [exact Hc|]. split; [exact Hn|exact He1].
Qed.

(* ask amounts: an sdk.Int >= 0 renders as its digits *)
Theorem ask_amount_valid z : 0 <= z -> z < 10 ^ 100000 ->
  nonempty (ask_string z) = true /\ nn_string_ok (ask_string z) = true.
Proof.
  intros H0 Hs. unfold ask_string, dec_of_int.
  assert (E1 : (z <? 0) = false) by (apply Z.ltb_ge; exact H0). rewrite E1, Z.abs_eq by exact H0.
  split.
  - unfold to_string. cbn [dneg dcoef dexp]. destruct (Z_to_dec_spec z H0) as (Hne & _ & _).
    destruct (Z_to_dec z); [congruence|reflexivity].
  - unfold nn_string_ok, non_negative_dec_from_string.
    rewrite (parse_to_string (mkDec false z 0)); [reflexivity | exact H0 | cbn; clear; lia | exact Hs].
Qed.

(* sell-order quantities: a string that parses to a positive in-range decimal *)
Lemma order_quantity_valid o : order_ok o ->
  nonempty (so_quantity o) = true /\ nn_string_ok (so_quantity o) = true.
Proof.
  intros (x & Hp & Hok & Hpos). split.
  - destruct (so_quantity o) eqn:E; [|reflexivity].
    assert (Hx : x = mkDec false 0 0) by (vm_compute in Hp; congruence). subst x. cbn in Hpos. lia.
  - unfold nn_string_ok, non_negative_dec_from_string. rewrite Hp, (in_ok_not_negative x Hok). reflexivity.
Qed.

(* a string accepted by NewPositiveDecFromString is accepted by NewNonNegativeDecFromString *)
Lemma positive_string_nn str : is_ok (positive_dec_from_string str) = true -> nn_string_ok str = true.
Proof.
  unfold nn_string_ok, positive_dec_from_string, non_negative_dec_from_string.
  destruct (parse str) as [x|]; [|discriminate].
  unfold is_positive, is_negative. destruct (dneg x); cbn; [discriminate|reflexivity].
Qed.
