(* C09, export never fails on the basket date criteria (finding F16).

   The state is exported as protobuf JSON.  The encoder rejects a google.protobuf.Timestamp outside
   0001-01-01T00:00:00Z .. 9999-12-31T23:59:59.999999999Z or with nanos outside [0, 1e9), and a
   google.protobuf.Duration beyond +-10000 years, with nanos outside (-1e9, 1e9) or with nanos of the sign
   opposite to the seconds.  Basket date criteria are the only stored timestamps / durations that come from a
   message as raw protobuf values (every other date of a message is a stdtime field, range-checked when the
   transaction is decoded).  [json_criteria_ok] is the encoder's acceptance condition; it holds for every
   basket of a state that passes the row validators, hence (the C09_reachable theorems) for every reachable state. *)
From stdpp Require Import gmap.
From Coq Require Import ZArith NArith List Bool Lia.
Require Import Regen.Base.Calendar Regen.Ledger.Types Regen.Genesis.Validators Regen.Genesis.MsgVsState.
Local Open Scope Z_scope.

(* protojson: Timestamp *)
Definition json_timestamp_ok (t : ts) : Prop :=
  -62135596800 <= secs t <= 253402300799 /\ 0 <= nanos t < 1000000000.

(* protojson: Duration *)
Definition json_duration_ok (ds dn : Z) : Prop :=
  -315576000000 <= ds <= 315576000000 /\ -1000000000 < dn < 1000000000 /\
  ~ (0 < ds /\ dn < 0) /\ ~ (ds < 0 /\ 0 < dn).

Definition json_criteria_ok (d : date_criteria) : Prop :=
  match d with
  | DCNone => True
  | DCMinStart t => json_timestamp_ok t
  | DCWindow ds dn => json_duration_ok ds dn
  | DCYears _ => True
  end.

Lemma valid_date_criteria_json d : valid_date_criteria d = true -> json_criteria_ok d.
Proof.
  destruct d as [|t|ds dn|n]; cbn [valid_date_criteria json_criteria_ok]; try exact (fun _ => I); intros H;
    apply andb_true_iff in H; destruct H as [H1 H2];
    apply negb_true_iff in H1; apply Z.ltb_ge in H1;
    apply negb_true_iff in H2; apply orb_false_iff in H2; destruct H2 as [H2 H4];
    apply orb_false_iff in H2; destruct H2 as [H2 H3];
    apply Z.ltb_ge in H2; apply Z.ltb_ge in H3; apply Z.leb_gt in H4.
  - unfold json_timestamp_ok. lia.
  - unfold json_duration_ok. lia.
Qed.

(* every basket of a state whose rows validate has exportable criteria *)
Theorem valid_rows_criteria_exportable f s :
  validate_rows_with f s = true -> forall id k, baskets s !! id = Some k -> json_criteria_ok (bk_criteria k).
Proof.
  unfold validate_rows_with. intros H id k Hk.
  repeat (apply andb_true_iff in H; destruct H as [H ?]).
  match goal with Hb : map_forallb valid_basket (baskets s) = true |- _ =>
    pose proof (proj1 (map_forallb_spec _ _) Hb _ _ Hk) as Hv end.
  unfold valid_basket in Hv. repeat (apply andb_true_iff in Hv; destruct Hv as [Hv ?]).
  apply valid_date_criteria_json. assumption.
Qed.

Corollary Inv_valid_criteria_exportable s : Inv_valid s ->
  forall id k, baskets s !! id = Some k -> json_criteria_ok (bk_criteria k).
Proof. intros H. exact (valid_rows_criteria_exportable valid_batch s H). Qed.

Corollary Inv_valid_except_dates_criteria_exportable s : Inv_valid_except_dates s ->
  forall id k, baskets s !! id = Some k -> json_criteria_ok (bk_criteria k).
Proof. intros H. exact (valid_rows_criteria_exportable valid_batch_except_dates s H). Qed.

(* the condition is not vacuous and it is exactly what separates the values of finding F16 *)
Example json_criteria_boundaries :
  json_criteria_ok (DCMinStart {| secs := 253402300799; nanos := 999999999 |}) /\
  ~ json_criteria_ok (DCMinStart {| secs := 253402300800; nanos := 0 |}) /\
  ~ json_criteria_ok (DCMinStart {| secs := 1500000000; nanos := -1 |}) /\
  json_criteria_ok (DCWindow 315576000000 999999999) /\
  ~ json_criteria_ok (DCWindow 86400 (-1)) /\
  ~ json_criteria_ok (DCWindow 315576000001 0).
Proof. cbn [json_criteria_ok]. unfold json_timestamp_ok, json_duration_ok. cbn [secs nanos]. repeat split; lia. Qed.
