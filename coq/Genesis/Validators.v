(* Genesis validation of the ecocredit module (property C09), executable model.

   Transcription, check by check, of
     - the per-row state validators  x/ecocredit/{base,basket,marketplace}/types/v1/state_*.go
       (`func (m *T) Validate() error`), one boolean function per table, over the row types of
       Ledger/Types.v;
     - x/ecocredit/genesis/genesis.go  ValidateGenesis: ORM ImportJSON, ValidateJSON (which calls
       validateMsg = the row validator of each table THAT validateMsg DISPATCHES ON), then the
       cross-table checks (class -> credit type, batch -> project -> class, precision of every
       amount, calculated supply = stored supply).

   Conventions of the transcription
     * A Go validator returns the first error; the model returns the conjunction of all checks.
       The verdict (nil / non-nil) is the same.
     * Addresses.  `sdk.AccAddressFromBech32(sdk.AccAddress(bz).String())` fails exactly when bz is
       empty or longer than 255 bytes.  The model's addresses are indices into the account table of
       the harness (20-byte addresses), so the check is [valid_addr _ = true]; rows with an empty
       address are outside the model (the converter skips such states and counts them).
     * Keys.  `m.Key == 0` / `m.Id == 0` checks look at the primary-key column; in the model that is
       the key of the finite map.
     * nil message fields (`StartDate == nil`, `Fee.Amount.IsNil()`) are not representable: the
       model's rows carry the value itself.  Noted at each validator.
     * Amounts.  The implementation stores `d.String()`; the model stores the decimal in the normal
       form print-then-parse produces (Ledger/Types.v).  A Go check `NewNonNegativeDecFromString(col)`
       becomes that parse applied to [to_string] of the stored decimal.  A sell order's quantity is
       stored as the raw string and is parsed as is; its ask amount is an sdk.Int rendered in
       decimal.

   Model file: definitions only.  std++ is needed because the state is made of gmaps. *)
From stdpp Require Import gmap.
From Coq Require Import ZArith NArith List Bool Strings.Byte Strings.String.
Require Import Regen.Base.Bytes Regen.Base.Regex Regen.Base.Calendar Regen.Dec.Dec Regen.Ids.Ids
               Regen.Generated.IdConsts.
Require Import Regen.Ledger.Types Regen.Ledger.Msgs Regen.Ledger.Orm Regen.Ledger.BaseMsgs
               Regen.Ledger.BasketMsgs Regen.Ledger.MarketMsgs Regen.Ledger.Step.
Import ListNotations.
Local Open Scope Z_scope.

(* ------------------------------------------------------------------ *)
(* helpers                                                             *)
(* ------------------------------------------------------------------ *)

Definition map_forallb {K V} `{Countable K} (f : K -> V -> bool) (m : gmap K V) : bool :=
  forallb (fun kv => f kv.1 kv.2) (map_to_list m).
Definition set_forallb {K} `{Countable K} (f : K -> bool) (m : gset K) : bool :=
  forallb f (elements m).

Definition nz (k : N) : bool := negb (k =? 0)%N.

(* see the header: every representable address passes AccAddressFromBech32 *)
Definition valid_addr (a : addr) : bool := true.

(* math.NewNonNegativeDecFromString(str) succeeds *)
Definition nn_string_ok (str : bytes) : bool := is_ok (non_negative_dec_from_string str).
(* ... applied to the string the implementation stores for the decimal d *)
Definition nn_amount_ok (d : dec) : bool := nn_string_ok (to_string d).

(* sdk.Int.String() of the ask amount (also math.NewDecFromInt64-style rendering): "-"? digits *)
Definition ask_string (z : Z) : bytes := to_string (dec_of_int z).

(* gogoproto types.Timestamp.Compare: seconds first, then nanos *)
Definition timestamp_compare (a c : ts) : comparison :=
  match Z.compare (secs a) (secs c) with
  | Eq => Z.compare (nanos a) (nanos c)
  | r => r
  end.

(* ------------------------------------------------------------------ *)
(* regen.ecocredit.v1                                                  *)
(* ------------------------------------------------------------------ *)

(* state_credit_type.go.  Key column: abbreviation. *)
Definition valid_credit_type (abbrev : bytes) (ct : credit_type) : bool :=
  validate_credit_type_abbrev abbrev &&
  nonempty (ct_name ct) &&                                   (* len(m.Name) == 0 *)
  len_le (ct_name ct) max_credit_type_name_length &&         (* len(m.Name) > maxCreditTypeNameLength *)
  nonempty (ct_unit ct) &&                                   (* len(m.Unit) == 0 *)
  (ct_precision ct =? credit_type_precision).                (* m.Precision != PRECISION *)

(* state_class.go *)
Definition valid_class (key : N) (c : class) : bool :=
  nz key &&                                                  (* m.Key == 0 *)
  validate_class_id (cl_id c) &&
  valid_addr (cl_admin c) &&
  len_le (cl_metadata c) max_metadata_length &&
  validate_credit_type_abbrev (cl_ct c).

(* state_class_issuer.go *)
Definition valid_class_issuer (k : N * addr) : bool := nz k.1 && valid_addr k.2.

(* state_project.go.  The reference id is NOT validated (MsgCreateProject bounds it by 32). *)
Definition valid_project (key : N) (p : project) : bool :=
  nz key &&
  validate_project_id (pj_id p) &&
  valid_addr (pj_admin p) &&
  nz (pj_class_key p) &&
  validate_jurisdiction (pj_jurisdiction p) &&
  len_le (pj_metadata p) max_metadata_length.

(* state_batch.go, every clause but the date comparison.
   Not representable: StartDate / EndDate / IssuanceDate == nil (the model's batch always has dates). *)
Definition valid_batch_except_dates (key : N) (ba : batch) : bool :=
  nz key &&
  valid_addr (ba_issuer ba) &&
  nz (ba_project_key ba) &&
  validate_batch_denom (ba_denom ba) &&
  len_le (ba_metadata ba) max_metadata_length.

(* `if m.EndDate.Compare( *m.StartDate ) != 1 { error }`: the end date must be STRICTLY after the start
   date, although the error text says "the same as or after" and MsgCreateBatch / MsgBridgeReceive
   accept equal dates (defect F4). *)
Definition valid_batch_dates (ba : batch) : bool :=
  match timestamp_compare (ba_end ba) (ba_start ba) with Gt => true | _ => false end.

Definition valid_batch (key : N) (ba : batch) : bool :=
  valid_batch_except_dates key ba && valid_batch_dates ba.

(* state_class_sequence.go, state_project_sequence.go, state_batch_sequence.go *)
Definition valid_class_sequence (ct : bytes) (next : N) : bool :=
  validate_credit_type_abbrev ct && nz next.
Definition valid_project_sequence (class_key : N) (next : N) : bool := nz class_key && nz next.
Definition valid_batch_sequence (project_key : N) (next : N) : bool := nz project_key && nz next.

(* state_batch_balance.go *)
Definition valid_batch_balance (k : addr * N) (bl : balance) : bool :=
  nz k.2 &&                                                  (* m.BatchKey == 0 *)
  valid_addr k.1 &&
  nn_amount_ok (bl_tradable bl) && nn_amount_ok (bl_retired bl) && nn_amount_ok (bl_escrowed bl).

(* state_batch_supply.go *)
Definition valid_batch_supply (bk : N) (su : supply) : bool :=
  nz bk &&
  nn_amount_ok (su_tradable su) && nn_amount_ok (su_retired su) && nn_amount_ok (su_cancelled su).

(* state_origin_tx_index.go: m.Id == "", !reOriginTxID.MatchString, m.Source == "", !reOriginTxSource *)
Definition valid_origin_tx_index (k : N * bytes * bytes) : bool :=
  let '(class_key, id, source) := k in
  nz class_key &&
  nonempty id && rmatch re_origin_tx_id id &&
  nonempty source && rmatch re_origin_tx_source source.

(* state_batch_contract.go *)
Definition valid_batch_contract (bk : N) (c : batch_contract) : bool :=
  nz bk && nz (bc_class_key c) && is_valid_eth_address (bc_contract c).

(* state_class_creator_allowlist.go: `return nil` *)
Definition valid_class_creator_allowlist (enabled : bool) : bool := true.
(* state_allowed_class_creator.go: address only *)
Definition valid_allowed_class_creator (a : addr) : bool := valid_addr a.

(* state_class_fee.go / state_basket_fee.go: when the fee is set, Denom != "" and Coin.Validate
   (ValidateDenom, amount not negative).  A ZERO amount passes (defect F8 is about what happens later).
   Not representable: Fee.Amount.IsNil(). *)
Definition valid_fee (fee : option coin) : bool :=
  match fee with
  | None => true
  | Some c => nonempty (c_denom c) && coin_valid c
  end.
Definition valid_class_fee : option coin -> bool := valid_fee.

(* state_allowed_bridge_chain.go *)
Definition valid_allowed_bridge_chain (name : bytes) : bool := nonempty name.

(* ------------------------------------------------------------------ *)
(* regen.ecocredit.basket.v1                                           *)
(* ------------------------------------------------------------------ *)

(* types_date_criteria.go DateCriteria.Validate.  "Only one of the three set" cannot be violated by
   the model's sum type. *)
Definition valid_date_criteria (d : date_criteria) : bool :=
  match d with
  | DCNone => true
  | DCMinStart t => negb (secs t <? -2208992400) &&          (* minStartDate.Seconds < -2208992400 *)
                    negb ((253402300799 <? secs t) || (nanos t <? 0) || (1000000000 <=? nanos t))
  | DCWindow ds dn => negb (ds <? 24 * 3600) &&              (* startDateWindow.Seconds < 24*3600 *)
                      negb ((315576000000 <? ds) || (dn <? 0) || (1000000000 <=? dn))
  | DCYears _ => true
  end.

(* state_basket.go.  The exponent column is not validated. *)
Definition valid_basket (id : N) (k : basket) : bool :=
  nz id &&
  validate_basket_denom (bk_denom k) &&
  validate_basket_name (bk_name k) &&
  validate_credit_type_abbrev (bk_ct k) &&
  valid_date_criteria (bk_criteria k) &&
  valid_addr (bk_curator k).

(* state_basket_class.go *)
Definition valid_basket_class (k : N * bytes) : bool := nz k.1 && validate_class_id k.2.

(* state_basket_balance.go.  Not representable: BatchStartDate == nil.  (The former rejection of the
   Unix epoch as start date, defect F5, has been fixed in /repo; nothing else is checked on it.) *)
Definition valid_basket_balance (k : N * bytes) (bb : basket_balance) : bool :=
  nz k.1 && validate_batch_denom k.2 && nn_amount_ok (bb_balance bb).

Definition valid_basket_fee : option coin -> bool := valid_fee.

(* ------------------------------------------------------------------ *)
(* regen.ecocredit.marketplace.v1                                      *)
(* ------------------------------------------------------------------ *)

(* state_sell_order.go: quantity and ask amount only have to be NON-NEGATIVE decimals; the
   expiration is not validated. *)
Definition valid_sell_order (id : N) (o : sell_order) : bool :=
  nz id &&
  valid_addr (so_seller o) &&
  nz (so_batch_key o) &&
  nonempty (so_quantity o) && nn_string_ok (so_quantity o) &&
  nz (so_market_id o) &&
  nonempty (ask_string (so_ask_amount o)) && nn_string_ok (ask_string (so_ask_amount o)).

(* state_allowed_denom.go.  Exponent: uint32 in Go, the model keeps a Z and converts like
   MsgAddAllowedDenom's ValidateBasic does. *)
Definition valid_allowed_denom (bank_denom : bytes) (v : bytes * Z) : bool :=
  nonempty bank_denom && valid_denom bank_denom &&
  nonempty v.1 && valid_denom v.1 &&
  (match exponent_to_prefix (Z.to_N v.2) with Some _ => true | None => false end).

(* state_market.go *)
Definition valid_market (id : N) (m : market) : bool :=
  nz id &&
  validate_credit_type_abbrev (mk_ct m) &&
  nonempty (mk_denom m) && valid_denom (mk_denom m) &&
  (mk_precision_modifier m =? 0).

(* state_fee_params.go: both fees non-negative decimals, seller fee <= 1.
   NOTE: genesis.go validateMsg has no case for FeeParams, so ValidateGenesis never calls this
   validator; it is therefore NOT part of [validate_rows].  It is exercised separately
   ([fee_params_ok], MsgVsState.gov_set_fee_params_valid). *)
Definition valid_fee_params (fp : fee_params) : bool :=
  is_ok (non_negative_dec_from_string (fp_buyer fp)) &&
  (match non_negative_dec_from_string (fp_seller fp) with
   | Ok d => negb (match cmp d (mkDec false 1 0) with Gt => true | _ => false end)
   | Err _ => false
   end).
Definition fee_params_ok (s : state) : bool :=
  match fee_params_ s with None => true | Some fp => valid_fee_params fp end.

(* ------------------------------------------------------------------ *)
(* ValidateJSON: every row of every table validateMsg knows             *)
(* ------------------------------------------------------------------ *)

Definition validate_rows_with (vbatch : N -> batch -> bool) (s : state) : bool :=
  map_forallb valid_credit_type (credit_types s) &&
  map_forallb valid_class (classes s) &&
  set_forallb valid_class_issuer (class_issuers s) &&
  map_forallb valid_project (projects s) &&
  map_forallb vbatch (batches s) &&
  map_forallb valid_class_sequence (class_sequences s) &&
  map_forallb valid_project_sequence (project_sequences s) &&
  map_forallb valid_batch_sequence (batch_sequences s) &&
  map_forallb valid_batch_balance (balances s) &&
  map_forallb valid_batch_supply (supplies s) &&
  set_forallb valid_origin_tx_index (origin_txs s) &&
  map_forallb valid_batch_contract (batch_contracts s) &&
  valid_class_creator_allowlist (allowlist_enabled s) &&
  set_forallb valid_allowed_class_creator (allowed_creators s) &&
  valid_class_fee (class_fee s) &&
  set_forallb valid_allowed_bridge_chain (allowed_bridge_chains s) &&
  map_forallb valid_basket (baskets s) &&
  set_forallb valid_basket_class (basket_classes s) &&
  map_forallb valid_basket_balance (basket_balances s) &&
  valid_basket_fee (basket_fee s) &&
  map_forallb valid_sell_order (sell_orders s) &&
  map_forallb valid_allowed_denom (allowed_denoms s) &&
  map_forallb valid_market (markets s).

Definition validate_rows : state -> bool := validate_rows_with valid_batch.
(* the same with the batch date comparison left out (used by the `_partial` theorems) *)
Definition validate_rows_except_dates : state -> bool := validate_rows_with valid_batch_except_dates.

(* ------------------------------------------------------------------ *)
(* ImportJSON: what the ORM itself refuses                             *)
(* ------------------------------------------------------------------ *)

(* auto-increment tables: `invalid ID %d, expected a value <= %d, the highest sequence number`.
   Primary keys are unique by construction of the maps.  NOT transcribed: the unique secondary
   indexes (class id, project id, (class key, reference id), batch denom, basket denom, basket name,
   credit type name, allowed denom display denom, ...): a state that violates one cannot be built
   by the chain, only by editing a genesis file. *)
Definition keys_le {V} (m : gmap N V) (seq : N) : bool := map_forallb (fun k _ => (k <=? seq)%N) m.
Definition import_ok (s : state) : bool :=
  keys_le (classes s) (class_seq_id s) && keys_le (projects s) (project_seq_id s) &&
  keys_le (batches s) (batch_seq_id s) && keys_le (baskets s) (basket_seq_id s) &&
  keys_le (sell_orders s) (sell_order_seq_id s) && keys_le (markets s) (market_seq_id s).

(* ------------------------------------------------------------------ *)
(* the cross-table checks of ValidateGenesis                           *)
(* ------------------------------------------------------------------ *)

(* "make sure credit type exist for class abbreviation in params" *)
Definition classes_have_credit_type (s : state) : bool :=
  map_forallb (fun _ c => match credit_types s !! cl_ct c with Some _ => true | None => false end) (classes s).

(* batchIDToPrecision: for every batch, `ss.ClassTable().Get(projectKeyToClassKey[batch.ProjectKey])`
   must succeed (a missing project gives class key 0, which no class has); the precision is the one
   of the class's credit type (0 from the Go map when the type is missing, but then
   [classes_have_credit_type] has already failed). *)
Definition batch_precision (s : state) (ba : batch) : option Z :=
  let class_key := match projects s !! ba_project_key ba with Some p => pj_class_key p | None => 0%N end in
  match classes s !! class_key with
  | None => None
  | Some c => Some (match credit_types s !! cl_ct c with Some ct => ct_precision ct | None => 0 end)
  end.

Definition precision_map (s : state) : option (gmap N Z) :=
  fold_right (fun kv acc =>
                match acc, batch_precision s kv.2 with
                | Some m, Some p => Some (<[kv.1 := p]> m)
                | _, _ => None
                end) (Some ∅) (map_to_list (batches s)).

Definition ok_opt {A} (r : res A) : option A := match r with Ok a => Some a | Err _ => None end.

(* batchIDToSupply: tradable + retired of every BatchSupply row (the cancelled column is NOT read);
   a supply row of an unknown batch is parsed with precision 0 (Go map default) *)
Definition stored_supply_map (prec : gmap N Z) (s : state) : option (gmap N dec) :=
  fold_right (fun kv acc =>
                match acc with
                | None => None
                | Some m =>
                    let p := default 0 (prec !! kv.1) in
                    match ok_opt (non_negative_fixed_dec_from_string (to_string (su_tradable kv.2)) p),
                          ok_opt (non_negative_fixed_dec_from_string (to_string (su_retired kv.2)) p) with
                    | Some t, Some r =>
                        match ok_opt (safe_add_balance t r) with
                        | Some total => Some (<[kv.1 := total]> m)
                        | None => None
                        end
                    | _, _ => None
                    end
                end) (Some ∅) (map_to_list (supplies s)).

(* calculateSupply: tradable + retired + escrowed of every BatchBalance row, per batch; the batch
   must have a precision ("credit type not exist for %d batch") *)
Definition add_calc (bk : N) (amount : dec) (m : gmap N dec) : option (gmap N dec) :=
  match m !! bk with
  | Some cur => match ok_opt (safe_add_balance cur amount) with Some r => Some (<[bk := r]> m) | None => None end
  | None => Some (<[bk := amount]> m)
  end.

Definition calc_from_balances (prec : gmap N Z) (s : state) : option (gmap N dec) :=
  fold_right (fun kv acc =>
                match acc with
                | None => None
                | Some m =>
                    match prec !! (kv.1).2 with
                    | None => None
                    | Some p =>
                        match ok_opt (non_negative_fixed_dec_from_string (to_string (bl_tradable kv.2)) p),
                              ok_opt (non_negative_fixed_dec_from_string (to_string (bl_retired kv.2)) p),
                              ok_opt (non_negative_fixed_dec_from_string (to_string (bl_escrowed kv.2)) p) with
                        | Some t, Some r, Some e =>
                            match ok_opt (add t r) with
                            | Some tr => match ok_opt (add tr e) with
                                         | Some total => add_calc (kv.1).2 total m
                                         | None => None
                                         end
                            | None => None
                            end
                        | _, _, _ => None
                        end
                    end
                end) (Some ∅) (map_to_list (balances s)).

(* the basket balance loop: the batch denom must be known (batchDenomToIDMap), the balance is parsed
   WITHOUT a precision bound, and the batch must already have a calculated supply, i.e. at least one
   BatchBalance row ("unknown credit batch %d in basket") *)
Definition calc_add_baskets (s : state) (calc : gmap N dec) : option (gmap N dec) :=
  fold_right (fun kv acc =>
                match acc with
                | None => None
                | Some m =>
                    match batch_by_denom s (kv.1).2 with
                    | None => None
                    | Some (bk, _) =>
                        match ok_opt (non_negative_dec_from_string (to_string (bb_balance kv.2))), m !! bk with
                        | Some bb, Some cur =>
                            match ok_opt (safe_add_balance cur bb) with
                            | Some r => Some (<[bk := r]> m)
                            | None => None
                            end
                        | _, _ => None
                        end
                    end
                end) (Some calc) (map_to_list (basket_balances s)).

(* validateSupply *)
Definition validate_supply (calc stored : gmap N dec) : bool :=
  negb ((size calc =? 0)%nat && negb (size stored =? 0)%nat) &&   (* "batch supply was given but no balances were found" *)
  negb ((size stored =? 0)%nat && negb (size calc =? 0)%nat) &&   (* "batch balances were given but no supplies were found" *)
  map_forallb (fun bk cs => match stored !! bk with
                            | Some sv => match cmp sv cs with Eq => true | _ => false end
                            | None => false                        (* "supply is not found for %d credit batch" *)
                            end) calc.

Definition validate_cross (s : state) : bool :=
  classes_have_credit_type s &&
  match precision_map s with
  | None => false
  | Some prec =>
      match stored_supply_map prec s, calc_from_balances prec s with
      | Some stored, Some calc0 =>
          match calc_add_baskets s calc0 with
          | Some calc => validate_supply calc stored
          | None => false
          end
      | _, _ => false
      end
  end.

(* ------------------------------------------------------------------ *)
(* genesis.ValidateGenesis                                             *)
(* ------------------------------------------------------------------ *)

Definition validate_genesis (s : state) : bool := import_ok s && validate_rows s && validate_cross s.

(* FeeParams.Validate is applied at genesis like every other state validator since the validateMsg case
   was added (fix for the unvalidated fee params); kept as a separate conjunct so that the row theorems
   and the fee-params theorem (MsgVsState.gov_set_fee_params_valid) stay independent *)
Definition validate_genesis_full (s : state) : bool := validate_genesis s && fee_params_ok s.
