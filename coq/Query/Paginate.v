(* Model of ORM list pagination as used by every paginated regen query (property C17, pure part).
   Model file: executable definitions only.

   Transcribed from
     /repo/types/ormutil/compatability.go   PageReqToCosmosAPILegacy, PageReqToOrmPaginate, PageResToCosmosTypes
     ORM model/ormlist/options.go           Paginate (copies key/offset/limit/count_total, flips Reverse)
     ORM internal/listinternal/options.go   Options.Validate ("can only specify one of cursor or offset")
     ORM model/ormtable/iterator.go         prefixIterator/rangeIterator (cursor handling), applyCommonIteratorOptions
     ORM model/ormtable/paginate.go         paginate, paginationIterator.Next
   over [l], the rows of the index that pass the query's filter, in index-key order (the ORM applies
   its Filter option below pagination).

   A cursor (PageRequest.key / PageResponse.next_key) is the index key of a row; the model abstracts
   it as the POSITION of that row in [l].  Iteration resumes strictly after it: forward
   [start = cursor ++ 0x00], i.e. positions > p; reverse [end = cursor] (exclusive), i.e. positions < p
   in descending order. *)
From Coq Require Import List NArith Bool Arith.
Require Import Regen.Generated.QueryConsts.
Import ListNotations.

Record page_req := MkPageReq {
  pr_key : option nat;        (* cursor: position in [l] of the last row already returned; None = empty key *)
  pr_offset : N;
  pr_limit : N;
  pr_count_total : bool;
  pr_reverse : bool
}.

(* ormutil.PageReqToCosmosAPILegacy: nil request -> default limit, everything else copied *)
Definition page_req_of_request (r : option page_req) : page_req :=
  match r with
  | None => MkPageReq None 0 query_default_limit false false
  | Some q => q
  end.

Record page_res (A : Type) := MkPageRes {
  pg_items : list A;          (* the rows the query handler's [for it.Next()] loop sees *)
  pg_next : option nat;       (* PageResponse.NextKey (None = empty), as a position in [l] *)
  pg_total : N;               (* PageResponse.Total (a uint64: 0 when not computed) *)
  pg_present : bool           (* false: it.PageResponse() is nil (no pagination wrapper was installed) *)
}.
Arguments MkPageRes {A}.
Arguments pg_items {A}.
Arguments pg_next {A}.
Arguments pg_total {A}.
Arguments pg_present {A}.

Inductive pres (A : Type) : Type :=
| POk (r : page_res A)
| PErrCursorAndOffset          (* Options.Validate: "can only specify one of cursor or offset" *)
| PSkipPastEnd (total : N).    (* offset > number of rows: paginate() returns early with Total = rows
                                  skipped, i = done = 0; the handler's first Next() then calls Cursor()
                                  and Next() on the exhausted store iterator (see README) *)
Arguments POk {A} r.
Arguments PErrCursorAndOffset {A}.
Arguments PSkipPastEnd {A} total.

Fixpoint index_from {A} (i : nat) (l : list A) : list (nat * A) :=
  match l with
  | [] => []
  | x :: r => (i, x) :: index_from (S i) r
  end.

(* The rows the store iterator yields, with their positions: everything (no cursor) or the rows
   strictly after the cursor in the direction of iteration. *)
Definition source {A} (l : list A) (key : option nat) (reverse : bool) : list (nat * A) :=
  let il := index_from 0 l in
  if reverse then
    match key with
    | None => rev il
    | Some p => rev (firstn p il)
    end
  else
    match key with
    | None => il
    | Some p => skipn (S p) il
    end.

(* ormtable.paginate + paginationIterator.Next driven to exhaustion by [for it.Next()].
   [limit] is the effective limit (0 = none: done = MaxInt). *)
Definition page_core {A} (s : list (nat * A)) (offset limit : N) (count_total : bool) : pres A :=
  let n := N.of_nat (length s) in
  if (n <? offset)%N then PSkipPastEnd n
  else
    let rest := skipn (N.to_nat offset) s in
    let m := N.of_nat (length rest) in
    if (limit =? 0)%N || (m <? limit)%N then
      (* the underlying iterator ends before i reaches done: pageRes = {Total: i} *)
      POk (MkPageRes (map snd rest) None n true)
    else
      (* limit rows were returned (i = done); one more underlying Next decides about NextKey;
         with count_total the remaining rows are counted *)
      let page := firstn (N.to_nat limit) rest in
      POk (MkPageRes (map snd page)
             (if (limit <? m)%N then Some (last (map fst page) O) else None)
             (if count_total then n else 0%N)
             true).

Definition paginate {A} (l : list A) (req : page_req) : pres A :=
  match pr_key req, (pr_offset req =? 0)%N with
  | Some _, false => PErrCursorAndOffset
  | _, _ =>
      let s := source l (pr_key req) (pr_reverse req) in
      (* applyCommonIteratorOptions: the pagination wrapper is installed only if one of these holds *)
      if pr_count_total req || negb (pr_limit req =? 0)%N || negb (pr_offset req =? 0)%N
         || negb (orm_default_limit =? 0)%N
      then
        let limit := if (pr_limit req =? 0)%N then orm_default_limit else pr_limit req in
        page_core s (pr_offset req) limit (pr_count_total req)
      else POk (MkPageRes (map snd s) None 0%N false)
  end.

(* ---------- clients walking all pages ---------- *)

Inductive walk_res (A : Type) : Type :=
| WOk (pages : list (page_res A))
| WFailed                       (* a page request was answered with an error *)
| WOutOfFuel.
Arguments WOk {A} pages.
Arguments WFailed {A}.
Arguments WOutOfFuel {A}.

Definition walk_cons {A} (r : page_res A) (w : walk_res A) : walk_res A :=
  match w with WOk ps => WOk (r :: ps) | other => other end.

(* follow next_key cursors with a fixed limit [k] until a page has no next key *)
Fixpoint walk_by_key {A} (fuel : nat) (l : list A) (k : N) (ct reverse : bool) (cursor : option nat)
  : walk_res A :=
  match fuel with
  | O => WOutOfFuel
  | S f =>
      match paginate l (MkPageReq cursor 0 k ct reverse) with
      | POk r =>
          match pg_next r with
          | None => WOk [r]
          | Some c => walk_cons r (walk_by_key f l k ct reverse (Some c))
          end
      | _ => WFailed
      end
  end.

(* request offsets 0, k, 2k, ... with limit [k] until a page has no next key *)
Fixpoint walk_by_offset {A} (fuel : nat) (l : list A) (k : N) (ct reverse : bool) (i : N)
  : walk_res A :=
  match fuel with
  | O => WOutOfFuel
  | S f =>
      match paginate l (MkPageReq None (i * k) k ct reverse) with
      | POk r =>
          match pg_next r with
          | None => WOk [r]
          | Some _ => walk_cons r (walk_by_offset f l k ct reverse (i + 1)%N)
          end
      | _ => WFailed
      end
  end.
