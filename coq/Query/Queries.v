(* Model of the gRPC query handlers of the three ecocredit query services (property C17) over the
   ledger state model, and (last section) of the x/data query service over the data state model.  Model file: executable definitions only (proofs are in QueriesProps.v).

   Transcribed from
     /repo/x/ecocredit/base/keeper/query_*.go          regen.ecocredit.v1.Query
     /repo/x/ecocredit/basket/keeper/query_*.go        regen.ecocredit.basket.v1.Query
     /repo/x/ecocredit/marketplace/keeper/query_*.go   regen.ecocredit.marketplace.v1.Query
   and the table / index definitions of /repo/proto/regen/ecocredit/{v1,basket/v1,marketplace/v1}/state.proto.

   Every list handler has the shape
       it := Table.List(ctx, IndexKey{}.WithPrefixFields(...), ormutil.PageReqToOrmPaginate(req.Pagination))
       for it.Next() { row := it.Value(); <joins>; out = append(out, info(row)) }
       return {out, PageResToCosmosTypes(it.PageResponse())}
   The ORM iterates the chosen index restricted to the key prefix, in index-key order (the index
   fields followed by the primary-key fields that are not index fields).  Key encodings compare
   uint64 numerically, strings and terminal bytes bytewise, non-terminal bytes by (length, bytes)
   (uvarint length prefix, lengths < 128).  So a list query is
       [q_X s args] = the entries (primary key, row) of the table that satisfy the prefix condition,
                      sorted by the index order                                   (this file, [scan])
       paginate (q_X s args) page_request                                        (Query/Paginate.v)
       render each entry of the page (joins that fail make the handler return NotFound).

   Addresses are account indices in the ledger model; their byte order is supplied by the
   environment ([addr_bytes], from the harness' account table). *)
From stdpp Require Import gmap.
From Coq Require Import ZArith NArith List Bool Strings.Byte.
Require Import Regen.Base.Bytes Regen.Base.Calendar Regen.Dec.Dec Regen.Ids.Ids.
Require Import Regen.Ledger.Types Regen.Ledger.Msgs Regen.Ledger.Orm Regen.Ledger.BaseMsgs Regen.Ledger.BasketMsgs.
Require Import Regen.Query.Paginate.
Require Regen.Data.BytesExt Regen.Data.Iri Regen.Data.DataMsgs.
Import ListNotations.
Local Open Scope N_scope.

(* ------------------------------------------------------------------ *)
(* environment: address bytes                                          *)
(* ------------------------------------------------------------------ *)

Definition addr_table := list (addr * bytes).

Fixpoint addr_lookup (t : addr_table) (a : addr) : bytes :=
  match t with
  | [] => []
  | (a', bz) :: t' => if (a =? a')%N then bz else addr_lookup t' a
  end.

(* ------------------------------------------------------------------ *)
(* orderings                                                           *)
(* ------------------------------------------------------------------ *)

Definition cmp_leb (c : comparison) : bool := match c with Gt => false | _ => true end.

(* strings and terminal bytes fields: raw bytes *)
Definition bytes_leb (x y : bytes) : bool := cmp_leb (bytes_cmp x y).

(* non-terminal bytes fields: uvarint(len) ++ bytes; for len < 128 that is (length, bytes) order *)
Definition lp_cmp (x y : bytes) : comparison :=
  match Nat.compare (length x) (length y) with
  | Eq => bytes_cmp x y
  | c => c
  end.

(* ------------------------------------------------------------------ *)
(* index scans                                                         *)
(* ------------------------------------------------------------------ *)

Section scan.
  Context {K : Type} `{Countable K} {V : Type}.
  (* rows of a table passing [f], in the order [leb] *)
  Definition scan (m : gmap K V) (f : K -> V -> bool) (leb : K * V -> K * V -> bool) : list (K * V) :=
    sort_by leb (List.filter (fun kv => f kv.1 kv.2) (map_to_list m)).
End scan.

Definition scan_set {K : Type} `{Countable K} (m : gset K) (f : K -> bool) (leb : K -> K -> bool) : list K :=
  sort_by leb (List.filter f (elements m)).

Definition by_key {V : Type} (x y : N * V) : bool := (x.1 <=? y.1)%N.
Definition by_field {K V : Type} (f : V -> bytes) (x y : K * V) : bool := bytes_leb (f x.2) (f y.2).
Definition all_rows {K V : Type} (_ : K) (_ : V) : bool := true.

(* ------------------------------------------------------------------ *)
(* list queries: entries in handler order                              *)
(* ------------------------------------------------------------------ *)

Section entries.
  Variable ab : addr -> bytes.    (* address bytes *)
  Variable s : state.

  (* Classes: ClassTable primary key (key) *)
  Definition q_classes : list (N * class) := scan (classes s) all_rows by_key.
  (* ClassesByAdmin: index (admin) + key *)
  Definition q_classes_by_admin (a : addr) : list (N * class) :=
    scan (classes s) (fun _ c => (cl_admin c =? a)%N) by_key.
  (* ClassIssuers: ClassIssuerTable primary key (class_key, issuer), prefix class_key; issuer is terminal *)
  Definition q_class_issuers (class_key : N) : list (N * addr) :=
    scan_set (class_issuers s) (fun p => (p.1 =? class_key)%N) (fun x y => bytes_leb (ab x.2) (ab y.2)).

  (* Projects: unique index (id) *)
  Definition q_projects : list (N * project) := scan (projects s) all_rows (by_field pj_id).
  (* ProjectsByClass: unique index (class_key, id), prefix class_key *)
  Definition q_projects_by_class (class_key : N) : list (N * project) :=
    scan (projects s) (fun _ p => (pj_class_key p =? class_key)%N) (by_field pj_id).
  (* ProjectsByAdmin: index (admin) + key *)
  Definition q_projects_by_admin (a : addr) : list (N * project) :=
    scan (projects s) (fun _ p => (pj_admin p =? a)%N) by_key.
  (* ProjectsByReferenceId: index (reference_id) + key; reference_id is a non-terminal string
     (null-terminated), so the prefix matches the whole string only *)
  Definition q_projects_by_reference_id (r : bytes) : list (N * project) :=
    scan (projects s) (fun _ p => bytes_eqb (pj_reference_id p) r) by_key.

  (* Batches: primary key (key) *)
  Definition q_batches : list (N * batch) := scan (batches s) all_rows by_key.
  (* BatchesByClass: unique index (denom) scanned with the STRING PREFIX class.Id + "-" (denom is the
     terminal field of the index key, so WithDenom(prefix) is a raw prefix scan) *)
  Definition q_batches_by_class (class_id : bytes) : list (N * batch) :=
    scan (batches s) (fun _ b => has_prefix (class_id ++ [x2d]) (ba_denom b)) (by_field ba_denom).
  (* BatchesByIssuer: index (issuer) + key *)
  Definition q_batches_by_issuer (a : addr) : list (N * batch) :=
    scan (batches s) (fun _ b => (ba_issuer b =? a)%N) by_key.
  (* BatchesByProject: index (project_key) + key *)
  Definition q_batches_by_project (project_key : N) : list (N * batch) :=
    scan (batches s) (fun _ b => (ba_project_key b =? project_key)%N) by_key.

  (* Balances: BatchBalanceTable primary key (address, batch_key), prefix address *)
  Definition q_balances (a : addr) : list (addr * N * balance) :=
    scan (balances s) (fun k _ => (k.1 =? a)%N) (fun x y => (x.1.2 <=? y.1.2)%N).
  (* BalancesByBatch: index (batch_key, address), prefix batch_key; address is terminal *)
  Definition q_balances_by_batch (batch_key : N) : list (addr * N * balance) :=
    scan (balances s) (fun k _ => (k.2 =? batch_key)%N) (fun x y => bytes_leb (ab x.1.1) (ab y.1.1)).
  (* AllBalances: primary key (address, batch_key); address is non-terminal (length-prefixed) *)
  Definition q_all_balances : list (addr * N * balance) :=
    scan (balances s) all_rows
      (fun x y => match lp_cmp (ab x.1.1) (ab y.1.1) with
                  | Lt => true | Eq => (x.1.2 <=? y.1.2)%N | Gt => false end).

  (* AllowedClassCreators: primary key (address), terminal *)
  Definition q_allowed_class_creators : list addr :=
    scan_set (allowed_creators s) (fun _ => true) (fun x y => bytes_leb (ab x) (ab y)).
  (* CreditTypes (not paginated): primary key (abbreviation) *)
  Definition q_credit_types : list (bytes * credit_type) :=
    scan (credit_types s) all_rows (fun x y => bytes_leb x.1 y.1).
  (* AllowedBridgeChains (not paginated): primary key (chain_name) *)
  Definition q_allowed_bridge_chains : list bytes :=
    scan_set (allowed_bridge_chains s) (fun _ => true) bytes_leb.

  (* Baskets: primary key (id) *)
  Definition q_baskets : list (N * basket) := scan (baskets s) all_rows by_key.
  (* Basket: BasketClassTable primary key (basket_id, class_id), prefix basket_id (not paginated) *)
  Definition q_basket_classes (basket_id : N) : list (N * bytes) :=
    scan_set (basket_classes s) (fun p => (p.1 =? basket_id)%N) (fun x y => bytes_leb x.2 y.2).
  (* BasketBalances: primary key (basket_id, batch_denom), prefix basket_id *)
  Definition q_basket_balances (basket_id : N) : list (N * bytes * basket_balance) :=
    scan (basket_balances s) (fun k _ => (k.1 =? basket_id)%N) (fun x y => bytes_leb x.1.2 y.1.2).

  (* SellOrders: primary key (id) *)
  Definition q_sell_orders : list (N * sell_order) := scan (sell_orders s) all_rows by_key.
  (* SellOrdersBySeller: index (seller) + id *)
  Definition q_sell_orders_by_seller (a : addr) : list (N * sell_order) :=
    scan (sell_orders s) (fun _ o => (so_seller o =? a)%N) by_key.
  (* SellOrdersByBatch: index (batch_key) + id *)
  Definition q_sell_orders_by_batch (batch_key : N) : list (N * sell_order) :=
    scan (sell_orders s) (fun _ o => (so_batch_key o =? batch_key)%N) by_key.
  (* AllowedDenoms: primary key (bank_denom) *)
  Definition q_allowed_denoms : list (bytes * (bytes * Z)) :=
    scan (allowed_denoms s) all_rows (fun x y => bytes_leb x.1 y.1).
End entries.

(* ------------------------------------------------------------------ *)
(* response rows                                                       *)
(* ------------------------------------------------------------------ *)

(* [A] is the representation of credit amounts: [dec] in the model (the stored decimal), the
   response string in observed rows; they are compared by value. *)
Inductive qrow (A : Type) : Type :=
| RClass (id : bytes) (admin : addr) (metadata ct : bytes)                              (* ClassInfo *)
| RProject (id : bytes) (admin : addr) (class_id jurisdiction metadata reference_id : bytes)   (* ProjectInfo *)
| RBatch (issuer : addr) (project_id denom metadata : bytes) (start_date end_date issuance_date : ts) (open : bool)  (* BatchInfo *)
| RBalance (a : addr) (denom : bytes) (tradable retired escrowed : A)                    (* BatchBalanceInfo *)
| RSupply (tradable retired cancelled : A)                                               (* QuerySupplyResponse *)
| RCreditType (abbrev name unit : bytes) (precision : Z)
| RAddr (a : addr)
| RStr (x : bytes)
| RBasket (id : N) (denom name : bytes) (disable_auto_retire : bool) (ct : bytes) (criteria : date_criteria)
          (exponent : Z) (curator : addr)                                                (* Basket + BasketInfo *)
| RBasketOne (id : N) (denom name : bytes) (disable_auto_retire : bool) (ct : bytes) (criteria : date_criteria)
          (exponent : Z) (curator : addr) (classes : list bytes)                         (* QueryBasketResponse *)
| RBasketBalance (basket_id : N) (denom : bytes) (balance : A) (start_date : ts)         (* BasketBalance + BasketBalanceInfo *)
| RAmount (x : A)                                                                        (* QueryBasketBalanceResponse *)
| ROrder (id : N) (seller : addr) (denom : bytes) (quantity : bytes) (ask_denom : bytes) (ask_amount : Z)
         (disable_auto_retire : bool) (expiration : option ts)                           (* SellOrderInfo *)
| RAllowedDenom (bank display : bytes) (exponent : Z)
| RAttestation (iri : bytes) (attestor : addr) (timestamp : ts)                          (* data AttestationInfo *)
| RResolver (id : N) (url : bytes) (manager : option addr)                               (* data ResolverInfo; None = empty manager *)
| RAnchor (iri : bytes) (timestamp : ts).                                                (* data AnchorInfo (iri, timestamp) *)
Arguments RAttestation {A}. Arguments RResolver {A}. Arguments RAnchor {A}.
Arguments RClass {A}. Arguments RProject {A}. Arguments RBatch {A}. Arguments RBalance {A}.
Arguments RSupply {A}. Arguments RCreditType {A}. Arguments RAddr {A}. Arguments RStr {A}.
Arguments RBasket {A}. Arguments RBasketOne {A}. Arguments RBasketBalance {A}. Arguments RAmount {A}.
Arguments ROrder {A}. Arguments RAllowedDenom {A}.

Definition mrow := qrow dec.

Section render.
  Variable s : state.

  Definition r_class (e : N * class) : mrow :=
    RClass (cl_id e.2) (cl_admin e.2) (cl_metadata e.2) (cl_ct e.2).

  (* ClassTable().Get(project.ClassKey) *)
  Definition r_project (e : N * project) : option mrow :=
    match classes s !! pj_class_key e.2 with
    | Some c => Some (RProject (pj_id e.2) (pj_admin e.2) (cl_id c) (pj_jurisdiction e.2) (pj_metadata e.2) (pj_reference_id e.2))
    | None => None
    end.

  Definition batch_info (project_id : bytes) (b : batch) : mrow :=
    RBatch (ba_issuer b) project_id (ba_denom b) (ba_metadata b) (ba_start b) (ba_end b) (ba_issuance b) (ba_open b).

  (* ProjectTable().Get(batch.ProjectKey) *)
  Definition r_batch (e : N * batch) : option mrow :=
    match projects s !! ba_project_key e.2 with
    | Some p => Some (batch_info (pj_id p) e.2)
    | None => None
    end.

  Definition balance_info (a : addr) (denom : bytes) (bl : balance) : mrow :=
    RBalance a denom (bl_tradable bl) (bl_retired bl) (bl_escrowed bl).

  (* BatchTable().Get(balance.BatchKey) *)
  Definition r_balance (e : addr * N * balance) : option mrow :=
    match batches s !! e.1.2 with
    | Some b => Some (balance_info e.1.1 (ba_denom b) e.2)
    | None => None
    end.

  Definition r_credit_type (e : bytes * credit_type) : mrow :=
    RCreditType e.1 (ct_name e.2) (ct_unit e.2) (ct_precision e.2).

  Definition r_basket (e : N * basket) : mrow :=
    RBasket e.1 (bk_denom e.2) (bk_name e.2) (bk_disable_auto_retire e.2) (bk_ct e.2) (bk_criteria e.2)
            (bk_exponent e.2) (bk_curator e.2).

  Definition r_basket_balance (e : N * bytes * basket_balance) : mrow :=
    RBasketBalance e.1.1 e.1.2 (bb_balance e.2) (bb_start e.2).

  Definition order_info (id : N) (denom ask_denom : bytes) (o : sell_order) : mrow :=
    ROrder id (so_seller o) denom (so_quantity o) ask_denom (so_ask_amount o) (so_disable_auto_retire o) (so_expiration o).

  (* BatchTable().Get(order.BatchKey) then MarketTable().Get(order.MarketId) *)
  Definition r_order (e : N * sell_order) : option mrow :=
    match batches s !! so_batch_key e.2 with
    | Some b =>
        match markets s !! so_market_id e.2 with
        | Some m => Some (order_info e.1 (ba_denom b) (mk_denom m) e.2)
        | None => None
        end
    | None => None
    end.

  (* SellOrdersByBatch takes the denom from the batch of the request *)
  Definition r_order_of_batch (denom : bytes) (e : N * sell_order) : option mrow :=
    match markets s !! so_market_id e.2 with
    | Some m => Some (order_info e.1 denom (mk_denom m) e.2)
    | None => None
    end.

  Definition r_allowed_denom (e : bytes * (bytes * Z)) : mrow := RAllowedDenom e.1 e.2.1 e.2.2.
End render.

(* ------------------------------------------------------------------ *)
(* requests and results                                                *)
(* ------------------------------------------------------------------ *)

Inductive qreq :=
| QClasses | QClassesByAdmin (a : addr) | QClass (id : bytes) | QClassIssuers (id : bytes)
| QProjects | QProjectsByClass (id : bytes) | QProjectsByAdmin (a : addr) | QProjectsByReferenceId (r : bytes)
| QProject (id : bytes)
| QBatches | QBatchesByClass (id : bytes) | QBatchesByIssuer (a : addr) | QBatchesByProject (id : bytes)
| QBatch (denom : bytes)
| QBalances (a : addr) | QBalancesByBatch (denom : bytes) | QAllBalances | QBalance (a : addr) (denom : bytes)
| QSupply (denom : bytes)
| QCreditTypes | QCreditType (abbrev : bytes) | QAllowedClassCreators | QAllowedBridgeChains
| QBaskets | QBasket (denom : bytes) | QBasketBalances (denom : bytes) | QBasketBalance (basket_denom batch_denom : bytes)
| QSellOrders | QSellOrdersBySeller (a : addr) | QSellOrdersByBatch (denom : bytes) | QSellOrder (id : N)
| QAllowedDenoms.

(* gRPC status of a failing handler *)
Inductive qerr := ENotFound | EInvalidArgument | EOther.

Inductive qres :=
| QPaged (l : list (option mrow))   (* paginated list query: the rendered entries in index order; [None] =
                                       a join of the handler fails when its loop reaches this entry *)
| QAll (l : list mrow)              (* list query without pagination *)
| QOne (r : mrow)                   (* single-entity query *)
| QErr (e : qerr).

Definition paged_total {E} (render : E -> mrow) (l : list E) : qres := QPaged (map (fun e => Some (render e)) l).
Definition paged {E} (render : E -> option mrow) (l : list E) : qres := QPaged (map render l).

Definition run_query (ab : addr -> bytes) (s : state) (q : qreq) : qres :=
  match q with
  | QClasses => paged_total r_class (q_classes s)
  | QClassesByAdmin a => paged_total r_class (q_classes_by_admin s a)
  | QClass id =>
      match class_by_id s id with
      | Some e => QOne (r_class e)
      | None => QErr ENotFound
      end
  | QClassIssuers id =>
      match class_by_id s id with
      | Some (k, _) => paged_total (fun e : N * addr => RAddr e.2) (q_class_issuers ab s k)
      | None => QErr ENotFound
      end
  | QProjects => paged (r_project s) (q_projects s)
  | QProjectsByClass id =>
      match class_by_id s id with
      | Some (k, _) => paged (r_project s) (q_projects_by_class s k)
      | None => QErr ENotFound
      end
  | QProjectsByAdmin a => paged (r_project s) (q_projects_by_admin s a)
  | QProjectsByReferenceId r =>
      match r with
      | [] => QErr EInvalidArgument
      | _ => paged (r_project s) (q_projects_by_reference_id s r)
      end
  | QProject id =>
      match project_by_id s id with
      | Some e => match r_project s e with Some r => QOne r | None => QErr ENotFound end
      | None => QErr ENotFound
      end
  | QBatches => paged (r_batch s) (q_batches s)
  | QBatchesByClass id =>
      match class_by_id s id with
      | Some (_, c) => paged (r_batch s) (q_batches_by_class s (cl_id c))
      | None => QErr ENotFound
      end
  | QBatchesByIssuer a => paged (r_batch s) (q_batches_by_issuer s a)
  | QBatchesByProject id =>
      match project_by_id s id with
      | Some (k, p) => paged_total (fun e : N * batch => batch_info (pj_id p) e.2) (q_batches_by_project s k)
      | None => QErr ENotFound
      end
  | QBatch denom =>
      if negb (validate_batch_denom denom) then QErr EInvalidArgument else
      match batch_by_denom s denom with
      | Some e => match r_batch s e with Some r => QOne r | None => QErr ENotFound end
      | None => QErr ENotFound
      end
  | QBalances a => paged (r_balance s) (q_balances s a)
  | QBalancesByBatch denom =>
      match batch_by_denom s denom with
      | Some (k, b) => paged_total (fun e : addr * N * balance => balance_info e.1.1 (ba_denom b) e.2) (q_balances_by_batch ab s k)
      | None => QErr EInvalidArgument
      end
  | QAllBalances => paged (r_balance s) (q_all_balances ab s)
  | QBalance a denom =>
      match batch_by_denom s denom with
      | Some (k, b) => QOne (balance_info a (ba_denom b) (get_balance s a k))
      | None => QErr ENotFound
      end
  | QSupply denom =>
      match batch_by_denom s denom with
      | Some (k, _) =>
          match supplies s !! k with
          | Some su => QOne (RSupply (su_tradable su) (su_retired su) (su_cancelled su))
          | None => QErr EInvalidArgument
          end
      | None => QErr EInvalidArgument
      end
  | QCreditTypes => QAll (map r_credit_type (q_credit_types s))
  | QCreditType abbrev =>
      match credit_types s !! abbrev with
      | Some ct => QOne (r_credit_type (abbrev, ct))
      | None => QErr ENotFound
      end
  | QAllowedClassCreators => paged_total (fun a : addr => RAddr a) (q_allowed_class_creators ab s)
  | QAllowedBridgeChains => QAll (map (fun x : bytes => RStr x) (q_allowed_bridge_chains s))
  | QBaskets => paged_total r_basket (q_baskets s)
  | QBasket denom =>
      match basket_by_denom s denom with
      | Some (id, k) =>
          QOne (RBasketOne id (bk_denom k) (bk_name k) (bk_disable_auto_retire k) (bk_ct k) (bk_criteria k)
                           (bk_exponent k) (bk_curator k) (map snd (q_basket_classes s id)))
      | None => QErr ENotFound
      end
  | QBasketBalances denom =>
      match basket_by_denom s denom with
      | Some (id, _) => paged_total r_basket_balance (q_basket_balances s id)
      | None => QErr ENotFound
      end
  | QBasketBalance basket_denom batch_denom =>
      match basket_by_denom s basket_denom with
      | Some (id, _) =>
          match batch_by_denom s batch_denom with
          | Some _ =>
              match basket_balances s !! (id, batch_denom) with
              | Some bb => QOne (RAmount (bb_balance bb))
              | None => QOne (RAmount dzero)
              end
          | None => QErr ENotFound
          end
      | None => QErr ENotFound
      end
  | QSellOrders => paged (r_order s) (q_sell_orders s)
  | QSellOrdersBySeller a => paged (r_order s) (q_sell_orders_by_seller s a)
  | QSellOrdersByBatch denom =>
      match batch_by_denom s denom with
      | Some (k, b) => paged (r_order_of_batch s (ba_denom b)) (q_sell_orders_by_batch s k)
      | None => QErr ENotFound
      end
  | QSellOrder id =>
      match sell_orders s !! id with
      | Some o => match r_order s (id, o) with Some r => QOne r | None => QErr ENotFound end
      | None => QErr ENotFound
      end
  | QAllowedDenoms => paged_total r_allowed_denom (q_allowed_denoms s)
  end.

(* ------------------------------------------------------------------ *)
(* x/data query service (regen.data.v2.Query) over the data state model *)
(* ------------------------------------------------------------------ *)

(* /repo/x/data/server/query_*.go; tables of /repo/proto/regen/data/v1/state.proto:
     DataID pk (id), unique index (iri); DataAnchor pk (id); DataAttestor pk (id, attestor), index
     (attestor); Resolver pk (id), index (url), unique index (url, manager); DataResolver pk (id, resolver_id).
   The data state model (Data/DataMsgs.v) keeps every table as an association list. *)
Definition dscan {E : Type} (l : list E) (f : E -> bool) (leb : E -> E -> bool) : list E :=
  sort_by leb (List.filter f l).

Section data_entries.
  Variable ab : addr -> bytes.
  Variable d : DataMsgs.dstate.

  (* AttestationsByIRI / ByHash: DataAttestor primary key (id, attestor), prefix id (a non-terminal
     bytes field is length-prefixed, so the prefix matches the whole id); attestor is terminal *)
  Definition q_attestations_by_id (id : bytes) : list (bytes * addr * ts) :=
    dscan (DataMsgs.attestors d) (fun e => bytes_eqb e.1.1 id) (fun x y => bytes_leb (ab x.1.2) (ab y.1.2)).
  (* AttestationsByAttestor: index (attestor) + id; id is terminal *)
  Definition q_attestations_by_attestor (a : addr) : list (bytes * addr * ts) :=
    dscan (DataMsgs.attestors d) (fun e => (e.1.2 =? a)%N) (fun x y => bytes_leb x.1.1 y.1.1).
  (* ResolversByIRI / ByHash: DataResolver primary key (id, resolver_id), prefix id *)
  Definition q_data_resolvers_by_id (id : bytes) : list (bytes * N) :=
    dscan (DataMsgs.data_resolvers d) (fun e => bytes_eqb e.1 id) (fun x y => (x.2 <=? y.2)%N).
  (* ResolversByURL: index (url) + id; url is a non-terminal string: matched as a whole *)
  Definition q_resolvers_by_url (url : bytes) : list (N * DataMsgs.resolver) :=
    dscan (DataMsgs.resolvers d) (fun e => bytes_eqb e.2.1 url) (fun x y => (x.1 <=? y.1)%N).
  (* DataIDTable().GetByIri: the unique index (iri) *)
  Definition data_id_by_iri (iri : bytes) : option bytes :=
    option_map fst (List.find (fun e : bytes * bytes => bytes_eqb e.2 iri) (DataMsgs.data_ids d)).

  Definition r_resolver (rid : N) (r : DataMsgs.resolver) : mrow := RResolver rid r.1 r.2.
  (* DataIDTable().Get(dataAttestor.Id) *)
  Definition r_attestation_of_attestor (a : addr) (e : bytes * addr * ts) : option mrow :=
    match DataMsgs.get_data_id e.1.1 d with
    | Some iri => Some (RAttestation iri a e.2)
    | None => None
    end.
  (* ResolverTable().Get(item.ResolverId) *)
  Definition r_resolver_of_data (e : bytes * N) : option mrow :=
    match DataMsgs.get_resolver e.2 d with
    | Some r => Some (r_resolver e.2 r)
    | None => None
    end.
End data_entries.

Inductive dqreq :=
| DQAttestationsByIRI (iri : bytes) | DQAttestationsByHash (ch : Iri.content_hash) | DQAttestationsByAttestor (a : addr)
| DQResolversByIRI (iri : bytes) | DQResolversByHash (ch : Iri.content_hash) | DQResolversByURL (url : bytes)
| DQResolver (id : N) | DQAnchorByIRI (iri : bytes).

(* "len(request.Iri) == 0" and data.ParseIRI(request.Iri): any parse error is InvalidArgument.
   Domain guard: IRIs on which base58.Decode would panic ([Iri.PPanic]) are not generated. *)
Definition iri_ok (iri : bytes) : bool :=
  match iri with
  | [] => false
  | _ => match Iri.parse_iri_sha iri with BytesExt.Ok _ => true | BytesExt.Err _ => false end
  end.

Definition attestations_of_iri (ab : addr -> bytes) (d : DataMsgs.dstate) (iri : bytes) : qres :=
  match data_id_by_iri d iri with
  | Some id => paged_total (fun e : bytes * addr * ts => RAttestation iri e.1.2 e.2) (q_attestations_by_id ab d id)
  | None => QErr ENotFound
  end.
Definition resolvers_of_iri (d : DataMsgs.dstate) (iri : bytes) : qres :=
  match data_id_by_iri d iri with
  | Some id => paged (r_resolver_of_data d) (q_data_resolvers_by_id d id)
  | None => QErr ENotFound
  end.

Definition run_data_query (ab : addr -> bytes) (d : DataMsgs.dstate) (q : dqreq) : qres :=
  match q with
  | DQAttestationsByIRI iri => if iri_ok iri then attestations_of_iri ab d iri else QErr EInvalidArgument
  | DQAttestationsByHash ch =>
      match Iri.to_iri_sha ch with
      | BytesExt.Ok iri => attestations_of_iri ab d iri
      | BytesExt.Err _ => QErr EInvalidArgument
      end
  | DQAttestationsByAttestor a => paged (r_attestation_of_attestor d a) (q_attestations_by_attestor d a)
  | DQResolversByIRI iri => if iri_ok iri then resolvers_of_iri d iri else QErr EInvalidArgument
  | DQResolversByHash ch =>
      match Iri.to_iri_sha ch with
      | BytesExt.Ok iri => resolvers_of_iri d iri
      | BytesExt.Err _ => QErr EInvalidArgument
      end
  | DQResolversByURL url =>
      match url with
      | [] => QErr EInvalidArgument
      | _ => paged_total (fun e : N * DataMsgs.resolver => r_resolver e.1 e.2) (q_resolvers_by_url d url)
      end
  | DQResolver id =>
      if (id =? 0)%N then QErr EInvalidArgument else
      match DataMsgs.get_resolver id d with
      | Some r => QOne (r_resolver id r)
      | None => QErr ENotFound
      end
  | DQAnchorByIRI iri =>
      if negb (iri_ok iri) then QErr EInvalidArgument else
      match data_id_by_iri d iri with
      | Some id =>
          match DataMsgs.get_anchor id d with
          | Some t => QOne (RAnchor iri t)
          | None => QErr ENotFound
          end
      | None => QErr ENotFound
      end
  end.

(* ------------------------------------------------------------------ *)
(* one page of a paginated query as the handler returns it             *)
(* ------------------------------------------------------------------ *)

Fixpoint all_some {A} (l : list (option A)) : option (list A) :=
  match l with
  | [] => Some []
  | Some x :: l' => match all_some l' with Some r => Some (x :: r) | None => None end
  | None :: _ => None
  end.

Inductive page_out :=
| PageOk (rows : list mrow) (next : option nat) (total : N) (present : bool)
| PageErr (e : qerr)
| PagePanic.       (* offset past the end: the handler panics (see Query/README.md) *)

Definition page_of (l : list (option mrow)) (req : option page_req) : page_out :=
  match paginate l (page_req_of_request req) with
  | POk r =>
      match all_some (pg_items r) with
      | Some rows => PageOk rows (pg_next r) (pg_total r) (pg_present r)
      | None => PageErr ENotFound
      end
  | PErrCursorAndOffset => PageErr EOther
  | PSkipPastEnd _ => PagePanic
  end.
