(* Property C17 (pure part): walking the pages of a list query with any page size yields each
   element exactly once, in order, with a correct total; the last page has no next cursor. *)
From Coq Require Import List NArith Bool Arith Lia.
Require Import Regen.Generated.QueryConsts Regen.Query.Paginate.
Import ListNotations.

Section Props.
  Variable A : Type.
  Implicit Types (l : list A) (s : list (nat * A)).

  (* ---------- indexed lists ---------- *)

  Lemma index_from_length l i : length (index_from i l) = length l.
  Proof. revert i. induction l as [|x r IH]; intro i; cbn; [reflexivity | rewrite IH; reflexivity]. Qed.

  Lemma map_snd_index_from l i : map snd (index_from i l) = l.
  Proof. revert i. induction l as [|x r IH]; intro i; cbn; [reflexivity | rewrite IH; reflexivity]. Qed.

  Lemma map_fst_index_from l i : map fst (index_from i l) = seq i (length l).
  Proof. revert i. induction l as [|x r IH]; intro i; cbn; [reflexivity | rewrite IH; reflexivity]. Qed.

  Lemma skipn_index_from l : forall j i, skipn j (index_from i l) = index_from (i + j) (skipn j l).
  Proof.
    induction l as [|x r IH]; intros j i.
    - destruct j; reflexivity.
    - destruct j as [|j]; cbn [skipn index_from].
      + rewrite Nat.add_0_r. reflexivity.
      + rewrite IH. f_equal. lia.
  Qed.

  Lemma firstn_index_from l : forall k i, firstn k (index_from i l) = index_from i (firstn k l).
  Proof.
    induction l as [|x r IH]; intros k i.
    - destruct k; reflexivity.
    - destruct k as [|k]; cbn [firstn index_from]; [reflexivity | rewrite IH; reflexivity].
  Qed.

  Lemma last_seq_S (a m d : nat) : last (seq a (S m)) d = a + m.
  Proof. rewrite seq_S. apply last_last. Qed.

  Lemma last_rev_seq_S (a m d : nat) : last (rev (seq a (S m))) d = a.
  Proof. cbn [seq rev]. apply last_last. Qed.

  Lemma skipn_skipn (x y : nat) (B : Type) (u : list B) : skipn x (skipn y u) = skipn (y + x) u.
  Proof.
    revert u. induction y as [|y IH]; intro u; [reflexivity|].
    destruct u as [|b u]; [rewrite !skipn_nil; reflexivity|]. cbn [skipn Nat.add]. apply IH.
  Qed.

  (* ---------- one page ---------- *)

  (* With a limit K >= 1 and an offset within the source, the page is the next K rows; there is a
     next cursor iff more rows remain, and it is the position of the last row of the page. *)
  Lemma page_core_spec s (off K : N) (ct : bool) :
    (1 <= K)%N -> (N.to_nat off <= length s)%nat ->
    let rest := skipn (N.to_nat off) s in
    page_core s off K ct =
    POk (MkPageRes (map snd (firstn (N.to_nat K) rest))
           (if (K <? N.of_nat (length rest))%N then Some (last (map fst (firstn (N.to_nat K) rest)) O) else None)
           (if ct || (N.of_nat (length rest) <? K)%N then N.of_nat (length s) else 0%N)
           true).
  Proof.
    intros HK Hoff rest. unfold page_core.
    destruct (N.of_nat (length s) <? off)%N eqn:E1. { apply N.ltb_lt in E1. lia. }
    fold rest.
    destruct (K =? 0)%N eqn:E2. { apply N.eqb_eq in E2. lia. }
    cbn [orb].
    destruct (N.of_nat (length rest) <? K)%N eqn:E3.
    - apply N.ltb_lt in E3.
      rewrite firstn_all2 by lia.
      destruct (K <? N.of_nat (length rest))%N eqn:E4. { apply N.ltb_lt in E4. lia. }
      rewrite orb_true_r. reflexivity.
    - rewrite orb_false_r. reflexivity.
  Qed.

  (* the wrapper is installed and the limit is K whenever K >= 1 *)
  Lemma paginate_limit l (key : option nat) (off K : N) (ct rv : bool) :
    (1 <= K)%N -> (key = None \/ off = 0%N) ->
    paginate l (MkPageReq key off K ct rv) = page_core (source l key rv) off K ct.
  Proof.
    intros HK Hk. unfold paginate. cbn [pr_key pr_offset pr_limit pr_count_total pr_reverse].
    assert (E : (K =? 0)%N = false) by (apply N.eqb_neq; lia). rewrite E.
    cbn [negb]. rewrite orb_true_r. cbn [orb].
    destruct key as [p|]; [|reflexivity].
    destruct Hk as [Hk|Hk]; [discriminate|]. subst off. reflexivity.
  Qed.

  (* ---------- total ---------- *)

  (* without a cursor, count_total reports the number of rows of the whole (filtered) list,
     whatever the offset, limit and direction *)
  Theorem total_correct l (req : page_req) (r : page_res A) :
    pr_key req = None -> pr_count_total req = true ->
    paginate l req = POk r -> pg_total r = N.of_nat (length l) /\ pg_present r = true.
  Proof.
    intros Hk Hct. unfold paginate. rewrite Hk, Hct. cbn [orb].
    assert (Hs : length (source l None (pr_reverse req)) = length l).
    { unfold source. destruct (pr_reverse req); [rewrite rev_length|]; apply index_from_length. }
    unfold page_core. rewrite Hs.
    destruct (N.of_nat (length l) <? pr_offset req)%N; [discriminate|].
    match goal with |- context [if ?c then POk _ else _] => destruct c end;
      intro H; inversion H; subst r; cbn; split; reflexivity.
  Qed.

  (* with a cursor the total counts the rows from the cursor on (here: forward) *)
  Theorem total_after_cursor l (p : nat) (K : N) (r : page_res A) :
    paginate l (MkPageReq (Some p) 0 K true false) = POk r ->
    pg_total r = N.of_nat (length l - S p).
  Proof.
    unfold paginate. cbn [pr_key pr_offset pr_limit pr_count_total pr_reverse orb N.eqb].
    unfold page_core.
    assert (Hs : length (source l (Some p) false) = length l - S p).
    { unfold source. rewrite skipn_length, index_from_length. reflexivity. }
    rewrite Hs.
    destruct (N.of_nat (length l - S p) <? 0)%N; [discriminate|].
    match goal with |- context [if ?c then POk _ else _] => destruct c end;
      intro H; inversion H; subst r; cbn; reflexivity.
  Qed.

  (* ---------- pages of the forward walks ---------- *)

  Definition cursor_of (j : nat) : option nat := match j with O => None | S p => Some p end.

  Lemma source_forward l j : source l (cursor_of j) false = skipn j (index_from 0 l).
  Proof. destruct j; reflexivity. Qed.

  (* the page that starts at row j (0 <= j <= n), K >= 1: the same for key walking (cursor = j-1)
     and for offset walking (offset = j) *)
  Definition fwd_page l (j : nat) (K : N) (total : N) : page_res A :=
    MkPageRes (firstn (N.to_nat K) (skipn j l))
      (if (K <? N.of_nat (length l - j))%N then Some (j + N.to_nat K - 1) else None)
      total true.

  Lemma fwd_rest_facts l j (K : N) :
    (1 <= K)%N -> j <= length l ->
    let rest := skipn j (index_from 0 l) in
    length rest = length l - j /\
    map snd (firstn (N.to_nat K) rest) = firstn (N.to_nat K) (skipn j l) /\
    ((K <? N.of_nat (length l - j))%N = true ->
     last (map fst (firstn (N.to_nat K) rest)) O = j + N.to_nat K - 1).
  Proof.
    intros HK Hj rest. subst rest. repeat split.
    - rewrite skipn_length, index_from_length. reflexivity.
    - rewrite skipn_index_from, firstn_index_from, map_snd_index_from. reflexivity.
    - intro Hlt. apply N.ltb_lt in Hlt.
      rewrite skipn_index_from, firstn_index_from, map_fst_index_from.
      rewrite firstn_length, skipn_length. cbn [Nat.add].
      replace (Nat.min (N.to_nat K) (length l - j)) with (S (N.to_nat K - 1)) by lia.
      rewrite last_seq_S. lia.
  Qed.

  Lemma key_page_forward l j (K : N) (ct : bool) :
    (1 <= K)%N -> j <= length l ->
    paginate l (MkPageReq (cursor_of j) 0 K ct false) =
    POk (fwd_page l j K (if ct || (N.of_nat (length l - j) <? K)%N then N.of_nat (length l - j) else 0%N)).
  Proof.
    intros HK Hj. rewrite paginate_limit by (auto; lia). rewrite source_forward.
    destruct (fwd_rest_facts l j K HK Hj) as (Hlen & Hitems & Hlast).
    rewrite page_core_spec by (auto; cbn; lia).
    cbn [N.to_nat skipn]. unfold fwd_page. rewrite Hlen, Hitems.
    destruct (K <? N.of_nat (length l - j))%N eqn:E; [rewrite (Hlast eq_refl)|]; reflexivity.
  Qed.

  Lemma offset_page_forward l j (K : N) (ct : bool) :
    (1 <= K)%N -> j <= length l ->
    paginate l (MkPageReq None (N.of_nat j) K ct false) =
    POk (fwd_page l j K (if ct || (N.of_nat (length l - j) <? K)%N then N.of_nat (length l) else 0%N)).
  Proof.
    intros HK Hj. rewrite paginate_limit by (auto; lia). unfold source.
    destruct (fwd_rest_facts l j K HK Hj) as (Hlen & Hitems & Hlast).
    rewrite page_core_spec by (auto; rewrite Nat2N.id, index_from_length; lia).
    rewrite Nat2N.id. unfold fwd_page. rewrite Hlen, Hitems, index_from_length.
    destruct (K <? N.of_nat (length l - j))%N eqn:E; [rewrite (Hlast eq_refl)|]; reflexivity.
  Qed.

  (* ---------- number of pages ---------- *)

  (* pages needed for m remaining rows with page size k: max 1 (ceil (m / k)) *)
  Definition page_count (m k : nat) : nat := Nat.max 1 ((m + k - 1) / k).

  Lemma page_count_last (m k : nat) : 1 <= k -> m <= k -> page_count m k = 1.
  Proof.
    intros Hk Hm. unfold page_count.
    destruct (Nat.eq_dec m 0) as [->|Hm0].
    - rewrite Nat.div_small by lia. reflexivity.
    - replace (m + k - 1) with ((m - 1) + 1 * k) by lia.
      rewrite Nat.div_add by lia. rewrite Nat.div_small by lia. reflexivity.
  Qed.

  Lemma page_count_more (m k : nat) : 1 <= k -> k < m -> page_count m k = S (page_count (m - k) k).
  Proof.
    intros Hk Hm. unfold page_count.
    replace (m + k - 1) with ((m - k + k - 1) + 1 * k) by lia.
    rewrite Nat.div_add by lia.
    assert (1 <= (m - k + k - 1) / k).
    { apply Nat.div_le_lower_bound; lia. }
    lia.
  Qed.

  (* ---------- walking by key, forward ---------- *)

  Definition all_items (pages : list (page_res A)) : list A := concat (map pg_items pages).

  Lemma all_items_cons r pages : all_items (r :: pages) = pg_items r ++ all_items pages.
  Proof. reflexivity. Qed.

  (* what a complete walk looks like: every page but the last has a next cursor and exactly k rows;
     the last page has no next cursor *)
  Definition well_formed_walk (k : nat) (pages : list (page_res A)) : Prop :=
    exists init lastp, pages = init ++ [lastp] /\ pg_next lastp = None /\
      Forall (fun r => pg_next r <> None /\ length (pg_items r) = k) init /\
      length (pg_items lastp) <= k.

  Lemma well_formed_walk_cons k r pages :
    pg_next r <> None -> length (pg_items r) = k ->
    well_formed_walk k pages -> well_formed_walk k (r :: pages).
  Proof.
    intros Hn Hl (init & lastp & -> & Hlast & Hall & Hk).
    exists (r :: init), lastp. repeat split; auto.
  Qed.

  Lemma well_formed_walk_single k r :
    pg_next r = None -> length (pg_items r) <= k -> well_formed_walk k [r].
  Proof. intros Hn Hl. exists [], r. repeat split; auto. Qed.

  Lemma walk_by_key_forward_from l (K : N) (ct : bool) :
    (1 <= K)%N ->
    forall fuel j, j <= length l -> length l - j < fuel ->
      exists pages,
        walk_by_key fuel l K ct false (cursor_of j) = WOk pages /\
        all_items pages = skipn j l /\
        length pages = page_count (length l - j) (N.to_nat K) /\
        well_formed_walk (N.to_nat K) pages.
  Proof.
    intro HK. induction fuel as [|fuel IH]; intros j Hj Hf; [lia|].
    cbn [walk_by_key]. rewrite key_page_forward by assumption.
    unfold fwd_page. cbn [pg_next].
    destruct (K <? N.of_nat (length l - j))%N eqn:E.
    - apply N.ltb_lt in E.
      destruct (IH (j + N.to_nat K)) as (pages & Hw & Hitems & Hlen & Hwf); [lia | lia |].
      replace (Some (j + N.to_nat K - 1)) with (cursor_of (j + N.to_nat K))
        by (destruct (j + N.to_nat K) eqn:Ej; [lia | cbn; f_equal; lia]).
      rewrite Hw. cbn [walk_cons]. eexists. split; [reflexivity|]. repeat split.
      + rewrite all_items_cons. cbn [pg_items]. rewrite Hitems.
        rewrite <- (skipn_skipn (N.to_nat K) j). apply firstn_skipn.
      + cbn [length]. rewrite Hlen. rewrite (page_count_more (length l - j)) by lia.
        do 2 f_equal. lia.
      + apply well_formed_walk_cons; [ | | exact Hwf].
        * cbn [pg_next]. destruct (j + N.to_nat K) eqn:Ej; [lia | discriminate].
        * cbn [pg_items]. rewrite firstn_length, skipn_length. lia.
    - apply N.ltb_ge in E. eexists. split; [reflexivity|]. repeat split.
      + unfold all_items. cbn. rewrite app_nil_r. apply firstn_all2. rewrite skipn_length. lia.
      + cbn [length]. rewrite page_count_last by lia. reflexivity.
      + apply well_formed_walk_single; [reflexivity|]. cbn [pg_items]. rewrite firstn_length. lia.
  Qed.

  (* Walking by next_key from the start, any page size k >= 1, fuel S (length l):
     the pages concatenate to exactly l (each element once, in order), there are
     max 1 (ceil (|l| / k)) of them, and the last one has no next cursor. *)
  Theorem walk_by_key_partition l (k : N) (ct : bool) :
    (1 <= k)%N ->
    exists pages,
      walk_by_key (S (length l)) l k ct false None = WOk pages /\
      all_items pages = l /\
      length pages = page_count (length l) (N.to_nat k) /\
      well_formed_walk (N.to_nat k) pages.
  Proof.
    intro Hk.
    destruct (walk_by_key_forward_from l k ct Hk (S (length l)) 0) as (pages & Hw & Hi & Hl & Hwf); [lia | lia |].
    exists pages. rewrite Nat.sub_0_r in Hl. repeat split; assumption.
  Qed.

  (* ---------- walking by offset, forward ---------- *)

  Lemma walk_by_offset_forward_from l (K : N) (ct : bool) :
    (1 <= K)%N ->
    forall fuel (i : nat), i * N.to_nat K <= length l -> length l - i * N.to_nat K < fuel ->
      exists pages,
        walk_by_offset fuel l K ct false (N.of_nat i) = WOk pages /\
        all_items pages = skipn (i * N.to_nat K) l /\
        length pages = page_count (length l - i * N.to_nat K) (N.to_nat K) /\
        well_formed_walk (N.to_nat K) pages /\
        (ct = true -> Forall (fun r => pg_total r = N.of_nat (length l)) pages).
  Proof.
    intro HK. induction fuel as [|fuel IH]; intros i Hi Hf; [lia|].
    cbn [walk_by_offset].
    replace (N.of_nat i * K)%N with (N.of_nat (i * N.to_nat K)) by lia.
    set (j := i * N.to_nat K) in *.
    rewrite offset_page_forward by assumption.
    unfold fwd_page. cbn [pg_next].
    destruct (K <? N.of_nat (length l - j))%N eqn:E.
    - apply N.ltb_lt in E.
      destruct (IH (S i)) as (pages & Hw & Hitems & Hlen & Hwf & Htot); [cbn; lia | cbn; lia |].
      replace (N.of_nat i + 1)%N with (N.of_nat (S i)) by lia.
      rewrite Hw. cbn [walk_cons]. eexists. split; [reflexivity|].
      replace (S i * N.to_nat K) with (j + N.to_nat K) in * by (cbn; lia).
      repeat split.
      + rewrite all_items_cons. cbn [pg_items]. rewrite Hitems.
        rewrite <- (skipn_skipn (N.to_nat K) j). apply firstn_skipn.
      + cbn [length]. rewrite Hlen. rewrite (page_count_more (length l - j)) by lia.
        do 2 f_equal. lia.
      + apply well_formed_walk_cons; [cbn [pg_next]; discriminate | | exact Hwf].
        cbn [pg_items]. rewrite firstn_length, skipn_length. lia.
      + intro Hct. constructor; [|exact (Htot Hct)]. cbn [pg_total]. rewrite Hct. reflexivity.
    - apply N.ltb_ge in E. eexists. split; [reflexivity|]. repeat split.
      + unfold all_items. cbn. rewrite app_nil_r. apply firstn_all2. rewrite skipn_length. lia.
      + cbn [length]. rewrite page_count_last by lia. reflexivity.
      + apply well_formed_walk_single; [reflexivity|]. cbn [pg_items]. rewrite firstn_length. lia.
      + intro Hct. constructor; [|constructor]. cbn [pg_total]. rewrite Hct. reflexivity.
  Qed.

  Theorem walk_by_offset_partition l (k : N) (ct : bool) :
    (1 <= k)%N ->
    exists pages,
      walk_by_offset (S (length l)) l k ct false 0 = WOk pages /\
      all_items pages = l /\
      length pages = page_count (length l) (N.to_nat k) /\
      well_formed_walk (N.to_nat k) pages /\
      (ct = true -> Forall (fun r => pg_total r = N.of_nat (length l)) pages).
  Proof.
    intro Hk.
    destruct (walk_by_offset_forward_from l k ct Hk (S (length l)) 0) as (pages & Hw & Hi & Hl & Hwf & Ht);
      [cbn; lia | cbn; lia |].
    exists pages. cbn in Hi, Hl. rewrite Nat.sub_0_r in Hl. repeat split; assumption.
  Qed.

  (* ---------- walking by key, reverse ---------- *)

  (* remaining rows are l[0..r-1]; the cursor is None at the start (r = n) and Some r afterwards *)
  Definition rev_page l (r : nat) (K : N) (total : N) : page_res A :=
    MkPageRes (firstn (N.to_nat K) (rev (firstn r l)))
      (if (K <? N.of_nat r)%N then Some (r - N.to_nat K) else None)
      total true.

  Lemma source_reverse l (c : option nat) (r : nat) :
    (c = None /\ r = length l) \/ c = Some r ->
    source l c true = rev (firstn r (index_from 0 l)).
  Proof.
    intros [[-> ->] | ->]; unfold source; [|reflexivity].
    rewrite <- (index_from_length l 0). rewrite firstn_all. reflexivity.
  Qed.

  Lemma key_page_reverse l (c : option nat) (r : nat) (K : N) (ct : bool) :
    (1 <= K)%N -> r <= length l ->
    (c = None /\ r = length l) \/ c = Some r ->
    paginate l (MkPageReq c 0 K ct true) =
    POk (rev_page l r K (if ct || (N.of_nat r <? K)%N then N.of_nat r else 0%N)).
  Proof.
    intros HK Hr Hc. rewrite paginate_limit by (auto; lia). rewrite (source_reverse l c r Hc).
    rewrite page_core_spec by (auto; cbn; lia).
    cbn [N.to_nat skipn].
    assert (Hlen : length (rev (firstn r (index_from 0 l))) = r).
    { rewrite rev_length, firstn_length, index_from_length. lia. }
    unfold rev_page. rewrite Hlen.
    assert (Hitems : map snd (firstn (N.to_nat K) (rev (firstn r (index_from 0 l)))) =
                     firstn (N.to_nat K) (rev (firstn r l))).
    { rewrite <- firstn_map, map_rev, firstn_index_from, map_snd_index_from. reflexivity. }
    rewrite Hitems.
    destruct (K <? N.of_nat r)%N eqn:E; [|reflexivity].
    apply N.ltb_lt in E.
    assert (Hlast : last (map fst (firstn (N.to_nat K) (rev (firstn r (index_from 0 l))))) O = r - N.to_nat K).
    { rewrite firstn_rev, map_rev, firstn_length, index_from_length.
      replace (Nat.min r (length l)) with r by lia.
      rewrite firstn_index_from, skipn_index_from, map_fst_index_from.
      rewrite skipn_length, firstn_length. cbn [Nat.add].
      replace (Nat.min r (length l) - (r - N.to_nat K)) with (S (N.to_nat K - 1)) by lia.
      apply last_rev_seq_S. }
    rewrite Hlast. reflexivity.
  Qed.

  Lemma walk_by_key_reverse_from l (K : N) (ct : bool) :
    (1 <= K)%N ->
    forall fuel (c : option nat) (r : nat), r <= length l -> r < fuel ->
      (c = None /\ r = length l) \/ c = Some r ->
      exists pages,
        walk_by_key fuel l K ct true c = WOk pages /\
        all_items pages = rev (firstn r l) /\
        length pages = page_count r (N.to_nat K) /\
        well_formed_walk (N.to_nat K) pages.
  Proof.
    intro HK. induction fuel as [|fuel IH]; intros c r Hr Hf Hc; [lia|].
    cbn [walk_by_key]. rewrite (key_page_reverse l c r K ct HK Hr Hc).
    unfold rev_page. cbn [pg_next].
    destruct (K <? N.of_nat r)%N eqn:E.
    - apply N.ltb_lt in E.
      destruct (IH (Some (r - N.to_nat K)) (r - N.to_nat K)) as (pages & Hw & Hitems & Hlen & Hwf);
        [lia | lia | right; reflexivity |].
      rewrite Hw. cbn [walk_cons]. eexists. split; [reflexivity|]. repeat split.
      + rewrite all_items_cons. cbn [pg_items]. rewrite Hitems.
        rewrite <- (firstn_skipn (N.to_nat K) (rev (firstn r l))) at 2. f_equal.
        rewrite skipn_rev, firstn_length. replace (Nat.min r (length l)) with r by lia.
        rewrite firstn_firstn. f_equal. f_equal. lia.
      + cbn [length]. rewrite Hlen. rewrite (page_count_more r) by lia. reflexivity.
      + apply well_formed_walk_cons; [cbn [pg_next]; discriminate | | exact Hwf].
        cbn [pg_items]. rewrite firstn_length, rev_length, firstn_length. lia.
    - apply N.ltb_ge in E. eexists. split; [reflexivity|]. repeat split.
      + unfold all_items. cbn. rewrite app_nil_r. apply firstn_all2.
        rewrite rev_length, firstn_length. lia.
      + cbn [length]. rewrite page_count_last by lia. reflexivity.
      + apply well_formed_walk_single; [reflexivity|]. cbn [pg_items]. rewrite firstn_length. lia.
  Qed.

  (* reverse = true: the same walk yields the rows in descending order, each exactly once *)
  Theorem walk_by_key_reverse_partition l (k : N) (ct : bool) :
    (1 <= k)%N ->
    exists pages,
      walk_by_key (S (length l)) l k ct true None = WOk pages /\
      all_items pages = rev l /\
      length pages = page_count (length l) (N.to_nat k) /\
      well_formed_walk (N.to_nat k) pages.
  Proof.
    intro Hk.
    destruct (walk_by_key_reverse_from l k ct Hk (S (length l)) None (length l)) as (pages & Hw & Hi & Hl & Hwf);
      [lia | lia | left; split; reflexivity |].
    exists pages. rewrite firstn_all in Hi. repeat split; assumption.
  Qed.

  (* ---------- requests the handlers treat specially ---------- *)

  (* a nil PageRequest is a first page of query.DefaultLimit rows *)
  Theorem nil_request_is_default_page l :
    paginate l (page_req_of_request None) =
    paginate l (MkPageReq None 0 query_default_limit false false).
  Proof. reflexivity. Qed.

  (* a non-nil request with limit 0 (and no offset, no count_total) is not paginated at all:
     every row is returned in one response without a PageResponse *)
  Theorem zero_limit_returns_everything l (rv : bool) :
    paginate l (MkPageReq None 0 0 false rv) =
    POk (MkPageRes (if rv then rev l else l) None 0%N false).
  Proof.
    unfold paginate. cbn. unfold source. destruct rv.
    - rewrite map_rev, map_snd_index_from. reflexivity.
    - rewrite map_snd_index_from. reflexivity.
  Qed.

  (* an offset beyond the end is not answered with an empty page *)
  Theorem offset_past_end l (off K : N) (ct rv : bool) :
    (N.of_nat (length l) < off)%N ->
    paginate l (MkPageReq None off K ct rv) = PSkipPastEnd (N.of_nat (length l)).
  Proof.
    intro H. unfold paginate. cbn [pr_key pr_offset pr_limit pr_count_total pr_reverse].
    assert (E : (off =? 0)%N = false) by (apply N.eqb_neq; lia). rewrite E. cbn [negb].
    replace (ct || negb (K =? 0)%N || true || negb (orm_default_limit =? 0)%N) with true
      by (destruct ct, (K =? 0)%N; reflexivity).
    unfold page_core.
    assert (Hs : length (source l None rv) = length l).
    { unfold source. destruct rv; [rewrite rev_length|]; apply index_from_length. }
    rewrite Hs. apply N.ltb_lt in H. rewrite H. reflexivity.
  Qed.

End Props.
