(* Proofs about the query model Query/Queries.v (property C17):
   - every list query returns exactly the entries of its table that satisfy its filter, each once
     ([q_X_exact], [q_X_nodup]); for BatchesByClass the string-prefix scan is shown to select exactly
     the batches of the class under the id well-formedness invariant [ids_wf];
   - walking the pages of any list query by key, by key in reverse, or by offset with any page size
     k >= 1 yields each matching entry exactly once with a correct total ([q_X_pages_partition]),
     by instantiating the walk theorems of Query/PaginateProps.v;
   - pagination commutes with rendering ([paginate_map], [walk_by_key_map], [walk_by_offset_map]),
     so the statements transfer to the rendered rows the handlers return;
   - single-entity queries return the stored row. *)
From stdpp Require Import gmap.
From Coq Require Import ZArith NArith List Bool Strings.Byte Permutation Lia.
Require Import Regen.Base.Bytes Regen.Base.Calendar Regen.Dec.Dec Regen.Ids.Ids Regen.Ids.IdsProps.
Require Import Regen.Ledger.Types Regen.Ledger.Msgs Regen.Ledger.Orm Regen.Ledger.BaseMsgs Regen.Ledger.BasketMsgs.
Require Import Regen.Generated.QueryConsts Regen.Query.Paginate Regen.Query.PaginateProps Regen.Query.Queries.
Import ListNotations.

(* ------------------------------------------------------------------ *)
(* sorting is a permutation                                            *)
(* ------------------------------------------------------------------ *)

Lemma qp_insert_sorted_perm {A} (leb : A -> A -> bool) x l : Permutation (insert_sorted leb x l) (x :: l).
Proof.
  induction l as [|y l IH]; cbn [insert_sorted]; [apply Permutation_refl|].
  destruct (leb x y); [apply Permutation_refl|].
  eapply Permutation_trans; [apply perm_skip, IH|apply perm_swap].
Qed.

Theorem sort_by_permutation {A} (leb : A -> A -> bool) l : Permutation (sort_by leb l) l.
Proof.
  induction l as [|x l IH]; [apply Permutation_refl|].
  unfold sort_by in *. cbn [fold_right].
  eapply Permutation_trans; [apply qp_insert_sorted_perm|apply perm_skip, IH].
Qed.

Lemma sort_by_In {A} (leb : A -> A -> bool) l x : List.In x (sort_by leb l) <-> List.In x l.
Proof.
  split; apply Permutation_in; [|apply Permutation_sym]; apply sort_by_permutation.
Qed.

Lemma sort_by_NoDup {A} (leb : A -> A -> bool) l : List.NoDup l -> List.NoDup (sort_by leb l).
Proof. intro Hn. eapply Permutation_NoDup; [apply Permutation_sym, sort_by_permutation|exact Hn]. Qed.

Lemma sort_by_length {A} (leb : A -> A -> bool) l : length (sort_by leb l) = length l.
Proof. apply Permutation_length, sort_by_permutation. Qed.

(* ------------------------------------------------------------------ *)
(* index scans                                                         *)
(* ------------------------------------------------------------------ *)

Section scan_props.
  Context {K : Type} `{Countable K} {V : Type}.

  Lemma scan_In (m : gmap K V) f leb k v :
    List.In (k, v) (scan m f leb) <-> m !! k = Some v /\ f k v = true.
  Proof.
    unfold scan. rewrite sort_by_In, filter_In. cbn [fst snd].
    rewrite <- elem_of_list_In, elem_of_map_to_list. reflexivity.
  Qed.

  Lemma scan_In_pair (m : gmap K V) f leb (e : K * V) :
    List.In e (scan m f leb) <-> m !! e.1 = Some e.2 /\ f e.1 e.2 = true.
  Proof. destruct e as [k v]. apply scan_In. Qed.

  Lemma scan_NoDup (m : gmap K V) f leb : List.NoDup (scan m f leb).
  Proof.
    unfold scan. apply sort_by_NoDup, NoDup_filter, NoDup_ListNoDup, NoDup_map_to_list.
  Qed.

  (* the keys of a scan are pairwise different as well (a table has one row per primary key) *)
  Lemma scan_NoDup_keys (m : gmap K V) f leb : List.NoDup (map fst (scan m f leb)).
  Proof.
    unfold scan.
    eapply Permutation_NoDup; [apply Permutation_map, Permutation_sym, sort_by_permutation|].
    assert (Hm : List.NoDup (map fst (map_to_list m))).
    { apply NoDup_ListNoDup. apply NoDup_fst_map_to_list. }
    revert Hm. generalize (map_to_list m). intros l. induction l as [|x l IH]; cbn; [constructor|].
    intros Hn. inversion Hn as [|? ? Hx Hl]; subst.
    destruct (f x.1 x.2); [|apply IH, Hl].
    cbn. constructor; [|apply IH, Hl].
    intro Hin. apply Hx. apply in_map_iff in Hin. destruct Hin as [y [Hy1 Hy2]].
    apply filter_In in Hy2. apply in_map_iff. exists y. tauto.
  Qed.
End scan_props.

Lemma scan_set_In {K : Type} `{Countable K} (m : gset K) f leb x :
  List.In x (scan_set m f leb) <-> x ∈ m /\ f x = true.
Proof.
  unfold scan_set. rewrite sort_by_In, filter_In, <- elem_of_list_In, elem_of_elements. reflexivity.
Qed.

Lemma scan_set_NoDup {K : Type} `{Countable K} (m : gset K) f leb : List.NoDup (scan_set m f leb).
Proof. unfold scan_set. apply sort_by_NoDup, NoDup_filter, NoDup_ListNoDup, NoDup_elements. Qed.

(* ------------------------------------------------------------------ *)
(* exactness and absence of duplicates, query by query                 *)
(* ------------------------------------------------------------------ *)

Local Ltac exact_scan :=
  intros; rewrite scan_In_pair; unfold all_rows;
  repeat rewrite N.eqb_eq; repeat rewrite bytes_eqb_eq; try tauto.

Section exactness.
  Variable s : state.

  (* ---- classes *)
  Theorem q_classes_exact e : List.In e (q_classes s) <-> classes s !! e.1 = Some e.2.
  Proof. unfold q_classes. exact_scan. Qed.
  Theorem q_classes_nodup : List.NoDup (q_classes s).
  Proof. apply scan_NoDup. Qed.

  Theorem q_classes_by_admin_exact a e :
    List.In e (q_classes_by_admin s a) <-> classes s !! e.1 = Some e.2 /\ cl_admin e.2 = a.
  Proof. unfold q_classes_by_admin. exact_scan. Qed.
  Theorem q_classes_by_admin_nodup a : List.NoDup (q_classes_by_admin s a).
  Proof. apply scan_NoDup. Qed.

  Theorem q_class_issuers_exact (ab : addr -> bytes) k e :
    List.In e (q_class_issuers ab s k) <-> e ∈ class_issuers s /\ e.1 = k.
  Proof. unfold q_class_issuers. rewrite scan_set_In, N.eqb_eq. reflexivity. Qed.
  Theorem q_class_issuers_nodup (ab : addr -> bytes) k : List.NoDup (q_class_issuers ab s k).
  Proof. apply scan_set_NoDup. Qed.

  (* ---- projects *)
  Theorem q_projects_exact e : List.In e (q_projects s) <-> projects s !! e.1 = Some e.2.
  Proof. unfold q_projects. exact_scan. Qed.
  Theorem q_projects_nodup : List.NoDup (q_projects s).
  Proof. apply scan_NoDup. Qed.

  Theorem q_projects_by_class_exact k e :
    List.In e (q_projects_by_class s k) <-> projects s !! e.1 = Some e.2 /\ pj_class_key e.2 = k.
  Proof. unfold q_projects_by_class. exact_scan. Qed.
  Theorem q_projects_by_class_nodup k : List.NoDup (q_projects_by_class s k).
  Proof. apply scan_NoDup. Qed.

  Theorem q_projects_by_admin_exact a e :
    List.In e (q_projects_by_admin s a) <-> projects s !! e.1 = Some e.2 /\ pj_admin e.2 = a.
  Proof. unfold q_projects_by_admin. exact_scan. Qed.
  Theorem q_projects_by_admin_nodup a : List.NoDup (q_projects_by_admin s a).
  Proof. apply scan_NoDup. Qed.

  (* the reference id is matched as a whole string: VCS-1 does not return VCS-10 *)
  Theorem q_projects_by_reference_id_exact r e :
    List.In e (q_projects_by_reference_id s r) <-> projects s !! e.1 = Some e.2 /\ pj_reference_id e.2 = r.
  Proof. unfold q_projects_by_reference_id. exact_scan. Qed.
  Theorem q_projects_by_reference_id_nodup r : List.NoDup (q_projects_by_reference_id s r).
  Proof. apply scan_NoDup. Qed.

  (* ---- batches *)
  Theorem q_batches_exact e : List.In e (q_batches s) <-> batches s !! e.1 = Some e.2.
  Proof. unfold q_batches. exact_scan. Qed.
  Theorem q_batches_nodup : List.NoDup (q_batches s).
  Proof. apply scan_NoDup. Qed.

  (* what the handler literally computes: a string-prefix condition on the denom *)
  Theorem q_batches_by_class_prefix cid e :
    List.In e (q_batches_by_class s cid) <->
    batches s !! e.1 = Some e.2 /\ has_prefix (cid ++ [x2d]) (ba_denom e.2) = true.
  Proof. unfold q_batches_by_class. exact_scan. Qed.
  Theorem q_batches_by_class_nodup cid : List.NoDup (q_batches_by_class s cid).
  Proof. apply scan_NoDup. Qed.

  Theorem q_batches_by_issuer_exact a e :
    List.In e (q_batches_by_issuer s a) <-> batches s !! e.1 = Some e.2 /\ ba_issuer e.2 = a.
  Proof. unfold q_batches_by_issuer. exact_scan. Qed.
  Theorem q_batches_by_issuer_nodup a : List.NoDup (q_batches_by_issuer s a).
  Proof. apply scan_NoDup. Qed.

  Theorem q_batches_by_project_exact k e :
    List.In e (q_batches_by_project s k) <-> batches s !! e.1 = Some e.2 /\ ba_project_key e.2 = k.
  Proof. unfold q_batches_by_project. exact_scan. Qed.
  Theorem q_batches_by_project_nodup k : List.NoDup (q_batches_by_project s k).
  Proof. apply scan_NoDup. Qed.

  (* ---- balances *)
  Theorem q_balances_exact a e :
    List.In e (q_balances s a) <-> balances s !! e.1 = Some e.2 /\ e.1.1 = a.
  Proof. unfold q_balances. exact_scan. Qed.
  Theorem q_balances_nodup a : List.NoDup (q_balances s a).
  Proof. apply scan_NoDup. Qed.

  Theorem q_balances_by_batch_exact (ab : addr -> bytes) k e :
    List.In e (q_balances_by_batch ab s k) <-> balances s !! e.1 = Some e.2 /\ e.1.2 = k.
  Proof. unfold q_balances_by_batch. exact_scan. Qed.
  Theorem q_balances_by_batch_nodup (ab : addr -> bytes) k : List.NoDup (q_balances_by_batch ab s k).
  Proof. apply scan_NoDup. Qed.

  Theorem q_all_balances_exact (ab : addr -> bytes) e : List.In e (q_all_balances ab s) <-> balances s !! e.1 = Some e.2.
  Proof. unfold q_all_balances. exact_scan. Qed.
  Theorem q_all_balances_nodup (ab : addr -> bytes) : List.NoDup (q_all_balances ab s).
  Proof. apply scan_NoDup. Qed.

  (* ---- governance lists *)
  Theorem q_allowed_class_creators_exact (ab : addr -> bytes) a : List.In a (q_allowed_class_creators ab s) <-> a ∈ allowed_creators s.
  Proof. unfold q_allowed_class_creators. rewrite scan_set_In. tauto. Qed.
  Theorem q_allowed_class_creators_nodup (ab : addr -> bytes) : List.NoDup (q_allowed_class_creators ab s).
  Proof. apply scan_set_NoDup. Qed.

  Theorem q_credit_types_exact e : List.In e (q_credit_types s) <-> credit_types s !! e.1 = Some e.2.
  Proof. unfold q_credit_types. exact_scan. Qed.
  Theorem q_credit_types_nodup : List.NoDup (q_credit_types s).
  Proof. apply scan_NoDup. Qed.

  Theorem q_allowed_bridge_chains_exact c : List.In c (q_allowed_bridge_chains s) <-> c ∈ allowed_bridge_chains s.
  Proof. unfold q_allowed_bridge_chains. rewrite scan_set_In. tauto. Qed.
  Theorem q_allowed_bridge_chains_nodup : List.NoDup (q_allowed_bridge_chains s).
  Proof. apply scan_set_NoDup. Qed.

  (* ---- baskets *)
  Theorem q_baskets_exact e : List.In e (q_baskets s) <-> baskets s !! e.1 = Some e.2.
  Proof. unfold q_baskets. exact_scan. Qed.
  Theorem q_baskets_nodup : List.NoDup (q_baskets s).
  Proof. apply scan_NoDup. Qed.

  Theorem q_basket_classes_exact id e :
    List.In e (q_basket_classes s id) <-> e ∈ basket_classes s /\ e.1 = id.
  Proof. unfold q_basket_classes. rewrite scan_set_In, N.eqb_eq. reflexivity. Qed.
  Theorem q_basket_classes_nodup id : List.NoDup (q_basket_classes s id).
  Proof. apply scan_set_NoDup. Qed.

  Theorem q_basket_balances_exact id e :
    List.In e (q_basket_balances s id) <-> basket_balances s !! e.1 = Some e.2 /\ e.1.1 = id.
  Proof. unfold q_basket_balances. exact_scan. Qed.
  Theorem q_basket_balances_nodup id : List.NoDup (q_basket_balances s id).
  Proof. apply scan_NoDup. Qed.

  (* ---- marketplace *)
  Theorem q_sell_orders_exact e : List.In e (q_sell_orders s) <-> sell_orders s !! e.1 = Some e.2.
  Proof. unfold q_sell_orders. exact_scan. Qed.
  Theorem q_sell_orders_nodup : List.NoDup (q_sell_orders s).
  Proof. apply scan_NoDup. Qed.

  Theorem q_sell_orders_by_seller_exact a e :
    List.In e (q_sell_orders_by_seller s a) <-> sell_orders s !! e.1 = Some e.2 /\ so_seller e.2 = a.
  Proof. unfold q_sell_orders_by_seller. exact_scan. Qed.
  Theorem q_sell_orders_by_seller_nodup a : List.NoDup (q_sell_orders_by_seller s a).
  Proof. apply scan_NoDup. Qed.

  Theorem q_sell_orders_by_batch_exact k e :
    List.In e (q_sell_orders_by_batch s k) <-> sell_orders s !! e.1 = Some e.2 /\ so_batch_key e.2 = k.
  Proof. unfold q_sell_orders_by_batch. exact_scan. Qed.
  Theorem q_sell_orders_by_batch_nodup k : List.NoDup (q_sell_orders_by_batch s k).
  Proof. apply scan_NoDup. Qed.

  Theorem q_allowed_denoms_exact e : List.In e (q_allowed_denoms s) <-> allowed_denoms s !! e.1 = Some e.2.
  Proof. unfold q_allowed_denoms. exact_scan. Qed.
  Theorem q_allowed_denoms_nodup : List.NoDup (q_allowed_denoms s).
  Proof. apply scan_NoDup. Qed.
End exactness.

(* ------------------------------------------------------------------ *)
(* BatchesByClass: the prefix scan selects exactly the class's batches  *)
(* ------------------------------------------------------------------ *)

(* Well-formedness of stored identifiers (an invariant of the message handlers, proved separately):
   class ids validate; a project id is FormatProjectId of its class's id; a batch denom is
   FormatBatchDenom of its project's id. *)
Definition ids_wf (s : state) : Prop :=
  (forall k c, classes s !! k = Some c -> validate_class_id (cl_id c) = true) /\
  (forall k p, projects s !! k = Some p ->
     exists c n, classes s !! pj_class_key p = Some c /\ pj_id p = format_project_id (cl_id c) n) /\
  (forall k b, batches s !! k = Some b ->
     exists p n st en, projects s !! ba_project_key b = Some p /\ ba_denom b = format_batch_denom (pj_id p) n st en).

(* class ids are unique (the ORM's unique index on Class.id) *)
Definition class_ids_unique (s : state) : Prop :=
  forall k1 k2 c1 c2, classes s !! k1 = Some c1 -> classes s !! k2 = Some c2 -> cl_id c1 = cl_id c2 -> k1 = k2.

(* the batch belongs (through its project) to a class with id [cid] *)
Definition batch_in_class (s : state) (b : batch) (cid : bytes) : Prop :=
  exists p c, projects s !! ba_project_key b = Some p /\ classes s !! pj_class_key p = Some c /\ cl_id c = cid.

Lemma ids_wf_batch_prefix s cid b k :
  ids_wf s -> validate_class_id cid = true -> batches s !! k = Some b ->
  (has_prefix (cid ++ [x2d]) (ba_denom b) = true <-> batch_in_class s b cid).
Proof.
  intros [Hc [Hp Hb]] Hcid Hk.
  destruct (Hb _ _ Hk) as [p [n [st [en [Hpk Hd]]]]].
  destruct (Hp _ _ Hpk) as [c [n' [Hck Hpid]]].
  pose proof (Hc _ _ Hck) as Hcv.
  rewrite Hd, Hpid. rewrite (class_prefix_of_formatted_denom cid (cl_id c) n' n st en Hcid Hcv).
  unfold batch_in_class. split.
  - intros ->. exists p, c. auto.
  - intros [p' [c' [Hp' [Hc' E]]]]. rewrite Hpk in Hp'. inversion Hp'; subst p'.
    rewrite Hck in Hc'. inversion Hc'; subst c'. symmetry. exact E.
Qed.

(* C01 does not return the batches of C011: under [ids_wf] the prefix scan for a valid class id
   returns exactly the batches whose project belongs to a class with that id *)
Theorem q_batches_by_class_exact s cid e :
  ids_wf s -> validate_class_id cid = true ->
  (List.In e (q_batches_by_class s cid) <-> batches s !! e.1 = Some e.2 /\ batch_in_class s e.2 cid).
Proof.
  intros Hwf Hcid. rewrite q_batches_by_class_prefix. split.
  - intros [Hk Hpre]. split; [exact Hk|].
    destruct (ids_wf_batch_prefix s cid e.2 e.1 Hwf Hcid Hk) as [H1 _]. exact (H1 Hpre).
  - intros [Hk Hin]. split; [exact Hk|].
    destruct (ids_wf_batch_prefix s cid e.2 e.1 Hwf Hcid Hk) as [_ H2]. exact (H2 Hin).
Qed.

(* map_find on a table *)
Lemma qp_map_find_Some {K V} `{Countable K} (Pb : K -> V -> bool) (m : gmap K V) k v :
  map_find Pb m = Some (k, v) -> m !! k = Some v /\ Pb k v = true.
Proof.
  unfold map_find. intros Hh.
  assert (Hin : List.In (k, v) (List.filter (fun kv => Pb kv.1 kv.2) (map_to_list m))).
  { destruct (List.filter _ _) as [|x l]; [discriminate|]. cbn in Hh. inversion Hh. left. reflexivity. }
  apply filter_In in Hin. destruct Hin as [Hin Hp]. cbn in Hp.
  split; [|exact Hp]. apply elem_of_map_to_list. apply elem_of_list_In. exact Hin.
Qed.

Lemma qp_map_find_None {K V} `{Countable K} (Pb : K -> V -> bool) (m : gmap K V) :
  map_find Pb m = None -> forall k v, m !! k = Some v -> Pb k v = false.
Proof.
  unfold map_find. intros Hh k v Hk.
  destruct (Pb k v) eqn:E; [|reflexivity]. exfalso.
  assert (Hin : List.In (k, v) (List.filter (fun kv => Pb kv.1 kv.2) (map_to_list m))).
  { apply filter_In. split; [|exact E]. apply elem_of_list_In. apply elem_of_map_to_list. exact Hk. }
  destruct (List.filter _ _) as [|x l]; [exact Hin | discriminate Hh].
Qed.

(* the request-level statement: the handler looks the class up by id and scans with ITS id; with
   unique class ids the answer is the set of batches whose project's class is that very row *)
Theorem q_batches_by_class_of_request s id k c e :
  ids_wf s -> class_ids_unique s -> class_by_id s id = Some (k, c) ->
  (List.In e (q_batches_by_class s (cl_id c)) <->
   batches s !! e.1 = Some e.2 /\ exists p, projects s !! ba_project_key e.2 = Some p /\ pj_class_key p = k).
Proof.
  intros Hwf Hu Hf. unfold class_by_id in Hf. apply qp_map_find_Some in Hf. destruct Hf as [Hk Hid].
  pose proof Hwf as [Hc [Hp _]]. pose proof (Hc _ _ Hk) as Hv.
  rewrite (q_batches_by_class_exact s (cl_id c) e Hwf Hv). split.
  - intros [Hb [p [c' [Hp' [Hc' E]]]]]. split; [exact Hb|]. exists p. split; [exact Hp'|].
    exact (Hu _ _ _ _ Hc' Hk E).
  - intros [Hb [p [Hp' Hpk]]]. split; [exact Hb|]. exists p, c. subst k. auto.
Qed.

(* ------------------------------------------------------------------ *)
(* paging                                                              *)
(* ------------------------------------------------------------------ *)

(* Walking all pages of the list [l] (whose elements are exactly those satisfying [P], each once)
   with page size k >= 1: the pages, concatenated, contain every element satisfying [P] exactly
   once (no duplicates, nothing missing, nothing else), in index order (forward) or reverse index
   order; the number of requests is max 1 (ceil (|l| / k)); every page but the last is full and
   carries a cursor, the last has none; with count_total every offset page reports |l| and the first
   key page does (later key pages count from the cursor on, see C17pure). *)
Definition pages_partition {E : Type} (l : list E) (P : E -> Prop) : Prop :=
  forall (k : N) (ct : bool), (1 <= k)%N ->
    (exists pages,
        walk_by_key (S (length l)) l k ct false None = WOk pages /\
        all_items E pages = l /\ List.NoDup (all_items E pages) /\
        (forall e, List.In e (all_items E pages) <-> P e) /\
        length pages = page_count (length l) (N.to_nat k) /\ well_formed_walk E (N.to_nat k) pages) /\
    (exists pages,
        walk_by_key (S (length l)) l k ct true None = WOk pages /\
        all_items E pages = rev l /\ List.NoDup (all_items E pages) /\
        (forall e, List.In e (all_items E pages) <-> P e) /\
        length pages = page_count (length l) (N.to_nat k) /\ well_formed_walk E (N.to_nat k) pages) /\
    (exists pages,
        walk_by_offset (S (length l)) l k ct false 0 = WOk pages /\
        all_items E pages = l /\ List.NoDup (all_items E pages) /\
        (forall e, List.In e (all_items E pages) <-> P e) /\
        length pages = page_count (length l) (N.to_nat k) /\ well_formed_walk E (N.to_nat k) pages /\
        (ct = true -> Forall (fun r => pg_total r = N.of_nat (length l)) pages)).

Theorem pages_partition_intro {E : Type} (l : list E) (P : E -> Prop) :
  (forall e, List.In e l <-> P e) -> List.NoDup l -> pages_partition l P.
Proof.
  intros Hex Hnd k ct Hk. repeat split.
  - destruct (walk_by_key_partition E l k ct Hk) as [pages [H1 [H2 [H3 H4]]]].
    exists pages. rewrite H2. repeat split; auto; apply Hex.
  - destruct (walk_by_key_reverse_partition E l k ct Hk) as [pages [H1 [H2 [H3 H4]]]].
    exists pages. rewrite H2. repeat split; auto.
    + apply NoDup_rev. exact Hnd.
    + intro Hin. apply Hex. apply in_rev. exact Hin.
    + intro Hp. apply in_rev. rewrite rev_involutive. apply Hex. exact Hp.
  - destruct (walk_by_offset_partition E l k ct Hk) as [pages [H1 [H2 [H3 [H4 H5]]]]].
    exists pages. rewrite H2. repeat split; auto; apply Hex.
Qed.

(* a single request with count_total and no cursor reports the number of matching entries *)
Theorem total_is_count {E : Type} (l : list E) (req : page_req) (r : page_res E) :
  pr_key req = None -> pr_count_total req = true -> paginate l req = POk r ->
  pg_total r = N.of_nat (length l).
Proof. intros H1 H2 H3. apply (total_correct E l req r H1 H2 H3). Qed.

Section partitions.
  Variable s : state.

  Theorem q_classes_pages_partition : pages_partition (q_classes s) (fun e => classes s !! e.1 = Some e.2).
  Proof. apply pages_partition_intro; [apply q_classes_exact|apply q_classes_nodup]. Qed.
  Theorem q_classes_by_admin_pages_partition a :
    pages_partition (q_classes_by_admin s a) (fun e => classes s !! e.1 = Some e.2 /\ cl_admin e.2 = a).
  Proof. apply pages_partition_intro; [apply q_classes_by_admin_exact|apply q_classes_by_admin_nodup]. Qed.
  Theorem q_class_issuers_pages_partition (ab : addr -> bytes) k :
    pages_partition (q_class_issuers ab s k) (fun e => e ∈ class_issuers s /\ e.1 = k).
  Proof. apply pages_partition_intro; [apply q_class_issuers_exact|apply q_class_issuers_nodup]. Qed.

  Theorem q_projects_pages_partition : pages_partition (q_projects s) (fun e => projects s !! e.1 = Some e.2).
  Proof. apply pages_partition_intro; [apply q_projects_exact|apply q_projects_nodup]. Qed.
  Theorem q_projects_by_class_pages_partition k :
    pages_partition (q_projects_by_class s k) (fun e => projects s !! e.1 = Some e.2 /\ pj_class_key e.2 = k).
  Proof. apply pages_partition_intro; [apply q_projects_by_class_exact|apply q_projects_by_class_nodup]. Qed.
  Theorem q_projects_by_admin_pages_partition a :
    pages_partition (q_projects_by_admin s a) (fun e => projects s !! e.1 = Some e.2 /\ pj_admin e.2 = a).
  Proof. apply pages_partition_intro; [apply q_projects_by_admin_exact|apply q_projects_by_admin_nodup]. Qed.
  Theorem q_projects_by_reference_id_pages_partition r :
    pages_partition (q_projects_by_reference_id s r) (fun e => projects s !! e.1 = Some e.2 /\ pj_reference_id e.2 = r).
  Proof. apply pages_partition_intro; [apply q_projects_by_reference_id_exact|apply q_projects_by_reference_id_nodup]. Qed.

  Theorem q_batches_pages_partition : pages_partition (q_batches s) (fun e => batches s !! e.1 = Some e.2).
  Proof. apply pages_partition_intro; [apply q_batches_exact|apply q_batches_nodup]. Qed.
  Theorem q_batches_by_class_pages_partition cid :
    ids_wf s -> validate_class_id cid = true ->
    pages_partition (q_batches_by_class s cid) (fun e => batches s !! e.1 = Some e.2 /\ batch_in_class s e.2 cid).
  Proof.
    intros Hwf Hcid. apply pages_partition_intro; [|apply q_batches_by_class_nodup].
    intro e. apply q_batches_by_class_exact; assumption.
  Qed.
  Theorem q_batches_by_issuer_pages_partition a :
    pages_partition (q_batches_by_issuer s a) (fun e => batches s !! e.1 = Some e.2 /\ ba_issuer e.2 = a).
  Proof. apply pages_partition_intro; [apply q_batches_by_issuer_exact|apply q_batches_by_issuer_nodup]. Qed.
  Theorem q_batches_by_project_pages_partition k :
    pages_partition (q_batches_by_project s k) (fun e => batches s !! e.1 = Some e.2 /\ ba_project_key e.2 = k).
  Proof. apply pages_partition_intro; [apply q_batches_by_project_exact|apply q_batches_by_project_nodup]. Qed.

  Theorem q_balances_pages_partition a :
    pages_partition (q_balances s a) (fun e => balances s !! e.1 = Some e.2 /\ e.1.1 = a).
  Proof. apply pages_partition_intro; [apply q_balances_exact|apply q_balances_nodup]. Qed.
  Theorem q_balances_by_batch_pages_partition (ab : addr -> bytes) k :
    pages_partition (q_balances_by_batch ab s k) (fun e => balances s !! e.1 = Some e.2 /\ e.1.2 = k).
  Proof. apply pages_partition_intro; [apply q_balances_by_batch_exact|apply q_balances_by_batch_nodup]. Qed.
  Theorem q_all_balances_pages_partition (ab : addr -> bytes) :
    pages_partition (q_all_balances ab s) (fun e => balances s !! e.1 = Some e.2).
  Proof. apply pages_partition_intro; [apply q_all_balances_exact|apply q_all_balances_nodup]. Qed.

  Theorem q_allowed_class_creators_pages_partition (ab : addr -> bytes) :
    pages_partition (q_allowed_class_creators ab s) (fun a => a ∈ allowed_creators s).
  Proof. apply pages_partition_intro; [apply q_allowed_class_creators_exact|apply q_allowed_class_creators_nodup]. Qed.

  Theorem q_baskets_pages_partition : pages_partition (q_baskets s) (fun e => baskets s !! e.1 = Some e.2).
  Proof. apply pages_partition_intro; [apply q_baskets_exact|apply q_baskets_nodup]. Qed.
  Theorem q_basket_balances_pages_partition id :
    pages_partition (q_basket_balances s id) (fun e => basket_balances s !! e.1 = Some e.2 /\ e.1.1 = id).
  Proof. apply pages_partition_intro; [apply q_basket_balances_exact|apply q_basket_balances_nodup]. Qed.

  Theorem q_sell_orders_pages_partition : pages_partition (q_sell_orders s) (fun e => sell_orders s !! e.1 = Some e.2).
  Proof. apply pages_partition_intro; [apply q_sell_orders_exact|apply q_sell_orders_nodup]. Qed.
  Theorem q_sell_orders_by_seller_pages_partition a :
    pages_partition (q_sell_orders_by_seller s a) (fun e => sell_orders s !! e.1 = Some e.2 /\ so_seller e.2 = a).
  Proof. apply pages_partition_intro; [apply q_sell_orders_by_seller_exact|apply q_sell_orders_by_seller_nodup]. Qed.
  Theorem q_sell_orders_by_batch_pages_partition k :
    pages_partition (q_sell_orders_by_batch s k) (fun e => sell_orders s !! e.1 = Some e.2 /\ so_batch_key e.2 = k).
  Proof. apply pages_partition_intro; [apply q_sell_orders_by_batch_exact|apply q_sell_orders_by_batch_nodup]. Qed.
  Theorem q_allowed_denoms_pages_partition :
    pages_partition (q_allowed_denoms s) (fun e => allowed_denoms s !! e.1 = Some e.2).
  Proof. apply pages_partition_intro; [apply q_allowed_denoms_exact|apply q_allowed_denoms_nodup]. Qed.
End partitions.

(* ------------------------------------------------------------------ *)
(* pagination commutes with rendering                                  *)
(* ------------------------------------------------------------------ *)

(* The handlers paginate the index entries and render each entry of the page; cursors are
   positions, so paginating the rendered list gives the rendered pages of the entry list. *)
Definition page_res_map {A B} (f : A -> B) (r : page_res A) : page_res B :=
  MkPageRes (map f (pg_items r)) (pg_next r) (pg_total r) (pg_present r).

Definition pres_map {A B} (f : A -> B) (r : pres A) : pres B :=
  match r with
  | POk r => POk (page_res_map f r)
  | PErrCursorAndOffset => PErrCursorAndOffset
  | PSkipPastEnd n => PSkipPastEnd n
  end.

Definition walk_res_map {A B} (f : A -> B) (w : walk_res A) : walk_res B :=
  match w with
  | WOk pages => WOk (map (page_res_map f) pages)
  | WFailed => WFailed
  | WOutOfFuel => WOutOfFuel
  end.

Section paginate_map.
  Context {A B : Type} (f : A -> B).
  Let g (p : nat * A) : nat * B := (fst p, f (snd p)).

  Lemma index_from_map l : forall i, index_from i (map f l) = map g (index_from i l).
  Proof. induction l as [|x l IH]; intro i; cbn; [reflexivity|]. rewrite IH. reflexivity. Qed.

  Lemma source_map l key rv : source (map f l) key rv = map g (source l key rv).
  Proof.
    unfold source. rewrite index_from_map.
    destruct rv, key; try reflexivity.
    - rewrite firstn_map, map_rev. reflexivity.
    - rewrite map_rev. reflexivity.
    - rewrite skipn_map. reflexivity.
  Qed.

  Lemma map_snd_g x : map snd (map g x) = map f (map snd x).
  Proof. rewrite !map_map. reflexivity. Qed.
  Lemma map_fst_g x : map fst (map g x) = map fst x.
  Proof. rewrite map_map. reflexivity. Qed.

  Lemma page_core_map s off lim ct : page_core (map g s) off lim ct = pres_map f (page_core s off lim ct).
  Proof.
    unfold page_core. rewrite map_length.
    destruct (N.of_nat (length s) <? off)%N; [reflexivity|].
    rewrite skipn_map, map_length.
    destruct ((lim =? 0)%N || (N.of_nat (length (skipn (N.to_nat off) s)) <? lim)%N).
    - cbn. unfold page_res_map. cbn. rewrite map_snd_g. reflexivity.
    - cbn. unfold page_res_map. cbn. rewrite firstn_map, map_snd_g, map_fst_g. reflexivity.
  Qed.

  Theorem paginate_map l req : paginate (map f l) req = pres_map f (paginate l req).
  Proof.
    unfold paginate. rewrite source_map.
    destruct (pr_key req), (pr_offset req =? 0)%N; try reflexivity;
      (match goal with |- (if ?c then _ else _) = _ => destruct c end;
       [apply page_core_map|cbn; unfold page_res_map; cbn; rewrite map_snd_g; reflexivity]).
  Qed.

  Lemma walk_cons_map r w : walk_res_map f (walk_cons r w) = walk_cons (page_res_map f r) (walk_res_map f w).
  Proof. destruct w; reflexivity. Qed.

  Theorem walk_by_key_map l k ct rv : forall fuel cursor,
    walk_by_key fuel (map f l) k ct rv cursor = walk_res_map f (walk_by_key fuel l k ct rv cursor).
  Proof.
    induction fuel as [|fuel IH]; intro cursor; cbn [walk_by_key]; [reflexivity|].
    rewrite paginate_map. destruct (paginate l _) as [r| |n]; cbn; try reflexivity.
    destruct (pg_next r) as [c|]; [|reflexivity].
    rewrite IH, walk_cons_map. reflexivity.
  Qed.

  Theorem walk_by_offset_map l k ct rv : forall fuel i,
    walk_by_offset fuel (map f l) k ct rv i = walk_res_map f (walk_by_offset fuel l k ct rv i).
  Proof.
    induction fuel as [|fuel IH]; intro i; cbn [walk_by_offset]; [reflexivity|].
    rewrite paginate_map. destruct (paginate l _) as [r| |n]; cbn; try reflexivity.
    destruct (pg_next r) as [c|]; [|reflexivity].
    rewrite IH, walk_cons_map. reflexivity.
  Qed.

  Lemma all_items_map pages : all_items B (map (page_res_map f) pages) = map f (all_items A pages).
  Proof.
    unfold all_items. induction pages as [|r pages IH]; [reflexivity|].
    cbn. rewrite map_app. f_equal. exact IH.
  Qed.
End paginate_map.

(* The rendered walk of a paginated query: if the handler's join never fails on the entries
   ([render e = Some (row e)] for every matching entry), walking the pages of the rendered list the
   handler paginates yields exactly the rows of the matching entries, in order. *)
Theorem rendered_walk {E : Type} (l : list E) (render : E -> option mrow) (k : N) (ct : bool) :
  (1 <= k)%N ->
  exists pages,
    walk_by_key (S (length (map render l))) (map render l) k ct false None = WOk (map (page_res_map render) pages) /\
    all_items (option mrow) (map (page_res_map render) pages) = map render l /\
    all_items E pages = l.
Proof.
  intro Hk. destruct (walk_by_key_partition E l k ct Hk) as [pages [H1 [H2 _]]].
  exists pages. rewrite map_length, walk_by_key_map, H1. cbn. rewrite all_items_map, H2. auto.
Qed.

(* ------------------------------------------------------------------ *)
(* the request level: which list a request paginates                   *)
(* ------------------------------------------------------------------ *)

Section requests.
  Variable ab : addr -> bytes.
  Variable s : state.

  Lemma class_by_id_Some id k c : class_by_id s id = Some (k, c) -> classes s !! k = Some c /\ cl_id c = id.
  Proof. unfold class_by_id. intro Hf. apply qp_map_find_Some in Hf. rewrite bytes_eqb_eq in Hf. exact Hf. Qed.
  Lemma class_by_id_None id : class_by_id s id = None -> forall k c, classes s !! k = Some c -> cl_id c <> id.
  Proof.
    unfold class_by_id. intros Hf k c Hk E. pose proof (qp_map_find_None _ _ Hf k c Hk) as Hn.
    cbn in Hn. apply bytes_eqb_eq in E. congruence.
  Qed.
  Lemma project_by_id_Some id k p : project_by_id s id = Some (k, p) -> projects s !! k = Some p /\ pj_id p = id.
  Proof. unfold project_by_id. intro Hf. apply qp_map_find_Some in Hf. rewrite bytes_eqb_eq in Hf. exact Hf. Qed.
  Lemma project_by_id_None id : project_by_id s id = None -> forall k p, projects s !! k = Some p -> pj_id p <> id.
  Proof.
    unfold project_by_id. intros Hf k p Hk E. pose proof (qp_map_find_None _ _ Hf k p Hk) as Hn.
    cbn in Hn. apply bytes_eqb_eq in E. congruence.
  Qed.
  Lemma batch_by_denom_Some d k b : batch_by_denom s d = Some (k, b) -> batches s !! k = Some b /\ ba_denom b = d.
  Proof. unfold batch_by_denom. intro Hf. apply qp_map_find_Some in Hf. rewrite bytes_eqb_eq in Hf. exact Hf. Qed.
  Lemma batch_by_denom_None d : batch_by_denom s d = None -> forall k b, batches s !! k = Some b -> ba_denom b <> d.
  Proof.
    unfold batch_by_denom. intros Hf k b Hk E. pose proof (qp_map_find_None _ _ Hf k b Hk) as Hn.
    cbn in Hn. apply bytes_eqb_eq in E. congruence.
  Qed.
  Lemma basket_by_denom_Some d id b : basket_by_denom s d = Some (id, b) -> baskets s !! id = Some b /\ bk_denom b = d.
  Proof. unfold basket_by_denom. intro Hf. apply qp_map_find_Some in Hf. rewrite bytes_eqb_eq in Hf. exact Hf. Qed.

  (* ---- by class: the class is looked up by id first; a missing class is NotFound, never an
     empty or a neighbouring class's list *)
  Theorem run_projects_by_class id :
    match class_by_id s id with
    | Some (k, _) => run_query ab s (QProjectsByClass id) = QPaged (map (r_project s) (q_projects_by_class s k))
    | None => run_query ab s (QProjectsByClass id) = QErr ENotFound
    end.
  Proof. cbn. destruct (class_by_id s id) as [[k c]|]; reflexivity. Qed.

  Theorem run_batches_by_class id :
    match class_by_id s id with
    | Some (_, c) => run_query ab s (QBatchesByClass id) = QPaged (map (r_batch s) (q_batches_by_class s (cl_id c)))
    | None => run_query ab s (QBatchesByClass id) = QErr ENotFound
    end.
  Proof. cbn. destruct (class_by_id s id) as [[k c]|]; reflexivity. Qed.

  Theorem run_batches_by_project id :
    match project_by_id s id with
    | Some (k, p) => run_query ab s (QBatchesByProject id) =
                     QPaged (map (fun e : N * batch => Some (batch_info (pj_id p) e.2)) (q_batches_by_project s k))
    | None => run_query ab s (QBatchesByProject id) = QErr ENotFound
    end.
  Proof. cbn. destruct (project_by_id s id) as [[k p]|]; reflexivity. Qed.

  Theorem run_balances_by_batch d :
    match batch_by_denom s d with
    | Some (k, b) => run_query ab s (QBalancesByBatch d) =
                     QPaged (map (fun e : addr * N * balance => Some (balance_info e.1.1 (ba_denom b) e.2)) (q_balances_by_batch ab s k))
    | None => run_query ab s (QBalancesByBatch d) = QErr EInvalidArgument
    end.
  Proof. cbn. destruct (batch_by_denom s d) as [[k b]|]; reflexivity. Qed.

  Theorem run_sell_orders_by_batch d :
    match batch_by_denom s d with
    | Some (k, b) => run_query ab s (QSellOrdersByBatch d) = QPaged (map (r_order_of_batch s (ba_denom b)) (q_sell_orders_by_batch s k))
    | None => run_query ab s (QSellOrdersByBatch d) = QErr ENotFound
    end.
  Proof. cbn. destruct (batch_by_denom s d) as [[k b]|]; reflexivity. Qed.

  Theorem run_projects_by_reference_id r :
    r <> [] -> run_query ab s (QProjectsByReferenceId r) = QPaged (map (r_project s) (q_projects_by_reference_id s r)).
  Proof. intro Hr. cbn. destruct r; [congruence|reflexivity]. Qed.

  Theorem run_by_address a :
    run_query ab s (QClassesByAdmin a) = QPaged (map (fun e => Some (r_class e)) (q_classes_by_admin s a)) /\
    run_query ab s (QProjectsByAdmin a) = QPaged (map (r_project s) (q_projects_by_admin s a)) /\
    run_query ab s (QBatchesByIssuer a) = QPaged (map (r_batch s) (q_batches_by_issuer s a)) /\
    run_query ab s (QBalances a) = QPaged (map (r_balance s) (q_balances s a)) /\
    run_query ab s (QSellOrdersBySeller a) = QPaged (map (r_order s) (q_sell_orders_by_seller s a)).
  Proof. repeat split. Qed.

  (* ---------------------------------------------------------------- *)
  (* single-entity queries return the stored row                       *)
  (* ---------------------------------------------------------------- *)

  Theorem q_class_stored id r :
    run_query ab s (QClass id) = QOne r ->
    exists k c, classes s !! k = Some c /\ cl_id c = id /\ r = RClass (cl_id c) (cl_admin c) (cl_metadata c) (cl_ct c).
  Proof.
    cbn. destruct (class_by_id s id) as [[k c]|] eqn:E; [|discriminate].
    intro H. inversion H; subst r. apply class_by_id_Some in E. exists k, c. tauto.
  Qed.

  Theorem q_class_complete k c :
    classes s !! k = Some c -> exists r, run_query ab s (QClass (cl_id c)) = QOne r.
  Proof.
    intro Hk. cbn. destruct (class_by_id s (cl_id c)) as [[k' c']|] eqn:E; [eexists; reflexivity|].
    exfalso. exact (class_by_id_None _ E k c Hk eq_refl).
  Qed.

  Theorem q_project_stored id r :
    run_query ab s (QProject id) = QOne r ->
    exists k p c, projects s !! k = Some p /\ pj_id p = id /\ classes s !! pj_class_key p = Some c /\
      r = RProject (pj_id p) (pj_admin p) (cl_id c) (pj_jurisdiction p) (pj_metadata p) (pj_reference_id p).
  Proof.
    cbn. destruct (project_by_id s id) as [[k p]|] eqn:E; [|discriminate].
    unfold r_project. cbn. destruct (classes s !! pj_class_key p) as [c|] eqn:Ec; [|discriminate].
    intro H. inversion H; subst r. apply project_by_id_Some in E. exists k, p, c. tauto.
  Qed.

  Theorem q_batch_stored d r :
    run_query ab s (QBatch d) = QOne r ->
    exists k b p, batches s !! k = Some b /\ ba_denom b = d /\ projects s !! ba_project_key b = Some p /\
      r = RBatch (ba_issuer b) (pj_id p) (ba_denom b) (ba_metadata b) (ba_start b) (ba_end b) (ba_issuance b) (ba_open b).
  Proof.
    cbn. destruct (validate_batch_denom d); cbn; [|discriminate].
    destruct (batch_by_denom s d) as [[k b]|] eqn:E; [|discriminate].
    unfold r_batch. cbn. destruct (projects s !! ba_project_key b) as [p|] eqn:Ep; [|discriminate].
    intro H. inversion H; subst r. apply batch_by_denom_Some in E. exists k, b, p. tauto.
  Qed.

  (* Balance: the stored row, or zeros when the account has no row for the batch *)
  Theorem q_balance_stored a d r :
    run_query ab s (QBalance a d) = QOne r ->
    exists k b, batches s !! k = Some b /\ ba_denom b = d /\
      match balances s !! (a, k) with
      | Some bl => r = RBalance a d (bl_tradable bl) (bl_retired bl) (bl_escrowed bl)
      | None => r = RBalance a d dzero dzero dzero
      end.
  Proof.
    cbn. destruct (batch_by_denom s d) as [[k b]|] eqn:E; [|discriminate].
    intro H. inversion H; subst r. apply batch_by_denom_Some in E. destruct E as [E1 E2].
    exists k, b. split; [exact E1|]. split; [exact E2|].
    unfold get_balance, balance_info. rewrite E2. destruct (balances s !! (a, k)); reflexivity.
  Qed.

  Theorem q_supply_stored d r :
    run_query ab s (QSupply d) = QOne r ->
    exists k b su, batches s !! k = Some b /\ ba_denom b = d /\ supplies s !! k = Some su /\
      r = RSupply (su_tradable su) (su_retired su) (su_cancelled su).
  Proof.
    cbn. destruct (batch_by_denom s d) as [[k b]|] eqn:E; [|discriminate].
    destruct (supplies s !! k) as [su|] eqn:Es; [|discriminate].
    intro H. inversion H; subst r. apply batch_by_denom_Some in E. exists k, b, su. tauto.
  Qed.

  Theorem q_credit_type_stored abbrev r :
    run_query ab s (QCreditType abbrev) = QOne r ->
    exists ct, credit_types s !! abbrev = Some ct /\ r = RCreditType abbrev (ct_name ct) (ct_unit ct) (ct_precision ct).
  Proof.
    cbn. destruct (credit_types s !! abbrev) as [ct|]; [|discriminate].
    intro H. inversion H; subst r. exists ct. auto.
  Qed.

  Theorem q_sell_order_stored id r :
    run_query ab s (QSellOrder id) = QOne r ->
    exists o b m, sell_orders s !! id = Some o /\ batches s !! so_batch_key o = Some b /\ markets s !! so_market_id o = Some m /\
      r = ROrder id (so_seller o) (ba_denom b) (so_quantity o) (mk_denom m) (so_ask_amount o) (so_disable_auto_retire o) (so_expiration o).
  Proof.
    cbn. destruct (sell_orders s !! id) as [o|] eqn:Eo; [|discriminate].
    unfold r_order. cbn. destruct (batches s !! so_batch_key o) as [b|] eqn:Eb; [|discriminate].
    destruct (markets s !! so_market_id o) as [m|] eqn:Em; [|discriminate].
    intro H. inversion H; subst r. exists o, b, m. auto.
  Qed.

  Theorem q_basket_stored d r :
    run_query ab s (QBasket d) = QOne r ->
    exists id k, baskets s !! id = Some k /\ bk_denom k = d /\
      r = RBasketOne id (bk_denom k) (bk_name k) (bk_disable_auto_retire k) (bk_ct k) (bk_criteria k) (bk_exponent k) (bk_curator k)
                     (map snd (q_basket_classes s id)) /\
      (forall c, List.In c (map snd (q_basket_classes s id)) <-> (id, c) ∈ basket_classes s).
  Proof.
    cbn. destruct (basket_by_denom s d) as [[id k]|] eqn:E; [|discriminate].
    intro H. inversion H; subst r. apply basket_by_denom_Some in E. exists id, k.
    repeat split; try tauto.
    - intro Hin. apply in_map_iff in Hin. destruct Hin as [[i c'] [E1 E2]]. cbn in E1. subst c'.
      apply q_basket_classes_exact in E2. cbn in E2. destruct E2 as [E2 ->]. exact E2.
    - intro Hin. apply in_map_iff. exists (id, c). split; [reflexivity|].
      apply q_basket_classes_exact. cbn. auto.
  Qed.

  Theorem q_basket_balance_stored bd d r :
    run_query ab s (QBasketBalance bd d) = QOne r ->
    exists id k, baskets s !! id = Some k /\ bk_denom k = bd /\
      match basket_balances s !! (id, d) with
      | Some bb => r = RAmount (bb_balance bb)
      | None => r = RAmount dzero
      end.
  Proof.
    cbn. destruct (basket_by_denom s bd) as [[id k]|] eqn:E; [|discriminate].
    destruct (batch_by_denom s d) as [e|]; [|discriminate].
    apply basket_by_denom_Some in E. intro H. exists id, k. split; [tauto|]. split; [tauto|].
    destruct (basket_balances s !! (id, d)); inversion H; reflexivity.
  Qed.
End requests.

(* ------------------------------------------------------------------ *)
(* the three statements bundled, one lemma per list query              *)
(* ------------------------------------------------------------------ *)

(* [l] is exactly the set of elements satisfying [P] (each once), and every way of walking its pages
   returns each of them exactly once with a correct total *)
Definition exact_list {E : Type} (l : list E) (P : E -> Prop) : Prop :=
  (forall e, List.In e l <-> P e) /\ List.NoDup l /\ pages_partition l P.

Lemma exact_list_intro {E : Type} (l : list E) (P : E -> Prop) :
  (forall e, List.In e l <-> P e) -> List.NoDup l -> exact_list l P.
Proof. intros H1 H2. split; [exact H1|]. split; [exact H2|]. apply pages_partition_intro; assumption. Qed.

Section specs.
  Variable s : state.

  Lemma q_classes_spec : exact_list (q_classes s) (fun e => classes s !! e.1 = Some e.2).
  Proof. apply exact_list_intro; [apply q_classes_exact|apply q_classes_nodup]. Qed.
  Lemma q_classes_by_admin_spec a :
    exact_list (q_classes_by_admin s a) (fun e => classes s !! e.1 = Some e.2 /\ cl_admin e.2 = a).
  Proof. apply exact_list_intro; [apply q_classes_by_admin_exact|apply q_classes_by_admin_nodup]. Qed.
  Lemma q_class_issuers_spec (ab : addr -> bytes) k :
    exact_list (q_class_issuers ab s k) (fun e => e ∈ class_issuers s /\ e.1 = k).
  Proof. apply exact_list_intro; [apply q_class_issuers_exact|apply q_class_issuers_nodup]. Qed.
  Lemma q_projects_spec : exact_list (q_projects s) (fun e => projects s !! e.1 = Some e.2).
  Proof. apply exact_list_intro; [apply q_projects_exact|apply q_projects_nodup]. Qed.
  Lemma q_projects_by_class_spec k :
    exact_list (q_projects_by_class s k) (fun e => projects s !! e.1 = Some e.2 /\ pj_class_key e.2 = k).
  Proof. apply exact_list_intro; [apply q_projects_by_class_exact|apply q_projects_by_class_nodup]. Qed.
  Lemma q_projects_by_admin_spec a :
    exact_list (q_projects_by_admin s a) (fun e => projects s !! e.1 = Some e.2 /\ pj_admin e.2 = a).
  Proof. apply exact_list_intro; [apply q_projects_by_admin_exact|apply q_projects_by_admin_nodup]. Qed.
  Lemma q_projects_by_reference_id_spec r :
    exact_list (q_projects_by_reference_id s r) (fun e => projects s !! e.1 = Some e.2 /\ pj_reference_id e.2 = r).
  Proof. apply exact_list_intro; [apply q_projects_by_reference_id_exact|apply q_projects_by_reference_id_nodup]. Qed.
  Lemma q_batches_spec : exact_list (q_batches s) (fun e => batches s !! e.1 = Some e.2).
  Proof. apply exact_list_intro; [apply q_batches_exact|apply q_batches_nodup]. Qed.
  Lemma q_batches_by_class_spec cid :
    ids_wf s -> validate_class_id cid = true ->
    exact_list (q_batches_by_class s cid) (fun e => batches s !! e.1 = Some e.2 /\ batch_in_class s e.2 cid).
  Proof.
    intros Hwf Hcid. apply exact_list_intro; [|apply q_batches_by_class_nodup].
    intro e. apply q_batches_by_class_exact; assumption.
  Qed.
  Lemma q_batches_by_issuer_spec a :
    exact_list (q_batches_by_issuer s a) (fun e => batches s !! e.1 = Some e.2 /\ ba_issuer e.2 = a).
  Proof. apply exact_list_intro; [apply q_batches_by_issuer_exact|apply q_batches_by_issuer_nodup]. Qed.
  Lemma q_batches_by_project_spec k :
    exact_list (q_batches_by_project s k) (fun e => batches s !! e.1 = Some e.2 /\ ba_project_key e.2 = k).
  Proof. apply exact_list_intro; [apply q_batches_by_project_exact|apply q_batches_by_project_nodup]. Qed.
  Lemma q_balances_spec a :
    exact_list (q_balances s a) (fun e => balances s !! e.1 = Some e.2 /\ e.1.1 = a).
  Proof. apply exact_list_intro; [apply q_balances_exact|apply q_balances_nodup]. Qed.
  Lemma q_balances_by_batch_spec (ab : addr -> bytes) k :
    exact_list (q_balances_by_batch ab s k) (fun e => balances s !! e.1 = Some e.2 /\ e.1.2 = k).
  Proof. apply exact_list_intro; [apply q_balances_by_batch_exact|apply q_balances_by_batch_nodup]. Qed.
  Lemma q_all_balances_spec (ab : addr -> bytes) :
    exact_list (q_all_balances ab s) (fun e => balances s !! e.1 = Some e.2).
  Proof. apply exact_list_intro; [apply q_all_balances_exact|apply q_all_balances_nodup]. Qed.
  Lemma q_allowed_class_creators_spec (ab : addr -> bytes) :
    exact_list (q_allowed_class_creators ab s) (fun a => a ∈ allowed_creators s).
  Proof. apply exact_list_intro; [apply q_allowed_class_creators_exact|apply q_allowed_class_creators_nodup]. Qed.
  Lemma q_baskets_spec : exact_list (q_baskets s) (fun e => baskets s !! e.1 = Some e.2).
  Proof. apply exact_list_intro; [apply q_baskets_exact|apply q_baskets_nodup]. Qed.
  Lemma q_basket_balances_spec id :
    exact_list (q_basket_balances s id) (fun e => basket_balances s !! e.1 = Some e.2 /\ e.1.1 = id).
  Proof. apply exact_list_intro; [apply q_basket_balances_exact|apply q_basket_balances_nodup]. Qed.
  Lemma q_sell_orders_spec : exact_list (q_sell_orders s) (fun e => sell_orders s !! e.1 = Some e.2).
  Proof. apply exact_list_intro; [apply q_sell_orders_exact|apply q_sell_orders_nodup]. Qed.
  Lemma q_sell_orders_by_seller_spec a :
    exact_list (q_sell_orders_by_seller s a) (fun e => sell_orders s !! e.1 = Some e.2 /\ so_seller e.2 = a).
  Proof. apply exact_list_intro; [apply q_sell_orders_by_seller_exact|apply q_sell_orders_by_seller_nodup]. Qed.
  Lemma q_sell_orders_by_batch_spec k :
    exact_list (q_sell_orders_by_batch s k) (fun e => sell_orders s !! e.1 = Some e.2 /\ so_batch_key e.2 = k).
  Proof. apply exact_list_intro; [apply q_sell_orders_by_batch_exact|apply q_sell_orders_by_batch_nodup]. Qed.
  Lemma q_allowed_denoms_spec : exact_list (q_allowed_denoms s) (fun e => allowed_denoms s !! e.1 = Some e.2).
  Proof. apply exact_list_intro; [apply q_allowed_denoms_exact|apply q_allowed_denoms_nodup]. Qed.

  (* the unpaginated lists: exactness and no duplicates *)
  Lemma q_credit_types_spec :
    (forall e, List.In e (q_credit_types s) <-> credit_types s !! e.1 = Some e.2) /\ List.NoDup (q_credit_types s).
  Proof. split; [apply q_credit_types_exact|apply q_credit_types_nodup]. Qed.
  Lemma q_allowed_bridge_chains_spec :
    (forall c, List.In c (q_allowed_bridge_chains s) <-> c ∈ allowed_bridge_chains s) /\ List.NoDup (q_allowed_bridge_chains s).
  Proof. split; [apply q_allowed_bridge_chains_exact|apply q_allowed_bridge_chains_nodup]. Qed.
  Lemma q_basket_classes_spec id :
    (forall e, List.In e (q_basket_classes s id) <-> e ∈ basket_classes s /\ e.1 = id) /\ List.NoDup (q_basket_classes s id).
  Proof. split; [apply q_basket_classes_exact|apply q_basket_classes_nodup]. Qed.
End specs.

(* ------------------------------------------------------------------ *)
(* x/data list queries                                                 *)
(* ------------------------------------------------------------------ *)

Lemma dscan_In {E : Type} (l : list E) f leb e : List.In e (dscan l f leb) <-> List.In e l /\ f e = true.
Proof. unfold dscan. rewrite sort_by_In, filter_In. reflexivity. Qed.

Lemma dscan_NoDup {E : Type} (l : list E) f leb : List.NoDup l -> List.NoDup (dscan l f leb).
Proof. intro Hn. unfold dscan. apply sort_by_NoDup, NoDup_filter, Hn. Qed.

(* a table with one row per primary key has no repeated row *)
Lemma NoDup_of_keys {K V : Type} (l : list (K * V)) : List.NoDup (map fst l) -> List.NoDup l.
Proof. apply NoDup_map_inv. Qed.

Section data_exactness.
  Variable ab : addr -> bytes.
  Variable d : DataMsgs.dstate.

  Theorem q_attestations_by_id_exact id e :
    List.In e (q_attestations_by_id ab d id) <-> List.In e (DataMsgs.attestors d) /\ e.1.1 = id.
  Proof. unfold q_attestations_by_id. rewrite dscan_In, bytes_eqb_eq. reflexivity. Qed.

  Theorem q_attestations_by_attestor_exact a e :
    List.In e (q_attestations_by_attestor d a) <-> List.In e (DataMsgs.attestors d) /\ e.1.2 = a.
  Proof. unfold q_attestations_by_attestor. rewrite dscan_In, N.eqb_eq. reflexivity. Qed.

  Theorem q_data_resolvers_by_id_exact id e :
    List.In e (q_data_resolvers_by_id d id) <-> List.In e (DataMsgs.data_resolvers d) /\ e.1 = id.
  Proof. unfold q_data_resolvers_by_id. rewrite dscan_In, bytes_eqb_eq. reflexivity. Qed.

  (* the URL is matched as a whole string *)
  Theorem q_resolvers_by_url_exact url e :
    List.In e (q_resolvers_by_url d url) <-> List.In e (DataMsgs.resolvers d) /\ e.2.1 = url.
  Proof. unfold q_resolvers_by_url. rewrite dscan_In, bytes_eqb_eq. reflexivity. Qed.

  (* The hypotheses are fields of the data-state invariant Inv_data (Data/DataInv.v):
     inv_att_keys, inv_dr_nodup, inv_res_keys, inv_id_iris. *)
  Theorem q_attestations_by_id_spec id :
    List.NoDup (map fst (DataMsgs.attestors d)) ->
    exact_list (q_attestations_by_id ab d id) (fun e => List.In e (DataMsgs.attestors d) /\ e.1.1 = id).
  Proof.
    intro Hn. apply exact_list_intro; [apply q_attestations_by_id_exact|].
    apply dscan_NoDup, NoDup_of_keys, Hn.
  Qed.

  Theorem q_attestations_by_attestor_spec a :
    List.NoDup (map fst (DataMsgs.attestors d)) ->
    exact_list (q_attestations_by_attestor d a) (fun e => List.In e (DataMsgs.attestors d) /\ e.1.2 = a).
  Proof.
    intro Hn. apply exact_list_intro; [apply q_attestations_by_attestor_exact|].
    apply dscan_NoDup, NoDup_of_keys, Hn.
  Qed.

  Theorem q_data_resolvers_by_id_spec id :
    List.NoDup (DataMsgs.data_resolvers d) ->
    exact_list (q_data_resolvers_by_id d id) (fun e => List.In e (DataMsgs.data_resolvers d) /\ e.1 = id).
  Proof.
    intro Hn. apply exact_list_intro; [apply q_data_resolvers_by_id_exact|]. apply dscan_NoDup, Hn.
  Qed.

  Theorem q_resolvers_by_url_spec url :
    List.NoDup (map fst (DataMsgs.resolvers d)) ->
    exact_list (q_resolvers_by_url d url) (fun e => List.In e (DataMsgs.resolvers d) /\ e.2.1 = url).
  Proof.
    intro Hn. apply exact_list_intro; [apply q_resolvers_by_url_exact|].
    apply dscan_NoDup, NoDup_of_keys, Hn.
  Qed.

  (* the IRI lookup behind the by-IRI and by-hash queries *)
  Theorem data_id_by_iri_sound iri id : data_id_by_iri d iri = Some id -> List.In (id, iri) (DataMsgs.data_ids d).
  Proof.
    unfold data_id_by_iri. destruct (find _ _) as [[id' iri']|] eqn:E; [|discriminate].
    cbn. intro H. inversion H; subst id'. apply find_some in E. destruct E as [E1 E2].
    cbn in E2. apply bytes_eqb_eq in E2. subst iri'. exact E1.
  Qed.

  Theorem data_id_by_iri_complete iri id :
    List.NoDup (map snd (DataMsgs.data_ids d)) -> List.In (id, iri) (DataMsgs.data_ids d) ->
    data_id_by_iri d iri = Some id.
  Proof.
    intros Hn Hin. unfold data_id_by_iri.
    destruct (find _ _) as [[id' iri']|] eqn:E.
    - apply find_some in E. destruct E as [E1 E2]. cbn in E2. apply bytes_eqb_eq in E2. subst iri'. cbn.
      f_equal. revert Hn Hin E1. generalize (DataMsgs.data_ids d). intro l.
      induction l as [|[i r] l IH]; cbn; [tauto|].
      intros Hn Hin E1. inversion Hn as [|? ? Hx Hl]; subst.
      destruct Hin as [Hin|Hin], E1 as [E1|E1].
      + congruence.
      + inversion Hin; subst. exfalso. apply Hx. apply in_map_iff. exists (id', iri). auto.
      + inversion E1; subst. exfalso. apply Hx. apply in_map_iff. exists (id, iri). auto.
      + apply IH; assumption.
    - exfalso. pose proof (find_none _ _ E _ Hin) as Hf. cbn in Hf. rewrite bytes_eqb_refl in Hf. discriminate.
  Qed.

  Theorem run_attestations_by_iri iri :
    iri_ok iri = true ->
    match data_id_by_iri d iri with
    | Some id => run_data_query ab d (DQAttestationsByIRI iri) =
                 QPaged (map (fun e : bytes * addr * ts => Some (RAttestation iri e.1.2 e.2)) (q_attestations_by_id ab d id))
    | None => run_data_query ab d (DQAttestationsByIRI iri) = QErr ENotFound
    end.
  Proof. intro Hok. cbn. rewrite Hok. unfold attestations_of_iri. destruct (data_id_by_iri d iri); reflexivity. Qed.

  Theorem q_resolver_stored id r :
    run_data_query ab d (DQResolver id) = QOne r ->
    exists v, DataMsgs.get_resolver id d = Some v /\ r = RResolver id v.1 v.2.
  Proof.
    cbn. destruct (id =? 0)%N; [discriminate|].
    destruct (DataMsgs.get_resolver id d) as [v|]; [|discriminate].
    intro H. inversion H; subst r. exists v. auto.
  Qed.
End data_exactness.
