(* Property C17, pure part: "walking [a list query's] pages with any page size yields each element
   exactly once with a correct total."

   [l] is the list of rows of the queried index that pass the query's filter, in index order; the
   pagination model is Regen.Query.Paginate (ORM paginator as configured by
   /repo/types/ormutil/compatability.go).  Cursors are abstracted as positions in [l].
   Quantifiers: every element type, every list, every page size k >= 1, count_total on or off. *)
From Coq Require Import List NArith Bool Arith.
Require Import Regen.Generated.QueryConsts Regen.Query.Paginate Regen.Query.PaginateProps.
Import ListNotations.

(* following next_key cursors: the pages concatenate to exactly l (every element once, in order);
   max 1 (ceil (|l| / k)) requests; all pages but the last are full and carry a cursor; the last page
   has no next cursor; fuel S |l| suffices (the out-of-fuel and error outcomes are excluded) *)
Theorem C17_walk_by_key : forall (A : Type) (l : list A) (k : N) (ct : bool),
  (1 <= k)%N ->
  exists pages,
    walk_by_key (S (length l)) l k ct false None = WOk pages /\
    all_items A pages = l /\
    length pages = page_count (length l) (N.to_nat k) /\
    well_formed_walk A (N.to_nat k) pages.
Proof. exact walk_by_key_partition. Qed.
Print Assumptions C17_walk_by_key.

(* the same with PageRequest.reverse: descending order *)
Theorem C17_walk_by_key_reverse : forall (A : Type) (l : list A) (k : N) (ct : bool),
  (1 <= k)%N ->
  exists pages,
    walk_by_key (S (length l)) l k ct true None = WOk pages /\
    all_items A pages = rev l /\
    length pages = page_count (length l) (N.to_nat k) /\
    well_formed_walk A (N.to_nat k) pages.
Proof. exact walk_by_key_reverse_partition. Qed.
Print Assumptions C17_walk_by_key_reverse.

(* requesting offsets 0, k, 2k, ...: same partition, and with count_total every page reports |l| *)
Theorem C17_walk_by_offset : forall (A : Type) (l : list A) (k : N) (ct : bool),
  (1 <= k)%N ->
  exists pages,
    walk_by_offset (S (length l)) l k ct false 0 = WOk pages /\
    all_items A pages = l /\
    length pages = page_count (length l) (N.to_nat k) /\
    well_formed_walk A (N.to_nat k) pages /\
    (ct = true -> Forall (fun r => pg_total r = N.of_nat (length l)) pages).
Proof. exact walk_by_offset_partition. Qed.
Print Assumptions C17_walk_by_offset.

(* count_total without a cursor is the size of the whole list, for every offset, limit, direction *)
Theorem C17_total_correct : forall (A : Type) (l : list A) (req : page_req) (r : page_res A),
  pr_key req = None -> pr_count_total req = true ->
  paginate l req = POk r -> pg_total r = N.of_nat (length l) /\ pg_present r = true.
Proof. exact total_correct. Qed.
Print Assumptions C17_total_correct.

(* with a cursor the ORM counts from the cursor on (unlike "total" of the whole list) *)
Theorem C17_total_after_cursor : forall (A : Type) (l : list A) (p : nat) (K : N) (r : page_res A),
  paginate l (MkPageReq (Some p) 0 K true false) = POk r ->
  pg_total r = N.of_nat (length l - S p).
Proof. exact total_after_cursor. Qed.
Print Assumptions C17_total_after_cursor.

(* boundary behaviours a client can trigger (documented, not excluded) *)
Theorem C17_zero_limit_returns_everything : forall (A : Type) (l : list A) (rv : bool),
  paginate l (MkPageReq None 0 0 false rv) = POk (MkPageRes (if rv then rev l else l) None 0%N false).
Proof. exact zero_limit_returns_everything. Qed.
Print Assumptions C17_zero_limit_returns_everything.

Theorem C17_offset_past_end : forall (A : Type) (l : list A) (off K : N) (ct rv : bool),
  (N.of_nat (length l) < off)%N ->
  paginate l (MkPageReq None off K ct rv) = PSkipPastEnd (N.of_nat (length l)).
Proof. exact offset_past_end. Qed.
Print Assumptions C17_offset_past_end.

(* ---------- concrete instances ---------- *)

Example ex_rows : list nat := [10; 11; 12; 13; 14; 15; 16].

Example ex_key_walk :
  walk_by_key 8 ex_rows 3 true false None =
  WOk [ MkPageRes [10; 11; 12] (Some 2) 7%N true;
        MkPageRes [13; 14; 15] (Some 5) 4%N true;
        MkPageRes [16] None 1%N true ].
Proof. vm_compute. reflexivity. Qed.

Example ex_offset_walk :
  walk_by_offset 8 ex_rows 3 true false 0 =
  WOk [ MkPageRes [10; 11; 12] (Some 2) 7%N true;
        MkPageRes [13; 14; 15] (Some 5) 7%N true;
        MkPageRes [16] None 7%N true ].
Proof. vm_compute. reflexivity. Qed.

Example ex_reverse_walk :
  walk_by_key 8 ex_rows 3 false true None =
  WOk [ MkPageRes [16; 15; 14] (Some 4) 0%N true;
        MkPageRes [13; 12; 11] (Some 1) 0%N true;
        MkPageRes [10] None 1%N true ].
Proof. vm_compute. reflexivity. Qed.

(* a page size that divides the length: the last page is full and still has no next cursor *)
Example ex_exact_multiple :
  walk_by_key 7 [1; 2; 3; 4; 5; 6] 3 false false None =
  WOk [ MkPageRes [1; 2; 3] (Some 2) 0%N true; MkPageRes [4; 5; 6] None 0%N true ].
Proof. vm_compute. reflexivity. Qed.

Example ex_empty : walk_by_key 1 (@nil nat) 5 true false None = WOk [ MkPageRes [] None 0%N true ].
Proof. vm_compute. reflexivity. Qed.

Example ex_page_count : page_count 7 3 = 3 /\ page_count 6 3 = 2 /\ page_count 0 3 = 1.
Proof. vm_compute. repeat split; reflexivity. Qed.

Example ex_nil_request :
  exists r, paginate ex_rows (page_req_of_request None) = POk r /\ pg_items r = ex_rows /\ pg_next r = None.
Proof. eexists. vm_compute. repeat split; reflexivity. Qed.
