(* C10 -- state transitions are deterministic and independent of process history (PARTIAL).

   What these theorems carry: in the model the transition is a function (Gallina), a failed message
   leaves the state untouched, and splitting a history at any set of block boundaries (a restart
   rebuilds every keeper object over the stored state) does not change the result.  What they cannot
   carry, and what the replicated executions of the determinism family check instead: IAVL commit
   hashes, gas metering, event and response encoding, Go map iteration order. *)
From stdpp Require Import gmap.
From Coq Require Import ZArith NArith List.
Require Import Regen.Ledger.Types Regen.Ledger.Msgs Regen.Ledger.Step Regen.Ledger.Determinism.
Require Import Regen.Ledger.SpellingModel Regen.Ledger.Spelling.
Require Import Regen.Ledger.InvAllLib Regen.Ledger.InvAllRun Regen.Ledger.Tx.
Import ListNotations.

Theorem C10_failed_no_trace : forall e s m s' o,
  deliver e s m = (s', o) -> (forall r evs, o <> OOk r evs) -> s' = s.
Proof. exact failed_no_trace. Qed.
Print Assumptions C10_failed_no_trace.

Theorem C10_step_is_a_function : forall e s m x y, deliver e s m = x -> deliver e s m = y -> x = y.
Proof. intros. congruence. Qed.
Print Assumptions C10_step_is_a_function.

Theorem C10_restart_invariant : forall authority s pieces,
  run_pieces authority s pieces = run authority s (concat pieces).
Proof. exact restart_any_boundaries. Qed.
Print Assumptions C10_restart_invariant.

(* a failed or rejected message leaves no trace, whatever the spelling of its addresses (Ledger/Spelling.v) *)
Theorem C10_failed_message_no_trace_in_any_spelling : forall sp e s m,
  (forall r evs, (deliver_sp sp e s m).2 <> OOk r evs) -> (deliver_sp sp e s m).1 = s.
Proof. exact deliver_sp_failed_no_effect. Qed.
Print Assumptions C10_failed_message_no_trace_in_any_spelling.

(* ---- transactions of several messages (Ledger/Tx.v) ----
   ValidateBasic of every message, then the handlers in order on one cache-wrapped store that is written back only if
   all succeed.  A transaction with an invalid message or a failing handler leaves no trace, also when earlier
   messages of it had already run. *)
Theorem C10_failed_transaction_no_trace : forall e s ms,
  forallb validate_basic ms = false \/ run_handlers e s ms = None -> deliver_tx e s ms = s.
Proof. exact deliver_tx_failed_no_effect. Qed.
Print Assumptions C10_failed_transaction_no_trace.

Theorem C10_single_message_transaction_is_deliver : forall e s m, deliver_tx e s [m] = (deliver e s m).1.
Proof. exact deliver_tx_single. Qed.
Print Assumptions C10_single_message_transaction_is_deliver.

(* a transaction reaches nothing that single-message deliveries do not reach: every theorem over [reaches] covers it *)
Theorem C10_transactions_add_nothing_to_reachability : forall e s ms, reaches s (deliver_tx e s ms).
Proof. exact deliver_tx_reaches. Qed.
Print Assumptions C10_transactions_add_nothing_to_reachability.

Theorem C10_transactions_preserve_the_invariants : forall e s ms, Inv_run s -> Inv_run (deliver_tx e s ms).
Proof. exact deliver_tx_preserves_run. Qed.
Print Assumptions C10_transactions_preserve_the_invariants.
