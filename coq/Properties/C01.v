(* C01 -- conservation of credits: in every state of every history, for every batch, tradable supply = sum of tradable and escrowed balances + basket holdings, retired supply = sum of retired balances, and every stored amount is non-negative with at most six decimal places.

   Genesis hypothesis [Inv_run g] = Inv_core g /\ Inv_bound g /\ Inv_qty g (Ledger/InvAllRun.v): the credit-accounting invariants of Ledger/Inv.v,
   every tradable supply representable by apd (U < 10^100007, Ledger/InvMarketLib.v), stored order quantities without positive exponent
   (Ledger/InvMarketOrders.v).  [Inv_all g] adds Inv_ids (Ledger/InvIds.v) and Inv_orders.  [reaches g s]: s is obtained from g by any
   sequence of begin-block and deliver steps (Ledger/InvAllLib.v); run_intermediate_reaches shows that every intermediate state of
   Step.run is such a state.  The empty state satisfies the genesis hypotheses (genesis_hyps_satisfiable). *)
From stdpp Require Import gmap.
From RecordUpdate Require Import RecordSet.
From Coq Require Import ZArith NArith List Bool Strings.Byte Strings.String.
Require Import Regen.Base.Bytes Regen.Base.Calendar Regen.Dec.Dec.
Require Import Regen.Ledger.Types Regen.Ledger.Msgs Regen.Ledger.Orm Regen.Ledger.BaseMsgs Regen.Ledger.BasketMsgs Regen.Ledger.MarketMsgs Regen.Ledger.Step.
Require Import Regen.Ledger.Amount Regen.Ledger.MapSum Regen.Ledger.Inv Regen.Ledger.InvIds.
Require Import Regen.Ledger.InvMarketLib Regen.Ledger.InvMarketOrders Regen.Ledger.InvMarketPrune Regen.Ledger.InvMarketUpdate Regen.Ledger.InvMarket Regen.Ledger.InvMarketHalt.
Require Import Regen.Ledger.InvAllLib Regen.Ledger.InvAllRun Regen.Ledger.InvAllOrders Regen.Ledger.InvAllProps.
Require Import Regen.Ledger.InvAdmin Regen.Ledger.InvBase Regen.Ledger.InvBasket.
Require Import Regen.Ledger.SpellingModel Regen.Ledger.Spelling.
Import ListNotations RecordSetNotations.
Local Open Scope Z_scope.

(* Inv_cons, spelled out, in every reachable state *)
Theorem C01_conservation_in_every_reachable_state : forall g s,
  Inv_run g -> reaches g s ->
  forall bk ba su, batches s !! bk = Some ba -> supplies s !! bk = Some su ->
    U (su_tradable su) = bal_sum tradable_escrowed bk (balances s) + bb_sum (ba_denom ba) (basket_balances s) /\
    U (su_retired su) = bal_sum retired_of bk (balances s).
Proof. exact reachable_conservation. Qed.
Print Assumptions C01_conservation_in_every_reachable_state.

(* Inv_scale, spelled out: every stored amount is a stored_ok decimal; order quantities parse to positive amounts *)
Theorem C01_amounts_wellformed_in_every_reachable_state : forall g s,
  Inv_run g -> reaches g s ->
  (forall k b, balances s !! k = Some b ->
     stored_ok (bl_tradable b) /\ stored_ok (bl_retired b) /\ stored_ok (bl_escrowed b)) /\
  (forall k su, supplies s !! k = Some su ->
     stored_ok (su_tradable su) /\ stored_ok (su_retired su) /\ stored_ok (su_cancelled su)) /\
  (forall k bb, basket_balances s !! k = Some bb -> stored_ok (bb_balance bb) /\ 0 < U (bb_balance bb)) /\
  (forall k o, sell_orders s !! k = Some o -> exists d, parse (so_quantity o) = Ok d /\ in_ok d /\ 0 < U d).
Proof. exact reachable_amounts_wellformed. Qed.
Print Assumptions C01_amounts_wellformed_in_every_reachable_state.

(* stored_ok: non-negative, exponent between -6 and 0 *)
Theorem C01_stored_ok_meaning : forall d,
  stored_ok d <-> 0 <= dcoef d /\ (dneg d = true -> dcoef d = 0) /\ -6 <= dexp d /\ dexp d <= 0.
Proof. exact stored_ok_meaning. Qed.
Print Assumptions C01_stored_ok_meaning.

(* the same for the final state of Step.run *)
Theorem C01_conservation_after_every_run : forall authority g h s,
  Inv_run g -> run authority g h = LOk s -> Inv_cons s /\ Inv_scale s.
Proof. exact run_conservation. Qed.
Print Assumptions C01_conservation_after_every_run.

(* and after any number of blocks, the next begin-block and any prefix of its messages *)
Theorem C01_conservation_in_every_intermediate_state : forall authority g h1 bl ms1 ms2 s1 s2,
  Inv_run g -> run authority g h1 = LOk s1 -> begin_block (blk_time bl) s1 = LOk s2 -> blk_msgs bl = ms1 ++ ms2 ->
  let s3 := deliver_all (block_env authority bl) ms1 s2 in
  Inv_cons s3 /\ Inv_scale s3.
Proof. exact run_intermediate_conservation. Qed.
Print Assumptions C01_conservation_in_every_intermediate_state.

(* every intermediate state of a run is reachable *)
Theorem C01_every_run_state_is_reachable : forall authority g h1 bl ms1 ms2 s1 s2,
  run authority g h1 = LOk s1 -> begin_block (blk_time bl) s1 = LOk s2 -> blk_msgs bl = ms1 ++ ms2 ->
  reaches g s1 /\ reaches g s2 /\ reaches g (deliver_all (block_env authority bl) ms1 s2).
Proof. exact run_intermediate_reaches. Qed.
Print Assumptions C01_every_run_state_is_reachable.

(* the comparison made by the chain's BatchSupplyInvariant holds in every reachable state (direct restatement of Inv_cons per supply row; see batch_supply_invariant_ok in Ledger/InvAllProps.v) *)
Theorem C01_chain_invariant_silent : forall g s,
  Inv_run g -> reaches g s -> batch_supply_invariant_ok s.
Proof. exact chain_invariant_silent. Qed.
Print Assumptions C01_chain_invariant_silent.

(* one step: any message of any family through the transaction rule *)
Theorem C01_every_message_preserves_the_invariants : forall e s m,
  Inv_run s -> Inv_run (deliver e s m).1 /\ mono_rel s (deliver e s m).1.
Proof. exact deliver_preserves_run. Qed.
Print Assumptions C01_every_message_preserves_the_invariants.

(* every message constructor belongs to exactly one of the four families *)
Theorem C01_message_families_partition : forall m,
  (is_base_credit_msg m = true /\ is_admin_msg m = false /\ is_basket_msg m = false /\ is_market_msg m = false) \/
  (is_base_credit_msg m = false /\ is_admin_msg m = true /\ is_basket_msg m = false /\ is_market_msg m = false) \/
  (is_base_credit_msg m = false /\ is_admin_msg m = false /\ is_basket_msg m = true /\ is_market_msg m = false) \/
  (is_base_credit_msg m = false /\ is_admin_msg m = false /\ is_basket_msg m = false /\ is_market_msg m = true).
Proof. exact msg_class_total. Qed.
Print Assumptions C01_message_families_partition.

Example C01_genesis_hypotheses_satisfiable : Inv_run empty_state /\ Inv_all empty_state.
Proof. exact genesis_hyps_satisfiable. Qed.
Print Assumptions C01_genesis_hypotheses_satisfiable.

(* ---- address spellings (Ledger/Spelling.v) ----
   A bech32 address is valid in lower and in upper case.  ValidateBasic of MsgSend compares the sender and recipient
   STRINGS, so a message naming the sender's own account in the other spelling reaches the handler as a self-send.
   [deliver_sp sp] is the transaction rule for a message in spelling [sp]; [reaches_sp] closes over begin-blocks and
   messages in ANY spelling.  The invariants and the conservation equations hold there too. *)
Theorem C01_every_message_in_every_spelling_preserves_the_invariants : forall sp e s m,
  Inv_run s -> Inv_run (deliver_sp sp e s m).1 /\ mono_rel s (deliver_sp sp e s m).1.
Proof. exact deliver_sp_preserves_run. Qed.
Print Assumptions C01_every_message_in_every_spelling_preserves_the_invariants.

Theorem C01_conservation_in_every_state_reached_with_any_spelling : forall g s,
  Inv_run g -> reaches_sp g s ->
  forall bk ba su, batches s !! bk = Some ba -> supplies s !! bk = Some su ->
    U (su_tradable su) = bal_sum tradable_escrowed bk (balances s) + bb_sum (ba_denom ba) (basket_balances s) /\
    U (su_retired su) = bal_sum retired_of bk (balances s).
Proof. exact reachable_sp_conservation. Qed.
Print Assumptions C01_conservation_in_every_state_reached_with_any_spelling.

Theorem C01_canonical_histories_are_a_special_case : forall s s', reaches s s' -> reaches_sp s s'.
Proof. exact reaches_reaches_sp. Qed.
Print Assumptions C01_canonical_histories_are_a_special_case.

Theorem C01_canonical_spelling_is_the_plain_transaction_rule : forall e s m, deliver_sp canonical e s m = deliver e s m.
Proof. exact deliver_sp_canonical. Qed.
Print Assumptions C01_canonical_spelling_is_the_plain_transaction_rule.

(* the self-send in two spellings passes the string-level validator and only that one *)
Example C01_self_send_in_two_spellings_is_accepted :
  let m := MSend 1%N 1%N [{| sc_denom := b "C01-001-20200101-20210101-001"%string; sc_tradable := b "1.5"%string; sc_retired := b ""%string;
                              sc_jurisdiction := b ""%string; sc_reason := b ""%string |}] in
  validate_basic m = false /\
  validate_basic_sp canonical m = false /\
  validate_basic_sp {| sp_pair_identical := false; sp_authority_canonical := true |} m = true.
Proof. exact self_send_passes_only_when_spelled_differently. Qed.
