(* C04 -- retirement and cancellation are permanent: along every history retired balances, retired supplies and cancelled supplies never decrease, and supply rows are never removed.

   Genesis hypothesis [Inv_run g] = Inv_core g /\ Inv_bound g /\ Inv_qty g (Ledger/InvAllRun.v): the credit-accounting invariants of Ledger/Inv.v,
   every tradable supply representable by apd (U < 10^100007, Ledger/InvMarketLib.v), stored order quantities without positive exponent
   (Ledger/InvMarketOrders.v).  [Inv_all g] adds Inv_ids (Ledger/InvIds.v) and Inv_orders.  [reaches g s]: s is obtained from g by any
   sequence of begin-block and deliver steps (Ledger/InvAllLib.v); run_intermediate_reaches shows that every intermediate state of
   Step.run is such a state.  The empty state satisfies the genesis hypotheses (genesis_hyps_satisfiable). *)
From stdpp Require Import gmap.
From RecordUpdate Require Import RecordSet.
From Coq Require Import ZArith NArith List Bool Strings.Byte.
Require Import Regen.Base.Bytes Regen.Base.Calendar Regen.Dec.Dec.
Require Import Regen.Ledger.Types Regen.Ledger.Msgs Regen.Ledger.Orm Regen.Ledger.BaseMsgs Regen.Ledger.BasketMsgs Regen.Ledger.MarketMsgs Regen.Ledger.Step.
Require Import Regen.Ledger.Amount Regen.Ledger.MapSum Regen.Ledger.Inv Regen.Ledger.InvIds.
Require Import Regen.Ledger.InvMarketLib Regen.Ledger.InvMarketOrders Regen.Ledger.InvMarketPrune Regen.Ledger.InvMarketUpdate Regen.Ledger.InvMarket Regen.Ledger.InvMarketHalt.
Require Import Regen.Ledger.InvAllLib Regen.Ledger.InvAllRun Regen.Ledger.InvAllOrders Regen.Ledger.InvAllProps.
Require Import Regen.Ledger.InvAdmin Regen.Ledger.InvBase Regen.Ledger.InvBasket.
Require Import Regen.Ledger.SpellingModel Regen.Ledger.Spelling.
Import ListNotations RecordSetNotations.
Local Open Scope Z_scope.

(* between any two points of any history *)
Theorem C04_retired_never_decreases : forall g s1 s2,
  Inv_run g -> reaches g s1 -> reaches s1 s2 ->
  (forall a k, U (bl_retired (get_balance s1 a k)) <= U (bl_retired (get_balance s2 a k))) /\
  (forall k su, supplies s1 !! k = Some su -> exists su', supplies s2 !! k = Some su' /\
       U (su_retired su) <= U (su_retired su') /\ U (su_cancelled su) <= U (su_cancelled su')).
Proof. exact retired_never_decreases. Qed.
Print Assumptions C04_retired_never_decreases.

(* for Step.run *)
Theorem C04_retired_never_decreases_run : forall authority g h1 h2 s1 s2,
  Inv_run g -> run authority g h1 = LOk s1 -> run authority s1 h2 = LOk s2 ->
  (forall a k, U (bl_retired (get_balance s1 a k)) <= U (bl_retired (get_balance s2 a k))) /\
  (forall k su, supplies s1 !! k = Some su -> exists su', supplies s2 !! k = Some su' /\
       U (su_retired su) <= U (su_retired su') /\ U (su_cancelled su) <= U (su_cancelled su')).
Proof. exact run_retired_never_decreases. Qed.
Print Assumptions C04_retired_never_decreases_run.

(* per step: any message of any family (base: base_monotone, basket: basket_monotone, marketplace: market_monotone, administrative: credit tables untouched) *)
Theorem C04_per_message : forall e s m,
  Inv_run s ->
  (forall a k, U (bl_retired (get_balance s a k)) <= U (bl_retired (get_balance (deliver e s m).1 a k))) /\
  (forall k su, supplies s !! k = Some su -> exists su', supplies (deliver e s m).1 !! k = Some su' /\
       U (su_retired su) <= U (su_retired su') /\ U (su_cancelled su) <= U (su_cancelled su')).
Proof. exact deliver_retired_never_decreases. Qed.
Print Assumptions C04_per_message.

(* begin-block leaves supplies and retired balances alone *)
Theorem C04_begin_block : forall t s s',
  Inv_run s -> begin_block t s = LOk s' ->
  supplies s' = supplies s /\ forall a k, bl_retired (get_balance s' a k) = bl_retired (get_balance s a k).
Proof. exact begin_block_retired_unchanged. Qed.
Print Assumptions C04_begin_block.

Example C04_genesis_hypotheses_satisfiable : Inv_run empty_state /\ Inv_all empty_state.
Proof. exact genesis_hyps_satisfiable. Qed.
Print Assumptions C04_genesis_hypotheses_satisfiable.

(* ---- address spellings (Ledger/Spelling.v): monotonicity along histories whose messages use any bech32 spelling ---- *)
Theorem C04_monotone_along_histories_in_any_spelling : forall g s1 s2,
  Inv_run g -> reaches_sp g s1 -> reaches_sp s1 s2 -> mono_rel s1 s2.
Proof. exact reachable_sp_monotone. Qed.
Print Assumptions C04_monotone_along_histories_in_any_spelling.
