(* C02 -- issuance accounting: the total of a batch, T su = U tradable + U retired + U cancelled (units of 10^-6 credits), changes only by issuance, by exactly the issued amount; sealed batches are final.

   [issued_units iss] (Ledger/InvBaseLib.v): sum over the issuance list of the units of the tradable and of the retired amount string.
   [issued_key s m] (Ledger/InvAllGhost.v): for CreateBatch the next batch key with the message's issuance list; for MintBatchCredits the key of the batch with
   the message's denom; for BridgeReceive the batch bound to the (class, contract) pair or else the next batch key, with the one-element list [bridge_issuance];
   None for every other message.  [totals_effect s m s']: the addressed supply row gains exactly issued_units (it is created when absent), every other row keeps
   its total, no other row appears or disappears.  [ghost_step] adds issued_units at the addressed key of a ghost ledger (gmap N Z, read with [gget], 0 for an absent key) and [ghost_deliver] applies it
   only when the message is accepted (ValidateBasic and handler succeed); [ghost_run] threads the ghost ledger through Step.run; [ghost_ok s gh]: every batch
   total equals its ghost entry (0 where there is no supply row).
   Genesis hypothesis [Inv_run g] = Inv_core g /\ Inv_bound g /\ Inv_qty g (Ledger/InvAllRun.v); [reaches]: Ledger/InvAllLib.v. *)
From stdpp Require Import gmap.
From RecordUpdate Require Import RecordSet.
From Coq Require Import ZArith NArith List Bool Strings.Byte.
Require Import Regen.Base.Bytes Regen.Base.Calendar Regen.Dec.Dec.
Require Import Regen.Ledger.Types Regen.Ledger.Msgs Regen.Ledger.Orm Regen.Ledger.BaseMsgs Regen.Ledger.BasketMsgs Regen.Ledger.MarketMsgs Regen.Ledger.Step.
Require Import Regen.Ledger.Amount Regen.Ledger.MapSum Regen.Ledger.Inv Regen.Ledger.InvIds.
Require Import Regen.Ledger.InvMarketLib Regen.Ledger.InvMarketOrders Regen.Ledger.InvMarketPrune Regen.Ledger.InvMarketUpdate Regen.Ledger.InvMarket Regen.Ledger.InvMarketHalt.
Require Import Regen.Ledger.InvAllLib Regen.Ledger.InvAllRun Regen.Ledger.InvAllOrders Regen.Ledger.InvAllProps.
Require Import Regen.Ledger.InvAdmin Regen.Ledger.InvBase Regen.Ledger.InvBasket.
Require Import Regen.Ledger.InvBaseLib Regen.Ledger.InvBase3 Regen.Ledger.InvBridgeLib Regen.Ledger.InvAllGhost.
Import ListNotations RecordSetNotations.
Local Open Scope Z_scope.

(* one accepted message of any of the four families *)
Theorem C02_per_message_total_effect : forall e s m s' r evs,
  Inv_run s -> validate_basic m = true -> handle e s m = LOk (s', r, evs) -> totals_effect s m s'.
Proof. exact handle_totals_effect. Qed.
Print Assumptions C02_per_message_total_effect.

(* the base-module statement it rests on (minted / created / totals_same, Ledger/InvBase3.v and InvBaseLib.v) *)
Theorem C02_base_total_effect : forall e s m s' r evs,
  is_base_credit_msg m = true -> Inv_core s -> validate_basic m = true ->
  handle e s m = LOk (s', r, evs) -> total_effect m s s'.
Proof. exact base_total_effect. Qed.
Print Assumptions C02_base_total_effect.

(* the ghost ledger follows the totals *)
Theorem C02_ghost_step : forall s m s' gh,
  totals_effect s m s' -> ghost_ok s gh -> ghost_ok s' (ghost_step s m gh).
Proof. exact ghost_step_ok. Qed.
Print Assumptions C02_ghost_step.

(* through the transaction rule: rejected messages issue nothing *)
Theorem C02_ghost_deliver : forall e s m gh,
  Inv_run s -> ghost_ok s gh -> ghost_ok (deliver e s m).1 (ghost_deliver e s m gh).
Proof. exact ghost_deliver_ok. Qed.
Print Assumptions C02_ghost_deliver.

(* begin-block issues nothing *)
Theorem C02_ghost_begin_block : forall t s s' gh,
  Inv_run s -> begin_block t s = LOk s' -> ghost_ok s gh -> ghost_ok s' gh.
Proof. exact ghost_begin_block_ok. Qed.
Print Assumptions C02_ghost_begin_block.

(* along any history *)
Theorem C02_ghost_history : forall g gh0 s gh,
  Inv_run g -> ghost_ok g gh0 -> greaches g gh0 s gh -> ghost_ok s gh.
Proof. exact ghost_history. Qed.
Print Assumptions C02_ghost_history.

(* the ghost run computes the same states as Step.run *)
Theorem C02_ghost_run_is_run : forall authority h,
  forall acc acc',
  ghost_run authority acc h = LOk acc' -> run authority acc.1 h = LOk acc'.1.
Proof. exact ghost_run_state. Qed.
Print Assumptions C02_ghost_run_is_run.

(* after every run, every batch total is the sum of what the accepted issuing messages issued to it *)
Theorem C02_totals_equal_issued_after_every_run : forall authority g gh0 h s gh,
  Inv_run g -> ghost_ok g gh0 -> ghost_run authority (g, gh0) h = LOk (s, gh) ->
  forall k su, supplies s !! k = Some su -> T su = gget gh k.
Proof. exact ghost_run_ok. Qed.
Print Assumptions C02_totals_equal_issued_after_every_run.

(* a sealed batch stays sealed, keeps its denom and its total for ever *)
Theorem C02_sealed_batches_are_final : forall g s1 s2 k ba su,
  Inv_run g -> reaches g s1 -> reaches s1 s2 ->
  batches s1 !! k = Some ba -> ba_open ba = false -> supplies s1 !! k = Some su ->
  exists ba' su', batches s2 !! k = Some ba' /\ ba_open ba' = false /\ ba_denom ba' = ba_denom ba /\
                  supplies s2 !! k = Some su' /\ T su' = T su.
Proof. exact sealed_batches_are_final. Qed.
Print Assumptions C02_sealed_batches_are_final.

(* batch rows persist with their immutable fields (denom, dates, project, issuer, issuance date); sealing is one-way *)
Theorem C02_batch_rows_are_static : forall g s1 s2,
  Inv_run g -> reaches g s1 -> reaches s1 s2 -> seal_rel s1 s2.
Proof. exact reaches_seal_rel. Qed.
Print Assumptions C02_batch_rows_are_static.

Example C02_genesis_hypotheses_satisfiable : Inv_run empty_state /\ ghost_ok empty_state ∅.
Proof. split; [apply genesis_hyps_satisfiable|]. intros k. cbn [supplies empty_state]. rewrite lookup_empty. apply gget_empty. Qed.
Print Assumptions C02_genesis_hypotheses_satisfiable.
