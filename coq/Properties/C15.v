(* C15 — IRI <-> content hash conversion is a lossless bijection.

   "Converting a valid content hash to an IRI and back returns the identical content hash, two
   different valid content hashes never map to the same IRI, and any IRI the chain accepts
   re-encodes to the identical string."

   Quantifier: all content hashes (both/one/none of raw and graph set, algorithm fields arbitrary
   naturals, hashes and extensions arbitrary byte strings) that pass [valid_ch], the transcription
   of ContentHash.Validate, and all byte strings given to [parse_iri].  The checksum is the
   production one (first four bytes of SHA-256(SHA-256(x))); the underlying lemmas hold for every
   checksum function with four bytes of output. *)
From Coq Require Import List NArith Strings.Byte Strings.String.
Require Import Regen.Base.Bytes Regen.Data.BytesExt Regen.Data.Base58 Regen.Data.Iri
  Regen.Data.IriProps Regen.Generated.DataConsts.
Import ListNotations.
Local Open Scope N_scope.
Local Open Scope string_scope.

(* ToIRI followed by ParseIRI returns the identical content hash *)
Theorem C15_roundtrip : forall ch, valid_ch ch = true ->
  exists s, to_iri_sha ch = Ok s /\ parse_iri_sha s = Ok ch.
Proof. exact iri_roundtrip_sha. Qed.
Print Assumptions C15_roundtrip.

(* two different valid content hashes never map to the same IRI *)
Theorem C15_injective : forall a c, valid_ch a = true -> valid_ch c = true ->
  to_iri_sha a = to_iri_sha c -> a = c.
Proof. exact iri_injective_sha. Qed.
Print Assumptions C15_injective.

(* an accepted IRI whose content hash is valid re-encodes to the identical string *)
Theorem C15_reencode : forall s ch, parse_iri_sha s = Ok ch -> valid_ch ch = true ->
  to_iri_sha ch = Ok s.
Proof. exact iri_reencode_sha. Qed.
Print Assumptions C15_reencode.

(* ParseIRI does not validate; re-encoding what it accepted may fail but never gives another string *)
Theorem C15_reencode_never_differs : forall s ch s',
  parse_iri_sha s = Ok ch -> to_iri_sha ch = Ok s' -> s' = s.
Proof. exact iri_reencode_never_differs_sha. Qed.
Print Assumptions C15_reencode_never_differs.

(* ---------- the hypotheses are satisfiable; concrete behaviour ---------- *)
Definition ex_hash : bytes :=
  [x00;x01;x02;x03;x04;x05;x06;x07;x08;x09;x0a;x0b;x0c;x0d;x0e;x0f;
   x10;x11;x12;x13;x14;x15;x16;x17;x18;x19;x1a;x1b;x1c;x1d;x1e;x1f].
Definition ex_raw : content_hash := ch_of_raw (mkRaw ex_hash 1 (b "txt")).
Definition ex_graph : content_hash := ch_of_graph (mkGraph ex_hash 1 1 0).

Example ex_raw_valid : valid_ch ex_raw = true. Proof. vm_compute. reflexivity. Qed.
Example ex_graph_valid : valid_ch ex_graph = true. Proof. vm_compute. reflexivity. Qed.

Example ex_raw_iri :
  to_iri_sha ex_raw = Ok (b "regen:112wkH4kHMn2WPndf8CxmsoFkX93ouZMJUwTBFSZpDCeNeH233zv.txt").
Proof. vm_compute. reflexivity. Qed.
Example ex_raw_back :
  parse_iri_sha (b "regen:112wkH4kHMn2WPndf8CxmsoFkX93ouZMJUwTBFSZpDCeNeH233zv.txt") = Ok ex_raw.
Proof. vm_compute. reflexivity. Qed.
Example ex_graph_iri :
  to_iri_sha ex_graph = Ok (b "regen:13toVfvC8PG7N1nom98eEoc4e1DT2tm3mLVXjCbVDjGGRQBNqVBwFPo.rdf").
Proof. vm_compute. reflexivity. Qed.
Example ex_graph_back :
  parse_iri_sha (b "regen:13toVfvC8PG7N1nom98eEoc4e1DT2tm3mLVXjCbVDjGGRQBNqVBwFPo.rdf") = Ok ex_graph.
Proof. vm_compute. reflexivity. Qed.

(* the bound on the algorithm fields is what makes the encoding injective: without it algorithm 257
   would be truncated to the byte 1 (finding F2).  It is rejected now. *)
Example ex_alg_257_rejected :
  to_iri_sha (ch_of_raw (mkRaw ex_hash 257 (b "txt"))) = Err TErrInvalidRequest.
Proof. vm_compute. reflexivity. Qed.

(* ParseIRI accepts IRIs whose content hash does not validate (here: upper-case extension); such a
   hash has no IRI at all, so it cannot be confused with a valid one *)
Definition ex_upper : content_hash := ch_of_raw (mkRaw ex_hash 1 (b "TXT")).
Example ex_parse_not_validating :
  parse_iri_sha (b "regen:112wkH4kHMn2WPndf8CxmsoFkX93ouZMJUwTBFSZpDCeNeH233zv.TXT") = Ok ex_upper.
Proof. vm_compute. reflexivity. Qed.
Example ex_upper_invalid : valid_ch ex_upper = false /\ to_iri_sha ex_upper = Err TErrInvalidRequest.
Proof. vm_compute. split; reflexivity. Qed.

(* a hash part with a rune >= U+0100 makes base58.Decode index its table out of range *)
Example ex_parse_panics : parse_iri_sha ([x72;x65;x67;x65;x6e;x3a;xe2;x82;xac;x2e;x72;x64;x66]) = Err PPanic.
Proof. vm_compute. reflexivity. Qed.
