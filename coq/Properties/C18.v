(* C18 -- fees are charged exactly; no accepted parameter value disables a feature.

   The fee block [charge_fee] is shared by CreateClass (module account: ecocredit) and basket Create
   (module account: basket sub-module).  [fee_effect payer module fee s s'] says: the payer's balance
   in the fee denom fell by exactly the fee, the bank supply of that denom fell by exactly the fee
   (burned), every other balance and supply -- the module account's included -- is unchanged, and so
   is every non-bank table. *)
From stdpp Require Import gmap.
From RecordUpdate Require Import RecordSet.
From Coq Require Import ZArith NArith List Strings.String.
Require Import Regen.Base.Bytes Regen.Dec.Dec.
Require Import Regen.Ledger.Types Regen.Ledger.Msgs Regen.Ledger.Orm Regen.Ledger.BaseMsgs
               Regen.Ledger.MarketMsgs Regen.Ledger.Step Regen.Ledger.InvFrame Regen.Ledger.Fees.
Import RecordSetNotations ListNotations.
Local Open Scope Z_scope.

Theorem C18_fee_charged_exactly : forall req off payer module s s',
  payer <> module -> 0 < c_amount req ->
  charge_fee (Some req) off payer module s = LOk s' ->
  fee_effect payer module req s s' /\
  (exists o, off = Some o /\ c_denom o = c_denom req /\ c_amount req <= c_amount o) /\
  c_amount req <= bank_bal s payer (c_denom req).
Proof. exact charge_fee_exact. Qed.
Print Assumptions C18_fee_charged_exactly.

Theorem C18_no_fee_nothing_charged : forall off payer module s, charge_fee None off payer module s = LOk s.
Proof. exact charge_fee_unset. Qed.
Print Assumptions C18_no_fee_nothing_charged.

Theorem C18_zero_fee_nothing_charged : forall req off payer module s,
  c_amount req <= 0 -> charge_fee (Some req) off payer module s = LOk s.
Proof. exact charge_fee_zero. Qed.
Print Assumptions C18_zero_fee_nothing_charged.

Theorem C18_insufficient_offer_rejected : forall req off payer module s,
  0 < c_amount req ->
  (off = None \/
   (exists o, off = Some o /\ (c_denom o <> c_denom req \/ c_amount o < c_amount req)) \/
   bank_bal s payer (c_denom req) < c_amount req) ->
  exists err, charge_fee (Some req) off payer module s = LErr err.
Proof. exact charge_fee_rejects. Qed.
Print Assumptions C18_insufficient_offer_rejected.

(* enabledness: any positive fee in a valid denom can be paid by a funded creator *)
Theorem C18_fee_payable : forall req o payer module s,
  0 < c_amount req -> valid_denom (c_denom req) = true ->
  c_denom o = c_denom req -> c_amount req <= c_amount o -> c_amount req <= bank_bal s payer (c_denom req) ->
  payer <> module -> 0 <= bank_bal s module (c_denom req) ->
  exists s', charge_fee (Some req) (Some o) payer module s = LOk s'.
Proof. exact charge_fee_enabled. Qed.
Print Assumptions C18_fee_payable.

(* enabledness: every fee-rate pair accepted by MsgGovSetFeeParams / FeeParams.Validate is usable by BuyDirect *)
Theorem C18_accepted_fee_rates_usable : forall a fp s,
  validate_basic (MGovSetFeeParams a (Some fp)) = true ->
  exists b sl, buyer_rate (s <| fee_params_ := Some fp |>) = LOk b /\ seller_rate (s <| fee_params_ := Some fp |>) = LOk sl.
Proof. exact accepted_fee_params_usable. Qed.
Print Assumptions C18_accepted_fee_rates_usable.

Theorem C18_unset_fee_rates_usable : forall s,
  fee_params_ s = None -> buyer_rate s = LOk dzero /\ seller_rate s = LOk dzero.
Proof. exact unset_fee_params_usable. Qed.
Print Assumptions C18_unset_fee_rates_usable.

(* the hypotheses are satisfiable: the boundary rates "0", "0.0", "1" and a 40-digit rate are accepted and usable *)
Example C18_zero_rates_accepted :
  validate_basic (MGovSetFeeParams 100%N (Some {| fp_buyer := b "0"; fp_seller := b "0.0" |})) = true.
Proof. vm_compute. reflexivity. Qed.
Example C18_seller_rate_one_accepted :
  validate_basic (MGovSetFeeParams 100%N (Some {| fp_buyer := b "0.3333333333333333333333333333333333333333"; fp_seller := b "1" |})) = true.
Proof. vm_compute. reflexivity. Qed.
Example C18_seller_rate_above_one_rejected :
  validate_basic (MGovSetFeeParams 100%N (Some {| fp_buyer := b "0"; fp_seller := b "1.000001" |})) = false.
Proof. vm_compute. reflexivity. Qed.
