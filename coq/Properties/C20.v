(* Property C20: intertx forwards exactly the owner's message over the owner's own ICA port.

   "SubmitTx sends exactly the supplied message, unmodified, as a single-message interchain-account
   packet over the controller port derived from the message's owner (who is its only required signer)
   on the given connection, with a timeout one minute after block time, and sends nothing when no
   active channel or channel capability exists.  One owner's message can therefore never be executed
   through another owner's interchain account."

   Quantifiers: every environment [e] (every behaviour of the ICA controller keeper, of the scoped
   capability keeper and of bech32 decoding, every block time), every capability type [cap], every
   message [m] (owner, connection id and inner Any are arbitrary byte strings).
   Model: Regen.Intertx.SubmitTx (tied to /repo/x/intertx by the harness-intertx correspondence family). *)
From Coq Require Import List ZArith NArith Bool Strings.Byte Strings.String.
Require Import Regen.Base.Bytes Regen.Generated.IntertxConsts.
Require Import Regen.Intertx.ProtoWire Regen.Intertx.ProtoWireProps.
Require Import Regen.Intertx.SubmitTx Regen.Intertx.SubmitTxProps.
Import ListNotations.
Local Open Scope string_scope.
Local Open Scope list_scope.

(* 1. over the controller port derived from the message's owner *)
Theorem C20_port : forall cap (e : env cap) m c,
  submit e m = Ok [c] -> sc_port c = b "icacontroller-" ++ owner m.
Proof. exact SubmitTxProps.C20_port. Qed.
Print Assumptions C20_port.

Theorem C20_port_injective : forall o1 o2 : bytes,
  b "icacontroller-" ++ o1 = b "icacontroller-" ++ o2 -> o1 = o2.
Proof. exact SubmitTxProps.C20_port_injective. Qed.
Print Assumptions C20_port_injective.

(* 2. a single send on success; an error carries no send ([sent (Err _) = []] by definition of [sent]) *)
Theorem C20_single_send : forall cap (e : env cap) m l,
  submit e m = Ok l -> exists c, l = [c].
Proof. exact SubmitTxProps.C20_single_send. Qed.
Print Assumptions C20_single_send.

Theorem C20_one_or_none : forall cap (e : env cap) m,
  (exists c, submit e m = Ok [c] /\ sent (submit e m) = [c]) \/
  (exists x, submit e m = Err x /\ sent (submit e m) = []).
Proof. exact SubmitTxProps.C20_one_or_none. Qed.
Print Assumptions C20_one_or_none.

(* 3. nothing without an active channel, nothing without the channel capability *)
Theorem C20_nothing_without_channel : forall cap (e : env cap) m,
  active_channel e (connection_id m) (b "icacontroller-" ++ owner m) = None ->
  sent (submit e m) = [] /\
  (submit e m = Err EActiveChannelNotFound \/ submit e m = Err EInvalidAccountAddress).
Proof. exact SubmitTxProps.C20_nothing_without_channel. Qed.
Print Assumptions C20_nothing_without_channel.

Theorem C20_nothing_without_capability : forall cap (e : env cap) m,
  (forall chan, active_channel e (connection_id m) (b "icacontroller-" ++ owner m) = Some chan ->
                capability e (channel_capability_path (b "icacontroller-" ++ owner m) chan) = None) ->
  sent (submit e m) = [] /\
  (submit e m = Err EChannelCapabilityNotFound \/ submit e m = Err EActiveChannelNotFound \/
   submit e m = Err EInvalidAccountAddress).
Proof. exact SubmitTxProps.C20_nothing_without_capability. Qed.
Print Assumptions C20_nothing_without_capability.

(* 4. exactly the supplied message, unmodified, as a single-message EXECUTE_TX packet with an empty
      memo, on the given connection, with the capability found under the path of (port, active channel) *)
Theorem C20_packet : forall cap (e : env cap) m c,
  submit e m = Ok [c] ->
  exists a chan,
    inner m = Some a /\ inner_is_sdk_msg m = true /\
    sc_data c = encode_cosmos_tx [a] /\
    (any_small a -> decode_cosmos_tx (sc_data c) = Some [a]) /\
    sc_type c = 1%N /\
    sc_memo c = [] /\
    sc_conn c = connection_id m /\
    active_channel e (connection_id m) (sc_port c) = Some chan /\
    capability e (channel_capability_path (sc_port c) chan) = Some (sc_cap c).
Proof. exact SubmitTxProps.C20_packet. Qed.
Print Assumptions C20_packet.

(* the size side condition of the decoder statement, in terms of the message contents *)
Theorem C20_any_small : forall a : any,
  (blen (type_url a) + blen (any_value a) + 22 < 2 ^ 63)%N -> any_small a.
Proof. exact any_small_of_contents. Qed.
Print Assumptions C20_any_small.

Theorem C20_wire_roundtrip : forall l : list any,
  Forall any_small l -> decode_cosmos_tx (encode_cosmos_tx l) = Some l.
Proof. exact decode_cosmos_tx_roundtrip. Qed.
Print Assumptions C20_wire_roundtrip.

(* 5. timeout one minute after block time *)
Theorem C20_timeout : forall cap (e : env cap) m c,
  submit e m = Ok [c] ->
  (0 <= block_time_ns e + 60000000000 < 2 ^ 64)%Z ->
  sc_timeout c = (block_time_ns e + 60000000000)%Z.
Proof. exact SubmitTxProps.C20_timeout. Qed.
Print Assumptions C20_timeout.

(* outside that range Go's int64/uint64 arithmetic wraps *)
Theorem C20_timeout_wrapped : forall cap (e : env cap) m c,
  submit e m = Ok [c] ->
  sc_timeout c = ((block_time_ns e + 60000000000) mod 2 ^ 64)%Z.
Proof. exact SubmitTxProps.C20_timeout_wrapped. Qed.
Print Assumptions C20_timeout_wrapped.

(* 6. the owner is the only required signer *)
Theorem C20_signer : forall cap (e : env cap) m,
  validate_basic e m = Ok tt ->
  exists a, acc_from_bech32 e (owner m) = Some a /\ signers e m = [a] /\
            owner m <> [] /\ connection_id m <> [] /\ inner m <> None.
Proof. exact SubmitTxProps.C20_signer. Qed.
Print Assumptions C20_signer.

(* 7. one owner's message never travels over another owner's port *)
Theorem C20_isolation : forall cap (e1 e2 : env cap) m1 m2 c1 c2,
  owner m1 <> owner m2 ->
  In c1 (sent (submit e1 m1)) -> In c2 (sent (submit e2 m2)) ->
  sc_port c1 <> sc_port c2.
Proof. exact SubmitTxProps.C20_isolation. Qed.
Print Assumptions C20_isolation.

Theorem C20_same_port_same_signer : forall cap (e1 e2 : env cap) m1 m2 c1 c2,
  (forall o, acc_from_bech32 e1 o = acc_from_bech32 e2 o) ->
  In c1 (sent (submit e1 m1)) -> In c2 (sent (submit e2 m2)) ->
  sc_port c1 = sc_port c2 ->
  owner m1 = owner m2 /\ signers e1 m1 = signers e2 m2.
Proof. exact SubmitTxProps.C20_same_port_same_signer. Qed.
Print Assumptions C20_same_port_same_signer.

(* ---------- the hypotheses are satisfiable: a concrete run ---------- *)

(* owner A holds channel-7 on connection-0 and the module owns its capability (#32);
   block time 2023-11-14T22:13:20Z; bech32 decoding knows A and B *)
Example ownerA : bytes := b "regen1zyg3zyg3zyg3zyg3zyg3zyg3zyg3zyg37lu7yt".
Example ownerB : bytes := b "regen1yg3zyg3zyg3zyg3zyg3zyg3zyg3zyg3z3zecvu".
Example ex_env : env N :=
  {| active_channel := fun conn port =>
       if bytes_eqb conn (b "connection-0") && bytes_eqb port (b "icacontroller-" ++ ownerA)
       then Some (b "channel-7") else None;
     capability := fun name =>
       if bytes_eqb name (b "capabilities/ports/icacontroller-" ++ ownerA ++ b "/channels/channel-7")
       then Some 32%N else None;
     block_time_ns := 1700000000000000000%Z;
     acc_from_bech32 := fun o =>
       if bytes_eqb o ownerA then Some (repeat x11 20)
       else if bytes_eqb o ownerB then Some (repeat x22 20) else None;
     sendtx_accepts := fun _ => true |}.
(* bank MsgSend{from_address:"a", to_address:"b"} *)
Example ex_inner : any := MkAny (b "/cosmos.bank.v1beta1.MsgSend") [x0a; x01; x61; x12; x01; x62].
Example ex_msg (o : bytes) : submit_msg := MkSubmitMsg o (b "connection-0") (Some ex_inner) true.

Example ex_success :
  submit ex_env (ex_msg ownerA) =
  Ok [ MkSendCall 32%N (b "connection-0") (b "icacontroller-regen1zyg3zyg3zyg3zyg3zyg3zyg3zyg3zyg37lu7yt") 1%N
         ([x0a; x26; x0a; x1c] ++ b "/cosmos.bank.v1beta1.MsgSend" ++ [x12; x06; x0a; x01; x61; x12; x01; x62])
         [] 1700000060000000000%Z ].
Proof. vm_compute. reflexivity. Qed.

Example ex_decode :
  decode_cosmos_tx ([x0a; x26; x0a; x1c] ++ b "/cosmos.bank.v1beta1.MsgSend" ++ [x12; x06; x0a; x01; x61; x12; x01; x62])
  = Some [ex_inner].
Proof. vm_compute. reflexivity. Qed.

Example ex_small : any_small ex_inner.
Proof. vm_compute. reflexivity. Qed.

Example ex_validate : validate_basic ex_env (ex_msg ownerA) = Ok tt /\ signers ex_env (ex_msg ownerA) = [repeat x11 20].
Proof. vm_compute. split; reflexivity. Qed.

(* owner B (a valid account with no channel of its own) cannot use A's channel; neither can the
   near-identical owner strings "A " and upper-case A *)
Example ex_other_owner : submit ex_env (ex_msg ownerB) = Err EActiveChannelNotFound.
Proof. vm_compute. reflexivity. Qed.
Example ex_trailing_space : submit ex_env (ex_msg (ownerA ++ b " ")) = Err EActiveChannelNotFound.
Proof. vm_compute. reflexivity. Qed.
Example ex_blank_owner : submit ex_env (ex_msg (b "  ")) = Err EInvalidAccountAddress.
Proof. vm_compute. reflexivity. Qed.

(* no capability: nothing is sent *)
Example ex_no_capability :
  submit {| active_channel := active_channel ex_env; capability := fun _ => None;
            block_time_ns := block_time_ns ex_env; acc_from_bech32 := acc_from_bech32 ex_env;
            sendtx_accepts := sendtx_accepts ex_env |} (ex_msg ownerA)
  = Err EChannelCapabilityNotFound.
Proof. vm_compute. reflexivity. Qed.

(* the timeout hypothesis is satisfiable (and fails for the year 1) *)
Example ex_timeout_range : (0 <= block_time_ns ex_env + 60000000000 < 2 ^ 64)%Z.
Proof. vm_compute. split; [discriminate | reflexivity]. Qed.
Example ex_timeout_year1 : timeout_timestamp (-62135596800000000000)%Z = 11651379554838206464%Z.
Proof. vm_compute. reflexivity. Qed.
