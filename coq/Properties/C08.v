(* C08 -- only the required role holder can change an entity; sealed batches stay sealed.

   [required_role e s m] (Ledger/Auth.v) is the role table of the property evaluated in the
   PRE-state: class issuer (create project / create batch), batch issuer (seal; mint and update batch
   metadata additionally need the batch open), class admin, project admin, basket curator, sell
   order owner, allow-listed creator when the allowlist is on, and the governance authority for every
   parameter, allowlist, fee, credit type, bridge chain, allowed denom and fee pool message. *)
From stdpp Require Import gmap.
From Coq Require Import ZArith NArith List.
Require Import Regen.Base.Bytes.
Require Import Regen.Ledger.Types Regen.Ledger.Msgs Regen.Ledger.Orm Regen.Ledger.BaseMsgs
               Regen.Ledger.Step Regen.Ledger.Auth.
Import ListNotations.

Theorem C08_success_requires_role : forall e s m s' r evs,
  handle e s m = LOk (s', r, evs) -> required_role e s m.
Proof. exact handle_requires_role. Qed.
Print Assumptions C08_success_requires_role.

(* through the transaction rule: a delivered message that reports success had the role *)
Theorem C08_delivered_requires_role : forall e s m s' r evs,
  deliver e s m = (s', OOk r evs) -> required_role e s m.
Proof.
  intros e s m s' r evs H. unfold deliver in H. destruct (validate_basic m); [|discriminate].
  destruct (handle e s m) as [[[s1 r1] evs1]|err] eqn:E; [|discriminate].
  inversion H; subst. eapply handle_requires_role. exact E.
Qed.
Print Assumptions C08_delivered_requires_role.
