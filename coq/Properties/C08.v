(* C08 -- only the required role holder can change an entity; sealed batches stay sealed.

   [required_role e s m] (Ledger/Auth.v) is the role table of the property evaluated in the
   PRE-state: class issuer (create project / create batch), batch issuer (seal; mint and update batch
   metadata additionally need the batch open), class admin, project admin, basket curator, sell
   order owner, allow-listed creator when the allowlist is on, and the governance authority for every
   parameter, allowlist, fee, credit type, bridge chain, allowed denom and fee pool message.

   "Such a message changes only the entity it names": C08_changes_only_the_named_entity gives, for every
   role-gated update and governance message, the exact post-state as the pre-state with one row / one
   field / one set element replaced (the match below is the definition Ledger/AuthFrame.only_named
   written out; C08_only_named_is_this_statement proves the two are the same proposition).  The messages
   that move credits or coins are framed by C03 (ownership), C08_admin_messages_leave_credit_tables,
   C08_basket_messages_frame and C08_marketplace_messages_frame.

   "A sealed batch can never be re-opened, minted into, or have its metadata changed":
   C08_sealed_batch_row_is_final, over every history.

   Resolver manager (data module): Data/DataInv.v, stated in Properties/C16.v (C16_manager_only) and restated below as C08_resolver_manager_only. *)
From stdpp Require Import gmap.
From RecordUpdate Require Import RecordSet.
From Coq Require Import ZArith NArith List Bool.
Require Import Regen.Base.Bytes Regen.Dec.Dec.
Require Import Regen.Ledger.Types Regen.Ledger.Msgs Regen.Ledger.Orm Regen.Ledger.BaseMsgs Regen.Ledger.BasketMsgs
               Regen.Ledger.MarketMsgs Regen.Ledger.Step Regen.Ledger.Auth Regen.Ledger.AuthFrame.
Require Import Regen.Ledger.Amount Regen.Ledger.Inv Regen.Ledger.InvFrame Regen.Ledger.InvAdmin Regen.Ledger.InvBaseLib
               Regen.Ledger.InvBase Regen.Ledger.InvBasket Regen.Ledger.InvMarketPrim Regen.Ledger.InvMarketLib Regen.Ledger.InvMarket
               Regen.Ledger.InvAllLib Regen.Ledger.InvAllRun Regen.Ledger.InvAllGhost.
Require Regen.Data.DataMsgs Regen.Data.DataInv.
Import ListNotations RecordSetNotations.
Local Open Scope Z_scope.

(* ---------------------------------------------------------------------------------------------- *)
(* roles                                                                                            *)
(* ---------------------------------------------------------------------------------------------- *)

Theorem C08_success_requires_role : forall e s m s' r evs,
  handle e s m = LOk (s', r, evs) -> required_role e s m.
Proof. exact handle_requires_role. Qed.
Print Assumptions C08_success_requires_role.

(* through the transaction rule: a delivered message that reports success had the role *)
Theorem C08_delivered_requires_role : forall e s m s' r evs,
  deliver e s m = (s', OOk r evs) -> required_role e s m.
Proof.
  intros e s m s' r evs H. unfold deliver in H. destruct (validate_basic m); [|discriminate].
  destruct (handle e s m) as [[[s1 r1] evs1]|err] eqn:E; [|discriminate].
  inversion H; subst. eapply handle_requires_role. exact E.
Qed.
Print Assumptions C08_delivered_requires_role.

(* the role table, spelled out (it is the definition of required_role) *)
Theorem C08_required_role_is_this_table : forall e s m,
  required_role e s m = 
  (match m with
  | MCreateClass admin _ _ _ _ => can_create_class s admin = true
  | MCreateProject admin class_id _ _ _ => class_issuer_of_class s class_id admin
  | MCreateBatch issuer project_id _ _ _ _ _ _ => class_issuer_of_project s project_id issuer
  | MMintBatchCredits issuer denom _ _ => batch_issuer_is s denom issuer true
  | MSealBatch issuer denom => batch_issuer_is s denom issuer false
  | MUpdateBatchMetadata issuer denom _ => batch_issuer_is s denom issuer true
  | MUpdateClassAdmin admin class_id _ | MUpdateClassIssuers admin class_id _ _ | MUpdateClassMetadata admin class_id _ =>
      class_admin_is s class_id admin
  | MUpdateProjectAdmin admin project_id _ | MUpdateProjectMetadata admin project_id _ => project_admin_is s project_id admin
  | MBridgeReceive issuer class_id _ _ _ =>
      (exists denom, batch_issuer_is s denom issuer true) \/
      (exists project_id, class_issuer_of_project s project_id issuer) \/
      class_issuer_of_class s class_id issuer
  | MAddCreditType a _ _ _ _ | MSetClassCreatorAllowlist a _ | MAddClassCreator a _ | MRemoveClassCreator a _
  | MUpdateClassFee a _ | MAddAllowedBridgeChain a _ | MRemoveAllowedBridgeChain a _
  | MUpdateBasketFee a _ | MUpdateDateCriteria a _ _
  | MAddAllowedDenom a _ _ _ | MRemoveAllowedDenom a _ | MGovSetFeeParams a _ | MGovSendFromFeePool a _ _ =>
      a = e_authority e
  | MUpdateCurator curator denom _ => exists id k, basket_by_denom s denom = Some (id, k) /\ bk_curator k = curator
  | MCancelSellOrder seller id => exists o, sell_orders s !! id = Some o /\ so_seller o = seller
  | MUpdateSellOrders seller updates =>
      forall u, In u updates -> exists o, sell_orders s !! up_id u = Some o /\ so_seller o = seller
  | MSend _ _ _ | MRetire _ _ _ _ | MCancel _ _ _ | MBridge _ _ _ _ | MBurnRegen _ _ _
  | MBasketCreate _ _ _ _ _ _ _ _ | MPut _ _ _ | MTake _ _ _ _ _ _ _ | MSell _ _ | MBuyDirect _ _
  | MBankSend _ _ _ | MUnimplemented _ => True
  end).
Proof. reflexivity. Qed.
Print Assumptions C08_required_role_is_this_table.

(* data module: data is registered to a resolver that has a manager only by that manager (a public resolver has none) *)
Theorem C08_resolver_manager_only : forall H t s sg rid chs s' r url m,
  DataMsgs.deliver H t s (DataMsgs.DRegisterResolver sg rid chs) = (s', DataMsgs.DOk r) ->
  DataMsgs.get_resolver rid s = Some (url, Some m) -> sg = m.
Proof. exact DataInv.C16_manager_only. Qed.
Print Assumptions C08_resolver_manager_only.

(* ---------------------------------------------------------------------------------------------- *)
(* only the named entity changes                                                                    *)
(* ---------------------------------------------------------------------------------------------- *)

Theorem C08_changes_only_the_named_entity : forall e s m s' r evs,
  handle e s m = LOk (s', r, evs) ->
  match m with
    | MUpdateClassAdmin _ class_id new_admin =>
        exists k c, classes s !! k = Some c /\ cl_id c = class_id /\
          s' = s <| classes := <[k := {| cl_id := cl_id c; cl_admin := new_admin;
                                         cl_metadata := cl_metadata c; cl_ct := cl_ct c |}]> (classes s) |>
    | MUpdateClassMetadata _ class_id new_metadata =>
        exists k c, classes s !! k = Some c /\ cl_id c = class_id /\
          s' = s <| classes := <[k := {| cl_id := cl_id c; cl_admin := cl_admin c;
                                         cl_metadata := new_metadata; cl_ct := cl_ct c |}]> (classes s) |>
    | MUpdateClassIssuers _ class_id add remove =>
        exists k c, classes s !! k = Some c /\ cl_id c = class_id /\
          s' = s <| class_issuers := issuers_after k add remove (class_issuers s) |>
    | MUpdateProjectAdmin _ project_id new_admin =>
        exists k p, projects s !! k = Some p /\ pj_id p = project_id /\
          s' = s <| projects := <[k := {| pj_id := pj_id p; pj_admin := new_admin; pj_class_key := pj_class_key p;
                                          pj_jurisdiction := pj_jurisdiction p; pj_metadata := pj_metadata p;
                                          pj_reference_id := pj_reference_id p |}]> (projects s) |>
    | MUpdateProjectMetadata _ project_id new_metadata =>
        exists k p, projects s !! k = Some p /\ pj_id p = project_id /\
          s' = s <| projects := <[k := {| pj_id := pj_id p; pj_admin := pj_admin p; pj_class_key := pj_class_key p;
                                          pj_jurisdiction := pj_jurisdiction p; pj_metadata := new_metadata;
                                          pj_reference_id := pj_reference_id p |}]> (projects s) |>
    | MUpdateBatchMetadata _ denom new_metadata =>
        exists k ba, batches s !! k = Some ba /\ ba_denom ba = denom /\
          s' = s <| batches := <[k := {| ba_issuer := ba_issuer ba; ba_project_key := ba_project_key ba;
                                         ba_denom := ba_denom ba; ba_metadata := new_metadata;
                                         ba_start := ba_start ba; ba_end := ba_end ba;
                                         ba_issuance := ba_issuance ba; ba_open := ba_open ba |}]> (batches s) |>
    | MSealBatch _ denom =>
        exists k ba, batches s !! k = Some ba /\ ba_denom ba = denom /\
          ((ba_open ba = false /\ s' = s) \/
           (ba_open ba = true /\
            s' = s <| batches := <[k := {| ba_issuer := ba_issuer ba; ba_project_key := ba_project_key ba;
                                           ba_denom := ba_denom ba; ba_metadata := ba_metadata ba;
                                           ba_start := ba_start ba; ba_end := ba_end ba;
                                           ba_issuance := ba_issuance ba; ba_open := false |}]> (batches s) |>))
    | MAddCreditType _ abbrev name unit_ precision =>
        credit_types s !! abbrev = None /\
        s' = s <| credit_types := <[abbrev := {| ct_name := name; ct_unit := unit_; ct_precision := precision |}]>
                                    (credit_types s) |>
    | MSetClassCreatorAllowlist _ enabled => s' = s <| allowlist_enabled := enabled |>
    | MAddClassCreator _ creator => s' = s <| allowed_creators := {[ creator ]} ∪ allowed_creators s |>
    | MRemoveClassCreator _ creator => s' = s <| allowed_creators := allowed_creators s ∖ {[ creator ]} |>
    | MUpdateClassFee _ fee => s' = s <| class_fee := normalise_fee fee |>
    | MAddAllowedBridgeChain _ chain =>
        s' = s <| allowed_bridge_chains := {[ to_lower chain ]} ∪ allowed_bridge_chains s |>
    | MRemoveAllowedBridgeChain _ chain =>
        s' = s <| allowed_bridge_chains := allowed_bridge_chains s ∖ {[ to_lower chain ]} |>
    | MUpdateBasketFee _ fee => s' = s <| basket_fee := normalise_fee fee |>
    | MUpdateCurator _ denom new_curator =>
        exists id k, baskets s !! id = Some k /\ bk_denom k = denom /\
          s' = s <| baskets := <[id := {| bk_denom := bk_denom k; bk_name := bk_name k;
                                          bk_disable_auto_retire := bk_disable_auto_retire k; bk_ct := bk_ct k;
                                          bk_criteria := bk_criteria k; bk_exponent := bk_exponent k;
                                          bk_curator := new_curator |}]> (baskets s) |>
    | MUpdateDateCriteria _ denom criteria =>
        exists id k, baskets s !! id = Some k /\ bk_denom k = denom /\
          s' = s <| baskets := <[id := {| bk_denom := bk_denom k; bk_name := bk_name k;
                                          bk_disable_auto_retire := bk_disable_auto_retire k; bk_ct := bk_ct k;
                                          bk_criteria := criteria; bk_exponent := bk_exponent k;
                                          bk_curator := bk_curator k |}]> (baskets s) |>
    | MAddAllowedDenom _ bank_denom display_denom exponent =>
        allowed_denoms s !! bank_denom = None /\
        s' = s <| allowed_denoms := <[bank_denom := (display_denom, exponent)]> (allowed_denoms s) |>
    | MRemoveAllowedDenom _ denom => s' = s <| allowed_denoms := delete denom (allowed_denoms s) |>
    | MGovSetFeeParams _ fees => exists fp, fees = Some fp /\ s' = s <| fee_params_ := Some fp |>
    | MCancelSellOrder seller id =>
        exists o q bal ne nt,
          sell_orders s !! id = Some o /\ so_seller o = seller /\
          parse (so_quantity o) = Ok q /\
          balances s !! (seller, so_batch_key o) = Some bal /\
          safe_sub_balance (bl_escrowed bal) q = Ok ne /\
          safe_add_balance (bl_tradable bal) q = Ok nt /\
          s' = s <| balances := <[(seller, so_batch_key o) :=
                                    {| bl_tradable := dnorm nt; bl_retired := bl_retired bal;
                                       bl_escrowed := dnorm ne |}]> (balances s) |>
                 <| sell_orders := delete id (sell_orders s) |>
    | _ => True
    end.
Proof. exact handle_changes_only_named. Qed.
Print Assumptions C08_changes_only_the_named_entity.

(* a message that fails leaves the state alone (transaction rule) *)
Theorem C08_failed_message_changes_nothing : forall e s m,
  (forall r evs, snd (deliver e s m) <> OOk r evs) -> fst (deliver e s m) = s.
Proof.
  intros e s m H. unfold deliver in *. destruct (validate_basic m); [|reflexivity].
  destruct (handle e s m) as [[[s1 r1] evs1]|e1]; [|reflexivity].
  exfalso. apply (H r1 evs1). reflexivity.
Qed.
Print Assumptions C08_failed_message_changes_nothing.

(* UpdateClassIssuers: issuer pairs of every other class are untouched; the named class gets exactly add, loses exactly remove *)
Theorem C08_update_class_issuers_touches_one_class : forall e s admin class_id add remove s' r evs,
  handle e s (MUpdateClassIssuers admin class_id add remove) = LOk (s', r, evs) ->
  exists k c, classes s !! k = Some c /\ cl_id c = class_id /\
    (forall k' a, k' <> k -> ((k', a) ∈ class_issuers s' <-> (k', a) ∈ class_issuers s)) /\
    (forall a, (k, a) ∈ class_issuers s' <-> In a add \/ ((k, a) ∈ class_issuers s /\ ~ In a remove)).
Proof. exact update_class_issuers_other_classes. Qed.
Print Assumptions C08_update_class_issuers_touches_one_class.

(* CancelSellOrder: the order row goes, one balance row of the seller changes, nothing else *)
Theorem C08_cancel_sell_order_touches_one_order : forall e s seller id s' r evs,
  handle e s (MCancelSellOrder seller id) = LOk (s', r, evs) ->
  exists o, sell_orders s !! id = Some o /\ so_seller o = seller /\
    sell_orders s' = delete id (sell_orders s) /\
    s' = s <| sell_orders := sell_orders s' |> <| balances := balances s' |> /\
    (forall key, key <> (seller, so_batch_key o) -> balances s' !! key = balances s !! key).
Proof. exact cancel_sell_order_other_rows. Qed.
Print Assumptions C08_cancel_sell_order_touches_one_order.

(* administrative and governance messages of the base module never touch balances, supplies, basket holdings,
   sell orders, batches or baskets *)
Theorem C08_admin_messages_leave_credit_tables : forall e s m s' r evs,
  is_admin_msg m = true -> validate_basic m = true -> handle e s m = LOk (s', r, evs) ->
  balances s' = balances s /\ supplies s' = supplies s /\ basket_balances s' = basket_balances s /\
  sell_orders s' = sell_orders s /\ batches s' = batches s /\ baskets s' = baskets s.
Proof.
  intros e s m s' r evs Hm Hvb H. destruct (admin_credit_frame e s m s' r evs Hm Hvb H) as [A B C D E F _ _ _ _]. tauto.
Qed.
Print Assumptions C08_admin_messages_leave_credit_tables.

(* basket messages never touch sell orders, escrow, batches, classes, projects or credit types *)
Theorem C08_basket_messages_frame : forall e s m s' r evs,
  is_basket_msg m = true -> Inv_core s -> validate_basic m = true ->
  handle e s m = LOk (s', r, evs) ->
  sell_orders s' = sell_orders s /\ sell_order_seq_id s' = sell_order_seq_id s /\
  (forall a k, bl_escrowed (get_balance s' a k) = bl_escrowed (get_balance s a k)) /\
  batches s' = batches s /\ batch_seq_id s' = batch_seq_id s /\
  classes s' = classes s /\ projects s' = projects s /\ credit_types s' = credit_types s.
Proof. exact basket_frames. Qed.
Print Assumptions C08_basket_messages_frame.

(* marketplace messages write only balances, supplies, sell orders, markets, allowed denoms, fee params and the bank *)
Theorem C08_marketplace_messages_frame : forall e s m s' r evs,
  is_market_msg m = true -> Inv_core s -> Inv_bound s -> validate_basic m = true ->
  handle e s m = LOk (s', r, evs) ->
  s' = s <| balances := balances s' |> <| supplies := supplies s' |> <| sell_orders := sell_orders s' |>
         <| sell_order_seq_id := sell_order_seq_id s' |> <| allowed_denoms := allowed_denoms s' |>
         <| markets := markets s' |> <| market_seq_id := market_seq_id s' |> <| fee_params_ := fee_params_ s' |>
         <| bank := bank s' |> <| bank_supply := bank_supply s' |>.
Proof. exact market_frame. Qed.
Print Assumptions C08_marketplace_messages_frame.

(* ---------------------------------------------------------------------------------------------- *)
(* sealed batches                                                                                   *)
(* ---------------------------------------------------------------------------------------------- *)

(* credit-moving messages of the base module keep denom, dates, project, issuer and issuance date of every batch;
   a sealed batch stays sealed and keeps its metadata *)
Theorem C08_batch_rows_static : forall e s m s' r evs,
  is_base_credit_msg m = true -> Inv_core s -> validate_basic m = true ->
  handle e s m = LOk (s', r, evs) ->
  forall k ba, batches s !! k = Some ba ->
    exists ba', batches s' !! k = Some ba' /\
      ba_denom ba' = ba_denom ba /\ ba_start ba' = ba_start ba /\ ba_end ba' = ba_end ba /\
      ba_project_key ba' = ba_project_key ba /\ ba_issuer ba' = ba_issuer ba /\
      ba_issuance ba' = ba_issuance ba /\ (ba_open ba = false -> ba_open ba' = false) /\
      (ba_open ba = false -> ba_metadata ba' = ba_metadata ba).
Proof. exact base_batch_static. Qed.
Print Assumptions C08_batch_rows_static.

(* over every history: once a batch is sealed its row never changes again (not re-opened, metadata, dates, issuer,
   project and denom fixed) and nothing is minted into it (T = tradable + retired + cancelled of the supply row) *)
Theorem C08_sealed_batch_row_is_final : forall g s1 s2 k ba su,
  Inv_run g -> reaches g s1 -> reaches s1 s2 ->
  batches s1 !! k = Some ba -> ba_open ba = false -> supplies s1 !! k = Some su ->
  batches s2 !! k = Some ba /\ exists su', supplies s2 !! k = Some su' /\ T su' = T su.
Proof. exact sealed_batch_row_is_final. Qed.
Print Assumptions C08_sealed_batch_row_is_final.

Theorem C08_T_is_the_issued_total : forall su,
  T su = U (su_tradable su) + U (su_retired su) + U (su_cancelled su).
Proof. reflexivity. Qed.
Print Assumptions C08_T_is_the_issued_total.

(* the hypotheses are satisfiable: a governance message is accepted from the authority and refused from anyone else;
   a class admin update succeeds on a one-class state *)
Example C08_nonvacuous_admin : 
  validate_basic af_ex_msg = true /\
  exists s' r evs, handle af_ex_env af_ex_state af_ex_msg = LOk (s', r, evs) /\
                   only_named af_ex_env af_ex_msg af_ex_state s'.
Proof. exact handle_changes_only_named_nonvacuous. Qed.
Print Assumptions C08_nonvacuous_admin.
Example C08_nonvacuous_gov : 
  match handle af_ex_env af_ex_state (MSetClassCreatorAllowlist addr_gov true) with LOk _ => true | LErr _ => false end = true /\
  match handle af_ex_env af_ex_state (MSetClassCreatorAllowlist 0%N true) with LOk _ => false | LErr _ => true end = true.
Proof. exact gov_msg_nonvacuous. Qed.
Print Assumptions C08_nonvacuous_gov.
