(* C07 -- a purchase moves exactly the stated credits and coins.

   C07_fill_order: the complete post-state of one filled order (fillOrder): order row, seller escrow, buyer row, supply (moved to retired exactly when auto-retiring),
   and every bank entry as a flow equation ([at_ a d z a' d'] = z at entry (a, d), 0 elsewhere): buyer pays fee + pay, seller receives pay, the fee pool receives fee unless the denom is
   uregen, in which case the fee is burnt (bank supply falls by fee).  fee = SdkIntTrim(buyer fee + seller fee) when that sum is positive, else 0; pay = SdkIntTrim(subtotal - seller fee).
   C07_buy_one: every order of a BuyDirect is one such fill, after the listed checks (ask <= bid, denom match, max fee, funds), with subtotal, buyer fee and total cost as computed.
   CLOSED FORMULAS (Ledger/InvAllPay2.v), with X = quantity x ask price, b = buyer fee rate, r = seller fee rate as rationals: C07_settlement_exact -- when none of the three multiplications needs more than 34 significant digits: the seller is credited pay = floor(X(1-r)), the fee collected is fee = floor(X(b+r)), the buyer is debited fee + pay <= X(1+b), and total_cost - 1 <= fee + pay <= total_cost where total_cost = floor(X(1+b)) is the amount the funds check uses; C07_max_fee: the purchase needs floor(X b) <= max fee (0 if absent). C07_settlement_rounded -- the general case with explicit error terms (half a unit in the 34th digit per multiplication). REFUTED beyond 34 digits (finding F9, known finding *:beyond-34-digits): C07_buyer_debit_bound_refuted_beyond_34_digits exhibits fee rates with 37 decimals for which the buyer is debited MORE than X(1+b) (by 5e-31 of a base unit: Mul rounds half up). The *_partial theorems are the per-operation facts the closed formulas are composed from. Hypotheses of C07_fill_order: Inv_core, Inv_bound (Ledger/InvMarketLib.v), the order exists, the quantity is a positive gated amount, buyer <> seller (checked by buy_one). *)
From stdpp Require Import gmap.
From RecordUpdate Require Import RecordSet.
From Coq Require Import ZArith NArith List Bool QArith Qabs Strings.Byte Strings.String.
Require Import Regen.Base.Bytes Regen.Base.Calendar Regen.Dec.Dec Regen.Dec.DecProps Regen.Dec.DecRound.
Require Import Regen.Ledger.Types Regen.Ledger.Msgs Regen.Ledger.Orm Regen.Ledger.BaseMsgs Regen.Ledger.BasketMsgs Regen.Ledger.MarketMsgs Regen.Ledger.Step.
Require Import Regen.Ledger.Amount Regen.Ledger.MapSum Regen.Ledger.Inv Regen.Ledger.Fees.
Require Import Regen.Ledger.InvMarketLib Regen.Ledger.InvMarketOrders Regen.Ledger.InvMarketFill Regen.Ledger.InvMarket.
Require Import Regen.Ledger.InvAllPay Regen.Ledger.InvAllPay2.
Import ListNotations RecordSetNotations.
Local Open Scope Z_scope.
Local Arguments b s%string_scope.
Local Arguments with_rates (buyer seller)%string_scope s0.

(* one filled order *)
Theorem C07_fill_order : forall id o buyer q bf st ar denom s s',
  Inv_core s -> Inv_bound s -> sell_orders s !! id = Some o -> in_ok q -> 0 < U q -> buyer <> so_seller o ->
  fill_order id o buyer q bf st ar denom s = LOk s' ->
  let a := so_seller o in let k := so_batch_key o in
  
  U q <= order_units o /\
  (forall id0, id0 <> id -> sell_orders s' !! id0 = sell_orders s !! id0) /\
  match sell_orders s' !! id with
  | None => U q = order_units o
  | Some o' => order_units o' = order_units o - U q /\ order_sim o o' /\ so_seller o' = so_seller o /\
               so_disable_auto_retire o' = so_disable_auto_retire o /\ so_expiration o' = so_expiration o
  end /\
  
  U (bl_escrowed (get_balance s' a k)) = U (bl_escrowed (get_balance s a k)) - U q /\
  bl_tradable (get_balance s' a k) = bl_tradable (get_balance s a k) /\
  bl_retired (get_balance s' a k) = bl_retired (get_balance s a k) /\
  bl_escrowed (get_balance s' buyer k) = bl_escrowed (get_balance s buyer k) /\
  (if ar then U (bl_retired (get_balance s' buyer k)) = U (bl_retired (get_balance s buyer k)) + U q /\
              bl_tradable (get_balance s' buyer k) = bl_tradable (get_balance s buyer k)
   else U (bl_tradable (get_balance s' buyer k)) = U (bl_tradable (get_balance s buyer k)) + U q /\
        bl_retired (get_balance s' buyer k) = bl_retired (get_balance s buyer k)) /\
  (forall a' k', (a', k') <> (a, k) -> (a', k') <> (buyer, k) -> get_balance s' a' k' = get_balance s a' k') /\
  
  (forall k', k' <> k -> supplies s' !! k' = supplies s !! k') /\
  (if ar then exists su su', supplies s !! k = Some su /\ supplies s' !! k = Some su' /\
                U (su_tradable su') = U (su_tradable su) - U q /\ U (su_retired su') = U (su_retired su) + U q /\
                su_cancelled su' = su_cancelled su
   else supplies s' !! k = supplies s !! k) /\
  
  exists rate sfee tfee payment fee pay,
    seller_rate s = LOk rate /\ mul st rate = Ok sfee /\ add bf sfee = Ok tfee /\ fee_amount tfee fee /\ 0 <= fee /\
    sub st sfee = Ok payment /\ sdk_int_trim payment = Ok pay /\ 0 <= pay /\
    (forall a' d', bank_bal s' a' d' =
       bank_bal s a' d' - at_ buyer denom (fee + pay) a' d' + at_ a denom pay a' d'
       + (if bytes_eqb denom uregen then 0 else at_ addr_feepool denom fee a' d')) /\
    (forall d', bank_sup s' d' =
       bank_sup s d' - (if bytes_eqb denom uregen then (if decide (d' = denom) then fee else 0) else 0)).
Proof. exact fill_order_spec. Qed.
Print Assumptions C07_fill_order.

(* one order of BuyDirect *)
Theorem C07_buy_one : forall e buyer s r s',
  Inv_ct s -> buy_one e buyer s r = LOk s' ->
  exists o ba ct q mk bid subtotal brate bfee total total_cost fee_trunc,
    sell_orders s !! by_id r = Some o /\ buyer <> so_seller o /\
    (by_disable_auto_retire r = true -> so_disable_auto_retire o = true) /\
    batches s !! so_batch_key o = Some ba /\ credit_type_of_denom s (ba_denom ba) = LOk ct /\
    posfixed P (by_quantity r) = Ok q /\ in_ok q /\ 0 < U q /\
    markets s !! so_market_id o = Some mk /\ by_bid r = Some bid /\ c_denom bid = mk_denom mk /\
    so_ask_amount o <= c_amount bid /\
    sub_total_cost (so_ask_amount o) q = LOk subtotal /\ buyer_rate s = LOk brate /\
    mul subtotal brate = Ok bfee /\ add subtotal bfee = Ok total /\
    sdk_int_trim total = Ok total_cost /\ sdk_int_trim bfee = Ok fee_trunc /\
    match by_max_fee r with None => fee_trunc <= 0 | Some mf => c_denom mf = mk_denom mk /\ fee_trunc <= c_amount mf end /\
    total_cost <= bank_bal s buyer (c_denom bid) /\
    fill_order (by_id r) o buyer q bfee subtotal (negb (by_disable_auto_retire r)) (mk_denom mk) s = LOk s'.
Proof. exact buy_one_inv. Qed.
Print Assumptions C07_buy_one.

(* closed formulas; hypotheses are the equations C07_buy_one and C07_fill_order produce, plus 'no multiplication rounds' and seller rate <= 1 (enforced by the message and genesis validators) *)
Theorem C07_settlement_exact : forall s ask q st brate bf total total_cost fee_trunc srate sfee tfee fee payment pay,
  in_ok q ->
  
  sub_total_cost ask q = LOk st -> buyer_rate s = LOk brate ->
  mul st brate = Ok bf -> add st bf = Ok total ->
  sdk_int_trim total = Ok total_cost -> sdk_int_trim bf = Ok fee_trunc ->
  
  seller_rate s = LOk srate -> mul st srate = Ok sfee -> add bf sfee = Ok tfee -> fee_amount tfee fee ->
  sub st sfee = Ok payment -> sdk_int_trim payment = Ok pay ->
  
  mul_exact q (dec_of_int ask) = Ok st -> mul_exact st brate = Ok bf -> mul_exact st srate = Ok sfee ->
  (dval srate <= 1)%Q ->
  let X := (dval q * inject_Z ask)%Q in let b := dval brate in let r := dval srate in
  (0 <= X)%Q /\ (0 <= b)%Q /\ (0 <= r <= 1)%Q /\
  
  (dval st == X)%Q /\ (dval bf == X * b)%Q /\ (dval sfee == X * r)%Q /\
  (dval total == X * (1 + b))%Q /\ (dval tfee == X * (b + r))%Q /\ (dval payment == X * (1 - r))%Q /\
  
  0 <= pay /\ (inject_Z pay <= X * (1 - r) < inject_Z pay + 1)%Q /\
  
  0 <= fee /\ (inject_Z fee <= X * (b + r) < inject_Z fee + 1)%Q /\
  
  (inject_Z total_cost <= X * (1 + b) < inject_Z total_cost + 1)%Q /\
  (inject_Z fee_trunc <= X * b < inject_Z fee_trunc + 1)%Q /\
  
  (inject_Z (fee + pay) <= X * (1 + b))%Q /\ (X * (1 + b) - 2 < inject_Z (fee + pay))%Q /\
  total_cost - 1 <= fee + pay <= total_cost.
Proof. exact settlement_exact_values. Qed.
Print Assumptions C07_settlement_exact.

(* max fee (zero if absent) must cover the buyer fee rounded down *)
Theorem C07_max_fee : forall s ask q st brate bf fee_trunc (mf : option coin) (denom : bytes),
  in_ok q ->
  sub_total_cost ask q = LOk st -> buyer_rate s = LOk brate -> sdk_int_trim bf = Ok fee_trunc ->
  mul_exact q (dec_of_int ask) = Ok st -> mul_exact st brate = Ok bf ->
  
  match mf with None => fee_trunc <= 0 | Some c => c_denom c = denom /\ fee_trunc <= c_amount c end ->
  let X := (dval q * inject_Z ask)%Q in let b := dval brate in
  (inject_Z fee_trunc <= X * b < inject_Z fee_trunc + 1)%Q /\
  fee_trunc <= max_fee_amount mf /\ (X * b < inject_Z (max_fee_amount mf) + 1)%Q.
Proof. exact max_fee_exact. Qed.
Print Assumptions C07_max_fee.

(* general case: each Mul correct to 34 digits; Add, Sub exact; SdkIntTrim truncates *)
Theorem C07_settlement_rounded : forall s ask q st brate bf total total_cost fee_trunc srate sfee tfee fee payment pay,
  in_ok q ->
  
  sub_total_cost ask q = LOk st -> buyer_rate s = LOk brate ->
  mul st brate = Ok bf -> add st bf = Ok total ->
  sdk_int_trim total = Ok total_cost -> sdk_int_trim bf = Ok fee_trunc ->
  
  seller_rate s = LOk srate -> mul st srate = Ok sfee -> add bf sfee = Ok tfee -> fee_amount tfee fee ->
  sub st sfee = Ok payment -> sdk_int_trim payment = Ok pay ->
  (dval srate <= 1)%Q ->
  let X := (dval q * inject_Z ask)%Q in let b := dval brate in let r := dval srate in
  let u_st := ((1 # 2) * q10 ^ dexp st)%Q in
  let u_bf := ((1 # 2) * q10 ^ dexp bf)%Q in
  let u_sf := ((1 # 2) * q10 ^ dexp sfee)%Q in
  let E_pay := (u_st * (1 - r) + u_sf)%Q in
  let E_fee := (u_st * (b + r) + u_bf + u_sf)%Q in
  let E_tot := (u_st * (1 + b) + u_bf)%Q in
  let E_bf := (u_st * b + u_bf)%Q in
  (0 <= X)%Q /\ (0 <= b)%Q /\ (0 <= r <= 1)%Q /\
  
  (Qabs (dval st - X) <= u_st)%Q /\
  (Qabs (dval bf - X * b) <= E_bf)%Q /\
  (Qabs (dval sfee - X * r) <= u_st * r + u_sf)%Q /\
  (Qabs (dval total - X * (1 + b)) <= E_tot)%Q /\
  (Qabs (dval tfee - X * (b + r)) <= E_fee)%Q /\
  (Qabs (dval payment - X * (1 - r)) <= E_pay)%Q /\
  
  0 <= pay /\ (X * (1 - r) - E_pay - 1 < inject_Z pay <= X * (1 - r) + E_pay)%Q /\
  0 <= fee /\ (X * (b + r) - E_fee - 1 < inject_Z fee <= X * (b + r) + E_fee)%Q /\
  (X * (1 + b) - E_tot - 1 < inject_Z total_cost <= X * (1 + b) + E_tot)%Q /\
  (X * b - E_bf - 1 < inject_Z fee_trunc <= X * b + E_bf)%Q /\
  (Qabs (inject_Z pay - X * (1 - r)) < 1 + E_pay)%Q /\
  (Qabs (inject_Z fee - X * (b + r)) < 1 + E_fee)%Q /\
  
  (X * (1 + b) - E_tot - 2 < inject_Z (fee + pay) <= X * (1 + b) + E_tot)%Q /\
  total_cost - 1 <= fee + pay <= total_cost.
Proof. exact settlement_rounded_values. Qed.
Print Assumptions C07_settlement_rounded.

Theorem C07_subtotal_is_quantity_times_ask : forall ask q st,
  sub_total_cost ask q = LOk st -> 0 < ask /\ mul q (dec_of_int ask) = Ok st.
Proof. exact sub_total_cost_unfold. Qed.
Print Assumptions C07_subtotal_is_quantity_times_ask.

(* non-vacuity: 2.5 credits at 1000000, rates 0.01 / 0.02: fee 75000, pay 2450000, total cost 2525000 *)
Example C07_settlement_example : forall s0,
  posfixed P (b "2.5") = Ok (mkDec false 25 (-1)) /\
  exact_hyps (with_rates "0.01" "0.02" s0) 1000000
    (mkDec false 25 (-1))                          
    (mkDec false 25000000 (-1))                    
    (mkDec false 1 (-2)) (mkDec false 25000000 (-3))         
    (mkDec false 2525000000 (-3)) 2525000 25000    
    (mkDec false 2 (-2)) (mkDec false 50000000 (-3))         
    (mkDec false 75000000 (-3)) 75000              
    (mkDec false 2450000000 (-3)) 2450000.
Proof. exact settlement_example. Qed.
Print Assumptions C07_settlement_example.

Example C07_debit_may_be_one_below_total_cost : forall s0,
  exact_hyps (with_rates "0.01" "0.02" s0) 333333
    (mkDec false 25 (-1))
    (mkDec false 8333325 (-1))
    (mkDec false 1 (-2)) (mkDec false 8333325 (-3))
    (mkDec false 841665825 (-3)) 841665 8333
    (mkDec false 2 (-2)) (mkDec false 16666650 (-3))
    (mkDec false 24999975 (-3)) 24999
    (mkDec false 816665850 (-3)) 816665 /\
  24999 + 816665 = 841665 - 1.
Proof. exact settlement_example_debit_below_total_cost. Qed.
Print Assumptions C07_debit_may_be_one_below_total_cost.

(* REFUTATION of 'never more than the exact total' when a rate has more than 34 significant digits (F9) *)
Example C07_buyer_debit_bound_refuted_beyond_34_digits : forall s0,
  let s := with_rates "0.9999999999999999999999999999999999995" "0" s0 in
  let q := mkDec false 1 0 in let ask := 1000000 in
  let st := mkDec false 1000000 0 in
  let brate := mkDec false 9999999999999999999999999999999999995 (-37) in
  let bf := mkDec false 1000000000000000000000000000000000 (-27) in
  let total := mkDec false 2000000000000000000000000000000000 (-27) in
  let srate := mkDec false 0 0 in let sfee := mkDec false 0 0 in
  let tfee := bf in let payment := st in
  let fee := 1000000 in let pay := 1000000 in
  (in_ok q /\ sub_total_cost ask q = LOk st /\ buyer_rate s = LOk brate /\
   mul st brate = Ok bf /\ add st bf = Ok total /\ sdk_int_trim total = Ok 2000000 /\ sdk_int_trim bf = Ok 1000000 /\
   seller_rate s = LOk srate /\ mul st srate = Ok sfee /\ add bf sfee = Ok tfee /\ fee_amount tfee fee /\
   sub st sfee = Ok payment /\ sdk_int_trim payment = Ok pay /\ (dval srate <= 1)%Q) /\
  mul_exact st brate = Err ERounded /\
  (dval q * inject_Z ask * (1 + dval brate) < inject_Z (fee + pay))%Q.
Proof. exact rounded_debit_exceeds_exact_total. Qed.
Print Assumptions C07_buyer_debit_bound_refuted_beyond_34_digits.

(* subtotal = quantity * ask price, to 34 digits *)
Theorem C07_subtotal_value_partial : forall ask q st,
  dwf q -> sub_total_cost ask q = LOk st ->
  exists price, positive_fixed_dec_from_string (Z_to_dec ask) (num_decimal_places q) = Ok price /\
    dwf st /\ (Qabs (dval st - dval q * dval price) <= (1 # 2) * q10 ^ dexp st)%Q.
Proof. exact sub_total_cost_value. Qed.
Print Assumptions C07_subtotal_value_partial.

(* seller fee, payment and the seller's coins *)
Theorem C07_payment_value_partial : forall st rate sfee payment pay,
  dwf st -> dwf rate -> mul st rate = Ok sfee -> sub st sfee = Ok payment -> sdk_int_trim payment = Ok pay -> 0 <= pay ->
  
  (Qabs (dval sfee - dval st * dval rate) <= (1 # 2) * q10 ^ dexp sfee)%Q /\
  (dval payment == dval st - dval sfee)%Q /\
  (inject_Z pay <= Qabs (dval payment))%Q /\ (Qabs (dval payment) < inject_Z pay + 1)%Q.
Proof. exact payment_value_partial. Qed.
Print Assumptions C07_payment_value_partial.

(* when the fee multiplication does not round: pay = floor(subtotal * (1 - seller rate)) *)
Theorem C07_payment_value_exact_partial : forall st rate sfee payment pay,
  dwf st -> dwf rate -> mul_exact st rate = Ok sfee -> sub st sfee = Ok payment -> sdk_int_trim payment = Ok pay -> 0 <= pay ->
  mul st rate = Ok sfee /\
  (dval payment == dval st * (1 - dval rate))%Q /\
  (inject_Z pay <= Qabs (dval payment))%Q /\ (Qabs (dval payment) < inject_Z pay + 1)%Q.
Proof. exact payment_value_exact_partial. Qed.
Print Assumptions C07_payment_value_exact_partial.

(* the fee collected *)
Theorem C07_fee_value_partial : forall bf sfee tfee fee,
  dwf bf -> dwf sfee -> add bf sfee = Ok tfee -> sdk_int_trim tfee = Ok fee -> 0 <= fee ->
  (dval tfee == dval bf + dval sfee)%Q /\
  (inject_Z fee <= Qabs (dval tfee))%Q /\ (Qabs (dval tfee) < inject_Z fee + 1)%Q.
Proof. exact fee_value_partial. Qed.
Print Assumptions C07_fee_value_partial.

(* the stored rates are non-negative decimals *)
Theorem C07_seller_rate_wellformed : forall s rate,
  seller_rate s = LOk rate -> dwf rate /\ (0 <= dval rate)%Q.
Proof. exact seller_rate_wf. Qed.
Print Assumptions C07_seller_rate_wellformed.

Theorem C07_buyer_rate_wellformed : forall s rate,
  buyer_rate s = LOk rate -> dwf rate /\ (0 <= dval rate)%Q.
Proof. exact buyer_rate_wf. Qed.
Print Assumptions C07_buyer_rate_wellformed.

(* fee params accepted by GovSetFeeParams can be read back by BuyDirect *)
Theorem C07_accepted_fee_params_usable : forall a fp s,
  validate_basic (MGovSetFeeParams a (Some fp)) = true ->
  exists b sl, buyer_rate (s <| fee_params_ := Some fp |>) = LOk b /\ seller_rate (s <| fee_params_ := Some fp |>) = LOk sl.
Proof. exact accepted_fee_params_usable. Qed.
Print Assumptions C07_accepted_fee_params_usable.

