(* C07 -- a purchase moves exactly the stated credits and coins.

   C07_fill_order: the complete post-state of one filled order (fillOrder): order row, seller escrow, buyer row, supply (moved to retired exactly when auto-retiring),
   and every bank entry as a flow equation ([at_ a d z a' d'] = z at entry (a, d), 0 elsewhere): buyer pays fee + pay, seller receives pay, the fee pool receives fee unless the denom is
   uregen, in which case the fee is burnt (bank supply falls by fee).  fee = SdkIntTrim(buyer fee + seller fee) when that sum is positive, else 0; pay = SdkIntTrim(subtotal - seller fee).
   C07_buy_one: every order of a BuyDirect is one such fill, after the listed checks (ask <= bid, denom match, max fee, funds), with subtotal, buyer fee and total cost as computed.
   The *_partial theorems give the VALUES of those decimals as rationals: Mul is correct to 34 significant digits (round half up), Add / Sub are exact, SdkIntTrim truncates toward zero.
   PARTIAL: they are stated per operation; they are not composed into one closed formula in quantity, ask price and rates, and the buyer-debit bound 'at most 1 unit more than the exact
   total' for rates with more than 34 significant digits (finding F9) is not proved here.
   Hypotheses of C07_fill_order: Inv_core, Inv_bound (Ledger/InvMarketLib.v), the order exists, the quantity is a positive gated amount, buyer <> seller (checked by buy_one). *)
From stdpp Require Import gmap.
From RecordUpdate Require Import RecordSet.
From Coq Require Import ZArith NArith List Bool QArith Qabs Strings.Byte.
Require Import Regen.Base.Bytes Regen.Base.Calendar Regen.Dec.Dec Regen.Dec.DecProps Regen.Dec.DecRound.
Require Import Regen.Ledger.Types Regen.Ledger.Msgs Regen.Ledger.Orm Regen.Ledger.BaseMsgs Regen.Ledger.BasketMsgs Regen.Ledger.MarketMsgs Regen.Ledger.Step.
Require Import Regen.Ledger.Amount Regen.Ledger.MapSum Regen.Ledger.Inv Regen.Ledger.Fees.
Require Import Regen.Ledger.InvMarketLib Regen.Ledger.InvMarketOrders Regen.Ledger.InvMarketFill Regen.Ledger.InvMarket.
Require Import Regen.Ledger.InvAllPay.
Import ListNotations RecordSetNotations.
Local Open Scope Z_scope.

(* one filled order *)
Theorem C07_fill_order : forall id o buyer q bf st ar denom s s',
  Inv_core s -> Inv_bound s -> sell_orders s !! id = Some o -> in_ok q -> 0 < U q -> buyer <> so_seller o ->
  fill_order id o buyer q bf st ar denom s = LOk s' ->
  let a := so_seller o in let k := so_batch_key o in
  (* the order: partially filled or removed *)
  U q <= order_units o /\
  (forall id0, id0 <> id -> sell_orders s' !! id0 = sell_orders s !! id0) /\
  match sell_orders s' !! id with
  | None => U q = order_units o
  | Some o' => order_units o' = order_units o - U q /\ order_sim o o' /\ so_seller o' = so_seller o /\
               so_disable_auto_retire o' = so_disable_auto_retire o /\ so_expiration o' = so_expiration o
  end /\
  (* credits: seller's escrow falls by q, buyer's tradable or retired balance rises by q *)
  U (bl_escrowed (get_balance s' a k)) = U (bl_escrowed (get_balance s a k)) - U q /\
  bl_tradable (get_balance s' a k) = bl_tradable (get_balance s a k) /\
  bl_retired (get_balance s' a k) = bl_retired (get_balance s a k) /\
  bl_escrowed (get_balance s' buyer k) = bl_escrowed (get_balance s buyer k) /\
  (if ar then U (bl_retired (get_balance s' buyer k)) = U (bl_retired (get_balance s buyer k)) + U q /\
              bl_tradable (get_balance s' buyer k) = bl_tradable (get_balance s buyer k)
   else U (bl_tradable (get_balance s' buyer k)) = U (bl_tradable (get_balance s buyer k)) + U q /\
        bl_retired (get_balance s' buyer k) = bl_retired (get_balance s buyer k)) /\
  (forall a' k', (a', k') <> (a, k) -> (a', k') <> (buyer, k) -> get_balance s' a' k' = get_balance s a' k') /\
  (* supply: moved from tradable to retired exactly when the purchase auto-retires *)
  (forall k', k' <> k -> supplies s' !! k' = supplies s !! k') /\
  (if ar then exists su su', supplies s !! k = Some su /\ supplies s' !! k = Some su' /\
                U (su_tradable su') = U (su_tradable su) - U q /\ U (su_retired su') = U (su_retired su) + U q /\
                su_cancelled su' = su_cancelled su
   else supplies s' !! k = supplies s !! k) /\
  (* coins *)
  exists rate sfee tfee payment fee pay,
    seller_rate s = LOk rate /\ mul st rate = Ok sfee /\ add bf sfee = Ok tfee /\ fee_amount tfee fee /\ 0 <= fee /\
    sub st sfee = Ok payment /\ sdk_int_trim payment = Ok pay /\ 0 <= pay /\
    (forall a' d', bank_bal s' a' d' =
       bank_bal s a' d' - at_ buyer denom (fee + pay) a' d' + at_ a denom pay a' d'
       + (if bytes_eqb denom uregen then 0 else at_ addr_feepool denom fee a' d')) /\
    (forall d', bank_sup s' d' =
       bank_sup s d' - (if bytes_eqb denom uregen then (if decide (d' = denom) then fee else 0) else 0)).
Proof. exact fill_order_spec. Qed.
Print Assumptions C07_fill_order.

(* one order of BuyDirect *)
Theorem C07_buy_one : forall e buyer s r s',
  Inv_ct s -> buy_one e buyer s r = LOk s' ->
  exists o ba ct q mk bid subtotal brate bfee total total_cost fee_trunc,
    sell_orders s !! by_id r = Some o /\ buyer <> so_seller o /\
    (by_disable_auto_retire r = true -> so_disable_auto_retire o = true) /\
    batches s !! so_batch_key o = Some ba /\ credit_type_of_denom s (ba_denom ba) = LOk ct /\
    posfixed P (by_quantity r) = Ok q /\ in_ok q /\ 0 < U q /\
    markets s !! so_market_id o = Some mk /\ by_bid r = Some bid /\ c_denom bid = mk_denom mk /\
    so_ask_amount o <= c_amount bid /\
    sub_total_cost (so_ask_amount o) q = LOk subtotal /\ buyer_rate s = LOk brate /\
    mul subtotal brate = Ok bfee /\ add subtotal bfee = Ok total /\
    sdk_int_trim total = Ok total_cost /\ sdk_int_trim bfee = Ok fee_trunc /\
    match by_max_fee r with None => fee_trunc <= 0 | Some mf => c_denom mf = mk_denom mk /\ fee_trunc <= c_amount mf end /\
    total_cost <= bank_bal s buyer (c_denom bid) /\
    fill_order (by_id r) o buyer q bfee subtotal (negb (by_disable_auto_retire r)) (mk_denom mk) s = LOk s'.
Proof. exact buy_one_inv. Qed.
Print Assumptions C07_buy_one.

(* subtotal = quantity * ask price, to 34 digits *)
Theorem C07_subtotal_value_partial : forall ask q st,
  dwf q -> sub_total_cost ask q = LOk st ->
  exists price, positive_fixed_dec_from_string (Z_to_dec ask) (num_decimal_places q) = Ok price /\
    dwf st /\ (Qabs (dval st - dval q * dval price) <= (1 # 2) * q10 ^ dexp st)%Q.
Proof. exact sub_total_cost_value. Qed.
Print Assumptions C07_subtotal_value_partial.

(* seller fee, payment and the seller's coins *)
Theorem C07_payment_value_partial : forall st rate sfee payment pay,
  dwf st -> dwf rate -> mul st rate = Ok sfee -> sub st sfee = Ok payment -> sdk_int_trim payment = Ok pay -> 0 <= pay ->
  (* Mul: within half a unit in the last of 34 digits; Sub: exact; SdkIntTrim: truncation *)
  (Qabs (dval sfee - dval st * dval rate) <= (1 # 2) * q10 ^ dexp sfee)%Q /\
  (dval payment == dval st - dval sfee)%Q /\
  (inject_Z pay <= Qabs (dval payment))%Q /\ (Qabs (dval payment) < inject_Z pay + 1)%Q.
Proof. exact payment_value_partial. Qed.
Print Assumptions C07_payment_value_partial.

(* when the fee multiplication does not round: pay = floor(subtotal * (1 - seller rate)) *)
Theorem C07_payment_value_exact_partial : forall st rate sfee payment pay,
  dwf st -> dwf rate -> mul_exact st rate = Ok sfee -> sub st sfee = Ok payment -> sdk_int_trim payment = Ok pay -> 0 <= pay ->
  mul st rate = Ok sfee /\
  (dval payment == dval st * (1 - dval rate))%Q /\
  (inject_Z pay <= Qabs (dval payment))%Q /\ (Qabs (dval payment) < inject_Z pay + 1)%Q.
Proof. exact payment_value_exact_partial. Qed.
Print Assumptions C07_payment_value_exact_partial.

(* the fee collected *)
Theorem C07_fee_value_partial : forall bf sfee tfee fee,
  dwf bf -> dwf sfee -> add bf sfee = Ok tfee -> sdk_int_trim tfee = Ok fee -> 0 <= fee ->
  (dval tfee == dval bf + dval sfee)%Q /\
  (inject_Z fee <= Qabs (dval tfee))%Q /\ (Qabs (dval tfee) < inject_Z fee + 1)%Q.
Proof. exact fee_value_partial. Qed.
Print Assumptions C07_fee_value_partial.

(* the stored rates are non-negative decimals *)
Theorem C07_seller_rate_wellformed : forall s rate,
  seller_rate s = LOk rate -> dwf rate /\ (0 <= dval rate)%Q.
Proof. exact seller_rate_wf. Qed.
Print Assumptions C07_seller_rate_wellformed.

Theorem C07_buyer_rate_wellformed : forall s rate,
  buyer_rate s = LOk rate -> dwf rate /\ (0 <= dval rate)%Q.
Proof. exact buyer_rate_wf. Qed.
Print Assumptions C07_buyer_rate_wellformed.

(* fee params accepted by GovSetFeeParams can be read back by BuyDirect *)
Theorem C07_accepted_fee_params_usable : forall a fp s,
  validate_basic (MGovSetFeeParams a (Some fp)) = true ->
  exists b sl, buyer_rate (s <| fee_params_ := Some fp |>) = LOk b /\ seller_rate (s <| fee_params_ := Some fp |>) = LOk sl.
Proof. exact accepted_fee_params_usable. Qed.
Print Assumptions C07_accepted_fee_params_usable.

