(* Property C14, pure half: class ids, project ids, batch denoms and basket denoms conform to
   their documented formats, are accepted by the chain's own validators, the parsers recover the
   embedded class and project ids, and the formats are injective (so distinct sequence numbers
   give distinct ids).  Quantifiers: all credit type abbreviations accepted by
   ValidateCreditTypeAbbreviation (1-3 upper-case letters), all sequence numbers (any N, beyond
   the padded width and beyond uint64), all protobuf-valid timestamps, all byte strings.
   The stateful half (sequences, tables, uniqueness of keys) is in the ledger development. *)
From Coq Require Import List NArith ZArith Bool Strings.Byte String.
Require Import Regen.Base.Bytes Regen.Base.BytesProps Regen.Base.Regex Regen.Base.RegexProps
  Regen.Base.Calendar Regen.Base.CalendarProps Regen.Generated.IdConsts Regen.Ids.Ids Regen.Ids.IdsProps.
Import ListNotations.
Open Scope string_scope.
Open Scope list_scope.

(* ---- the validators are regex matches with a proved-correct matcher ---- *)

Theorem C14_matcher_correct : forall r s, rmatch r s = true <-> matches r s.
Proof. exact rmatch_correct. Qed.
Print Assumptions C14_matcher_correct.

(* ---- the validators accept exactly the documented formats ---- *)

(* <1-3 upper-case letters> *)
Theorem C14_abbrev_format : forall a, validate_credit_type_abbrev a = true <-> is_abbrev a.
Proof. exact validate_abbrev_spec. Qed.
Print Assumptions C14_abbrev_format.

(* <abbrev><at least 2 digits> *)
Theorem C14_class_id_format : forall s, validate_class_id s = true <-> is_class_id s.
Proof. exact validate_class_id_spec. Qed.
Print Assumptions C14_class_id_format.

(* <class id>-<at least 3 digits> *)
Theorem C14_project_id_format : forall s, validate_project_id s = true <-> is_project_id s.
Proof. exact validate_project_id_spec. Qed.
Print Assumptions C14_project_id_format.

(* <project id>-<8 digits>-<8 digits>-<at least 3 digits> *)
Theorem C14_batch_denom_format : forall s, validate_batch_denom s = true <-> is_batch_denom s.
Proof. exact validate_batch_denom_spec. Qed.
Print Assumptions C14_batch_denom_format.

(* ---- formatted identifiers are accepted (every sequence number, 0 included) ---- *)

Theorem C14_class_id_valid : forall a n,
  validate_credit_type_abbrev a = true -> validate_class_id (format_class_id a n) = true.
Proof. exact class_id_valid. Qed.
Print Assumptions C14_class_id_valid.

Theorem C14_project_id_valid : forall c n,
  validate_class_id c = true -> validate_project_id (format_project_id c n) = true.
Proof. exact format_project_id_valid. Qed.
Print Assumptions C14_project_id_valid.

Theorem C14_batch_denom_valid : forall p n s e,
  validate_project_id p = true -> ts_valid s = true -> ts_valid e = true ->
  validate_batch_denom (format_batch_denom p n s e) = true.
Proof. exact format_batch_denom_valid. Qed.
Print Assumptions C14_batch_denom_valid.

(* ---- parsers recover the embedded components ---- *)

Theorem C14_abbrev_recovered : forall a n,
  validate_credit_type_abbrev a = true ->
  get_credit_type_abbrev_from_class_id (format_class_id a n) = Some a.
Proof. exact abbrev_recovered. Qed.
Print Assumptions C14_abbrev_recovered.

Theorem C14_class_recovered_from_project : forall c n,
  validate_class_id c = true -> get_class_id_from_project_id (format_project_id c n) = c.
Proof. exact get_class_id_from_project_id_format. Qed.
Print Assumptions C14_class_recovered_from_project.

Theorem C14_project_recovered_from_denom : forall p n s e,
  validate_project_id p = true -> get_project_id_from_batch_denom (format_batch_denom p n s e) = p.
Proof. exact get_project_id_from_batch_denom_format. Qed.
Print Assumptions C14_project_recovered_from_denom.

Theorem C14_class_recovered_from_denom : forall c k n s e,
  validate_class_id c = true ->
  get_class_id_from_batch_denom (format_batch_denom (format_project_id c k) n s e) = c.
Proof. exact get_class_id_from_batch_denom_format. Qed.
Print Assumptions C14_class_recovered_from_denom.

(* on every string accepted by ValidateBatchDenom the parsers return valid, mutually consistent ids *)
Theorem C14_parsers_consistent : forall d, validate_batch_denom d = true ->
  validate_project_id (get_project_id_from_batch_denom d) = true /\
  validate_class_id (get_class_id_from_batch_denom d) = true /\
  get_class_id_from_project_id (get_project_id_from_batch_denom d) = get_class_id_from_batch_denom d.
Proof. exact parsers_consistent. Qed.
Print Assumptions C14_parsers_consistent.

Theorem C14_id_chain : forall a cs ps bs s e,
  validate_credit_type_abbrev a = true -> ts_valid s = true -> ts_valid e = true ->
  let c := format_class_id a cs in
  let p := format_project_id c ps in
  let d := format_batch_denom p bs s e in
  validate_class_id c = true /\ validate_project_id p = true /\ validate_batch_denom d = true /\
  get_credit_type_abbrev_from_class_id c = Some a /\
  get_class_id_from_project_id p = c /\
  get_class_id_from_batch_denom d = c /\
  get_project_id_from_batch_denom d = p.
Proof. exact id_chain. Qed.
Print Assumptions C14_id_chain.

(* ---- injectivity: distinct (component, sequence) pairs give distinct identifiers ---- *)

Theorem C14_class_id_injective : forall a n a' n',
  validate_credit_type_abbrev a = true -> validate_credit_type_abbrev a' = true ->
  format_class_id a n = format_class_id a' n' -> a = a' /\ n = n'.
Proof. exact class_id_injective. Qed.
Print Assumptions C14_class_id_injective.

Theorem C14_project_id_injective : forall c n c' n',
  validate_class_id c = true -> validate_class_id c' = true ->
  format_project_id c n = format_project_id c' n' -> c = c' /\ n = n'.
Proof. exact format_project_id_inj. Qed.
Print Assumptions C14_project_id_injective.

(* equal denoms: same project, same sequence number, same UTC calendar dates (not same instants) *)
Theorem C14_batch_denom_injective : forall p n s e p' n' s' e',
  validate_project_id p = true -> validate_project_id p' = true ->
  ts_valid s = true -> ts_valid e = true -> ts_valid s' = true -> ts_valid e' = true ->
  format_batch_denom p n s e = format_batch_denom p' n' s' e' ->
  p = p' /\ n = n' /\ ts_date s = ts_date s' /\ ts_date e = ts_date e'.
Proof. exact format_batch_denom_inj. Qed.
Print Assumptions C14_batch_denom_injective.

(* ---- prefix scans (BatchesByClass lists the denoms with prefix classID + "-") ---- *)

Theorem C14_class_prefix : forall c d,
  validate_class_id c = true -> validate_batch_denom d = true ->
  (has_prefix (c ++ [x2d]) d = true <-> get_class_id_from_batch_denom d = c).
Proof. exact class_prefix_of_denom. Qed.
Print Assumptions C14_class_prefix.

Theorem C14_class_prefix_formatted : forall c c' k n s e,
  validate_class_id c = true -> validate_class_id c' = true ->
  (has_prefix (c ++ [x2d]) (format_batch_denom (format_project_id c' k) n s e) = true <-> c = c').
Proof. exact class_prefix_of_formatted_denom. Qed.
Print Assumptions C14_class_prefix_formatted.

Theorem C14_class_prefix_project : forall c c' k,
  validate_class_id c = true -> validate_class_id c' = true ->
  (has_prefix (c ++ [x2d]) (format_project_id c' k) = true <-> c = c').
Proof. exact class_prefix_of_formatted_project. Qed.
Print Assumptions C14_class_prefix_project.

Theorem C14_project_prefix : forall p d,
  validate_project_id p = true -> validate_batch_denom d = true ->
  (has_prefix (p ++ [x2d]) d = true <-> get_project_id_from_batch_denom d = p).
Proof. exact project_prefix_of_denom. Qed.
Print Assumptions C14_project_prefix.

(* ---- basket denoms ---- *)

Theorem C14_basket_denom_valid : forall name a e p,
  validate_basket_name name = true -> validate_credit_type_abbrev a = true ->
  exponent_to_prefix e = Some p ->
  exists d dd, format_basket_denom name a e = Some (d, dd) /\
    validate_basket_denom d = true /\ validate_basket_denom dd = true.
Proof. exact basket_denom_valid. Qed.
Print Assumptions C14_basket_denom_valid.

Theorem C14_basket_denom_error : forall name a e,
  format_basket_denom name a e = None <-> exponent_to_prefix e = None.
Proof. exact format_basket_denom_none. Qed.
Print Assumptions C14_basket_denom_error.

Theorem C14_exponent_prefix_injective : forall e e' p,
  exponent_to_prefix e = Some p -> exponent_to_prefix e' = Some p -> e = e'.
Proof. exact exponent_prefix_inj. Qed.
Print Assumptions C14_exponent_prefix_injective.

Theorem C14_basket_denom_injective : forall name a e name' a' e' d dd dd',
  validate_credit_type_abbrev a = true -> validate_credit_type_abbrev a' = true ->
  format_basket_denom name a e = Some (d, dd) -> format_basket_denom name' a' e' = Some (d, dd') ->
  name = name' /\ a = a' /\ e = e'.
Proof. exact basket_denom_injective. Qed.
Print Assumptions C14_basket_denom_injective.

(* ---- calendar facts the denom theorems rest on ---- *)

Theorem C14_civil_round_trip : forall y m d,
  valid_date y m d = true -> civil_from_days (days_from_civil y m d) = (y, m, d).
Proof. exact civil_from_days_from_civil. Qed.
Print Assumptions C14_civil_round_trip.

Theorem C14_days_round_trip : forall z,
  let '(y, m, d) := civil_from_days z in days_from_civil y m d = z.
Proof. exact days_from_civil_from_days. Qed.
Print Assumptions C14_days_round_trip.

Theorem C14_date_layout : forall t, ts_valid t = true ->
  List.length (format_yyyymmdd t) = 8%nat /\ all_digits (format_yyyymmdd t).
Proof. exact format_yyyymmdd_valid. Qed.
Print Assumptions C14_date_layout.

(* ---- the hypotheses are satisfiable; the documented examples ---- *)

Definition t20190101 : ts := mk_ts 1546300800 0.
Definition t20200101 : ts := mk_ts 1577836800 0.

Example ex_abbrev : validate_credit_type_abbrev (b "C") = true.
Proof. reflexivity. Qed.
Example ex_abbrev3 : validate_credit_type_abbrev (b "BIO") = true.
Proof. reflexivity. Qed.
Example ex_abbrev_bad : validate_credit_type_abbrev (b "ABCD") = false /\ validate_credit_type_abbrev (b "c") = false /\ validate_credit_type_abbrev [] = false.
Proof. repeat split. Qed.
Example ex_ts : ts_valid t20190101 = true /\ ts_valid t20200101 = true /\ ts_date t20190101 = (2019, 1, 1)%Z.
Proof. repeat split. Qed.
Example ex_ts_bounds : ts_valid (mk_ts (-62135596800) 0) = true /\ ts_date (mk_ts (-62135596800) 0) = (1, 1, 1)%Z /\
  ts_valid (mk_ts 253402300799 999999999) = true /\ ts_date (mk_ts 253402300799 999999999) = (9999, 12, 31)%Z /\
  ts_date (mk_ts (-1) 999999999) = (1969, 12, 31)%Z.
Proof. repeat split. Qed.
Example ex_class : format_class_id (b "C") 1 = b "C01".
Proof. reflexivity. Qed.
Example ex_class_wide : format_class_id (b "C") 100 = b "C100" /\ format_class_id (b "C") 18446744073709551615 = b "C18446744073709551615".
Proof. split; vm_compute; reflexivity. Qed.
Example ex_project : format_project_id (b "C01") 1 = b "C01-001".
Proof. reflexivity. Qed.
Example ex_denom : format_batch_denom (b "C01-001") 1 t20190101 t20200101 = b "C01-001-20190101-20200101-001".
Proof. vm_compute. reflexivity. Qed.
Example ex_denom_valid : validate_batch_denom (b "C01-001-20190101-20200101-001") = true.
Proof. vm_compute. reflexivity. Qed.
Example ex_parsers :
  get_class_id_from_batch_denom (b "C01-001-20190101-20200101-001") = b "C01" /\
  get_project_id_from_batch_denom (b "C01-001-20190101-20200101-001") = b "C01-001" /\
  get_class_id_from_project_id (b "C01-001") = b "C01" /\
  get_credit_type_abbrev_from_class_id (b "C01") = Some (b "C").
Proof. repeat split. Qed.
(* the C01 / C011 case *)
Example ex_prefix :
  has_prefix (b "C01-") (b "C011-001-20190101-20200101-001") = false /\
  has_prefix (b "C01") (b "C011-001-20190101-20200101-001") = true /\
  has_prefix (b "C01-001-") (b "C01-0011-20190101-20200101-001") = false.
Proof. repeat split. Qed.
(* Go's `$` is end of text: a trailing newline is rejected *)
Example ex_newline : validate_class_id (b "C01" ++ [x0a]) = false.
Proof. reflexivity. Qed.
Example ex_basket : format_basket_denom (b "NCT") (b "C") 6 = Some (b "eco.uC.NCT", b "eco.C.NCT").
Proof. reflexivity. Qed.
Example ex_basket_err : format_basket_denom (b "NCT") (b "C") 4 = None.
Proof. reflexivity. Qed.
(* why the injectivity theorem needs a valid (upper-case) abbreviation *)
Example ex_basket_collision :
  option_map fst (format_basket_denom (b "NCT") (b "dC") 0) = option_map fst (format_basket_denom (b "NCT") (b "C") 1).
Proof. reflexivity. Qed.
(* the `.` of the basket denom regex is a wildcard *)
Example ex_basket_dot : validate_basket_denom (b "ecoXCXNCT") = true.
Proof. vm_compute. reflexivity. Qed.
Example ex_jurisdiction : validate_jurisdiction (b "US-WA 98225") = true /\ validate_jurisdiction (b "US-WASH") = false.
Proof. split; vm_compute; reflexivity. Qed.
