(* Property C17: "Every list query returns exactly the set of entities satisfying its filter in the
   current state (batches by class, issuer or project; balances by address or batch; projects by
   class, admin or reference id; classes by admin; sell orders by seller or batch; baskets and basket
   balances), and walking its pages with any page size yields each element exactly once with a
   correct total.  Single-entity queries return values equal to stored state."

   Model: Regen.Query.Queries (the query handlers of the three ecocredit query services over the
   ledger state, checked against the real gRPC services by the `queries` correspondence family) and
   Regen.Query.Paginate (the ORM paginator; see Properties/C17pure.v for its own theorems).
   Quantifiers: every state [s] (no reachability hypothesis is needed, except [ids_wf s] for
   BatchesByClass, whose handler scans a string prefix), every filter argument, every page size
   k >= 1, count_total on or off, key walking forward and in reverse, offset walking.

   [exact_list l P] (Query/QueriesProps.v) = (forall e, In e l <-> P e) /\ NoDup l /\ pages_partition l P:
   [l] contains exactly the entries satisfying [P], each once, and each of the three ways of walking
   its pages returns a sequence of pages whose concatenation is [l] (or [rev l]), has no duplicates,
   contains exactly the entries satisfying [P], consists of max 1 (ceil (|l|/k)) pages, and reports
   total = |l| on every offset page when count_total is set.

   The data-module queries (AttestationsByIRI/Hash/Attestor, ResolversByIRI/Hash/URL, Resolver,
   AnchorByIRI) are modelled over the data state Regen.Data.DataMsgs (association lists); their
   no-duplicate statements assume the key-uniqueness fields of the data invariant Inv_data
   (Data/DataInv.v: inv_att_keys, inv_dr_nodup, inv_res_keys, inv_id_iris). *)
From stdpp Require Import gmap.
From Coq Require Import Strings.String ZArith NArith List Bool Strings.Byte Permutation.
Require Import Regen.Base.Bytes Regen.Base.Calendar Regen.Dec.Dec Regen.Ids.Ids.
Require Import Regen.Ledger.Types Regen.Ledger.Msgs Regen.Ledger.Orm Regen.Ledger.BaseMsgs Regen.Ledger.BasketMsgs.
Require Import Regen.Query.Paginate Regen.Query.PaginateProps Regen.Query.Queries Regen.Query.QueriesProps.
Require Regen.Data.DataMsgs.
Import ListNotations.

(* the index order is produced by Ledger/Orm.v [sort_by]: it only reorders *)
Theorem C17_sort_is_permutation : forall (A : Type) (leb : A -> A -> bool) (l : list A), Permutation (sort_by leb l) l.
Proof. exact (@sort_by_permutation). Qed.
Print Assumptions C17_sort_is_permutation.

(* exactness and absence of duplicates imply the three paging statements (Paginate walk theorems) *)
Theorem C17_exact_list_intro : forall (E : Type) (l : list E) (P : E -> Prop),
  (forall e, List.In e l <-> P e) -> List.NoDup l -> exact_list l P.
Proof. exact (@exact_list_intro). Qed.
Print Assumptions C17_exact_list_intro.

(* ---------- list queries: exactly the matching set, each once, pages partition it ---------- *)

Theorem C17_classes : forall s, exact_list (q_classes s) (fun e => classes s !! e.1 = Some e.2).
Proof. exact q_classes_spec. Qed.
Print Assumptions C17_classes.

Theorem C17_classes_by_admin : forall s a, exact_list (q_classes_by_admin s a) (fun e => classes s !! e.1 = Some e.2 /\ cl_admin e.2 = a).
Proof. exact q_classes_by_admin_spec. Qed.
Print Assumptions C17_classes_by_admin.

Theorem C17_class_issuers : forall s (ab : addr -> bytes) k, exact_list (q_class_issuers ab s k) (fun e => e ∈ class_issuers s /\ e.1 = k).
Proof. exact q_class_issuers_spec. Qed.
Print Assumptions C17_class_issuers.

Theorem C17_projects : forall s, exact_list (q_projects s) (fun e => projects s !! e.1 = Some e.2).
Proof. exact q_projects_spec. Qed.
Print Assumptions C17_projects.

Theorem C17_projects_by_class : forall s k, exact_list (q_projects_by_class s k) (fun e => projects s !! e.1 = Some e.2 /\ pj_class_key e.2 = k).
Proof. exact q_projects_by_class_spec. Qed.
Print Assumptions C17_projects_by_class.

Theorem C17_projects_by_admin : forall s a, exact_list (q_projects_by_admin s a) (fun e => projects s !! e.1 = Some e.2 /\ pj_admin e.2 = a).
Proof. exact q_projects_by_admin_spec. Qed.
Print Assumptions C17_projects_by_admin.

Theorem C17_projects_by_reference_id : forall s r, exact_list (q_projects_by_reference_id s r) (fun e => projects s !! e.1 = Some e.2 /\ pj_reference_id e.2 = r).
Proof. exact q_projects_by_reference_id_spec. Qed.
Print Assumptions C17_projects_by_reference_id.

Theorem C17_batches : forall s, exact_list (q_batches s) (fun e => batches s !! e.1 = Some e.2).
Proof. exact q_batches_spec. Qed.
Print Assumptions C17_batches.

Theorem C17_batches_by_class : forall s cid, ids_wf s -> validate_class_id cid = true ->
  exact_list (q_batches_by_class s cid) (fun e => batches s !! e.1 = Some e.2 /\ batch_in_class s e.2 cid).
Proof. exact q_batches_by_class_spec. Qed.
Print Assumptions C17_batches_by_class.

Theorem C17_batches_by_issuer : forall s a, exact_list (q_batches_by_issuer s a) (fun e => batches s !! e.1 = Some e.2 /\ ba_issuer e.2 = a).
Proof. exact q_batches_by_issuer_spec. Qed.
Print Assumptions C17_batches_by_issuer.

Theorem C17_batches_by_project : forall s k, exact_list (q_batches_by_project s k) (fun e => batches s !! e.1 = Some e.2 /\ ba_project_key e.2 = k).
Proof. exact q_batches_by_project_spec. Qed.
Print Assumptions C17_batches_by_project.

Theorem C17_balances : forall s a, exact_list (q_balances s a) (fun e => balances s !! e.1 = Some e.2 /\ e.1.1 = a).
Proof. exact q_balances_spec. Qed.
Print Assumptions C17_balances.

Theorem C17_balances_by_batch : forall s (ab : addr -> bytes) k, exact_list (q_balances_by_batch ab s k) (fun e => balances s !! e.1 = Some e.2 /\ e.1.2 = k).
Proof. exact q_balances_by_batch_spec. Qed.
Print Assumptions C17_balances_by_batch.

Theorem C17_all_balances : forall s (ab : addr -> bytes), exact_list (q_all_balances ab s) (fun e => balances s !! e.1 = Some e.2).
Proof. exact q_all_balances_spec. Qed.
Print Assumptions C17_all_balances.

Theorem C17_allowed_class_creators : forall s (ab : addr -> bytes), exact_list (q_allowed_class_creators ab s) (fun a => a ∈ allowed_creators s).
Proof. exact q_allowed_class_creators_spec. Qed.
Print Assumptions C17_allowed_class_creators.

Theorem C17_baskets : forall s, exact_list (q_baskets s) (fun e => baskets s !! e.1 = Some e.2).
Proof. exact q_baskets_spec. Qed.
Print Assumptions C17_baskets.

Theorem C17_basket_balances : forall s id, exact_list (q_basket_balances s id) (fun e => basket_balances s !! e.1 = Some e.2 /\ e.1.1 = id).
Proof. exact q_basket_balances_spec. Qed.
Print Assumptions C17_basket_balances.

Theorem C17_sell_orders : forall s, exact_list (q_sell_orders s) (fun e => sell_orders s !! e.1 = Some e.2).
Proof. exact q_sell_orders_spec. Qed.
Print Assumptions C17_sell_orders.

Theorem C17_sell_orders_by_seller : forall s a, exact_list (q_sell_orders_by_seller s a) (fun e => sell_orders s !! e.1 = Some e.2 /\ so_seller e.2 = a).
Proof. exact q_sell_orders_by_seller_spec. Qed.
Print Assumptions C17_sell_orders_by_seller.

Theorem C17_sell_orders_by_batch : forall s k, exact_list (q_sell_orders_by_batch s k) (fun e => sell_orders s !! e.1 = Some e.2 /\ so_batch_key e.2 = k).
Proof. exact q_sell_orders_by_batch_spec. Qed.
Print Assumptions C17_sell_orders_by_batch.

Theorem C17_allowed_denoms : forall s, exact_list (q_allowed_denoms s) (fun e => allowed_denoms s !! e.1 = Some e.2).
Proof. exact q_allowed_denoms_spec. Qed.
Print Assumptions C17_allowed_denoms.

(* unpaginated lists *)
Theorem C17_credit_types : forall s, (forall e, List.In e (q_credit_types s) <-> credit_types s !! e.1 = Some e.2) /\ List.NoDup (q_credit_types s).
Proof. exact q_credit_types_spec. Qed.
Print Assumptions C17_credit_types.

Theorem C17_allowed_bridge_chains : forall s, (forall c, List.In c (q_allowed_bridge_chains s) <-> c ∈ allowed_bridge_chains s) /\ List.NoDup (q_allowed_bridge_chains s).
Proof. exact q_allowed_bridge_chains_spec. Qed.
Print Assumptions C17_allowed_bridge_chains.

Theorem C17_basket_classes : forall s id, (forall e, List.In e (q_basket_classes s id) <-> e ∈ basket_classes s /\ e.1 = id) /\ List.NoDup (q_basket_classes s id).
Proof. exact q_basket_classes_spec. Qed.
Print Assumptions C17_basket_classes.

(* ---------- BatchesByClass: what the handler computes, and the request-level statement ---------- *)

(* without any hypothesis: the scan is a string-prefix condition on the denom *)
Theorem C17_batches_by_class_prefix : forall s cid e,
  List.In e (q_batches_by_class s cid) <-> batches s !! e.1 = Some e.2 /\ has_prefix (cid ++ [x2d]) (ba_denom e.2) = true.
Proof. exact q_batches_by_class_prefix. Qed.
Print Assumptions C17_batches_by_class_prefix.

(* with unique class ids: exactly the batches whose project belongs to the class row found for the requested id *)
Theorem C17_batches_by_class_of_request : forall s id k c e,
  ids_wf s -> class_ids_unique s -> class_by_id s id = Some (k, c) ->
  (List.In e (q_batches_by_class s (cl_id c)) <->
   batches s !! e.1 = Some e.2 /\ exists p, projects s !! ba_project_key e.2 = Some p /\ pj_class_key p = k).
Proof. exact q_batches_by_class_of_request. Qed.
Print Assumptions C17_batches_by_class_of_request.

(* ---------- which list a request paginates; missing filter entities are errors ---------- *)

Theorem C17_run_projects_by_class : forall ab s id,
  match class_by_id s id with
  | Some (k, _) => run_query ab s (QProjectsByClass id) = QPaged (map (r_project s) (q_projects_by_class s k))
  | None => run_query ab s (QProjectsByClass id) = QErr ENotFound
  end.
Proof. exact run_projects_by_class. Qed.
Print Assumptions C17_run_projects_by_class.

Theorem C17_run_batches_by_class : forall ab s id,
  match class_by_id s id with
  | Some (_, c) => run_query ab s (QBatchesByClass id) = QPaged (map (r_batch s) (q_batches_by_class s (cl_id c)))
  | None => run_query ab s (QBatchesByClass id) = QErr ENotFound
  end.
Proof. exact run_batches_by_class. Qed.
Print Assumptions C17_run_batches_by_class.

Theorem C17_run_batches_by_project : forall ab s id,
  match project_by_id s id with
  | Some (k, p) => run_query ab s (QBatchesByProject id) =
                   QPaged (map (fun e : N * batch => Some (batch_info (pj_id p) e.2)) (q_batches_by_project s k))
  | None => run_query ab s (QBatchesByProject id) = QErr ENotFound
  end.
Proof. exact run_batches_by_project. Qed.
Print Assumptions C17_run_batches_by_project.

Theorem C17_run_balances_by_batch : forall ab s d,
  match batch_by_denom s d with
  | Some (k, b) => run_query ab s (QBalancesByBatch d) =
                   QPaged (map (fun e : addr * N * balance => Some (balance_info e.1.1 (ba_denom b) e.2)) (q_balances_by_batch ab s k))
  | None => run_query ab s (QBalancesByBatch d) = QErr EInvalidArgument
  end.
Proof. exact run_balances_by_batch. Qed.
Print Assumptions C17_run_balances_by_batch.

Theorem C17_run_sell_orders_by_batch : forall ab s d,
  match batch_by_denom s d with
  | Some (k, b) => run_query ab s (QSellOrdersByBatch d) = QPaged (map (r_order_of_batch s (ba_denom b)) (q_sell_orders_by_batch s k))
  | None => run_query ab s (QSellOrdersByBatch d) = QErr ENotFound
  end.
Proof. exact run_sell_orders_by_batch. Qed.
Print Assumptions C17_run_sell_orders_by_batch.

Theorem C17_run_projects_by_reference_id : forall ab s r,
  r <> [] -> run_query ab s (QProjectsByReferenceId r) = QPaged (map (r_project s) (q_projects_by_reference_id s r)).
Proof. exact run_projects_by_reference_id. Qed.
Print Assumptions C17_run_projects_by_reference_id.

Theorem C17_run_by_address : forall ab s a,
  run_query ab s (QClassesByAdmin a) = QPaged (map (fun e => Some (r_class e)) (q_classes_by_admin s a)) /\
  run_query ab s (QProjectsByAdmin a) = QPaged (map (r_project s) (q_projects_by_admin s a)) /\
  run_query ab s (QBatchesByIssuer a) = QPaged (map (r_batch s) (q_batches_by_issuer s a)) /\
  run_query ab s (QBalances a) = QPaged (map (r_balance s) (q_balances s a)) /\
  run_query ab s (QSellOrdersBySeller a) = QPaged (map (r_order s) (q_sell_orders_by_seller s a)).
Proof. exact run_by_address. Qed.
Print Assumptions C17_run_by_address.

(* ---------- pagination commutes with rendering the entries into response rows ---------- *)

Theorem C17_paginate_map : forall (A B : Type) (f : A -> B) (l : list A) (req : page_req),
  paginate (map f l) req = pres_map f (paginate l req).
Proof. exact (@paginate_map). Qed.
Print Assumptions C17_paginate_map.

Theorem C17_walk_by_key_map : forall (A B : Type) (f : A -> B) (l : list A) (k : N) (ct rv : bool) (fuel : nat) (cursor : option nat),
  walk_by_key fuel (map f l) k ct rv cursor = walk_res_map f (walk_by_key fuel l k ct rv cursor).
Proof. exact (@walk_by_key_map). Qed.
Print Assumptions C17_walk_by_key_map.

Theorem C17_walk_by_offset_map : forall (A B : Type) (f : A -> B) (l : list A) (k : N) (ct rv : bool) (fuel : nat) (i : N),
  walk_by_offset fuel (map f l) k ct rv i = walk_res_map f (walk_by_offset fuel l k ct rv i).
Proof. exact (@walk_by_offset_map). Qed.
Print Assumptions C17_walk_by_offset_map.

Theorem C17_rendered_walk : forall (E : Type) (l : list E) (render : E -> option mrow) (k : N) (ct : bool),
  (1 <= k)%N ->
  exists pages,
    walk_by_key (S (length (map render l))) (map render l) k ct false None = WOk (map (page_res_map render) pages) /\
    all_items (option mrow) (map (page_res_map render) pages) = map render l /\
    all_items E pages = l.
Proof. exact (@rendered_walk). Qed.
Print Assumptions C17_rendered_walk.

Theorem C17_total_is_count : forall (E : Type) (l : list E) (req : page_req) (r : page_res E),
  pr_key req = None -> pr_count_total req = true -> paginate l req = POk r -> pg_total r = N.of_nat (length l).
Proof. exact (@total_is_count). Qed.
Print Assumptions C17_total_is_count.

(* ---------- single-entity queries return the stored row ---------- *)

Theorem C17_class_stored : forall ab s id r,
  run_query ab s (QClass id) = QOne r ->
  exists k c, classes s !! k = Some c /\ cl_id c = id /\ r = RClass (cl_id c) (cl_admin c) (cl_metadata c) (cl_ct c).
Proof. exact q_class_stored. Qed.
Print Assumptions C17_class_stored.

Theorem C17_class_complete : forall ab s k c,
  classes s !! k = Some c -> exists r, run_query ab s (QClass (cl_id c)) = QOne r.
Proof. exact q_class_complete. Qed.
Print Assumptions C17_class_complete.

Theorem C17_project_stored : forall ab s id r,
  run_query ab s (QProject id) = QOne r ->
  exists k p c, projects s !! k = Some p /\ pj_id p = id /\ classes s !! pj_class_key p = Some c /\
    r = RProject (pj_id p) (pj_admin p) (cl_id c) (pj_jurisdiction p) (pj_metadata p) (pj_reference_id p).
Proof. exact q_project_stored. Qed.
Print Assumptions C17_project_stored.

Theorem C17_batch_stored : forall ab s d r,
  run_query ab s (QBatch d) = QOne r ->
  exists k b p, batches s !! k = Some b /\ ba_denom b = d /\ projects s !! ba_project_key b = Some p /\
    r = RBatch (ba_issuer b) (pj_id p) (ba_denom b) (ba_metadata b) (ba_start b) (ba_end b) (ba_issuance b) (ba_open b).
Proof. exact q_batch_stored. Qed.
Print Assumptions C17_batch_stored.

Theorem C17_balance_stored : forall ab s a d r,
  run_query ab s (QBalance a d) = QOne r ->
  exists k b, batches s !! k = Some b /\ ba_denom b = d /\
    match balances s !! (a, k) with
    | Some bl => r = RBalance a d (bl_tradable bl) (bl_retired bl) (bl_escrowed bl)
    | None => r = RBalance a d dzero dzero dzero
    end.
Proof. exact q_balance_stored. Qed.
Print Assumptions C17_balance_stored.

Theorem C17_supply_stored : forall ab s d r,
  run_query ab s (QSupply d) = QOne r ->
  exists k b su, batches s !! k = Some b /\ ba_denom b = d /\ supplies s !! k = Some su /\
    r = RSupply (su_tradable su) (su_retired su) (su_cancelled su).
Proof. exact q_supply_stored. Qed.
Print Assumptions C17_supply_stored.

Theorem C17_credit_type_stored : forall ab s abbrev r,
  run_query ab s (QCreditType abbrev) = QOne r ->
  exists ct, credit_types s !! abbrev = Some ct /\ r = RCreditType abbrev (ct_name ct) (ct_unit ct) (ct_precision ct).
Proof. exact q_credit_type_stored. Qed.
Print Assumptions C17_credit_type_stored.

Theorem C17_sell_order_stored : forall ab s id r,
  run_query ab s (QSellOrder id) = QOne r ->
  exists o b m, sell_orders s !! id = Some o /\ batches s !! so_batch_key o = Some b /\ markets s !! so_market_id o = Some m /\
    r = ROrder id (so_seller o) (ba_denom b) (so_quantity o) (mk_denom m) (so_ask_amount o) (so_disable_auto_retire o) (so_expiration o).
Proof. exact q_sell_order_stored. Qed.
Print Assumptions C17_sell_order_stored.

Theorem C17_basket_stored : forall ab s d r,
  run_query ab s (QBasket d) = QOne r ->
  exists id k, baskets s !! id = Some k /\ bk_denom k = d /\
    r = RBasketOne id (bk_denom k) (bk_name k) (bk_disable_auto_retire k) (bk_ct k) (bk_criteria k) (bk_exponent k) (bk_curator k)
                   (map snd (q_basket_classes s id)) /\
    (forall c, List.In c (map snd (q_basket_classes s id)) <-> (id, c) ∈ basket_classes s).
Proof. exact q_basket_stored. Qed.
Print Assumptions C17_basket_stored.

Theorem C17_basket_balance_stored : forall ab s bd d r,
  run_query ab s (QBasketBalance bd d) = QOne r ->
  exists id k, baskets s !! id = Some k /\ bk_denom k = bd /\
    match basket_balances s !! (id, d) with
    | Some bb => r = RAmount (bb_balance bb)
    | None => r = RAmount dzero
    end.
Proof. exact q_basket_balance_stored. Qed.
Print Assumptions C17_basket_balance_stored.

(* ---------- x/data list queries ---------- *)

(* AttestationsByIRI / ByHash scan the attestations of the data id found for the IRI *)
Theorem C17_attestations_by_iri : forall ab d id,
  List.NoDup (map fst (DataMsgs.attestors d)) ->
  exact_list (q_attestations_by_id ab d id) (fun e => List.In e (DataMsgs.attestors d) /\ e.1.1 = id).
Proof. exact q_attestations_by_id_spec. Qed.
Print Assumptions C17_attestations_by_iri.

Theorem C17_attestations_by_attestor : forall d a,
  List.NoDup (map fst (DataMsgs.attestors d)) ->
  exact_list (q_attestations_by_attestor d a) (fun e => List.In e (DataMsgs.attestors d) /\ e.1.2 = a).
Proof. exact q_attestations_by_attestor_spec. Qed.
Print Assumptions C17_attestations_by_attestor.

Theorem C17_resolvers_by_iri : forall d id,
  List.NoDup (DataMsgs.data_resolvers d) ->
  exact_list (q_data_resolvers_by_id d id) (fun e => List.In e (DataMsgs.data_resolvers d) /\ e.1 = id).
Proof. exact q_data_resolvers_by_id_spec. Qed.
Print Assumptions C17_resolvers_by_iri.

Theorem C17_resolvers_by_url : forall d url,
  List.NoDup (map fst (DataMsgs.resolvers d)) ->
  exact_list (q_resolvers_by_url d url) (fun e => List.In e (DataMsgs.resolvers d) /\ e.2.1 = url).
Proof. exact q_resolvers_by_url_spec. Qed.
Print Assumptions C17_resolvers_by_url.

Theorem C17_data_id_by_iri_sound : forall d iri id, data_id_by_iri d iri = Some id -> List.In (id, iri) (DataMsgs.data_ids d).
Proof. exact data_id_by_iri_sound. Qed.
Print Assumptions C17_data_id_by_iri_sound.

Theorem C17_data_id_by_iri_complete : forall d iri id,
  List.NoDup (map snd (DataMsgs.data_ids d)) -> List.In (id, iri) (DataMsgs.data_ids d) -> data_id_by_iri d iri = Some id.
Proof. exact data_id_by_iri_complete. Qed.
Print Assumptions C17_data_id_by_iri_complete.

Theorem C17_run_attestations_by_iri : forall ab d iri,
  iri_ok iri = true ->
  match data_id_by_iri d iri with
  | Some id => run_data_query ab d (DQAttestationsByIRI iri) =
               QPaged (map (fun e : bytes * addr * ts => Some (RAttestation iri e.1.2 e.2)) (q_attestations_by_id ab d id))
  | None => run_data_query ab d (DQAttestationsByIRI iri) = QErr ENotFound
  end.
Proof. exact run_attestations_by_iri. Qed.
Print Assumptions C17_run_attestations_by_iri.

Theorem C17_resolver_stored : forall ab d id r,
  run_data_query ab d (DQResolver id) = QOne r ->
  exists v, DataMsgs.get_resolver id d = Some v /\ r = RResolver id v.1 v.2.
Proof. exact q_resolver_stored. Qed.
Print Assumptions C17_resolver_stored.

(* ---------- concrete instances ---------- *)

(* A state with ids that are string prefixes of one another: classes C01 / C011, projects C01-001 /
   C011-001 / C01-002, reference ids VCS-1 / VCS-10. *)
Example d0 : ts := {| secs := 1577836800; nanos := 0 |}.     (* 2020-01-01 *)
Example d1 : ts := {| secs := 1609459200; nanos := 0 |}.     (* 2021-01-01 *)
Example ex_batch (issuer : addr) (pk : N) (denom : string) : batch :=
  {| ba_issuer := issuer; ba_project_key := pk; ba_denom := b denom; ba_metadata := []; ba_start := d0; ba_end := d1;
     ba_issuance := d1; ba_open := false |}.
Example ex_bal (t : Z) : balance := {| bl_tradable := mkDec false t 0; bl_retired := dzero; bl_escrowed := dzero |}.
Example ex_state : state :=
  {| credit_types := {[ b "C" := {| ct_name := b "carbon"; ct_unit := b "t"; ct_precision := 6 |} ]};
     classes := {[ 1%N := {| cl_id := b "C01"; cl_admin := 0%N; cl_metadata := []; cl_ct := b "C" |};
                   2%N := {| cl_id := b "C011"; cl_admin := 1%N; cl_metadata := []; cl_ct := b "C" |} ]};
     class_seq_id := 2; class_issuers := {[ (1%N, 0%N); (2%N, 1%N) ]};
     projects := {[ 1%N := {| pj_id := b "C01-001"; pj_admin := 0%N; pj_class_key := 1; pj_jurisdiction := b "US"; pj_metadata := []; pj_reference_id := b "VCS-1" |};
                    2%N := {| pj_id := b "C011-001"; pj_admin := 1%N; pj_class_key := 2; pj_jurisdiction := b "KE"; pj_metadata := []; pj_reference_id := b "VCS-10" |};
                    3%N := {| pj_id := b "C01-002"; pj_admin := 1%N; pj_class_key := 1; pj_jurisdiction := b "FR"; pj_metadata := []; pj_reference_id := b "VCS-1" |} ]};
     project_seq_id := 3;
     batches := {[ 1%N := ex_batch 0%N 1 "C01-001-20200101-20210101-001";
                   2%N := ex_batch 1%N 2 "C011-001-20200101-20210101-001";
                   3%N := ex_batch 0%N 3 "C01-002-20200101-20210101-001";
                   4%N := ex_batch 0%N 1 "C01-001-20200101-20210101-002" ]};
     batch_seq_id := 4; class_sequences := ∅; project_sequences := ∅; batch_sequences := ∅;
     balances := {[ (0%N, 1%N) := ex_bal 10; (1%N, 1%N) := ex_bal 20; (0%N, 2%N) := ex_bal 30; (2%N, 1%N) := ex_bal 40 ]};
     supplies := ∅; origin_txs := ∅; batch_contracts := ∅; allowlist_enabled := false; allowed_creators := ∅;
     class_fee := None; allowed_bridge_chains := ∅; baskets := ∅; basket_seq_id := 0; basket_classes := ∅;
     basket_balances := ∅; basket_fee := None; sell_orders := ∅; sell_order_seq_id := 0; allowed_denoms := ∅;
     markets := ∅; market_seq_id := 0; fee_params_ := None; bank := ∅; bank_supply := ∅ |}.

(* the address bytes of the harness accounts sort differently from the account indices *)
Example ex_ab : addr -> bytes := addr_lookup [(0%N, [x09]); (1%N, [x05]); (2%N, [x07])].

(* the hypotheses of C17_batches_by_class are satisfiable: the example state is well formed *)
Example ex_ids_wf : ids_wf ex_state.
Proof.
  split; [|split].
  - intros k c H. cbn in H.
    apply lookup_insert_Some in H as [[<- <-]|[_ H]]; [vm_compute; reflexivity|].
    apply lookup_singleton_Some in H as [<- <-]. vm_compute; reflexivity.
  - intros k p H. cbn in H.
    apply lookup_insert_Some in H as [[<- <-]|[_ H]].
    { eexists _, 1%N. split; [vm_compute; reflexivity|vm_compute; reflexivity]. }
    apply lookup_insert_Some in H as [[<- <-]|[_ H]].
    { eexists _, 1%N. split; [vm_compute; reflexivity|vm_compute; reflexivity]. }
    apply lookup_singleton_Some in H as [<- <-].
    eexists _, 2%N. split; [vm_compute; reflexivity|vm_compute; reflexivity].
  - intros k ba H. cbn in H.
    apply lookup_insert_Some in H as [[<- <-]|[_ H]].
    { eexists _, 1%N, d0, d1. split; [vm_compute; reflexivity|vm_compute; reflexivity]. }
    apply lookup_insert_Some in H as [[<- <-]|[_ H]].
    { eexists _, 1%N, d0, d1. split; [vm_compute; reflexivity|vm_compute; reflexivity]. }
    apply lookup_insert_Some in H as [[<- <-]|[_ H]].
    { eexists _, 1%N, d0, d1. split; [vm_compute; reflexivity|vm_compute; reflexivity]. }
    apply lookup_singleton_Some in H as [<- <-].
    eexists _, 2%N, d0, d1. split; [vm_compute; reflexivity|vm_compute; reflexivity].
Qed.

Example ex_valid_ids : validate_class_id (b "C01") = true /\ validate_class_id (b "C011") = true.
Proof. vm_compute. split; reflexivity. Qed.

(* BatchesByClass C01 returns the three C01 batches (in denom order), not the C011 batch *)
Example ex_batches_by_class_C01 :
  map (fun e : N * batch => ba_denom e.2) (q_batches_by_class ex_state (b "C01")) =
  [b "C01-001-20200101-20210101-001"; b "C01-001-20200101-20210101-002"; b "C01-002-20200101-20210101-001"].
Proof. vm_compute. reflexivity. Qed.
Example ex_batches_by_class_C011 :
  map (fun e : N * batch => ba_denom e.2) (q_batches_by_class ex_state (b "C011")) = [b "C011-001-20200101-20210101-001"].
Proof. vm_compute. reflexivity. Qed.

(* ProjectsByReferenceId VCS-1 returns the two VCS-1 projects, not VCS-10 *)
Example ex_projects_by_reference_id :
  map (fun e : N * project => pj_id e.2) (q_projects_by_reference_id ex_state (b "VCS-1")) = [b "C01-001"; b "C01-002"] /\
  map (fun e : N * project => pj_id e.2) (q_projects_by_reference_id ex_state (b "VCS-10")) = [b "C011-001"] /\
  q_projects_by_reference_id ex_state (b "VCS") = [].
Proof. vm_compute. repeat split; reflexivity. Qed.

(* BalancesByBatch orders by address BYTES (accounts 1, 2, 0), Balances by batch key *)
Example ex_balances_by_batch :
  map (fun e : addr * N * balance => e.1.1) (q_balances_by_batch ex_ab ex_state 1%N) = [1%N; 2%N; 0%N] /\
  map (fun e : addr * N * balance => e.1.2) (q_balances ex_state 0%N) = [1%N; 2%N].
Proof. vm_compute. split; reflexivity. Qed.

(* a whole request: BatchesByClass C01, limit 2, count_total: first page + cursor, total 3 *)
Example ex_request :
  match run_query ex_ab ex_state (QBatchesByClass (b "C01")) with
  | QPaged l =>
      match page_of l (Some (MkPageReq None 0 2 true false)) with
      | PageOk rows next total present =>
          map (fun r => match r with RBatch _ _ d _ _ _ _ _ => d | _ => [] end) rows =
            [b "C01-001-20200101-20210101-001"; b "C01-001-20200101-20210101-002"] /\
          next = Some 1%nat /\ total = 3%N /\ present = true
      | _ => False
      end
  | _ => False
  end.
Proof. vm_compute. repeat split; reflexivity. Qed.

(* unknown or neighbouring class ids are NotFound, not an empty or a foreign list *)
Example ex_absent :
  run_query ex_ab ex_state (QBatchesByClass (b "C0")) = QErr ENotFound /\
  run_query ex_ab ex_state (QBatchesByClass (b "C0111")) = QErr ENotFound /\
  run_query ex_ab ex_state (QProjectsByReferenceId []) = QErr EInvalidArgument.
Proof. vm_compute. repeat split; reflexivity. Qed.

(* single-entity queries *)
Example ex_single :
  run_query ex_ab ex_state (QClass (b "C011")) = QOne (RClass (b "C011") 1%N [] (b "C")) /\
  run_query ex_ab ex_state (QBalance 1%N (b "C01-001-20200101-20210101-001")) =
    QOne (RBalance 1%N (b "C01-001-20200101-20210101-001") (mkDec false 20 0) dzero dzero) /\
  run_query ex_ab ex_state (QBalance 2%N (b "C011-001-20200101-20210101-001")) =
    QOne (RBalance 2%N (b "C011-001-20200101-20210101-001") dzero dzero dzero).
Proof. vm_compute. repeat split; reflexivity. Qed.
