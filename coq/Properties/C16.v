(* Property C16: anchors, attestations and resolver registrations of the x/data module are permanent
   and collision-proof.

   Model: Regen.Data.DataMsgs (ValidateBasic + handlers of MsgAnchor, MsgAttest, MsgDefineResolver,
   MsgRegisterResolver over the five ORM tables, one message per transaction, state unchanged on
   failure).  Correspondence with the Go implementation: Cases/DataRun.v on chain traces (production
   hasher and two forced-collision hashers).

   Quantifiers: every theorem holds for an ARBITRARY ID-digest function [H : bytes -> bytes]
   (collisions of any kind allowed; only C16_alloc_no_fuel asks for 8-byte outputs), every start
   state [s] (with [Inv_data s] where stated -- the empty genesis state satisfies it and every
   transaction preserves it), every history [h] of block begins and messages by any signers,
   successful or failed.  [snd (drun H t0 s h)] is the state after the history. *)
From Coq Require Import List ZArith NArith Bool Strings.Byte Strings.String.
Require Import Regen.Base.Bytes Regen.Base.Calendar Regen.Data.BytesExt Regen.Data.Hasher Regen.Data.Iri
  Regen.Data.AList Regen.Data.DataMsgs Regen.Data.DataStepProps Regen.Data.DataInv Regen.Data.DataAuthProps Regen.Data.DataFuelProps
  Regen.Generated.DataConsts.
Import ListNotations.
Local Open Scope N_scope.

(* ---------- invariant ---------- *)

(* DataID is a bijection id <-> IRI, every id used by an anchor / attestation / registration is
   allocated, resolver ids come from the sequence, (url, manager) is unique *)
Theorem C16_inv_step : forall H t s m, Inv_data s -> Inv_data (fst (deliver H t s m)).
Proof. exact data_step_preserves_inv. Qed.
Print Assumptions C16_inv_step.

Theorem C16_inv_run : forall H t0 s h, Inv_data s -> Inv_data (snd (drun H t0 s h)).
Proof. exact data_run_preserves_inv. Qed.
Print Assumptions C16_inv_run.

Theorem C16_inv_reachable : forall H t0 h, Inv_data (snd (drun H t0 empty_dstate h)).
Proof. exact data_reachable_inv. Qed.
Print Assumptions C16_inv_reachable.

(* ---------- ids: permanent and collision-proof ---------- *)

Theorem C16_id_stable : forall H t0 s h id iri,
  get_data_id id s = Some iri -> get_data_id id (snd (drun H t0 s h)) = Some iri.
Proof. exact DataInv.C16_id_stable. Qed.
Print Assumptions C16_id_stable.

Theorem C16_id_injective : forall s id1 id2 iri,
  Inv_data s -> get_data_id id1 s = Some iri -> get_data_id id2 s = Some iri -> id1 = id2.
Proof. exact DataInv.C16_id_injective. Qed.
Print Assumptions C16_id_injective.

(* the same IRI always the same id ... *)
Theorem C16_same_iri_same_id : forall H t0 s h id1 id2 iri,
  Inv_data s -> get_data_id id1 s = Some iri -> get_data_id id2 (snd (drun H t0 s h)) = Some iri -> id2 = id1.
Proof. exact DataInv.C16_same_iri_same_id. Qed.
Print Assumptions C16_same_iri_same_id.

(* ... and distinct IRIs always distinct ids, even when H collides *)
Theorem C16_distinct_iris_distinct_ids : forall H t0 s h id iri1 iri2,
  get_data_id id s = Some iri1 -> get_data_id id (snd (drun H t0 s h)) = Some iri2 -> iri1 = iri2.
Proof. exact DataInv.C16_distinct_iris_distinct_ids. Qed.
Print Assumptions C16_distinct_iris_distinct_ids.

(* ---------- anchors ---------- *)

Theorem C16_anchor_permanent : forall H t0 s h id t,
  get_anchor id s = Some t -> get_anchor id (snd (drun H t0 s h)) = Some t.
Proof. exact DataInv.C16_anchor_permanent. Qed.
Print Assumptions C16_anchor_permanent.

Theorem C16_anchor_first_time : forall H t s m id t',
  get_anchor id s = None -> get_anchor id (fst (deliver H t s m)) = Some t' -> t' = t.
Proof. exact DataInv.C16_anchor_first_time. Qed.
Print Assumptions C16_anchor_first_time.

Theorem C16_anchor_response : forall H t s sd ch s' iri tstamp,
  deliver H t s (DAnchor sd (Some ch)) = (s', DOk (RAnchored iri tstamp)) ->
  to_iri_sha ch = Ok iri /\ exists id, get_data_id id s' = Some iri /\ get_anchor id s' = Some tstamp.
Proof. exact DataInv.C16_anchor_response. Qed.
Print Assumptions C16_anchor_response.

Theorem C16_reanchor_same_timestamp : forall H t s sd ch s' iri tstamp id t1,
  Inv_data s -> get_data_id id s = Some iri -> get_anchor id s = Some t1 ->
  deliver H t s (DAnchor sd (Some ch)) = (s', DOk (RAnchored iri tstamp)) -> tstamp = t1.
Proof. exact DataInv.C16_reanchor_same_timestamp. Qed.
Print Assumptions C16_reanchor_same_timestamp.

(* ---------- attestations ---------- *)

Theorem C16_attest_once : forall H t0 s h id a t,
  get_attestor id a s = Some t -> get_attestor id a (snd (drun H t0 s h)) = Some t.
Proof. exact DataInv.C16_attest_once. Qed.
Print Assumptions C16_attest_once.

Theorem C16_reattest_unchanged : forall H t s chs id a t0,
  get_attestor id a s = Some t0 -> get_attestor id a (fst (deliver H t s (DAttest a chs))) = Some t0.
Proof. exact DataInv.C16_reattest_unchanged. Qed.
Print Assumptions C16_reattest_unchanged.

Theorem C16_attest_first_time : forall H t s m id a t',
  get_attestor id a s = None -> get_attestor id a (fst (deliver H t s m)) = Some t' -> t' = t.
Proof. exact DataInv.C16_attest_first_time. Qed.
Print Assumptions C16_attest_first_time.

(* ---------- resolvers ---------- *)

Theorem C16_registration_kept : forall H t0 s h,
  (forall id rid, has_data_resolver id rid s = true -> has_data_resolver id rid (snd (drun H t0 s h)) = true) /\
  (forall rid r, get_resolver rid s = Some r -> get_resolver rid (snd (drun H t0 s h)) = Some r).
Proof. exact DataInv.C16_registration_kept. Qed.
Print Assumptions C16_registration_kept.

Theorem C16_manager_only : forall H t s sg rid chs s' r url m,
  deliver H t s (DRegisterResolver sg rid chs) = (s', DOk r) ->
  get_resolver rid s = Some (url, Some m) -> sg = m.
Proof. exact DataInv.C16_manager_only. Qed.
Print Assumptions C16_manager_only.

(* state-based form: whatever the message, a registration row that appears was written by a
   MsgRegisterResolver of the resolver's manager (or the resolver is public) *)
Theorem C16_registration_authorized : forall H t s m id rid,
  has_data_resolver id rid s = false -> has_data_resolver id rid (fst (deliver H t s m)) = true ->
  exists sg chs url mgr, m = DRegisterResolver sg rid chs /\ get_resolver rid s = Some (url, mgr) /\
                         (forall a, mgr = Some a -> a = sg).
Proof. exact DataAuthProps.C16_registration_authorized. Qed.
Print Assumptions C16_registration_authorized.

(* an attestation row (id, a) is written only by a MsgAttest signed by a *)
Theorem C16_attestation_authorized : forall H t s m id a t',
  get_attestor id a s = None -> get_attestor id a (fst (deliver H t s m)) = Some t' ->
  exists chs, m = DAttest a chs.
Proof. exact DataAuthProps.C16_attestation_authorized. Qed.
Print Assumptions C16_attestation_authorized.

(* a resolver row is written only by MsgDefineResolver; its manager is the definer or nobody *)
Theorem C16_resolver_defined : forall H t s m rid url mgr,
  get_resolver rid s = None -> get_resolver rid (fst (deliver H t s m)) = Some (url, mgr) ->
  exists d uok pub, m = DDefineResolver d url uok pub /\ mgr = (if pub then None else Some d) /\
                    rid = resolver_seq s + 1.
Proof. exact DataAuthProps.C16_resolver_defined. Qed.
Print Assumptions C16_resolver_defined.

Theorem C16_failed_tx_unchanged : forall H t s m s' e, deliver H t s m = (s', DErr e) -> s' = s.
Proof. exact DataInv.C16_failed_tx_unchanged. Qed.
Print Assumptions C16_failed_tx_unchanged.

(* ---------- the probe loop always finds an id within its fuel ---------- *)

Theorem C16_alloc_no_fuel : forall H, (forall v, blen (H v) = hasher_digest_size) ->
  forall t s m, N.of_nat (List.length (data_ids s) + msg_hashes m) < 2 ^ 62 ->
  snd (deliver H t s m) <> DErr EProbeFuel.
Proof. exact DataFuelProps.C16_alloc_no_fuel. Qed.
Print Assumptions C16_alloc_no_fuel.

Theorem C16_get_or_create_no_fuel : forall H, (forall v, blen (H v) = hasher_digest_size) ->
  forall iri ids, N.of_nat (List.length ids) < 2 ^ 62 -> get_or_create_data_id H iri ids <> Err EProbeFuel.
Proof. exact get_or_create_no_fuel. Qed.
Print Assumptions C16_get_or_create_no_fuel.

(* ================================================================== *)
(* Examples: the hypotheses are satisfiable; a forced-collision run    *)
(* ================================================================== *)

(* the worst hasher: every IRI gets the same digest *)
Definition Hconst : bytes -> bytes := fun _ => [x00; x01; x02; x03; x04; x05; x06; x07].

Example Hconst_length : forall v, blen (Hconst v) = hasher_digest_size.
Proof. reflexivity. Qed.

Definition rawN (n : byte) : content_hash := ch_of_raw (mkRaw (repeat n 32) 1 (b "bin")).
Definition graphN (n : byte) : graph := mkGraph (repeat n 32) 1 1 0.
Definition t0 : ts := mk_ts 0 0.
Definition t1 : ts := mk_ts 1704067200 0.
Definition t2 : ts := mk_ts 1704070800 5.
Definition url1 : bytes := b "https://r.example/data".

(* block 1: six different raw hashes and one graph hash, all colliding; a private resolver of account 3 *)
Definition history1 : list devent :=
  [DBegin t1;
   DMsg (DAnchor 0 (Some (rawN x01))); DMsg (DAnchor 0 (Some (rawN x02))); DMsg (DAnchor 1 (Some (rawN x03)));
   DMsg (DAnchor 1 (Some (rawN x04))); DMsg (DAnchor 2 (Some (rawN x05))); DMsg (DAnchor 2 (Some (rawN x06)));
   DMsg (DAttest 2 [graphN x01]);
   DMsg (DDefineResolver 3 url1 true false)].
Definition s1 : dstate := snd (drun Hconst t0 empty_dstate history1).

(* block 2: everything again by other signers, plus new data *)
Definition history2 : list devent :=
  [DBegin t2;
   DMsg (DAnchor 5 (Some (rawN x01)));
   DMsg (DAttest 2 [graphN x01; graphN x02]);
   DMsg (DAttest 4 [graphN x01]);
   DMsg (DRegisterResolver 3 1 [rawN x01; rawN x07]);
   DMsg (DRegisterResolver 4 1 [rawN x02]);
   DMsg (DDefineResolver 3 url1 true false)].
Definition s2 : dstate := snd (drun Hconst t1 s1 history2).

Definition hex_ids {V} (l : list (bytes * V)) : list bytes := map (fun p => to_hex (fst p)) l.

(* nine IRIs, one digest, nine distinct ids: counters 0..3 use digest bytes, then the uvarint fallback *)
Example forced_collision_ids :
  hex_ids (data_ids s2) =
  [b "000102030000000008"; b "000102030000000007"; b "000102030000000006"; b "000102030000000005";
   b "000102030000000004"; b "0001020303"; b "0001020302"; b "0001020301"; b "0001020300"].
Proof. vm_compute. reflexivity. Qed.

(* block 2 did not move any id allocated in block 1 *)
Example forced_collision_ids_block1 :
  hex_ids (data_ids s1) =
  [b "000102030000000006"; b "000102030000000005"; b "000102030000000004";
   b "0001020303"; b "0001020302"; b "0001020301"; b "0001020300"].
Proof. vm_compute. reflexivity. Qed.

(* anchor timestamps: block 1 data keep t1, only the two ids first used in block 2 carry t2 *)
Example forced_collision_anchor_times :
  map snd (anchors s2) = [t2; t2; t1; t1; t1; t1; t1; t1; t1].
Proof. vm_compute. reflexivity. Qed.

(* re-anchoring in block 2 answers the timestamp of block 1 (hypotheses of C16_reanchor_same_timestamp) *)
Example reanchor_answers_first_timestamp :
  snd (deliver Hconst t2 s1 (DAnchor 5 (Some (rawN x01))))
  = DOk (RAnchored (b "regen:112xBpaHottqhwFZURMZW4uZduQvpxNDSy46iXMYs9kceNKnNCEy.bin") t1).
Proof. vm_compute. reflexivity. Qed.

(* account 2 attested graph 1 in block 1: attesting it again together with a new one reports only the new one *)
Example reattest_reports_only_new :
  snd (deliver Hconst t2 s1 (DAttest 2 [graphN x01; graphN x02]))
  = DOk (RAttested [b "regen:13toVfw5KEeQwbmV733E3j9HwhVCQTxB7ojFPjGdmr7HX3kuSASGXxV.rdf"] t2).
Proof. vm_compute. reflexivity. Qed.

Example attestations_after_block2 :
  map (fun p => (to_hex (fst (fst p)), snd (fst p), snd p)) (attestors s2) =
  [(b "000102030000000006", 4, t2); (b "000102030000000007", 2, t2); (b "000102030000000006", 2, t1)].
Proof. vm_compute. reflexivity. Qed.

(* hypotheses of C16_manager_only are satisfiable: the manager (3) registers, account 4 is refused *)
Example manager_registers :
  get_resolver 1 s1 = Some (url1, Some 3) /\
  snd (deliver Hconst t2 s1 (DRegisterResolver 3 1 [rawN x02])) = DOk RRegistered /\
  snd (deliver Hconst t2 s1 (DRegisterResolver 4 1 [rawN x02])) = DErr EUnauthorized.
Proof. vm_compute. repeat split; reflexivity. Qed.

(* the second definition of (url1, manager 3) is refused and leaves sequence and table alone *)
Example resolver_state_after_block2 :
  resolvers s2 = [(1, (url1, Some 3))] /\ resolver_seq s2 = 1 /\
  map (fun p => (to_hex (fst p), snd p)) (data_resolvers s2) = [(b "000102030000000008", 1); (b "0001020300", 1)].
Proof. vm_compute. repeat split; reflexivity. Qed.

(* the fuel bound is met with room to spare: no message of the run reports EProbeFuel *)
Example forced_collision_run_no_fuel_error :
  forallb (fun e => match e with
                    | DMsg m => match snd (deliver Hconst t2 s1 m) with DErr EProbeFuel => false | _ => true end
                    | DBegin _ => true
                    end) history2 = true.
Proof. vm_compute. reflexivity. Qed.
