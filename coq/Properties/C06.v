(* C06 -- escrow equals open sell orders; every open order is well-formed; expired orders are removed before they can be bought.

   Genesis hypothesis [Inv_run g] = Inv_core g /\ Inv_bound g /\ Inv_qty g (Ledger/InvAllRun.v): the credit-accounting invariants of Ledger/Inv.v,
   every tradable supply representable by apd (U < 10^100007, Ledger/InvMarketLib.v), stored order quantities without positive exponent
   (Ledger/InvMarketOrders.v).  [Inv_all g] adds Inv_ids (Ledger/InvIds.v) and Inv_orders.  [reaches g s]: s is obtained from g by any
   sequence of begin-block and deliver steps (Ledger/InvAllLib.v); run_intermediate_reaches shows that every intermediate state of
   Step.run is such a state.  The empty state satisfies the genesis hypotheses (genesis_hyps_satisfiable). *)
From stdpp Require Import gmap.
From RecordUpdate Require Import RecordSet.
From Coq Require Import ZArith NArith List Bool Strings.Byte.
Require Import Regen.Base.Bytes Regen.Base.Calendar Regen.Dec.Dec.
Require Import Regen.Ledger.Types Regen.Ledger.Msgs Regen.Ledger.Orm Regen.Ledger.BaseMsgs Regen.Ledger.BasketMsgs Regen.Ledger.MarketMsgs Regen.Ledger.Step.
Require Import Regen.Ledger.Amount Regen.Ledger.MapSum Regen.Ledger.Inv Regen.Ledger.InvIds.
Require Import Regen.Ledger.InvMarketLib Regen.Ledger.InvMarketOrders Regen.Ledger.InvMarketPrune Regen.Ledger.InvMarketUpdate Regen.Ledger.InvMarket Regen.Ledger.InvMarketHalt.
Require Import Regen.Ledger.InvAllLib Regen.Ledger.InvAllRun Regen.Ledger.InvAllOrders Regen.Ledger.InvAllProps.
Require Import Regen.Ledger.InvAdmin Regen.Ledger.InvBase Regen.Ledger.InvBasket.
Import ListNotations RecordSetNotations.
Local Open Scope Z_scope.

(* in every reachable state the escrowed balance of (seller, batch) is the sum of the quantities of that seller's open orders for that batch *)
Theorem C06_escrow_is_open_orders : forall g s,
  Inv_run g -> reaches g s ->
  forall a bk, U (bl_escrowed (get_balance s a bk)) = order_sum a bk (sell_orders s).
Proof. exact reachable_escrow_is_open_orders. Qed.
Print Assumptions C06_escrow_is_open_orders.

(* order_sum spelled out *)
Theorem C06_order_sum_meaning : forall a bk m,
  order_sum a bk m =
  sum_map (fun _ o => if (so_seller o =? a)%N && (so_batch_key o =? bk)%N
                      then match parse (so_quantity o) with Ok d => U d | Err _ => 0 end else 0) m.
Proof. exact order_sum_meaning. Qed.
Print Assumptions C06_order_sum_meaning.

(* every open order: positive ask, positive parseable quantity without exponent notation, existing market whose credit type is the credit type of the class of the order's batch *)
Theorem C06_orders_wellformed : forall g s,
  Inv_all g -> reaches g s ->
  forall id o, sell_orders s !! id = Some o ->
    0 < so_ask_amount o /\
    (exists d, parse (so_quantity o) = Ok d /\ in_ok d /\ 0 < U d /\ dexp d <= 0) /\
    exists mk ba ct, markets s !! so_market_id o = Some mk /\ batches s !! so_batch_key o = Some ba /\
      credit_type_abbrev_of_denom s (ba_denom ba) = LOk (mk_ct mk, ct).
Proof. exact reachable_orders_wellformed. Qed.
Print Assumptions C06_orders_wellformed.

(* Inv_all (including Inv_escrow, Inv_orders, Inv_qty) holds after any number of blocks, the next begin-block and any prefix of its messages *)
Theorem C06_all_invariants_in_every_intermediate_state : forall authority g h1 bl ms1 ms2 s1 s2,
  Inv_all g -> run authority g h1 = LOk s1 -> begin_block (blk_time bl) s1 = LOk s2 -> blk_msgs bl = ms1 ++ ms2 ->
  Inv_all s1 /\ Inv_all s2 /\ Inv_all (deliver_all (block_env authority bl) ms1 s2).
Proof. exact run_intermediate_all. Qed.
Print Assumptions C06_all_invariants_in_every_intermediate_state.

(* one step: any message of any family through the transaction rule *)
Theorem C06_every_message_preserves_all : forall e s m,
  Inv_all s -> Inv_all (deliver e s m).1.
Proof. exact deliver_preserves_all. Qed.
Print Assumptions C06_every_message_preserves_all.

(* begin-block removes exactly the expired orders and returns their escrow to tradable *)
Theorem C06_prune_removes_exactly_the_expired : forall t s s',
  Inv_core s -> prune_sell_orders t s = LOk s' ->
  (forall id o, sell_orders s' !! id = Some o <-> (sell_orders s !! id = Some o /\ expired t o = false)) /\
  (forall a k, U (bl_tradable (get_balance s' a k)) + U (bl_escrowed (get_balance s' a k)) =
               U (bl_tradable (get_balance s a k)) + U (bl_escrowed (get_balance s a k))) /\
  (forall a k, U (bl_tradable (get_balance s a k)) <= U (bl_tradable (get_balance s' a k))) /\
  (forall a k, bl_retired (get_balance s' a k) = bl_retired (get_balance s a k)) /\
  s' = s <| balances := balances s' |> <| sell_orders := sell_orders s' |>.
Proof. exact prune_spec. Qed.
Print Assumptions C06_prune_removes_exactly_the_expired.

(* after begin-block at time t no order expiring at or before t is left *)
Theorem C06_expired_never_bought : forall t s s' id o x,
  Inv_core s -> prune_sell_orders t s = LOk s' ->
  sell_orders s' !! id = Some o -> so_expiration o = Some x ->
  ts_leb prune_lower x = true -> ts_leb x t = true -> False.
Proof. exact expired_never_bought. Qed.
Print Assumptions C06_expired_never_bought.

(* so buying it fails *)
Theorem C06_expired_buy_fails : forall t s s' e buyer r o x,
  Inv_core s -> prune_sell_orders t s = LOk s' ->
  sell_orders s !! by_id r = Some o -> so_expiration o = Some x ->
  ts_leb prune_lower x = true -> ts_leb x t = true ->
  buy_one e buyer s' r = LErr LInvalid.
Proof. exact expired_buy_fails. Qed.
Print Assumptions C06_expired_buy_fails.

(* an expiration supplied to Sell is after the block time *)
Theorem C06_sell_expiry_in_future : forall e seller s ids o s' ids' x,
  sell_one e seller (s, ids) o = LOk (s', ids') -> sl_expiration o = Some x ->
  ts_after x (e_time e) = true /\
  exists id o', ids' = ids ++ [id] /\ sell_orders s' !! id = Some o' /\ so_expiration o' = Some x.
Proof. exact sell_expiry_future. Qed.
Print Assumptions C06_sell_expiry_in_future.

(* likewise for UpdateSellOrders *)
Theorem C06_update_expiry_in_future : forall e seller s u s' x,
  update_one e seller s u = LOk s' -> up_expiration u = Some x ->
  ts_after x (e_time e) = true /\
  exists o', sell_orders s' !! up_id u = Some o' /\ so_expiration o' = Some x.
Proof. exact update_expiry_future. Qed.
Print Assumptions C06_update_expiry_in_future.

Example C06_genesis_hypotheses_satisfiable : Inv_run empty_state /\ Inv_all empty_state.
Proof. exact genesis_hyps_satisfiable. Qed.
Print Assumptions C06_genesis_hypotheses_satisfiable.
