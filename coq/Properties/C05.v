(* C05 -- basket tokens are backed 1:1: for every basket, the bank supply of its token equals the units of credits it holds, in every state of every history whose governance fee updates stay outside the basket-token namespace.

   [Inv_all_basket g] = Inv_run g /\ Inv_basket g /\ Inv_basket_denoms g /\ fee_denoms_ok g (Ledger/InvAllBasket.v, InvBasketAdmin.v): besides the backing equation itself, basket denoms start with
   "eco." and no other "eco." denom has bank supply, and the stored basket / class creation fees are not in an "eco." denom.
   [gov_fees_ok h]: every UpdateBasketFee / UpdateClassFee message of the history sets a fee whose denom is not in the "eco." namespace ([msg_fee_ok]).
   This hypothesis is necessary: C05_fee_in_basket_denom_refuted (a recorded known finding) shows the backing broken by a Create whose fee is payable in another basket's token,
   and C05_stray_eco_supply_refuted shows why Inv_basket_denoms is needed. *)
From stdpp Require Import gmap.
From RecordUpdate Require Import RecordSet.
From Coq Require Import ZArith NArith List Bool Strings.Byte.
Require Import Regen.Base.Bytes Regen.Base.Calendar Regen.Dec.Dec.
Require Import Regen.Ledger.Types Regen.Ledger.Msgs Regen.Ledger.Orm Regen.Ledger.BaseMsgs Regen.Ledger.BasketMsgs Regen.Ledger.MarketMsgs Regen.Ledger.Step.
Require Import Regen.Ledger.Amount Regen.Ledger.MapSum Regen.Ledger.Inv.
Require Import Regen.Ledger.InvMarketLib Regen.Ledger.InvMarketOrders Regen.Ledger.InvMarket.
Require Import Regen.Ledger.InvAllLib Regen.Ledger.InvAllRun Regen.Ledger.InvAllProps Regen.Ledger.InvAllBasket.
Require Import Regen.Ledger.InvBasketLib Regen.Ledger.InvBasketPut Regen.Ledger.InvBasketTake Regen.Ledger.InvBasketAdmin Regen.Ledger.InvBasketExamples.
Require Import Regen.Ledger.InvAdmin Regen.Ledger.InvBase Regen.Ledger.InvBasket.
Import ListNotations RecordSetNotations.
Local Open Scope Z_scope.

(* the backing equation after every run *)
Theorem C05_backing_after_every_run : forall authority g h s,
  Inv_all_basket g -> gov_fees_ok h -> run authority g h = LOk s ->
  forall id k, baskets s !! id = Some k -> bank_sup s (bk_denom k) = basket_total id (basket_balances s).
Proof. exact backing_after_every_run. Qed.
Print Assumptions C05_backing_after_every_run.

(* with the auxiliary invariants *)
Theorem C05_invariants_after_every_run : forall authority h,
  forall g s,
  Inv_all_basket g -> gov_fees_ok h -> run authority g h = LOk s -> Inv_all_basket s.
Proof. exact run_preserves_backing. Qed.
Print Assumptions C05_invariants_after_every_run.

(* and in every intermediate state of a run *)
Theorem C05_backing_in_every_intermediate_state : forall authority g h1 bl ms1 ms2 s1 s2,
  Inv_all_basket g -> gov_fees_ok h1 -> Forall msg_fee_ok ms1 ->
  run authority g h1 = LOk s1 -> begin_block (blk_time bl) s1 = LOk s2 -> blk_msgs bl = ms1 ++ ms2 ->
  Inv_basket (deliver_all (block_env authority bl) ms1 s2).
Proof. exact run_intermediate_backing. Qed.
Print Assumptions C05_backing_in_every_intermediate_state.

(* one accepted message of any family *)
Theorem C05_one_message : forall e s m s' r evs,
  Inv_all_basket s -> msg_fee_ok m -> validate_basic m = true -> handle e s m = LOk (s', r, evs) ->
  Inv_all_basket s'.
Proof. exact handle_preserves_backing. Qed.
Print Assumptions C05_one_message.

(* begin-block *)
Theorem C05_begin_block : forall t s s',
  Inv_all_basket s -> begin_block t s = LOk s' -> Inv_all_basket s'.
Proof. exact begin_block_preserves_backing. Qed.
Print Assumptions C05_begin_block.

(* the basket family (Create, Put, Take, UpdateBasketFee, UpdateCurator, UpdateDateCriteria) *)
Theorem C05_basket_messages : forall e s m s' r evs,
  is_basket_msg m = true -> Inv_core s -> Inv_basket s -> Inv_basket_denoms s -> fee_denoms_ok s ->
  (forall a fee c, m = MUpdateBasketFee a fee -> normalise_fee fee = Some c -> is_eco (c_denom c) = false) ->
  validate_basic m = true -> handle e s m = LOk (s', r, evs) ->
  Inv_basket s' /\ Inv_basket_denoms s' /\ fee_denoms_ok s'.
Proof. exact basket_backing_step. Qed.
Print Assumptions C05_basket_messages.

(* administrative messages burn only fees outside the namespace (class fee, uregen) *)
Theorem C05_other_messages_admin : forall e s m s' r evs,
  is_admin_msg m = true -> fee_denoms_ok s -> msg_fee_ok m -> handle e s m = LOk (s', r, evs) ->
  (forall d, is_eco d = true -> bank_sup s' d = bank_sup s d) /\ fee_denoms_ok s'.
Proof. exact admin_backing_frame. Qed.
Print Assumptions C05_other_messages_admin.

(* the marketplace burns only uregen, which is not a basket denom *)
Theorem C05_uregen_not_a_basket_denom :
  is_eco uregen = false.
Proof. exact uregen_not_eco. Qed.
Print Assumptions C05_uregen_not_a_basket_denom.

(* Put mints exactly the deposited units to the owner *)
Theorem C05_put_exact : forall e s owner bd cs s' r evs,
  Inv_core s -> h_put e s owner bd cs = LOk (s', r, evs) ->
  exists id k l,
    basket_by_denom s bd = Some (id, k) /\
    r = RAmountReceived (total_units l) /\
    (forall x y, bank_bal s' x y = bank_bal s x y + at_key (owner, bd) (x, y) (total_units l)) /\
    (forall y, bank_sup s' y = bank_sup s y + at_key bd y (total_units l)) /\
    put_effect e owner id k s s' cs l.
Proof. exact put_exact. Qed.
Print Assumptions C05_put_exact.

(* Take burns exactly the requested tokens and releases credits worth exactly that many units *)
Theorem C05_take_exact : forall e s owner bd amount retire s' r evs,
  Inv_core s -> (forall t, parse_sdk_int amount = Some t -> 0 < t) ->
  h_take e s owner bd amount retire = LOk (s', r, evs) ->
  exists id k tokens rel,
    basket_by_denom s bd = Some (id, k) /\ parse_sdk_int amount = Some tokens /\
    (forall x y, bank_bal s' x y = bank_bal s x y - at_key (owner, bd) (x, y) tokens) /\
    (forall y, bank_sup s' y = bank_sup s y - at_key bd y tokens) /\
    r = RTake (rendered rel) /\ total_units rel = tokens /\
    Forall (fun x => in_ok x.2 /\ 0 < U x.2) rel /\
    take_effect owner id retire s s' rel /\ take_order_of s s' id rel.
Proof. exact take_exact. Qed.
Print Assumptions C05_take_exact.

(* KNOWN FINDING (recorded): with a basket-creation fee payable in basket AAA's own token, a successful Create burns AAA tokens and leaves AAA under-backed *)
Example C05_fee_in_basket_denom_refuted :
  is_eco (c_denom ex_fee) = true /\
  backing_of ex_s1 1%N dAAA = (5000000, 5000000) /\
  after ex_s1 ex_create 1%N dAAA = Some (4000000, 5000000).
Proof. exact fee_in_basket_denom_breaks_backing. Qed.
Print Assumptions C05_fee_in_basket_denom_refuted.

(* Inv_basket alone is not inductive: stray supply of a future basket denom becomes unbacked tokens *)
Example C05_stray_eco_supply_refuted :
  backing_of ex_s2 1%N dAAA = (5000000, 5000000) /\
  after ex_s2 ex_create2 2%N dBBB = Some (7, 0).
Proof. exact stray_eco_supply_breaks_backing. Qed.
Print Assumptions C05_stray_eco_supply_refuted.

Example C05_genesis_hypotheses_satisfiable : Inv_all_basket empty_state /\ gov_fees_ok [].
Proof.
  split; [|constructor]. split; [apply genesis_hyps_satisfiable|]. split; [split|split; [split|]].
  - intros i j x y H. cbn in H. rewrite lookup_empty in H. discriminate.
  - intros id k H. cbn in H. rewrite lookup_empty in H. discriminate.
  - intros id k H. cbn in H. rewrite lookup_empty in H. discriminate.
  - intros d _ _. unfold bank_sup. cbn. rewrite lookup_empty. reflexivity.
  - intros c [H|H]; discriminate H.
Qed.
Print Assumptions C05_genesis_hypotheses_satisfiable.
