(* C13 -- bridge safety, over the ledger model.

   "Within a credit class, a given origin transaction (id, source) results in credit issuance at most
   once across CreateBatch, MintBatchCredits and BridgeReceive.  Bridged-in credits are accepted only
   from allowed source chains, a source contract is bound to exactly one batch per class (later
   receipts for that contract mint into that same batch), and Bridge out succeeds only for batches
   with a bound contract and an allowed target, cancelling exactly the bridged amounts and reporting
   that batch's contract."

   Vocabulary (Ledger/InvBridge.v, Ledger/InvBridgeLib.v):
   - is_base_module_msg m : m is one of the nine credit messages of InvBase.v or an administrative /
     governance / bank-send message of InvAdmin.v.  The first group of statements is about these;
     the last section of this file (Ledger/InvAllBridge.v) lifts them to EVERY message of every family
     (basket and marketplace handlers leave origin_txs and batch_contracts alone), to begin-block and
     to whole histories (reaches, Step.run).
   - origin_of m          : the origin tx carried by CreateBatch / MintBatchCredits / BridgeReceive.
   - issue_class s m      : the class issued into (project's class; batch's project's class; the class
                            named by class_id).
   - origin_key ck o      : (ck, ot_id o, to_lower (ot_source o)), the key of the origin-tx index.
   - Inv_contracts s      : a (class, contract) pair is bound to at most one batch; a bound batch
                            exists and belongs to that class; project ids and batch denoms are unique;
                            keys in use are below the auto-increment counters.
   - issued_origins e s ms: ghost trace of the keys of the origin txs that issued in the run of ms. *)
From stdpp Require Import gmap.
From Coq Require Import ZArith NArith List Bool Strings.String.
Require Import Regen.Base.Bytes Regen.Dec.Dec.
Require Import Regen.Ledger.Types Regen.Ledger.Msgs Regen.Ledger.Orm Regen.Ledger.BaseMsgs Regen.Ledger.Step
               Regen.Ledger.Amount Regen.Ledger.Inv Regen.Ledger.InvBaseLib Regen.Ledger.InvBase3
               Regen.Ledger.InvBridgeLib Regen.Ledger.InvBridge Regen.Ledger.InvBaseExample Regen.Ledger.InvBridgeExample.
Require Import Regen.Base.Calendar Regen.Ledger.BasketMsgs Regen.Ledger.MarketMsgs.
Require Import Regen.Ledger.InvMarketLib Regen.Ledger.InvMarket Regen.Ledger.InvAllLib Regen.Ledger.InvAllRun Regen.Ledger.InvAllBridge.
Import ListNotations.
Local Open Scope Z_scope.

(* an issuing message succeeds only if its origin tx is new in the class, and records it *)
Theorem C13_origin_tx_once : forall e s m o s' r evs,
  is_base_module_msg m = true -> Inv_contracts s -> origin_of m = Some o ->
  handle e s m = LOk (s', r, evs) ->
  exists ck, issue_class s m = Some ck /\
    origin_key ck o ∉ origin_txs s /\ origin_key ck o ∈ origin_txs s' /\
    origin_txs s' = {[ origin_key ck o ]} ∪ origin_txs s.
Proof. exact origin_tx_once. Qed.
Print Assumptions C13_origin_tx_once.

(* the index only grows; messages without an origin tx leave it alone *)
Theorem C13_origin_txs_mono : forall e s m s' r evs,
  is_base_module_msg m = true -> Inv_contracts s -> handle e s m = LOk (s', r, evs) ->
  origin_txs s ⊆ origin_txs s' /\ (origin_of m = None -> origin_txs s' = origin_txs s).
Proof. exact origin_txs_mono. Qed.
Print Assumptions C13_origin_txs_mono.

(* over histories: no key issues twice, none that was already recorded issues at all *)
Theorem C13_no_double_issuance : forall e ms s,
  forallb is_base_module_msg ms = true -> Inv_contracts s ->
  NoDup (issued_origins e s ms) /\
  (forall k, In k (issued_origins e s ms) -> k ∉ origin_txs s) /\
  origin_txs (run_msgs e s ms) = origin_txs s ∪ list_to_set (issued_origins e s ms) /\
  Inv_contracts (run_msgs e s ms).
Proof. exact issued_origins_nodup. Qed.
Print Assumptions C13_no_double_issuance.

Theorem C13_allowed_source : forall e s issuer class_id pjr bar otx s' r evs,
  handle e s (MBridgeReceive issuer class_id pjr bar otx) = LOk (s', r, evs) ->
  exists o, otx = Some o /\ to_lower (ot_source o) ∈ allowed_bridge_chains s.
Proof. exact bridge_receive_allowed_source. Qed.
Print Assumptions C13_allowed_source.

Theorem C13_contracts_preserved : forall e s m s' r evs,
  is_base_module_msg m = true -> Inv_contracts s -> handle e s m = LOk (s', r, evs) -> Inv_contracts s'.
Proof. exact base_preserves_contracts. Qed.
Print Assumptions C13_contracts_preserved.

Theorem C13_same_batch : forall e s issuer class_id pjr bar o s' r evs bk bc ck cl,
  Inv_contracts s ->
  batch_contracts s !! bk = Some bc -> class_by_id s class_id = Some (ck, cl) ->
  bc_class_key bc = ck -> ot_contract o = bc_contract bc ->
  handle e s (MBridgeReceive issuer class_id pjr bar (Some o)) = LOk (s', r, evs) ->
  exists ba pj bb,
    batches s !! bk = Some ba /\ projects s !! ba_project_key ba = Some pj /\ bar = Some bb /\
    batch_by_denom s (ba_denom ba) = Some (bk, ba) /\
    h_mint_batch_credits e s issuer (ba_denom ba) (bridge_issuance bb) (Some o) = LOk (s', REmpty, []) /\
    r = RBridgeReceive (ba_denom ba) (pj_id pj) /\
    evs = [EvBridgeReceive (pj_id pj) (ba_denom ba) (brb_amount bb) o] /\
    batches s' = batches s /\ batch_seq_id s' = batch_seq_id s /\ batch_contracts s' = batch_contracts s.
Proof. exact bridge_receive_same_batch. Qed.
Print Assumptions C13_same_batch.

Theorem C13_bridge_out : forall e s owner target recipient cs s' r evs,
  handle e s (MBridge owner target recipient cs) = LOk (s', r, evs) ->
  to_lower target ∈ allowed_bridge_chains s /\
  Forall2 (bridge_event_of s owner target recipient) cs evs /\
  handle e s (MCancel owner cs []) = LOk (s', REmpty, []) /\
  r = REmpty.
Proof. exact bridge_out_spec. Qed.
Print Assumptions C13_bridge_out.

Theorem C13_cancelled_exactly : forall owner s c s',
  Inv_core s -> cancel_one owner s c = LOk s' ->
  exists bk ba amt ub su su',
    batch_by_denom s (cr_denom c) = Some (bk, ba) /\ nnfixed P (cr_amount c) = Ok amt /\
    balances s !! (owner, bk) = Some ub /\ supplies s !! bk = Some su /\ supplies s' !! bk = Some su' /\
    U (bl_tradable (get_balance s' owner bk)) = U (bl_tradable ub) - U amt /\
    bl_retired (get_balance s' owner bk) = bl_retired ub /\
    bl_escrowed (get_balance s' owner bk) = bl_escrowed ub /\
    (forall a k, (a, k) <> (owner, bk) -> get_balance s' a k = get_balance s a k) /\
    U (su_tradable su') = U (su_tradable su) - U amt /\
    su_retired su' = su_retired su /\
    U (su_cancelled su') = U (su_cancelled su) + U amt /\
    (forall k, k <> bk -> supplies s' !! k = supplies s !! k).
Proof. exact cancel_one_delta. Qed.
Print Assumptions C13_cancelled_exactly.

(* a replay (same id, source in another letter case) is rejected through each of the nine ordered
   pairs of entry points, while a fresh id is accepted; the ghost trace of a three-way replay has one key *)
Example C13_replays_rejected : forallb (fun x => x) replay_matrix = true /\ List.length replay_matrix = 9%nat.
Proof. exact replay_matrix_ok. Qed.

Example C13_replay_trace :
  List.length (issued_origins ex_env base_state
     [via_create (otx_of tx1 "polygon" con1); via_mint (otx_of tx1 "Polygon" con2);
      via_receive (otx_of tx1 "POLYGON" con2)]) = 1%nat.
Proof. exact replay_trace_ok. Qed.

(* ---- every message of every family, begin-block and whole histories (Ledger/InvAllBridge.v) ---- *)
(* any message of any family: the contract invariant is kept, the origin-tx index only grows, bound contracts stay *)
Theorem C13_every_message_preserves_bridge_tables : forall e s m s' r evs,
  Inv_contracts s -> Inv_core s -> Inv_bound s -> validate_basic m = true -> handle e s m = LOk (s', r, evs) ->
  Inv_contracts s' /\ origin_txs s ⊆ origin_txs s' /\
  (forall k bc, batch_contracts s !! k = Some bc -> batch_contracts s' !! k = Some bc).
Proof. exact contracts_preserved_all. Qed.
Print Assumptions C13_every_message_preserves_bridge_tables.

Theorem C13_begin_block_leaves_bridge_tables : forall t s s',
  Inv_contracts s -> Inv_core s -> begin_block t s = LOk s' ->
  Inv_contracts s' /\ origin_txs s' = origin_txs s /\ batch_contracts s' = batch_contracts s.
Proof. exact begin_block_contracts_preserved. Qed.
Print Assumptions C13_begin_block_leaves_bridge_tables.

(* no family restriction: an issuing message succeeds only if its origin tx is new in the class *)
Theorem C13_origin_tx_once_any_message : forall e s m o s' r evs,
  Inv_contracts s -> origin_of m = Some o -> handle e s m = LOk (s', r, evs) ->
  exists ck, issue_class s m = Some ck /\
    origin_key ck o ∉ origin_txs s /\ origin_key ck o ∈ origin_txs s' /\
    origin_txs s' = {[ origin_key ck o ]} ∪ origin_txs s.
Proof. exact origin_tx_once_all. Qed.
Print Assumptions C13_origin_tx_once_any_message.

Theorem C13_other_messages_leave_index : forall e s m s' r evs,
  Inv_contracts s -> Inv_core s -> Inv_bound s -> validate_basic m = true -> handle e s m = LOk (s', r, evs) ->
  origin_of m = None -> origin_txs s' = origin_txs s.
Proof. exact origin_txs_unchanged_all. Qed.
Print Assumptions C13_other_messages_leave_index.

Theorem C13_invariant_in_every_reachable_state : forall g s,
  Inv_run g -> Inv_contracts g -> reaches g s -> Inv_contracts s.
Proof. exact reaches_contracts. Qed.
Print Assumptions C13_invariant_in_every_reachable_state.

(* between any two points of any history *)
Theorem C13_recorded_forever : forall g s1 s2,
  Inv_run g -> Inv_contracts g -> reaches g s1 -> reaches s1 s2 ->
  origin_txs s1 ⊆ origin_txs s2 /\
  (forall k bc, batch_contracts s1 !! k = Some bc -> batch_contracts s2 !! k = Some bc).
Proof. exact reaches_bridge_mono. Qed.
Print Assumptions C13_recorded_forever.

(* an origin tx recorded at any earlier point of the history cannot issue later, through whichever of the three entry points *)
Theorem C13_recorded_origin_never_issues_again : forall g s1 s2 e m o ck s' r evs,
  Inv_run g -> Inv_contracts g -> reaches g s1 -> reaches s1 s2 ->
  origin_key ck o ∈ origin_txs s1 -> origin_of m = Some o -> issue_class s2 m = Some ck ->
  handle e s2 m = LOk (s', r, evs) -> False.
Proof. exact recorded_never_reissues. Qed.
Print Assumptions C13_recorded_origin_never_issues_again.

(* a later receipt for a contract bound earlier mints into that same batch *)
Theorem C13_bound_contract_same_batch_forever : forall g s1 s2 e issuer class_id pjr bar o s' r evs bk bc ck cl,
  Inv_run g -> Inv_contracts g -> reaches g s1 -> reaches s1 s2 ->
  batch_contracts s1 !! bk = Some bc -> class_by_id s2 class_id = Some (ck, cl) ->
  bc_class_key bc = ck -> ot_contract o = bc_contract bc ->
  handle e s2 (MBridgeReceive issuer class_id pjr bar (Some o)) = LOk (s', r, evs) ->
  exists ba pj bb,
    batches s2 !! bk = Some ba /\ projects s2 !! ba_project_key ba = Some pj /\ bar = Some bb /\
    batch_by_denom s2 (ba_denom ba) = Some (bk, ba) /\
    h_mint_batch_credits e s2 issuer (ba_denom ba) (bridge_issuance bb) (Some o) = LOk (s', REmpty, []) /\
    r = RBridgeReceive (ba_denom ba) (pj_id pj) /\
    evs = [EvBridgeReceive (pj_id pj) (ba_denom ba) (brb_amount bb) o] /\
    batches s' = batches s2 /\ batch_seq_id s' = batch_seq_id s2 /\ batch_contracts s' = batch_contracts s2.
Proof. exact bound_contract_same_batch. Qed.
Print Assumptions C13_bound_contract_same_batch_forever.

(* ghost trace of the issuing origin txs along Step.run with arbitrary messages in the blocks: no key twice, none that genesis already recorded, and the index is exactly genesis + trace *)
Theorem C13_run_no_double_issuance : forall authority g h s,
  Inv_run g -> Inv_contracts g -> run authority g h = LOk s ->
  NoDup (issued_origins_run authority g h) /\
  (forall k, In k (issued_origins_run authority g h) -> k ∉ origin_txs g) /\
  origin_txs s = origin_txs g ∪ list_to_set (issued_origins_run authority g h).
Proof. exact run_no_double_issuance. Qed.
Print Assumptions C13_run_no_double_issuance.

Theorem C13_run_keeps_invariant : forall authority g h s,
  Inv_run g -> Inv_contracts g -> run authority g h = LOk s -> Inv_contracts s.
Proof. exact run_contracts. Qed.
Print Assumptions C13_run_keeps_invariant.

Example C13_history_hypotheses_satisfiable :
  Inv_run empty_state /\ Inv_contracts empty_state.
Proof. exact bridge_hyps_satisfiable. Qed.
Print Assumptions C13_history_hypotheses_satisfiable.

(* two blocks mixing base, basket and marketplace messages with replays: the trace is exactly the two fresh origin txs *)
Example C13_run_trace_example :
  let o := InvBridgeExample.otx_of in
  let h := [ {| blk_time := mk_ts 1700000000 0;
                blk_msgs := [InvBridgeExample.via_create (o InvBridgeExample.tx1 "polygon"%string InvBridgeExample.con1);
                             MUpdateBasketFee addr_gov None;
                             InvBridgeExample.via_mint (o InvBridgeExample.tx1 "Polygon"%string InvBridgeExample.con2)] |};
             {| blk_time := mk_ts 1700000006 0;
                blk_msgs := [MCancelSellOrder 1%N 5%N;
                             InvBridgeExample.via_receive (o InvBridgeExample.tx1 "POLYGON"%string InvBridgeExample.con2);
                             InvBridgeExample.via_receive (o InvBridgeExample.tx2 "Polygon"%string InvBridgeExample.con2)] |} ] in
  issued_origins_run addr_gov InvBridgeExample.base_state h =
    [ (1%N, b InvBridgeExample.tx1, b "polygon"%string); (1%N, b InvBridgeExample.tx2, b "polygon"%string) ].
Proof. exact run_trace_example. Qed.
Print Assumptions C13_run_trace_example.

