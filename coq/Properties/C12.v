(* C12 -- begin-block never fails (the chain never halts in PruneSellOrders) and does what it should.

   Genesis hypothesis [Inv_run g] = Inv_core g /\ Inv_bound g /\ Inv_qty g (Ledger/InvAllRun.v): the credit-accounting invariants of Ledger/Inv.v,
   every tradable supply representable by apd (U < 10^100007, Ledger/InvMarketLib.v), stored order quantities without positive exponent
   (Ledger/InvMarketOrders.v).  [Inv_all g] adds Inv_ids (Ledger/InvIds.v) and Inv_orders.  [reaches g s]: s is obtained from g by any
   sequence of begin-block and deliver steps (Ledger/InvAllLib.v); run_intermediate_reaches shows that every intermediate state of
   Step.run is such a state.  The empty state satisfies the genesis hypotheses (genesis_hyps_satisfiable).

   Regression witness of a fixed defect: begin_block_can_halt exhibits a HAND-MADE state (not a run of the old handlers) that satisfies Inv_core
   but not Inv_qty -- one open order whose stored quantity is the string "1e100000", seller's tradable balance 0.000001 -- on which
   begin-block returns an error (apd refuses to add operands whose exponents differ by more than 100000).  Before the fix
   'Sell/Update store the plain rendering of the quantity' such a state was reachable (Sell stored the raw user string); the Go scenario is in
   the harness corpus.  With the fix Inv_qty is an invariant and the theorems below apply. *)
From stdpp Require Import gmap.
From RecordUpdate Require Import RecordSet.
From Coq Require Import ZArith NArith List Bool Strings.Byte.
Require Import Regen.Base.Bytes Regen.Base.Calendar Regen.Dec.Dec.
Require Import Regen.Ledger.Types Regen.Ledger.Msgs Regen.Ledger.Orm Regen.Ledger.BaseMsgs Regen.Ledger.BasketMsgs Regen.Ledger.MarketMsgs Regen.Ledger.Step.
Require Import Regen.Ledger.Amount Regen.Ledger.MapSum Regen.Ledger.Inv Regen.Ledger.InvIds.
Require Import Regen.Ledger.InvMarketLib Regen.Ledger.InvMarketOrders Regen.Ledger.InvMarketPrune Regen.Ledger.InvMarketUpdate Regen.Ledger.InvMarket Regen.Ledger.InvMarketHalt.
Require Import Regen.Ledger.InvAllLib Regen.Ledger.InvAllRun Regen.Ledger.InvAllOrders Regen.Ledger.InvAllProps.
Require Import Regen.Ledger.InvAdmin Regen.Ledger.InvBase Regen.Ledger.InvBasket.
Require Import Regen.Ledger.SpellingModel Regen.Ledger.Spelling.
Import ListNotations RecordSetNotations.
Local Open Scope Z_scope.

(* in every reachable state, at every block time *)
Theorem C12_begin_block_never_fails : forall g s t,
  Inv_run g -> reaches g s -> exists s', begin_block t s = LOk s'.
Proof. exact reachable_begin_block_never_fails. Qed.
Print Assumptions C12_begin_block_never_fails.

(* Step.run never returns an error *)
Theorem C12_history_never_halts : forall authority g h,
  Inv_run g -> exists s, run authority g h = LOk s.
Proof. exact history_never_halts. Qed.
Print Assumptions C12_history_never_halts.

(* one step, with the invariants it needs and keeps *)
Theorem C12_begin_block_total : forall t s,
  Inv_core s -> Inv_bound s -> Inv_qty s ->
  exists s', begin_block t s = LOk s' /\ Inv_core s' /\ Inv_bound s' /\ Inv_qty s' /\ (Inv_orders s -> Inv_orders s').
Proof. exact begin_block_total. Qed.
Print Assumptions C12_begin_block_total.

(* what begin-block does *)
Theorem C12_prune_spec : forall t s s',
  Inv_core s -> prune_sell_orders t s = LOk s' ->
  (forall id o, sell_orders s' !! id = Some o <-> (sell_orders s !! id = Some o /\ expired t o = false)) /\
  (forall a k, U (bl_tradable (get_balance s' a k)) + U (bl_escrowed (get_balance s' a k)) =
               U (bl_tradable (get_balance s a k)) + U (bl_escrowed (get_balance s a k))) /\
  (forall a k, U (bl_tradable (get_balance s a k)) <= U (bl_tradable (get_balance s' a k))) /\
  (forall a k, bl_retired (get_balance s' a k) = bl_retired (get_balance s a k)) /\
  s' = s <| balances := balances s' |> <| sell_orders := sell_orders s' |>.
Proof. exact prune_spec. Qed.
Print Assumptions C12_prune_spec.

Theorem C12_expired_never_bought : forall t s s' id o x,
  Inv_core s -> prune_sell_orders t s = LOk s' ->
  sell_orders s' !! id = Some o -> so_expiration o = Some x ->
  ts_leb prune_lower x = true -> ts_leb x t = true -> False.
Proof. exact expired_never_bought. Qed.
Print Assumptions C12_expired_never_bought.

Theorem C12_expired_buy_fails : forall t s s' e buyer r o x,
  Inv_core s -> prune_sell_orders t s = LOk s' ->
  sell_orders s !! by_id r = Some o -> so_expiration o = Some x ->
  ts_leb prune_lower x = true -> ts_leb x t = true ->
  buy_one e buyer s' r = LErr LInvalid.
Proof. exact expired_buy_fails. Qed.
Print Assumptions C12_expired_buy_fails.

Theorem C12_sell_expiry_in_future : forall e seller s ids o s' ids' x,
  sell_one e seller (s, ids) o = LOk (s', ids') -> sl_expiration o = Some x ->
  ts_after x (e_time e) = true /\
  exists id o', ids' = ids ++ [id] /\ sell_orders s' !! id = Some o' /\ so_expiration o' = Some x.
Proof. exact sell_expiry_future. Qed.
Print Assumptions C12_sell_expiry_in_future.

Theorem C12_update_expiry_in_future : forall e seller s u s' x,
  update_one e seller s u = LOk s' -> up_expiration u = Some x ->
  ts_after x (e_time e) = true /\
  exists o', sell_orders s' !! up_id u = Some o' /\ so_expiration o' = Some x.
Proof. exact update_expiry_future. Qed.
Print Assumptions C12_update_expiry_in_future.

(* regression witness (hand-made state, see header) *)
Theorem C12_regression_begin_block_can_halt_without_Inv_qty :
  exists s t e, Inv_core s /\ begin_block t s = LErr e.
Proof. exact begin_block_can_halt. Qed.
Print Assumptions C12_regression_begin_block_can_halt_without_Inv_qty.

(* the witness state violates exactly Inv_qty *)
Theorem C12_regression_state_violates_Inv_qty :
  ~ Inv_qty (halt_state (10 ^ 100000)).
Proof. exact halt_state_not_qty. Qed.
Print Assumptions C12_regression_state_violates_Inv_qty.

Example C12_genesis_hypotheses_satisfiable : Inv_run empty_state /\ Inv_all empty_state.
Proof. exact genesis_hyps_satisfiable. Qed.
Print Assumptions C12_genesis_hypotheses_satisfiable.

(* ---- address spellings (Ledger/Spelling.v): begin-block is total in every state reached with messages in any spelling ---- *)
Theorem C12_begin_block_total_after_any_spelling : forall g s t,
  Inv_run g -> reaches_sp g s -> exists s', begin_block t s = LOk s'.
Proof. exact reaches_sp_begin_block_total. Qed.
Print Assumptions C12_begin_block_total_after_any_spelling.
