(* C09 -- every reachable state survives genesis export, validation and re-import.

   Model: Genesis/Validators.v transcribes the genesis validators of x/ecocredit (one function per
   state row validator plus the cross-table checks of genesis.ValidateGenesis); its verdict is
   compared with the REAL ValidateGenesis on every `genesis_rt` item of the chain traces
   (Cases/GenesisRun.v, driver/genesis_cases.py, harness cmd/genesisprobe).  The export / import
   codec itself (ORM JSON) is the identity in the model; the real round trip (re-exported document
   identical, invariants of the re-imported chain) is checked by the harness on every such item.

   What is proved here (Genesis/MsgVsState.v): whatever ValidateBasic plus a successful handler lets
   into a row satisfies that row's genesis validator, for every message of the three ecocredit Msg
   services and for BeginBlock, hence for every reachable state -- EXCEPT for the batch date
   clause, where the statement is false on the current tree (defect F4) and is refuted by a concrete
   witness; the theorem is proved without that clause (`_partial`) and with the exact side condition
   under which the full validator holds (`_strict_dates`).  The data module's analogous defect (F6,
   public resolver) is refuted as well.

   Hypotheses [Inv_core s'] and [small_state s'] concern the state whose validity is concluded:
   the first is the credit-accounting invariant of property C01 (preserved by every handler, see
   Ledger/InvBase.v, InvBasket.v, ...), the second bounds decimal coefficients by 10^100000 (apd's
   exponent window; the side condition of DecIface.parse_to_string). *)
From stdpp Require Import gmap.
From Coq Require Import ZArith NArith List Bool Strings.String.
Require Import Regen.Base.Bytes Regen.Base.Calendar Regen.Dec.Dec.
Require Import Regen.Ledger.Types Regen.Ledger.Msgs Regen.Ledger.Orm Regen.Ledger.BaseMsgs Regen.Ledger.Step
               Regen.Ledger.Amount Regen.Ledger.Inv.
Require Import Regen.Genesis.Validators Regen.Genesis.MsgVsState Regen.Genesis.Exportable.
Require Regen.Data.DataMsgs.
Import ListNotations.
Local Open Scope Z_scope.

(* ---- the amount columns: C01's invariant implies the genesis validators of the amount columns ---- *)

Theorem C09_amounts_validate : forall d s,
  MV d s -> Inv_core s -> small_state s -> Inv_valid_d d s.
Proof. exact amounts_valid. Qed.
Print Assumptions C09_amounts_validate.

Theorem C09_stored_amount_validates : forall x, stored_ok x -> small_dec x -> nn_amount_ok x = true.
Proof. exact stored_amount_valid. Qed.
Print Assumptions C09_stored_amount_validates.

(* export prints an amount, import parses it: the same decimal comes back, so the re-exported
   string is identical *)
Theorem C09_amount_roundtrip : forall x, stored_ok x -> small_dec x ->
  match parse (to_string x) with Ok y => dnorm y = x | Err _ => False end.
Proof. exact amount_roundtrip. Qed.
Print Assumptions C09_amount_roundtrip.

(* ---- message validator => state validator ---- *)

(* PARTIAL (F4): every message, the batch date comparison removed from the validator.
   Full statement (false, see C09_batch_dates_refuted):
     forall e s m s' r evs, Inv_valid s -> validate_basic m = true -> handle e s m = LOk (s', r, evs) ->
       Inv_core s' -> small_state s' -> Inv_valid s' *)
Theorem C09_msg_vs_state_partial : forall e s m s' r evs,
  Inv_valid_except_dates s -> validate_basic m = true -> wire_dates_ok m -> handle e s m = LOk (s', r, evs) ->
  Inv_core s' -> small_state s' -> Inv_valid_except_dates s'.
Proof. exact msg_vs_state_partial. Qed.
Print Assumptions C09_msg_vs_state_partial.

(* the full validator, under the exact side condition: a batch-creating message has end > start *)
Theorem C09_msg_vs_state_strict_dates : forall e s m s' r evs,
  Inv_valid s -> validate_basic m = true -> strict_dates_ok m -> handle e s m = LOk (s', r, evs) ->
  Inv_core s' -> small_state s' -> Inv_valid s'.
Proof. exact msg_vs_state_full. Qed.
Print Assumptions C09_msg_vs_state_strict_dates.

(* the full validator for the 38 messages that do not create a batch, no side condition *)
Theorem C09_msg_vs_state_other : forall e s m s' r evs,
  creates_batch m = false ->
  Inv_valid s -> validate_basic m = true -> handle e s m = LOk (s', r, evs) ->
  Inv_core s' -> small_state s' -> Inv_valid s'.
Proof. exact msg_vs_state_other. Qed.
Print Assumptions C09_msg_vs_state_other.

(* the non-amount part, without any hypothesis on the post state *)
Theorem C09_handlers_preserve_meta_validity : forall d e s m s' r evs,
  MV d s -> validate_basic m = true -> msg_dates_ok d m -> handle e s m = LOk (s', r, evs) -> MV d s'.
Proof. exact handle_MV. Qed.
Print Assumptions C09_handlers_preserve_meta_validity.

Theorem C09_begin_block_preserves_meta_validity : forall d t s s', MV d s -> begin_block t s = LOk s' -> MV d s'.
Proof. exact begin_block_MV. Qed.
Print Assumptions C09_begin_block_preserves_meta_validity.

(* FeeParams.Validate (never called by ValidateGenesis, see Genesis/README.md) accepts what GovSetFeeParams stores *)
Theorem C09_fee_params_valid : forall e s a fees s' r evs,
  validate_basic (MGovSetFeeParams a fees) = true ->
  handle e s (MGovSetFeeParams a fees) = LOk (s', r, evs) -> fee_params_ok s' = true.
Proof. exact gov_set_fee_params_valid. Qed.
Print Assumptions C09_fee_params_valid.

(* ---- every reachable state ---- *)

(* PARTIAL (F4): any history of blocks from a validated genesis *)
Theorem C09_reachable_partial : forall a s0 h s,
  Inv_valid_except_dates s0 -> Forall (block_dates_ok false) h -> run a s0 h = LOk s ->
  Inv_core s -> small_state s -> Inv_valid_except_dates s.
Proof. exact reachable_valid_partial. Qed.
Print Assumptions C09_reachable_partial.

(* the full row validators, for histories whose batch-creating messages have end > start *)
Theorem C09_reachable_strict_dates : forall a s0 h s,
  Inv_valid s0 -> Forall (block_dates_ok true) h -> run a s0 h = LOk s ->
  Inv_core s -> small_state s -> Inv_valid s.
Proof. exact (reachable_valid true). Qed.
Print Assumptions C09_reachable_strict_dates.

(* ---- the export itself cannot fail on a stored date criterion (finding F16) ---- *)

(* protojson refuses a Timestamp outside 0001..9999 or with nanos outside [0, 1e9) and a Duration beyond 10000 years
   or with mismatching nanos; a stored criterion outside that range made ExportGenesis panic for ever.  Every basket
   of a state whose rows validate -- hence, by the two theorems above, of every reachable state -- is inside it. *)
Theorem C09_criteria_exportable : forall s, Inv_valid s ->
  forall id k, baskets s !! id = Some k -> json_criteria_ok (bk_criteria k).
Proof. exact Inv_valid_criteria_exportable. Qed.
Print Assumptions C09_criteria_exportable.

Theorem C09_criteria_exportable_except_dates : forall s, Inv_valid_except_dates s ->
  forall id k, baskets s !! id = Some k -> json_criteria_ok (bk_criteria k).
Proof. exact Inv_valid_except_dates_criteria_exportable. Qed.
Print Assumptions C09_criteria_exportable_except_dates.

(* the message validator is where the range is enforced *)
Theorem C09_criteria_message_check : forall c, vb_date_criteria c = true -> json_criteria_ok c.
Proof. intros c H. apply valid_date_criteria_json, vb_date_criteria_valid, H. Qed.
Print Assumptions C09_criteria_message_check.

Example C09_criteria_boundaries :
  json_criteria_ok (DCMinStart {| secs := 253402300799; nanos := 999999999 |}) /\
  ~ json_criteria_ok (DCMinStart {| secs := 253402300800; nanos := 0 |}) /\
  ~ json_criteria_ok (DCMinStart {| secs := 1500000000; nanos := -1 |}) /\
  json_criteria_ok (DCWindow 315576000000 999999999) /\
  ~ json_criteria_ok (DCWindow 86400 (-1)) /\
  ~ json_criteria_ok (DCWindow 315576000001 0).
Proof. exact json_criteria_boundaries. Qed.

(* ---- refuted on the current tree ---- *)

(* F4: MsgCreateBatch with start date = end date passes ValidateBasic and the handler; the stored
   Batch row fails Batch.Validate, so the exported genesis fails ValidateGenesis *)
Theorem C09_batch_dates_refuted :
  exists e s m s' r evs, Inv_valid s /\ validate_basic m = true /\ handle e s m = LOk (s', r, evs) /\ validate_rows s' = false.
Proof. exact MsgVsState.C09_batch_dates_refuted. Qed.
Print Assumptions C09_batch_dates_refuted.

Theorem C09_batch_dates_refuted_genesis :
  exists e s m s' r evs, validate_genesis s = true /\ validate_basic m = true /\ handle e s m = LOk (s', r, evs) /\
    validate_genesis s' = false /\ validate_rows_except_dates s' = true /\ validate_cross s' = true /\ import_ok s' = true.
Proof. exact MsgVsState.C09_batch_dates_refuted_genesis. Qed.
Print Assumptions C09_batch_dates_refuted_genesis.

(* F6 (data module): MsgDefineResolver{public: true} stores an empty manager, which Resolver.Validate rejects *)
Theorem C09_public_resolver_refuted :
  exists (H : bytes -> bytes) t s m s' r,
    DataC09.resolvers_valid s = true /\ DataMsgs.validate_basic m = true /\
    DataMsgs.handle H t m s = BytesExt.Ok (s', r) /\ DataC09.resolvers_valid s' = false.
Proof. exact DataC09.C09_public_resolver_refuted. Qed.
Print Assumptions C09_public_resolver_refuted.

(* PARTIAL (F6): private resolvers are fine *)
Theorem C09_private_resolver_partial : forall definer url s s' r,
  DataC09.resolvers_valid s = true -> nonempty url = true ->
  DataMsgs.handle_define_resolver definer url false s = BytesExt.Ok (s', r) -> DataC09.resolvers_valid s' = true.
Proof. exact DataC09.define_private_resolver_valid_partial. Qed.
Print Assumptions C09_private_resolver_partial.

(* ---- the hypotheses are satisfiable ---- *)

(* a valid state, an accepted CreateBatch with end > start, and a resulting state that passes the
   whole of ValidateGenesis (rows, ORM checks, supply cross-check) *)
Example C09_good_batch :
  exists e s m s' r evs, Inv_valid s /\ validate_basic m = true /\ strict_dates_ok m /\
    handle e s m = LOk (s', r, evs) /\ validate_genesis s' = true.
Proof. exact C09_good_batch_example. Qed.

(* boundary values of the validators *)
Example C09_seller_fee_one_valid : valid_fee_params {| fp_buyer := b "0"; fp_seller := b "1" |} = true.
Proof. vm_compute. reflexivity. Qed.
Example C09_seller_fee_above_one_invalid : valid_fee_params {| fp_buyer := b "0"; fp_seller := b "1.1" |} = false.
Proof. vm_compute. reflexivity. Qed.
Example C09_zero_fee_coin_valid : valid_class_fee (Some {| c_denom := b "stake"; c_amount := 0 |}) = true.
Proof. vm_compute. reflexivity. Qed.
Example C09_epoch_start_date_valid :
  valid_basket_balance (1%N, b "C01-001-19700101-20200101-001")
    {| bb_balance := mkDec false 1500000 (-6); bb_start := {| secs := 0; nanos := 0 |} |} = true.
Proof. vm_compute. reflexivity. Qed.
Example C09_equal_dates_invalid :
  valid_batch_dates {| ba_issuer := 0%N; ba_project_key := 1%N; ba_denom := []; ba_metadata := [];
                       ba_start := {| secs := 5; nanos := 0 |}; ba_end := {| secs := 5; nanos := 0 |};
                       ba_issuance := {| secs := 9; nanos := 0 |}; ba_open := false |} = false.
Proof. vm_compute. reflexivity. Qed.
