(* C14, stateful part -- identifiers are unique, consecutively numbered, and references resolve
   (the pure part -- formats, validators, parsers -- is in C14pure.v).

   Inv_ids s (Ledger/InvIds.v) is the conjunction of
   - G_class: class ids are unique; every class id is format_class_id (its credit type) n with
     1 <= n < next, next = default 1 (class_sequences s !! credit type); for every credit type ct and
     every 1 <= n < next some class of that credit type has id format_class_id ct n (with uniqueness:
     exactly one); class keys are <= class_seq_id; stored sequence values are >= 1; the credit type of
     every class exists; every credit type abbreviation validates;
   - G_proj: the same for projects per class (format_project_id (id of the class) n, project_sequences
     keyed by class key), and the class of every project exists;
   - G_batch: the same for batches per project (format_batch_denom (id of the project) n start end,
     batch_sequences keyed by project key), and the project of every batch exists;
   - G_refs: class issuers name existing classes; a bound contract names an existing batch and class.
   It is preserved by every base-module message (the nine credit messages and the administrative /
   governance / bank-send messages); a rejected message changes nothing, so it consumes no number. *)
From stdpp Require Import gmap.
From Coq Require Import ZArith NArith List Bool.
Require Import Regen.Base.Bytes Regen.Dec.Dec Regen.Ids.Ids.
Require Import Regen.Ledger.Types Regen.Ledger.Msgs Regen.Ledger.Orm Regen.Ledger.BaseMsgs Regen.Ledger.Step
               Regen.Ledger.InvBaseExample Regen.Ledger.InvBridge Regen.Ledger.InvIds Regen.Ledger.InvIdsExample Regen.Query.QueriesProps.
Local Open Scope Z_scope.

Theorem C14_ids_preserved : forall e s m s' r evs,
  is_base_module_msg m = true -> Inv_ids s -> validate_basic m = true ->
  handle e s m = LOk (s', r, evs) -> Inv_ids s'.
Proof. exact base_preserves_ids. Qed.
Print Assumptions C14_ids_preserved.

Theorem C14_ids_preserved_deliver : forall e s m,
  is_base_module_msg m = true -> Inv_ids s -> Inv_ids (deliver e s m).1.
Proof. exact deliver_preserves_ids. Qed.
Print Assumptions C14_ids_preserved_deliver.

Theorem C14_failed_consumes_nothing : forall e s m,
  (validate_basic m = false \/ exists err, handle e s m = LErr err) -> (deliver e s m).1 = s.
Proof. exact failed_consumes_nothing. Qed.
Print Assumptions C14_failed_consumes_nothing.

(* a genesis with empty class / project / batch tables satisfies the invariant *)
Theorem C14_ids_genesis : forall s,
  classes s = ∅ -> projects s = ∅ -> batches s = ∅ -> class_sequences s = ∅ -> project_sequences s = ∅ ->
  batch_sequences s = ∅ -> class_issuers s = ∅ -> batch_contracts s = ∅ ->
  (forall ct, is_Some (credit_types s !! ct) -> validate_credit_type_abbrev ct = true) -> Inv_ids s.
Proof. exact Inv_ids_empty. Qed.
Print Assumptions C14_ids_genesis.

Theorem C14_unique : forall s, Inv_ids s ->
  uniq_by cl_id (classes s) /\ uniq_by pj_id (projects s) /\ uniq_by ba_denom (batches s).
Proof. exact Inv_ids_unique. Qed.
Print Assumptions C14_unique.

Theorem C14_refs : forall s, Inv_ids s -> Inv_refs s.
Proof. exact Inv_ids_refs. Qed.
Print Assumptions C14_refs.

(* the hypotheses of the query theorems (C17) follow *)
Theorem C14_ids_wf : forall s, Inv_ids s -> ids_wf s.
Proof. exact Inv_ids_wf. Qed.
Print Assumptions C14_ids_wf.

Theorem C14_class_ids_unique : forall s, Inv_ids s -> class_ids_unique s.
Proof. exact Inv_ids_class_unique. Qed.
Print Assumptions C14_class_ids_unique.

(* the hypotheses are satisfiable: an empty-tables genesis satisfies Inv_ids, a run creating two
   classes, two projects (one attempt rejected in between) and two batches keeps it, and the ids
   handed out are C01, C02, C02-001, (rejected), C02-002, C02-002-20200101-20210101-001 and -002 *)
Example C14_example_genesis : Inv_ids gen0.
Proof. exact gen0_ids. Qed.
Example C14_example_run : Inv_ids (run_msgs ex_env gen0 ids_msgs).
Proof. exact ids_run_ok. Qed.
