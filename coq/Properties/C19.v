(* C19 - Credit amount arithmetic is exact, canonical and side-effect free.

   Model: Regen.Dec.Dec (transcription of types/math/dec.go, math.go over apd v2.0.2), tied to the
   Go code by the correspondence family `dec` (Cases/DecRun.v).  [dval d] is the rational value
   Negative x Coeff x 10^Exponent, [dwf d] is apd's representation invariant Coeff >= 0, which every
   value produced by NewDecFromString and by the operations below satisfies.

   "No arithmetic operation modifies its operands" is a statement about Go aliasing; in the model
   all operations are pure functions.  It is checked on the implementation by the Go monitor
   `operand-mutated` of the family (deep snapshot of every operand before and after every call). *)
From Coq Require Import List ZArith QArith Qabs Strings.Byte Strings.String.
Require Import Regen.Base.Bytes Regen.Dec.Dec Regen.Dec.DecLemmas Regen.Dec.DecIface Regen.Dec.DecProps
  Regen.Dec.DecRound Regen.Dec.DecParse.
Import ListNotations.
Local Open Scope Z_scope.
Local Arguments b s%string_scope.

(* --- Parsing a decimal string yields exactly that rational value --------------------------- *)

Theorem C19_parse_value : forall s d, parse s = Ok d ->
  exists q, value_of s = Some q /\ (dval d == q)%Q.
Proof. exact parse_value. Qed.
Print Assumptions C19_parse_value.

Theorem C19_parse_wf : forall s d, parse s = Ok d -> 0 <= dcoef d.
Proof. exact parse_wf. Qed.
Print Assumptions C19_parse_wf.

Theorem C19_parse_sign : forall s d, parse s = Ok d -> (dval d < 0)%Q -> has_prefix (b "-") s = true.
Proof. exact parse_sign. Qed.
Print Assumptions C19_parse_sign.

(* every literal [+-]? d* [. d*] ([eE] [+-]? d+)? (at least one mantissa digit) whose exponents are
   within the package limits is accepted, with coefficient = the mantissa digits *)
Theorem C19_parse_complete : forall (neg : bool) sign ip fp (pt : bool) exo exl e,
  (sign = [] /\ neg = false \/ sign = ["+"%byte] /\ neg = false \/ sign = ["-"%byte] /\ neg = true) ->
  (pt = false -> fp = []) ->
  forallb is_digit ip = true -> forallb is_digit fp = true -> ip ++ fp <> [] ->
  exp_src exo exl e ->
  exp_in_limits e = true -> Z.of_nat (List.length fp) <= 100000 ->
  exp_in_limits (e - Z.of_nat (List.length fp)) = true ->
  min_exponent <= e - Z.of_nat (List.length fp) + num_digits (dec_digits_val (ip ++ fp)) - 1 <= max_exponent ->
  parse (sign ++ ip ++ (if pt then "."%byte :: fp else []) ++ exo) =
  Ok (mkDec neg (dec_digits_val (ip ++ fp)) (e - Z.of_nat (List.length fp))).
Proof. exact parse_complete. Qed.
Print Assumptions C19_parse_complete.

Example C19_parse_ex :
  parse (b "-12.50E+3") = Ok (mkDec true 1250 1) /\
  value_of (b "-12.50E+3") = Some (dval (mkDec true 1250 1)) /\
  parse (b ".-5") = Err EParse /\ parse (b ".+5") = Err EParse /\ parse (b "-0") = Ok (mkDec true 0 0) /\
  parse (b "0e5") = Ok (mkDec false 0 5) /\ parse [] = Ok (mkDec false 0 0).
Proof. repeat split; vm_compute; reflexivity. Qed.

(* --- Addition and subtraction never round --------------------------------------------------- *)

Theorem C19_add_exact : forall a c r, dwf a -> dwf c -> add a c = Ok r -> (dval r == dval a + dval c)%Q.
Proof. exact add_exact. Qed.
Print Assumptions C19_add_exact.

Theorem C19_sub_exact : forall a c r, dwf a -> dwf c -> sub a c = Ok r -> (dval r == dval a - dval c)%Q.
Proof. exact sub_exact. Qed.
Print Assumptions C19_sub_exact.

Theorem C19_add_sub_total : forall E N subtract x y, dwf x -> dwf y ->
  0 <= E <= 50000 -> 1 <= N -> E + N <= 100000 ->
  - E <= dexp x <= E -> - E <= dexp y <= E ->
  num_digits (dcoef x) <= N -> num_digits (dcoef y) <= N ->
  exists r, add_gen subtract x y = Ok r.
Proof. exact add_gen_total. Qed.
Print Assumptions C19_add_sub_total.

Example C19_add_ex :
  dwf (mkDec false 105 (-1)) /\ dwf (mkDec true 25 (-2)) /\
  add (mkDec false 105 (-1)) (mkDec true 25 (-2)) = Ok (mkDec false 1025 (-2)) /\
  sub (mkDec false 1 0) (mkDec false 1 (-30)) = Ok (mkDec false 999999999999999999999999999999 (-30)).
Proof. repeat split; try (cbv; discriminate); vm_compute; reflexivity. Qed.

(* --- Balance subtraction never yields a negative value without an error --------------------- *)

Theorem C19_safe_sub : forall a c r, dwf a -> dwf c -> safe_sub_balance a c = Ok r ->
  (0 <= dval r)%Q /\ (dval r == dval a - dval c)%Q.
Proof. exact safe_sub_nonneg. Qed.
Print Assumptions C19_safe_sub.

Theorem C19_safe_sub_error : forall a c, dwf a -> dwf c -> safe_sub_balance a c = Err ENegative ->
  (dval a < dval c)%Q.
Proof. exact safe_sub_negative_error. Qed.
Print Assumptions C19_safe_sub_error.

Theorem C19_sub_non_negative : forall a c r, dwf a -> dwf c -> sub_non_negative a c = Ok r ->
  (0 <= dval r)%Q /\ (dval r == dval a - dval c)%Q.
Proof. exact sub_non_negative_nonneg. Qed.
Print Assumptions C19_sub_non_negative.

Theorem C19_safe_add : forall a c r, dwf a -> dwf c -> safe_add_balance a c = Ok r ->
  (0 <= dval a)%Q /\ (0 <= dval c)%Q /\ (0 <= dval r)%Q /\ (dval r == dval a + dval c)%Q.
Proof. exact safe_add_value. Qed.
Print Assumptions C19_safe_add.

Example C19_safe_sub_ex :
  safe_sub_balance (mkDec false 1005 (-2)) (mkDec false 5 (-2)) = Ok (mkDec false 1000 (-2)) /\
  safe_sub_balance (mkDec false 5 (-2)) (mkDec false 1005 (-2)) = Err ENegative /\
  safe_add_balance (mkDec false 15 (-1)) (mkDec false 25 (-3)) = Ok (mkDec false 1525 (-3)) /\
  safe_add_balance (mkDec true 15 (-1)) (mkDec false 25 (-3)) = Err ENegative.
Proof. repeat split; vm_compute; reflexivity. Qed.

(* --- Exact multiply and divide: the exact result or an error -------------------------------- *)

Theorem C19_mul_exact : forall a c r, mul_exact a c = Ok r -> (dval r == dval a * dval c)%Q.
Proof. exact mul_exact_value. Qed.
Print Assumptions C19_mul_exact.

Theorem C19_quo_exact : forall a c r, dwf a -> dwf c -> quo_exact a c = Ok r -> (dval r * dval c == dval a)%Q.
Proof. exact quo_exact_value. Qed.
Print Assumptions C19_quo_exact.

Example C19_exact_ex :
  mul_exact (mkDec false 125 (-2)) (mkDec true 4 (-1)) = Ok (mkDec true 500 (-3)) /\
  mul_exact (mkDec false 99999999999999999 0) (mkDec false 999999999999999999 0) = Err ERounded /\
  quo_exact (mkDec false 1 0) (mkDec false 8 0) = Ok (mkDec false 125 (-3)) /\
  quo_exact (mkDec false 1 0) (mkDec false 3 0) = Err ERounded /\
  quo_exact (mkDec false 1 0) (mkDec false 0 0) = Err EDivZero.
Proof. repeat split; vm_compute; reflexivity. Qed.

(* --- Rounding multiply and divide: correct to 34 significant digits ------------------------- *)

Theorem C19_mul_rounding : forall a c r, dwf a -> dwf c -> mul a c = Ok r ->
  (Qabs (dval r - dval a * dval c) <= (1 # 2) * q10 ^ dexp r)%Q /\ dwf r /\ num_digits (dcoef r) <= 34.
Proof. exact mul_round_bound. Qed.
Print Assumptions C19_mul_rounding.

Theorem C19_quo_rounding : forall a c r, dwf a -> dwf c -> quo a c = Ok r ->
  (Qabs (dval r * dval c - dval a) <= (1 # 2) * q10 ^ dexp r * Qabs (dval c))%Q /\
  dwf r /\ num_digits (dcoef r) <= 34 /\ ~ (dval c == 0)%Q.
Proof. exact quo_round_bound. Qed.
Print Assumptions C19_quo_rounding.

Example C19_rounding_ex :
  mul (mkDec false 99999999999999999999999999999999995 0) (mkDec false 1 0)
    = Ok (mkDec false 1000000000000000000000000000000000 2) /\
  quo (mkDec false 2 0) (mkDec false 3 0) = Ok (mkDec false 6666666666666666666666666666666667 (-34)) /\
  num_digits 6666666666666666666666666666666667 = 34.
Proof. repeat split; vm_compute; reflexivity. Qed.

(* --- Conversion to integer coins truncates toward zero -------------------------------------- *)

Theorem C19_trim : forall d z, dwf d -> sdk_int_trim d = Ok z ->
  (inject_Z (Z.abs z) <= Qabs (dval d))%Q /\ (Qabs (dval d) < inject_Z (Z.abs z) + 1)%Q /\
  (0 <= inject_Z z * dval d)%Q.
Proof. exact trim_toward_zero. Qed.
Print Assumptions C19_trim.

Example C19_trim_ex :
  sdk_int_trim (mkDec true 1299 (-2)) = Ok (-12) /\ sdk_int_trim (mkDec false 99 (-2)) = Ok 0 /\
  sdk_int_trim (mkDec false 12 3) = Ok 12000.
Proof. repeat split; vm_compute; reflexivity. Qed.

(* --- Rendering then re-parsing gives the same number, always in plain notation -------------- *)

Theorem C19_print_parse : forall d, dwf d -> reparse_ok d ->
  exists d', parse (to_string d) = Ok d' /\ (dval d' == dval d)%Q.
Proof. exact print_parse. Qed.
Print Assumptions C19_print_parse.

Theorem C19_print_parse_same : forall d, dwf d -> -100000 <= dexp d <= 0 -> dcoef d < 10 ^ 100000 ->
  parse (to_string d) = Ok d.
Proof. exact parse_to_string. Qed.
Print Assumptions C19_print_parse_same.

Theorem C19_reparse_ok_moderate : forall d, dwf d -> -100000 <= dexp d <= 50000 -> dcoef d < 10 ^ 50000 ->
  reparse_ok d.
Proof. exact reparse_ok_moderate. Qed.
Print Assumptions C19_reparse_ok_moderate.

Theorem C19_plain_notation : forall d, dwf d ->
  ~ In "e"%byte (to_string d) /\ ~ In "E"%byte (to_string d) /\ ~ In "+"%byte (to_string d).
Proof. exact to_string_plain. Qed.
Print Assumptions C19_plain_notation.

Example C19_print_ex :
  to_string (mkDec true 0 0) = b "-0" /\ to_string (mkDec false 5 3) = b "5000" /\
  to_string (mkDec false 5 (-3)) = b "0.005" /\ to_string (mkDec true 12345 (-2)) = b "-123.45" /\
  parse (to_string (mkDec false 5 3)) = Ok (mkDec false 5000 0) /\
  parse (to_string (mkDec true 12345 (-2))) = Ok (mkDec true 12345 (-2)).
Proof. repeat split; vm_compute; reflexivity. Qed.

(* --- Gated constructors ---------------------------------------------------------------------- *)

Theorem C19_nonneg_gate : forall s d, non_negative_dec_from_string s = Ok d -> (0 <= dval d)%Q.
Proof. exact nonneg_gate. Qed.
Print Assumptions C19_nonneg_gate.

Theorem C19_positive_gate : forall s d, positive_dec_from_string s = Ok d -> (0 < dval d)%Q.
Proof. exact positive_gate. Qed.
Print Assumptions C19_positive_gate.

Theorem C19_fixed_gate : forall s p d, non_negative_fixed_dec_from_string s p = Ok d ->
  (0 <= dval d)%Q /\ - dexp d <= p.
Proof. exact fixed_gate. Qed.
Print Assumptions C19_fixed_gate.

Theorem C19_positive_fixed_gate : forall s p d, positive_fixed_dec_from_string s p = Ok d ->
  (0 < dval d)%Q /\ - dexp d <= p.
Proof. exact positive_fixed_gate. Qed.
Print Assumptions C19_positive_fixed_gate.

Theorem C19_fixed_units : forall s p d, non_negative_fixed_dec_from_string s p = Ok d ->
  (dval d == inject_Z (units p d) * q10 ^ (- p))%Q /\ 0 <= units p d.
Proof. exact fixed_gate_units. Qed.
Print Assumptions C19_fixed_units.

Example C19_gates_ex :
  non_negative_dec_from_string (b "1.50") = Ok (mkDec false 150 (-2)) /\
  non_negative_dec_from_string (b "-1.50") = Err EParse /\
  positive_dec_from_string (b "0.000") = Err EParse /\
  non_negative_fixed_dec_from_string (b "1.1234567") 6 = Err EPrecision /\
  non_negative_fixed_dec_from_string (b "1.123456") 6 = Ok (mkDec false 1123456 (-6)) /\
  positive_fixed_dec_from_string (b ".-5") 6 = Err EParse.
Proof. repeat split; vm_compute; reflexivity. Qed.

(* --- Comparison agrees with the number of 10^-p units ---------------------------------------- *)

Theorem C19_cmp_units : forall p a c,
  0 <= dcoef a -> 0 <= dcoef c -> 0 <= dexp a + p -> 0 <= dexp c + p ->
  cmp a c = Z.compare (units p a) (units p c).
Proof. exact cmp_units. Qed.
Print Assumptions C19_cmp_units.

Example C19_cmp_ex :
  cmp (mkDec false 15 (-1)) (mkDec false 1500 (-3)) = Eq /\
  cmp (mkDec true 15 (-1)) (mkDec false 0 5) = Lt /\ cmp (mkDec false 1 2) (mkDec false 99 0) = Gt.
Proof. repeat split; vm_compute; reflexivity. Qed.
