(* C03 -- ownership: a message moves only the signer's credits and coins, with the exceptions the protocol intends, each stated exactly.

   [holdings s a k] (Ledger/InvOwn.v) = U tradable + U escrowed of account a for batch k.  Per family:
   * base module (credit and administrative messages): nobody but the signer loses credits or coins; the module account nets to zero (C03_base_module);
   * basket messages: nobody's credit rows and nobody's coins change at all except the signer's (C03_basket);
   * Sell, UpdateSellOrders, CancelSellOrder, AddAllowedDenom, RemoveAllowedDenom, GovSetFeeParams: nobody's credit rows change except the signer's and no coins move (C03_market_no_transfer);
   * GovSendFromFeePool: the signer is the governance authority and only the fee pool's coins decrease (C03_fee_pool);
   * BuyDirect, per filled order: the only third party touched is the seller of that order, who loses exactly the bought quantity of ESCROWED credits (never more than the order's
     quantity) and receives exactly the payment in the market's denom; only the buyer's coins decrease, by fee + payment (C03_buy_one_order with C07_* for the amounts);
   * begin-block: moves expired orders' escrow back to the seller's tradable balance and nothing else (C03_begin_block).
   UNIFIED STATEMENT (Ledger/InvAllOwn2.v): C03_every_message / C03_every_delivered_message hold for EVERY message of every family, successful or failed, and every account other than the signer: (i) its tradable credits never decrease, (ii) its escrowed credits decrease only when the message is another account's BuyDirect, (iii) and then by exactly the quantity by which its OWN open sell orders shrank (open_units = the sum Inv_escrow equates with the escrow; C03_buy_direct_orders_shrink: a BuyDirect never creates, re-assigns or enlarges an order), (iv)+(v) its coins (basket tokens are coins) never decrease, the only account whose coins can decrease without its signature being the fee pool under GovSendFromFeePool signed by the governance authority.  C03_history: over any stretch of history in which the account signs nothing.  The per-family theorems that follow give the exact amounts. *)
From stdpp Require Import gmap.
From RecordUpdate Require Import RecordSet.
From Coq Require Import ZArith NArith List Bool Strings.Byte.
Require Import Regen.Base.Bytes Regen.Base.Calendar Regen.Dec.Dec.
Require Import Regen.Ledger.Types Regen.Ledger.Msgs Regen.Ledger.Orm Regen.Ledger.BaseMsgs Regen.Ledger.BasketMsgs Regen.Ledger.MarketMsgs Regen.Ledger.Step.
Require Import Regen.Ledger.Amount Regen.Ledger.MapSum Regen.Ledger.Inv.
Require Import Regen.Ledger.InvAdmin Regen.Ledger.InvBase Regen.Ledger.InvBasket Regen.Ledger.InvBridge Regen.Ledger.InvOwn.
Require Import Regen.Ledger.InvMarketLib Regen.Ledger.InvMarketOrders Regen.Ledger.InvMarketFill Regen.Ledger.InvMarket.
Require Import Regen.Ledger.InvAllLib Regen.Ledger.InvAllRun Regen.Ledger.InvAllOwn Regen.Ledger.InvAllOwn2.
Require Import Regen.Ledger.SpellingModel Regen.Ledger.Spelling.
Import ListNotations RecordSetNotations.
Local Open Scope Z_scope.

(* the unified statement: any message of any family, any account other than its signer *)
Theorem C03_every_message : forall e s m s' r evs,
  Inv_run s -> validate_basic m = true -> handle e s m = LOk (s', r, evs) ->
  forall a, a <> signer m ->
    (* (i) tradable credits never decrease *)
    (forall k, U (bl_tradable (get_balance s a k)) <= U (bl_tradable (get_balance s' a k))) /\
    (* (ii) only a BuyDirect (signed by the buyer, who is not a) lowers the escrow *)
    (forall k, U (bl_escrowed (get_balance s' a k)) < U (bl_escrowed (get_balance s a k)) ->
               exists buyer orders, m = MBuyDirect buyer orders) /\
    (* (iii) and then by exactly the quantity by which a's own open sell orders for the batch shrank *)
    (forall k, U (bl_escrowed (get_balance s a k)) - U (bl_escrowed (get_balance s' a k)) =
               open_units s a k - open_units s' a k) /\
    (* (iv) coins (basket tokens included) never decrease, the fee pool excepted *)
    (forall d, a <> addr_feepool -> bank_bal s a d <= bank_bal s' a d) /\
    (* (v) the exception: the fee pool, by a GovSendFromFeePool of the authority *)
    (forall d, bank_bal s' a d < bank_bal s a d ->
               a = addr_feepool /\ exists authority recipient coins,
                 m = MGovSendFromFeePool authority recipient coins /\ authority = e_authority e).
Proof. exact ownership_all_messages. Qed.
Print Assumptions C03_every_message.

(* through the transaction rule (failed and invalid messages included: they change nothing) *)
Theorem C03_every_delivered_message : forall e s m,
  Inv_run s -> forall a, a <> signer m ->
    let s' := (deliver e s m).1 in
    (forall k, U (bl_tradable (get_balance s a k)) <= U (bl_tradable (get_balance s' a k))) /\
    (forall k, U (bl_escrowed (get_balance s' a k)) < U (bl_escrowed (get_balance s a k)) ->
               exists buyer orders, m = MBuyDirect buyer orders) /\
    (forall k, U (bl_escrowed (get_balance s a k)) - U (bl_escrowed (get_balance s' a k)) =
               open_units s a k - open_units s' a k) /\
    (forall d, a <> addr_feepool -> bank_bal s a d <= bank_bal s' a d) /\
    (forall d, bank_bal s' a d < bank_bal s a d ->
               a = addr_feepool /\ exists authority recipient coins,
                 m = MGovSendFromFeePool authority recipient coins /\ authority = e_authority e).
Proof. exact ownership_deliver. Qed.
Print Assumptions C03_every_delivered_message.

(* orders_shrink: every order left after a BuyDirect existed before with the same seller and batch and at least the same quantity *)
Theorem C03_buy_direct_orders_shrink : forall e s buyer orders s' r evs,
  Inv_run s -> handle e s (MBuyDirect buyer orders) = LOk (s', r, evs) -> orders_shrink s s'.
Proof. exact buy_direct_orders_shrink. Qed.
Print Assumptions C03_buy_direct_orders_shrink.

(* the fee pool is reduced only by the governance authority's GovSendFromFeePool (uregen fees are burnt without passing through the pool) *)
Theorem C03_fee_pool_every_message : forall e s m,
  Inv_run s -> signer m <> addr_feepool ->
  forall d, bank_bal (deliver e s m).1 addr_feepool d < bank_bal s addr_feepool d ->
    exists authority recipient coins, m = MGovSendFromFeePool authority recipient coins /\ authority = e_authority e.
Proof. exact fee_pool_deliver. Qed.
Print Assumptions C03_fee_pool_every_message.

(* module accounts (blocked addresses) keep their coins under every non-marketplace message *)
Theorem C03_module_accounts_net_zero : forall e s m s' r evs,
  Inv_run s -> validate_basic m = true -> handle e s m = LOk (s', r, evs) ->
  is_market_msg m = false -> signer m <> addr_ecocredit ->
  forall a d, blocked_addr a = true -> a <> signer m -> bank_bal s' a d = bank_bal s a d.
Proof. exact module_accounts_net_zero. Qed.
Print Assumptions C03_module_accounts_net_zero.

(* at every state of every history *)
Theorem C03_in_every_reachable_state : forall g s e m,
  Inv_run g -> reaches g s -> forall a, a <> signer m ->
    let s' := (deliver e s m).1 in
    (forall k, U (bl_tradable (get_balance s a k)) <= U (bl_tradable (get_balance s' a k))) /\
    (forall k, U (bl_escrowed (get_balance s' a k)) < U (bl_escrowed (get_balance s a k)) ->
               exists buyer orders, m = MBuyDirect buyer orders) /\
    (forall k, U (bl_escrowed (get_balance s a k)) - U (bl_escrowed (get_balance s' a k)) =
               open_units s a k - open_units s' a k) /\
    (forall d, a <> addr_feepool -> bank_bal s a d <= bank_bal s' a d) /\
    (forall d, bank_bal s' a d < bank_bal s a d ->
               a = addr_feepool /\ exists authority recipient coins,
                 m = MGovSendFromFeePool authority recipient coins /\ authority = e_authority e).
Proof. exact ownership_reachable. Qed.
Print Assumptions C03_in_every_reachable_state.

(* block-level processing only moves an account's own credits from escrow back to tradable *)
Theorem C03_begin_block_in_every_reachable_state : forall g s t s',
  Inv_run g -> reaches g s -> begin_block t s = LOk s' ->
  (forall a k, holdings s' a k = holdings s a k) /\
  (forall a k, U (bl_tradable (get_balance s a k)) <= U (bl_tradable (get_balance s' a k))) /\
  (forall a k, U (bl_escrowed (get_balance s a k)) - U (bl_escrowed (get_balance s' a k)) =
               open_units s a k - open_units s' a k) /\
  bank s' = bank s.
Proof. exact begin_block_reachable. Qed.
Print Assumptions C03_begin_block_in_every_reachable_state.

(* reaches_unsigned a s s': any sequence of begin-blocks and of messages not signed by a *)
Theorem C03_history : forall a s s',
  Inv_run s -> reaches_unsigned a s s' ->
  (forall k, U (bl_tradable (get_balance s a k)) <= U (bl_tradable (get_balance s' a k))) /\
  (a <> addr_feepool -> forall d, bank_bal s a d <= bank_bal s' a d) /\
  (forall k, U (bl_escrowed (get_balance s a k)) = open_units s a k /\
             U (bl_escrowed (get_balance s' a k)) = open_units s' a k).
Proof. exact ownership_history. Qed.
Print Assumptions C03_history.

Example C03_hypotheses_satisfiable :
  Inv_run empty_state.
Proof. exact ownership_hyps_satisfiable. Qed.
Print Assumptions C03_hypotheses_satisfiable.

(* base module *)
Theorem C03_base_module : forall e s m s' r evs,
  is_base_module_msg m = true -> Inv_core s -> validate_basic m = true -> signer m <> addr_ecocredit ->
  handle e s m = LOk (s', r, evs) ->
  (forall a k, a <> signer m -> holdings s a k <= holdings s' a k) /\
  (forall a d, a <> signer m -> a <> addr_ecocredit -> bank_bal s a d <= bank_bal s' a d) /\
  (forall d, bank_bal s' addr_ecocredit d = bank_bal s addr_ecocredit d).
Proof. exact base_ownership. Qed.
Print Assumptions C03_base_module.

(* basket family *)
Theorem C03_basket : forall e s m s' r evs,
  is_basket_msg m = true -> Inv_core s -> validate_basic m = true -> handle e s m = LOk (s', r, evs) ->
  (forall a k, a <> signer m -> get_balance s' a k = get_balance s a k) /\
  (forall a d, a <> signer m -> bank_bal s' a d = bank_bal s a d).
Proof. exact basket_ownership. Qed.
Print Assumptions C03_basket.

(* the basket module account's coins are unchanged by every basket message *)
Theorem C03_basket_module_account_nets_to_zero : forall e s m s' r evs,
  is_basket_msg m = true -> Inv_core s -> validate_basic m = true -> handle e s m = LOk (s', r, evs) ->
  signer m <> addr_basket -> forall d, bank_bal s' addr_basket d = bank_bal s addr_basket d.
Proof. exact basket_module_nets_to_zero. Qed.
Print Assumptions C03_basket_module_account_nets_to_zero.

(* marketplace messages that move no coins *)
Theorem C03_market_no_transfer : forall e s m s' r evs,
  match m with
  | MSell _ _ | MUpdateSellOrders _ _ | MCancelSellOrder _ _ | MAddAllowedDenom _ _ _ _ | MRemoveAllowedDenom _ _
  | MGovSetFeeParams _ _ => True
  | _ => False
  end ->
  handle e s m = LOk (s', r, evs) ->
  (forall a k, a <> signer m -> get_balance s' a k = get_balance s a k) /\ bank s' = bank s.
Proof. exact market_quiet_ownership. Qed.
Print Assumptions C03_market_no_transfer.

(* GovSendFromFeePool *)
Theorem C03_fee_pool : forall e s authority recipient coins s' r evs,
  handle e s (MGovSendFromFeePool authority recipient coins) = LOk (s', r, evs) ->
  authority = e_authority e /\ balances s' = balances s /\
  forall a d, a <> addr_feepool -> bank_bal s a d <= bank_bal s' a d.
Proof. exact fee_pool_ownership. Qed.
Print Assumptions C03_fee_pool.

(* one filled order of BuyDirect *)
Theorem C03_buy_one_order : forall id o buyer q bf st ar denom s s',
  Inv_core s -> Inv_bound s -> sell_orders s !! id = Some o -> in_ok q -> 0 < U q -> buyer <> so_seller o ->
  fill_order id o buyer q bf st ar denom s = LOk s' ->
  (* credits: the only third party touched is the seller, who loses exactly q units of escrow *)
  (forall a k, a <> buyer -> (a, k) <> (so_seller o, so_batch_key o) -> get_balance s' a k = get_balance s a k) /\
  U (bl_escrowed (get_balance s' (so_seller o) (so_batch_key o))) =
    U (bl_escrowed (get_balance s (so_seller o) (so_batch_key o))) - U q /\
  bl_tradable (get_balance s' (so_seller o) (so_batch_key o)) = bl_tradable (get_balance s (so_seller o) (so_batch_key o)) /\
  bl_retired (get_balance s' (so_seller o) (so_batch_key o)) = bl_retired (get_balance s (so_seller o) (so_batch_key o)) /\
  U q <= order_units o /\
  (* coins: only the buyer pays; the seller receives exactly the payment *)
  exists fee pay, 0 <= fee /\ 0 <= pay /\
    (forall a d, a <> buyer -> bank_bal s a d <= bank_bal s' a d) /\
    (so_seller o <> addr_feepool ->
     bank_bal s' (so_seller o) denom = bank_bal s (so_seller o) denom + pay) /\
    (forall d, bank_bal s buyer d - (if decide (d = denom) then fee + pay else 0) <= bank_bal s' buyer d).
Proof. exact fill_order_ownership. Qed.
Print Assumptions C03_buy_one_order.

(* each order of a BuyDirect is one fill_order call, by a buyer different from the seller, after the listed checks *)
Theorem C03_buy_inversion : forall e buyer s r s',
  Inv_ct s -> buy_one e buyer s r = LOk s' ->
  exists o ba ct q mk bid subtotal brate bfee total total_cost fee_trunc,
    sell_orders s !! by_id r = Some o /\ buyer <> so_seller o /\
    (by_disable_auto_retire r = true -> so_disable_auto_retire o = true) /\
    batches s !! so_batch_key o = Some ba /\ credit_type_of_denom s (ba_denom ba) = LOk ct /\
    posfixed P (by_quantity r) = Ok q /\ in_ok q /\ 0 < U q /\
    markets s !! so_market_id o = Some mk /\ by_bid r = Some bid /\ c_denom bid = mk_denom mk /\
    so_ask_amount o <= c_amount bid /\
    sub_total_cost (so_ask_amount o) q = LOk subtotal /\ buyer_rate s = LOk brate /\
    mul subtotal brate = Ok bfee /\ add subtotal bfee = Ok total /\
    sdk_int_trim total = Ok total_cost /\ sdk_int_trim bfee = Ok fee_trunc /\
    match by_max_fee r with None => fee_trunc <= 0 | Some mf => c_denom mf = mk_denom mk /\ fee_trunc <= c_amount mf end /\
    total_cost <= bank_bal s buyer (c_denom bid) /\
    fill_order (by_id r) o buyer q bfee subtotal (negb (by_disable_auto_retire r)) (mk_denom mk) s = LOk s'.
Proof. exact buy_one_inv. Qed.
Print Assumptions C03_buy_inversion.

(* begin-block *)
Theorem C03_begin_block : forall t s s',
  Inv_core s -> begin_block t s = LOk s' ->
  (forall a k, holdings s' a k = holdings s a k) /\
  (forall a k, U (bl_tradable (get_balance s a k)) <= U (bl_tradable (get_balance s' a k))) /\
  (forall a k, bl_retired (get_balance s' a k) = bl_retired (get_balance s a k)) /\
  bank s' = bank s.
Proof. exact begin_block_ownership. Qed.
Print Assumptions C03_begin_block.

(* ---- address spellings (Ledger/Spelling.v): the ownership statement for a message in ANY spelling, in particular for
   a MsgSend whose recipient is the sender's own account in the other bech32 spelling (a self-send the string comparison
   of ValidateBasic lets through): nobody but the signer loses tradable or escrowed credits or coins. ---- *)
Theorem C03_ownership_for_every_spelling : forall sp e s m,
  Inv_run s -> forall a, a <> signer m -> nonsigner_safe e m s (deliver_sp sp e s m).1 a.
Proof. exact ownership_deliver_sp. Qed.
Print Assumptions C03_ownership_for_every_spelling.

(* a role "transfer" to the holder's own account in the other spelling changes nothing at all *)
Theorem C03_self_addressed_class_admin_update_is_a_no_op : forall e s a cid s' r evs,
  handle e s (MUpdateClassAdmin a cid a) = LOk (s', r, evs) -> s' = s.
Proof. exact self_class_admin_noop. Qed.
Print Assumptions C03_self_addressed_class_admin_update_is_a_no_op.

Theorem C03_self_addressed_project_admin_update_is_a_no_op : forall e s a pid s' r evs,
  handle e s (MUpdateProjectAdmin a pid a) = LOk (s', r, evs) -> s' = s.
Proof. exact self_project_admin_noop. Qed.
Print Assumptions C03_self_addressed_project_admin_update_is_a_no_op.

Theorem C03_self_addressed_curator_update_is_a_no_op : forall e s a d s' r evs,
  handle e s (MUpdateCurator a d a) = LOk (s', r, evs) -> s' = s.
Proof. exact self_curator_noop. Qed.
Print Assumptions C03_self_addressed_curator_update_is_a_no_op.
