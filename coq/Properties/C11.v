(* C11 -- baskets admit only qualifying credits, release oldest first, honour auto-retire.

   [acceptable e s id k ba] (Ledger/InvBasketPut.v) is: the batch start date is not before the basket's date
   criterion at the block time ([date_ok], spelled out by C11_date_criterion), the class id parsed from the
   batch denom is on the basket's allowed list, and that class has the basket's credit type.
   [take_order_of] describes the release along [basket_rows] = the basket's balances sorted by (start date, denom). *)
From stdpp Require Import gmap.
From Coq Require Import ZArith NArith List Bool Strings.Byte.
Require Import Regen.Base.Bytes Regen.Base.Calendar Regen.Dec.Dec Regen.Dec.DecLemmas.
Require Import Regen.Ledger.Types Regen.Ledger.Msgs Regen.Ledger.Orm Regen.Ledger.BaseMsgs Regen.Ledger.BasketMsgs Regen.Ledger.Step.
Require Import Regen.Ledger.Amount Regen.Ledger.Inv Regen.Ledger.InvBasketLib Regen.Ledger.InvBasketRows Regen.Ledger.InvBasketPut Regen.Ledger.InvBasketTake Regen.Ledger.InvBasketEnabled.
Import ListNotations.
Local Open Scope Z_scope.

(* every credit of a successful Put was admissible in the pre-state *)
Theorem C11_put_only_if_admissible : forall e s owner bd cs s' r evs,
  Inv_core s -> h_put e s owner bd cs = LOk (s', r, evs) ->
  exists id k, basket_by_denom s bd = Some (id, k) /\
    Forall (fun c => exists bkey ba, batch_by_denom s (bcr_denom c) = Some (bkey, ba) /\ acceptable e s id k ba) cs.
Proof. exact h_put_admission. Qed.
Print Assumptions C11_put_only_if_admissible.

(* the three date criteria, in readable form *)
Theorem C11_date_criterion : forall crit T start,
  date_ok crit T start <->
  match crit with
  | DCNone => True
  | DCMinStart t => ts_compare start t <> Lt
  | DCWindow ds dn => ts_total_nanos T - duration_ns ds dn <= ts_total_nanos start
  | DCYears n => if n =? 0 then ts_compare start {| secs := ts_min_secs; nanos := 0 |} <> Lt
                 else year_of T - n <= year_of start
  end.
Proof. exact date_ok_spec. Qed.
Print Assumptions C11_date_criterion.

(* and conversely an admissible credit the owner holds can be put (magnitude guards: no exponent-range error; amount x 10^6 within 34 digits) *)
Theorem C11_put_succeeds_when_admissible : forall e owner id k s rec c bkey ba amt ub,
  Inv_core s ->
  batch_by_denom s (bcr_denom c) = Some (bkey, ba) ->
  acceptable e s id k ba ->                                  (* class allowed, credit type, date criteria *)
  posfixed P (bcr_amount c) = Ok amt ->                    (* amount > 0 with at most 6 decimal places *)
  dexp amt <= 0 -> num_digits (dcoef amt) <= precision128 -> (* amount * 10^6 fits 34 digits *)
  balances s !! (owner, bkey) = Some ub ->
  U amt <= U (bl_tradable ub) ->                           (* the owner holds enough tradable credits *)
  moderate (bl_tradable ub) ->                             (* magnitudes: no exponent-range error *)
  (forall bb, basket_balances s !! (id, ba_denom ba) = Some bb -> moderate (bb_balance bb)) ->
  exists s', put_one e owner id k P (s, rec) c = LOk (s', rec + U amt).
Proof. exact put_enabled. Qed.
Print Assumptions C11_put_succeeds_when_admissible.

(* Take releases along the (start date, denom) order, draining each batch before the next *)
Theorem C11_take_oldest_first : forall e s owner bd amount retire s' r evs,
  Inv_core s -> (forall t, parse_sdk_int amount = Some t -> 0 < t) ->
  h_take e s owner bd amount retire = LOk (s', r, evs) ->
  exists id k rel, basket_by_denom s bd = Some (id, k) /\ r = RTake (rendered rel) /\
    take_order_of s s' id rel /\
    (forall d, Forall (fun x => x.1 <> d) rel -> basket_balances s' !! (id, d) = basket_balances s !! (id, d)) /\
    (forall id' d, id' <> id -> basket_balances s' !! (id', d) = basket_balances s !! (id', d)).
Proof. exact take_order. Qed.
Print Assumptions C11_take_oldest_first.

(* a basket with auto-retire enabled only serves retire_on_take *)
Theorem C11_take_autoretire : forall e s owner bd amount retire s' r evs,
  h_take e s owner bd amount retire = LOk (s', r, evs) ->
  exists id k, basket_by_denom s bd = Some (id, k) /\ (bk_disable_auto_retire k = false -> retire = true).
Proof. exact take_autoretire. Qed.
Print Assumptions C11_take_autoretire.

(* and then the released credits land in the retired column *)
Theorem C11_taken_credits_arrive_retired : forall owner id s s' rel,
  take_effect owner id true s s' rel ->
  forall bk ba, batches s !! bk = Some ba ->
    bl_tradable (get_balance s' owner bk) = bl_tradable (get_balance s owner bk) /\
    U (bl_retired (get_balance s' owner bk)) = U (bl_retired (get_balance s owner bk)) + units_for (ba_denom ba) rel /\
    forall su, supplies s !! bk = Some su ->
      exists su', supplies s' !! bk = Some su' /\ su_cancelled su' = su_cancelled su /\
        U (su_tradable su') = U (su_tradable su) - units_for (ba_denom ba) rel /\
        U (su_retired su') = U (su_retired su) + units_for (ba_denom ba) rel.
Proof. exact take_retired_effect. Qed.
Print Assumptions C11_taken_credits_arrive_retired.

(* the model's fuel for the release loop is sufficient *)
Theorem C11_take_never_runs_out_of_fuel : forall owner id retire needed acc s,
  take_loop (S (length (basket_rows s id))) owner id retire needed acc s <> LErr LFuel.
Proof. exact take_loop_fuel. Qed.
Print Assumptions C11_take_never_runs_out_of_fuel.

